// translator: reads /repo's working tree (go/packages, full type information) and writes
// Generated/*.lean + facts.json. It translates only shapes with an unambiguous meaning:
// constants, composite-literal tables, switch statements over constants whose case bodies
// are a single return/assignment, struct tags. Anything else makes it fail loudly.
package main

import (
	"encoding/json"
	"fmt"
	"go/ast"
	"go/constant"
	"go/token"
	"go/types"
	"os"
	"path/filepath"
	"reflect"
	"sort"
	"strconv"
	"strings"

	"golang.org/x/tools/go/packages"
)

var fset *token.FileSet
var pkgs map[string]*packages.Package

// extractionError: the source no longer has the syntactic shape a fact is read from
type extractionError struct{ msg string }

func die(format string, a ...any) {
	panic(extractionError{fmt.Sprintf(format, a...)})
}

func fatal(format string, a ...any) {
	fmt.Fprintf(os.Stderr, "translator: "+format+"\n", a...)
	os.Exit(3)
}

// group runs one family of facts. When the source no longer has the shape the facts are read from (a refactoring, harmless or not),
// the family's files are written from /verif/translator/expected (the facts of the unchanged tree) with a FALLBACK header, and the
// failure is recorded: for that run the tie of those facts to the code is the correspondence check alone, which the caller reports.
func group(out string, facts map[string]any, name string, files []string, fn func()) {
	defer func() {
		r := recover()
		if r == nil {
			return
		}
		ee, ok := r.(extractionError)
		if !ok {
			panic(r)
		}
		exp := expectedDir()
		for _, f := range files {
			b, err := os.ReadFile(filepath.Join(exp, f))
			if err != nil {
				fatal("%s (and no expected facts to fall back to: %v)", ee.msg, err)
			}
			hdr := "-- FALLBACK: extraction failed (" + strings.ReplaceAll(ee.msg, "\n", " ") + "); facts of the unchanged tree kept, tie by correspondence only\n"
			if err := os.WriteFile(filepath.Join(out, f), append([]byte(hdr), b...), 0o644); err != nil {
				fatal("%v", err)
			}
		}
		fb, _ := facts["_fallback"].(map[string]string)
		if fb == nil {
			fb = map[string]string{}
		}
		fb[name] = ee.msg
		facts["_fallback"] = fb
		fmt.Fprintf(os.Stderr, "translator: FALLBACK %s: %s\n", name, ee.msg)
	}()
	fn()
}

func load(repo string) {
	cfg := &packages.Config{
		Mode: packages.NeedName | packages.NeedSyntax | packages.NeedTypes | packages.NeedTypesInfo |
			packages.NeedImports | packages.NeedDeps | packages.NeedFiles,
		Dir: repo,
		Env: append(os.Environ(), "GOFLAGS=-mod=mod", "GOPROXY=off", "GOSUMDB=off", "GOTOOLCHAIN=local"),
	}
	ps, err := packages.Load(cfg, "./...")
	if err != nil {
		fatal("load: %v", err)
	}
	pkgs = map[string]*packages.Package{}
	for _, p := range ps {
		if len(p.Errors) > 0 {
			fatal("package %s has errors: %v", p.PkgPath, p.Errors)
		}
		pkgs[p.Name] = p
		fset = p.Fset
	}
	for _, n := range []string{"webauthn", "cose", "tpm", "android", "fido"} {
		if pkgs[n] == nil {
			fatal("package %s not found", n)
		}
	}
}

// ---------- helpers ----------

func constInt(p *packages.Package, name string) int64 {
	o := p.Types.Scope().Lookup(name)
	c, ok := o.(*types.Const)
	if !ok {
		die("%s.%s is not a constant", p.Name, name)
	}
	v, ok := constant.Int64Val(constant.ToInt(c.Val()))
	if !ok {
		die("%s.%s is not an integer constant", p.Name, name)
	}
	return v
}

func constStr(p *packages.Package, name string) string {
	o := p.Types.Scope().Lookup(name)
	c, ok := o.(*types.Const)
	if !ok || c.Val().Kind() != constant.String {
		die("%s.%s is not a string constant", p.Name, name)
	}
	return constant.StringVal(c.Val())
}

func findFunc(p *packages.Package, recv, name string) *ast.FuncDecl {
	for _, f := range p.Syntax {
		for _, d := range f.Decls {
			fd, ok := d.(*ast.FuncDecl)
			if !ok || fd.Name.Name != name {
				continue
			}
			r := ""
			if fd.Recv != nil && len(fd.Recv.List) == 1 {
				t := fd.Recv.List[0].Type
				if s, ok := t.(*ast.StarExpr); ok {
					t = s.X
				}
				if id, ok := t.(*ast.Ident); ok {
					r = id.Name
				}
			}
			if r == recv {
				return fd
			}
		}
	}
	die("function %s.%s.%s not found", p.Name, recv, name)
	return nil
}

// describe an expression: constant value if constant, else a normalised source rendering in
// which every constant sub-expression is replaced by its value.
func describe(p *packages.Package, e ast.Expr) string {
	if tv, ok := p.TypesInfo.Types[e]; ok && tv.Value != nil {
		return tv.Value.ExactString()
	}
	switch x := e.(type) {
	case *ast.CallExpr:
		var args []string
		for _, a := range x.Args {
			args = append(args, describe(p, a))
		}
		return types.ExprString(x.Fun) + "(" + strings.Join(args, ",") + ")"
	case *ast.UnaryExpr:
		return x.Op.String() + describe(p, x.X)
	case *ast.CompositeLit:
		var parts []string
		for _, el := range x.Elts {
			if kv, ok := el.(*ast.KeyValueExpr); ok {
				parts = append(parts, types.ExprString(kv.Key)+":"+describe(p, kv.Value))
			} else {
				parts = append(parts, describe(p, el))
			}
		}
		t := ""
		if x.Type != nil {
			t = types.ExprString(x.Type)
		}
		return t + "{" + strings.Join(parts, ",") + "}"
	}
	return types.ExprString(e)
}

type caseRow struct {
	Keys    []string `json:"keys"` // constant case values; empty = default
	Results []string `json:"results"`
}

// switchTable extracts the n-th top-level `switch <tag> {…}` of a function whose case lists are
// constants and whose bodies are a single return / assignment (or empty).
func switchTable(p *packages.Package, fd *ast.FuncDecl, nth int) []caseRow {
	var sw *ast.SwitchStmt
	i := 0
	for _, st := range fd.Body.List {
		if s, ok := st.(*ast.SwitchStmt); ok && s.Tag != nil {
			if i == nth {
				sw = s
				break
			}
			i++
		}
	}
	if sw == nil {
		die("%s: switch #%d not found in %s", p.Name, nth, fd.Name.Name)
	}
	var rows []caseRow
	for _, c := range sw.Body.List {
		cc := c.(*ast.CaseClause)
		row := caseRow{}
		for _, e := range cc.List {
			tv, ok := p.TypesInfo.Types[e]
			if !ok || tv.Value == nil {
				die("%s.%s: non-constant case %s", p.Name, fd.Name.Name, types.ExprString(e))
			}
			row.Keys = append(row.Keys, tv.Value.ExactString())
		}
		switch len(cc.Body) {
		case 0:
			row.Results = []string{"<empty>"}
		case 1:
			switch b := cc.Body[0].(type) {
			case *ast.ReturnStmt:
				for _, r := range b.Results {
					row.Results = append(row.Results, describe(p, r))
				}
			case *ast.AssignStmt:
				if len(b.Lhs) != 1 || len(b.Rhs) != 1 {
					die("%s.%s: unsupported assignment in case", p.Name, fd.Name.Name)
				}
				row.Results = []string{types.ExprString(b.Lhs[0]) + "=" + describe(p, b.Rhs[0])}
			default:
				die("%s.%s: unsupported case body %T", p.Name, fd.Name.Name, b)
			}
		default:
			die("%s.%s: case body with %d statements", p.Name, fd.Name.Name, len(cc.Body))
		}
		rows = append(rows, row)
	}
	return rows
}

// ---------- Lean emission ----------

type leanFile struct {
	sb strings.Builder
}

func (l *leanFile) f(format string, a ...any) { fmt.Fprintf(&l.sb, format, a...) }

func leanStr(s string) string {
	var sb strings.Builder
	sb.WriteByte('"')
	for _, r := range s {
		switch {
		case r == '"':
			sb.WriteString("\\\"")
		case r == '\\':
			sb.WriteString("\\\\")
		case r < 32 || r > 126:
			if r > 0xffff {
				die("cannot render rune %x in a Lean string literal", r)
			}
			sb.WriteString(fmt.Sprintf("\\u%04x", r))
		default:
			sb.WriteRune(r)
		}
	}
	sb.WriteByte('"')
	return sb.String()
}

func leanInt(v int64) string {
	if v < 0 {
		return fmt.Sprintf("(%d)", v)
	}
	return strconv.FormatInt(v, 10)
}

func atoi(s string) int64 {
	v, err := strconv.ParseInt(s, 10, 64)
	if err != nil {
		die("expected integer, got %q", s)
	}
	return v
}

// intTable: rows key -> value for integer-keyed switch tables; returns sorted pairs and default
func intTable(rows []caseRow, valueOf func(string) string) (pairs [][2]string, def string) {
	def = "<none>"
	for _, r := range rows {
		v := valueOf(strings.Join(r.Results, "|"))
		if len(r.Keys) == 0 {
			def = v
			continue
		}
		for _, k := range r.Keys {
			pairs = append(pairs, [2]string{k, v})
		}
	}
	sort.Slice(pairs, func(i, j int) bool { return atoi(pairs[i][0]) < atoi(pairs[j][0]) })
	return
}

func main() {
	repo := "/repo"
	out := "/verif/lean/WebAuthnModel/Generated"
	if len(os.Args) > 1 {
		repo = os.Args[1]
	}
	if len(os.Args) > 2 {
		out = os.Args[2]
	}
	load(repo)
	facts := map[string]any{}
	group(out, facts, "cose", []string{"Cose.lean"}, func() { emitCose(out, facts) })
	group(out, facts, "core", []string{"Core.lean"}, func() { emitWebauthn(out, facts) })
	group(out, facts, "tpm-android", []string{"TpmAndroid.lean"}, func() { emitTpmAndroid(out, facts) })
	group(out, facts, "asn1-schema", []string{"Asn1Schema.lean"}, func() { emitAsn1(out, facts) })
	group(out, facts, "wire", []string{"Wire.lean"}, func() { emitWire(out, facts) })
	group(out, facts, "effects", []string{"Effects.lean"}, func() { emitT8(out, facts) })
	b, _ := json.MarshalIndent(facts, "", " ")
	if err := os.WriteFile(filepath.Join(out, "facts.json"), b, 0o644); err != nil {
		fatal("%v", err)
	}
}

func writeLean(out, name string, l *leanFile) {
	if err := os.WriteFile(filepath.Join(out, name), []byte(l.sb.String()), 0o644); err != nil {
		die("%v", err)
	}
}

// ---------- T1: cose ----------

func emitCose(out string, facts map[string]any) {
	p := pkgs["cose"]
	l := &leanFile{}
	l.f("-- GENERATED by /verif/translator from /repo/cose — do not edit\nnamespace WebAuthn.Generated.Cose\n\n")
	algNames := []string{"AlgorithmRS1", "AlgorithmRS512", "AlgorithmRS384", "AlgorithmRS256", "AlgorithmPS512",
		"AlgorithmPS384", "AlgorithmPS256", "AlgorithmES512", "AlgorithmES384", "AlgorithmEdDSA", "AlgorithmES256"}
	// all constants of type Algorithm / Curve / KeyType declared in the package
	var algs, curves, ktys [][2]string
	sc := p.Types.Scope()
	for _, n := range sc.Names() {
		c, ok := sc.Lookup(n).(*types.Const)
		if !ok {
			continue
		}
		tn := c.Type().String()
		v, ok := constant.Int64Val(constant.ToInt(c.Val()))
		if !ok {
			continue
		}
		pair := [2]string{n, strconv.FormatInt(v, 10)}
		switch {
		case strings.HasSuffix(tn, "cose.Algorithm"):
			algs = append(algs, pair)
		case strings.HasSuffix(tn, "cose.Curve"):
			curves = append(curves, pair)
		case strings.HasSuffix(tn, "cose.KeyType"):
			ktys = append(ktys, pair)
		}
	}
	_ = algNames
	emitNamed := func(name string, ps [][2]string) {
		sort.Slice(ps, func(i, j int) bool { return atoi(ps[i][1]) < atoi(ps[j][1]) })
		l.f("def %s : List (String × Int) := [", name)
		for i, pr := range ps {
			if i > 0 {
				l.f(", ")
			}
			l.f("(%s, %s)", leanStr(pr[0]), leanInt(atoi(pr[1])))
		}
		l.f("]\n")
	}
	emitNamed("algConsts", algs)
	emitNamed("curveConsts", curves)
	emitNamed("keyTypeConsts", ktys)
	facts["cose.algConsts"] = algs
	facts["cose.curveConsts"] = curves
	facts["cose.keyTypeConsts"] = ktys

	emitIntTable := func(name string, rows []caseRow, valueOf func(string) string, valType string) {
		pairs, def := intTable(rows, valueOf)
		l.f("def %s : List (Int × %s) := [", name, valType)
		for i, pr := range pairs {
			if i > 0 {
				l.f(", ")
			}
			l.f("(%s, %s)", leanInt(atoi(pr[0])), pr[1])
		}
		l.f("]\n")
		if def != "<none>" {
			l.f("def %sDefault : %s := %s\n", name, valType, def)
		}
		facts["cose."+name] = map[string]any{"pairs": pairs, "default": def}
	}
	ident := func(s string) string { return strconv.FormatInt(atoi(s), 10) }
	// Hash(): crypto.Hash numeric ids (crypto.SHA1 = 3, SHA256 = 5, SHA384 = 6, SHA512 = 7), 0 = none
	emitIntTable("hashTable", switchTable(p, findFunc(p, "Algorithm", "Hash"), 0), ident, "Nat")
	// X509SignatureAlgorithm(): x509.SignatureAlgorithm numeric ids
	emitIntTable("x509Table", switchTable(p, findFunc(p, "Algorithm", "X509SignatureAlgorithm"), 0), ident, "Nat")
	// NewECDSAPublicKey: alg -> hash id given to getECDSAVerifyFunc ; default must be an error return
	ecRows := switchTable(p, findFunc(p, "", "NewECDSAPublicKey"), 0)
	emitIntTable("ecdsaVerifyTable", ecRows, func(s string) string {
		const pre = "verify=getECDSAVerifyFunc("
		if strings.HasPrefix(s, pre) {
			return ident(strings.TrimSuffix(strings.TrimPrefix(s, pre), ")"))
		}
		if strings.HasPrefix(s, "nil|") && strings.Contains(s, "ErrUnsupportedAlgorithm") {
			return "<none>"
		}
		die("NewECDSAPublicKey: unexpected case body %q", s)
		return ""
	}, "Nat")
	rsaRows := switchTable(p, findFunc(p, "", "NewRSAPublicKey"), 0)
	emitIntTable("rsaVerifyTable", rsaRows, func(s string) string {
		for _, k := range [][2]string{{"verify=getRSAVerifyPKCS1v15Func(", "0"}, {"verify=getRSAVerifyPSSFunc(", "1"}} {
			if strings.HasPrefix(s, k[0]) {
				return "(" + k[1] + ", " + ident(strings.TrimSuffix(strings.TrimPrefix(s, k[0]), ")")) + ")"
			}
		}
		if strings.HasPrefix(s, "nil|") && strings.Contains(s, "ErrUnsupportedAlgorithm") {
			return "<none>"
		}
		die("NewRSAPublicKey: unexpected case body %q", s)
		return ""
	}, "(Nat × Nat)")
	// defaults of the two constructor switches must be error returns
	for _, rr := range [][]caseRow{ecRows, rsaRows} {
		for _, r := range rr {
			if len(r.Keys) == 0 && !(len(r.Results) == 2 && r.Results[0] == "nil" && strings.Contains(r.Results[1], "ErrUnsupportedAlgorithm")) {
				die("constructor default branch is not an ErrUnsupportedAlgorithm return: %v", r.Results)
			}
		}
	}
	// the hash actually used by the verify closures: getECDSAVerifyFunc / PKCS1v15 / PSS use their parameter
	// UnmarshalECDSAPublicKey: switch #0 on obj.Type, switch #1 on obj.Curve
	ufd := findFunc(p, "", "UnmarshalECDSAPublicKey")
	ktRows := switchTable(p, ufd, 0)
	crvRows := switchTable(p, ufd, 1)
	var ec2Kty, ec2Curves []string
	for _, r := range ktRows {
		if len(r.Keys) > 0 && r.Results[0] == "<empty>" {
			ec2Kty = append(ec2Kty, r.Keys...)
		}
	}
	var crvPairs [][2]string
	for _, r := range crvRows {
		if len(r.Keys) > 0 {
			const pre = "curve=elliptic."
			if !strings.HasPrefix(r.Results[0], pre) {
				die("UnmarshalECDSAPublicKey: unexpected curve case %q", r.Results[0])
			}
			for _, k := range r.Keys {
				ec2Curves = append(ec2Curves, k)
				crvPairs = append(crvPairs, [2]string{k, strings.TrimSuffix(strings.TrimPrefix(r.Results[0], pre), "()")})
			}
		}
	}
	l.f("def ec2KeyTypes : List Int := [%s]\n", strings.Join(ec2Kty, ", "))
	l.f("def ec2Curves : List (Int × String) := [")
	for i, pr := range crvPairs {
		if i > 0 {
			l.f(", ")
		}
		l.f("(%s, %s)", pr[0], leanStr(pr[1]))
	}
	l.f("]\n")
	facts["cose.ec2Curves"] = crvPairs
	// EllipticCurve(): Curve -> elliptic curve
	ecRows2 := switchTable(p, findFunc(p, "Curve", "EllipticCurve"), 0)
	l.f("def ellipticCurveTable : List (Int × String) := [")
	first := true
	for _, r := range ecRows2 {
		for _, k := range r.Keys {
			if !first {
				l.f(", ")
			}
			first = false
			l.f("(%s, %s)", k, leanStr(strings.TrimSuffix(strings.TrimPrefix(r.Results[0], "elliptic."), "()")))
		}
	}
	l.f("]\n")
	// UnmarshalEdDSAPublicKey: switch #0 on obj.Algorithm, #1 on obj.Curve; if-conditions for type and length
	efd := findFunc(p, "", "UnmarshalEdDSAPublicKey")
	okpAlg := switchTable(p, efd, 0)
	okpCrv := switchTable(p, efd, 1)
	var okpAlgs, okpCrvs []string
	for _, r := range okpAlg {
		if len(r.Keys) > 0 && r.Results[0] == "<empty>" {
			okpAlgs = append(okpAlgs, r.Keys...)
		}
	}
	for _, r := range okpCrv {
		if len(r.Keys) > 0 && r.Results[0] == "<empty>" {
			okpCrvs = append(okpCrvs, r.Keys...)
		}
	}
	l.f("def okpAlgs : List Int := [%s]\n", joinInts(okpAlgs))
	l.f("def okpCurves : List Int := [%s]\n", joinInts(okpCrvs))
	// if-conditions in UnmarshalEdDSAPublicKey, rendered with constants resolved
	var conds []string
	for _, st := range efd.Body.List {
		if is, ok := st.(*ast.IfStmt); ok && is.Init == nil {
			conds = append(conds, describeCond(p, is.Cond))
		}
	}
	l.f("def okpConds : List String := [")
	for i, c := range conds {
		if i > 0 {
			l.f(", ")
		}
		l.f("%s", leanStr(c))
	}
	l.f("]\n")
	facts["cose.okpConds"] = conds
	// UnmarshalRSAPublicKey key-type switch and UnmarshalPublicKey dispatch
	rfd := findFunc(p, "", "UnmarshalRSAPublicKey")
	var rsaKty []string
	for _, r := range switchTable(p, rfd, 0) {
		if len(r.Keys) > 0 && r.Results[0] == "<empty>" {
			rsaKty = append(rsaKty, r.Keys...)
		}
	}
	l.f("def rsaKeyTypes : List Int := [%s]\n", strings.Join(rsaKty, ", "))
	disp := switchTable(p, findFunc(p, "", "UnmarshalPublicKey"), 0)
	l.f("def keyDispatch : List (Int × String) := [")
	first = true
	for _, r := range disp {
		for _, k := range r.Keys {
			if !first {
				l.f(", ")
			}
			first = false
			fn := r.Results[0]
			if i := strings.Index(fn, "("); i >= 0 {
				fn = fn[:i]
			}
			l.f("(%s, %s)", k, leanStr(fn))
		}
	}
	l.f("]\n")
	// struct tags of the four CBOR key structures
	for _, sn := range []string{"publicKeyStructure", "publicKeyStructureEC2", "publicKeyStructureOKP", "publicKeyStructureRSA"} {
		l.f("def %sFields : List (String × String × String) := [", sn)
		for i, fl := range structFields(p, sn) {
			if i > 0 {
				l.f(", ")
			}
			l.f("(%s, %s, %s)", leanStr(fl[0]), leanStr(fl[1]), leanStr(fl[2]))
		}
		l.f("]\n")
	}
	l.f("\nend WebAuthn.Generated.Cose\n")
	writeLean(out, "Cose.lean", l)
}

func joinInts(xs []string) string {
	var o []string
	for _, x := range xs {
		o = append(o, leanInt(atoi(x)))
	}
	return strings.Join(o, ", ")
}

func describeCond(p *packages.Package, e ast.Expr) string {
	switch x := e.(type) {
	case *ast.BinaryExpr:
		return describeCond(p, x.X) + " " + x.Op.String() + " " + describeCond(p, x.Y)
	case *ast.ParenExpr:
		return "(" + describeCond(p, x.X) + ")"
	case *ast.UnaryExpr:
		return x.Op.String() + describeCond(p, x.X)
	}
	return describe(p, e)
}

// structFields returns (name, go type, tag string) per field
func structFields(p *packages.Package, name string) [][3]string {
	o := p.Types.Scope().Lookup(name)
	if o == nil {
		die("%s.%s not found", p.Name, name)
	}
	st, ok := o.Type().Underlying().(*types.Struct)
	if !ok {
		die("%s.%s is not a struct", p.Name, name)
	}
	var res [][3]string
	for i := 0; i < st.NumFields(); i++ {
		f := st.Field(i)
		res = append(res, [3]string{f.Name(), types.TypeString(f.Type(), func(*types.Package) string { return "" }), st.Tag(i)})
	}
	return res
}

var _ = reflect.StructTag("")
