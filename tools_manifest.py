#!/usr/bin/python3
"""Regenerates MANIFEST.json from the per-property table below (keeps it schema-valid)."""
import json
ids = [json.loads(l)["id"] for l in open("/verif/properties.jsonl")]
TB = ("Trusted: Lean 4.33 kernel (propext, Classical.choice, Quot.sound only); Spec/*.lean transcriptions; the Go translator "
      "and correspondence harness; dependencies answered as oracles (Go crypto primitives, crypto/x509 parsing and path validation, the decoding of the metadata payload, the set of linked hash algorithms; crypto/x509's and "
      "go-jose's signature checks as a whole only for certificate keys of a kind the certificate view does not describe); "
      "encoding/asn1 (key description, Apple nonce, AAGUID extension, SAN/RDN walk), encoding/json (client data), net/url (host extraction), go-tpm "
      "TPMS_ATTEST / TPMT_PUBLIC codec, go-jose's compact JWS parsing / signing input / algorithm-to-primitive table / SafetyNet claims decoding, crypto/x509's CheckSignature algorithm table, base64, uuid and fxamacker/cbor are Lean MODELS of the installed versions, tied to those packages by differential execution, not by translation of their source. "
      "The theorems are about the Lean model; the model is tied to /repo by regenerated tables (translator) and by "
      "differential execution (harness) on every run.")
claimed = {
 "C14": dict(
   text="Lean theorems: base64url (RawURLEncoding) round-trips for all byte strings, its output stays in the URL-safe alphabet without padding, and decoding rejects '=', "
        "'+', '/', spaces, any other non-alphabet byte and lengths 1 mod 4; for the schema-driven JSON encoder/decoder, Unmarshal(Marshal v) = norm v for every "
        "well-typed value of each of the eleven wire types (general member_roundtrip by induction on nesting, for any schema table with distinct member names), binary "
        "members are exactly unpadded base64url strings, nullable ones null when empty, timeouts integer milliseconds, an error in any member at any nesting level "
        "fails the whole Unmarshal, re-marshalling is stable. Tie: the wire schemas are hand-written from WebAuthn L2; the translator's facts about every "
        "MarshalJSON/UnmarshalJSON (shadowed members, Go types, JSON tags, helper calls, receiver kinds), the struct tags and the four base64 helpers are regenerated and "
        "pinned; random values and malformed binary members are run through encoding/json + the real methods and compared with the model.",
   ref="DESIGN.md §8 C14", technique="Lean 4 proof (codec round trips, schema-generic) over pinned regenerated method facts + differential execution"),
 "C03": dict(
   text="Lean theorems: the signed messages are injective functions of the covered fields for all lengths (authData || hash with fixed hash length; the fido-u2f "
        "message with a variable-length credential id in the middle); for each signed format acceptance implies that the binding oracle answered positively on exactly "
        "that message under the presented certificate / credential key (packed x5c & self, fido-u2f, android-key, tpm incl. extraData, apple nonce, SafetyNet nonce); "
        "under explicit idealised hypotheses (SigBinds / HashInj / ShaTotal) two objects sharing the statement and accepted for (a,h), (a',h') have a = a' and h = h' "
        "(rpIdHash, credential id and the public-key point for fido-u2f: u2f_binds_point, true since the repair of D15 — before it only the leading 32 bytes of each "
        "coordinate were bound). The signature checks are explicit: X509Sig.Checked / Jws.SignedBy name the primitive, hash and key kind (tables of crypto/x509 and go-jose "
        "modelled in Lean). Packed self attestation is stated _partial (equal key material) with a kernel-checked "
        "counterexample to the unrestricted statement. Tie: bit-flip streams over authenticator data, hash and binding elements, short / empty / over-long binding values, "
        "credential keys wider than the signed data, against the real verifiers.",
   ref="DESIGN.md §8 C03, §0.5 (D15)", technique="Lean 4 proof (message-format injectivity, binding under explicit crypto hypotheses) + differential bit-flip execution",
   note="D15 (fido-u2f accepted credential keys whose coordinates exceed the 32 signed bytes) was found by this check and repaired in /repo (fix: 774478d)."),
 "C04": dict(
   text="Lean theorems: for every environment each format's verifier accepts IF AND ONLY IF the declarative requirement list of that format holds (Spec/Attestation.lean: "
        "packed x5c v3 / not CA / C,O,CN non-empty / OU literal / AAGUID extension non-critical and equal; packed self alg = key alg and credential key signed; fido-u2f "
        "exactly one certificate with P-256 key and EC2 credential key; tpm magic / type / name = digest of pubArea under pubArea.nameAlg / pubArea key = credential key / "
        "AIK v3, not CA, EKU, SAN hardware details; android-key certificate key = credential key, allApplications absent in both lists, TEE purpose SIGN and origin "
        "GENERATED, challenge = hash; apple certificate key = credential key and nonce; SafetyNet: the response is a compact JWS (Lean model of go-jose's parsing) whose x5c entries are "
        "certificates, the first valid for attest.android.com with the others as intermediates, signed under that certificate's key, with claims that decode and a nonce equal to "
        "SHA-256(authData || clientDataHash)), plus the dispatcher. "
        "Tie: one differential stream per requirement with everything else re-signed consistently.",
   ref="DESIGN.md §8 C04", technique="Lean 4 proof (accept iff requirement list, per format, for all environments) + per-requirement differential execution",
   note="Known finding D14 (Keymaster NULL-typed elements in the published encoding are not read by encoding/asn1) is reported as KNOWN-FINDING."),
 "C05": dict(
   text="The (<-) directions of the per-format iff theorems (C04.*_iff), of C02.regPre_iff / reg_iff and of C01.auth_iff: whatever satisfies the declarative conditions "
        "is accepted, with the format's attestation type (result_type) and the x5c list as trust path (trust_path_is_x5c); counter, BE/BS flags, extension data, "
        "credential-id length and unknown client-data members do not occur in the conditions. Tie: honest registration+assertion pairs over the full format x key kind "
        "x attestation key product with benign variation, ground truth = accepted, against the real ceremonies.",
   ref="DESIGN.md §8 C05", technique="Lean 4 proof (converse directions of the acceptance iff theorems) + differential execution of honest ceremonies"),
 "C09": dict(
   text="PARTIAL. Lean: the model is total by construction; CBOR fuel is never the reason for a reject and is linear in the input; nesting beyond 32 is rejected; the "
        "absent-optional cases (no authenticatorSelection, no attested credential data, TPM name without digest, empty x5c) are explicit rejects / non-demands; the "
        "regenerated panic-site facts over all non-test code are the reviewed ones (explicit panics only at init / test helper, no single-value type assertion, every "
        "optional-pointer dereference nil-checked, constant-index sites pinned). Tie: 25 entry points under recover + time budget on mutated, random, extreme and "
        "structurally-deleted inputs; a panic, hang or oversized heap is a disagreement with the model's answer.",
   ref="DESIGN.md §8 C09", technique="Lean 4 proof of model totality / fuel sufficiency + pinned panic-site facts + crash/timeout differential execution",
   note="PARTIAL: Go runtime behaviour (panics in dependencies, time, memory) is observed, not proved."),
 "C16": dict(
   text="PARTIAL. Lean: regenerated effect facts over all non-test code are the reviewed ones (no package-level write outside init, no goroutine, no RelyingParty method "
        "writes through its receiver, no write through parameters except one local helper); in the model a ceremony's outcome is a function of its arguments and of the "
        "storage answers it obtains only (registration: the answers at the attested id; authentication: the answer for the response's id), which is the "
        "interleaving-independence statement over a linearizable storage. Tie: race-detector build; concurrent mixed ceremonies on one RelyingParty vs each run alone vs "
        "the model; deep before/after comparison of options, credentials and stored records; repeated calls; package tables before/after.",
   ref="DESIGN.md §8 C16", technique="Lean 4 proof over regenerated effect facts + model-level independence + race-detector differential execution",
   note="PARTIAL: the Go memory model and scheduler are outside the model; races are detected only on interleavings that occur."),
 "C07": dict(
   text="Lean theorem history_refines: for ANY finite history of registrations and authentications (any length, any universe, any environment) against the "
        "in-memory storage, every ceremony's outcome and the resulting storage equal those of the reference state machine id -> (owner, key) (forward simulation "
        "step_refines + induction over the history). Consequences proved about the reference machine: failed ceremonies are stutters, authentication never changes "
        "state, registration binds exactly (options.user.id, attested key) to the attested id, an id is never re-bound to another user, owners are stable along any "
        "history, assertions are decided against the CURRENT binding (so after re-registration the new key), untouched ids keep their binding. The per-ceremony "
        "decisions are those characterised by C01.auth_iff / C02.regPre_iff. Tie: random and exhaustive bounded histories run against the real RelyingParty + "
        "InMemoryCredentialStorage, compared step by step with the reference machine and the model.",
   ref="DESIGN.md §8 C07", technique="Lean 4 proof (refinement to an abstract map by induction over histories) + differential execution of histories"),
 "C13": dict(
   text="Lean theorems: the label walk accepts exactly when the RP host is non-empty and the client host equals it or ends with '.'+RP host, for ALL byte strings "
        "(labelWalk_iff), the Go loop transcription on fuel computes the same, parent / no-boundary-suffix / prefix-label cases are rejected; at ceremony level the "
        "origin test is equivalent to that condition on the hosts Url.hostOf (the model of url.Parse(..).Hostname()) reports, only those hosts matter (scheme, port irrelevant), unparsable and host-less "
        "origins are rejected, the RP ID is the host of the configured origin, and both ceremonies accept only authenticator data whose RP ID hash is SHA-256 of "
        "exactly that RP ID. Tie: ceremonies whose only variable is the origin / hashed RP ID, exhaustive label sequences, placements of the RP host inside foreign "
        "URLs with ground truth, random strings.",
   ref="DESIGN.md §8 C13", technique="Lean 4 proof (label walk iff over all strings) + differential execution through real ceremonies",
   note="Host extraction is a Lean model of net/url (Model/Url.lean) tied to net/url by correspondence (2 million cases in the thorough tier); C13Url.hostOf_render proves that a URL "
        "rendered from well-formed components reports exactly its host component whatever stands in user-info, port, path, query and fragment, and hostOf_no_delimiters that a reported host "
        "never contains / ? # @ or a backslash."),
 "C15": dict(
   text="Lean theorems: UnmarshalMetadataBLOBPayload (model) returns a payload iff (compact serialisation, through the Lean model of go-jose's ParseSigned) the token is "
        "three base64url parts with a decodable protected header, every x5c entry is a certificate, there is at least one, the FIRST validates against the CONFIGURED pool "
        "(default = embedded root; the last WithRootCA wins) with the others as intermediates, the signature verifies under that first certificate's key, and the payload "
        "returned is the decoding of the token's own payload segment, the one inside the verified signing input (blob_iff, blob_payload_is_signed, C04Jws.signingInput_inj; "
        "for every environment); rejection corollaries per deviation (unparsable, missing chain, chain not valid for the pool, signature not valid under the first key); "
        "AAGUID text form round-trips for all 2^128 values, the other accepted forms denote the same value, the text form is injective. Tie: differential execution on "
        "generated PKIs / JWS with 31 deviation kinds (ground truth by construction, CA constraints included), segment mutations, the recorded BLOB, AAGUID strings, and the "
        "jws.* streams comparing the Lean JWS model with go-jose.",
   ref="DESIGN.md §8 C15, §0.2 (JWS)", technique="Lean 4 proof of the composition over a Lean model of go-jose's JWS parsing and PKI / signature oracles + differential execution",
   note="PARTIAL: x509 parsing and path validation, the signature check and the JSON decoding of the payload into MetadataBLOBPayload are assumed (crypto/x509, go-jose); the JSON serialisation "
        "of JWS and a jwk header member are answered by go-jose as a whole (BlobOK.opaque)."),
 "C17": dict(
   text="Lean theorems: UnmarshalVendorID accepts exactly 'id:' + eight hexadecimal digits and returns those four bytes (vendorId_iff, all strings); the regenerated "
        "vendor table is the reviewed one and a subset of the TCG registry plus the documented pseudo vendor; hardware details are extracted iff every string-valued "
        "manufacturer attribute parses to a registered vendor and the last manufacturer / model / version attributes exist with non-empty model and version, returning "
        "those values (hardwareDetails_iff); only the first context-specific [4] general name counts and the class matters; the Keymaster struct tags are pinned, all "
        "their tag numbers occur in the published schema, and purpose / allApplications / origin are 1 / 600 / 702. UnmarshalKeyDescription / Marshal are a Lean model "
        "of encoding/asn1 (strict DER headers, the cursor algorithm over optional explicit members, INTEGER / ENUMERATED / BOOLEAN / OCTET STRING / SET OF) "
        "instantiated with the struct schemas regenerated from android/key.go: the regenerated schema is the published tag table (authList_schema_published), "
        "Unmarshal(Marshal v ++ rest) = (v, rest) for every well-formed key description (unmarshal_marshal), headers and integers are canonical, and the "
        "NULL-typed-member defect D14 is a theorem about the model (explicit_null_not_read, authList_stalls_at_explicit_null, kernel-evaluated witnesses). "
        "Tie: vendor table, OIDs, constants, struct schemas regenerated from source; differential execution on exhaustive short strings, sampled ids, "
        "certificates with all attribute subsets/orders; key descriptions (valid, reordered, damaged, hand-written corner cases, random) from an independent DER "
        "encoder against the real Unmarshal / Marshal, value by value.",
   ref="DESIGN.md §8 C17, §0.2", technique="Lean 4 proof over regenerated tables and schemas (incl. ASN.1 codec round trip) + differential execution with ground truth",
   note="The SAN / RDN walk is modelled at byte level (Model/San.lean; C17San.parseExt_tpmSan); time-typed attribute values are unmodelled and skipped. Known finding D14 (NULL-typed Keymaster elements encoded as EXPLICIT NULL are not read) is listed in known_findings.json and reported as KNOWN-FINDING."),
 "C02": dict(
   text="Lean theorems: the registration model decomposes into a storage-independent decision and a storage step (reg_decompose); the decision succeeds iff "
        "every ceremony condition of the property holds and then yields the ATTESTED credential id and key (regPre_iff against Spec.RegPreOK: client-data type / "
        "challenge / origin, attestation object decodes, SHA-256(RP ID), UP, UV when authenticatorSelection.userVerification is 'required' and only then, attested "
        "credential data present, supported COSE key whose algorithm is in pubKeyCredParams, the format's procedure accepts, type and format allowed, raw id = "
        "attested id); reg_iff adds the storage conditions; absent authenticatorSelection only removes the UV demand; no attested data / raw id mismatch / empty "
        "policy sets always reject; non-vacuity by evaluating a concrete 113-byte attestation object in the kernel. Tie: differential execution of the compiled "
        "model against VerifyRegistrationCeremony on honest, single-deviation, combined and mutated responses in all eight format variants.",
   ref="DESIGN.md §8 C02", technique="Lean 4 proof (decision iff conditions, for all environments and storages) + differential execution"),
 "C06": dict(
   text="Lean theorems: on success the call log is exactly [get id, set record] with record = (attested id, options.user.id, attested key bytes), the same record "
        "is returned, and the write was acknowledged; on failure no write was acknowledged; at most one read then at most one write; an id owned by another user "
        "yields differentUser with only the read performed; a read error other than (wrapped) not-found fails with the storage error and no write; a write error is "
        "a failure; authentication performs at most one read of the response's id and never writes, and depends on storage only through that answer. All for every "
        "storage answer at every call site (the fault-sequence quantifier is a case split in the proof). Tie: call order regenerated from source (T9) and pinned; "
        "the harness plays the complete outcome product through its own CredentialStorage against honest and rejected ceremonies.",
   ref="DESIGN.md §8 C06", technique="Lean 4 proof by case split over the storage outcome alphabet + exhaustive fault-product differential execution"),
 "C08": dict(
   text="Lean theorems: for ANY option list the effective format/type sets are those of the last option of each kind, else all seven formats / six types "
        "(config_spec, by induction over the list); registration success implies format and type are in those sets; an empty set rejects everything; a fmt that is "
        "not exactly one of the seven identifiers is rejected by statement verification under every configuration (dispatch table regenerated from source, default "
        "branch is an error). Tie: format/type lists, dispatch table, per-verifier result types and the 'setter replaces the map' fact are regenerated and pinned; "
        "ceremonies are run under sampled (quick) or all 2^13 (thorough) subset pairs, arbitrary option lists and odd fmt strings.",
   ref="DESIGN.md §8 C08", technique="Lean 4 proof (fold over arbitrary option lists) over regenerated tables + differential execution"),
 "C01": dict(
   text="Lean theorem auth_iff: for every environment (dependency behaviour), RP, options, response and storage answer, the model of "
        "VerifyAuthenticationCeremony returns a credential iff the ten conditions of the property hold (allow-list, stored record, owner = user handle, "
        "client-data type / challenge = unpadded base64url / origin host equal-or-subdomain, authenticator-data layout with SHA-256(RP ID), UP bit 0, UV bit 2 "
        "when required, signature under the stored key over authenticatorData || SHA-256(clientDataJSON) by the standard primitive of the key's algorithm); "
        "the record returned is the stored one; unknown ids yield the storage's own error; one corollary per violated condition; non-vacuity witness. "
        "Client data is decoded by a Lean model of encoding/json (Model/Json.lean: RFC 8259 syntax with Go's depth limit, case-folded member matching, "
        "last duplicate wins, type errors, unquoting with U+FFFD replacement), with C01Json.clientData_canonical for the documents clients write. "
        "Tie: constants regenerated from source; the compiled model is executed against the real ceremony on honest, single-deviation, combined and "
        "byte-mutated responses, comparing accept/reject, the returned record, the storage call log and storage contents; ground truth by construction is "
        "asserted separately.",
   ref="DESIGN.md §8 C01", technique="Lean 4 proof (accept iff ten conditions, for all environments) + differential execution (crypto answered by the standard library; JSON and URL decided by the model)"),
 "C11": dict(
   text="Lean theorems about the model of the four COSE parsers: each type-specific parser accepts exactly when the struct-decoded members classify "
        "as a supported key under a declarative classifier transcribed from the standards (EC2 x {P-256,P-384,P-521} x {ES256,ES384,ES512}; OKP/Ed25519/32 "
        "bytes/EdDSA-or-absent; RSA x seven algorithms, exponent fits), and the key returned carries exactly the encoded members; the dispatching parser "
        "returns only supported keys with nothing after them, rejects trailing or malformed data as invalid key; the type-specific parsers return the "
        "following bytes; Marshal then parse yields the same key (normalised magnitudes) for every supported key. Tie: dispatch/curve/algorithm tables, "
        "struct tags and the OKP condition order are regenerated from cose/*.go and pinned by theorems; the model is run against the real parsers and "
        "Marshal on the streams listed in the evidence, comparing accept/reject, the sentinel class, key numbers, remaining bytes and Marshal bytes.",
   ref="DESIGN.md §8 C11", technique="Lean 4 proof (classification iff, round trip) over regenerated tables + differential execution"),
 "C10": dict(
   text="Lean theorems about the model of UnmarshalAuthenticatorData / UnmarshalAttestedCredentialData / Marshal / extractCBOR: acceptance is "
        "equivalent to the WebAuthn layout (32/1/4 bytes, attested credential data iff bit 6, one CBOR item iff bit 7), every field is the "
        "corresponding slice of the input and the suffix is returned; Marshal(Unmarshal b) is the consumed prefix; Unmarshal(Marshal d ++ s) = (d, s) "
        "for every well-formed d; every truncation inside the consumed prefix is rejected (via prefix-freeness of the CBOR decoder, proved by "
        "induction on fuel for items of any size and nesting, with fuel sufficiency); flag accessors test bits 0/2/6/7 for all 256 bytes. "
        "Tie: layout constants and accessor masks regenerated from source; the Lean parser and CBOR decoder are run against the real functions on "
        "structured, prefix, mutated and random inputs, and the implementation's own Marshal(Unmarshal) is checked against the consumed prefix.",
   ref="DESIGN.md §8 C10", technique="Lean 4 proof (layout iff, round trips, prefix-freeness by induction) + differential execution of the compiled model",
   note="The attestation-object sentence is modelled in Cbor/AttObj.lean; Theorems/C10AttObj.lean proves that further members (text keys naming none of the three, integer keys) "
        "at any position change nothing, that the three members decode to their values in each of the six orders, that a repeated member after its first occurrence changes nothing, "
        "and that the remaining bytes are what follows the one decoded item (with every proper prefix rejected); the attObj.members / prefixes / mutated streams compare "
        "UnmarshalAttestationObject with the model on objects of every format."),
 "C12": dict(
   text="Lean theorems: the regenerated Hash/X509SignatureAlgorithm/verify-constructor tables equal the IANA tables for every integer "
        "(default branch included), and Verify asks exactly the standard (scheme, hash) primitive under the key's own material for every "
        "environment. Tie: tables regenerated from cose/*.go on each run; correspondence runs both table functions on every integer in "
        "[-70000,1000] against the Spec and the signer x verifier cross product (with other key / other message / bit flips) against the "
        "model with stdlib-answered primitives.",
   ref="DESIGN.md §8 C12", technique="Lean 4 proof over regenerated tables + differential execution against the compiled model"),
}
na_reason = "check not built yet (work in progress; DESIGN.md §12 build order)"
m = {
 "version": 1,
 "setup_cmd": "cd /verif && ./check --setup",
 "hooks": {"guard": "verif", "enable": "no hooks: the checks drive /repo through its exported API (harness module with `replace github.com/pomerium/webauthn => /repo`, rebuilt from the working tree on every run)",
           "baseline_off_cmd": "cd /repo && go test -vet=off -count=1 ./...", "source_commits": [], "add_only": True},
 "engines": [
  {"name": "lean-model", "path": "lean/", "serves_properties": sorted(claimed), "kind_free_text": "Lean 4 model (WebAuthnModel), theorems per property, compiled core-only driver `wadriver`"},
  {"name": "translator", "path": "translator/", "serves_properties": sorted(claimed), "kind_free_text": "Go (go/packages): regenerates Generated/*.lean from /repo's working tree"},
  {"name": "harness", "path": "harness/", "serves_properties": sorted(claimed), "kind_free_text": "Go: generators, real-code runner, oracle server, differ"},
 ],
 "checks": [],
 "not_applicable": [],
 "notes": "Fix commits to /repo and recorded findings: known_findings.json. Replays: replays/. DESIGN.md explains the approach.",
}
for i in ids:
    if i in claimed:
        c = claimed[i]
        m["checks"].append({
            "property_id": i,
            "quick_cmd": "./check %s --tier quick" % i,
            "thorough_cmd": "./check %s --tier thorough" % i,
            "evidence_file": "/verif/evidence/%s.json" % i,
            "replay_cmd_template": "./check replay {path}",
            "engine": "lean-model",
            "level_claimed": {"category": "proof", "text": c["text"], "design_ref": c["ref"]},
            "level_note": TB + (" " + c["note"] if "note" in c else ""),
            "technique": c["technique"],
        })
    else:
        m["not_applicable"].append({"property_id": i, "reason": na_reason})
json.dump(m, open("/verif/MANIFEST.json", "w"), indent=1)
print("claimed:", sorted(claimed))
