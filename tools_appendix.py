#!/usr/bin/python3
"""Regenerates Appendix E of DESIGN.md (proof obligations per property) from theorems.json."""
import json, collections
t = json.load(open("/verif/theorems.json"))
out = ["## Appendix E — proof obligations per property (generated from `theorems.json`)", "",
       "Each name is audited on every run with `#print axioms`; an obligation counts as discharged when its module builds and its axioms are within",
       "{propext, Classical.choice, Quot.sound}.", ""]
total = 0
for pid in sorted(t):
    e = t[pid]
    if not isinstance(e, dict) or "theorems" not in e:
        continue
    by = collections.OrderedDict()
    for th in e["theorems"]:
        by.setdefault(th["module"].replace("WebAuthnModel.", ""), []).append(th["name"].split(".")[-1])
    total += len(e["theorems"])
    out.append("**%s** (%d obligations)" % (pid, len(e["theorems"])))
    for m, names in by.items():
        out.append("* `%s`: %s" % (m, ", ".join("`%s`" % n for n in names)))
    out.append("")
out.append("Total: %d obligations (a theorem serving several properties is counted once per property)." % total)
s = open("/verif/DESIGN.md").read()
i = s.index("## Appendix E")
open("/verif/DESIGN.md", "w").write(s[:i] + "\n".join(out) + "\n")
print("appendix E:", total, "obligations")
