#!/usr/bin/python3
"""helper: add/replace a property entry in theorems.json"""
import json, sys
def reg(prop, modules, names, rule, assumptions):
    t = json.load(open('/verif/theorems.json'))
    t[prop] = {"modules": modules, "rule": rule, "assumptions": assumptions,
               "theorems": [{"name": n, "module": m} for (m, n) in names]}
    json.dump(t, open('/verif/theorems.json', 'w'), indent=1)
