import Driver.Codec
import WebAuthnModel.Model.KeyDesc
import WebAuthnModel.Model.Url
import WebAuthnModel.Model.Json
import WebAuthnModel.Model.San
import WebAuthnModel.Model.Tpm2
import WebAuthnModel.Model.JwsVerify
import WebAuthnModel.Model.X509Sig
import Driver.Asks
/- JSON form of `encoding/asn1` struct values: a struct is the array of its members in declaration order; integers travel as
   decimal strings (int64 does not fit a JSON double), byte strings as hex or null (nil), integer lists as arrays or null. -/
namespace Driver
open Lean WebAuthn WebAuthn.Asn1

def intJson (i : Int) : Json := Json.str (toString i)

def pvalJson : PVal → Json
  | .int i => intJson i
  | .bool b => Json.bool b
  | .bytes none => Json.null
  | .bytes (some b) => hex b
  | .ints none => Json.null
  | .ints (some l) => Json.arr (l.map intJson).toArray

def fvJson {σ : Type} (subJ : σ → Json) : FV σ → Json
  | .prim p => pvalJson p
  | .sub s => subJ s

def rotJson (v : KeyDesc.RotVal) : Json := Json.arr (v.map (fvJson (fun (e : Empty) => nomatch e))).toArray
def alJson (v : KeyDesc.AuthListVal) : Json := Json.arr (v.map (fvJson rotJson)).toArray
def kdJson (v : KeyDesc.KDVal) : Json := Json.arr (v.map (fvJson alJson)).toArray

def intOfJson : Json → Except String Int
  | Json.str s => match s.toInt? with
    | some i => .ok i
    | none => .error s!"bad integer {s}"
  | _ => .error "expected decimal string"

def pvalOfJson (ty : Ty) (j : Json) : Except String PVal :=
  match ty, j with
  | .int, j => do return .int (← intOfJson j)
  | .enum, j => do return .int (← intOfJson j)
  | .flag, Json.bool b => .ok (.bool b)
  | .bool, Json.bool b => .ok (.bool b)
  | .bytes, Json.null => .ok (.bytes none)
  | .bytes, Json.str s => do return .bytes (some (← unhex s))
  | .intList, Json.null => .ok (.ints none)
  | .intList, Json.arr a => do return .ints (some (← a.toList.mapM intOfJson))
  | _, _ => .error "value does not fit the member type"

def fieldsOfJson {σ : Type} (subOf : String → Json → Except String σ) : List Field → List Json → Except String (List (FV σ))
  | [], [] => .ok []
  | f :: fs, j :: js => do
    let v ← match f.ty with
      | .struct n => do pure (FV.sub (← subOf n j))
      | ty => do pure (FV.prim (← pvalOfJson ty j))
    return v :: (← fieldsOfJson subOf fs js)
  | _, _ => .error "member count mismatch"

def arrOf : Json → Except String (List Json)
  | Json.arr a => .ok a.toList
  | _ => .error "expected array"

def rotOfJson (j : Json) : Except String KeyDesc.RotVal := do
  fieldsOfJson (σ := Empty) (fun _ _ => .error "no nested struct here") Generated.Asn1Schema.rootOfTrust (← arrOf j)
def alOfJson (j : Json) : Except String KeyDesc.AuthListVal := do
  fieldsOfJson (fun _ j => rotOfJson j) Generated.Asn1Schema.authorizationList (← arrOf j)
def kdOfJson (j : Json) : Except String KeyDesc.KDVal := do
  fieldsOfJson (fun _ j => alOfJson j) Generated.Asn1Schema.keyDescription (← arrOf j)

def handleAsn1 (op : String) (j : Json) : Except String (Option Json) := do
  match op with
  | "asn1.kd.unmarshal" =>
    match KeyDesc.unmarshal (← getHex j "der") with
    | some (v, rest) =>
      let w := KeyDesc.viewOf v
      return some (Json.mkObj [("ok", true), ("rest", hex rest), ("val", kdJson v),
        ("view", Json.mkObj [("challenge", hex w.challenge), ("swAll", w.swAllApplications), ("teeAll", w.teeAllApplications),
          ("teeOrigin", intJson w.teeOrigin), ("teePurpose", Json.arr (w.teePurpose.map intJson).toArray)])])
    | none => return some (Json.mkObj [("ok", false)])
  | "asn1.kd.marshal" =>
    match KeyDesc.marshal (← kdOfJson (← j.getObjVal? "val")) with
    | some b => return some (Json.mkObj [("ok", true), ("der", hex b)])
    | none => return some (Json.mkObj [("ok", false)])
  | "asn1.appleNonce" =>
    match KeyDesc.appleNonce (← getHex j "der") with
    | some b => return some (Json.mkObj [("ok", true), ("b", hex b)])
    | none => return some (Json.mkObj [("ok", false)])
  | "asn1.octetString" =>
    match KeyDesc.octetStringExact (← getHex j "der") with
    | some b => return some (Json.mkObj [("ok", true), ("b", hex b)])
    | none => return some (Json.mkObj [("ok", false)])
  | "json.clientData" =>
    match Json.clientData (← getHex j "raw") with
    | some f => return some (Json.mkObj [("ok", true), ("type", hex f.type), ("challenge", hex f.challenge), ("origin", hex f.origin)])
    | none => return some (Json.mkObj [("ok", false)])
  | "tpm2.certInfo" =>
    let hs ← (← getArr j "hashes").toList.mapM fun p => do
      match p with
      | Json.arr #[a, b] => pure ((← a.getNat?), (← b.getNat?))
      | _ => throw "hashes: expected [alg, id] pairs"
    match Tpm2.certInfo hs (← getHex j "raw") with
    | none => return some (Json.mkObj [("ok", false)])
    | some ci =>
      let (kind, alg, val) : String × Nat × Bytes := match ci.name with
        | .none => ("none", 0, [])
        | .handle => ("handle", 0, [])
        | .digest a v => ("digest", a, v)
      return some (Json.mkObj [("ok", true), ("magic", ci.magic), ("type", ci.type), ("extraData", hex ci.extraData),
        ("hasCertifyInfo", ci.hasCertifyInfo), ("nameKind", kind), ("nameAlg", alg), ("nameValue", hex val), ("encoded", optHex ci.encoded)])
  | "tpm2.pubArea" =>
    match Tpm2.pubArea (← getHex j "raw") with
    | none => return some (Json.mkObj [("ok", false)])
    | some pa =>
      return some (Json.mkObj [("ok", true), ("nameAlg", pa.nameAlg), ("key", match pa.key with | some k => keyMatJson k | none => Json.null),
        ("encoded", optHex pa.encoded)])
  | "san.details" =>
    let vals ← getHexList j "sans"
    let parsed := vals.map San.parseExt
    if parsed.any (fun p => !p.2) then return some (Json.mkObj [("unmodelled", true)])
    match Tpm.detailsFromSan (parsed.map (·.1)) with
    | some d => return some (Json.mkObj [("ok", true), ("vendorId", hex d.vendorId), ("vendorName", d.vendorName), ("part", hex d.partNumber), ("fw", hex d.firmwareVersion)])
    | none => return some (Json.mkObj [("ok", false)])
  | "url.host" =>
    match Url.hostOf (← getHex j "s") with
    | some h => return some (Json.mkObj [("ok", true), ("host", hex h)])
    | none => return some (Json.mkObj [("ok", false)])
  | "jws.parse" =>
    match Jws.parse (← getHex j "raw") with
    | .unmodelled => return some (Json.mkObj [("status", "unmodelled")])
    | .error => return some (Json.mkObj [("status", "error")])
    | .ok t =>
      return some (Json.mkObj [("status", "ok"), ("protected", hex t.protectedBytes), ("payload", hex t.payload), ("signature", hex t.signature),
        ("signingInput", hex t.signingInput), ("alg", hex t.alg), ("x5c", Json.arr (t.x5c.map hex).toArray), ("verifiable", t.verifiable)])
  | "jws.claims" =>
    match Jws.claims (← getHex j "payload") with
    | some n => return some (Json.mkObj [("ok", true), ("nonce", hex n)])
    | none => return some (Json.mkObj [("ok", false)])
  | "b64.std" =>
    match Jws.decodeStd (← getHex j "s") with
    | some b => return some (Json.mkObj [("ok", true), ("b", hex b)])
    | none => return some (Json.mkObj [("ok", false)])
  | "jws.verifyPlan" =>
    let key ← parseKeyMat (← j.getObjVal? "key")
    match Jws.verifyPlan (← getHex j "alg") key (← getHex j "sig") with
    | .reject => return some (Json.mkObj [("plan", "reject")])
    | .opaque => return some (Json.mkObj [("plan", "opaque")])
    | .primitive sc h sg => return some (Json.mkObj [("plan", "primitive"), ("scheme", schemeStr sc), ("hash", h), ("sig", hex sg)])
  | "x509.checkPlan" =>
    let key ← parseKeyMat (← j.getObjVal? "key")
    match X509Sig.checkPlan (← getNat j "alg") key (← getHex j "sig") with
    | .reject => return some (Json.mkObj [("plan", "reject")])
    | .opaque => return some (Json.mkObj [("plan", "opaque")])
    | .primitive sc h sg => return some (Json.mkObj [("plan", "primitive"), ("scheme", schemeStr sc), ("hash", h), ("sig", hex sg)])
  | "jws.strip" => return some (Json.mkObj [("b", hex (Jws.stripWhitespace (← getHex j "s")))])
  | _ => return none

end Driver
