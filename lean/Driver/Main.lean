import Driver.Codec
import Driver.Asks
import WebAuthnModel.Model.AuthData
import WebAuthnModel.Model.Cose
import WebAuthnModel.Model.Origin
import WebAuthnModel.Basic.Base64Url
import WebAuthnModel.Spec.Cose
/-
  wadriver: line-protocol interpreter of the model.  One JSON object per input line, one JSON
  object per output line; while an op runs, `{"ask":…}` lines may be written and are answered by
  `{"ans":…}` lines on stdin.
-/
open Lean WebAuthn Driver

def authDataJson (d : AuthData) : Json :=
  Json.mkObj [
    ("rpIdHash", hex d.rpIdHash), ("flags", Json.num d.flags.toNat), ("signCount", Json.num d.signCount),
    ("acd", match d.acd with
      | none => Json.null
      | some a => Json.mkObj [("aaguid", hex a.aaguid), ("credId", hex a.credentialId), ("key", hex a.credentialPublicKey)]),
    ("ext", hex d.extensions)]

def parseACD (j : Json) : Except String (Option AttestedCredentialData) :=
  match j.getObjVal? "acd" with
  | .ok Json.null => .ok none
  | .ok a => do
    return some ⟨← getHex a "aaguid", ← getHex a "credId", ← getHex a "key"⟩
  | .error _ => .ok none

/-- does unmarshalling `raw` run the generic CBOR decoder on an item the model does not reproduce (tags 0/1)? -/
def authDataUnmodelled (raw : Bytes) : Bool :=
  if raw.length < 37 then false else
  let flags := (raw.drop 32).headD 0
  let body := raw.drop 37
  let itemUnmodelled (b : Bytes) : Bool × Bytes :=
    match Cbor.decode b with
    | some (v, rest) => (!Cbor.modelled v, rest)
    | none => (false, [])
  if flagsAT flags then
    if body.length < 18 then false else
    let l := Bytes.beNat ((body.drop 16).take 2)
    let b := body.drop (18 + l)
    let (u, rest) := itemUnmodelled b
    if u then true else if flagsED flags then (itemUnmodelled rest).1 else false
  else if flagsED flags then (itemUnmodelled body).1 else false

def coseErrStr : Cose.CoseErr → String
  | .invalidKey => "invalidKey" | .unsupportedKeyType => "unsupportedKeyType"
  | .unsupportedAlgorithm => "unsupportedAlgorithm" | .unsupportedCurve => "unsupportedCurve"

def coseKeyJson : Cose.Key → Json
  | .ec2 alg crv x y => Json.mkObj [("kty", 2), ("alg", alg), ("crv", crv), ("x", hex (Bytes.stripZeros x)), ("y", hex (Bytes.stripZeros y))]
  | .okp x => Json.mkObj [("kty", 1), ("alg", (-8 : Int)), ("x", hex x)]
  | .rsa alg n e => Json.mkObj [("kty", 3), ("alg", alg), ("n", hex (Bytes.stripZeros n)), ("e", hex (Bytes.stripZeros e))]

def coseResJson : Cose.ParseRes → Json
  | .ok k rest => Json.mkObj [("ok", true), ("key", coseKeyJson k), ("rest", hex rest)]
  | .err e => Json.mkObj [("ok", false), ("class", coseErrStr e)]
  | .unmodelled => Json.mkObj [("unmodelled", true)]

def handlePure (op : String) (j : Json) : Except String Json := do
  match op with
  | "cbor.extract" =>
    let b ← getHex j "data"
    match Cbor.decode b with
    | none => return Json.mkObj [("ok", false), ("wf", false)]
    | some (v, rest) =>
      let acc := Cbor.acceptable v
      return Json.mkObj [("ok", acc), ("wf", true), ("modelled", Cbor.modelled v),
        ("item", hex (b.take (b.length - rest.length))), ("rest", hex rest)]
  | "authData.unmarshal" =>
    let b ← getHex j "data"
    let um := authDataUnmodelled b
    match unmarshalAuthData b with
    | none => return Json.mkObj [("ok", false), ("unmodelled", um)]
    | some (d, rest) => return Json.mkObj [("ok", true), ("value", authDataJson d), ("rest", hex rest), ("unmodelled", um)]
  | "acd.unmarshal" =>
    let b ← getHex j "data"
    match unmarshalACD b with
    | none => return Json.mkObj [("ok", false)]
    | some (a, rest) =>
      return Json.mkObj [("ok", true), ("rest", hex rest),
        ("value", Json.mkObj [("aaguid", hex a.aaguid), ("credId", hex a.credentialId), ("key", hex a.credentialPublicKey)])]
  | "authData.marshal" =>
    let d : AuthData := ⟨← getHex j "rpIdHash", UInt8.ofNat (← getNat j "flags"), ← getNat j "signCount",
      ← parseACD j, ← getHex j "ext"⟩
    match marshalAuthData d with
    | none => return Json.mkObj [("ok", false)]
    | some b => return Json.mkObj [("ok", true), ("data", hex b)]
  | "flags" =>
    let f := UInt8.ofNat (← getNat j "flags")
    return Json.mkObj [("up", flagsUP f), ("uv", flagsUV f), ("at", flagsAT f), ("ed", flagsED f)]
  | "alg.tables" =>
    let a ← getInt j "alg"
    return Json.mkObj [("hash", Cose.algHash a), ("x509", Cose.algX509 a),
      ("specHash", Spec.Cose.hashOf a), ("specX509", Spec.Cose.x509Of a)]
  | "cose.unmarshal" =>
    let raw ← getHex j "data"
    let which ← (getStr j "parser" <|> pure "any")
    let r := match which with
      | "ec2" => Cose.parseEC2 raw
      | "okp" => Cose.parseOKP raw
      | "rsa" => Cose.parseRSA raw
      | _ => Cose.parse raw
    return coseResJson r
  | "cose.marshal" =>
    let raw ← getHex j "data"
    match Cose.parse raw with
    | .ok k _ => return Json.mkObj [("ok", true), ("data", hex (Cose.marshal k))]
    | _ => return Json.mkObj [("ok", false)]
  | "b64.encode" => return Json.mkObj [("s", hex (B64.encode (← getHex j "data")))]
  | "b64.decode" =>
    match B64.fromBase64URL (← getHex j "s") with
    | some b => return Json.mkObj [("ok", true), ("data", hex b)]
    | none => return Json.mkObj [("ok", false)]
  | "origin.walk" =>
    let c ← getHex j "client"
    let r ← getHex j "rp"
    return Json.mkObj [("match", labelWalk c r), ("loop", labelWalkLoop (c.length + 1) c r)]
  | _ => throw s!"unknown op {op}"

/-- ops that may ask oracle questions -/
def handleProg (op : String) (j : Json) : Except String (Option (Prog Json)) := do
  match op with
  | "cose.verify" =>
    let raw ← getHex j "key"
    let data ← getHex j "data"
    let sig ← getHex j "sig"
    match Cose.parse raw with
    | .ok k _ => return some (do
        let ok ← Cose.verify k data sig
        pure (Json.mkObj [("parsed", true), ("verified", ok)]))
    | .unmodelled => return some (pure (Json.mkObj [("unmodelled", true)]))
    | .err _ => return some (pure (Json.mkObj [("parsed", false), ("verified", false)]))
  | "origin.matches" =>
    let c ← getHex j "client"
    let r ← getHex j "rp"
    return some (do
      let m ← originMatches c r
      let id ← rpId r
      pure (Json.mkObj [("match", m), ("rpId", hex id)]))
  | _ => return none

partial def loop (stdin stdout : IO.FS.Stream) : IO Unit := do
  let line ← stdin.getLine
  if line.isEmpty then return
  let line := line.trimAscii.toString
  if line.isEmpty then loop stdin stdout else
  let out : Json ←
    match Json.parse line with
    | .error e => pure (Json.mkObj [("error", s!"parse: {e}")])
    | .ok j =>
      let id := (j.getObjVal? "id").toOption.getD Json.null
      match getStr j "op" with
      | .error e => pure (Json.mkObj [("id", id), ("error", e)])
      | .ok op =>
        match handleProg op j with
        | .error e => pure (Json.mkObj [("id", id), ("error", e)])
        | .ok (some p) => do
          let r ← runIO stdin stdout p
          pure (r.setObjVal! "id" id)
        | .ok none =>
          match handlePure op j with
          | .ok r => pure (r.setObjVal! "id" id)
          | .error e => pure (Json.mkObj [("id", id), ("error", e)])
  stdout.putStrLn out.compress
  stdout.flush
  loop stdin stdout

def main : IO Unit := do
  loop (← IO.getStdin) (← IO.getStdout)
