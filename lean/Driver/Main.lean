import Driver.Codec
import Driver.Asks
import Driver.WireCodec
import Driver.Asn1Codec
import WebAuthnModel.Model.AuthData
import WebAuthnModel.Model.Cose
import WebAuthnModel.Model.Origin
import WebAuthnModel.Basic.Base64Url
import WebAuthnModel.Spec.Cose
import WebAuthnModel.Model.Ceremony
import WebAuthnModel.Spec.History
import WebAuthnModel.Model.Tpm
import WebAuthnModel.Model.Fido
/-
  wadriver: line-protocol interpreter of the model.  One JSON object per input line, one JSON
  object per output line; while an op runs, `{"ask":…}` lines may be written and are answered by
  `{"ans":…}` lines on stdin.
-/
open Lean WebAuthn Driver

def authDataJson (d : AuthData) : Json :=
  Json.mkObj [
    ("rpIdHash", hex d.rpIdHash), ("flags", Json.num d.flags.toNat), ("signCount", Json.num d.signCount),
    ("acd", match d.acd with
      | none => Json.null
      | some a => Json.mkObj [("aaguid", hex a.aaguid), ("credId", hex a.credentialId), ("key", hex a.credentialPublicKey)]),
    ("ext", hex d.extensions)]

def parseACD (j : Json) : Except String (Option AttestedCredentialData) :=
  match j.getObjVal? "acd" with
  | .ok Json.null => .ok none
  | .ok a => do
    return some ⟨← getHex a "aaguid", ← getHex a "credId", ← getHex a "key"⟩
  | .error _ => .ok none

/-- does unmarshalling `raw` run the generic CBOR decoder on an item the model does not reproduce (tags 0/1)? -/
def authDataUnmodelled (raw : Bytes) : Bool :=
  if raw.length < 37 then false else
  let flags := (raw.drop 32).headD 0
  let body := raw.drop 37
  let itemUnmodelled (b : Bytes) : Bool × Bytes :=
    match Cbor.decode b with
    | some (v, rest) => (!Cbor.modelled v, rest)
    | none => (false, [])
  if flagsAT flags then
    if body.length < 18 then false else
    let l := Bytes.beNat ((body.drop 16).take 2)
    let b := body.drop (18 + l)
    let (u, rest) := itemUnmodelled b
    if u then true else if flagsED flags then (itemUnmodelled rest).1 else false
  else if flagsED flags then (itemUnmodelled body).1 else false

def coseErrStr : Cose.CoseErr → String
  | .invalidKey => "invalidKey" | .unsupportedKeyType => "unsupportedKeyType"
  | .unsupportedAlgorithm => "unsupportedAlgorithm" | .unsupportedCurve => "unsupportedCurve"

def coseKeyJson : Cose.Key → Json
  | .ec2 alg crv x y => Json.mkObj [("kty", 2), ("alg", alg), ("crv", crv), ("x", hex (Bytes.stripZeros x)), ("y", hex (Bytes.stripZeros y))]
  | .okp x => Json.mkObj [("kty", 1), ("alg", (-8 : Int)), ("x", hex x)]
  | .rsa alg n e => Json.mkObj [("kty", 3), ("alg", alg), ("n", hex (Bytes.stripZeros n)), ("e", hex (Bytes.stripZeros e))]

def coseResJson : Cose.ParseRes → Json
  | .ok k rest => Json.mkObj [("ok", true), ("key", coseKeyJson k), ("rest", hex rest)]
  | .err e => Json.mkObj [("ok", false), ("class", coseErrStr e)]
  | .unmodelled => Json.mkObj [("unmodelled", true)]

def handlePure (op : String) (j : Json) : Except String Json := do
  match op with
  | "cbor.extract" =>
    let b ← getHex j "data"
    match Cbor.decode b with
    | none => return Json.mkObj [("ok", false), ("wf", false)]
    | some (v, rest) =>
      let acc := Cbor.acceptable v
      return Json.mkObj [("ok", acc), ("wf", true), ("modelled", Cbor.modelled v),
        ("item", hex (b.take (b.length - rest.length))), ("rest", hex rest)]
  | "authData.unmarshal" =>
    let b ← getHex j "data"
    let um := authDataUnmodelled b
    match unmarshalAuthData b with
    | none => return Json.mkObj [("ok", false), ("unmodelled", um)]
    | some (d, rest) => return Json.mkObj [("ok", true), ("value", authDataJson d), ("rest", hex rest), ("unmodelled", um)]
  | "acd.unmarshal" =>
    let b ← getHex j "data"
    match unmarshalACD b with
    | none => return Json.mkObj [("ok", false)]
    | some (a, rest) =>
      return Json.mkObj [("ok", true), ("rest", hex rest),
        ("value", Json.mkObj [("aaguid", hex a.aaguid), ("credId", hex a.credentialId), ("key", hex a.credentialPublicKey)])]
  | "authData.marshal" =>
    let d : AuthData := ⟨← getHex j "rpIdHash", UInt8.ofNat (← getNat j "flags"), ← getNat j "signCount",
      ← parseACD j, ← getHex j "ext"⟩
    match marshalAuthData d with
    | none => return Json.mkObj [("ok", false)]
    | some b => return Json.mkObj [("ok", true), ("data", hex b)]
  | "flags" =>
    let f := UInt8.ofNat (← getNat j "flags")
    return Json.mkObj [("up", flagsUP f), ("uv", flagsUV f), ("at", flagsAT f), ("ed", flagsED f)]
  | "attObj.unmarshal" =>
    let raw ← getHex j "data"
    match unmarshalAttestationObject raw with
    | .err => return Json.mkObj [("ok", false)]
    | .unmodelled => return Json.mkObj [("unmodelled", true)]
    | .ok ao rest =>
      return Json.mkObj [("ok", true), ("fmt", hex ao.fmt), ("authData", hex ao.authData), ("rest", hex rest),
        ("stmtKeys", Json.arr ((ao.stmt.map (fun e => hex e.1)).toArray)),
        ("alg", Att.getAlgorithm ao.stmt), ("sig", hex (Att.getSignature ao.stmt))]
  | "vendorId" =>
    match Tpm.unmarshalVendorId (← getHex j "s") with
    | some v => return Json.mkObj [("ok", true), ("vid", hex v)]
    | none => return Json.mkObj [("ok", false)]
  | "hwDetails" =>
    let sans ← parseSans j
    match Tpm.detailsFromSan sans with
    | some d => return Json.mkObj [("ok", true), ("vendorId", hex d.vendorId), ("vendorName", d.vendorName), ("part", hex d.partNumber), ("fw", hex d.firmwareVersion)]
    | none => return Json.mkObj [("ok", false)]
  | "aaguid.string" => return Json.mkObj [("s", hex (Fido.toString (← getHex j "a")))]
  | "aaguid.parse" =>
    match Fido.parse (← getHex j "s") with
    | some a => return Json.mkObj [("ok", true), ("a", hex a)]
    | none => return Json.mkObj [("ok", false)]
  | "wire.marshal" =>
    let ty ← getStr j "type"
    let v ← valOfProto (← j.getObjVal? "val")
    return Json.mkObj [("doc", wjsonToProto (Wire.marshal Spec.Wire.schemas ty v))]
  | "wire.unmarshal" =>
    let ty ← getStr j "type"
    let d ← wjsonOfProto (← j.getObjVal? "doc")
    match Wire.unmarshal Spec.Wire.schemas ty d with
    | some v => return Json.mkObj [("ok", true), ("val", valToProto v)]
    | none => return Json.mkObj [("ok", false)]
  | "alg.tables" =>
    let a ← getInt j "alg"
    return Json.mkObj [("hash", Cose.algHash a), ("x509", Cose.algX509 a),
      ("specHash", Spec.Cose.hashOf a), ("specX509", Spec.Cose.x509Of a)]
  | "cose.unmarshal" =>
    let raw ← getHex j "data"
    let which ← (getStr j "parser" <|> pure "any")
    let r := match which with
      | "ec2" => Cose.parseEC2 raw
      | "okp" => Cose.parseOKP raw
      | "rsa" => Cose.parseRSA raw
      | _ => Cose.parse raw
    return coseResJson r
  | "cose.marshal" =>
    let raw ← getHex j "data"
    match Cose.parse raw with
    | .ok k _ => return Json.mkObj [("ok", true), ("data", hex (Cose.marshal k))]
    | _ => return Json.mkObj [("ok", false)]
  | "b64.encode" => return Json.mkObj [("s", hex (B64.encode (← getHex j "data")))]
  | "b64.decode" =>
    match B64.fromBase64URL (← getHex j "s") with
    | some b => return Json.mkObj [("ok", true), ("data", hex b)]
    | none => return Json.mkObj [("ok", false)]
  | "origin.walk" =>
    let c ← getHex j "client"
    let r ← getHex j "rp"
    return Json.mkObj [("match", labelWalk c r), ("loop", labelWalkLoop (c.length + 1) c r)]
  | _ => throw s!"unknown op {op}"

def credJson (c : Credential) : Json :=
  Json.mkObj [("id", hex c.id), ("owner", hex c.owner), ("pk", hex c.publicKey)]

def parseCred (j : Json) : Except String Credential := do
  return ⟨← getHex j "id", ← getHex j "owner", ← getHex j "pk"⟩

def parseStore (j : Json) : Except String Store := do
  (← getArr j "store").toList.mapM parseCred

def callJson : Call → Json
  | .get id => Json.mkObj [("get", hex id)]
  | .set c => Json.mkObj [("set", credJson c)]

def getFn (st : Store) (mode : String) : Bytes → GetOutcome :=
  match mode with
  | "notFound" => fun _ => .notFound
  | "wrapped" => fun _ => .wrappedNotFound
  | "err" => fun _ => .err
  | _ => st.get

def setFn (mode : String) : Credential → SetOutcome :=
  match mode with
  | "err" => fun _ => .err
  | _ => fun _ => .ok

def authErrStr : AuthErr → String
  | .notAllowed => "notAllowed" | .storageNotFound => "storageNotFound" | .storageWrappedNotFound => "storageWrappedNotFound"
  | .storageErr => "storageErr" | .userHandle => "userHandle" | .clientData => "clientData" | .type => "type"
  | .challenge => "challenge" | .origin => "origin" | .authData => "authData" | .rpIdHash => "rpIdHash"
  | .notPresent => "notPresent" | .notVerified => "notVerified" | .publicKey => "publicKey" | .signature => "signature"

def regErrStr : RegErr → String
  | .clientData => "clientData" | .type => "type" | .challenge => "challenge" | .origin => "origin" | .attObj => "attObj"
  | .authData => "authData" | .rpIdHash => "rpIdHash" | .notPresent => "notPresent" | .notVerified => "notVerified"
  | .noAttestedData => "noAttestedData" | .publicKey => "publicKey" | .algorithm => "algorithm" | .statement => "statement"
  | .typeNotAllowed => "typeNotAllowed" | .formatNotAllowed => "formatNotAllowed" | .rawId => "rawId"
  | .storageErr => "storageErr" | .differentUser => "differentUser" | .saveErr => "saveErr" | .unmodelled => "unmodelled"

def parseVerifyOpts (j : Json) : Except String (List VerifyOption) := do
  (← getArr j "verifyOpts").toList.mapM fun o =>
    match o.getObjVal? "formats" with
    | .ok _ => do return VerifyOption.allowedFormats (← getHexList o "formats")
    | .error _ => do return VerifyOption.allowedTypes (← getHexList o "types")

/-- apply the recorded calls of a ceremony to the real map (only `set` with outcome ok writes) -/
def applyCalls (st : Store) (calls : List Call) (setMode : String) : Store :=
  calls.foldl (fun s c => match c with
    | .set cred => if setMode == "err" then s else s.insert cred
    | .get _ => s) st

def storeJson (st : Store) : Json := Json.arr (st.map credJson).toArray

def doAuthenticate (j : Json) : Except String (Prog Json) := do
  let origin ← getHex j "origin"
  let st ← parseStore j
  let getMode ← (getStr j "get" <|> pure "real")
  let o : RequestOptions := ⟨← getHex j "challenge", ← getHexList j "allow", ← getHex j "uv"⟩
  let a : Assertion := ⟨← getHex j "rawId", ← getHex j "cdj", ← getHex j "authData", ← getHex j "sig", ← getHex j "userHandle"⟩
  let unmodelledKey := match st.get a.rawId with
    | .found c => (match Cose.parse c.publicKey with | .unmodelled => true | _ => false)
    | _ => false
  return do
    let rp ← newRP origin
    let out ← verifyAuthentication rp o a (getFn st getMode)
    let base := [("calls", Json.arr (out.calls.map callJson).toArray), ("store", storeJson st),
                 ("unmodelled", Json.bool (unmodelledKey || authDataUnmodelled a.authenticatorData))]
    match out.result with
    | .ok c => pure (Json.mkObj ([("ok", Json.bool true), ("cred", credJson c)] ++ base))
    | .error e => pure (Json.mkObj ([("ok", Json.bool false), ("class", Json.str (authErrStr e))] ++ base))

def doRegister (j : Json) : Except String (Prog Json) := do
  let origin ← getHex j "origin"
  let st ← parseStore j
  let getMode ← (getStr j "get" <|> pure "real")
  let setMode ← (getStr j "set" <|> pure "real")
  let o : CreationOptions := ⟨← getHex j "challenge", ← getHex j "userId", ← getIntList j "algs", ← getHexOpt j "authSelUV"⟩
  let c : Attestation := ⟨← getHex j "rawId", ← getHex j "cdj", ← getHex j "attObj"⟩
  let opts ← parseVerifyOpts j
  let adUnmodelled := match unmarshalAttestationObject c.attestationObject with
    | .ok ao _ => authDataUnmodelled ao.authData
    | _ => false
  return do
    let rp ← newRP origin
    let out ← verifyRegistration rp o c opts (getFn st getMode) (setFn setMode)
    let st' := applyCalls st out.calls setMode
    let base := [("calls", Json.arr (out.calls.map callJson).toArray), ("store", storeJson st')]
    match out.result with
    | .ok cr => pure (Json.mkObj ([("ok", Json.bool true), ("cred", credJson cr), ("unmodelled", Json.bool adUnmodelled)] ++ base))
    | .error e => pure (Json.mkObj ([("ok", Json.bool false), ("class", Json.str (regErrStr e)),
        ("unmodelled", Json.bool (adUnmodelled || e == .unmodelled))] ++ base))

def doAttest (j : Json) : Except String (Prog Json) := do
  let raw ← getHex j "attObj"
  let cdHash ← getHex j "cdHash"
  let verifier ← (getStr j "verifier" <|> pure "dispatch")
  match unmarshalAttestationObject raw with
  | .err => return pure (Json.mkObj [("decoded", false)])
  | .unmodelled => return pure (Json.mkObj [("unmodelled", true)])
  | .ok ao _ =>
    let p : Prog (Option Att.Result) := match verifier with
      | "none" => Att.verifyNone
      | "packed" => Att.verifyPacked ao cdHash
      | "fido-u2f" => Att.verifyU2F ao cdHash
      | "android-key" => Att.verifyAndroidKey ao cdHash
      | "android-safetynet" => Att.verifySafetyNet ao cdHash
      | "apple" => Att.verifyApple ao cdHash
      | "tpm" => Att.verifyTPM ao cdHash
      | _ => Att.verify ao cdHash
    return do
      let r ← p
      let um := authDataUnmodelled ao.authData
      match r with
      | some res => pure (Json.mkObj [("decoded", true), ("ok", true), ("type", res.type), ("x5c", Json.arr (res.x5c.map hex).toArray), ("unmodelled", um)])
      | none => pure (Json.mkObj [("decoded", true), ("ok", false), ("unmodelled", um)])

def parseHOp (j : Json) : Except String HOp := do
  match ← getStr j "kind" with
  | "register" =>
    let o : CreationOptions := ⟨← getHex j "challenge", ← getHex j "userId", ← getIntList j "algs", ← getHexOpt j "authSelUV"⟩
    let c : Attestation := ⟨← getHex j "rawId", ← getHex j "cdj", ← getHex j "attObj"⟩
    return .register o c (← parseVerifyOpts j)
  | _ =>
    let o : RequestOptions := ⟨← getHex j "challenge", ← getHexList j "allow", ← getHex j "uv"⟩
    let a : Assertion := ⟨← getHex j "rawId", ← getHex j "cdj", ← getHex j "authData", ← getHex j "sig", ← getHex j "userHandle"⟩
    return .authenticate o a

def hopId : HOp → Bytes
  | .register _ c _ => c.rawId
  | .authenticate _ a => a.rawId

def houtJson : HOut → Json
  | some c => credJson c
  | none => Json.null

/-- run model and reference machine side by side, step by step -/
def historyLoop (rp : RP) : Store → Spec.State → List Bytes → List HOp → Prog (List Json)
  | _, _, _, [] => pure []
  | st, s, ids, op :: ops => do
    let (mo, st') ← hstep rp st op
    let (so, s') ← Spec.stepP rp s op
    let ids := if ids.contains (hopId op) then ids else hopId op :: ids
    let specState := Json.arr ((ids.filterMap (fun id => (s' id).map (fun b => credJson ⟨id, b.1, b.2⟩))).toArray)
    let here := Json.mkObj [("model", houtJson mo), ("spec", houtJson so), ("modelStore", storeJson st'), ("specState", specState)]
    let rest ← historyLoop rp st' s' ids ops
    pure (here :: rest)

def doHistory (j : Json) : Except String (Prog Json) := do
  let origin ← getHex j "origin"
  let ops ← (← getArr j "ops").toList.mapM parseHOp
  return do
    let rp ← newRP origin
    let steps ← historyLoop rp [] Spec.State.empty [] ops
    pure (Json.mkObj [("steps", Json.arr steps.toArray)])

/-- ops that may ask oracle questions -/
def handleProg (op : String) (j : Json) : Except String (Option (Prog Json)) := do
  match op with
  | "authenticate" => return some (← doAuthenticate j)
  | "register" => return some (← doRegister j)
  | "attest" => return some (← doAttest j)
  | "history" => return some (← doHistory j)
  | "blob" =>
    let raw ← getHex j "raw"
    let pools ← (← getArr j "pools").toList.mapM fun p => match p with
      | Json.str "default" => pure Fido.Pool.default
      | Json.str "nil" => pure Fido.Pool.nilPool
      | other => match other.getNat? with
        | .ok n => pure (Fido.Pool.custom n)
        | .error e => throw e
    return some (do
      match ← Fido.unmarshalBlob raw pools with
      | some payload => pure (Json.mkObj [("ok", true), ("payload", hex payload)])
      | none => pure (Json.mkObj [("ok", false)]))
  | "fido.rootCerts" =>
    let entries ← (← getArr j "entries").toList.mapM fun e => match e with
      | Json.str h => unhex h
      | _ => throw "entries: strings expected"
    return some (do
      match ← Fido.parseRootCertificates entries with
      | some cs => pure (Json.mkObj [("ok", true), ("count", cs.length), ("ders", Json.arr ((entries.filterMap Fido.rootCertDer).map hex).toArray)])
      | none => pure (Json.mkObj [("ok", false)]))
  | "config" =>
    let opts ← parseVerifyOpts j
    let cfg := getVerifyConfig opts
    return some (pure (Json.mkObj [("formats", Json.arr (cfg.formats.map hex).toArray), ("types", Json.arr (cfg.types.map hex).toArray)]))
  | "cose.verify" =>
    let raw ← getHex j "key"
    let data ← getHex j "data"
    let sig ← getHex j "sig"
    match Cose.parse raw with
    | .ok k _ => return some (do
        let ok ← Cose.verify k data sig
        pure (Json.mkObj [("parsed", true), ("verified", ok)]))
    | .unmodelled => return some (pure (Json.mkObj [("unmodelled", true)]))
    | .err _ => return some (pure (Json.mkObj [("parsed", false), ("verified", false)]))
  | "origin.matches" =>
    let c ← getHex j "client"
    let r ← getHex j "rp"
    return some (do
      let m ← originMatches c r
      let id ← rpId r
      pure (Json.mkObj [("match", m), ("rpId", hex id)]))
  | _ => return none

partial def loop (stdin stdout : IO.FS.Stream) : IO Unit := do
  let line ← stdin.getLine
  if line.isEmpty then return
  let line := line.trimAscii.toString
  if line.isEmpty then loop stdin stdout else
  let out : Json ←
    match Json.parse line with
    | .error e => pure (Json.mkObj [("error", s!"parse: {e}")])
    | .ok j =>
      let id := (j.getObjVal? "id").toOption.getD Json.null
      match getStr j "op" with
      | .error e => pure (Json.mkObj [("id", id), ("error", e)])
      | .ok op =>
        match handleProg op j with
        | .error e => pure (Json.mkObj [("id", id), ("error", e)])
        | .ok (some p) => do
          let r ← runIO stdin stdout p
          pure (r.setObjVal! "id" id)
        | .ok none =>
          match handleAsn1 op j with
          | .error e => pure (Json.mkObj [("id", id), ("error", e)])
          | .ok (some r) => pure (r.setObjVal! "id" id)
          | .ok none =>
          match handlePure op j with
          | .ok r => pure (r.setObjVal! "id" id)
          | .error e => pure (Json.mkObj [("id", id), ("error", e)])
  stdout.putStrLn out.compress
  stdout.flush
  loop stdin stdout

def main : IO Unit := do
  loop (← IO.getStdin) (← IO.getStdout)
