import Driver.Codec
import WebAuthnModel.Spec.Wire
/- protocol encoding of `Wire.Json` and `Wire.Val` -/
namespace Driver
open Lean WebAuthn WebAuthn.Wire

partial def wjsonToProto : Wire.Json → Lean.Json
  | .null => Lean.Json.null
  | .bool b => Lean.Json.mkObj [("b", b)]
  | .num n => Lean.Json.mkObj [("n", n)]
  | .str s => Lean.Json.mkObj [("s", hex s)]
  | .arr xs => Lean.Json.mkObj [("a", Lean.Json.arr (xs.map wjsonToProto).toArray)]
  | .obj kvs => Lean.Json.mkObj [("o", Lean.Json.arr (kvs.map (fun e => Lean.Json.arr #[Lean.Json.str e.1, wjsonToProto e.2])).toArray)]

partial def wjsonOfProto (j : Lean.Json) : Except String Wire.Json := do
  if j.isNull then return .null
  match j.getObjVal? "b" with
  | .ok (Lean.Json.bool b) => return .bool b
  | _ =>
  match j.getObjVal? "n" with
  | .ok n => return .num (← n.getInt?)
  | _ =>
  match j.getObjVal? "s" with
  | .ok (Lean.Json.str s) => return .str (← unhex s)
  | _ =>
  match j.getObjVal? "a" with
  | .ok (Lean.Json.arr xs) => return .arr (← xs.toList.mapM wjsonOfProto)
  | _ =>
  match j.getObjVal? "o" with
  | .ok (Lean.Json.arr kvs) =>
    let ps ← kvs.toList.mapM fun e => match e with
      | Lean.Json.arr #[Lean.Json.str k, v] => do return (k, ← wjsonOfProto v)
      | _ => throw "bad object member"
    return .obj ps
  | _ => throw s!"bad wire json {j.compress}"

partial def valToProto : Val → Lean.Json
  | .bytes b => Lean.Json.mkObj [("bytes", hex b)]
  | .str s => Lean.Json.mkObj [("str", hex s)]
  | .bool b => Lean.Json.mkObj [("bool", b)]
  | .int i => Lean.Json.mkObj [("int", i)]
  | .any j => Lean.Json.mkObj [("any", match j with | none => Lean.Json.null | some x => wjsonToProto x)]
  | .strs l => Lean.Json.mkObj [("strs", match l with | none => Lean.Json.null | some xs => Lean.Json.arr (xs.map hex).toArray)]
  | .obj fs => Lean.Json.mkObj [("obj", Lean.Json.arr (fs.map valToProto).toArray)]
  | .ptr v => Lean.Json.mkObj [("ptr", match v with | none => Lean.Json.null | some x => valToProto x)]
  | .objs l => Lean.Json.mkObj [("objs", match l with | none => Lean.Json.null | some xs => Lean.Json.arr (xs.map valToProto).toArray)]

partial def valOfProto (j : Lean.Json) : Except String Val := do
  match j.getObjVal? "bytes" with
  | .ok (Lean.Json.str s) => return .bytes (← unhex s)
  | _ =>
  match j.getObjVal? "str" with
  | .ok (Lean.Json.str s) => return .str (← unhex s)
  | _ =>
  match j.getObjVal? "bool" with
  | .ok (Lean.Json.bool b) => return .bool b
  | _ =>
  match j.getObjVal? "int" with
  | .ok n => return .int (← n.getInt?)
  | _ =>
  match j.getObjVal? "any" with
  | .ok x => if x.isNull then return .any none else return .any (some (← wjsonOfProto x))
  | _ =>
  match j.getObjVal? "strs" with
  | .ok (Lean.Json.arr xs) => return .strs (some (← xs.toList.mapM fun x => match x with | Lean.Json.str s => unhex s | _ => throw "bad strs"))
  | .ok _ => return .strs none
  | _ =>
  match j.getObjVal? "obj" with
  | .ok (Lean.Json.arr xs) => return .obj (← xs.toList.mapM valOfProto)
  | _ =>
  match j.getObjVal? "ptr" with
  | .ok x => if x.isNull then return .ptr none else return .ptr (some (← valOfProto x))
  | _ =>
  match j.getObjVal? "objs" with
  | .ok (Lean.Json.arr xs) => return .objs (some (← xs.toList.mapM valOfProto))
  | .ok _ => return .objs none
  | _ => throw s!"bad val {j.compress}"

end Driver
