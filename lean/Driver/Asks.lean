import Driver.Codec
import WebAuthnModel.Model.Prog
/- Interpretation of `Prog` in IO: every `ask` is written as a JSON line and answered on stdin. -/
namespace Driver
open Lean WebAuthn

def keyMatJson : KeyMat → Json
  | .ec c x y => Json.mkObj [("kind", "ec"), ("crv", c), ("x", hex x), ("y", hex y)]
  | .rsa n e => Json.mkObj [("kind", "rsa"), ("n", hex n), ("e", e)]
  | .ed k => Json.mkObj [("kind", "ed"), ("k", hex k)]
  | .other => Json.mkObj [("kind", "other")]

def schemeStr : SigScheme → String
  | .ecdsa => "ecdsa" | .eddsa => "eddsa" | .pkcs1 => "pkcs1" | .pss => "pss" | .pssEq => "pssEq"

def askJson : Ask → Json
  | .sha256 d => Json.mkObj [("ask", "sha256"), ("data", hex d)]
  | .hash id d => Json.mkObj [("ask", "hash"), ("hash", id), ("data", hex d)]
  | .sigVerify s h k msg sig =>
    Json.mkObj [("ask", "sigVerify"), ("scheme", schemeStr s), ("hash", h), ("key", keyMatJson k), ("msg", hex msg), ("sig", hex sig)]
  | .x509Parse der => Json.mkObj [("ask", "x509Parse"), ("der", hex der)]
  | .x509CheckSig der alg msg sig =>
    Json.mkObj [("ask", "x509CheckSig"), ("der", hex der), ("alg", alg), ("msg", hex msg), ("sig", hex sig)]
  | .tpmHashes => Json.mkObj [("ask", "tpmHashes")]
  | .safetyNet raw => Json.mkObj [("ask", "safetyNet"), ("raw", hex raw)]
  | .x509Verify leaf inter dns =>
    Json.mkObj [("ask", "x509Verify"), ("leaf", hex leaf), ("intermediates", Json.arr ((inter.map (fun d => (hex d : Json))).toArray)), ("dns", hex dns)]
  | .jwsVerify raw leaf => Json.mkObj [("ask", "jwsVerify"), ("raw", hex raw), ("leaf", hex leaf)]
  | .x509VerifyPool leaf inter pool =>
    Json.mkObj [("ask", "x509VerifyPool"), ("leaf", hex leaf), ("intermediates", Json.arr ((inter.map (fun d => (hex d : Json))).toArray)), ("pool", pool)]
  | .blobPayload payload => Json.mkObj [("ask", "blobPayload"), ("payload", hex payload)]
  | .jwsHeaders raw => Json.mkObj [("ask", "jwsHeaders"), ("raw", hex raw)]
  | .jwsChain raw i pool => Json.mkObj [("ask", "jwsChain"), ("raw", hex raw), ("i", i), ("pool", pool)]
  | .jwsClaims raw leaf => Json.mkObj [("ask", "jwsClaims"), ("raw", hex raw), ("leaf", hex leaf)]

def parseKeyMat (j : Json) : Except String KeyMat := do
  match ← getStr j "kind" with
  | "ec" => return .ec (← getNat j "crv") (← getHex j "x") (← getHex j "y")
  | "rsa" => return .rsa (← getHex j "n") (← getNat j "e")
  | "ed" => return .ed (← getHex j "k")
  | _ => return .other

def parseOid (j : Json) : Except String (List Nat) :=
  match j with
  | Json.arr a => a.toList.mapM fun x => x.getNat?
  | _ => .error "oid: expected array"

def parseCert (j : Json) : Except String CertView := do
  let exts ← (← getArr j "exts").toList.mapM fun e => do
    let oid ← parseOid (← e.getObjVal? "oid")
    return (⟨oid, ← getBool e "critical", ← getHex e "value"⟩ : CertExt)
  let ekus ← (← getArr j "unknownEKUs").toList.mapM parseOid
  return { version := ← getNat j "version", isCA := ← getBool j "isCA", country := ← getHex j "country",
           org := ← getHex j "org", orgUnit := ← getHex j "orgUnit", commonName := ← getHex j "commonName",
           exts := exts, unknownEKUs := ekus, key := ← parseKeyMat (← j.getObjVal? "key") }

/-- The SAN extensions of a certificate as the harness reports them: `{"sans": [ … ]}`, each element either `{"bad": true}`
    (parse failure or trailing data) or `{"names": [ {"cls": n, "tag": n, "rdn": null | [ {"oid": [n…], "isString": bool, "value": hex} … ]} … ]}`. -/
def parseSans (j : Json) : Except String (List Tpm.SanExt) := do
  (← getArr j "sans").toList.mapM fun e => do
    match e.getObjVal? "names" with
    | .ok (Json.arr ns) =>
      let names ← ns.toList.mapM fun n => do
        let rdn ← match n.getObjVal? "rdn" with
          | .ok (Json.arr as) => do
            let attrs ← as.toList.mapM fun a => do
              return (⟨← parseOid (← a.getObjVal? "oid"), ← getBool a "isString", ← getHex a "value"⟩ : Tpm.Attr)
            pure (some attrs)
          | _ => pure none
        return (⟨← getNat n "cls", ← getNat n "tag", rdn⟩ : Tpm.GeneralName)
      return Tpm.SanExt.names names
    | _ => return Tpm.SanExt.bad

/-- Decode the harness's answer according to the question asked. `null` is always `Resp.none`. -/
def parseResp (q : Ask) (j : Json) : Except String Resp := do
  if j.isNull then return .none
  match q with
  | .sha256 _ | .hash _ _ | .jwsChain .. | .jwsClaims .. | .blobPayload _ =>
    return .bytes (← getHex j "bytes")
  | .jwsHeaders _ => return .nat (← getNat j "nat")
  | .sigVerify .. | .x509CheckSig .. | .x509Verify .. | .x509VerifyPool .. | .jwsVerify .. => return .bool (← getBool j "bool")
  | .x509Parse _ => return .cert (← parseCert j)
  | .tpmHashes =>
    let hs ← (← getArr j "hashes").toList.mapM fun p => do
      match p with
      | Json.arr #[a, b] => pure ((← a.getNat?), (← b.getNat?))
      | _ => throw "hashes: expected [alg, id] pairs"
    return .hashTable hs
  | .safetyNet _ =>
    return .safetyNet { parsed := ← getBool j "parsed", chainsOK := ← getBool j "chainsOK",
                        claimsOK := ← getBool j "claimsOK", nonce := ← getHex j "nonce" }

partial def runIO {α : Type} (stdin stdout : IO.FS.Stream) : Prog α → IO α
  | .ret a => pure a
  | .ask q k => do
    stdout.putStrLn (askJson q).compress
    stdout.flush
    let line ← stdin.getLine
    let r : Resp ←
      match Json.parse line with
      | .error e => throw (IO.userError s!"bad answer line: {e}")
      | .ok j =>
        match j.getObjVal? "ans" with
        | .error e => throw (IO.userError s!"answer without ans: {e}")
        | .ok a =>
          match parseResp q a with
          | .ok r => pure r
          | .error e => throw (IO.userError s!"cannot decode answer: {e} in {line}")
    runIO stdin stdout (k r)

end Driver
