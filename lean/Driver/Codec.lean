import Lean.Data.Json
import WebAuthnModel.Model.Prog
/- JSON helpers for the driver's line protocol (bytes and Go strings travel as lower-case hex). -/
namespace Driver
open Lean WebAuthn

def hex (b : Bytes) : Json := Json.str (Bytes.toHex b)

def getStr (j : Json) (k : String) : Except String String := j.getObjValAs? String k
def getNat (j : Json) (k : String) : Except String Nat := j.getObjValAs? Nat k
def getInt (j : Json) (k : String) : Except String Int := j.getObjValAs? Int k
def getBool (j : Json) (k : String) : Except String Bool := j.getObjValAs? Bool k

def unhex (s : String) : Except String Bytes :=
  match Bytes.ofHex s with
  | some b => .ok b
  | none => .error s!"bad hex: {s}"

def getHex (j : Json) (k : String) : Except String Bytes := do
  unhex (← getStr j k)

/-- optional hex member: JSON null / absent ⇒ none -/
def getHexOpt (j : Json) (k : String) : Except String (Option Bytes) :=
  match j.getObjVal? k with
  | .ok Json.null => .ok none
  | .ok (Json.str s) => do return some (← unhex s)
  | .ok _ => .error s!"member {k}: expected hex string or null"
  | .error _ => .ok none

def getArr (j : Json) (k : String) : Except String (Array Json) :=
  match j.getObjVal? k with
  | .ok (Json.arr a) => .ok a
  | .ok Json.null => .ok #[]
  | .ok _ => .error s!"member {k}: expected array"
  | .error _ => .ok #[]

def getHexList (j : Json) (k : String) : Except String (List Bytes) := do
  let a ← getArr j k
  a.toList.mapM fun x => match x with
    | Json.str s => unhex s
    | _ => .error s!"member {k}: expected hex strings"

def getNatList (j : Json) (k : String) : Except String (List Nat) := do
  let a ← getArr j k
  a.toList.mapM fun x => match x.getNat? with
    | .ok n => .ok n
    | .error e => .error e

def getIntList (j : Json) (k : String) : Except String (List Int) := do
  let a ← getArr j k
  a.toList.mapM fun x => match x.getInt? with
    | .ok n => .ok n
    | .error e => .error e

def optHex : Option Bytes → Json
  | some b => hex b
  | none => Json.null

end Driver
