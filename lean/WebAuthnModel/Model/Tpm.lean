import WebAuthnModel.Basic.Bytes
import WebAuthnModel.Generated.TpmAndroid
/-
  tpm package: vendor ids (`UnmarshalVendorID`) and hardware details from a certificate's
  Subject Alternative Name (`GetHardwareDetailsFromCertificate`, `GetHardwareDetailsFromRDNSequence`).
  ASN.1 parsing (encoding/asn1) is a dependency: the model works on the parsed view.
-/
namespace WebAuthn.Tpm
open WebAuthn

/-- value of a hexadecimal digit as `encoding/hex` accepts it (both cases) -/
def hexDigit (c : UInt8) : Option Nat :=
  let x := c.toNat
  if 48 ≤ x ∧ x ≤ 57 then some (x - 48)
  else if 97 ≤ x ∧ x ≤ 102 then some (x - 87)
  else if 65 ≤ x ∧ x ≤ 70 then some (x - 55)
  else none

/-- `hex.DecodeString` -/
def hexDecode : Bytes → Option Bytes
  | [] => some []
  | [_] => none
  | a :: b :: rest => do
    let x ← hexDigit a
    let y ← hexDigit b
    let r ← hexDecode rest
    pure (UInt8.ofNat (x * 16 + y) :: r)

def idPrefix : Bytes := Bytes.ofString "id:"

/-- `unmarshalTPMID` / `UnmarshalVendorID`: 11 bytes, prefix "id:", eight hex digits → 4 bytes -/
def unmarshalVendorId (s : Bytes) : Option Bytes :=
  if s.length ≠ 11 then none
  else if s.take 3 ≠ idPrefix then none
  else hexDecode (s.drop 3)

def vendorName (id : Bytes) : Option String :=
  (Generated.Tpm.vendors.find? (fun v => v.1 == id.map (·.toNat))).map (·.2)

structure Attr where
  oid : List Nat
  isString : Bool        -- the attribute value decoded to a Go string
  value : Bytes
  deriving Repr, DecidableEq

structure Details where
  vendorId : Bytes
  vendorName : String
  partNumber : Bytes
  firmwareVersion : Bytes
  deriving Repr, DecidableEq

structure Acc where
  vendor : Option (Bytes × String) := none
  part : Bytes := []
  fw : Bytes := []
  deriving Repr

/-- one attribute of the RDN sequence (the body of the loop in `GetHardwareDetailsFromRDNSequence`); none = error -/
def stepAttr (acc : Acc) (a : Attr) : Option Acc :=
  if !a.isString then some acc
  else if a.oid = Generated.Tpm.oidTPMManufacturer then
    match unmarshalVendorId a.value with
    | none => none
    | some id =>
      match vendorName id with
      | none => none
      | some n => some { acc with vendor := some (id, n) }
  else if a.oid = Generated.Tpm.oidTPMPartNumber then some { acc with part := a.value }
  else if a.oid = Generated.Tpm.oidTPMFirmwareVersion then some { acc with fw := a.value }
  else some acc

def foldAttrs : Acc → List Attr → Option Acc
  | acc, [] => some acc
  | acc, a :: rest =>
    match stepAttr acc a with
    | none => none
    | some acc' => foldAttrs acc' rest

/-- `GetHardwareDetailsFromRDNSequence` on the flattened attribute list -/
def detailsFromAttrs (attrs : List Attr) : Option Details :=
  match foldAttrs {} attrs with
  | none => none
  | some acc =>
    match acc.vendor with
    | none => none
    | some (id, n) =>
      if id = [0, 0, 0, 0] then none          -- `details.Manufacturer.ID == VendorID{}`
      else if acc.part = [] then none
      else if acc.fw = [] then none
      else some ⟨id, n, acc.part, acc.fw⟩

/-- a GeneralName of the SAN as `asn1.RawValue` presents it; `rdn` is the result of parsing its bytes as RDNSequence -/
structure GeneralName where
  cls : Nat
  tag : Nat
  rdn : Option (List Attr)
  deriving Repr, DecidableEq

/-- a SAN extension: parse failure (or trailing data), or its general names -/
inductive SanExt where
  | bad
  | names (ns : List GeneralName)
  deriving Repr, DecidableEq, Inhabited

def classContextSpecific : Nat := 2

/-- outcome of scanning one SAN extension: stop with a result, or continue with the next extension -/
def scanNames : List GeneralName → Option (Option Details)
  | [] => none                                   -- no directoryName here: keep looking
  | n :: rest =>
    if n.cls = classContextSpecific ∧ n.tag = Generated.Tpm.sanTagDirectoryName then
      match n.rdn with
      | none => some none                        -- invalid RDN sequence: error
      | some attrs => some (detailsFromAttrs attrs)
    else scanNames rest

/-- `GetHardwareDetailsFromCertificate` over the SAN extensions of the certificate, in order -/
def detailsFromSan : List SanExt → Option Details
  | [] => none
  | .bad :: _ => none
  | .names ns :: rest =>
    match scanNames ns with
    | some r => r
    | none => detailsFromSan rest

end WebAuthn.Tpm
