import WebAuthnModel.Basic.Base64Url
/-
  JSON wire (un)marshalling of the package's JSON-facing types (webauthn.go, authenticator_*_response.go):
  a generic, schema-driven encoder/decoder over JSON trees.  JSON *text* syntax is encoding/json's business
  (oracle); the model works on trees.  Schemas are in `Spec/Wire.lean` and are checked against the facts the
  translator extracts from the Marshal/Unmarshal methods (T7).
-/
namespace WebAuthn.Wire
open WebAuthn

inductive Json where
  | null
  | bool (b : Bool)
  | num (n : Int)
  | str (s : Bytes)
  | arr (xs : List Json)
  | obj (kvs : List (String × Json))
  deriving Repr, Inhabited

/-- member kinds -/
inductive Kind where
  | bytes                 -- []byte, wire: unpadded base64url string (`toBase64URL` / `fromBase64URL`)
  | nbytes                -- []byte, wire: nullable string (`toNullableBase64URL` / `fromNullableBase64URL`): null when empty
  | str                   -- string-kinded
  | bool
  | int                   -- integer (COSE algorithm)
  | ms                    -- time.Duration, wire: integer milliseconds
  | any                   -- map[string]interface{}: passed through
  | strList               -- []string-kinded
  | obj (ty : String)     -- nested struct (by schema name)
  | ptr (ty : String)     -- pointer to struct: nil ⇒ null
  | objList (ty : String) -- slice of structs: nil ⇒ null
  deriving Repr, DecidableEq, Inhabited

structure Field where
  name : String           -- JSON member name
  kind : Kind
  omitempty : Bool
  deriving Repr, DecidableEq, Inhabited

abbrev Schema := List Field

/-- Go values of the wire types -/
inductive Val where
  | bytes (b : Bytes)                 -- nil and empty are both `[]`
  | str (s : Bytes)
  | bool (b : Bool)
  | int (i : Int)
  | any (j : Option Json)             -- nil map = none
  | strs (l : Option (List Bytes))    -- nil slice = none
  | obj (fields : List Val)           -- in schema order
  | ptr (v : Option Val)              -- nil pointer = none; else an `obj`
  | objs (l : Option (List Val))      -- nil slice = none
  deriving Repr, Inhabited

/-- is the value "empty" in the sense of `omitempty`? -/
def isEmpty : Val → Bool
  | .bytes b => b.isEmpty
  | .str s => s.isEmpty
  | .bool b => !b
  | .int i => i == 0
  | .any j => match j with | none => true | some (.obj kvs) => kvs.isEmpty | _ => false
  | .strs l => match l with | none => true | some xs => xs.isEmpty
  | .obj _ => false
  | .ptr v => v.isNone
  | .objs l => match l with | none => true | some xs => xs.isEmpty

mutual
/-- Marshal one member value -/
def encode (schemas : String → Schema) : Kind → Val → Json
  | .bytes, .bytes b => .str (B64.encode b)
  | .nbytes, .bytes b => if b.isEmpty then .null else .str (B64.encode b)
  | .str, .str s => .str s
  | .bool, .bool b => .bool b
  | .int, .int i => .num i
  | .ms, .int i => .num i
  | .any, .any j => (match j with | none => .null | some x => x)
  | .strList, .strs l => (match l with | none => .null | some xs => .arr (xs.map .str))
  | .obj ty, .obj fs => .obj (encodeFields schemas (schemas ty) fs)
  | .ptr ty, .ptr v => (match v with | none => .null | some (.obj fs) => .obj (encodeFields schemas (schemas ty) fs) | some _ => .null)
  | .objList ty, .objs l => (match l with | none => .null | some xs => .arr (encodeObjs schemas (schemas ty) xs))
  | _, _ => .null
def encodeFields (schemas : String → Schema) : Schema → List Val → List (String × Json)
  | f :: fs, v :: vs =>
    if f.omitempty && isEmpty v then encodeFields schemas fs vs
    -- a nullable byte member marked omitempty is a nil *string: omitted
    else if f.omitempty && f.kind == .nbytes && (match v with | .bytes b => b.isEmpty | _ => false) then encodeFields schemas fs vs
    else (f.name, encode schemas f.kind v) :: encodeFields schemas fs vs
  | _, _ => []
def encodeObjs (schemas : String → Schema) (sch : Schema) : List Val → List Json
  | [] => []
  | .obj fs :: rest => .obj (encodeFields schemas sch fs) :: encodeObjs schemas sch rest
  | _ :: rest => .null :: encodeObjs schemas sch rest
end

def lookup (kvs : List (String × Json)) (name : String) : Option Json :=
  (kvs.find? (fun e => e.1 == name)).map (·.2)

/-- zero value of a kind (member absent or null) -/
def zero (schemas : String → Schema) (fuel : Nat) : Kind → Val
  | .bytes => .bytes []
  | .nbytes => .bytes []
  | .str => .str []
  | .bool => .bool false
  | .int => .int 0
  | .ms => .int 0
  | .any => .any none
  | .strList => .strs none
  | .obj ty => match fuel with
    | 0 => .obj []
    | f + 1 => .obj ((schemas ty).map (fun fld => zero schemas f fld.kind))
  | .ptr _ => .ptr none
  | .objList _ => .objs none

def strOf : Json → Option Bytes
  | .str s => some s
  | _ => none

def strsOf : List Json → Option (List Bytes)
  | [] => some []
  | .str s :: rest => (strsOf rest).map (fun r => s :: r)
  | _ => none

/-- decode the members of an object against a schema, given the decoder for member values -/
def decodeFieldsWith (dec : Kind → Json → Option Val) (zeroOf : Kind → Val) (sch : Schema) (kvs : List (String × Json)) :
    Option (List Val) :=
  sch.mapM (fun f => match lookup kvs f.name with
    | none => some (zeroOf f.kind)
    | some j => dec f.kind j)

/-- Unmarshal one member value; `none` = error.  `fuel` bounds the nesting of structs (3 suffices for the package's types). -/
def decode (schemas : String → Schema) : Nat → Kind → Json → Option Val
  | 0, _, _ => none
  | f + 1, k, .null => some (zero schemas f k)
  | _ + 1, .bytes, .str s => (B64.fromBase64URL s).map .bytes
  | _ + 1, .nbytes, .str s => (B64.fromBase64URL s).map .bytes
  | _ + 1, .str, .str s => some (.str s)
  | _ + 1, .bool, .bool b => some (.bool b)
  | _ + 1, .int, .num i => some (.int i)
  | _ + 1, .ms, .num i => some (.int i)
  | _ + 1, .any, .obj kvs => some (.any (some (.obj kvs)))
  | _ + 1, .strList, .arr xs => (strsOf xs).map (fun l => .strs (some l))
  | f + 1, .obj ty, .obj kvs =>
    (decodeFieldsWith (decode schemas f) (zero schemas f) (schemas ty) kvs).map .obj
  | f + 1, .ptr ty, .obj kvs =>
    (decodeFieldsWith (decode schemas f) (zero schemas f) (schemas ty) kvs).map (fun fs => .ptr (some (.obj fs)))
  | f + 1, .objList ty, .arr xs =>
    (xs.mapM (fun (j : Json) => match j with
      | Json.obj kvs => (decodeFieldsWith (decode schemas f) (zero schemas f) (schemas ty) kvs).map Val.obj
      | Json.null => some (Val.obj ((schemas ty).map (fun (fld : Field) => zero schemas f fld.kind)))
      | _ => none)).map (fun l => Val.objs (some l))
  | _ + 1, _, _ => none

/-- Unmarshal a whole value of the named type -/
def unmarshal (schemas : String → Schema) (ty : String) (j : Json) : Option Val := decode schemas 4 (.obj ty) j
/-- Marshal a whole value of the named type -/
def marshal (schemas : String → Schema) (ty : String) (v : Val) : Json := encode schemas (.obj ty) v

end WebAuthn.Wire
