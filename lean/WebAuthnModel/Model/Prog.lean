import WebAuthnModel.Basic.Bytes
import WebAuthnModel.Model.Tpm
import WebAuthnModel.Model.Json
/-
  Programs over dependency oracles.  The repository's own logic is written in Lean; every call
  into a dependency (crypto, x509, go-jose) is an `ask`; go-tpm's TPMS_ATTEST / TPMT_PUBLIC codec is modelled in Lean (`Model/Tpm2`); `encoding/json` decoding of client data is modelled in Lean (`Model/Json`); `net/url` host extraction is modelled in Lean (`Model/Url`); the ASN.1 values the
  repository decodes itself with `encoding/asn1` (Keymaster key description, Apple nonce, AAGUID extension)
  are decoded in Lean (`Model/Asn1`, `Model/KeyDesc`).  Theorems
  quantify over every `Env`; the driver interprets the same program in IO, the Go harness
  answering each question by calling the dependency itself.
-/
namespace WebAuthn

/-- Public-key material as the dependency sees it (big-endian magnitudes without leading zeros). -/
inductive KeyMat where
  | ec (curve : Nat) (x y : Bytes)      -- curve: 1 P-256, 2 P-384, 3 P-521 (COSE numbering)
  | rsa (n : Bytes) (e : Nat)
  | ed (k : Bytes)
  | other
  deriving Repr, DecidableEq, Inhabited

/-- the three members of CollectedClientData the ceremonies read, as `encoding/json` decodes them (`Model/Json.lean`) -/
abbrev ClientData := Json.ClientDataFields

structure CertExt where
  oid : List Nat
  critical : Bool
  value : Bytes
  deriving Repr, DecidableEq, Inhabited

/-- What the repository reads from a parsed `x509.Certificate`. -/
structure CertView where
  version : Nat
  isCA : Bool
  country : Bytes        -- strings.Join(Subject.Country, "")
  org : Bytes            -- strings.Join(Subject.Organization, "")
  orgUnit : Bytes        -- strings.Join(Subject.OrganizationalUnit, "")
  commonName : Bytes
  exts : List CertExt
  unknownEKUs : List (List Nat)
  key : KeyMat
  deriving Repr, DecidableEq, Inhabited

/-- TPM certified name as go-tpm decodes it. -/
inductive TpmName where
  | none | handle | digest (alg : Nat) (value : Bytes)
  deriving Repr, DecidableEq, Inhabited

structure CertInfoView where
  magic : Nat
  type : Nat
  extraData : Bytes
  hasCertifyInfo : Bool
  name : TpmName
  encoded : Option Bytes      -- AttestationData.Encode()
  deriving Repr, DecidableEq, Inhabited

structure PubAreaView where
  nameAlg : Nat
  key : Option KeyMat         -- Public.Key(); none = error
  encoded : Option Bytes      -- Public.Encode()
  deriving Repr, DecidableEq, Inhabited

inductive SigScheme where
  | ecdsa | eddsa | pkcs1 | pss
  | pssEq          -- RSASSA-PSS with the salt length fixed to the hash length (crypto/x509); `pss` detects the salt length (COSE, JWS)
  deriving Repr, DecidableEq, Inhabited

inductive Ask where
  | sha256 (data : Bytes)
  | hash (id : Nat) (data : Bytes)                       -- crypto.Hash(id); unavailable ⇒ none
  | sigVerify (s : SigScheme) (hashId : Nat) (k : KeyMat) (msg sig : Bytes)
  | x509Parse (der : Bytes)
  | x509CheckSig (der : Bytes) (alg : Nat) (msg sig : Bytes)
  | tpmHashes                                            -- which TPM hash algorithms are linked in: (TPM_ALG_ID, crypto.Hash id) pairs
  | safetyNet (raw : Bytes)                              -- parse + chain validation + claims, for the JWS forms Model/Jws.lean does not cover (JSON serialisation, "jwk" header)
  | x509Verify (leaf : Bytes) (intermediates : List Bytes) (dns : Bytes)
                                                         -- leaf.Verify(VerifyOptions{DNSName: dns, Intermediates: …}) against the system roots succeeded?
  | jwsVerify (raw : Bytes) (leafDer : Bytes)            -- JSONWebSignature.Verify(leaf certificate's public key) succeeded?
  | x509VerifyPool (leaf : Bytes) (intermediates : List Bytes) (pool : Nat)
                                                         -- leaf.Verify(VerifyOptions{Roots: pool, Intermediates: …}) succeeded? (pool: 0 default root, 1 nil = system roots, i+2 = i-th custom pool)
  | blobPayload (payload : Bytes)                        -- json.Unmarshal(payload, &MetadataBLOBPayload{}) (go-jose's JSON) succeeded: the decoded value, re-marshalled
  | jwsHeaders (raw : Bytes)                             -- jwt.ParseSigned: number of signatures/headers (the JWS forms Model/Jws.lean does not cover)
  | jwsChain (raw : Bytes) (i : Nat) (pool : Nat)        -- Headers[i].Certificates(Roots: pool): leaf of the first chain
  | jwsClaims (raw : Bytes) (leafDer : Bytes)            -- tok.Claims(leaf key): the payload
  deriving Repr, DecidableEq, Inhabited

/-- Result of the SafetyNet dependency steps (go-jose + x509), in the order the code performs them. -/
structure SafetyNetView where
  parsed : Bool
  chainsOK : Bool             -- every header's chain validates for attest.android.com and a leaf exists
  claimsOK : Bool             -- signature verifies under the leaf key and the payload parses
  nonce : Bytes
  deriving Repr, DecidableEq, Inhabited

inductive Resp where
  | none
  | bytes (b : Bytes)
  | bool (b : Bool)
  | nat (n : Nat)
  | cert (c : CertView)
  | hashTable (t : List (Nat × Nat))
  | safetyNet (s : SafetyNetView)
  deriving Repr, DecidableEq, Inhabited

inductive Prog (α : Type) where
  | ret (a : α) : Prog α
  | ask (q : Ask) (k : Resp → Prog α) : Prog α

namespace Prog

def bind {α β : Type} : Prog α → (α → Prog β) → Prog β
  | ret a, f => f a
  | ask q k, f => ask q (fun r => bind (k r) f)

instance : Monad Prog where
  pure := ret
  bind := bind

/-- An environment is a pure assignment of answers to questions. -/
structure Env where
  answer : Ask → Resp

def run {α : Type} (env : Env) : Prog α → α
  | ret a => a
  | ask q k => run env (k (env.answer q))

/-- The list of questions asked, in order. -/
def trace {α : Type} (env : Env) : Prog α → List Ask
  | ret _ => []
  | ask q k => q :: trace env (k (env.answer q))

def query (q : Ask) : Prog Resp := ask q ret

@[simp] theorem run_ret {α} (env : Env) (a : α) : run env (ret a) = a := rfl
@[simp] theorem run_pure {α} (env : Env) (a : α) : run env (pure a : Prog α) = a := rfl
@[simp] theorem run_ask {α} (env : Env) (q : Ask) (k : Resp → Prog α) :
    run env (ask q k) = run env (k (env.answer q)) := rfl
@[simp] theorem run_bind {α β} (env : Env) (p : Prog α) (f : α → Prog β) :
    run env (p >>= f) = run env (f (run env p)) := by
  show run env (bind p f) = _
  induction p with
  | ret a => rfl
  | ask q k ih => simp only [bind, run_ask]; exact ih _
@[simp] theorem run_query (env : Env) (q : Ask) : run env (query q) = env.answer q := rfl

end Prog
end WebAuthn
