import WebAuthnModel.Model.Prog
import WebAuthnModel.Model.Jws
/-
  go-jose's signature check for a compact JWS (`JSONWebSignature.Verify` → `DetachedVerify`, signing.go; `newVerifier` and the
  `verifyPayload` methods, asymmetric.go), given the verification key as x509 hands it over:

    *rsa.PublicKey      RS256/384/512 → RSASSA-PKCS1-v1_5, PS256/384/512 → RSASSA-PSS (salt length auto), SHA-256/384/512; any other alg fails
    *ecdsa.PublicKey    ES256/384/512 → the signature must be exactly 2·32 / 2·48 / 2·66 bytes r ‖ s (big endian), ECDSA over SHA-256/384/512
                        (the key's curve is NOT compared with the algorithm); any other alg fails
    ed25519.PublicKey   EdDSA → Ed25519 over the message itself; any other alg fails

  The message is the signing input (`Compact.signingInput`).  The primitives are the `sigVerify` question the COSE verifier already
  asks; its ECDSA form takes a DER signature, so r ‖ s is re-encoded as the DER SEQUENCE of the two INTEGERs (`derOfRS`) — for
  non-negative r, s that is the one encoding `ecdsa.VerifyASN1` accepts, and it verifies exactly when `ecdsa.Verify(r, s)` does.
  A key of a kind the certificate view does not describe (`KeyMat.other`: another curve, DSA, …) is left to go-jose as a whole (`jwsVerify`).
-/
namespace WebAuthn.Jws
open WebAuthn

/-- crypto.Hash identifiers -/
def hSHA256 : Nat := 5
def hSHA384 : Nat := 6
def hSHA512 : Nat := 7

/-- DER INTEGER contents of a non-negative big-endian magnitude: leading zeros dropped, a zero byte prepended when the top bit is set, 0 as 00 -/
def derMagnitude (b : Bytes) : Bytes :=
  match b.dropWhile (· = 0) with
  | [] => [0]
  | x :: rest => if x.toNat ≥ 128 then 0 :: x :: rest else x :: rest

/-- DER length octets (up to 255) -/
def derLen (n : Nat) : Bytes := if n < 128 then [UInt8.ofNat n] else [0x81, UInt8.ofNat n]

def derInteger (b : Bytes) : Bytes := let m := derMagnitude b; 0x02 :: derLen m.length ++ m

/-- `SEQUENCE { INTEGER r, INTEGER s }` -/
def derOfRS (r s : Bytes) : Bytes := let body := derInteger r ++ derInteger s; 0x30 :: derLen body.length ++ body

inductive Plan where
  | reject                                              -- `ErrUnsupportedAlgorithm`, or a signature of the wrong size
  | primitive (s : SigScheme) (hash : Nat) (sig : Bytes) -- the `sigVerify` question to ask over the signing input
  | opaque                                              -- a key kind the certificate view does not describe: go-jose as a whole
  deriving Repr, DecidableEq, Inhabited

def rsaPlan (alg sig : Bytes) : Plan :=
  if alg = str "RS256" then .primitive .pkcs1 hSHA256 sig
  else if alg = str "RS384" then .primitive .pkcs1 hSHA384 sig
  else if alg = str "RS512" then .primitive .pkcs1 hSHA512 sig
  else if alg = str "PS256" then .primitive .pss hSHA256 sig
  else if alg = str "PS384" then .primitive .pss hSHA384 sig
  else if alg = str "PS512" then .primitive .pss hSHA512 sig
  else .reject

def ecPlanFor (size hash : Nat) (sig : Bytes) : Plan :=
  if sig.length = 2 * size then .primitive .ecdsa hash (derOfRS (sig.take size) (sig.drop size)) else .reject

def ecPlan (alg sig : Bytes) : Plan :=
  if alg = str "ES256" then ecPlanFor 32 hSHA256 sig
  else if alg = str "ES384" then ecPlanFor 48 hSHA384 sig
  else if alg = str "ES512" then ecPlanFor 66 hSHA512 sig
  else .reject

/-- `newVerifier(key)` + `verifyPayload(input, signature, alg)` -/
def verifyPlan (alg : Bytes) (key : KeyMat) (sig : Bytes) : Plan :=
  match key with
  | .rsa _ _ => rsaPlan alg sig
  | .ec _ _ _ => ecPlan alg sig
  | .ed _ => if alg = str "EdDSA" then .primitive .eddsa 0 sig else .reject
  | .other => .opaque

/-- `tok.Verify(leaf.PublicKey)` for the compact token `raw` = `c`, under the key of the certificate `leafDer` -/
def signatureOK (raw : Bytes) (c : Compact) (leafDer : Bytes) (key : KeyMat) : Prog Bool := do
  if !c.verifiable then pure false                       -- "crit" not understood, or no protected header
  else
    match verifyPlan c.alg key c.signature with
    | .reject => pure false
    | .primitive s h sig =>
      match ← Prog.query (.sigVerify s h key c.signingInput sig) with
      | .bool b => pure b
      | _ => pure false
    | .opaque =>
      match ← Prog.query (.jwsVerify raw leafDer) with
      | .bool b => pure b
      | _ => pure false

/-- the same as a statement about the environment -/
def SignedBy (env : Prog.Env) (raw : Bytes) (c : Compact) (leafDer : Bytes) (key : KeyMat) : Prop :=
  c.verifiable = true ∧
  match verifyPlan c.alg key c.signature with
  | .reject => False
  | .primitive s h sig => env.answer (.sigVerify s h key c.signingInput sig) = .bool true
  | .opaque => env.answer (.jwsVerify raw leafDer) = .bool true

end WebAuthn.Jws
