import WebAuthnModel.Cbor.Semantic
import WebAuthnModel.Generated.Core
/-
  Authenticator data / attested credential data codec
  (authenticator_data.go, attested_credential_data.go, authenticator_flags.go, misc.go:extractCBOR).
-/
namespace WebAuthn
open Generated.Core

/-- `(flags & mask) == expected` as the accessor methods compute it (mask/expected regenerated from source). -/
def flagTest (acc : Nat × Nat) (flags : UInt8) : Bool := (flags.toNat &&& acc.1) = acc.2

def flagsUP (f : UInt8) : Bool := flagTest accUP f
def flagsUV (f : UInt8) : Bool := flagTest accUV f
def flagsAT (f : UInt8) : Bool := flagTest accAT f
def flagsED (f : UInt8) : Bool := flagTest accED f

/-- `extractCBOR`: one data item accepted by the generic decoder; returns (item bytes, remaining). -/
def extractCBOR (b : Bytes) : Option (Bytes × Bytes) :=
  match Cbor.decode b with
  | none => none
  | some (v, rest) =>
    if Cbor.acceptable v then some (b.take (b.length - rest.length), rest) else none

structure AttestedCredentialData where
  aaguid : Bytes
  credentialId : Bytes
  credentialPublicKey : Bytes
  deriving Repr, DecidableEq

structure AuthData where
  rpIdHash : Bytes
  flags : UInt8
  signCount : Nat
  acd : Option AttestedCredentialData
  extensions : Bytes          -- `[]` when flag ED is clear (Go: nil slice)
  deriving Repr, DecidableEq

def unmarshalACD (raw : Bytes) : Option (AttestedCredentialData × Bytes) :=
  if raw.length < aaguidSize then none else
  let aaguid := raw.take aaguidSize
  let raw := raw.drop aaguidSize
  if raw.length < 2 then none else
  let idLen := Bytes.beNat (raw.take 2)
  let raw := raw.drop 2
  if raw.length < idLen then none else
  let credId := raw.take idLen
  let raw := raw.drop idLen
  match extractCBOR raw with
  | none => none
  | some (key, rest) => some (⟨aaguid, credId, key⟩, rest)

def unmarshalAuthData (raw : Bytes) : Option (AuthData × Bytes) :=
  if raw.length < rpIdHashSize then none else
  let rpIdHash := raw.take rpIdHashSize
  let raw := raw.drop rpIdHashSize
  match raw with
  | [] => none
  | flags :: raw =>
    if flagsSize ≠ 1 then none else
    if raw.length < 4 then none else
    let signCount := Bytes.beNat (raw.take 4)
    let raw := raw.drop 4
    let acdPart : Option (Option AttestedCredentialData × Bytes) :=
      if flagsAT flags then
        match unmarshalACD raw with
        | none => none
        | some (acd, rest) => some (some acd, rest)
      else some (none, raw)
    match acdPart with
    | none => none
    | some (acd, raw) =>
      if flagsED flags then
        match extractCBOR raw with
        | none => none
        | some (ext, rest) => some (⟨rpIdHash, flags, signCount, acd, ext⟩, rest)
      else some (⟨rpIdHash, flags, signCount, acd, []⟩, raw)

def marshalACD (d : AttestedCredentialData) : Bytes :=
  d.aaguid ++ Bytes.ofNatBE 2 d.credentialId.length ++ d.credentialId ++ d.credentialPublicKey

/-- `AuthenticatorData.Marshal`; fails when AT is set and there is no attested credential data. -/
def marshalAuthData (d : AuthData) : Option Bytes :=
  let hdr := d.rpIdHash ++ [d.flags] ++ Bytes.ofNatBE 4 d.signCount
  let acdPart : Option Bytes :=
    if flagsAT d.flags then
      match d.acd with
      | none => none
      | some a => some (marshalACD a)
    else some []
  match acdPart with
  | none => none
  | some a => some (hdr ++ a ++ (if flagsED d.flags then d.extensions else []))

end WebAuthn
