import WebAuthnModel.Model.Asn1
import WebAuthnModel.Model.Tpm
import WebAuthnModel.Model.Json
import WebAuthnModel.Basic.Utf8
/-
  The Subject Alternative Name walk of `tpm.GetHardwareDetailsFromCertificate`, at byte level: `asn1.Unmarshal(ext.Value, &[]asn1.RawValue)`
  (no rest allowed), then for a context-specific [4] general name `asn1.Unmarshal(value.Bytes, &pkix.RDNSequence)` — a SEQUENCE OF
  SET OF SEQUENCE { OBJECT IDENTIFIER, ANY } — where an ANY that is a primitive universal string type decodes to a Go string and everything else
  does not (but must still be well-formed: INTEGER, BIT STRING, OBJECT IDENTIFIER contents are validated).  This produces the view
  (`Tpm.SanExt`) that `Tpm.detailsFromSan` and the C17 theorems are about.
  Not modelled: UTCTime / GeneralizedTime attribute values (`time.Parse`); a directory name containing one is `unmodelled` (the driver says
  so and the comparison skips the case), and in the pure model it counts as unparsable.
-/
namespace WebAuthn.San
open WebAuthn Asn1

/-- the tag folding `parseSequenceOf` applies before comparing with the expected tag -/
def foldTag (t : Nat) : Nat :=
  if t = 22 ∨ t = 27 ∨ t = 20 ∨ t = 12 ∨ t = 18 ∨ t = 30 then 19 else if t = 24 ∨ t = 23 then 23 else t

/-- `parseSequenceOf`'s first pass: element headers and contents; `expect = none` is matchAny (RawValue elements) -/
def elems (expect : Option (Nat × Bool)) : Nat → Bytes → Option (List (TL × Bytes))
  | _, [] => some []
  | 0, _ :: _ => none
  | fuel + 1, b =>
    match parseTL b with
    | none => none
    | some (t, r) =>
      let okTag := match expect with
        | none => true
        | some (tag, compound) => t.cls = 0 && t.compound == compound && foldTag t.tag = tag
      if !okTag then none
      else if t.len > r.length then none
      else (elems expect fuel (r.drop t.len)).map (fun es => (t, r.take t.len) :: es)

/-- `parseObjectIdentifier` -/
def oidRest : Nat → Bytes → Option (List Nat)
  | _, [] => some []
  | 0, _ :: _ => none
  | fuel + 1, b =>
    match base128 0 0 b with
    | none => none
    | some (v, r) => (oidRest fuel r).map (v :: ·)

def parseOID (b : Bytes) : Option (List Nat) :=
  match b with
  | [] => none
  | _ :: _ =>
    match base128 0 0 b with
    | none => none
    | some (v, r) =>
      (oidRest r.length r).map (fun rest => (if v < 80 then [v / 40, v % 40] else [2, v - 80]) ++ rest)

inductive AnyRes where
  | str (s : Bytes)
  | other
  | error
  | unmodelled
  deriving Repr, DecidableEq

def isPrintable (b : UInt8) : Bool :=
  let x := b.toNat
  (97 ≤ x && x ≤ 122) || (65 ≤ x && x ≤ 90) || (48 ≤ x && x ≤ 57) || (39 ≤ x && x ≤ 41) || (43 ≤ x && x ≤ 47) ||
    x = 32 || x = 58 || x = 61 || x = 63 || x = 42 || x = 38

/-- `utf16.Decode` of big-endian code units followed by conversion to a Go string -/
def bmpUnits : Bytes → List Nat
  | a :: b :: rest => (a.toNat * 256 + b.toNat) :: bmpUnits rest
  | _ => []

def isSurrogate (u : Nat) : Bool := 0xD800 ≤ u && u < 0xE000

def utf16ToUtf8 : List Nat → Bytes
  | [] => []
  | [u] => if isSurrogate u then Json.replacement else Json.encodeRune u
  | u :: tl@(v :: rest') =>
    if 0xD800 ≤ u ∧ u < 0xDC00 ∧ 0xDC00 ≤ v ∧ v < 0xE000 then
      Json.encodeRune (0x10000 + (u - 0xD800) * 1024 + (v - 0xDC00)) ++ utf16ToUtf8 rest'
    else (if isSurrogate u then Json.replacement else Json.encodeRune u) ++ utf16ToUtf8 tl

def parseBitStringOK (b : Bytes) : Bool :=
  match b with
  | [] => false
  | p :: _ =>
    let pad := p.toNat
    !(pad > 7 || (b.length = 1 && pad > 0) || ((b.getLast?.getD 0).toNat % (2 ^ pad) ≠ 0))

/-- the `interface{}` branch of `parseField` on a primitive universal element with tag `tag` and contents `c` -/
def anyValue (t : TL) (c : Bytes) : AnyRes :=
  if t.compound || t.cls ≠ 0 then .other
  else if t.tag = 19 then (if c.all isPrintable then .str c else .error)
  else if t.tag = 18 then (if c.all (fun b => (48 ≤ b.toNat && b.toNat ≤ 57) || b = 32) then .str c else .error)
  else if t.tag = 22 then (if c.all (fun b => b.toNat < 128) then .str c else .error)
  else if t.tag = 20 then .str c
  else if t.tag = 12 then (if utf8Valid c then .str c else .error)
  else if t.tag = 2 then (if (parseInt64 c).isSome then .other else .error)
  else if t.tag = 3 then (if parseBitStringOK c then .other else .error)
  else if t.tag = 6 then (if (parseOID c).isSome then .other else .error)
  else if t.tag = 23 ∨ t.tag = 24 then .unmodelled
  else if t.tag = 4 then .other
  else if t.tag = 30 then
    (if c.length % 2 ≠ 0 then .error
     else
      let c := if c.length ≥ 2 ∧ c.getLast? = some 0 ∧ (c.dropLast.getLast? = some 0) then c.dropLast.dropLast else c
      .str (utf16ToUtf8 (bmpUnits c)))
  else .other

inductive RdnRes where
  | ok (attrs : List Tpm.Attr)
  | bad
  | unmodelled
  deriving Repr, DecidableEq

/-- one AttributeTypeAndValue: contents of its SEQUENCE -/
def parseAttr (c : Bytes) : Option (Option Tpm.Attr) :=          -- none = error; some none = unmodelled
  match c with
  | [] => none
  | _ :: _ =>
    match parseTL c with
    | none => none
    | some (t, r) =>
      if t.cls ≠ 0 ∨ t.tag ≠ 6 ∨ t.compound then none
      else if t.len > r.length then none
      else match parseOID (r.take t.len) with
        | none => none
        | some oid =>
          let r := r.drop t.len
          match r with
          | [] => none                                            -- "sequence truncated"
          | _ :: _ =>
            match parseTL r with
            | none => none
            | some (tv, rv) =>
              if tv.len > rv.length then none
              else match anyValue tv (rv.take tv.len) with
                | .str s => some (some ⟨oid, true, s⟩)
                | .other => some (some ⟨oid, false, []⟩)
                | .error => none
                | .unmodelled => some none

def parseAttrs : List (TL × Bytes) → RdnRes
  | [] => .ok []
  | (_, c) :: rest =>
    match parseAttr c with
    | none => .bad
    | some none => (match parseAttrs rest with | .bad => .bad | _ => .unmodelled)
    | some (some a) => (match parseAttrs rest with | .ok as => .ok (a :: as) | r => r)

def parseSets : List (TL × Bytes) → RdnRes
  | [] => .ok []
  | (_, c) :: rest =>
    match elems (some (16, true)) c.length c with
    | none => .bad
    | some atvs =>
      match parseAttrs atvs with
      | .ok as => (match parseSets rest with | .ok bs => .ok (as ++ bs) | r => r)
      | .bad => .bad
      | .unmodelled => (match parseSets rest with | .bad => .bad | _ => .unmodelled)

/-- `asn1.Unmarshal(bytes, &pkix.RDNSequence)` (rest ignored), flattened to the attribute list in order -/
def parseRDN (b : Bytes) : RdnRes :=
  match b with
  | [] => .bad
  | _ :: _ =>
    match parseTL b with
    | none => .bad
    | some (t, r) =>
      if t.cls ≠ 0 ∨ t.tag ≠ 16 ∨ !t.compound then .bad
      else if t.len > r.length then .bad
      else match elems (some (17, true)) t.len (r.take t.len) with
        | none => .bad
        | some sets => parseSets sets

/-- the SAN extension value → the view `Tpm.detailsFromSan` consumes; the Bool says whether everything needed was modelled -/
def parseExt (value : Bytes) : Tpm.SanExt × Bool :=
  match value with
  | [] => (.bad, true)
  | _ :: _ =>
    match parseTL value with
    | none => (.bad, true)
    | some (t, r) =>
      if t.cls ≠ 0 ∨ t.tag ≠ 16 ∨ !t.compound then (.bad, true)
      else if t.len > r.length then (.bad, true)
      else if r.drop t.len ≠ [] then (.bad, true)                 -- "unexpected trailing data in SAN extension"
      else match elems none t.len (r.take t.len) with
        | none => (.bad, true)
        | some names =>
          let gs := names.map fun (tl, c) =>
            let rdn := parseRDN c
            ((⟨tl.cls, tl.tag, match rdn with | .ok as => some as | _ => none⟩ : Tpm.GeneralName), rdn == RdnRes.unmodelled)
          -- only the first context-specific [4] name is ever parsed by the code
          let firstDir := gs.find? (fun g => g.1.cls = 2 ∧ g.1.tag = 4)
          (.names (gs.map (·.1)), match firstDir with | some g => !g.2 | none => true)

end WebAuthn.San
