import WebAuthnModel.Model.Ceremony
/-
  Histories of ceremonies against one relying party over `InMemoryCredentialStorage` (C07).
-/
namespace WebAuthn
open Prog

inductive HOp where
  | register (o : CreationOptions) (c : Attestation) (opts : List VerifyOption)
  | authenticate (o : RequestOptions) (a : Assertion)
  deriving Repr

/-- what the caller observes of one ceremony: the credential returned, or failure -/
abbrev HOut := Option Credential

/-- one ceremony against the in-memory storage (`Store.get`, `Store.insert`; `SetCredential` never fails) -/
def hstep (rp : RP) (st : Store) : HOp → Prog (HOut × Store)
  | .register o c opts => do
    let out ← verifyRegistration rp o c opts st.get (fun _ => .ok)
    match out.result with
    | .ok cred => pure (some cred, st.insert cred)
    | .error _ => pure (none, st)
  | .authenticate o a => do
    let out ← verifyAuthentication rp o a st.get
    match out.result with
    | .ok cred => pure (some cred, st)
    | .error _ => pure (none, st)

def hrun (rp : RP) : Store → List HOp → Prog (List HOut × Store)
  | st, [] => pure ([], st)
  | st, op :: ops => do
    let (o, st') ← hstep rp st op
    let (os, st'') ← hrun rp st' ops
    pure (o :: os, st'')

end WebAuthn
