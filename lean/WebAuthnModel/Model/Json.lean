import WebAuthnModel.Basic.Bytes
/-
  `encoding/json` (the sandbox's default toolchain, go1.23) as the repository uses it for client data:
  `json.Unmarshal(clientDataJSON, &CollectedClientData)`.  Two stages, as in Go: the text must be one valid JSON value
  (`checkValid`: RFC 8259 grammar, whitespace = space / tab / CR / LF, nesting depth ≤ 10000, nothing but whitespace after the
  value); then the value is stored into the struct: members are matched to fields by name, exactly or under Unicode
  simple case folding (`foldName`: ASCII case plus U+017F ſ ~ s and U+212A K ~ k), later duplicates overwrite earlier ones,
  `null` leaves a field as it is, a value of the wrong JSON type for its field is an `UnmarshalTypeError` (decoding goes on,
  the call fails).  Strings are unquoted as `unquoteBytes` does (escapes, surrogate pairs, U+FFFD for lone surrogates and for
  every byte of invalid UTF-8).
-/
namespace WebAuthn.Json

def c (x : Char) : UInt8 := UInt8.ofNat x.toNat

inductive JVal where
  | null
  | bool (b : Bool)
  | num
  | str (raw : Bytes)                         -- the characters between the quotes, escapes not yet resolved
  | arr (xs : List JVal)
  | obj (kvs : List (Bytes × JVal))           -- keys raw, in source order
  deriving Repr, Inhabited

def isSpace (b : UInt8) : Bool := b = 32 || b = 9 || b = 13 || b = 10
def isDigit (b : UInt8) : Bool := 48 ≤ b.toNat && b.toNat ≤ 57
def isHex (b : UInt8) : Bool := isDigit b || (97 ≤ b.toNat && b.toNat ≤ 102) || (65 ≤ b.toNat && b.toNat ≤ 70)

def skipSpace : Bytes → Bytes
  | [] => []
  | b :: rest => if isSpace b then skipSpace rest else b :: rest

/-- the body of a string literal after the opening quote: raw content and the rest after the closing quote -/
def scanString : Bytes → Option (Bytes × Bytes)
  | [] => none
  | b :: rest =>
    if b = c '"' then some ([], rest)
    else if b = c '\\' then
      match rest with
      | e :: rest' =>
        if e = c 'u' then
          match rest' with
          | h1 :: h2 :: h3 :: h4 :: rest'' =>
            if isHex h1 && isHex h2 && isHex h3 && isHex h4 then
              (scanString rest'').map (fun p => (b :: e :: h1 :: h2 :: h3 :: h4 :: p.1, p.2))
            else none
          | _ => none
        else if e = c 'b' || e = c 'f' || e = c 'n' || e = c 'r' || e = c 't' || e = c '\\' || e = c '/' || e = c '"' then
          (scanString rest').map (fun p => (b :: e :: p.1, p.2))
        else none
      | [] => none
    else if b.toNat < 32 then none
    else (scanString rest).map (fun p => (b :: p.1, p.2))

def takeDigits : Bytes → Bytes × Bytes
  | [] => ([], [])
  | b :: rest => if isDigit b then let (d, r) := takeDigits rest; (b :: d, r) else ([], b :: rest)

/-- a number literal: -? (0 | [1-9][0-9]*) (. [0-9]+)? ([eE] [+-]? [0-9]+)? ; returns the rest -/
def scanNumber (s : Bytes) : Option Bytes :=
  let s := match s with
    | b :: rest => if b = c '-' then rest else s
    | [] => s
  let afterInt : Option Bytes :=
    match s with
    | b :: rest =>
      if b = c '0' then some rest
      else if isDigit b then some (takeDigits rest).2
      else none
    | [] => none
  match afterInt with
  | none => none
  | some s =>
    let afterFrac : Option Bytes :=
      match s with
      | b :: rest =>
        if b = c '.' then
          let (d, r) := takeDigits rest
          if d = [] then none else some r
        else some s
      | [] => some s
    match afterFrac with
    | none => none
    | some s =>
      match s with
      | b :: rest =>
        if b = c 'e' || b = c 'E' then
          let rest := match rest with
            | sg :: r => if sg = c '+' || sg = c '-' then r else rest
            | [] => rest
          let (d, r) := takeDigits rest
          if d = [] then none else some r
        else some s
      | [] => some s

def maxDepth : Nat := 10000

mutual
/-- one JSON value (leading whitespace allowed); `depth` = number of enclosing arrays/objects -/
def parseValue : Nat → Nat → Bytes → Option (JVal × Bytes)
  | 0, _, _ => none
  | fuel + 1, depth, s =>
    match skipSpace s with
    | [] => none
    | b :: rest =>
      if b = c '{' then
        if depth + 1 > maxDepth then none
        else match skipSpace rest with
          | b2 :: rest2 => if b2 = c '}' then some (.obj [], rest2) else (parseMembers fuel (depth + 1) rest).map (fun p => (.obj p.1, p.2))
          | [] => none
      else if b = c '[' then
        if depth + 1 > maxDepth then none
        else match skipSpace rest with
          | b2 :: rest2 => if b2 = c ']' then some (.arr [], rest2) else (parseElems fuel (depth + 1) rest).map (fun p => (.arr p.1, p.2))
          | [] => none
      else if b = c '"' then (scanString rest).map (fun p => (.str p.1, p.2))
      else if b = c 't' then (if (rest.take 3) = [c 'r', c 'u', c 'e'] then some (.bool true, rest.drop 3) else none)
      else if b = c 'f' then (if (rest.take 4) = [c 'a', c 'l', c 's', c 'e'] then some (.bool false, rest.drop 4) else none)
      else if b = c 'n' then (if (rest.take 3) = [c 'u', c 'l', c 'l'] then some (.null, rest.drop 3) else none)
      else if b = c '-' || isDigit b then (scanNumber (b :: rest)).map (fun r => (.num, r))
      else none
/-- `"key" : value (, "key" : value)* }` -/
def parseMembers : Nat → Nat → Bytes → Option (List (Bytes × JVal) × Bytes)
  | 0, _, _ => none
  | fuel + 1, depth, s =>
    match skipSpace s with
    | b :: rest =>
      if b ≠ c '"' then none
      else match scanString rest with
        | none => none
        | some (key, rest) =>
          match skipSpace rest with
          | b2 :: rest2 =>
            if b2 ≠ c ':' then none
            else match parseValue fuel depth rest2 with
              | none => none
              | some (v, rest3) =>
                match skipSpace rest3 with
                | b3 :: rest4 =>
                  if b3 = c '}' then some ([(key, v)], rest4)
                  else if b3 = c ',' then (parseMembers fuel depth rest4).map (fun p => ((key, v) :: p.1, p.2))
                  else none
                | [] => none
          | [] => none
    | [] => none
/-- `value (, value)* ]` -/
def parseElems : Nat → Nat → Bytes → Option (List JVal × Bytes)
  | 0, _, _ => none
  | fuel + 1, depth, s =>
    match parseValue fuel depth s with
    | none => none
    | some (v, rest) =>
      match skipSpace rest with
      | b :: rest2 =>
        if b = c ']' then some ([v], rest2)
        else if b = c ',' then (parseElems fuel depth rest2).map (fun p => (v :: p.1, p.2))
        else none
      | [] => none
end

/-- `checkValid` + tree: the whole input is one JSON value surrounded by whitespace -/
def parse (s : Bytes) : Option JVal :=
  match parseValue (s.length + 1) 0 s with
  | some (v, rest) => if skipSpace rest = [] then some v else none
  | none => none

/-! ### strings -/

def hexVal (b : UInt8) : Nat :=
  if isDigit b then b.toNat - 48 else if 97 ≤ b.toNat ∧ b.toNat ≤ 102 then b.toNat - 87 else b.toNat - 55

/-- `utf8.AppendRune` for a scalar value (callers never pass surrogates) -/
def encodeRune (r : Nat) : Bytes :=
  if r < 0x80 then [UInt8.ofNat r]
  else if r < 0x800 then [UInt8.ofNat (0xC0 + r / 64), UInt8.ofNat (0x80 + r % 64)]
  else if r < 0x10000 then [UInt8.ofNat (0xE0 + r / 4096), UInt8.ofNat (0x80 + r / 64 % 64), UInt8.ofNat (0x80 + r % 64)]
  else [UInt8.ofNat (0xF0 + r / 262144), UInt8.ofNat (0x80 + r / 4096 % 64), UInt8.ofNat (0x80 + r / 64 % 64), UInt8.ofNat (0x80 + r % 64)]

def replacement : Bytes := [0xEF, 0xBF, 0xBD]

def isCont (x : UInt8) : Bool := 0x80 ≤ x.toNat && x.toNat ≤ 0xBF

/-- length of the valid UTF-8 sequence at the head of a string starting with a byte ≥ 0x80 (`utf8.DecodeRune`); 0 = invalid -/
def utf8SeqLen : Bytes → Nat
  | a :: rest =>
    let x := a.toNat
    if 0xC2 ≤ x ∧ x ≤ 0xDF then
      match rest with
      | b :: _ => if isCont b then 2 else 0
      | _ => 0
    else if 0xE0 ≤ x ∧ x ≤ 0xEF then
      match rest with
      | b :: d :: _ =>
        let lo := if x = 0xE0 then 0xA0 else 0x80
        let hi := if x = 0xED then 0x9F else 0xBF
        if lo ≤ b.toNat ∧ b.toNat ≤ hi ∧ isCont d then 3 else 0
      | _ => 0
    else if 0xF0 ≤ x ∧ x ≤ 0xF4 then
      match rest with
      | b :: d :: e :: _ =>
        let lo := if x = 0xF0 then 0x90 else 0x80
        let hi := if x = 0xF4 then 0x8F else 0xBF
        if lo ≤ b.toNat ∧ b.toNat ≤ hi ∧ isCont d ∧ isCont e then 4 else 0
      | _ => 0
    else 0
  | [] => 0

def u4 (h1 h2 h3 h4 : UInt8) : Nat := hexVal h1 * 4096 + hexVal h2 * 256 + hexVal h3 * 16 + hexVal h4

/-- `unquoteBytes` on the raw content of a literal the scanner accepted -/
def unquote : Nat → Bytes → Bytes
  | 0, _ => []
  | _ + 1, [] => []
  | fuel + 1, b :: rest =>
    if b = c '\\' then
      match rest with
      | e :: rest' =>
        if e = c 'u' then
          match rest' with
          | h1 :: h2 :: h3 :: h4 :: rest'' =>
            let r := u4 h1 h2 h3 h4
            if 0xD800 ≤ r ∧ r < 0xE000 then
              -- a surrogate: valid only as high surrogate immediately followed by an escaped low surrogate
              match rest'' with
              | b1 :: b2 :: g1 :: g2 :: g3 :: g4 :: rest3 =>
                let r2 := u4 g1 g2 g3 g4
                if b1 = c '\\' ∧ b2 = c 'u' ∧ isHex g1 ∧ isHex g2 ∧ isHex g3 ∧ isHex g4 ∧ r < 0xDC00 ∧ 0xDC00 ≤ r2 ∧ r2 < 0xE000 then
                  encodeRune (0x10000 + (r - 0xD800) * 1024 + (r2 - 0xDC00)) ++ unquote fuel rest3
                else replacement ++ unquote fuel rest''
              | _ => replacement ++ unquote fuel rest''
            else encodeRune r ++ unquote fuel rest''
          | _ => []
        else
          let m : UInt8 :=
            if e = c 'b' then 8 else if e = c 'f' then 12 else if e = c 'n' then 10 else if e = c 'r' then 13 else if e = c 't' then 9 else e
          m :: unquote fuel rest'
      | [] => []
    else if b.toNat < 0x80 then b :: unquote fuel rest
    else
      let n := utf8SeqLen (b :: rest)
      if n = 0 then replacement ++ unquote fuel rest
      else (b :: rest).take n ++ unquote fuel ((b :: rest).drop n)

def unq (raw : Bytes) : Bytes := unquote (raw.length + 1) raw

/-- `foldName`: ASCII upper-casing; U+017F (ſ) folds to 'S', U+212A (Kelvin sign) to 'K'; every other rune is kept as it is
    for the purpose of comparing with ASCII field names (its fold orbit contains no ASCII letter) -/
def foldName : Bytes → Bytes
  | [] => []
  | 0xC5 :: 0xBF :: rest => c 'S' :: foldName rest
  | 0xE2 :: 0x84 :: 0xAA :: rest => c 'K' :: foldName rest
  | b :: rest => (if 97 ≤ b.toNat ∧ b.toNat ≤ 122 then UInt8.ofNat (b.toNat - 32) else b) :: foldName rest

def nameIs (key : Bytes) (field : String) : Bool := foldName (unq key) == foldName field.toUTF8.toList

/-! ### CollectedClientData -/

structure ClientDataFields where
  type : Bytes := []
  challenge : Bytes := []
  origin : Bytes := []
  deriving Repr, DecidableEq, Inhabited

/-- store a value into a string-kinded field: new value and "no type error" -/
def storeString (cur : Bytes) : JVal → Bytes × Bool
  | .str raw => (unq raw, true)
  | .null => (cur, true)
  | _ => (cur, false)

def storeBoolOK : JVal → Bool
  | .bool _ => true
  | .null => true
  | _ => false

/-- members of the `tokenBinding` object: fields `status`, `id` (strings); only type errors matter -/
def tokenBindingOK : List (Bytes × JVal) → Bool
  | [] => true
  | (k, v) :: rest =>
    let here := if nameIs k "status" || nameIs k "id" then (storeString [] v).2 else true
    here && tokenBindingOK rest

def storeTokenBindingOK : JVal → Bool
  | .null => true
  | .obj kvs => tokenBindingOK kvs
  | _ => false

/-- the member loop of `(*decodeState).object` for CollectedClientData: fields so far and "no error so far" -/
def storeMembers : ClientDataFields → Bool → List (Bytes × JVal) → ClientDataFields × Bool
  | f, ok, [] => (f, ok)
  | f, ok, (k, v) :: rest =>
    if nameIs k "type" then let (x, o) := storeString f.type v; storeMembers { f with type := x } (ok && o) rest
    else if nameIs k "challenge" then let (x, o) := storeString f.challenge v; storeMembers { f with challenge := x } (ok && o) rest
    else if nameIs k "origin" then let (x, o) := storeString f.origin v; storeMembers { f with origin := x } (ok && o) rest
    else if nameIs k "crossOrigin" then storeMembers f (ok && storeBoolOK v) rest
    else if nameIs k "tokenBinding" then storeMembers f (ok && storeTokenBindingOK v) rest
    else storeMembers f ok rest

/-- `json.Unmarshal(raw, &CollectedClientData{})`: `none` = error -/
def clientData (raw : Bytes) : Option ClientDataFields :=
  match parse raw with
  | none => none
  | some .null => some {}
  | some (.obj kvs) =>
    let (f, ok) := storeMembers {} true kvs
    if ok then some f else none
  | some _ => none

end WebAuthn.Json
