import WebAuthnModel.Model.Prog
/-
  go-tpm v0.9.1 `legacy/tpm2` as the repository uses it: `DecodeAttestationData` (TPMS_ATTEST) with `Encode`, `DecodePublic`
  (TPMT_PUBLIC) with `Encode`, `Key` and `NameAlg`.  Big-endian fixed-width fields, TPM2B byte strings with a 16-bit size, names
  (empty / 4-byte handle / algorithm + digest read by the algorithm's hash size).  Which hash algorithms exist depends on what is
  linked into the binary; that table is the one question asked of the environment (`tpmHashes`).
  Quirks reproduced on purpose: a digest shorter than the hash size is zero-padded (`bytes.Buffer.Read` short read), bytes after the
  digest inside a name are ignored, a symmetric / signature / KDF scheme whose algorithm is 0 is decoded with its parameters but
  re-encoded as TPM_ALG_NULL alone, trailing bytes after either structure are ignored.
-/
namespace WebAuthn.Tpm2
open WebAuthn

/-- (TPM_ALG_ID, crypto.Hash id) for the hash algorithms available in the process -/
abbrev HashTable := List (Nat × Nat)

/-- digest size by `crypto.Hash` id (SHA-1, SHA-2 and SHA-3 families) -/
def hashSize (h : Nat) : Nat :=
  if h = 3 then 20 else if h = 4 then 28 else if h = 5 then 32 else if h = 6 then 48 else if h = 7 then 64
  else if h = 10 then 28 else if h = 11 then 32 else if h = 12 then 48 else if h = 13 then 64 else 0

def hashOf (t : HashTable) (alg : Nat) : Option Nat := (t.find? (fun e => e.1 == alg)).map (·.2)

def be (b : Bytes) : Nat := Bytes.beNat b

/-- fixed-width big-endian field -/
def fixed (n : Nat) (b : Bytes) : Option (Nat × Bytes) :=
  if b.length < n then none else some (be (b.take n), b.drop n)

/-- TPM2B: 16-bit size, then that many bytes -/
def u16bytes (b : Bytes) : Option (Bytes × Bytes) :=
  match fixed 2 b with
  | none => none
  | some (n, r) => if r.length < n then none else some (r.take n, r.drop n)

def algNull : Nat := 0x10
def algRSA : Nat := 0x01
def algKeyedHash : Nat := 0x08
def algHMAC : Nat := 0x05
def algXOR : Nat := 0x0A
def algECDAA : Nat := 0x1A
def algECC : Nat := 0x23
def algSymCipher : Nat := 0x25
def isNull (a : Nat) : Bool := a = algNull || a = 0

def pad (w n : Nat) : Bytes := Bytes.ofNatBE w n

/-! ### names -/

/-- `DecodeName` on the contents of the TPM2B; `none` = error -/
def decodeNameBuf (t : HashTable) (nb : Bytes) : Option TpmName :=
  if nb.length = 0 then some .none
  else if nb.length = 4 then some .handle
  else
    match fixed 2 nb with
    | none => none
    | some (alg, r) =>
      match hashOf t alg with
      | none => none
      | some h =>
        let size := hashSize h
        -- bytes.Buffer.Read: an empty buffer is an error (for a non-empty destination), a short one is a short read into a zeroed slice
        if size > 0 ∧ r = [] then none
        else some (.digest alg ((r.take size) ++ List.replicate (size - (r.take size).length) 0))

def decodeName (t : HashTable) (b : Bytes) : Option (TpmName × Bytes × Bytes) :=   -- name, its raw 4 handle bytes (for re-encoding), rest
  match u16bytes b with
  | none => none
  | some (nb, rest) => (decodeNameBuf t nb).map (fun n => (n, (if nb.length = 4 then nb else []), rest))

/-- `Name.Encode` -/
def encodeName (n : TpmName) (handleBytes : Bytes) : Bytes :=
  let buf : Bytes :=
    match n with
    | .none => []
    | .handle => handleBytes
    | .digest alg v => pad 2 alg ++ v
  pad 2 buf.length ++ buf

/-! ### TPMS_ATTEST -/

def magicValue : Nat := 0xff544347
def tagCertify : Nat := 0x8017
def tagQuote : Nat := 0x8018
def tagCreation : Nat := 0x801a

/-- `DecodeAttestationData` as far as the repository looks: `none` = decode error.  For Creation / Quote structures (which the
    verifier rejects by their type) the body is not followed: `hasCertifyInfo = false`, nothing to re-encode. -/
def certInfo (t : HashTable) (raw : Bytes) : Option CertInfoView :=
  match fixed 4 raw with
  | none => none
  | some (magic, r) =>
  match fixed 2 r with
  | none => none
  | some (ty, r) =>
  if magic ≠ magicValue then none else
  match decodeName t r with
  | none => none
  | some (signer, signerH, r) =>
  match u16bytes r with
  | none => none
  | some (extra, r) =>
  if r.length < 17 + 8 then none else
  let clockFw := r.take 25
  let r := r.drop 25
  if ty = tagCertify then
    match decodeName t r with
    | none => none
    | some (name, nameH, r) =>
      match decodeName t r with
      | none => none
      | some (qn, qnH, _) =>
        let enc := pad 4 magic ++ pad 2 ty ++ encodeName signer signerH ++ (pad 2 extra.length ++ extra) ++ clockFw ++
          encodeName name nameH ++ encodeName qn qnH
        some ⟨magic, ty, extra, true, name, some enc⟩
  else if ty = tagCreation ∨ ty = tagQuote then some ⟨magic, ty, extra, false, .none, none⟩
  else none

/-! ### TPMT_PUBLIC -/

/-- `decodeSymScheme` / `SymScheme.encode`: re-encoding and rest -/
def symScheme (b : Bytes) : Option (Bytes × Bytes) :=
  match fixed 2 b with
  | none => none
  | some (alg, r) =>
    if alg = algNull then some (pad 2 algNull, r)
    else match fixed 4 r with      -- KeyBits, Mode
      | none => none
      | some (_, r') => some ((if isNull alg then pad 2 algNull else pad 2 alg ++ r.take 4), r')

def sigScheme (b : Bytes) : Option (Bytes × Bytes) :=
  match fixed 2 b with
  | none => none
  | some (alg, r) =>
    if alg = algNull then some (pad 2 algNull, r)
    else match fixed 2 r with      -- Hash
      | none => none
      | some (_, r') =>
        if alg = algECDAA then
          match fixed 4 r' with    -- Count
          | none => none
          | some (_, r'') => some (pad 2 alg ++ r.take 6, r'')
        else some ((if isNull alg then pad 2 algNull else pad 2 alg ++ r.take 2), r')

def kdfScheme (b : Bytes) : Option (Bytes × Bytes) :=
  match fixed 2 b with
  | none => none
  | some (alg, r) =>
    if alg = algNull then some (pad 2 algNull, r)
    else match fixed 2 r with
      | none => none
      | some (_, r') => some ((if isNull alg then pad 2 algNull else pad 2 alg ++ r.take 2), r')

/-- TPM curve id → COSE curve number the model's `KeyMat.ec` uses (P-256 1, P-384 2, P-521 3); P-224 is a Go curve no COSE key has -/
def curveOf (c : Nat) : Option (Option Nat) :=
  if c = 2 then some none else if c = 3 then some (some 1) else if c = 4 then some (some 2) else if c = 5 then some (some 3) else none

/-- `DecodePublic` + `Key()` + `Encode()`; `none` = decode error -/
def pubArea (raw : Bytes) : Option PubAreaView :=
  match fixed 2 raw with
  | none => none
  | some (ty, r) =>
  match fixed 2 r with
  | none => none
  | some (nameAlg, r) =>
  match fixed 4 r with
  | none => none
  | some (attrs, r) =>
  match u16bytes r with
  | none => none
  | some (policy, r) =>
  let head := pad 2 ty ++ pad 2 nameAlg ++ pad 4 attrs ++ (pad 2 policy.length ++ policy)
  if ty = algRSA then
    match symScheme r with
    | none => none
    | some (symE, r) =>
    match sigScheme r with
    | none => none
    | some (sigE, r) =>
    match fixed 2 r with
    | none => none
    | some (keyBits, r) =>
    match fixed 4 r with
    | none => none
    | some (expRaw, r) =>
    match u16bytes r with
    | none => none
    | some (modulus, _) =>
      let e := if expRaw = 0 then 65537 else expRaw
      some ⟨nameAlg, some (.rsa (Bytes.stripZeros modulus) e),
            some (head ++ symE ++ sigE ++ pad 2 keyBits ++ pad 4 expRaw ++ (pad 2 modulus.length ++ modulus))⟩
  else if ty = algECC then
    match symScheme r with
    | none => none
    | some (symE, r) =>
    match sigScheme r with
    | none => none
    | some (sigE, r) =>
    match fixed 2 r with
    | none => none
    | some (curve, r) =>
    match kdfScheme r with
    | none => none
    | some (kdfE, r) =>
    match u16bytes r with
    | none => none
    | some (x, r) =>
    match u16bytes r with
    | none => none
    | some (y, _) =>
      let key : Option KeyMat :=
        match curveOf curve with
        | none => none                         -- Key(): "can't map TPM EC curve ID"
        | some none => some .other             -- P-224: a key no credential key equals
        | some (some crv) => some (.ec crv (Bytes.stripZeros x) (Bytes.stripZeros y))
      some ⟨nameAlg, key, some (head ++ symE ++ sigE ++ pad 2 curve ++ kdfE ++ (pad 2 x.length ++ x) ++ (pad 2 y.length ++ y))⟩
  else if ty = algSymCipher then
    match symScheme r with
    | none => none
    | some (symE, r) =>
    match u16bytes r with
    | none => none
    | some (u, _) => some ⟨nameAlg, none, some (head ++ symE ++ (pad 2 u.length ++ u))⟩
  else if ty = algKeyedHash then
    match fixed 2 r with
    | none => none
    | some (alg, r) =>
      let params : Option (Bytes × Bytes) :=
        if alg = algNull then some (pad 2 alg, r)
        else if alg = algHMAC then (fixed 2 r).map (fun p => (pad 2 alg ++ r.take 2, p.2))
        else if alg = algXOR then (fixed 4 r).map (fun p => (pad 2 alg ++ r.take 4, p.2))
        else none
      match params with
      | none => none
      | some (pe, r) =>
        match u16bytes r with
        | none => none
        | some (u, _) => some ⟨nameAlg, none, some (head ++ pe ++ (pad 2 u.length ++ u))⟩
  else none

end WebAuthn.Tpm2
