import WebAuthnModel.Model.Attestation
import WebAuthnModel.Model.Origin
import WebAuthnModel.Basic.Base64Url
/-
  The two ceremonies (relying_party.go) and the verify options (verify_options.go).
  Storage is a parameter: every call is answered by an outcome, so that arbitrary (faulty) storages
  are covered; `InMemoryCredentialStorage` is the instance `Store.get/Store.set` below.
-/
namespace WebAuthn
open Prog

structure Credential where
  id : Bytes
  owner : Bytes
  publicKey : Bytes
  deriving Repr, DecidableEq

/-- what a `GetCredential` call answers -/
inductive GetOutcome where
  | found (c : Credential)
  | notFound            -- ErrCredentialNotFound itself
  | wrappedNotFound     -- an error that wraps ErrCredentialNotFound
  | err                 -- any other error
  deriving Repr, DecidableEq

inductive SetOutcome where
  | ok | err
  deriving Repr, DecidableEq

inductive Call where
  | get (id : Bytes)
  | set (c : Credential)
  deriving Repr, DecidableEq

structure RP where
  origin : Bytes
  id : Bytes
  deriving Repr, DecidableEq

/-- `NewRelyingParty` -/
def newRP (origin : Bytes) : Prog RP := do
  let id ← rpId origin
  pure ⟨origin, id⟩

/-- `UnmarshalClientData`: `json.Unmarshal(raw, &CollectedClientData)` — decided by the Lean model of encoding/json -/
def askClientData (raw : Bytes) : Prog (Option ClientData) := pure (Json.clientData raw)

/-! ### authentication -/

structure RequestOptions where
  challenge : Bytes
  allow : List Bytes                 -- ids of options.allowCredentials
  userVerification : Bytes
  deriving Repr, DecidableEq

structure Assertion where
  rawId : Bytes
  clientDataJSON : Bytes
  authenticatorData : Bytes
  signature : Bytes
  userHandle : Bytes
  deriving Repr, DecidableEq

inductive AuthErr where
  | notAllowed
  | storageNotFound | storageWrappedNotFound | storageErr     -- the storage's own error, returned as is
  | userHandle | clientData | type | challenge | origin | authData | rpIdHash | notPresent | notVerified
  | publicKey | signature
  deriving Repr, DecidableEq

structure AuthOut where
  result : Except AuthErr Credential
  calls : List Call
  deriving Repr

def strBytes (x : String) : Bytes := Bytes.ofString x

def verifyAuthentication (rp : RP) (o : RequestOptions) (a : Assertion) (get : Bytes → GetOutcome) : Prog AuthOut := do
  if o.allow ≠ [] ∧ !o.allow.contains a.rawId then pure ⟨.error .notAllowed, []⟩ else
  let calls := [Call.get a.rawId]
  match get a.rawId with
  | .notFound => pure ⟨.error .storageNotFound, calls⟩
  | .wrappedNotFound => pure ⟨.error .storageWrappedNotFound, calls⟩
  | .err => pure ⟨.error .storageErr, calls⟩
  | .found cred =>
    if a.userHandle ≠ cred.owner then pure ⟨.error .userHandle, calls⟩ else
    match ← askClientData a.clientDataJSON with
    | none => pure ⟨.error .clientData, calls⟩
    | some cd =>
      if cd.type ≠ strBytes Generated.Core.clientDataTypeGet then pure ⟨.error .type, calls⟩
      else if cd.challenge ≠ B64.encode o.challenge then pure ⟨.error .challenge, calls⟩
      else if !(← originMatches cd.origin rp.origin) then pure ⟨.error .origin, calls⟩
      else match unmarshalAuthData a.authenticatorData with
        | none => pure ⟨.error .authData, calls⟩
        | some (ad, _) =>
          let expected ← Att.sha256 rp.id
          if ad.rpIdHash ≠ expected then pure ⟨.error .rpIdHash, calls⟩
          else if !flagsUP ad.flags then pure ⟨.error .notPresent, calls⟩
          else if o.userVerification = strBytes Generated.Core.userVerificationRequired ∧ !flagsUV ad.flags then
            pure ⟨.error .notVerified, calls⟩
          else
            let cdHash ← Att.sha256 a.clientDataJSON
            match Cose.parse cred.publicKey with
            | .ok k _ =>
              if ← Cose.verify k (a.authenticatorData ++ cdHash) a.signature then pure ⟨.ok cred, calls⟩
              else pure ⟨.error .signature, calls⟩
            | _ => pure ⟨.error .publicKey, calls⟩

/-! ### verify options -/

inductive VerifyOption where
  | allowedFormats (fs : List Bytes)
  | allowedTypes (ts : List Bytes)
  deriving Repr, DecidableEq

structure VerifyConfig where
  formats : List Bytes
  types : List Bytes
  deriving Repr, DecidableEq

def defaultConfig : VerifyConfig :=
  ⟨Generated.Core.formats.map strBytes, Generated.Core.types.map strBytes⟩

/-- each option replaces the set of its kind (the translator checks that the Go setters assign a fresh map) -/
def applyOption (cfg : VerifyConfig) : VerifyOption → VerifyConfig
  | .allowedFormats fs => { cfg with formats := fs }
  | .allowedTypes ts => { cfg with types := ts }

def getVerifyConfig (opts : List VerifyOption) : VerifyConfig := opts.foldl applyOption defaultConfig

/-! ### registration -/

structure CreationOptions where
  challenge : Bytes
  userId : Bytes
  algs : List Int                        -- pubKeyCredParams[i].alg
  authSelUV : Option Bytes               -- authenticatorSelection absent ⇒ none, else its userVerification
  deriving Repr, DecidableEq

structure Attestation where
  rawId : Bytes
  clientDataJSON : Bytes
  attestationObject : Bytes
  deriving Repr, DecidableEq

inductive RegErr where
  | clientData | type | challenge | origin | attObj | authData | rpIdHash | notPresent | notVerified
  | noAttestedData | publicKey | algorithm | statement | typeNotAllowed | formatNotAllowed | rawId
  | storageErr          -- wraps the storage's read error
  | differentUser       -- ErrCredentialRegisteredToDifferentUser
  | saveErr             -- wraps the storage's write error
  | unmodelled          -- input uses a CBOR construct the model does not reproduce (never compared)
  deriving Repr, DecidableEq

structure RegOut where
  result : Except RegErr Credential
  calls : List Call
  deriving Repr

/-- `UnmarshalAttestationObject` (stream decode: trailing bytes are allowed and returned) -/
inductive AttObjParse where
  | ok (o : Att.AttObj) (rest : Bytes)
  | err
  | unmodelled

def unmarshalAttestationObject (raw : Bytes) : AttObjParse :=
  match Cbor.decode raw with
  | none => .err
  | some (v, rest) =>
    match Cbor.decodeAttObj v with
    | .ok f ad st => .ok ⟨f, ad, st⟩ rest
    | .err => .err
    | .unmodelled => .unmodelled

def verifyRegistration (rp : RP) (o : CreationOptions) (c : Attestation) (opts : List VerifyOption)
    (get : Bytes → GetOutcome) (set : Credential → SetOutcome) : Prog RegOut := do
  let cfg := getVerifyConfig opts
  match ← askClientData c.clientDataJSON with
  | none => pure ⟨.error .clientData, []⟩
  | some cd =>
    if cd.type ≠ strBytes Generated.Core.clientDataTypeCreate then pure ⟨.error .type, []⟩
    else if B64.encode o.challenge ≠ cd.challenge then pure ⟨.error .challenge, []⟩
    else if !(← originMatches cd.origin rp.origin) then pure ⟨.error .origin, []⟩
    else
      let cdHash ← Att.sha256 c.clientDataJSON
      match unmarshalAttestationObject c.attestationObject with
      | .err => pure ⟨.error .attObj, []⟩
      | .unmodelled => pure ⟨.error .unmodelled, []⟩
      | .ok ao _ =>
        match unmarshalAuthData ao.authData with
        | none => pure ⟨.error .authData, []⟩
        | some (ad, _) =>
          let expected ← Att.sha256 rp.id
          if expected ≠ ad.rpIdHash then pure ⟨.error .rpIdHash, []⟩
          else if !flagsUP ad.flags then pure ⟨.error .notPresent, []⟩
          else if o.authSelUV = some (strBytes Generated.Core.userVerificationRequired) ∧ !flagsUV ad.flags then
            pure ⟨.error .notVerified, []⟩
          else match ad.acd with
            | none => pure ⟨.error .noAttestedData, []⟩
            | some acd =>
              match Cose.parse acd.credentialPublicKey with
              | .unmodelled => pure ⟨.error .unmodelled, []⟩
              | .err _ => pure ⟨.error .publicKey, []⟩
              | .ok k _ =>
                if !o.algs.contains k.alg then pure ⟨.error .algorithm, []⟩ else
                match ← Att.verify ao cdHash with
                | none => pure ⟨.error .statement, []⟩
                | some res =>
                  if !cfg.types.contains (strBytes res.type) then pure ⟨.error .typeNotAllowed, []⟩
                  else if !cfg.formats.contains ao.fmt then pure ⟨.error .formatNotAllowed, []⟩
                  else if c.rawId ≠ acd.credentialId then pure ⟨.error .rawId, []⟩
                  else
                    let calls := [Call.get c.rawId]
                    let proceed : Prog RegOut :=
                      let cred : Credential := ⟨c.rawId, o.userId, acd.credentialPublicKey⟩
                      match set cred with
                      | .ok => pure ⟨.ok cred, calls ++ [Call.set cred]⟩
                      | .err => pure ⟨.error .saveErr, calls ++ [Call.set cred]⟩
                    match get c.rawId with
                    | .notFound => proceed
                    | .wrappedNotFound => proceed
                    | .err => pure ⟨.error .storageErr, calls⟩
                    | .found existing =>
                      if existing.owner ≠ o.userId then pure ⟨.error .differentUser, calls⟩ else proceed

/-! ### the in-memory storage -/

abbrev Store := List Credential      -- association list, newest first; lookup takes the first hit

def Store.get (st : Store) (id : Bytes) : GetOutcome :=
  match st.find? (fun c => c.id == id) with
  | some c => .found c
  | none => .notFound

def Store.insert (st : Store) (c : Credential) : Store := c :: st.filter (fun x => x.id != c.id)

end WebAuthn
