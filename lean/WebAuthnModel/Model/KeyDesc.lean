import WebAuthnModel.Model.Asn1
import WebAuthnModel.Generated.Asn1Schema
import WebAuthnModel.Generated.TpmAndroid
/-
  The repository's three ASN.1 decoders, as instances of the `encoding/asn1` model over the schemas the translator
  regenerates from the source: `android.UnmarshalKeyDescription` / `KeyDescription.Marshal`,
  `getCertificateAppleNonce`'s local struct, and the AAGUID extension's OCTET STRING.
-/
namespace WebAuthn.KeyDesc
open Asn1 Generated.Asn1Schema

abbrev RotVal := List (FV Empty)
abbrev AuthListVal := List (FV RotVal)
abbrev KDVal := List (FV AuthListVal)

def noSub : String → Option (SubOps Empty) := fun _ => none

def rotOps : Option (SubOps RotVal) := ops noSub rootOfTrust

def alSub : String → Option (SubOps RotVal) := fun n => if n = "RootOfTrust" then rotOps else none

def alOps : Option (SubOps AuthListVal) := ops alSub authorizationList

def kdSub : String → Option (SubOps AuthListVal) := fun n => if n = "AuthorizationList" then alOps else none

/-- `android.UnmarshalKeyDescription(raw)`: value and remaining bytes -/
def unmarshal (raw : Bytes) : Option (KDVal × Bytes) := unmarshalStruct kdSub keyDescription raw

/-- `KeyDescription.Marshal()` -/
def marshal (v : KDVal) : Option Bytes := marshalStruct kdSub keyDescription v

/-- the members the android-key verifier reads -/
structure View where
  challenge : Bytes
  swAllApplications : Bool
  teeAllApplications : Bool
  teeOrigin : Int
  teePurpose : List Int
  deriving Repr, DecidableEq, Inhabited

def alFlag (v : AuthListVal) (n : String) : Bool :=
  match getField authorizationList v n with
  | some (.prim (.bool b)) => b
  | _ => false

def alInt (v : AuthListVal) (n : String) : Int :=
  match getField authorizationList v n with
  | some (.prim (.int i)) => i
  | _ => 0

def alInts (v : AuthListVal) (n : String) : List Int :=
  match getField authorizationList v n with
  | some (.prim (.ints (some l))) => l
  | _ => []

def kdBytes (v : KDVal) (n : String) : Bytes :=
  match getField keyDescription v n with
  | some (.prim (.bytes (some b))) => b
  | _ => []

def kdList (v : KDVal) (n : String) : AuthListVal :=
  match getField keyDescription v n with
  | some (.sub l) => l
  | _ => []

def viewOf (v : KDVal) : View :=
  let sw := kdList v "SoftwareEnforced"
  let tee := kdList v "TeeEnforced"
  { challenge := kdBytes v "AttestationChallenge"
    swAllApplications := alFlag sw "AllApplications"
    teeAllApplications := alFlag tee "AllApplications"
    teeOrigin := alInt tee "Origin"
    teePurpose := alInts tee "Purpose" }

/-- what `getCertificateAndroidKeyDescription` hands to the verifier for an extension value (rest ignored) -/
def view (raw : Bytes) : Option View := (unmarshal raw).map (fun p => viewOf p.1)

/-- `getCertificateAppleNonce` on the extension value: `value.Nonce` (rest ignored) -/
def appleNonce (raw : Bytes) : Option Bytes :=
  match unmarshalStruct noSub appleAnonymousAttestation raw with
  | some ([.prim (.bytes (some b))], _) => some b
  | _ => none

/-- the AAGUID extension value: `asn1.Unmarshal(value, &raw)` with no rest -/
def octetStringExact (raw : Bytes) : Option Bytes :=
  match unmarshalOctetString raw with
  | some (b, []) => some b
  | _ => none

end WebAuthn.KeyDesc
