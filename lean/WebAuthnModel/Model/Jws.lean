import WebAuthnModel.Basic.Bytes
import WebAuthnModel.Basic.Base64Url
import WebAuthnModel.Basic.Base64Std
import WebAuthnModel.Model.Json
/-
  go-jose v3.0.3 as the android-safetynet verifier uses it:

    jwt.ParseSigned(string(rawResponse))            = jose.ParseSigned  (jws.go)            → `parse`
    tok.Claims(key, &android.SafetyNetClaims{})     = Verify, then json.Unmarshal (fork)    → `claims`

  `jose.ParseSigned`: stripWhitespace (encoding.go) → a leading '{' selects the JSON serialisation (not modelled) → otherwise
  `parseSignedCompact`: three dot-separated parts, each base64url-decoded after trimming trailing '=' → `rawJSONWebSignature.sanitized`:
  the protected header is unmarshalled (only when its decoded bytes are non-empty) with go-jose's own fork of encoding/json into
  `map[HeaderKey]*json.RawMessage`, then `rawHeader.sanitized` (shared.go) decodes the members one by one.

  The fork (go-jose/v3/json, an encoding/json of the go1.5 era with two changes): member names are matched to struct fields by
  exact bytes only (no case folding), and a repeated member name in any object that is DECODED (struct, map, interface{}) is an
  error — values that are merely skipped (members of a struct without a matching field) are only syntax-checked.  Its scanner
  accepts the grammar of today's encoding/json (RFC 8259; whitespace = space, tab, CR, LF) and has no nesting limit; this model has
  none either (very deep nesting makes the Go code overflow its stack; that is outside the model).
  Type mismatches are "saved" (`saveError`) or raised (`d.error`); either way Unmarshal returns an error.
-/
namespace WebAuthn.Jws
open WebAuthn.Json (c isDigit skipSpace scanString scanNumber unq utf8SeqLen replacement)

/-! ### stripWhitespace (encoding.go) -/

/-- `unicode.IsSpace` below U+0080: \t \n \v \f \r and space -/
def isAsciiSpace (b : UInt8) : Bool := (9 ≤ b.toNat && b.toNat ≤ 13) || b = 32

/-- `unicode.IsSpace` for a valid multi-byte UTF-8 sequence: U+0085 U+00A0 U+1680 U+2000–U+200A U+2028 U+2029 U+202F U+205F U+3000 -/
def isSpaceSeq : Bytes → Bool
  | [0xC2, b] => b = 0x85 || b = 0xA0
  | [0xE1, 0x9A, 0x80] => true
  | [0xE2, 0x80, d] => (0x80 ≤ d.toNat && d.toNat ≤ 0x8A) || d = 0xA8 || d = 0xA9 || d = 0xAF
  | [0xE2, 0x81, 0x9F] => true
  | [0xE3, 0x80, 0x80] => true
  | _ => false

/-- the loop `for _, r := range data { if !unicode.IsSpace(r) { buf.WriteRune(r) } }`: a valid UTF-8 sequence is one rune and is
    written back unchanged; every byte that does not start a valid sequence is the rune U+FFFD and is written back as EF BF BD -/
def stripLoop : Nat → Bytes → Bytes
  | 0, _ => []
  | _ + 1, [] => []
  | fuel + 1, b :: rest =>
    if b.toNat < 0x80 then
      if isAsciiSpace b then stripLoop fuel rest else b :: stripLoop fuel rest
    else
      let n := utf8SeqLen (b :: rest)
      if n = 0 then replacement ++ stripLoop fuel rest
      else
        let seq := (b :: rest).take n
        if isSpaceSeq seq then stripLoop fuel ((b :: rest).drop n) else seq ++ stripLoop fuel ((b :: rest).drop n)

def stripWhitespace (s : Bytes) : Bytes := stripLoop (s.length + 1) s

/-! ### base64 -/

/-- `base64.StdEncoding.DecodeString` -/
def decodeStd (s : Bytes) : Option Bytes := B64Std.decode s

/-- `strings.TrimRight(value, "=")` -/
def trimPad (s : Bytes) : Bytes := (s.reverse.dropWhile (· = 61)).reverse

/-- go-jose `base64URLDecode` (encoding.go) -/
def base64URLDecode (s : Bytes) : Option Bytes := B64.decode (trimPad s)

/-! ### JSON text → tree (the fork's scanner; number literals keep their text) -/

inductive JV where
  | null
  | bool (b : Bool)
  | num (lit : Bytes)                         -- the literal as written
  | str (raw : Bytes)                         -- the characters between the quotes, escapes not yet resolved
  | arr (xs : List JV)
  | obj (kvs : List (Bytes × JV))             -- keys raw, in source order
  deriving Repr, Inhabited

/-- a number literal at the head of `s`: its text and the rest -/
def numLit (s : Bytes) : Option (Bytes × Bytes) :=
  (scanNumber s).map fun rest => (s.take (s.length - rest.length), rest)

mutual
/-- one JSON value (leading whitespace allowed) -/
def parseValue : Nat → Bytes → Option (JV × Bytes)
  | 0, _ => none
  | fuel + 1, s =>
    match skipSpace s with
    | [] => none
    | b :: rest =>
      if b = c '{' then
        match skipSpace rest with
        | b2 :: rest2 => if b2 = c '}' then some (.obj [], rest2) else (parseMembers fuel rest).map (fun p => (.obj p.1, p.2))
        | [] => none
      else if b = c '[' then
        match skipSpace rest with
        | b2 :: rest2 => if b2 = c ']' then some (.arr [], rest2) else (parseElems fuel rest).map (fun p => (.arr p.1, p.2))
        | [] => none
      else if b = c '"' then (scanString rest).map (fun p => (.str p.1, p.2))
      else if b = c 't' then (if (rest.take 3) = [c 'r', c 'u', c 'e'] then some (.bool true, rest.drop 3) else none)
      else if b = c 'f' then (if (rest.take 4) = [c 'a', c 'l', c 's', c 'e'] then some (.bool false, rest.drop 4) else none)
      else if b = c 'n' then (if (rest.take 3) = [c 'u', c 'l', c 'l'] then some (.null, rest.drop 3) else none)
      else if b = c '-' || isDigit b then (numLit (b :: rest)).map (fun p => (.num p.1, p.2))
      else none
/-- `"key" : value (, "key" : value)* }` -/
def parseMembers : Nat → Bytes → Option (List (Bytes × JV) × Bytes)
  | 0, _ => none
  | fuel + 1, s =>
    match skipSpace s with
    | b :: rest =>
      if b ≠ c '"' then none
      else match scanString rest with
        | none => none
        | some (key, rest) =>
          match skipSpace rest with
          | b2 :: rest2 =>
            if b2 ≠ c ':' then none
            else match parseValue fuel rest2 with
              | none => none
              | some (v, rest3) =>
                match skipSpace rest3 with
                | b3 :: rest4 =>
                  if b3 = c '}' then some ([(key, v)], rest4)
                  else if b3 = c ',' then (parseMembers fuel rest4).map (fun p => ((key, v) :: p.1, p.2))
                  else none
                | [] => none
          | [] => none
    | [] => none
/-- `value (, value)* ]` -/
def parseElems : Nat → Bytes → Option (List JV × Bytes)
  | 0, _ => none
  | fuel + 1, s =>
    match parseValue fuel s with
    | none => none
    | some (v, rest) =>
      match skipSpace rest with
      | b :: rest2 =>
        if b = c ']' then some ([v], rest2)
        else if b = c ',' then (parseElems fuel rest2).map (fun p => (v :: p.1, p.2))
        else none
      | [] => none
end

/-- `checkValid` + tree: the whole input is one JSON value surrounded by whitespace -/
def parseJson (s : Bytes) : Option JV :=
  match parseValue (s.length + 1) s with
  | some (v, rest) => if skipSpace rest = [] then some v else none
  | none => none

/-! ### number literals into Go numeric types -/

def digitsVal (ds : Bytes) : Nat := ds.foldl (fun acc d => acc * 10 + (d.toNat - 48)) 0

/-- `strconv.ParseInt(lit, 10, 64)` succeeds (for a literal the scanner accepted): no fraction, no exponent, −2^63 ≤ value < 2^63 -/
def parseIntOK (lit : Bytes) : Bool :=
  match lit with
  | 45 :: ds => ds.all isDigit && digitsVal ds ≤ 2 ^ 63
  | ds => ds.all isDigit && digitsVal ds < 2 ^ 63

/-- `strconv.ParseUint(lit, 10, 64)` without overflow of uint8: digits only (a sign is an error, even "-0"), value ≤ 255 -/
def parseUint8 (lit : Bytes) : Option UInt8 :=
  if lit.all isDigit && digitsVal lit ≤ 255 then some (UInt8.ofNat (digitsVal lit)) else none

def takeDigits (s : Bytes) : Bytes × Bytes := (s.takeWhile isDigit, s.dropWhile isDigit)

/-- 2^1024 − 2^970: the least real number that `strconv.ParseFloat(·, 64)` rounds (to nearest, ties to even) to +Inf -/
def floatOverflowBound : Nat := 2 ^ 1024 - 2 ^ 970

/-- `strconv.ParseFloat(lit, 64)` returns no error (for a literal the scanner accepted): the only possible error is
    "value out of range", raised when the correctly rounded result is ±Inf; underflow to 0 is not an error.
    The literal is  −? int (. frac)? ([eE] [+−]? exp)?  and denotes  int·frac × 10^(exp − |frac|). -/
def parseFloatOK (lit : Bytes) : Bool :=
  let s := match lit with
    | 45 :: r => r
    | r => r
  let (ip, s1) := takeDigits s
  let (fp, s2) : Bytes × Bytes := match s1 with
    | 46 :: r => takeDigits r
    | r => ([], r)
  let (neg, ep) : Bool × Bytes := match s2 with
    | _ :: 45 :: r => (true, r)
    | _ :: 43 :: r => (false, r)
    | _ :: r => (false, r)
    | [] => (false, [])
  let mant := digitsVal (ip ++ fp)
  let nd := (ip ++ fp).length
  let e := digitsVal ep
  if mant = 0 then true
  else if neg then
    -- value = mant / 10^(e + |frac|)
    let k := e + fp.length
    if k > nd then true else mant < floatOverflowBound * 10 ^ k
  else if e ≥ fp.length then
    let k := e - fp.length
    if k > 310 then false else mant * 10 ^ k < floatOverflowBound
  else
    let k := fp.length - e
    if k > nd then true else mant < floatOverflowBound * 10 ^ k

/-! ### decoding into `interface{}` (objectInterface / arrayInterface / literalInterface) -/

def hasDup : List Bytes → Bool
  | [] => false
  | k :: rest => rest.contains k || hasDup rest

/-- member names as the decoder compares them: unquoted (escapes resolved, invalid UTF-8 coerced to U+FFFD) -/
def keysOf (kvs : List (Bytes × JV)) : List Bytes := kvs.map (fun kv => unq kv.1)

mutual
/-- `json.Unmarshal(v, &interface{})` returns no error: no object anywhere in the value repeats a member name, every number
    converts to a float64 -/
def ifaceOK : JV → Bool
  | .obj kvs => !hasDup (keysOf kvs) && membersOK kvs
  | .arr xs => elemsOK xs
  | .num lit => parseFloatOK lit
  | _ => true
def membersOK : List (Bytes × JV) → Bool
  | [] => true
  | (_, v) :: rest => ifaceOK v && membersOK rest
def elemsOK : List JV → Bool
  | [] => true
  | v :: rest => ifaceOK v && elemsOK rest
end

/-! ### the protected header -/

def str (s : String) : Bytes := s.toUTF8.toList

/-- what `rawHeader.sanitized` and `DetachedVerify` read from the header -/
structure Header where
  alg : Bytes := []
  x5c : List Bytes := []
  /-- `getCritical` succeeds and every name it lists is in `supportedCritical` (= {"b64"}) -/
  critOK : Bool := true
  /-- `getB64`: false only for a member `"b64": false` -/
  b64 : Bool := true
  hasJwk : Bool := false
  deriving Repr, Inhabited

/-- decoding a non-null value into a Go `string` ("kid", "alg", "nonce") -/
def asString : JV → Option Bytes
  | .str raw => some (unq raw)
  | _ => none

/-- decoding a non-null value into `[]string` ("x5c", "crit"): an array of strings; a `null` element leaves "" in its place -/
def asStringList : JV → Option (List Bytes)
  | .arr xs => xs.mapM fun
    | .str raw => some (unq raw)
    | .null => some []
    | _ => none
  | _ => none

/-- the member loop of `rawHeader.sanitized` (null members are skipped; Go walks the map in random order and stops at the first
    error, which makes no difference to whether there is one); `none` = error -/
def headerMembers : Header → List (Bytes × JV) → Option Header
  | h, [] => some h
  | h, (_, .null) :: rest => headerMembers h rest
  | h, (k, v) :: rest =>
    let key := unq k
    if key = str "jwk" then headerMembers { h with hasJwk := true } rest
    else if key = str "kid" || key = str "nonce" then
      match asString v with
      | some _ => headerMembers h rest
      | none => none
    else if key = str "alg" then
      match asString v with
      | some s => headerMembers { h with alg := s } rest
      | none => none
    else if key = str "x5c" then
      -- `parseCertificateChain`: every entry is standard base64 (x509.ParseCertificate stays outside the model)
      match asStringList v with
      | some l =>
        match l.mapM decodeStd with
        | some ders => headerMembers { h with x5c := ders } rest
        | none => none
      | none => none
    else if !ifaceOK v then none
    else if key = str "crit" then
      let ok := match asStringList v with
        | some l => l.all (· = str "b64")
        | none => false
      headerMembers { h with critOK := ok } rest
    else if key = str "b64" then
      match v with
      | .bool false => headerMembers { h with b64 := false } rest
      | _ => headerMembers h rest
    else headerMembers h rest

/-- `json.Unmarshal(protected, &rawHeader{})` then `rawHeader.sanitized`; `none` = error -/
def header (prot : Bytes) : Option Header :=
  match parseJson prot with
  | some .null => some {}                       -- the map stays nil: an empty header
  | some (.obj kvs) => if hasDup (keysOf kvs) then none else headerMembers {} kvs
  | _ => none                                    -- syntax error, or a value that is not an object

/-! ### jose.ParseSigned -/

structure Compact where
  protectedBytes : Bytes -- decoded bytes of the first segment (`protected` is a Lean keyword)
  payload : Bytes        -- decoded bytes of the second segment
  signature : Bytes      -- decoded bytes of the third segment
  /-- `computeAuthData` (jws.go): base64url of the protected bytes ++ "." ++ base64url of the payload
      (++ the payload itself when the protected header says `"b64": false`) -/
  signingInput : Bytes
  alg : Bytes            -- Header.Algorithm ("" if absent / null)
  x5c : List Bytes       -- the x5c header member: each entry std-base64 decoded, in order ([] if absent / null)
  /-- `JSONWebSignature.Verify` / `DetachedVerify` (signing.go) reaches the signature check: "crit" is absent / null / a list of
      strings naming only "b64" (`getCritical`, `supportedCritical`), and the protected segment is not empty (`computeAuthData`
      unmarshals it again and fails on empty input; with an empty segment `alg` is "" as well, which no verifier accepts, so this
      second condition cannot be observed on its own).  The signature check itself — `alg`, key type, the bytes of
      `signature` over `signingInput` — is cryptography and stays outside this model. -/
  verifiable : Bool
  deriving Repr, Inhabited

inductive Parsed where
  | unmodelled           -- the stripped input starts with '{' (JSON serialisation), or the protected header has a non-null "jwk"
  | error                -- jose.ParseSigned returns an error for a reason other than an x5c entry that is not a certificate
  | ok (c : Compact)     -- jose.ParseSigned succeeds provided x509.ParseCertificate accepts every entry of c.x5c
  deriving Repr, Inhabited

/-- `strings.Split(s, ".")` -/
def splitDots : Bytes → List Bytes
  | [] => [[]]
  | b :: rest =>
    match splitDots rest with
    | [] => [[]]  -- unreachable
    | p :: ps => if b = 46 then [] :: p :: ps else (b :: p) :: ps

def signingInputOf (prot payload : Bytes) (b64 : Bool) : Bytes :=
  B64.encode prot ++ [46] ++ (if b64 then B64.encode payload else payload)

/-- `parseSignedCompact` + `rawJSONWebSignature.sanitized` -/
def parseCompact (input : Bytes) : Parsed :=
  match splitDots input with
  | [p0, p1, p2] =>
    match base64URLDecode p0, base64URLDecode p1, base64URLDecode p2 with
    | some prot, some payload, some sig =>
      -- the header is unmarshalled only when there is one
      match (if prot = [] then some {} else header prot) with
      | none => .error
      | some h =>
        if h.hasJwk then .unmodelled
        else .ok { protectedBytes := prot, payload := payload, signature := sig,
                   signingInput := signingInputOf prot payload h.b64,
                   alg := h.alg, x5c := h.x5c, verifiable := prot ≠ [] && h.critOK }
    | _, _, _ => .error
  | _ => .error

def parse (raw : Bytes) : Parsed :=
  let s := stripWhitespace raw
  match s with
  | 123 :: _ => .unmodelled     -- '{': parseSignedFull
  | _ => parseCompact s

/-! ### json.Unmarshal(payload, &android.SafetyNetClaims{}) -/

/-- a value stored into a `[]byte`: a string is standard base64; an array gives one byte per element (a number 0..255 written as
    plain digits; `null` leaves 0); `null` gives nil; anything else is a type error -/
def asBytes : JV → Option Bytes
  | .null => some []
  | .str raw => decodeStd (unq raw)
  | .arr xs => xs.mapM fun
    | .null => some 0
    | .num lit => parseUint8 lit
    | _ => none
  | _ => none

def intOK : JV → Bool
  | .null => true
  | .num lit => parseIntOK lit
  | _ => false

def stringOK : JV → Bool
  | .null => true
  | .str _ => true
  | _ => false

def boolOK : JV → Bool
  | .null => true
  | .bool _ => true
  | _ => false

/-- a value stored into `[][]byte` -/
def bytesListOK : JV → Bool
  | .null => true
  | .arr xs => xs.all fun x => (asBytes x).isSome
  | _ => false

/-- the member loop of `(*decodeState).object` for SafetyNetClaims: fields are found by exact name; a member without a field is
    skipped unread.  Returns the nonce; `none` = a type error somewhere -/
def claimsMembers : Bytes → List (Bytes × JV) → Option Bytes
  | nonce, [] => some nonce
  | nonce, (k, v) :: rest =>
    let key := unq k
    if key = str "nonce" then
      match asBytes v with
      | some b => claimsMembers b rest
      | none => none
    else
      let ok :=
        if key = str "timestampMs" then intOK v
        else if key = str "apkPackageName" || key = str "evaluationType" then stringOK v
        else if key = str "apkCertificateDigestSha256" then bytesListOK v
        else if key = str "ctsProfileMatch" || key = str "basicIntegrity" then boolOK v
        else true
      if ok then claimsMembers nonce rest else none

/-- `json.Unmarshal(payload, &android.SafetyNetClaims{})` with go-jose's fork: the decoded `Nonce`, `none` on any error -/
def claims (payload : Bytes) : Option Bytes :=
  match parseJson payload with
  | some .null => some []
  | some (.obj kvs) => if hasDup (keysOf kvs) then none else claimsMembers [] kvs
  | _ => none

end WebAuthn.Jws
