import WebAuthnModel.Model.JwsVerify
/-
  `(*x509.Certificate).CheckSignature(algo, signed, signature)` (crypto/x509 of the default toolchain, go1.23: `checkSignature` with
  allowSHA1 = true) as a table from (x509.SignatureAlgorithm, kind of the certificate's key) to the primitive that checks the signature:

    id  algorithm            key kind   primitive
     3  SHA1WithRSA          RSA        RSASSA-PKCS1-v1_5, SHA-1
     4–6  SHA256/384/512WithRSA   RSA   RSASSA-PKCS1-v1_5, SHA-256/384/512
    13–15 SHA256/384/512WithRSAPSS RSA  RSASSA-PSS with salt length = hash length, SHA-256/384/512
     9  ECDSAWithSHA1        EC         ECDSA over SHA-1, DER signature
    10–12 ECDSAWithSHA256/384/512 EC    ECDSA over SHA-256/384/512, DER signature
    16  PureEd25519          Ed25519    Ed25519 over the message itself
     0 unknown, 1 MD2WithRSA (no table entry), 2 MD5WithRSA (insecure), 7–8 DSA (no such key can match), a key of another kind than
     the algorithm's: refused.

  A key the certificate view does not describe (`KeyMat.other`, e.g. an EC key on another curve) is left to crypto/x509 as a whole
  (`x509CheckSig`).
-/
namespace WebAuthn.X509Sig
open WebAuthn Jws

def hSHA1 : Nat := 3

inductive KeyAlgo where
  | rsa | ecdsa | ed25519
  deriving Repr, DecidableEq, Inhabited

/-- `signatureAlgorithmDetails`: public-key algorithm, hash (0 = none), RSA-PSS?; `none` = no entry, MD5, or DSA -/
def details (algo : Nat) : Option (KeyAlgo × Nat × Bool) :=
  if algo = 3 then some (.rsa, hSHA1, false)
  else if algo = 4 then some (.rsa, hSHA256, false)
  else if algo = 5 then some (.rsa, hSHA384, false)
  else if algo = 6 then some (.rsa, hSHA512, false)
  else if algo = 9 then some (.ecdsa, hSHA1, false)
  else if algo = 10 then some (.ecdsa, hSHA256, false)
  else if algo = 11 then some (.ecdsa, hSHA384, false)
  else if algo = 12 then some (.ecdsa, hSHA512, false)
  else if algo = 13 then some (.rsa, hSHA256, true)
  else if algo = 14 then some (.rsa, hSHA384, true)
  else if algo = 15 then some (.rsa, hSHA512, true)
  else if algo = 16 then some (.ed25519, 0, false)
  else none

/-- `checkSignature(algo, signed, signature, key, allowSHA1 = true)` -/
def checkPlan (algo : Nat) (key : KeyMat) (sig : Bytes) : Plan :=
  match key with
  | .other => .opaque
  | .rsa _ _ =>
    match details algo with
    | some (.rsa, h, pss) => .primitive (if pss then .pssEq else .pkcs1) h sig
    | _ => .reject
  | .ec _ _ _ =>
    match details algo with
    | some (.ecdsa, h, _) => .primitive .ecdsa h sig
    | _ => .reject
  | .ed _ =>
    match details algo with
    | some (.ed25519, _, _) => .primitive .eddsa 0 sig
    | _ => .reject

/-- the check as a program: the primitive over the message, or crypto/x509 as a whole for a key of another kind -/
def checkSignature (der : Bytes) (key : KeyMat) (algo : Nat) (msg sig : Bytes) : Prog Bool := do
  match checkPlan algo key sig with
  | .reject => pure false
  | .primitive s h sg =>
    match ← Prog.query (.sigVerify s h key msg sg) with
    | .bool b => pure b
    | _ => pure false
  | .opaque =>
    match ← Prog.query (.x509CheckSig der algo msg sig) with
    | .bool b => pure b
    | _ => pure false

/-- the same as a statement about the environment -/
def Checked (env : Prog.Env) (der : Bytes) (key : KeyMat) (algo : Nat) (msg sig : Bytes) : Prop :=
  match checkPlan algo key sig with
  | .reject => False
  | .primitive s h sg => env.answer (.sigVerify s h key msg sg) = .bool true
  | .opaque => env.answer (.x509CheckSig der algo msg sig) = .bool true

end WebAuthn.X509Sig
