import WebAuthnModel.Basic.Bytes
/-
  `net/url` (the sandbox's default toolchain, go1.23) as the repository uses it: `url.Parse(s)` succeeded?, and if so
  `u.Hostname()`.  Strings are byte strings.  Only what decides those two observables is modelled: control characters,
  scheme, query cut, opaque form, the first-segment colon rule, authority (user-info validity, host syntax, port syntax,
  percent-escapes in host / zone / user-info / path / fragment), and `splitHostPort`.
-/
namespace WebAuthn.Url

def ch (c : Char) : UInt8 := UInt8.ofNat c.toNat

def isAlpha (c : UInt8) : Bool := (97 ≤ c.toNat && c.toNat ≤ 122) || (65 ≤ c.toNat && c.toNat ≤ 90)
def isDigit (c : UInt8) : Bool := 48 ≤ c.toNat && c.toNat ≤ 57
def isHex (c : UInt8) : Bool := isDigit c || (97 ≤ c.toNat && c.toNat ≤ 102) || (65 ≤ c.toNat && c.toNat ≤ 70)

def unhex (c : UInt8) : Nat :=
  if isDigit c then c.toNat - 48
  else if 97 ≤ c.toNat ∧ c.toNat ≤ 102 then c.toNat - 87
  else if 65 ≤ c.toNat ∧ c.toNat ≤ 70 then c.toNat - 55
  else 0

/-- `stringContainsCTLByte` -/
def hasCTL (s : Bytes) : Bool := s.any (fun b => b.toNat < 32 || b.toNat = 127)

/-- `strings.Cut(s, sep)` for a one-byte separator: before, after, found -/
def cut (sep : UInt8) : Bytes → Bytes × Bytes × Bool
  | [] => ([], [], false)
  | c :: cs => if c = sep then ([], cs, true) else
    let (a, b, f) := cut sep cs
    (c :: a, b, f)

/-- position-free `strings.LastIndex` for a one-byte separator: the parts before and after the last occurrence -/
def cutLast (sep : UInt8) (s : Bytes) : Option (Bytes × Bytes) :=
  let (b, a, f) := cut sep s.reverse
  if f then some (a.reverse, b.reverse) else none

inductive Mode where
  | host | zone | userPassword | path | fragment
  deriving DecidableEq, Repr

/-- the characters `shouldEscape(c, encodeHost)` lets through besides alphanumerics -/
def hostPunct : Bytes := "!$&'()*+,;=:[]<>\"-_.~".toUTF8.toList

/-- `shouldEscape(c, encodeHost)` (the same for `encodeZone`) -/
def shouldEscapeHost (c : UInt8) : Bool := !(isAlpha c || isDigit c || hostPunct.contains c)

/-- `unescape(s, mode)` for the modes `Parse` uses; `none` = EscapeError / InvalidHostError -/
def unescape (mode : Mode) : Bytes → Option Bytes
  | [] => some []
  | c :: rest =>
    if c = ch '%' then
      match rest with
      | a :: b :: rest' =>
        if !(isHex a && isHex b) then none
        else
          let v := UInt8.ofNat (unhex a * 16 + unhex b)
          let is25 := a = ch '2' ∧ b = ch '5'
          if mode = .host ∧ unhex a < 8 ∧ ¬ is25 then none
          else if mode = .zone ∧ ¬ is25 ∧ v ≠ 32 ∧ shouldEscapeHost v then none
          else (unescape mode rest').map (v :: ·)
      | _ => none
    else if (mode = .host ∨ mode = .zone) ∧ c.toNat < 128 ∧ shouldEscapeHost c then none
    else (unescape mode rest).map (c :: ·)

/-- `getScheme`: `none` = "missing protocol scheme"; otherwise scheme and the rest -/
def getSchemeAux (raw : Bytes) : Nat → Bytes → Option (Bytes × Bytes)
  | _, [] => some ([], raw)
  | i, c :: cs =>
    if isAlpha c then getSchemeAux raw (i + 1) cs
    else if isDigit c || c = ch '+' || c = ch '-' || c = ch '.' then
      if i = 0 then some ([], raw) else getSchemeAux raw (i + 1) cs
    else if c = ch ':' then
      if i = 0 then none else some (raw.take i, cs)
    else some ([], raw)

def getScheme (raw : Bytes) : Option (Bytes × Bytes) := getSchemeAux raw 0 raw

/-- `validOptionalPort` -/
def validOptionalPort : Bytes → Bool
  | [] => true
  | c :: cs => c = ch ':' && cs.all isDigit

/-- `validUserinfo` (ranging over runes: any byte ≥ 0x80 is, or is part of, a rune outside the allowed set) -/
def userinfoPunct : Bytes := "-._:~!$&'()*+,;=%@".toUTF8.toList
def validUserinfo (s : Bytes) : Bool := s.all (fun c => isAlpha c || isDigit c || userinfoPunct.contains c)

/-- does `sub` occur in `s`? returns the part before and from the first occurrence -/
def findSub (sub : Bytes) : Bytes → Option (Bytes × Bytes)
  | [] => if sub = [] then some ([], []) else none
  | c :: cs =>
    if sub.isPrefixOf (c :: cs) then some ([], c :: cs)
    else (findSub sub cs).map (fun p => (c :: p.1, p.2))

/-- `parseHost` -/
def parseHost (host : Bytes) : Option Bytes :=
  match host with
  | c :: _ =>
    if c = ch '[' then
      match cutLast (ch ']') host with
      | none => none
      | some (before, colonPort) =>            -- before = host[:i], colonPort = host[i+1:]
        if !validOptionalPort colonPort then none
        else match findSub "%25".toUTF8.toList before with
          | some (h1, z) =>
            match unescape .host h1, unescape .zone z, unescape .host (ch ']' :: colonPort) with
            | some a, some b, some c => some (a ++ b ++ c)
            | _, _, _ => none
          | none => unescape .host host
    else
      match cutLast (ch ':') host with
      | some (_, port) => if !validOptionalPort (ch ':' :: port) then none else unescape .host host
      | none => unescape .host host
  | [] => unescape .host host

/-- `parseAuthority`: the host (user-info only has to be valid) -/
def parseAuthority (authority : Bytes) : Option Bytes :=
  match cutLast (ch '@') authority with
  | none => parseHost authority
  | some (userinfo, hostPart) =>
    match parseHost hostPart with
    | none => none
    | some h =>
      if !validUserinfo userinfo then none
      else
        let (u, p, hasColon) := cut (ch ':') userinfo
        if !hasColon then (unescape .userPassword userinfo).map (fun _ => h)
        else match unescape .userPassword u, unescape .userPassword p with
          | some _, some _ => some h
          | _, _ => none

/-- `splitHostPort` followed by the bracket strip: `URL.Hostname()` -/
def hostname (hostPort : Bytes) : Bytes :=
  let host :=
    match cutLast (ch ':') hostPort with
    | some (h, port) => if validOptionalPort (ch ':' :: port) then h else hostPort
    | none => hostPort
  match host with
  | c :: rest =>
    if c = ch '[' ∧ rest.getLast? = some (ch ']') then rest.dropLast
    else if c = ch '[' ∧ rest = [] then host       -- "[" alone: HasSuffix "]" is false
    else host
  | [] => host

/-- `parse(rawURL, false)`: the `Host` member; `none` = error -/
def parseHostField (u : Bytes) : Option Bytes :=
  if hasCTL u then none
  else if u = [ch '*'] then some []
  else match getScheme u with
    | none => none
    | some (scheme, rest) =>
      -- query
      let rest :=
        if rest.getLast? = some (ch '?') ∧ rest.count (ch '?') = 1 then rest.dropLast else (cut (ch '?') rest).1
      let startsSlash := rest.head? = some (ch '/')
      if !startsSlash ∧ scheme ≠ [] then some []                    -- opaque
      else if !startsSlash ∧ ((cut (ch '/') rest).1).contains (ch ':') then none
      else
        let slash2 := [ch '/', ch '/']
        let slash3 := [ch '/', ch '/', ch '/']
        if (scheme ≠ [] ∨ !slash3.isPrefixOf rest) ∧ slash2.isPrefixOf rest then
          let auth := rest.drop 2
          let (authority, pathTail, hasSlash) := cut (ch '/') auth
          let path := if hasSlash then ch '/' :: pathTail else []
          match parseAuthority authority with
          | none => none
          | some h => (unescape .path path).map (fun _ => h)
        else (unescape .path rest).map (fun _ => [])

/-- `url.Parse(raw)` succeeded ⇒ `some (u.Hostname())` -/
def hostOf (raw : Bytes) : Option Bytes :=
  let (u, frag, _) := cut (ch '#') raw
  match parseHostField u with
  | none => none
  | some h =>
    if frag = [] then some (hostname h)
    else (unescape .fragment frag).map (fun _ => hostname h)

end WebAuthn.Url
