import WebAuthnModel.Basic.Bytes
/-
  Go's `encoding/asn1` (the sandbox's default toolchain, go1.23) as the repository uses it: `asn1.Unmarshal` / `asn1.Marshal` of structs whose
  members are `int`, `asn1.Enumerated`, `asn1.Flag`, `bool`, `[]byte`, `[]int` (SET OF / SEQUENCE OF INTEGER) or
  another such struct, untagged or `tag:N,explicit`, `optional` or not.  The decoder is the *cursor* algorithm of
  `parseField`: one pass over the struct's members in declaration order; an optional member whose tag does not match
  the element under the cursor keeps its zero value and does not move the cursor; bytes left over at the end of a
  SEQUENCE are ignored.  Every error is `none` (the harness compares ok / error, not messages).

  Byte strings here are `bytes[offset:]` of the Go code: "offset == len(bytes)" is `[]`.
-/
namespace WebAuthn.Asn1

structure TL where
  cls : Nat
  compound : Bool
  tag : Nat
  len : Nat
  deriving Repr, DecidableEq, Inhabited

/-- `parseBase128Int` (tag numbers ≥ 31): at most five bytes, no leading 0x80, value ≤ MaxInt32 -/
def base128 (shifted acc : Nat) : Bytes → Option (Nat × Bytes)
  | [] => none
  | b :: rest =>
    if shifted = 5 then none
    else if shifted = 0 ∧ b = 0x80 then none
    else
      let acc' := acc * 128 + b.toNat % 128
      if b.toNat < 128 then (if acc' > 2147483647 then none else some (acc', rest))
      else base128 (shifted + 1) acc' rest

/-- the long-form length loop of `parseTagAndLength` -/
def lengthBytes : Nat → Nat → Bytes → Option (Nat × Bytes)
  | 0, acc, rest => some (acc, rest)
  | _ + 1, _, [] => none
  | n + 1, acc, b :: rest =>
    if acc ≥ 2 ^ 23 then none
    else
      let acc' := acc * 256 + b.toNat
      if acc' = 0 then none else lengthBytes n acc' rest

/-- `parseTagAndLength`: identifier octet(s) and DER length; returns the header and the bytes after it -/
def parseTL : Bytes → Option (TL × Bytes)
  | [] => none
  | b :: rest =>
    let cls := b.toNat / 64
    let compound := b.toNat / 32 % 2 == 1
    let t5 := b.toNat % 32
    let tagRes : Option (Nat × Bytes) :=
      if t5 = 31 then
        match base128 0 0 rest with
        | some (t, r) => if t < 31 then none else some (t, r)
        | none => none
      else some (t5, rest)
    match tagRes with
    | none => none
    | some (tag, rest) =>
      match rest with
      | [] => none
      | l :: rest =>
        if l.toNat < 128 then some (⟨cls, compound, tag, l.toNat⟩, rest)
        else
          let n := l.toNat % 128
          if n = 0 then none
          else match lengthBytes n 0 rest with
            | none => none
            | some (len, rest) => if len < 128 then none else some (⟨cls, compound, tag, len⟩, rest)

/-! ### primitive contents -/

/-- `checkInteger` -/
def checkInteger : Bytes → Bool
  | [] => false
  | [_] => true
  | a :: b :: _ => !((a == 0 && b.toNat < 128) || (a == 0xff && b.toNat ≥ 128))

/-- two's-complement value of a non-empty big-endian byte string -/
def twos (b : Bytes) : Int :=
  match b with
  | [] => 0
  | a :: _ => if a.toNat ≥ 128 then (Bytes.beNat b : Int) - (256 : Int) ^ b.length else (Bytes.beNat b : Int)

/-- `parseInt64` -/
def parseInt64 (b : Bytes) : Option Int :=
  if !checkInteger b then none else if b.length > 8 then none else some (twos b)

/-- `parseInt32` -/
def parseInt32 (b : Bytes) : Option Int :=
  match parseInt64 b with
  | none => none
  | some v => if -(2147483648 : Int) ≤ v ∧ v ≤ 2147483647 then some v else none

/-- `parseBool` -/
def parseBool : Bytes → Option Bool
  | [0] => some false
  | [0xff] => some true
  | _ => none

/-- `parseSequenceOf` for element type `int`: every element a universal primitive INTEGER that fits int64 -/
def parseInts : Nat → Bytes → Option (List Int)
  | _, [] => some []
  | 0, _ :: _ => none
  | fuel + 1, b =>
    match parseTL b with
    | none => none
    | some (t, r) =>
      if t.cls ≠ 0 ∨ t.compound ∨ t.tag ≠ 2 then none
      else if t.len > r.length then none
      else match parseInt64 (r.take t.len) with
        | none => none
        | some i => (parseInts fuel (r.drop t.len)).map (i :: ·)

/-! ### schemas and values -/

inductive Ty where
  | int | enum | flag | bool | bytes | intList
  | struct (name : String)
  deriving Repr, DecidableEq, Inhabited

/-- one struct member with its `asn1:"…"` parameters (`tag:N` is only supported together with `explicit`) -/
structure Field where
  name : String
  ty : Ty
  tag : Option Nat
  explicit : Bool
  set : Bool
  optional : Bool
  deriving Repr, DecidableEq, Inhabited

inductive PVal where
  | int (i : Int)                      -- int, Enumerated
  | bool (b : Bool)                    -- bool, Flag
  | bytes (b : Option Bytes)           -- []byte; none = nil
  | ints (l : Option (List Int))       -- []int;  none = nil
  deriving Repr, DecidableEq, Inhabited

/-- a member value: primitive, or a nested struct value of type `σ` -/
inductive FV (σ : Type) where
  | prim (p : PVal)
  | sub (s : σ)
  deriving Repr, DecidableEq, Inhabited

/-- what the codec needs to know about the struct types one level down -/
structure SubOps (σ : Type) where
  parse : Bytes → Option σ             -- contents of the SEQUENCE → value
  zero : σ
  isZero : σ → Bool                    -- reflect.DeepEqual(v, zero)
  body : σ → Option Bytes              -- contents of the SEQUENCE written by Marshal

/-- `getUniversalType` (+ the `set` parameter): expected universal tag number and constructed bit -/
def universal (f : Field) : Nat × Bool :=
  match f.ty with
  | .int => (2, false)
  | .enum => (10, false)
  | .flag => (1, false)
  | .bool => (1, false)
  | .bytes => (4, false)
  | .intList => (if f.set then 17 else 16, true)
  | .struct _ => (if f.set then 17 else 16, true)

def zeroOf {σ : Type} (sub : String → Option (SubOps σ)) : Ty → Option (FV σ)
  | .int => some (.prim (.int 0))
  | .enum => some (.prim (.int 0))
  | .flag => some (.prim (.bool false))
  | .bool => some (.prim (.bool false))
  | .bytes => some (.prim (.bytes none))
  | .intList => some (.prim (.ints none))
  | .struct n => (sub n).map (fun o => .sub o.zero)

/-- contents → value, by member type -/
def parseContents {σ : Type} (sub : String → Option (SubOps σ)) (ty : Ty) (inner : Bytes) : Option (FV σ) :=
  match ty with
  | .int => (parseInt64 inner).map (fun i => .prim (.int i))
  | .enum => (parseInt32 inner).map (fun i => .prim (.int i))
  | .flag => some (.prim (.bool true))
  | .bool => (parseBool inner).map (fun b => .prim (.bool b))
  | .bytes => some (.prim (.bytes (some inner)))
  | .intList => (parseInts inner.length inner).map (fun l => .prim (.ints (some l)))
  | .struct n => match sub n with
    | none => none
    | some o => (o.parse inner).map .sub

/-- `parseField(v, bytes, offset, params)`; `b` is `bytes[offset:]`; result: the member's value and `bytes[offset':]` -/
def parseField {σ : Type} (sub : String → Option (SubOps σ)) (f : Field) (b : Bytes) : Option (FV σ × Bytes) :=
  -- setDefaultValue: an optional member keeps its zero value and the cursor stays where it was
  let dflt : Option (FV σ × Bytes) := if f.optional then (zeroOf sub f.ty).map (·, b) else none
  match b with
  | [] => dflt
  | _ :: _ =>
    match parseTL b with
    | none => none
    | some (t, r) =>
      let go (t : TL) (r : Bytes) : Option (FV σ × Bytes) :=
        let (utag, ucompound) := universal f
        if t.cls ≠ 0 ∨ t.tag ≠ utag ∨ t.compound ≠ ucompound then dflt
        else if t.len > r.length then none
        else (parseContents sub f.ty (r.take t.len)).map (·, r.drop t.len)
      if f.explicit then
        if r = [] then none                                         -- "explicit tag has no child"
        else if t.cls = 2 ∧ some t.tag = f.tag ∧ (t.len = 0 ∨ t.compound) then
          if t.len > 0 then
            match parseTL r with
            | none => none
            | some (t', r') => go t' r'
          else if f.ty = .flag then some (.prim (.bool true), r)
          else none                                                 -- "zero length explicit tag was not an asn1.Flag"
        else dflt
      else go t r

/-- the member loop of the struct case: trailing bytes are ignored -/
def parseFields {σ : Type} (sub : String → Option (SubOps σ)) : List Field → Bytes → Option (List (FV σ))
  | [], _ => some []
  | f :: fs, b =>
    match parseField sub f b with
    | none => none
    | some (v, b') => (parseFields sub fs b').map (v :: ·)

/-! ### Marshal -/

/-- minimal big-endian bytes of a positive number (`lengthLength` / `appendLength`) -/
def natBytes (n : Nat) : Bytes := Bytes.stripZeros (Bytes.ofNatBE 8 n)

def encLen (n : Nat) : Bytes :=
  if n < 128 then [UInt8.ofNat n] else UInt8.ofNat (128 + (natBytes n).length) :: natBytes n

/-- `appendBase128Int` for n ≥ 0: minimal, continuation bit on all but the last byte -/
def base128Digits : Nat → Nat → List Nat
  | 0, _ => []
  | fuel + 1, n => if n < 128 then [n] else base128Digits fuel (n / 128) ++ [n % 128]

def encBase128 (n : Nat) : Bytes :=
  let ds := base128Digits 10 n
  (ds.dropLast.map (fun d => UInt8.ofNat (128 + d))) ++ (ds.getLast?.map (fun d => [UInt8.ofNat d])).getD []

/-- `appendTagAndLength` -/
def encTL (cls : Nat) (compound : Bool) (tag len : Nat) : Bytes :=
  let c := cls * 64 + (if compound then 32 else 0)
  (if tag ≥ 31 then UInt8.ofNat (c + 31) :: encBase128 tag else [UInt8.ofNat (c + tag)]) ++ encLen len

def intLenAux : Nat → Nat → Int → Nat
  | 0, n, _ => n
  | fuel + 1, n, i => if -((2 : Int) ^ (8 * n - 1)) ≤ i ∧ i < (2 : Int) ^ (8 * n - 1) then n else intLenAux fuel (n + 1) i

/-- `int64Encoder.Len` -/
def intLen (i : Int) : Nat := intLenAux 7 1 i

/-- `int64Encoder.Encode`: minimal two's complement -/
def encInt (i : Int) : Bytes :=
  let n := intLen i
  Bytes.ofNatBE n (i % ((256 : Int) ^ n)).toNat

/-- `bytes.Compare(a, b) ≤ 0` -/
def bytesLe : Bytes → Bytes → Bool
  | [], _ => true
  | _ :: _, [] => false
  | a :: as, b :: bs => if a < b then true else if b < a then false else bytesLe as bs

def insertSorted (x : Bytes) : List Bytes → List Bytes
  | [] => [x]
  | y :: ys => if bytesLe x y then x :: y :: ys else y :: insertSorted x ys

/-- `setEncoder`: the encoded elements in ascending byte order -/
def sortEnc (l : List Bytes) : List Bytes := l.foldr insertSorted []

def encIntTLV (i : Int) : Bytes := encTL 0 false 2 (encInt i).length ++ encInt i

def isZeroP : PVal → Bool
  | .int i => i == 0
  | .bool b => !b
  | .bytes b => b.isNone
  | .ints l => l.isNone

def isZeroFV {σ : Type} (sub : String → Option (SubOps σ)) (ty : Ty) : FV σ → Bool
  | .prim p => isZeroP p
  | .sub s => match ty with
    | .struct n => match sub n with
      | some o => o.isZero s
      | none => false
    | _ => false

/-- `makeBody`: the contents octets; `none` = the value does not have the member's type -/
def bodyOf {σ : Type} (sub : String → Option (SubOps σ)) (f : Field) : FV σ → Option Bytes
  | .prim (.int i) => if f.ty = .int ∨ f.ty = .enum then some (encInt i) else none
  | .prim (.bool b) => if f.ty = .flag then some [] else if f.ty = .bool then some [if b then 0xff else 0] else none
  | .prim (.bytes b) => if f.ty = .bytes then some (b.getD []) else none
  | .prim (.ints l) =>
    if f.ty = .intList then
      let es := (l.getD []).map encIntTLV
      some (if f.set then (sortEnc es).flatten else es.flatten)
    else none
  | .sub s => match f.ty with
    | .struct n => match sub n with
      | some o => o.body s
      | none => none
    | _ => none

/-- `makeField` -/
def marshalField {σ : Type} (sub : String → Option (SubOps σ)) (f : Field) (v : FV σ) : Option Bytes :=
  if f.optional && isZeroFV sub f.ty v then some []
  else match bodyOf sub f v with
    | none => none
    | some body =>
      let (utag, ucompound) := universal f
      let inner := encTL 0 ucompound utag body.length ++ body
      match f.tag with
      | some tg => if f.explicit then some (encTL 2 true tg inner.length ++ inner) else none
      | none => some inner

def marshalFields {σ : Type} (sub : String → Option (SubOps σ)) : List Field → List (FV σ) → Option Bytes
  | [], [] => some []
  | f :: fs, v :: vs =>
    match marshalField sub f v, marshalFields sub fs vs with
    | some a, some b => some (a ++ b)
    | _, _ => none
  | _, _ => none

/-- the operations of a struct type whose members' struct types are described by `sub` -/
def ops {σ : Type} (sub : String → Option (SubOps σ)) (fs : List Field) : Option (SubOps (List (FV σ))) :=
  match fs.mapM (fun f => zeroOf sub f.ty) with
  | none => none
  | some z => some
    { parse := parseFields sub fs
      zero := z
      isZero := fun v => v.length == fs.length && (List.zipWith (fun f x => isZeroFV sub f.ty x) fs v).all id
      body := marshalFields sub fs }

/-- `asn1.Unmarshal(b, &structValue)`: value and `rest` -/
def unmarshalStruct {σ : Type} (sub : String → Option (SubOps σ)) (fs : List Field) (b : Bytes) : Option (List (FV σ) × Bytes) :=
  match b with
  | [] => none
  | _ :: _ =>
    match parseTL b with
    | none => none
    | some (t, r) =>
      if t.cls ≠ 0 ∨ t.tag ≠ 16 ∨ t.compound ≠ true then none
      else if t.len > r.length then none
      else (parseFields sub fs (r.take t.len)).map (·, r.drop t.len)

/-- `asn1.Marshal(structValue)` -/
def marshalStruct {σ : Type} (sub : String → Option (SubOps σ)) (fs : List Field) (v : List (FV σ)) : Option Bytes :=
  (marshalFields sub fs v).map (fun body => encTL 0 true 16 body.length ++ body)

/-- `asn1.Unmarshal(b, &[]byte)` -/
def unmarshalOctetString (b : Bytes) : Option (Bytes × Bytes) :=
  match parseField (σ := Empty) (fun _ => none) ⟨"", .bytes, none, false, false, false⟩ b with
  | some (.prim (.bytes (some v)), rest) => some (v, rest)
  | _ => none

/-- member lookup by name -/
def getField {σ : Type} : List Field → List (FV σ) → String → Option (FV σ)
  | f :: fs, v :: vs, n => if f.name = n then some v else getField fs vs n
  | _, _, _ => none

end WebAuthn.Asn1
