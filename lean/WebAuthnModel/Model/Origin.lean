import WebAuthnModel.Model.Prog
/-
  Origin / RP ID matching (misc.go `originMatches`, relying_party.go `NewRelyingParty`).
  Host extraction (`url.Parse(..).Hostname()`) is an oracle; the label walk is the repository's own code.
-/
namespace WebAuthn

def dot : UInt8 := 46

/-- every suffix of `h` that starts right after a '.' (what `clientHost = clientHost[idx+1:]` visits). -/
def suffixesAfterDots : Bytes → List Bytes
  | [] => []
  | c :: cs => if c = dot then cs :: suffixesAfterDots cs else suffixesAfterDots cs

/-- the loop of `originMatches` on the two host names. -/
def labelWalk (clientHost rpHost : Bytes) : Bool :=
  (clientHost :: suffixesAfterDots clientHost).any (fun c => c ≠ [] && c == rpHost)

/-- The loop exactly as written in Go, on explicit fuel (used to tie `labelWalk` to the code's shape). -/
def afterFirstDot : Bytes → Option Bytes
  | [] => none
  | c :: cs => if c = dot then some cs else afterFirstDot cs

def labelWalkLoop : Nat → Bytes → Bytes → Bool
  | 0, _, _ => false
  | f + 1, client, rp =>
    if client = [] then false
    else if client = rp then true
    else match afterFirstDot client with
      | some rest => labelWalkLoop f rest rp
      | none => false

def originMatches (clientOrigin rpOrigin : Bytes) : Prog Bool := do
  match ← Prog.query (.urlHost clientOrigin) with
  | .bytes ch =>
    match ← Prog.query (.urlHost rpOrigin) with
    | .bytes rh => pure (labelWalk ch rh)
    | _ => pure false
  | _ => pure false

/-- `NewRelyingParty`: the RP ID is the host name of the origin; if the origin does not parse, the origin itself. -/
def rpId (origin : Bytes) : Prog Bytes := do
  match ← Prog.query (.urlHost origin) with
  | .bytes h => pure h
  | _ => pure origin

end WebAuthn
