import WebAuthnModel.Model.Prog
import WebAuthnModel.Model.Url
/-
  Origin / RP ID matching (misc.go `originMatches`, relying_party.go `NewRelyingParty`).
  Host extraction (`url.Parse(..).Hostname()`) is the Lean model of net/url (`Model/Url.lean`, compared with net/url on every run);
  the label walk is the repository's own code.
-/
namespace WebAuthn

def dot : UInt8 := 46

/-- every suffix of `h` that starts right after a '.' (what `clientHost = clientHost[idx+1:]` visits). -/
def suffixesAfterDots : Bytes → List Bytes
  | [] => []
  | c :: cs => if c = dot then cs :: suffixesAfterDots cs else suffixesAfterDots cs

/-- the loop of `originMatches` on the two host names. -/
def labelWalk (clientHost rpHost : Bytes) : Bool :=
  (clientHost :: suffixesAfterDots clientHost).any (fun c => c ≠ [] && c == rpHost)

/-- The loop exactly as written in Go, on explicit fuel (used to tie `labelWalk` to the code's shape). -/
def afterFirstDot : Bytes → Option Bytes
  | [] => none
  | c :: cs => if c = dot then some cs else afterFirstDot cs

def labelWalkLoop : Nat → Bytes → Bytes → Bool
  | 0, _, _ => false
  | f + 1, client, rp =>
    if client = [] then false
    else if client = rp then true
    else match afterFirstDot client with
      | some rest => labelWalkLoop f rest rp
      | none => false

def originMatches (clientOrigin rpOrigin : Bytes) : Prog Bool :=
  match Url.hostOf clientOrigin with
  | some ch =>
    match Url.hostOf rpOrigin with
    | some rh => pure (labelWalk ch rh)
    | none => pure false
  | none => pure false

/-- `NewRelyingParty`: the RP ID is the host name of the origin; if the origin does not parse, the origin itself. -/
def rpId (origin : Bytes) : Prog Bytes :=
  match Url.hostOf origin with
  | some h => pure h
  | none => pure origin

end WebAuthn
