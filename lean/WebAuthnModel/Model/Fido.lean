import WebAuthnModel.Model.Prog
import WebAuthnModel.Model.JwsVerify
/-
  fido package: AAGUID text form (`AAGUID.String`, `ParseAAGUID` = google/uuid) and
  `UnmarshalMetadataBLOBPayload` (go-jose + x509 are oracles; the composition is the repository's).
-/
namespace WebAuthn.Fido
open WebAuthn Prog

/-! ### AAGUID text form -/

def hexLower (n : Nat) : UInt8 := if n < 10 then UInt8.ofNat (48 + n) else UInt8.ofNat (87 + n)

def hexByte (b : UInt8) : Bytes := [hexLower (b.toNat / 16), hexLower (b.toNat % 16)]

def hexBytes (b : Bytes) : Bytes := b.flatMap hexByte

def dash : UInt8 := 45

/-- `uuid.UUID.String`: 8-4-4-4-12 lower-case hexadecimal -/
def toString (a : Bytes) : Bytes :=
  hexBytes (a.take 4) ++ [dash] ++ hexBytes ((a.drop 4).take 2) ++ [dash] ++ hexBytes ((a.drop 6).take 2) ++ [dash]
    ++ hexBytes ((a.drop 8).take 2) ++ [dash] ++ hexBytes (a.drop 10)

/-- `xvalues` of google/uuid -/
def xval (c : UInt8) : Option Nat :=
  let x := c.toNat
  if 48 ≤ x ∧ x ≤ 57 then some (x - 48)
  else if 97 ≤ x ∧ x ≤ 102 then some (x - 87)
  else if 65 ≤ x ∧ x ≤ 70 then some (x - 55)
  else none

def xtob (a b : UInt8) : Option UInt8 := do
  let x ← xval a
  let y ← xval b
  pure (UInt8.ofNat (x * 16 + y))

/-- pairs of hex digits -/
def parseHexPairs : Bytes → Option Bytes
  | [] => some []
  | [_] => none
  | a :: b :: rest => do
    let v ← xtob a b
    let r ← parseHexPairs rest
    pure (v :: r)

/-- the 36-character core form xxxxxxxx-xxxx-xxxx-xxxx-xxxxxxxxxxxx -/
def parseCore (s : Bytes) : Option Bytes :=
  if s.getD 8 0 ≠ dash ∨ s.getD 13 0 ≠ dash ∨ s.getD 18 0 ≠ dash ∨ s.getD 23 0 ≠ dash then none
  else do
    let a ← parseHexPairs (s.take 8)
    let b ← parseHexPairs ((s.drop 9).take 4)
    let c ← parseHexPairs ((s.drop 14).take 4)
    let d ← parseHexPairs ((s.drop 19).take 4)
    let e ← parseHexPairs ((s.drop 24).take 12)
    pure (a ++ b ++ c ++ d ++ e)

def asciiLower (c : UInt8) : UInt8 := if 65 ≤ c.toNat ∧ c.toNat ≤ 90 then c + 32 else c

/-- `uuid.Parse` (all four accepted forms) -/
def parse (s : Bytes) : Option Bytes :=
  if s.length = 36 then parseCore s
  else if s.length = 45 then
    if (s.take 9).map asciiLower = Bytes.ofString "urn:uuid:" then parseCore (s.drop 9) else none
  else if s.length = 38 then parseCore ((s.drop 1).take 36)
  else if s.length = 32 then parseHexPairs s
  else none

/-! ### metadata BLOB -/

inductive Pool where
  | default            -- the embedded GlobalSign root
  | custom (i : Nat)   -- i-th pool handed to WithRootCA
  | nilPool            -- WithRootCA(nil): x509 falls back to the system roots
  deriving Repr, DecidableEq

def Pool.code : Pool → Nat
  | .default => 0
  | .nilPool => 1
  | .custom i => i + 2

/-- `getConfig`: the default pool, then every option in order (each `WithRootCA` replaces the pool) -/
def configPool (opts : List Pool) : Pool := opts.foldl (fun _ p => p) .default

/-- every header's chain validates against the configured pool; returns the leaf of the first chain -/
def headerChains (raw : Bytes) (pool : Nat) : (n i : Nat) → Prog (Option (Option Bytes))
  | 0, _ => pure (some none)
  | n + 1, i => do
    match ← query (.jwsChain raw i pool) with
    | .bytes leaf =>
      match ← headerChains raw pool n (i + 1) with
      | none => pure none
      | some _ => pure (some (some leaf))
    | _ => pure none

/-- the first leaf among the headers (that of header 0) -/
def firstLeaf (raw : Bytes) (pool : Nat) (n : Nat) : Prog (Option Bytes) := do
  if n = 0 then pure none else
  match ← query (.jwsChain raw 0 pool) with
  | .bytes leaf => pure (some leaf)
  | _ => pure none

/-- `UnmarshalMetadataBLOBPayload` for the JWS forms `Model/Jws.lean` does not cover (JSON serialisation, a "jwk" header member):
    the dependency's own view of headers, chains and claims, as before -/
def unmarshalBlobOpaque (raw : Bytes) (pool : Nat) : Prog (Option Bytes) := do
  match ← query (.jwsHeaders raw) with
  | .nat n =>
    match ← headerChains raw pool n 0 with
    | none => pure none                       -- some header's chain does not validate
    | some _ =>
      match ← firstLeaf raw pool n with
      | none => pure none                     -- no chain at all
      | some leaf =>
        match ← query (.jwsClaims raw leaf) with
        | .bytes payload => pure (some payload)
        | _ => pure none
  | _ => pure none

/-- `x509.ParseCertificate` of every x5c entry (`parseCertificateChain` in go-jose's shared.go): `none` = some entry is not a certificate -/
def parseChain : List Bytes → Prog (Option (List CertView))
  | [] => pure (some [])
  | der :: rest => do
    match ← query (.x509Parse der) with
    | .cert c =>
      match ← parseChain rest with
      | some cs => pure (some (c :: cs))
      | none => pure none
    | _ => pure none

def askBool (q : Ask) : Prog Bool := do
  match ← query q with
  | .bool b => pure b
  | _ => pure false

/-- compact serialisation: `jwt.ParseSigned` (Jws.parse + certificate parsing), `Headers[0].Certificates(VerifyOptions{Roots: pool})`,
    `Claims(leaf key, &MetadataBLOBPayload{})` = signature check, then the JSON decoding of the payload segment -/
def unmarshalBlobCompact (raw : Bytes) (c : Jws.Compact) (pool : Nat) : Prog (Option Bytes) := do
  match ← parseChain c.x5c, c.x5c with
  | none, _ => pure none                                  -- ParseSigned fails
  | some (leafCert :: _), leaf :: rest =>
    if !(← askBool (.x509VerifyPool leaf rest pool)) then pure none
    else if !(← Jws.signatureOK raw c leaf leafCert.key) then pure none
    else
      match ← query (.blobPayload c.payload) with
      | .bytes payload => pure (some payload)
      | _ => pure none
  | _, _ => pure none                                     -- "no x5c header present in message"

/-- `UnmarshalMetadataBLOBPayload`: returns the payload (as the JSON bytes the dependency hands back) -/
def unmarshalBlob (raw : Bytes) (opts : List Pool) : Prog (Option Bytes) :=
  let pool := (configPool opts).code
  match Jws.parse raw with
  | .error => pure none
  | .unmodelled => unmarshalBlobOpaque raw pool
  | .ok c => unmarshalBlobCompact raw c pool

/-! ### `MetadataStatement.ParseAttestationRootCertificates` -/

/-- the four characters removed from an `attestationRootCertificates` entry before it is decoded
    (`strings.NewReplacer(" ", "", "\r", "", "\n", "", "\t", "")`: single-byte patterns, so the replacement works byte by byte) -/
def isRootCertSpace (c : UInt8) : Bool := c = 0x20 || c = 0x0d || c = 0x0a || c = 0x09

/-- one entry: `base64.StdEncoding.DecodeString` (padded, standard alphabet) of the entry without those characters -/
def rootCertDer (entry : Bytes) : Option Bytes := B64Std.decode (entry.filter (fun c => !isRootCertSpace c))

/-- `ParseAttestationRootCertificates`: entry by entry, decode then `x509.ParseCertificate`; the first failure of either ends the call
    with an error (`none`); otherwise the certificates in the order of the entries -/
def parseRootCertificates : List Bytes → Prog (Option (List CertView))
  | [] => pure (some [])
  | e :: rest =>
    match rootCertDer e with
    | none => pure none
    | some der => do
      match ← query (.x509Parse der) with
      | .cert c =>
        match ← parseRootCertificates rest with
        | some cs => pure (some (c :: cs))
        | none => pure none
      | _ => pure none

end WebAuthn.Fido
