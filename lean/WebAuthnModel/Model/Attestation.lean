import WebAuthnModel.Cbor.AttObj
import WebAuthnModel.Model.AuthData
import WebAuthnModel.Model.Cose
import WebAuthnModel.Generated.Core
import WebAuthnModel.Generated.TpmAndroid
import WebAuthnModel.Model.KeyDesc
import WebAuthnModel.Model.Tpm2
import WebAuthnModel.Model.San
import WebAuthnModel.Model.X509Sig
/-
  The seven attestation statement verification procedures (attestation_statement*.go, certificate.go).
  Dependencies (x509, asn1, go-tpm, go-jose, crypto) are oracles; everything the repository itself decides —
  which members are read, which message is signed, which key verifies, which requirement is checked — is here.
-/
namespace WebAuthn.Att
open WebAuthn Cbor Prog

structure AttObj where
  fmt : Bytes
  authData : Bytes
  stmt : List (Bytes × Value)
  deriving Repr

structure Result where
  type : String
  x5c : List Bytes          -- DER certificates of the (single) trust path taken from `x5c`
  deriving Repr, DecidableEq

/-! oracle helpers -/
def askCert (der : Bytes) : Prog (Option CertView) := do
  match ← query (.x509Parse der) with
  | .cert c => pure (some c)
  | _ => pure none
def askBool (q : Ask) : Prog Bool := do
  match ← query q with
  | .bool b => pure b
  | _ => pure false
def askBytes (q : Ask) : Prog (Option Bytes) := do
  match ← query q with
  | .bytes b => pure (some b)
  | _ => pure none
def sha256 (b : Bytes) : Prog Bytes := do
  match ← query (.sha256 b) with
  | .bytes h => pure h
  | _ => pure []

/-- `hashIsEqual(hash, data, expected)`: false when the hash is unavailable -/
def hashIsEqual (hashId : Nat) (data expected : Bytes) : Prog Bool := do
  match ← query (.hash hashId data) with
  | .bytes h => pure (h == expected)
  | _ => pure false

/-! statement member accessors -/
def getAlgorithm (stmt : List (Bytes × Value)) : Int :=
  match stmtGet stmt "alg" with
  | some v => (asInt64 v).getD 0
  | none => 0
def getSignature (stmt : List (Bytes × Value)) : Bytes :=
  match stmtGet stmt "sig" with
  | some v => (asBytes v).getD []
  | none => []

inductive Certs where
  | missing
  | invalid
  | ok (certs : List (Bytes × CertView))
  deriving Repr

def parseCerts : List Value → Prog (Option (List (Bytes × CertView)))
  | [] => pure (some [])
  | v :: rest => do
    match asBytes v with
    | none => pure none
    | some der =>
      match ← askCert der with
      | none => pure none
      | some c =>
        match ← parseCerts rest with
        | none => pure none
        | some cs => pure (some ((der, c) :: cs))

/-- `AttestationStatement.UnmarshalCertificates` -/
def unmarshalCertificates (stmt : List (Bytes × Value)) : Prog Certs := do
  match stmtGet stmt "x5c" with
  | none => pure .missing
  | some v =>
    match asArray v with
    | none => pure .invalid
    | some xs =>
      match ← parseCerts xs with
      | none => pure .invalid
      | some cs => pure (.ok cs)

/-- authenticator data of the attestation object, required to carry attested credential data -/
def attestedAuthData (o : AttObj) : Option (AuthData × AttestedCredentialData) :=
  match unmarshalAuthData o.authData with
  | some (d, _) =>
    match d.acd with
    | some a => some (d, a)
    | none => none
  | none => none

def credentialKey (a : AttestedCredentialData) : Option Cose.Key :=
  match Cose.parse a.credentialPublicKey with
  | .ok k _ => some k
  | _ => none

def findExt (c : CertView) (oid : List Nat) : Option CertExt := c.exts.find? (fun e => e.oid == oid)

/-- `Equal` between the certificate's key and the credential key (same kind, same numbers) -/
def keysEqual (certKey cred : KeyMat) : Bool :=
  match certKey with
  | .other => false
  | k => k == cred

def s (x : String) : Bytes := Bytes.ofString x

/-! ### none -/
def verifyNone : Prog (Option Result) := pure (some ⟨"None", []⟩)

/-! ### packed -/
inductive AaguidExt where
  | absent | critical | invalid | value (b : Bytes)

def certAAGUID (c : CertView) : Prog AaguidExt := do
  match findExt c Generated.Core.oidAAGUID with
  | none => pure .absent
  | some e =>
    if e.critical then pure .critical else
    match KeyDesc.octetStringExact e.value with
    | none => pure .invalid
    | some b => if b.length = Generated.Core.aaguidSize then pure (.value b) else pure .invalid

/-- `certificate.CheckSignature(alg.X509SignatureAlgorithm(), msg, sig)`: the table of Model/X509Sig.lean for the certificate's key kind -/
def certCheckSig (der : Bytes) (c : CertView) (alg : Int) (msg sig : Bytes) : Prog Bool :=
  X509Sig.checkSignature der c.key (Cose.algX509 alg) msg sig

def verifyPackedCert (o : AttObj) (cdHash : Bytes) (der : Bytes) (c : CertView) : Prog Bool := do
  match attestedAuthData o with
  | none => pure false
  | some (_, acd) =>
    let alg := getAlgorithm o.stmt
    let sig := getSignature o.stmt
    if !(← certCheckSig der c alg (o.authData ++ cdHash) sig) then pure false
    else if c.version ≠ 3 then pure false
    else if c.country = [] then pure false
    else if c.org = [] then pure false
    else if c.orgUnit ≠ s "Authenticator Attestation" then pure false
    else if c.commonName = [] then pure false
    else if c.isCA then pure false
    else match ← certAAGUID c with
      | .absent => pure true
      | .critical => pure false
      | .invalid => pure false
      | .value b => pure (b == acd.aaguid)

def verifyPackedSelf (o : AttObj) (cdHash : Bytes) : Prog Bool := do
  match attestedAuthData o with
  | none => pure false
  | some (_, acd) =>
    match credentialKey acd with
    | none => pure false
    | some k =>
      if getAlgorithm o.stmt ≠ k.alg then pure false
      else Cose.verify k (o.authData ++ cdHash) (getSignature o.stmt)

def verifyPacked (o : AttObj) (cdHash : Bytes) : Prog (Option Result) := do
  if o.fmt ≠ s "packed" then pure none else
  match ← unmarshalCertificates o.stmt with
  | .ok ((der, c) :: rest) =>
    if ← verifyPackedCert o cdHash der c then pure (some ⟨"Unknown", der :: rest.map (·.1)⟩) else pure none
  | .missing =>
    if ← verifyPackedSelf o cdHash then pure (some ⟨"Self", []⟩) else pure none
  | _ => pure none

/-! ### fido-u2f -/
/-- 32-byte big-endian form of a coordinate as `RawX962ECC` builds it: left-padded; an over-long number keeps its first 32 bytes -/
def coord32 (b : Bytes) : Bytes :=
  let m := Bytes.stripZeros b
  if m.length ≥ 32 then m.take 32 else List.replicate (32 - m.length) 0 ++ m

def u2fMessage (rpIdHash cdHash credId x y : Bytes) : Bytes :=
  [0x00] ++ rpIdHash ++ cdHash ++ credId ++ ([0x04] ++ coord32 x ++ coord32 y)

/-- `Curve == P-256 ∧ X.BitLen() ≤ 256 ∧ Y.BitLen() ≤ 256` -/
def u2fCoordinatesFit (crv : Int) (x y : Bytes) : Bool :=
  crv = 1 && (Bytes.stripZeros x).length ≤ 32 && (Bytes.stripZeros y).length ≤ 32

def verifyU2F (o : AttObj) (cdHash : Bytes) : Prog (Option Result) := do
  match ← unmarshalCertificates o.stmt with
  | .ok [(der, c)] =>
    match c.key with
    | .ec 1 _ _ =>
      match attestedAuthData o with
      | none => pure none
      | some (d, acd) =>
        match credentialKey acd with
        | some (.ec2 alg crv x y) =>
          -- steps 4a / 4b: a P-256 key whose coordinates fit the 32 bytes the signed data has room for
          if !u2fCoordinatesFit crv x y then pure none else
          let msg := u2fMessage d.rpIdHash cdHash acd.credentialId x y
          if ← certCheckSig der c alg msg (getSignature o.stmt) then
            pure (some ⟨"Unknown", [der]⟩)
          else pure none
        | _ => pure none
    | _ => pure none
  | _ => pure none

/-! ### android-key -/
def verifyAndroidKey (o : AttObj) (cdHash : Bytes) : Prog (Option Result) := do
  match ← unmarshalCertificates o.stmt with
  | .ok ((der, c) :: rest) =>
    match attestedAuthData o with
    | none => pure none
    | some (_, acd) =>
      match credentialKey acd with
      | none => pure none
      | some k =>
        if !(← certCheckSig der c (getAlgorithm o.stmt) (o.authData ++ cdHash) (getSignature o.stmt)) then pure none
        else if !keysEqual c.key k.material then pure none
        else match findExt c Generated.Core.oidAndroidKey with
          | none => pure none
          | some e =>
            match KeyDesc.view e.value with
            | some kd =>
              if kd.challenge ≠ cdHash then pure none
              else if kd.swAllApplications || kd.teeAllApplications then pure none
              else if kd.teeOrigin ≠ (Generated.Android.keyOriginGenerated : Int) then pure none
              else if !kd.teePurpose.contains (Generated.Android.keyMasterPurposeSign : Int) then pure none
              else pure (some ⟨"Basic", der :: rest.map (·.1)⟩)
            | none => pure none
  | _ => pure none

/-! ### apple -/
def verifyApple (o : AttObj) (cdHash : Bytes) : Prog (Option Result) := do
  match ← unmarshalCertificates o.stmt with
  | .ok ((der, c) :: rest) =>
    match attestedAuthData o with
    | none => pure none
    | some (_, acd) =>
      match credentialKey acd with
      | none => pure none
      | some k =>
        let nonce ← sha256 (o.authData ++ cdHash)
        match findExt c Generated.Core.oidAppleNonce with
        | none => pure none
        | some e =>
          match KeyDesc.appleNonce e.value with
          | none => pure none
          | some certNonce =>
            if nonce ≠ certNonce then pure none
            else if !keysEqual c.key k.material then pure none
            else pure (some ⟨"AnonCA", der :: rest.map (·.1)⟩)
  | _ => pure none

/-! ### tpm -/
def stmtBytes (stmt : List (Bytes × Value)) (name : String) : Option Bytes :=
  match stmtGet stmt name with
  | some v => asBytes v
  | none => none

/-- the SAN extensions of a certificate, in order, as `San.parseExt` reads their values (byte level; `Model/San.lean`) -/
def sanViews (c : CertView) : List Tpm.SanExt :=
  (c.exts.filter (fun e => e.oid == Generated.Tpm.oidSAN)).map (fun e => (San.parseExt e.value).1)

/-- `tpm.GetHardwareDetailsFromCertificate(cert)` succeeds -/
def hardwareDetailsOK (c : CertView) : Bool := (Tpm.detailsFromSan (sanViews c)).isSome

/-- the TPM hash algorithms linked into the process (an answer of another shape is an empty table: no digest name decodes) -/
def askHashes : Prog Tpm2.HashTable := do
  match ← query .tpmHashes with
  | .hashTable t => pure t
  | _ => pure []

def verifyTPM (o : AttObj) (cdHash : Bytes) : Prog (Option Result) := do
  match ← unmarshalCertificates o.stmt with
  | .ok certs =>
    match stmtBytes o.stmt "certInfo" with
    | none => pure none
    | some ciRaw =>
    let hashes ← askHashes
    match Tpm2.certInfo hashes ciRaw with
    | some ci =>
      match stmtBytes o.stmt "pubArea" with
      | none => pure none
      | some paRaw =>
      match Tpm2.pubArea paRaw with
      | some pa =>
        match attestedAuthData o with
        | none => pure none
        | some (_, acd) =>
        match credentialKey acd with
        | none => pure none
        | some k =>
        -- pubArea key = credential key
        match pa.key with
        | none => pure none
        | some pk =>
        if !keysEqual pk k.material then pure none
        else if ci.magic ≠ Generated.Tpm.generatedValue then pure none
        else if ci.type ≠ Generated.Tpm.tagAttestCertify then pure none
        else
        let alg := getAlgorithm o.stmt
        if !(← hashIsEqual (Cose.algHash alg) (o.authData ++ cdHash) ci.extraData) then pure none
        else
        match pa.encoded with
        | none => pure none
        | some paEnc =>
        if !ci.hasCertifyInfo then pure none else
        match ci.name with
        | .digest nameAlg nameVal =>
          if nameAlg ≠ pa.nameAlg then pure none else
          match Tpm2.hashOf hashes nameAlg with
          | some h =>
            if !(← hashIsEqual h paEnc nameVal) then pure none else
            match ci.encoded with
            | none => pure none
            | some ciEnc =>
            match certs with
            | [] => pure none
            | (der, c) :: rest =>
              if !(← certCheckSig der c alg ciEnc (getSignature o.stmt)) then pure none
              else if c.version ≠ 3 then pure none
              else if !hardwareDetailsOK c then pure none
              else if !c.unknownEKUs.contains Generated.Core.oidAIKCertificate then pure none
              else if c.isCA then pure none
              else pure (some ⟨"AttCA", der :: rest.map (·.1)⟩)
          | none => pure none
        | _ => pure none
      | none => pure none
    | none => pure none
  | _ => pure none

/-! ### android-safetynet -/

/-- the steps after `jwt.ParseSigned` for the JWS forms `Model/Jws.lean` does not cover (JSON serialisation, a "jwk" header member):
    one opaque answer of the dependency, as before -/
def verifySafetyNetOpaque (raw : Bytes) (o : AttObj) (cdHash : Bytes) : Prog (Option Result) := do
  match ← query (.safetyNet raw) with
  | .safetyNet v =>
    if !v.parsed then pure none
    else if !v.chainsOK then pure none
    else if !v.claimsOK then pure none
    else
      let expected ← sha256 (o.authData ++ cdHash)
      if v.nonce ≠ expected then pure none else pure (some ⟨"Basic", []⟩)
  | _ => pure none

/-- `x509.ParseCertificate` of every x5c entry of the protected header (`parseCertificateChain` in go-jose's shared.go) -/
def parseChain : List Bytes → Prog (Option (List (Bytes × CertView)))
  | [] => pure (some [])
  | der :: rest => do
    match ← askCert der with
    | none => pure none
    | some c =>
      match ← parseChain rest with
      | none => pure none
      | some cs => pure (some ((der, c) :: cs))

def safetyNetDNSName : Bytes := s Generated.Core.safetyNetDNSName

/-- compact serialisation: `jwt.ParseSigned` (Jws.parse + certificate parsing), `Headers[0].Certificates(VerifyOptions{DNSName})`,
    `Claims(leaf key, &SafetyNetClaims{})` (signature, then the payload's JSON), nonce comparison -/
def verifySafetyNetCompact (raw : Bytes) (c : Jws.Compact) (o : AttObj) (cdHash : Bytes) : Prog (Option Result) := do
  match ← parseChain c.x5c with
  | none => pure none                                   -- ParseSigned fails: an x5c entry is not a certificate
  | some [] => pure none                                -- "no x5c header present in message"
  | some ((leafDer, leaf) :: rest) =>
    if !(← askBool (.x509Verify leafDer (rest.map (·.1)) safetyNetDNSName)) then pure none
    else if !(← Jws.signatureOK raw c leafDer leaf.key) then pure none   -- go-jose's Verify under the leaf certificate's key
    else
      match Jws.claims c.payload with
      | none => pure none
      | some nonce =>
        let expected ← sha256 (o.authData ++ cdHash)
        if nonce ≠ expected then pure none else pure (some ⟨"Basic", []⟩)

def verifySafetyNet (o : AttObj) (cdHash : Bytes) : Prog (Option Result) := do
  match stmtBytes o.stmt "response" with
  | none => pure none
  | some raw =>
    match Jws.parse raw with
    | .error => pure none
    | .unmodelled => verifySafetyNetOpaque raw o cdHash
    | .ok c => verifySafetyNetCompact raw c o cdHash

/-- `VerifyAttestationStatement`: dispatch on the exact format identifier (table regenerated from the source) -/
def verify (o : AttObj) (cdHash : Bytes) : Prog (Option Result) :=
  match (Generated.Core.dispatch.find? (fun e => s e.1 == o.fmt)).map (·.2) with
  | some "VerifyAndroidKeyAttestationStatement" => verifyAndroidKey o cdHash
  | some "VerifyAndroidSafetyNetAttestationStatement" => verifySafetyNet o cdHash
  | some "VerifyAppleAttestationStatement" => verifyApple o cdHash
  | some "VerifyFIDOU2FAttestationStatement" => verifyU2F o cdHash
  | some "VerifyNoneAttestationStatement" => verifyNone
  | some "VerifyPackedAttestationStatement" => verifyPacked o cdHash
  | some "VerifyTPMAttestationStatement" => verifyTPM o cdHash
  | _ => pure none

end WebAuthn.Att
