import WebAuthnModel.Cbor.Struct
import WebAuthnModel.Model.Prog
import WebAuthnModel.Generated.Cose
/-
  COSE public keys (package cose): parsing / classification (`UnmarshalPublicKey` and the three
  type-specific parsers), the algorithm tables, verification dispatch and `Marshal`.
  All tables come from `Generated.Cose` (regenerated from the Go source on every run).
-/
namespace WebAuthn.Cose
open WebAuthn Cbor

def lookup {β : Type} (tbl : List (Int × β)) (k : Int) : Option β :=
  (tbl.find? (fun e => e.1 == k)).map (·.2)

/-- `Algorithm.Hash()` as a crypto.Hash id (0 = none). -/
def algHash (alg : Int) : Nat := (lookup Generated.Cose.hashTable alg).getD Generated.Cose.hashTableDefault
/-- `Algorithm.X509SignatureAlgorithm()` as an x509.SignatureAlgorithm id (0 = unknown). -/
def algX509 (alg : Int) : Nat := (lookup Generated.Cose.x509Table alg).getD Generated.Cose.x509TableDefault

inductive CoseErr where
  | invalidKey | unsupportedKeyType | unsupportedAlgorithm | unsupportedCurve
  deriving Repr, DecidableEq

/-- A parsed credential public key. Magnitudes are kept as the *encoded* byte strings; the
    mathematical value is `Bytes.beNat`. -/
inductive Key where
  | ec2 (alg : Int) (crv : Int) (x y : Bytes)
  | okp (x : Bytes)
  | rsa (alg : Int) (n e : Bytes)
  deriving Repr, DecidableEq

def Key.alg : Key → Int
  | .ec2 a _ _ _ => a
  | .okp _ => -8
  | .rsa a _ _ => a

def Key.kty : Key → Nat
  | .ec2 .. => 2
  | .okp _ => 1
  | .rsa .. => 3

/-- key material handed to the crypto oracle (normalised magnitudes). -/
def Key.material : Key → KeyMat
  | .ec2 _ crv x y => .ec crv.toNat (Bytes.stripZeros x) (Bytes.stripZeros y)
  | .okp x => .ed x
  | .rsa _ n e => .rsa (Bytes.stripZeros n) (Bytes.beNat e)

def baseSchema : List (Int × FieldKind) := [(1, .uint8), (3, .int)]
def ec2Schema : List (Int × FieldKind) := [(1, .uint8), (3, .int), (-1, .int), (-2, .bytes), (-3, .bytes)]
def okpSchema : List (Int × FieldKind) := [(1, .uint8), (3, .int), (-1, .int), (-2, .bytes)]
def rsaSchema : List (Int × FieldKind) := [(1, .uint8), (3, .int), (-1, .bytes), (-2, .bytes)]

inductive ParseRes where
  | ok (k : Key) (rest : Bytes)
  | err (e : CoseErr)
  | unmodelled
  deriving Repr

/-- `UnmarshalECDSAPublicKey` -/
def parseEC2 (raw : Bytes) : ParseRes :=
  match decode raw with
  | none => .err .invalidKey
  | some (v, rest) =>
    match decodeStruct ec2Schema v with
    | .unmodelled => .unmodelled
    | .err => .err .invalidKey
    | .ok vals =>
      if !(Generated.Cose.ec2KeyTypes.contains (getInt vals 1)) then .err .unsupportedKeyType
      else if (lookup Generated.Cose.ec2Curves (getInt vals (-1))).isNone then .err .unsupportedCurve
      else if (lookup Generated.Cose.ecdsaVerifyTable (getInt vals 3)).isNone then .err .unsupportedAlgorithm
      else .ok (.ec2 (getInt vals 3) (getInt vals (-1)) (getBytes vals (-2)) (getBytes vals (-3))) rest

/-- `UnmarshalEdDSAPublicKey` (conditions in the order of the source; `okpConds` holds them, in that order). -/
def parseOKP (raw : Bytes) : ParseRes :=
  match decode raw with
  | none => .err .invalidKey
  | some (v, rest) =>
    match decodeStruct okpSchema v with
    | .unmodelled => .unmodelled
    | .err => .err .invalidKey
    | .ok vals =>
      let alg := if getInt vals 3 = 0 then -8 else getInt vals 3
      if getInt vals 1 ≠ 1 then .err .invalidKey
      else if !(Generated.Cose.okpAlgs.contains alg) then .err .unsupportedAlgorithm
      else if !(Generated.Cose.okpCurves.contains (getInt vals (-1))) then .err .unsupportedCurve
      else if (getBytes vals (-2)).length ≠ 32 then .err .invalidKey
      else .ok (.okp (getBytes vals (-2))) rest

/-- does the big-endian exponent fit a (64-bit) Go int? -/
def exponentFits (e : Bytes) : Bool := Bytes.beNat e < 2 ^ 63

/-- `UnmarshalRSAPublicKey` -/
def parseRSA (raw : Bytes) : ParseRes :=
  match decode raw with
  | none => .err .invalidKey
  | some (v, rest) =>
    match decodeStruct rsaSchema v with
    | .unmodelled => .unmodelled
    | .err => .err .invalidKey
    | .ok vals =>
      if !(Generated.Cose.rsaKeyTypes.contains (getInt vals 1)) then .err .unsupportedKeyType
      else if !exponentFits (getBytes vals (-2)) then .err .invalidKey
      else if (lookup Generated.Cose.rsaVerifyTable (getInt vals 3)).isNone then .err .unsupportedAlgorithm
      else .ok (.rsa (getInt vals 3) (getBytes vals (-1)) (getBytes vals (-2))) rest

/-- `UnmarshalPublicKey`: `cbor.Unmarshal` of the base structure (no trailing data allowed), then dispatch. -/
def parse (raw : Bytes) : ParseRes :=
  match decode raw with
  | none => .err .invalidKey
  | some (v, rest) =>
    if rest ≠ [] then .err .invalidKey
    else match decodeStruct baseSchema v with
      | .unmodelled => .unmodelled
      | .err => .err .invalidKey
      | .ok vals =>
        match lookup Generated.Cose.keyDispatch (getInt vals 1) with
        | some "UnmarshalECDSAPublicKey" => parseEC2 raw
        | some "UnmarshalEdDSAPublicKey" => parseOKP raw
        | some "UnmarshalRSAPublicKey" => parseRSA raw
        | _ => .err .unsupportedKeyType

/-- (scheme, hash id) a key verifies with: the closure chosen by the constructors. -/
def verifyParams : Key → Option (SigScheme × Nat)
  | .ec2 alg _ _ _ => (lookup Generated.Cose.ecdsaVerifyTable alg).map (fun h => (.ecdsa, h))
  | .okp _ => some (.eddsa, 0)
  | .rsa alg _ _ =>
    (lookup Generated.Cose.rsaVerifyTable alg).map (fun p => (if p.1 = 0 then SigScheme.pkcs1 else .pss, p.2))

/-- `PublicKey.Verify(data, sig)` -/
def verify (k : Key) (data sig : Bytes) : Prog Bool :=
  match verifyParams k with
  | none => pure false
  | some (s, h) => do
    match ← Prog.query (.sigVerify s h k.material data sig) with
    | .bool b => pure b
    | _ => pure false

/-! ### Marshal (cbor.Marshal of the key structures: integer-keyed map, `omitempty`, canonical order of fxamacker's
    default struct encoding = declaration order) -/

def encHead (major : Nat) (n : Nat) : Bytes :=
  let m := UInt8.ofNat (major * 32)
  if n < 24 then [m + UInt8.ofNat n]
  else if n < 256 then [m + 24, UInt8.ofNat n]
  else if n < 65536 then (m + 25) :: Bytes.ofNatBE 2 n
  else if n < 4294967296 then (m + 26) :: Bytes.ofNatBE 4 n
  else (m + 27) :: Bytes.ofNatBE 8 n

def encInt (i : Int) : Bytes := if i ≥ 0 then encHead 0 i.toNat else encHead 1 (-1 - i).toNat
def encBytes (b : Bytes) : Bytes := encHead 2 b.length ++ b

/-- encode the members that are non-empty (`omitempty`): ints ≠ 0, byte strings of non-zero length -/
def encMembers : List (Int × FieldVal) → List Bytes
  | [] => []
  | (k, .int i) :: rest => if i = 0 then encMembers rest else (encInt k ++ encInt i) :: encMembers rest
  | (k, .bytes b) :: rest => if b = [] then encMembers rest else (encInt k ++ encBytes b) :: encMembers rest

def encStruct (ms : List (Int × FieldVal)) : Bytes :=
  let es := encMembers ms
  encHead 5 es.length ++ es.flatten

/-- `Marshal` of a key built by the parsers (magnitudes re-encoded minimally, as `big.Int.Bytes` does). -/
def marshal : Key → Bytes
  | .ec2 alg crv x y =>
    encStruct [(1, .int 2), (3, .int alg), (-1, .int crv), (-2, .bytes (Bytes.stripZeros x)), (-3, .bytes (Bytes.stripZeros y))]
  | .okp x => encStruct [(1, .int 1), (3, .int (-8)), (-1, .int 6), (-2, .bytes x)]
  | .rsa alg n e =>
    encStruct [(1, .int 3), (3, .int alg), (-1, .bytes (Bytes.stripZeros n)), (-2, .bytes (Bytes.stripZeros e))]

end WebAuthn.Cose
