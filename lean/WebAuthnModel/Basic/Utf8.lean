import WebAuthnModel.Basic.Bytes
/- Go's `utf8.Valid`: well-formed UTF-8, no surrogates, no overlong forms, ≤ U+10FFFF. -/
namespace WebAuthn

def isCont (x : UInt8) : Bool := 0x80 ≤ x.toNat ∧ x.toNat ≤ 0xBF

def utf8Valid : Bytes → Bool
  | [] => true
  | a :: rest =>
    let x := a.toNat
    if x < 0x80 then utf8Valid rest
    else if 0xC2 ≤ x ∧ x ≤ 0xDF then
      match rest with
      | b :: r => isCont b && utf8Valid r
      | _ => false
    else if 0xE0 ≤ x ∧ x ≤ 0xEF then
      match rest with
      | b :: c :: r =>
        let lo := if x = 0xE0 then 0xA0 else 0x80
        let hi := if x = 0xED then 0x9F else 0xBF
        (decide (lo ≤ b.toNat ∧ b.toNat ≤ hi)) && isCont c && utf8Valid r
      | _ => false
    else if 0xF0 ≤ x ∧ x ≤ 0xF4 then
      match rest with
      | b :: c :: d :: r =>
        let lo := if x = 0xF0 then 0x90 else 0x80
        let hi := if x = 0xF4 then 0x8F else 0xBF
        (decide (lo ≤ b.toNat ∧ b.toNat ≤ hi)) && isCont c && isCont d && utf8Valid r
      | _ => false
    else false

end WebAuthn
