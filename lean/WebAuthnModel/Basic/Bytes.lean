/-
  Bytes: the model's representation of Go `[]byte` and Go `string` (a Go string is a
  byte sequence; `==`, `len`, `strings.Index`, suffix tests are byte-level).
-/
namespace WebAuthn

abbrev Bytes := List UInt8

namespace Bytes

/-- ASCII bytes of a Lean string literal (only used for ASCII constants). -/
def ofString (s : String) : Bytes := s.toUTF8.toList

def hexDigit (n : Nat) : Char :=
  if n < 10 then Char.ofNat (48 + n) else Char.ofNat (87 + n)

def toHex (b : Bytes) : String :=
  String.ofList (b.flatMap fun x => [hexDigit (x.toNat / 16), hexDigit (x.toNat % 16)])

def hexVal (c : Char) : Option Nat :=
  if '0' ≤ c ∧ c ≤ '9' then some (c.toNat - 48)
  else if 'a' ≤ c ∧ c ≤ 'f' then some (c.toNat - 87)
  else if 'A' ≤ c ∧ c ≤ 'F' then some (c.toNat - 55)
  else none

def ofHexChars : List Char → Option Bytes
  | [] => some []
  | [_] => none
  | a :: b :: rest => do
    let x ← hexVal a
    let y ← hexVal b
    let r ← ofHexChars rest
    pure (UInt8.ofNat (x * 16 + y) :: r)

def ofHex (s : String) : Option Bytes := ofHexChars s.toList

/-- Big-endian value of a byte string (`big.Int.SetBytes`, `binary.BigEndian.UintN`). -/
def beNat : Bytes → Nat
  | b => b.foldl (fun acc x => acc * 256 + x.toNat) 0

/-- Fixed-width big-endian encoding of `n` in `w` bytes (value taken mod 256^w). -/
def ofNatBE : (w : Nat) → Nat → Bytes
  | 0, _ => []
  | w + 1, n => UInt8.ofNat (n / 256 ^ w % 256) :: ofNatBE w n

/-- Strip leading zero bytes (`big.Int.Bytes` normal form). -/
def stripZeros : Bytes → Bytes
  | [] => []
  | x :: xs => if x = 0 then stripZeros xs else x :: xs

end Bytes
end WebAuthn
