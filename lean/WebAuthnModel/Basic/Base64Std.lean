import WebAuthnModel.Basic.Bytes
/-
  Go's `base64.StdEncoding` (RFC 4648 §4 alphabet `A–Z a–z 0–9 + /`, padding '=', non-strict):
  `DecodeString` / `Decode` as far as success and the decoded bytes are concerned (on failure Go also returns the bytes decoded
  so far; no caller modelled here looks at them).

  `decodeQuantum` (encoding/base64/base64.go) reads four alphabet characters per quantum and skips '\r' and '\n' wherever it
  meets them: between data characters, between the two '=' of a `xx==` quantum, and after the padding.  Hence decoding the input
  is decoding the input with every CR/LF removed, and on such an input:
    * the end of the input is accepted only at a quantum boundary (a last quantum of 1, 2 or 3 characters is an error: padding is
      mandatory);
    * '=' is accepted only as third+fourth (`xx==`, one byte) or as fourth (`xxx=`, two bytes) character of a quantum, and only when
      nothing follows the padding ("trailing garbage" is an error);
    * every other byte outside the alphabet is an error;
    * the unused low bits of the last data character of a padded quantum are not checked (the encoding is not `Strict`).
-/
namespace WebAuthn.B64Std

/-- alphabet character → sextet (`decodeMap` of `StdEncoding`). -/
def valOf (c : UInt8) : Option Nat :=
  let x := c.toNat
  if 65 ≤ x ∧ x ≤ 90 then some (x - 65)
  else if 97 ≤ x ∧ x ≤ 122 then some (x - 97 + 26)
  else if 48 ≤ x ∧ x ≤ 57 then some (x - 48 + 52)
  else if x = 43 then some 62
  else if x = 47 then some 63
  else none

def pad : UInt8 := 61

/-- decoding of an input that contains no CR/LF. -/
def decodeClean : Bytes → Option Bytes
  | [] => some []
  | a :: b :: c :: d :: rest => do
    let x ← valOf a
    let y ← valOf b
    if c = pad then
      -- `xx==` and nothing after it
      if d = pad ∧ rest = [] then pure [UInt8.ofNat (x * 4 + y / 16)] else none
    else
      let z ← valOf c
      if d = pad then
        -- `xxx=` and nothing after it
        if rest = [] then pure [UInt8.ofNat (x * 4 + y / 16), UInt8.ofNat (y % 16 * 16 + z / 4)] else none
      else
        let w ← valOf d
        let r ← decodeClean rest
        pure (UInt8.ofNat (x * 4 + y / 16) :: UInt8.ofNat (y % 16 * 16 + z / 4) :: UInt8.ofNat (z % 4 * 64 + w) :: r)
  | _ => none   -- a last quantum of one, two or three characters

def isNewline (c : UInt8) : Bool := c = 13 || c = 10

/-- `base64.StdEncoding.DecodeString`: `none` = the call returns an error. -/
def decode (s : Bytes) : Option Bytes := decodeClean (s.filter (fun c => !isNewline c))

end WebAuthn.B64Std
