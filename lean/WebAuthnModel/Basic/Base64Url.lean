import WebAuthnModel.Basic.Bytes
/-
  Go's `base64.RawURLEncoding` (RFC 4648 §5 alphabet, no padding, non-strict):
  `EncodeToString` and `DecodeString`.  The decoder skips '\r' and '\n' anywhere, rejects every
  other byte outside the alphabet (including '='), rejects a final quantum of one character, and
  does not check the unused trailing bits of a final 2- or 3-character quantum.
-/
namespace WebAuthn.B64

/-- sextet → alphabet character (`A–Z a–z 0–9 - _`). -/
def charOf (n : Nat) : UInt8 :=
  if n < 26 then UInt8.ofNat (65 + n)
  else if n < 52 then UInt8.ofNat (97 + (n - 26))
  else if n < 62 then UInt8.ofNat (48 + (n - 52))
  else if n = 62 then 45 else 95

/-- alphabet character → sextet. -/
def valOf (c : UInt8) : Option Nat :=
  let x := c.toNat
  if 65 ≤ x ∧ x ≤ 90 then some (x - 65)
  else if 97 ≤ x ∧ x ≤ 122 then some (x - 97 + 26)
  else if 48 ≤ x ∧ x ≤ 57 then some (x - 48 + 52)
  else if x = 45 then some 62
  else if x = 95 then some 63
  else none

def encode : Bytes → Bytes
  | [] => []
  | [a] => [charOf (a.toNat / 4), charOf (a.toNat % 4 * 16)]
  | [a, b] => [charOf (a.toNat / 4), charOf (a.toNat % 4 * 16 + b.toNat / 16), charOf (b.toNat % 16 * 4)]
  | a :: b :: c :: rest =>
    charOf (a.toNat / 4) :: charOf (a.toNat % 4 * 16 + b.toNat / 16)
      :: charOf (b.toNat % 16 * 4 + c.toNat / 64) :: charOf (c.toNat % 64) :: encode rest

/-- decoding of an input that contains no CR/LF. -/
def decodeClean : Bytes → Option Bytes
  | [] => some []
  | [_] => none
  | [a, b] => do
    let x ← valOf a
    let y ← valOf b
    pure [UInt8.ofNat (x * 4 + y / 16)]
  | [a, b, c] => do
    let x ← valOf a
    let y ← valOf b
    let z ← valOf c
    pure [UInt8.ofNat (x * 4 + y / 16), UInt8.ofNat (y % 16 * 16 + z / 4)]
  | a :: b :: c :: d :: rest => do
    let x ← valOf a
    let y ← valOf b
    let z ← valOf c
    let w ← valOf d
    let r ← decodeClean rest
    pure (UInt8.ofNat (x * 4 + y / 16) :: UInt8.ofNat (y % 16 * 16 + z / 4) :: UInt8.ofNat (z % 4 * 64 + w) :: r)

def isNewline (c : UInt8) : Bool := c = 13 || c = 10

def decode (s : Bytes) : Option Bytes := decodeClean (s.filter (fun c => !isNewline c))

/-- misc.go `fromBase64URL`: the empty string decodes to nil without consulting the decoder. -/
def fromBase64URL (s : Bytes) : Option Bytes := if s = [] then some [] else decode s

end WebAuthn.B64
