import WebAuthnModel.Spec.Asn1
import WebAuthnModel.Proofs.Asn1Lemmas
/-
  C17, third clause — `android.UnmarshalKeyDescription` decodes the Keymaster KeyDescription with the published
  context tags into the corresponding fields and is the inverse of `Marshal` — for the Lean model of Go's
  `encoding/asn1` (Model/Asn1.lean) instantiated with the schemas regenerated from /repo's source; plus the
  byte-level meaning of the AAGUID and Apple-nonce extension decoders used by C04.
-/
namespace WebAuthn.Theorems.C17Asn1
open WebAuthn.Asn1 WebAuthn.KeyDesc WebAuthn.Spec.Asn1

/-! ## The schema the code declares is the published one (regenerated fact, pinned) -/

theorem authList_schema_published :
    Generated.Asn1Schema.authorizationList.map (fun f => (f.name, f.tag, f.ty)) =
      publishedAuthList.map (fun p => (p.1, some p.2.1, p.2.2)) ∧
    Generated.Asn1Schema.authorizationList.all (fun f => f.explicit && f.optional) = true ∧
    (Generated.Asn1Schema.authorizationList.filter (fun f => f.set)).map (·.name) = ["Purpose", "Digest", "Padding"] := by
  exact ⟨rfl, rfl, rfl⟩

theorem keyDescription_schema_published :
    Generated.Asn1Schema.keyDescription =
      [⟨"AttestationVersion", .int, none, false, false, false⟩, ⟨"AttestationSecurityLevel", .enum, none, false, false, false⟩,
       ⟨"KeyMasterVersion", .int, none, false, false, false⟩, ⟨"KeyMasterSecurityLevel", .enum, none, false, false, false⟩,
       ⟨"AttestationChallenge", .bytes, none, false, false, false⟩, ⟨"UniqueID", .bytes, none, false, false, false⟩,
       ⟨"SoftwareEnforced", .struct "AuthorizationList", none, false, false, false⟩,
       ⟨"TeeEnforced", .struct "AuthorizationList", none, false, false, false⟩] ∧
    Generated.Asn1Schema.rootOfTrust =
      [⟨"VerifiedBootKey", .bytes, none, false, false, false⟩, ⟨"DeviceLocked", .bool, none, false, false, false⟩,
       ⟨"VerifiedBootState", .enum, none, false, false, false⟩, ⟨"VerifiedBootHash", .bytes, none, false, false, false⟩] ∧
    Generated.Asn1Schema.appleAnonymousAttestation = [⟨"Nonce", .bytes, some 1, true, false, false⟩] ∧
    Generated.Asn1Schema.decoderCalls =
      [("UnmarshalKeyDescription", "asn1.Unmarshal([]byte,*android.KeyDescription)"),
       ("getCertificateAppleNonce", "asn1.Unmarshal([]byte,*webauthn.appleAnonymousAttestation)"),
       ("getCertificateAAGUID", "asn1.Unmarshal([]byte,*[]byte)")] := by
  exact ⟨rfl, rfl, rfl, rfl⟩

/-! ## Framing: the header parser is strict DER and `encTL` is its inverse -/

/-- a parsed header is a proper prefix: 2..11 bytes, tag number and length below 2³¹ -/
theorem parseTL_prefix (b r : Bytes) (t : TL) (h : parseTL b = some (t, r)) :
    ∃ hdr, b = hdr ++ r ∧ 2 ≤ hdr.length ∧ hdr.length ≤ 11 ∧ t.cls < 4 ∧ t.tag < 2 ^ 31 ∧ t.len < 2 ^ 31 := by
  obtain ⟨hb, hc, ht, hl⟩ := Proofs.Asn1Lemmas.parseTL_canonical' b r t h
  have := Proofs.Asn1Lemmas.encTL_length t.cls t.tag t.len t.compound ht hl
  exact ⟨_, hb, this.1, this.2, hc, ht, hl⟩

/-- canonical: the only header bytes that parse to `t` are `encTL t` (minimal tag and length octets) -/
theorem parseTL_canonical (b r : Bytes) (t : TL) (h : parseTL b = some (t, r)) :
    b = encTL t.cls t.compound t.tag t.len ++ r := by
  exact (Proofs.Asn1Lemmas.parseTL_canonical' b r t h).1

theorem parseTL_encTL (cls tag len : Nat) (compound : Bool) (rest : Bytes)
    (hc : cls < 4) (ht : tag < 2 ^ 31) (hl : len < 2 ^ 31) :
    parseTL (encTL cls compound tag len ++ rest) = some (⟨cls, compound, tag, len⟩, rest) := by
  exact Proofs.Asn1Lemmas.parseTL_encTL' cls tag len compound rest hc ht hl

/-! ## INTEGER contents -/

theorem parseInt64_encInt (i : Int) (h : Int64 i) : parseInt64 (encInt i) = some i := by
  exact Proofs.Asn1Lemmas.parseInt64_encInt' i h

/-- DER integers are canonical: what parses to `i` is `encInt i` -/
theorem encInt_of_parseInt64 (b : Bytes) (i : Int) (h : parseInt64 b = some i) : encInt i = b ∧ Int64 i := by
  exact Proofs.Asn1Lemmas.encInt_of_parseInt64' b i h

theorem parseInt32_iff (b : Bytes) (i : Int) : parseInt32 b = some i ↔ parseInt64 b = some i ∧ Int32 i := by
  exact Proofs.Asn1Lemmas.parseInt32_iff' b i

/-- the element loop never runs out of fuel: any fuel ≥ the input's length gives the same answer -/
theorem parseInts_fuel (b : Bytes) (n : Nat) (h : b.length ≤ n) : parseInts n b = parseInts b.length b := by
  exact Proofs.Asn1Lemmas.parseInts_fuel_gen n b.length b h (Nat.le_refl _)

/-! ## The NULL-typed members (recorded finding D14, as theorems about the model of the code) -/

/-- Go's own spelling of a set flag, `[tg] { BOOLEAN, length 0 }`, reads as true and moves the cursor past it -/
theorem go_flag_reads_true {σ : Type} (sub : String → Option (SubOps σ)) (f : Field) (tg : Nat) (rest : Bytes)
    (hty : f.ty = .flag) (hex : f.explicit = true) (htag : f.tag = some tg) (htg : tg < 2 ^ 31) :
    parseField sub f (encTL 2 true tg 2 ++ [0x01, 0x00] ++ rest) = some (.prim (.bool true), rest) := by
  exact Proofs.Asn1Lemmas.go_flag_reads_true' sub f tg rest hty hex htag htg

/-- the published spelling, `[tg] EXPLICIT NULL`, is *not* read: the member keeps false and the cursor does not move -/
theorem explicit_null_not_read {σ : Type} (sub : String → Option (SubOps σ)) (f : Field) (tg : Nat) (rest : Bytes)
    (hty : f.ty = .flag) (hex : f.explicit = true) (hopt : f.optional = true) (htag : f.tag = some tg) (htg : tg < 2 ^ 31) :
    parseField sub f (encTL 2 true tg 2 ++ [0x05, 0x00] ++ rest) =
      some (.prim (.bool false), encTL 2 true tg 2 ++ [0x05, 0x00] ++ rest) := by
  exact Proofs.Asn1Lemmas.explicit_null_not_read' sub f tg rest hty hex hopt htag htg

/-- …and the cursor then stalls there: whatever follows an `EXPLICIT NULL` element with a flag member's tag, the whole
    list decodes as if it were empty from that element on.  Stated for the list under the cursor at its first member. -/
theorem authList_stalls_at_explicit_null (tg : Nat) (htg : tg ∈ flagTags) (rest : Bytes) :
    parseFields alSub Generated.Asn1Schema.authorizationList (encTL 2 true tg 2 ++ [0x05, 0x00] ++ rest) = some zeroAuthList := by
  exact Proofs.Asn1Lemmas.authList_stalls tg htg rest

/-- concrete witnesses: a description whose TEE list carries allApplications as `[600] EXPLICIT NULL` … -/
def kdHead : Bytes :=
  [0x02, 0x01, 0x03, 0x0a, 0x01, 0x01, 0x02, 0x01, 0x04, 0x0a, 0x01, 0x01, 0x04, 0x02, 0xaa, 0xbb, 0x04, 0x00, 0x30, 0x00]

def kdNullAllApps : Bytes := [0x30, 0x1c] ++ kdHead ++ [0x30, 0x06, 0xbf, 0x84, 0x58, 0x02, 0x05, 0x00]
def kdGoAllApps : Bytes := [0x30, 0x1c] ++ kdHead ++ [0x30, 0x06, 0xbf, 0x84, 0x58, 0x02, 0x01, 0x00]
/-- `[503] EXPLICIT NULL` (noAuthRequired) followed by `[702] EXPLICIT INTEGER 2` (origin IMPORTED) -/
def kdNullThenOrigin : Bytes :=
  [0x30, 0x23] ++ kdHead ++ [0x30, 0x0d, 0xbf, 0x83, 0x77, 0x02, 0x05, 0x00, 0xbf, 0x85, 0x3e, 0x03, 0x02, 0x01, 0x02]
def kdGoThenOrigin : Bytes :=
  [0x30, 0x23] ++ kdHead ++ [0x30, 0x0d, 0xbf, 0x83, 0x77, 0x02, 0x01, 0x00, 0xbf, 0x85, 0x3e, 0x03, 0x02, 0x01, 0x02]

theorem d14_allApplications_witness :
    (KeyDesc.view kdNullAllApps).map (·.teeAllApplications) = some false ∧
    (KeyDesc.view kdGoAllApps).map (·.teeAllApplications) = some true := by
  constructor <;> decide +kernel

theorem d14_origin_witness :
    (KeyDesc.view kdNullThenOrigin).map (·.teeOrigin) = some 0 ∧
    (KeyDesc.view kdGoThenOrigin).map (·.teeOrigin) = some 2 := by
  constructor <;> decide +kernel

/-! ## Unmarshal is the inverse of Marshal -/

/-- Every well-formed key description is written by `Marshal`, and (when the encoding is shorter than 2³¹ bytes, the
    largest length the decoder accepts) `Unmarshal` reads exactly that value back with nothing left over — also when
    other bytes follow. -/
theorem unmarshal_marshal (v : KDVal) (h : WFKD v) :
    ∃ b, KeyDesc.marshal v = some b ∧
      (b.length < 2 ^ 31 → ∀ rest, KeyDesc.unmarshal (b ++ rest) = some (v, rest)) := by
  exact Proofs.Asn1Lemmas.kd_roundtrip v h

/-- non-vacuity: a description with members of every kind present is well-formed -/
def exampleKD : KDVal :=
  let al (all : Bool) (origin : Int) : AuthListVal :=
    Generated.Asn1Schema.authorizationList.map fun f =>
      if f.name = "Purpose" then .prim (.ints (some [2, 3]))
      else if f.name = "AllApplications" then .prim (.bool all)
      else if f.name = "Origin" then .prim (.int origin)
      else if f.name = "KeySize" then .prim (.int 256)
      else if f.name = "AttestationIDBrand" then .prim (.bytes (some [0x67]))
      else if f.name = "RootOfTrust" then .sub [.prim (.bytes (some [1, 2])), .prim (.bool true), .prim (.int 0), .prim (.bytes (some []))]
      else match f.ty with
        | .int | .enum => .prim (.int 0)
        | .flag | .bool => .prim (.bool false)
        | .bytes => .prim (.bytes none)
        | .intList => .prim (.ints none)
        | .struct _ => .sub zeroRot
  [.prim (.int 3), .prim (.int 1), .prim (.int 4), .prim (.int 1), .prim (.bytes (some [0xaa, 0xbb])), .prim (.bytes (some [])),
   .sub (al false 0), .sub (al true (-129))]

theorem exampleKD_wf : WFKD exampleKD := by
  have hints : WFInts [2, 3] := by
    refine ⟨?_, by decide +kernel⟩
    intro i hi
    simp only [List.mem_cons, List.mem_nil_iff, or_false] at hi
    unfold Spec.Asn1.Int64
    omega
  have hrot : WFRot [.prim (.bytes (some [1, 2])), .prim (.bool true), .prim (.int 0), .prim (.bytes (some []))] :=
    ⟨_, _, _, _, rfl, by unfold Spec.Asn1.Int32; omega⟩
  refine ⟨3, 1, 4, 1, [0xaa, 0xbb], [], _, _, rfl, ?_, ?_, ?_, ?_, ?_, ?_⟩
  · unfold Spec.Asn1.Int64; omega
  · unfold Spec.Asn1.Int32; omega
  · unfold Spec.Asn1.Int64; omega
  · unfold Spec.Asn1.Int32; omega
  · simp [WFAuthList, WFFields, Generated.Asn1Schema.authorizationList, WFAuthField, Spec.Asn1.Int64, hints, hrot]
  · simp [WFAuthList, WFFields, Generated.Asn1Schema.authorizationList, WFAuthField, Spec.Asn1.Int64, hints, hrot]

/-! ## The two small decoders, at byte level (used by C04's packed and apple requirements) -/

/-- the AAGUID extension value is accepted exactly when it is one primitive universal OCTET STRING and nothing else -/
theorem octetStringExact_iff (b v : Bytes) :
    KeyDesc.octetStringExact b = some v ↔ (b = encTL 0 false 4 v.length ++ v ∧ v.length < 2 ^ 31) := by
  exact Proofs.Asn1Lemmas.octetStringExact_iff' b v

/-- what the Apple nonce decoder accepts: a SEQUENCE whose first element is `[1]` (constructed, context class, non-empty)
    whose first child is a primitive OCTET STRING — the nonce.  Bytes after that child (inside the wrapper or the SEQUENCE)
    and after the SEQUENCE are ignored. -/
theorem appleNonce_some (b v : Bytes) (h : KeyDesc.appleNonce b = some v) :
    ∃ l l1 junk rest, b = encTL 0 true 16 l ++ (encTL 2 true 1 l1 ++ encTL 0 false 4 v.length ++ v ++ junk) ++ rest ∧
      l = (encTL 2 true 1 l1 ++ encTL 0 false 4 v.length ++ v ++ junk).length ∧ 0 < l1 := by
  exact Proofs.Asn1Lemmas.appleNonce_some' b v h

theorem appleNonce_canonical (v rest : Bytes) (hv : v.length < 2 ^ 30) :
    KeyDesc.appleNonce
      (encTL 0 true 16 (encTL 2 true 1 (encTL 0 false 4 v.length ++ v).length ++ encTL 0 false 4 v.length ++ v).length ++
        (encTL 2 true 1 (encTL 0 false 4 v.length ++ v).length ++ encTL 0 false 4 v.length ++ v) ++ rest) = some v := by
  exact Proofs.Asn1Lemmas.appleNonce_canonical' v rest hv

end WebAuthn.Theorems.C17Asn1
