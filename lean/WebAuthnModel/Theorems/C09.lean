import WebAuthnModel.Generated.Effects
import WebAuthnModel.Proofs.CborFrame
import WebAuthnModel.Theorems.C02
import WebAuthnModel.Theorems.C04
/-
  C09 — no exported entry point panics, hangs or blows up on any input.
  PARTIAL by nature: Go panics inside dependencies, wall-clock time and memory are not exhibited by the model.
  What is proved: (a) the model is total — every definition under Basic/, Cbor/, Model/ is accepted by Lean as structurally or
  fuel recursive (the audit step forbids `partial`), so every input has an answer; (b) fuel is never the reason for rejecting CBOR
  (`item_fuel_sufficient`) and the fuel, hence the recursion depth, is linear in the input length; (c) the absent-optional cases the
  property names are explicit rejects (or explicit non-demands), not crashes; (d) the regenerated panic-site facts about ALL non-test code
  are the reviewed ones: no explicit panic can run after package initialisation, there is no single-value type assertion, every
  dereference through an optional pointer member is nil-checked, and the constant-index sites are the reviewed, length-guarded ones.
-/
namespace WebAuthn.C09
open WebAuthn

/-! ### regenerated panic-site facts -/

/-- explicit `panic` calls: none in a function that can run once package initialisation is over.  The translator lists every function
    with an explicit `panic` (`panicCalls`: today package initialisation — the embedded Apple root PEM — and the random-AAGUID helper, which
    only tests call) and, separately, those of them that are not confined to initialisation: not an `init` function, and not an unexported
    plain function whose every mention in non-test code is a direct call in a package-level initialiser or in another such function.
    What runs only during initialisation runs before, and independently of, any data handed to an entry point. -/
theorem panic_calls_reviewed : Generated.Effects.panicCallsAfterInit = [] := by decide

/-- no single-value type assertion `x.(T)` anywhere (every assertion on statement members uses the comma-ok form) -/
theorem no_single_value_assertions : Generated.Effects.singleValueAssertions = [] := by decide

/-- every dereference through an optional pointer member (AttestedCredentialData, AuthenticatorSelection, Name.Digest, AttestedCertifyInfo) is
    dominated by a nil check or obtained through the attested-data helper; the one unguarded site is a method call whose receiver may be nil
    by design (`(*AttestedCredentialData).Marshal` checks its receiver).  (Stated without the names of variables: function, member path.) -/
theorem optional_derefs_reviewed : Generated.Effects.unguardedOptionalDerefs =
    ["webauthn.AuthenticatorData.Marshal: .AttestedCredentialData.Marshal"] := by decide

/-- every constant-index site on a slice is protected: a length check on the same expression returns earlier in the same function, the index
    stands inside the `if` that made the check, or the slice was obtained from a call whose result is non-empty by that function's own check -/
theorem const_index_reviewed : Generated.Effects.unguardedConstIndexSites = [] := by decide

/-! ### the model always answers -/

/-- fuel is never the reason for rejecting a CBOR item: more fuel changes nothing -/
theorem cbor_fuel_sufficient (f d : Nat) (b : Bytes) (hf : Cbor.fuelFor b ≤ f) : Cbor.item f d b = Cbor.item (Cbor.fuelFor b) d b :=
  Cbor.item_fuel_sufficient f d b hf

/-- recursion depth of the CBOR decoder is linear in the input length -/
theorem cbor_fuel_linear (b : Bytes) : Cbor.fuelFor b = 2 * b.length + 2 := rfl

/-- nesting beyond the decoder's limit is rejected, not followed: an array nested deeper than 32 levels is rejected at any depth budget -/
theorem cbor_depth_limited (f : Nat) (rest : Bytes) (h : Cbor.Head) (hh : Cbor.head (0x81 :: rest) = some (h, rest)) :
    Cbor.item (f + 1) 32 (0x81 :: rest) = none := by
  rw [Cbor.item]
  have : Cbor.head (0x81 :: rest) = some (⟨4, 1, 1⟩, rest) := by
    simp [Cbor.head]
  simp [this, Cbor.maxNested]

/-- authenticator data without attested credential data is an explicit reject of registration (never a crash) -/
theorem reg_no_attested_data_is_reject (env : Prog.Env) (rp : RP) (o : CreationOptions) (c : Attestation) (opts : List VerifyOption)
    (get : Bytes → GetOutcome) (set : Credential → SetOutcome) (ao : Att.AttObj) (rest : Bytes) (ad : AuthData) (adRest : Bytes)
    (h1 : unmarshalAttestationObject c.attestationObject = .ok ao rest) (h2 : unmarshalAuthData ao.authData = some (ad, adRest))
    (h3 : ad.acd = none) : ∀ cr, (Prog.run env (verifyRegistration rp o c opts get set)).result ≠ .ok cr :=
  C02.reg_no_attested_data_rejects env rp o c opts get set ao rest ad adRest h1 h2 h3
/-- an absent authenticatorSelection is handled (no user verification demanded), never dereferenced -/
theorem reg_absent_authSel_is_handled (env : Prog.Env) (rp : RP) (o : CreationOptions) (c : Attestation) (opts : List VerifyOption)
    (get : Bytes → GetOutcome) (set : Credential → SetOutcome) (uv : Bytes) (huv : uv ≠ Spec.str "required") :
    Prog.run env (verifyRegistration rp { o with authSelUV := none } c opts get set) =
    Prog.run env (verifyRegistration rp { o with authSelUV := some uv } c opts get set) :=
  C02.reg_absent_authSel env rp o c opts get set uv huv

/-- a TPM certInfo whose certified name is empty or a handle (no digest) is an explicit reject -/
theorem tpm_name_without_digest_rejects (env : Prog.Env) (o : Att.AttObj) (h : Bytes) (ciRaw : Bytes) (ci : CertInfoView)
    (h1 : Att.stmtBytes o.stmt "certInfo" = some ciRaw) (h2 : Tpm2.certInfo (Prog.run env Att.askHashes) ciRaw = some ci)
    (h3 : ∀ a v, ci.name ≠ .digest a v) : Prog.run env (Att.verifyTPM o h) = none := by
  cases hr : Prog.run env (Att.verifyTPM o h) with
  | none => rfl
  | some res =>
    obtain ⟨_, _, _, hashes, ciRaw', ci', _, _, _, _, _, _, _, nameAlg, nameVal, _, _, _, rfl, hb1, hb2, hrest⟩ := ((C04.tpm_iff env o h res).1 hr).body
    rw [h1] at hb1
    injection hb1 with e
    subst e
    rw [h2] at hb2
    injection hb2 with e
    subst e
    obtain ⟨_, _, _, _, _, _, _, _, _, _, _, _, hname, _⟩ := hrest
    exact absurd hname (h3 nameAlg nameVal)

/-- an empty certificate list is an explicit reject for packed (x5c present but empty), fido-u2f, android-key, apple and tpm -/
theorem empty_x5c_rejects (env : Prog.Env) (o : Att.AttObj) (h : Bytes) (hx : Cbor.stmtGet o.stmt "x5c" = some (.array [])) :
    Prog.run env (Att.verifyPacked o h) = none ∧ Prog.run env (Att.verifyU2F o h) = none ∧
    Prog.run env (Att.verifyAndroidKey o h) = none ∧ Prog.run env (Att.verifyApple o h) = none ∧ Prog.run env (Att.verifyTPM o h) = none := by
  have hne : Cbor.stmtGet o.stmt "x5c" ≠ none := by rw [hx]; exact fun e => nomatch e
  have key : ∀ certs, Spec.Att.X5c env o.stmt certs → certs = [] := by
    intro certs ⟨xs, h1, h2⟩
    rw [hx] at h1
    injection h1 with e
    injection e with e
    subst e
    cases certs with
    | nil => rfl
    | cons c cs => exact absurd h2 (by simp [Spec.Att.X5cList])
  refine ⟨?_, ?_, ?_, ?_, ?_⟩
  · cases hr : Prog.run env (Att.verifyPacked o h) with
    | none => rfl
    | some res =>
      rcases (C04.packed_iff env o h res).1 hr with hp | hp
      · obtain ⟨der, c, rest, _, _, hx5, _⟩ := hp.body
        exact absurd (key _ hx5) (by simp)
      · exact absurd hp.noX5c hne
  · cases hr : Prog.run env (Att.verifyU2F o h) with
    | none => rfl
    | some res =>
      obtain ⟨der, c, _, _, _, _, _, _, _, _, hx5, _⟩ := ((C04.u2f_iff env o h res).1 hr).body
      exact absurd (key _ hx5) (by simp)
  · cases hr : Prog.run env (Att.verifyAndroidKey o h) with
    | none => rfl
    | some res =>
      obtain ⟨der, c, rest, _, _, _, _, _, hx5, _⟩ := ((C04.androidKey_iff env o h res).1 hr).body
      exact absurd (key _ hx5) (by simp)
  · cases hr : Prog.run env (Att.verifyApple o h) with
    | none => rfl
    | some res =>
      obtain ⟨der, c, rest, _, _, _, _, hx5, _⟩ := ((C04.apple_iff env o h res).1 hr).body
      exact absurd (key _ hx5) (by simp)
  · cases hr : Prog.run env (Att.verifyTPM o h) with
    | none => rfl
    | some res =>
      obtain ⟨der, c, rest, _, _, _, _, _, _, _, _, _, _, _, _, _, _, hx5, _⟩ := ((C04.tpm_iff env o h res).1 hr).body
      exact absurd (key _ hx5) (by simp)

end WebAuthn.C09
