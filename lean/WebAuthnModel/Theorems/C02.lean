import WebAuthnModel.Theorems.C08
import WebAuthnModel.Theorems.C10
import WebAuthnModel.Proofs.Origin
/-
  C02 — the registration ceremony decision (relying_party.go `VerifyRegistrationCeremony`).
-/
open WebAuthn
namespace WebAuthn.C02

/-! ### oracle helpers -/

@[simp] theorem run_sha256 (env : Prog.Env) (b : Bytes) : Prog.run env (Att.sha256 b) = Spec.sha256 env b := by
  unfold Att.sha256 Spec.sha256
  simp only [Prog.run_bind, Prog.run_query]
  cases env.answer (.sha256 b) <;> rfl

theorem run_askClientData (env : Prog.Env) (raw : Bytes) :
    Prog.run env (askClientData raw) = Json.clientData raw := rfl

theorem askClientData_some (env : Prog.Env) (raw : Bytes) (cd : ClientData) :
    Prog.run env (askClientData raw) = some cd ↔ Json.clientData raw = some cd := Iff.rfl

theorem origin_ok_iff (env : Prog.Env) (co ro : Bytes) :
    Prog.run env (originMatches co ro) = true ↔ Spec.OriginOK env co ro := by
  rw [originMatches_run]
  unfold Spec.OriginOK
  constructor
  · rintro ⟨ch, rh, h1, h2, h3⟩
    exact ⟨ch, rh, h1, h2, (labelWalk_iff ch rh).1 h3⟩
  · rintro ⟨ch, rh, h1, h2, h3⟩
    exact ⟨ch, rh, h1, h2, (labelWalk_iff ch rh).2 h3⟩

/-! ### definitions of the statement -/

/-- the pre-storage decision: error, or the attested credential id and COSE key bytes -/
def regPre (env : Prog.Env) (rp : RP) (o : CreationOptions) (c : Attestation) (opts : List VerifyOption) : Except RegErr (Bytes × Bytes) :=
  match (Prog.run env (verifyRegistration rp o c opts (fun _ => .notFound) (fun _ => .ok))).result with
  | .ok cr => .ok (cr.id, cr.publicKey)
  | .error e => .error e

/-- the storage step, as a pure function of the storage answers -/
def storageStep (userId : Bytes) (get : Bytes → GetOutcome) (set : Credential → SetOutcome) (id key : Bytes) : RegOut :=
  let cred : Credential := ⟨id, userId, key⟩
  let write : RegOut := match set cred with
    | .ok => ⟨.ok cred, [Call.get id, Call.set cred]⟩
    | .err => ⟨.error .saveErr, [Call.get id, Call.set cred]⟩
  match get id with
  | .notFound => write
  | .wrappedNotFound => write
  | .err => ⟨.error .storageErr, [Call.get id]⟩
  | .found existing => if existing.owner ≠ userId then ⟨.error .differentUser, [Call.get id]⟩ else write

/-! ### the program as a pure decision followed by the storage step -/

/-- the pre-storage decision as a pure function (same scrutinees as the program, in the same order) -/
def regCore (env : Prog.Env) (rp : RP) (o : CreationOptions) (c : Attestation) (opts : List VerifyOption) :
    Except RegErr (Bytes × Bytes) :=
  match Prog.run env (askClientData c.clientDataJSON) with
  | none => .error .clientData
  | some cd =>
    if cd.type ≠ strBytes Generated.Core.clientDataTypeCreate then .error .type
    else if B64.encode o.challenge ≠ cd.challenge then .error .challenge
    else if !(Prog.run env (originMatches cd.origin rp.origin)) then .error .origin
    else
      match unmarshalAttestationObject c.attestationObject with
      | .err => .error .attObj
      | .unmodelled => .error .unmodelled
      | .ok ao _ =>
        match unmarshalAuthData ao.authData with
        | none => .error .authData
        | some (ad, _) =>
          if Spec.sha256 env rp.id ≠ ad.rpIdHash then .error .rpIdHash
          else if !flagsUP ad.flags then .error .notPresent
          else if o.authSelUV = some (strBytes Generated.Core.userVerificationRequired) ∧ !flagsUV ad.flags then
            .error .notVerified
          else match ad.acd with
            | none => .error .noAttestedData
            | some acd =>
              match Cose.parse acd.credentialPublicKey with
              | .unmodelled => .error .unmodelled
              | .err _ => .error .publicKey
              | .ok k _ =>
                if !o.algs.contains k.alg then .error .algorithm else
                match Prog.run env (Att.verify ao (Spec.sha256 env c.clientDataJSON)) with
                | none => .error .statement
                | some res =>
                  if !(getVerifyConfig opts).types.contains (strBytes res.type) then .error .typeNotAllowed
                  else if !(getVerifyConfig opts).formats.contains ao.fmt then .error .formatNotAllowed
                  else if c.rawId ≠ acd.credentialId then .error .rawId
                  else .ok (c.rawId, acd.credentialPublicKey)

def finish (userId : Bytes) (get : Bytes → GetOutcome) (set : Credential → SetOutcome) : Except RegErr (Bytes × Bytes) → RegOut
  | .error e => ⟨.error e, []⟩
  | .ok (id, key) => storageStep userId get set id key

theorem run_eq_finish_aux (env rp o c opts) (get : Bytes → GetOutcome) (set : Credential → SetOutcome)
    (r : Except RegErr (Bytes × Bytes)) (h : regCore env rp o c opts = r) :
    Prog.run env (verifyRegistration rp o c opts get set) = finish o.userId get set r := by
  unfold regCore at h
  unfold verifyRegistration
  simp only [Prog.run_bind]
  repeat' (first
    | (split at h <;> simp only [*, ne_eq, ↓reduceIte, Prog.run_bind, run_sha256, not_false_eq_true, Bool.false_eq_true])
    | (subst h; rfl))
  subst h
  simp only [finish, storageStep]
  generalize get c.rawId = g
  generalize set _ = s
  cases g <;> cases s <;> first | rfl | (simp only [ne_eq]; split <;> rfl)


theorem run_eq_finish (env rp o c opts) (get : Bytes → GetOutcome) (set : Credential → SetOutcome) :
    Prog.run env (verifyRegistration rp o c opts get set) = finish o.userId get set (regCore env rp o c opts) :=
  run_eq_finish_aux env rp o c opts get set _ rfl

theorem regPre_eq_core (env rp o c opts) : regPre env rp o c opts = regCore env rp o c opts := by
  unfold regPre
  rw [run_eq_finish]
  cases regCore env rp o c opts with
  | error e => rfl
  | ok p => rfl

theorem reg_decompose (env rp o c opts) (get : Bytes → GetOutcome) (set : Credential → SetOutcome) :
    Prog.run env (verifyRegistration rp o c opts get set) =
      match regPre env rp o c opts with
      | .error e => ⟨.error e, []⟩
      | .ok (id, key) => storageStep o.userId get set id key := by
  rw [regPre_eq_core, run_eq_finish]
  cases regCore env rp o c opts with
  | error e => rfl
  | ok p => rfl

/-! ### the pure decision is exactly `Spec.RegPreOK` -/

theorem str_create : strBytes Generated.Core.clientDataTypeCreate = Spec.str "webauthn.create" := rfl
theorem str_required : strBytes Generated.Core.userVerificationRequired = Spec.str "required" := rfl

theorem core_ok_imp (env rp o c opts) (id key : Bytes) (h : regCore env rp o c opts = .ok (id, key)) :
    Spec.RegPreOK env rp o c opts id key := by
  unfold regCore at h
  repeat' (first | split at h | (cases h; done))
  cases h
  rename_i _ cd hcd ht hch hor _ ao rest hao _ ad adRest had hrp hup huv _ acd hacd _ k kRest hk halg _ res hres htypes hfmts hraw
  have ht' : cd.type = Spec.str "webauthn.create" := Decidable.of_not_not ht
  have hch' : cd.challenge = B64.encode o.challenge := (Decidable.of_not_not hch).symm
  have hor' : Spec.OriginOK env cd.origin rp.origin := by
    apply (origin_ok_iff _ _ _).1
    simpa using hor
  have hrp' : ad.rpIdHash = Spec.sha256 env rp.id := (Decidable.of_not_not hrp).symm
  have hup' : Spec.bit ad.flags 0 = true := by
    rw [← (C10.flag_bits ad.flags).1]; simpa using hup
  have huv' : o.authSelUV = some (Spec.str "required") → Spec.bit ad.flags 2 = true := by
    intro h
    rw [← (C10.flag_bits ad.flags).2.1]
    cases hv : flagsUV ad.flags with
    | true => rfl
    | false => exact absurd ⟨h, by simp [hv]⟩ huv
  have halg' : k.alg ∈ o.algs := by simpa using halg
  have htypes' : Spec.str res.type ∈ Spec.allowedTypes opts := by
    rw [← (C08.config_spec opts).2]
    have : (getVerifyConfig opts).types.contains (strBytes res.type) = true := by simpa using htypes
    exact List.contains_iff_mem.1 this
  have hfmts' : ao.fmt ∈ Spec.allowedFormats opts := by
    rw [← (C08.config_spec opts).1]
    have : (getVerifyConfig opts).formats.contains ao.fmt = true := by simpa using hfmts
    exact List.contains_iff_mem.1 this
  have hraw' : c.rawId = acd.credentialId := Decidable.of_not_not hraw
  exact ⟨⟨cd, (askClientData_some _ _ _).1 hcd, ht', hch', hor'⟩,
    ⟨ao, rest, ad, adRest, acd, k, kRest, res, hao, had, hrp', hup', huv', hacd, hk, halg', hres, htypes', hfmts',
      hraw', hraw', rfl⟩⟩

theorem core_ok_of (env rp o c opts) (id key : Bytes) (h : Spec.RegPreOK env rp o c opts id key) :
    regCore env rp o c opts = .ok (id, key) := by
  obtain ⟨⟨cd, hcd, ht, hch, hor⟩, ⟨ao, rest, ad, adRest, acd, k, kRest, res, hao, had, hrp, hup, huv, hacd, hk, halg,
    hres, htypes, hfmts, hraw, hid, hkey⟩⟩ := h
  have hcd' := (askClientData_some env _ _).2 hcd
  have hor' := (origin_ok_iff _ _ _).2 hor
  rw [← (C10.flag_bits ad.flags).1] at hup
  rw [← (C10.flag_bits ad.flags).2.1, ← str_required] at huv
  rw [← str_create] at ht
  rw [← (C08.config_spec opts).2] at htypes
  rw [← (C08.config_spec opts).1] at hfmts
  have huv' : ¬(o.authSelUV = some (strBytes Generated.Core.userVerificationRequired) ∧ (!flagsUV ad.flags) = true) := by
    rintro ⟨h1, h2⟩
    rw [huv h1] at h2
    cases h2
  have htypes' : (getVerifyConfig opts).types.contains (strBytes res.type) = true := List.contains_iff_mem.2 htypes
  have hfmts' : (getVerifyConfig opts).formats.contains ao.fmt = true := List.contains_iff_mem.2 hfmts
  have halg' : o.algs.contains k.alg = true := List.contains_iff_mem.2 halg
  unfold regCore
  simp only [hcd', ht, hch, hor', hao, had, hrp, hup, huv', hacd, hk, halg', hres, htypes', hfmts', hraw, hid, hkey, ne_eq,
    not_true_eq_false, ↓reduceIte, Bool.not_true, Bool.false_eq_true]

theorem core_ok_iff (env rp o c opts) (id key : Bytes) :
    regCore env rp o c opts = .ok (id, key) ↔ Spec.RegPreOK env rp o c opts id key :=
  ⟨core_ok_imp env rp o c opts id key, core_ok_of env rp o c opts id key⟩


/-! ### the statements of C02 -/

/-- the pre-storage decision succeeds iff every ceremony condition of C02 holds (Spec.RegPreOK), and then returns the ATTESTED id and key -/
theorem regPre_iff (env rp o c opts) (id key : Bytes) :
    regPre env rp o c opts = .ok (id, key) ↔ Spec.RegPreOK env rp o c opts id key := by
  rw [regPre_eq_core]; exact core_ok_iff env rp o c opts id key

/-- when the storage step returns a credential -/
theorem storageStep_ok_iff (u : Bytes) (get : Bytes → GetOutcome) (set : Credential → SetOutcome) (id key : Bytes)
    (cred : Credential) :
    (storageStep u get set id key).result = .ok cred ↔
      cred = ⟨id, u, key⟩ ∧
        (get id = .notFound ∨ get id = .wrappedNotFound ∨ ∃ ex, get id = .found ex ∧ ex.owner = u) ∧ set cred = .ok := by
  unfold storageStep
  constructor
  · intro h
    simp only [ne_eq] at h
    cases hg : get id <;> cases hs : set ⟨id, u, key⟩ <;> simp only [hg, hs] at h
    all_goals first
      | (cases h; done)
      | (cases h; simp [hs]; done)
      | skip
    all_goals
      split at h
      · cases h
      · rename_i hown
        cases h <;> simp_all
  · rintro ⟨rfl, hg, hs⟩
    rcases hg with hg | hg | ⟨ex, hg, hex⟩
    · simp [hg, hs]
    · simp [hg, hs]
    · simp [hg, hs, hex]


/-- full statement: a credential is returned iff all conditions hold, the id is not owned by another user, and the write succeeds -/
theorem reg_iff (env rp o c opts get set) (cred : Credential) :
    (Prog.run env (verifyRegistration rp o c opts get set)).result = .ok cred ↔
      ∃ id key, Spec.RegPreOK env rp o c opts id key ∧ cred = ⟨id, o.userId, key⟩ ∧
        (get id = .notFound ∨ get id = .wrappedNotFound ∨ ∃ ex, get id = .found ex ∧ ex.owner = o.userId) ∧ set cred = .ok := by
  rw [run_eq_finish]
  constructor
  · intro h
    cases hc : regCore env rp o c opts with
    | error e => rw [hc] at h; cases h
    | ok p =>
      obtain ⟨id, key⟩ := p
      rw [hc] at h
      exact ⟨id, key, (core_ok_iff ..).1 hc, (storageStep_ok_iff ..).1 h⟩
  · rintro ⟨id, key, hpre, h⟩
    rw [(core_ok_iff ..).2 hpre]
    exact (storageStep_ok_iff ..).2 h

/-- under `Spec.RegPreOK` the ceremony is the storage step on the attested id and key -/
theorem run_of_pre (env rp o c opts) (get : Bytes → GetOutcome) (set : Credential → SetOutcome) (id key : Bytes)
    (hpre : Spec.RegPreOK env rp o c opts id key) :
    Prog.run env (verifyRegistration rp o c opts get set) = storageStep o.userId get set id key := by
  rw [run_eq_finish, (core_ok_iff ..).2 hpre]; rfl

/-- the conditions determine the attested id and key -/
theorem pre_unique (env rp o c opts) (id key id' key' : Bytes)
    (h : Spec.RegPreOK env rp o c opts id key) (h' : Spec.RegPreOK env rp o c opts id' key') : id = id' ∧ key = key' := by
  have := ((core_ok_iff ..).2 h).symm.trans ((core_ok_iff ..).2 h')
  simpa using this

/-- absent authenticatorSelection only removes the UV demand: with `authSelUV = none` the outcome equals that for any non-"required" value -/
theorem reg_absent_authSel (env : Prog.Env) (rp : RP) (o : CreationOptions) (c : Attestation) (opts : List VerifyOption)
    (get : Bytes → GetOutcome) (set : Credential → SetOutcome) (uv : Bytes) (huv : uv ≠ Spec.str "required") :
    Prog.run env (verifyRegistration rp { o with authSelUV := none } c opts get set) =
    Prog.run env (verifyRegistration rp { o with authSelUV := some uv } c opts get set) := by
  rw [run_eq_finish, run_eq_finish]
  have huv' : uv ≠ strBytes Generated.Core.userVerificationRequired := huv
  have : regCore env rp { o with authSelUV := none } c opts = regCore env rp { o with authSelUV := some uv } c opts := by
    unfold regCore
    simp only [Option.some.injEq, huv', false_and, reduceCtorEq]
  rw [this]

/-- authenticator data without attested credential data is always rejected (never a crash, never success) -/
theorem reg_no_attested_data_rejects (env rp o c opts get set) (ao rest ad adRest)
    (h1 : unmarshalAttestationObject c.attestationObject = .ok ao rest) (h2 : unmarshalAuthData ao.authData = some (ad, adRest))
    (h3 : ad.acd = none) : ∀ cr, (Prog.run env (verifyRegistration rp o c opts get set)).result ≠ .ok cr := by
  intro cr h
  obtain ⟨id, key, ⟨_, ⟨ao', rest', ad', adRest', acd, k, kRest, res, hao, had, _, _, _, hacd, _⟩⟩, _⟩ := (reg_iff ..).1 h
  rw [h1] at hao
  cases hao
  rw [h2] at had
  cases had
  rw [h3] at hacd
  cases hacd

/-- a raw id different from the attested credential id is rejected -/
theorem reg_rawId_mismatch_rejects (env rp o c opts get set) (ao rest ad adRest acd)
    (h1 : unmarshalAttestationObject c.attestationObject = .ok ao rest) (h2 : unmarshalAuthData ao.authData = some (ad, adRest))
    (h3 : ad.acd = some acd) (h4 : c.rawId ≠ acd.credentialId) :
    ∀ cr, (Prog.run env (verifyRegistration rp o c opts get set)).result ≠ .ok cr := by
  intro cr h
  obtain ⟨id, key, ⟨_, ⟨ao', rest', ad', adRest', acd', k, kRest, res, hao, had, _, _, _, hacd, _, _, _, _, _, hraw, _⟩⟩, _⟩ :=
    (reg_iff ..).1 h
  rw [h1] at hao
  cases hao
  rw [h2] at had
  cases had
  rw [h3] at hacd
  cases hacd
  exact h4 hraw

/-- policy (C08): success implies format and type are in the configured sets; an empty set of either kind rejects everything -/
theorem reg_ok_implies_allowed (env rp o c opts get set cred)
    (h : (Prog.run env (verifyRegistration rp o c opts get set)).result = .ok cred) :
    ∃ ao rest res, unmarshalAttestationObject c.attestationObject = .ok ao rest ∧
      Prog.run env (Att.verify ao (Spec.sha256 env c.clientDataJSON)) = some res ∧
      ao.fmt ∈ Spec.allowedFormats opts ∧ Spec.str res.type ∈ Spec.allowedTypes opts := by
  obtain ⟨id, key, ⟨_, ⟨ao, rest, ad, adRest, acd, k, kRest, res, hao, _, _, _, _, _, _, _, hres, htypes, hfmts, _⟩⟩, _⟩ :=
    (reg_iff ..).1 h
  exact ⟨ao, rest, res, hao, hres, hfmts, htypes⟩

theorem reg_empty_formats_rejects (env rp o c opts get set) (h : Spec.allowedFormats opts = []) :
    ∀ cr, (Prog.run env (verifyRegistration rp o c opts get set)).result ≠ .ok cr := by
  intro cr hcr
  obtain ⟨ao, _, _, _, _, hf, _⟩ := reg_ok_implies_allowed env rp o c opts get set cr hcr
  rw [h] at hf
  cases hf

theorem reg_empty_types_rejects (env rp o c opts get set) (h : Spec.allowedTypes opts = []) :
    ∀ cr, (Prog.run env (verifyRegistration rp o c opts get set)).result ≠ .ok cr := by
  intro cr hcr
  obtain ⟨ao, _, res, _, _, _, ht⟩ := reg_ok_implies_allowed env rp o c opts get set cr hcr
  rw [h] at ht
  cases ht

/-! ### non-vacuity -/

namespace Example

def zeros (n : Nat) : Bytes := List.replicate n 0
def keyBytes : Bytes := [0xa4, 0x01, 0x01, 0x03, 0x27, 0x20, 0x06, 0x21, 0x58, 0x20] ++ zeros 32
def authData : Bytes := zeros 32 ++ [0x41] ++ [0, 0, 0, 0] ++ zeros 16 ++ [0, 1] ++ [7] ++ keyBytes
def attObj : Bytes :=
  [0xa3, 0x63] ++ Spec.str "fmt" ++ [0x64] ++ Spec.str "none" ++ [0x67] ++ Spec.str "attStmt" ++ [0xa0] ++
  [0x68] ++ Spec.str "authData" ++ [0x58, 98] ++ authData
def o : CreationOptions := ⟨[1, 2, 3], [42], [-7, -8], none⟩
def env : Prog.Env := ⟨fun q => match q with
  | .sha256 _ => .bytes (zeros 32)
  | _ => .none⟩
def rp : RP := ⟨Spec.str "https://example.com", Spec.str "example.com"⟩
/-- the client data of the example: a real JSON document; `AQID` is base64url of the options' challenge `[1, 2, 3]` -/
def clientDataJSON : Bytes :=
  Bytes.ofString "{\"type\":\"webauthn.create\",\"challenge\":\"AQID\",\"origin\":\"https://login.example.com\",\"crossOrigin\":false}"
def att : Attestation := ⟨[7], clientDataJSON, attObj⟩

/-- `encoding/json` (the Lean model) decodes the example's client data to the intended three members -/
theorem client_data : Json.clientData clientDataJSON =
    some ⟨Spec.str "webauthn.create", B64.encode o.challenge, Spec.str "https://login.example.com"⟩ := by
  decide +kernel

/-- the example's origins really parse to the hosts the example intends (a subdomain of the RP host, and the RP host) -/
theorem client_host : Url.hostOf (Spec.str "https://login.example.com") = some (Spec.str "login.example.com") := by
  decide +kernel
theorem rp_host : Url.hostOf rp.origin = some rp.id := by decide +kernel


set_option maxRecDepth 100000 in
theorem core_ok : regCore env rp o att [] = .ok ([7], keyBytes) := by
  have h : Prog.run env (askClientData att.clientDataJSON) =
      some ⟨Spec.str "webauthn.create", B64.encode o.challenge, Spec.str "https://login.example.com"⟩ := client_data
  unfold regCore
  rw [h]
  with_unfolding_all rfl

/-- NON-VACUITY: `Spec.RegPreOK` holds for a concrete environment and a concrete `none`-format attestation object
    (the CBOR decoder, the authenticator-data and COSE parsers and the dispatch are evaluated on the literal bytes) -/
example : Spec.RegPreOK env rp o att [] [7] keyBytes := (core_ok_iff ..).1 core_ok

/-- and the whole ceremony then succeeds against the empty in-memory storage, returning the attested record -/
example : (Prog.run env (verifyRegistration rp o att [] (Store.get []) (fun _ => .ok))).result = .ok ⟨[7], [42], keyBytes⟩ :=
  (reg_iff ..).2 ⟨[7], keyBytes, (core_ok_iff ..).1 core_ok, rfl, Or.inl rfl, rfl⟩
end Example

end WebAuthn.C02
