import WebAuthnModel.Spec.Attestation
import WebAuthnModel.Theorems.C12
import WebAuthnModel.Proofs.JwsLemmas
import WebAuthnModel.Proofs.X509SigLemmas
/-
  C03 — what each signed attestation format binds.
  (1) the signed / hashed message formats are injective (for all lengths);
  (2) for every verifier, acceptance implies that the binding oracle (certificate signature check, key signature
      check, TPM extraData hash, Apple / SafetyNet nonce) answered positively on exactly the stated message, under
      the stated certificate / key, for the statement's signature;
  (3) under the idealised hypotheses `Spec.Att.SigBinds` / `Spec.Att.HashInj`, two accepted objects sharing the
      statement carry the same covered data.  For `packed` (self attestation), `apple` and `android-safetynet` the
      unrestricted statement is false in the model (`Counter.*_binds_false`); the `_partial` theorems carry the
      extra hypothesis explicitly.
-/
namespace WebAuthn.C03
open WebAuthn WebAuthn.Att

/-! ### message formats are injective -/

/-- authenticatorData ‖ clientDataHash determines both parts when the hash length is fixed -/
theorem concat_hash_inj (a a' h h' : Bytes) (hl : h.length = h'.length) (e : a ++ h = a' ++ h') : a = a' ∧ h = h' :=
  List.append_inj' e hl

theorem coord32_length (b : Bytes) : (coord32 b).length = 32 := by
  unfold coord32
  simp only
  split
  · rw [List.length_take]; omega
  · rw [List.length_append, List.length_replicate]; omega

/-- the fido-u2f verification message determines rpIdHash, client-data hash, credential id and both 32-byte
    coordinates (credential id of ANY length in the middle) -/
theorem u2fMessage_inj (rp rp' h h' id id' x x' y y' : Bytes) (hrp : rp.length = rp'.length) (hh : h.length = h'.length)
    (e : u2fMessage rp h id x y = u2fMessage rp' h' id' x' y') :
    rp = rp' ∧ h = h' ∧ id = id' ∧ coord32 x = coord32 x' ∧ coord32 y = coord32 y' := by
  unfold u2fMessage at e
  have hx := coord32_length x; have hx' := coord32_length x'
  have hy := coord32_length y; have hy' := coord32_length y'
  obtain ⟨e1, e2⟩ := List.append_inj' e (by simp only [List.length_append, List.length_cons, List.length_nil]; omega)
  obtain ⟨e3, e4⟩ := List.append_inj' e2 (by omega)
  obtain ⟨e5, e6⟩ := List.append_inj e1 (by simp only [List.length_append, List.length_cons, List.length_nil]; omega)
  obtain ⟨e7, e8⟩ := List.append_inj' e5 hh
  exact ⟨List.append_cancel_left e7, e8, e6, List.append_cancel_left e3, e4⟩

/-! ### running the oracle helpers -/

theorem run_ite {α} (env : Prog.Env) (c : Prop) [Decidable c] (a b : Prog α) :
    Prog.run env (if c then a else b) = if c then Prog.run env a else Prog.run env b := by
  split <;> rfl

theorem run_askBool (env : Prog.Env) (q : Ask) :
    Prog.run env (askBool q) = true ↔ env.answer q = .bool true := by
  unfold askBool
  simp only [Prog.run_bind, Prog.run_query]
  cases h : env.answer q <;> simp

theorem run_sha256 (env : Prog.Env) (b : Bytes) : Prog.run env (Att.sha256 b) = Spec.sha256 env b := by
  unfold Att.sha256 Spec.sha256
  simp only [Prog.run_bind, Prog.run_query]
  cases h : env.answer (.sha256 b) <;> rfl

theorem run_askBytes (env : Prog.Env) (q : Ask) (b : Bytes) :
    Prog.run env (askBytes q) = some b ↔ env.answer q = .bytes b := by
  unfold askBytes
  simp only [Prog.run_bind, Prog.run_query]
  cases h : env.answer q <;> simp

theorem run_askCert (env : Prog.Env) (der : Bytes) (c : CertView) :
    Prog.run env (askCert der) = some c ↔ env.answer (.x509Parse der) = .cert c := by
  unfold askCert
  simp only [Prog.run_bind, Prog.run_query]
  cases h : env.answer (.x509Parse der) <;> simp

theorem run_hashIsEqual (env : Prog.Env) (id : Nat) (d e : Bytes) :
    Prog.run env (hashIsEqual id d e) = true ↔ env.answer (.hash id d) = .bytes e := by
  unfold hashIsEqual
  simp only [Prog.run_bind, Prog.run_query]
  cases h : env.answer (.hash id d) <;> simp

/-! ### acceptance of each verifier, peeled (`_core`: also records the certificate list read from the statement) -/

theorem certs_missing_iff (env : Prog.Env) (stmt : List (Bytes × Cbor.Value)) :
    Prog.run env (unmarshalCertificates stmt) = .missing ↔ Cbor.stmtGet stmt "x5c" = none := by
  unfold unmarshalCertificates
  cases hx : Cbor.stmtGet stmt "x5c" with
  | none => simp
  | some v =>
    dsimp only
    cases Cbor.asArray v with
    | none => simp
    | some xs =>
      simp only [Prog.run_bind]
      cases Prog.run env (parseCerts xs) <;> simp

theorem certs_ok_x5c (env : Prog.Env) (stmt : List (Bytes × Cbor.Value)) (cs)
    (h : Prog.run env (unmarshalCertificates stmt) = .ok cs) : Cbor.stmtGet stmt "x5c" ≠ none := by
  intro hx
  rw [(certs_missing_iff env stmt).2 hx] at h
  cases h

theorem packedCert_sig (env : Prog.Env) (o : AttObj) (h der : Bytes) (c : CertView)
    (hr : Prog.run env (verifyPackedCert o h der c) = true) :
    X509Sig.Checked env der c.key (Cose.algX509 (getAlgorithm o.stmt)) (o.authData ++ h) (getSignature o.stmt) := by
  unfold verifyPackedCert at hr
  split at hr
  · simp at hr
  · simp only [Prog.run_bind, run_ite, Prog.run_pure] at hr
    split at hr
    · simp at hr
    · rename_i hb
      rw [← X509SigLemmas.run_certCheckSig]
      simpa using hb

theorem packedSelf_sig (env : Prog.Env) (o : AttObj) (h : Bytes)
    (hr : Prog.run env (verifyPackedSelf o h) = true) :
    ∃ d acd k sc hh, attestedAuthData o = some (d, acd) ∧ credentialKey acd = some k ∧ getAlgorithm o.stmt = k.alg ∧
      Cose.verifyParams k = some (sc, hh) ∧
      env.answer (.sigVerify sc hh k.material (o.authData ++ h) (getSignature o.stmt)) = .bool true := by
  unfold verifyPackedSelf at hr
  split at hr
  · simp at hr
  · rename_i d acd hd
    split at hr
    · simp at hr
    · rename_i k hk
      simp only [run_ite, Prog.run_pure] at hr
      split at hr
      · simp at hr
      · rename_i ha
        rw [C12.verify_iff, ← C12.verifyParams_spec] at hr
        obtain ⟨sc, hh, h1, h2⟩ := hr
        exact ⟨d, acd, k, sc, hh, hd, hk, by simpa using ha, h1, h2⟩

theorem packed_x5c_core (env : Prog.Env) (o : AttObj) (h : Bytes) (res : Result)
    (hx : Cbor.stmtGet o.stmt "x5c" ≠ none) (hr : Prog.run env (verifyPacked o h) = some res) :
    ∃ der c rest, Prog.run env (unmarshalCertificates o.stmt) = .ok ((der, c) :: rest) ∧
      res = ⟨"Unknown", der :: rest.map (·.1)⟩ ∧
      X509Sig.Checked env der c.key (Cose.algX509 (getAlgorithm o.stmt)) (o.authData ++ h) (getSignature o.stmt) := by
  unfold verifyPacked at hr
  simp only [Prog.run_bind, Prog.run_pure, run_ite] at hr
  split at hr
  · simp at hr
  · split at hr
    · rename_i der c rest hc
      simp only [Prog.run_bind, Prog.run_pure, run_ite] at hr
      split at hr
      · rename_i hv
        exact ⟨der, c, rest, hc, by simpa using hr.symm, packedCert_sig env o h der c hv⟩
      · simp at hr
    · rename_i hm
      exact absurd ((certs_missing_iff env o.stmt).1 hm) hx
    · simp at hr

theorem packed_self_core (env : Prog.Env) (o : AttObj) (h : Bytes) (res : Result)
    (hx : Cbor.stmtGet o.stmt "x5c" = none) (hr : Prog.run env (verifyPacked o h) = some res) :
    res = ⟨"Self", []⟩ ∧
    ∃ d acd k sc hh, attestedAuthData o = some (d, acd) ∧ credentialKey acd = some k ∧ getAlgorithm o.stmt = k.alg ∧
      Cose.verifyParams k = some (sc, hh) ∧
      env.answer (.sigVerify sc hh k.material (o.authData ++ h) (getSignature o.stmt)) = .bool true := by
  unfold verifyPacked at hr
  simp only [Prog.run_bind, Prog.run_pure, run_ite] at hr
  split at hr
  · simp at hr
  · split at hr
    · rename_i der c rest hc
      exact absurd hx (certs_ok_x5c env _ _ hc)
    · simp only [Prog.run_bind, Prog.run_pure, run_ite] at hr
      split at hr
      · rename_i hv
        exact ⟨by simpa using hr.symm, packedSelf_sig env o h hv⟩
      · simp at hr
    · simp at hr
theorem u2f_core (env : Prog.Env) (o : AttObj) (h : Bytes) (res : Result)
    (hr : Prog.run env (verifyU2F o h) = some res) :
    ∃ der c d acd alg crv x y, Prog.run env (unmarshalCertificates o.stmt) = .ok [(der, c)] ∧ res = ⟨"Unknown", [der]⟩ ∧
      attestedAuthData o = some (d, acd) ∧ credentialKey acd = some (.ec2 alg crv x y) ∧
      X509Sig.Checked env der c.key (Cose.algX509 alg) (u2fMessage d.rpIdHash h acd.credentialId x y) (getSignature o.stmt) ∧
      u2fCoordinatesFit crv x y = true := by
  unfold verifyU2F at hr
  simp only [Prog.run_bind] at hr
  split at hr
  · rename_i der c hc
    split at hr
    · split at hr
      · simp at hr
      · rename_i d acd hd
        split at hr
        · rename_i alg crv x y hk
          simp only [Prog.run_bind, Prog.run_pure, run_ite] at hr
          split at hr
          · simp at hr
          · rename_i hf
            split at hr
            · rename_i hb
              exact ⟨der, c, d, acd, alg, crv, x, y, hc, by simpa using hr.symm, hd, hk,
                (X509SigLemmas.run_certCheckSig ..).1 hb, by simpa using hf⟩
            · simp at hr
        · simp at hr
    · simp at hr
  · simp at hr

theorem androidKey_core (env : Prog.Env) (o : AttObj) (h : Bytes) (res : Result)
    (hr : Prog.run env (verifyAndroidKey o h) = some res) :
    ∃ der c rest, Prog.run env (unmarshalCertificates o.stmt) = .ok ((der, c) :: rest) ∧
      res = ⟨"Basic", der :: rest.map (·.1)⟩ ∧
      X509Sig.Checked env der c.key (Cose.algX509 (getAlgorithm o.stmt)) (o.authData ++ h) (getSignature o.stmt) := by
  unfold verifyAndroidKey at hr
  simp only [Prog.run_bind] at hr
  split at hr
  · rename_i der c rest hc
    split at hr
    · simp at hr
    · split at hr
      · simp at hr
      · simp only [Prog.run_bind, Prog.run_pure, run_ite] at hr
        split at hr
        · simp at hr
        · rename_i hb
          refine ⟨der, c, rest, hc, ?_, by rw [← X509SigLemmas.run_certCheckSig]; simpa using hb⟩
          split at hr
          · simp at hr
          · split at hr
            · simp at hr
            · split at hr
              · simp only [Prog.run_pure, run_ite] at hr
                repeat' split at hr
                all_goals simp at hr
                exact hr.symm
              · simp at hr
  · simp at hr

theorem apple_core (env : Prog.Env) (o : AttObj) (h : Bytes) (res : Result)
    (hr : Prog.run env (verifyApple o h) = some res) :
    ∃ der c rest e, Prog.run env (unmarshalCertificates o.stmt) = .ok ((der, c) :: rest) ∧
      res = ⟨"AnonCA", der :: rest.map (·.1)⟩ ∧ findExt c Generated.Core.oidAppleNonce = some e ∧
      KeyDesc.appleNonce e.value = some (Spec.sha256 env (o.authData ++ h)) := by
  unfold verifyApple at hr
  simp only [Prog.run_bind] at hr
  split at hr
  · rename_i der c rest hc
    split at hr
    · simp at hr
    · split at hr
      · simp at hr
      · simp only [Prog.run_bind, run_sha256] at hr
        split at hr
        · simp at hr
        · rename_i e he
          split at hr
          · simp at hr
          · rename_i n hn
            simp only [Prog.run_pure, run_ite] at hr
            split at hr
            · simp at hr
            · rename_i hne
              have hne : Spec.sha256 env (o.authData ++ h) = n := by simpa using hne
              split at hr
              · simp at hr
              · exact ⟨der, c, rest, e, hc, by simpa using hr.symm, he, by rw [hne]; exact hn⟩
  · simp at hr

/-- two descriptions of the same response carry the same nonce -/
theorem safetyNetResponse_nonce_unique (env : Prog.Env) (raw n n' : Bytes)
    (h : Spec.Att.SafetyNetResponse env raw n) (h' : Spec.Att.SafetyNetResponse env raw n') : n = n' := by
  rcases h with ⟨c, der, cert, rest, hp, -, -, -, hcl⟩ | ⟨v, hu, ha, -, -, -, hn⟩
  · rcases h' with ⟨c', der', cert', rest', hp', -, -, -, hcl'⟩ | ⟨v', hu', -⟩
    · rw [hp] at hp'
      cases hp'
      exact Option.some.inj (hcl.symm.trans hcl')
    · rw [hp] at hu'; cases hu'
  · rcases h' with ⟨c', der', cert', rest', hp', -⟩ | ⟨v', hu', ha', -, -, -, hn'⟩
    · rw [hu] at hp'; cases hp'
    · rw [ha] at ha'
      cases ha'
      exact hn.symm.trans hn'

theorem safetyNet_core (env : Prog.Env) (o : AttObj) (h : Bytes) (res : Result)
    (hr : Prog.run env (verifySafetyNet o h) = some res) :
    ∃ raw nonce, stmtBytes o.stmt "response" = some raw ∧ Spec.Att.SafetyNetResponse env raw nonce ∧
      nonce = Spec.sha256 env (o.authData ++ h) ∧ res = ⟨"Basic", []⟩ :=
  ((JwsLemmas.verifySafetyNet_iff env o h res).1 hr).body

theorem run_guard {α} (env : Prog.Env) (c : Prop) [Decidable c] (p : Prog (Option α)) (r : α)
    (h : Prog.run env (if c then pure none else p) = some r) : ¬c ∧ Prog.run env p = some r := by
  by_cases hc : c
  · rw [if_pos hc] at h; cases h
  · rw [if_neg hc] at h; exact ⟨hc, h⟩

theorem run_guardM {α} (env : Prog.Env) (q : Prog Bool) (p : Prog (Option α)) (r : α)
    (h : Prog.run env (q >>= fun b => if (!b) = true then pure none else p) = some r) :
    Prog.run env q = true ∧ Prog.run env p = some r := by
  rw [Prog.run_bind] at h
  have := run_guard env _ _ _ h
  exact ⟨by simpa using this.1, this.2⟩

theorem tpm_core (env : Prog.Env) (o : AttObj) (h : Bytes) (res : Result)
    (hr : Prog.run env (verifyTPM o h) = some res) :
    ∃ der c rest ciRaw ci ciEnc, Prog.run env (unmarshalCertificates o.stmt) = .ok ((der, c) :: rest) ∧
      res = ⟨"AttCA", der :: rest.map (·.1)⟩ ∧
      stmtBytes o.stmt "certInfo" = some ciRaw ∧ Tpm2.certInfo (Prog.run env askHashes) ciRaw = some ci ∧
      env.answer (.hash (Cose.algHash (getAlgorithm o.stmt)) (o.authData ++ h)) = .bytes ci.extraData ∧
      ci.encoded = some ciEnc ∧
      X509Sig.Checked env der c.key (Cose.algX509 (getAlgorithm o.stmt)) ciEnc (getSignature o.stmt) := by
  unfold verifyTPM at hr
  rw [Prog.run_bind] at hr
  cases hc : Prog.run env (unmarshalCertificates o.stmt) with
  | missing => rw [hc] at hr; cases hr
  | invalid => rw [hc] at hr; cases hr
  | ok certs =>
  rw [hc] at hr
  dsimp only at hr
  cases hci : stmtBytes o.stmt "certInfo" with
  | none => rw [hci] at hr; cases hr
  | some ciRaw =>
  rw [hci] at hr
  dsimp only at hr
  rw [Prog.run_bind] at hr
  cases hciv : Tpm2.certInfo (Prog.run env askHashes) ciRaw with
  | some ci =>
    rw [hciv] at hr
    dsimp only at hr
    cases hpa : stmtBytes o.stmt "pubArea" with
    | none => rw [hpa] at hr; cases hr
    | some paRaw =>
    rw [hpa] at hr
    dsimp only at hr
    cases hpav : Tpm2.pubArea paRaw with
    | some pa =>
      rw [hpav] at hr
      dsimp only at hr
      cases had : attestedAuthData o with
      | none => rw [had] at hr; cases hr
      | some p =>
      obtain ⟨d, acd⟩ := p
      rw [had] at hr
      dsimp only at hr
      cases hk : credentialKey acd with
      | none => rw [hk] at hr; cases hr
      | some k =>
      rw [hk] at hr
      dsimp only at hr
      cases hpk : pa.key with
      | none => rw [hpk] at hr; cases hr
      | some pk =>
      rw [hpk] at hr
      dsimp only at hr
      obtain ⟨-, hr⟩ := run_guard _ _ _ _ hr
      obtain ⟨-, hr⟩ := run_guard _ _ _ _ hr
      obtain ⟨-, hr⟩ := run_guard _ _ _ _ hr
      obtain ⟨hhash, hr⟩ := run_guardM _ _ _ _ hr
      rw [run_hashIsEqual] at hhash
      cases hpe : pa.encoded with
      | none => rw [hpe] at hr; cases hr
      | some paEnc =>
      rw [hpe] at hr
      dsimp only at hr
      obtain ⟨-, hr⟩ := run_guard _ _ _ _ hr
      cases hn : ci.name with
      | digest nameAlg nameVal =>
        rw [hn] at hr
        dsimp only at hr
        obtain ⟨-, hr⟩ := run_guard _ _ _ _ hr
        cases hah : Tpm2.hashOf (Prog.run env askHashes) nameAlg with
        | some hid =>
          rw [hah] at hr
          dsimp only at hr
          obtain ⟨-, hr⟩ := run_guardM _ _ _ _ hr
          cases hce : ci.encoded with
          | none => rw [hce] at hr; cases hr
          | some ciEnc =>
          rw [hce] at hr
          dsimp only at hr
          cases certs with
          | nil => cases hr
          | cons p rest =>
          obtain ⟨der, c⟩ := p
          dsimp only at hr
          obtain ⟨hsig, hr⟩ := run_guardM _ _ _ _ hr
          rw [X509SigLemmas.run_certCheckSig] at hsig
          obtain ⟨-, hr⟩ := run_guard _ _ _ _ hr
          obtain ⟨-, hr⟩ := run_guard _ _ _ _ hr
          obtain ⟨-, hr⟩ := run_guard _ _ _ _ hr
          obtain ⟨-, hr⟩ := run_guard _ _ _ _ hr
          exact ⟨der, c, rest, ciRaw, ci, ciEnc, rfl, (Option.some.inj hr).symm, rfl, hciv, hhash, hce, hsig⟩
        | none => rw [hah] at hr; cases hr
      | _ => rw [hn] at hr; cases hr
    | none => rw [hpav] at hr; cases hr
  | none => rw [hciv] at hr; cases hr
/-! ### user-facing binding statements -/

/-- the certificates reported by `unmarshalCertificates` are the `x509.ParseCertificate` views of their DER bytes -/
theorem parseCerts_parsed (env : Prog.Env) : ∀ (xs : List Cbor.Value) (cs : List (Bytes × CertView)),
    Prog.run env (parseCerts xs) = some cs → ∀ p ∈ cs, env.answer (.x509Parse p.1) = .cert p.2 := by
  intro xs
  induction xs with
  | nil =>
    intro cs h p hp
    simp only [parseCerts, Prog.run_pure, Option.some.injEq] at h
    subst h; cases hp
  | cons v rest ih =>
    intro cs h p hp
    unfold parseCerts at h
    cases hv : Cbor.asBytes v with
    | none => rw [hv] at h; cases h
    | some der =>
      rw [hv] at h
      dsimp only at h
      rw [Prog.run_bind] at h
      cases hc : Prog.run env (askCert der) with
      | none => rw [hc] at h; cases h
      | some c =>
        rw [hc] at h
        dsimp only at h
        rw [Prog.run_bind] at h
        cases hrest : Prog.run env (parseCerts rest) with
        | none => rw [hrest] at h; cases h
        | some cs' =>
          rw [hrest] at h
          simp only [Prog.run_pure, Option.some.injEq] at h
          subst h
          rcases List.mem_cons.1 hp with rfl | hp
          · exact (run_askCert _ _ _).1 hc
          · exact ih cs' hrest p hp

theorem certs_parsed (env : Prog.Env) (stmt : List (Bytes × Cbor.Value)) (cs : List (Bytes × CertView))
    (h : Prog.run env (unmarshalCertificates stmt) = .ok cs) : ∀ p ∈ cs, env.answer (.x509Parse p.1) = .cert p.2 := by
  unfold unmarshalCertificates at h
  cases hx : Cbor.stmtGet stmt "x5c" with
  | none => rw [hx] at h; cases h
  | some v =>
    rw [hx] at h
    dsimp only at h
    cases ha : Cbor.asArray v with
    | none => rw [ha] at h; cases h
    | some xs =>
      rw [ha] at h
      dsimp only at h
      rw [Prog.run_bind] at h
      cases hp : Prog.run env (parseCerts xs) with
      | none => rw [hp] at h; cases h
      | some cs' =>
        rw [hp] at h
        simp only [Prog.run_pure, Certs.ok.injEq] at h
        subst h
        exact parseCerts_parsed env xs cs' hp

theorem packed_x5c_binding (env : Prog.Env) (o : AttObj) (h : Bytes) (res : Result)
    (hx : Cbor.stmtGet o.stmt "x5c" ≠ none) (hr : Prog.run env (verifyPacked o h) = some res) :
    ∃ der c rest, res.x5c = der :: rest ∧ env.answer (.x509Parse der) = .cert c ∧
      X509Sig.Checked env der c.key (Cose.algX509 (getAlgorithm o.stmt)) (o.authData ++ h) (getSignature o.stmt) := by
  obtain ⟨der, c, rest, hc, rfl, hs⟩ := packed_x5c_core env o h res hx hr
  exact ⟨der, c, _, rfl, certs_parsed env _ _ hc (der, c) (List.mem_cons_self ..), hs⟩

theorem packed_self_binding (env : Prog.Env) (o : AttObj) (h : Bytes) (res : Result)
    (hx : Cbor.stmtGet o.stmt "x5c" = none) (hr : Prog.run env (verifyPacked o h) = some res) :
    ∃ d acd k sc hh, attestedAuthData o = some (d, acd) ∧ credentialKey acd = some k ∧ Cose.verifyParams k = some (sc, hh) ∧
      env.answer (.sigVerify sc hh k.material (o.authData ++ h) (getSignature o.stmt)) = .bool true := by
  obtain ⟨-, d, acd, k, sc, hh, h1, h2, -, h3, h4⟩ := packed_self_core env o h res hx hr
  exact ⟨d, acd, k, sc, hh, h1, h2, h3, h4⟩

theorem u2f_binding (env : Prog.Env) (o : AttObj) (h : Bytes) (res : Result)
    (hr : Prog.run env (verifyU2F o h) = some res) :
    ∃ der c d acd alg crv x y, res.x5c = [der] ∧ env.answer (.x509Parse der) = .cert c ∧
      attestedAuthData o = some (d, acd) ∧ credentialKey acd = some (.ec2 alg crv x y) ∧
      X509Sig.Checked env der c.key (Cose.algX509 alg) (u2fMessage d.rpIdHash h acd.credentialId x y) (getSignature o.stmt) := by
  obtain ⟨der, c, d, acd, alg, crv, x, y, hc, rfl, h1, h2, h3, -⟩ := u2f_core env o h res hr
  exact ⟨der, c, d, acd, alg, crv, x, y, rfl, certs_parsed env _ _ hc (der, c) (List.mem_cons_self ..), h1, h2, h3⟩

theorem androidKey_binding (env : Prog.Env) (o : AttObj) (h : Bytes) (res : Result)
    (hr : Prog.run env (verifyAndroidKey o h) = some res) :
    ∃ der c rest, res.x5c = der :: rest ∧ env.answer (.x509Parse der) = .cert c ∧
      X509Sig.Checked env der c.key (Cose.algX509 (getAlgorithm o.stmt)) (o.authData ++ h) (getSignature o.stmt) := by
  obtain ⟨der, c, rest, hc, rfl, hs⟩ := androidKey_core env o h res hr
  exact ⟨der, c, _, rfl, certs_parsed env _ _ hc (der, c) (List.mem_cons_self ..), hs⟩

theorem tpm_binding (env : Prog.Env) (o : AttObj) (h : Bytes) (res : Result)
    (hr : Prog.run env (verifyTPM o h) = some res) :
    ∃ der c rest ciRaw ci ciEnc, res.x5c = der :: rest ∧ env.answer (.x509Parse der) = .cert c ∧
      stmtBytes o.stmt "certInfo" = some ciRaw ∧
      Tpm2.certInfo (Prog.run env askHashes) ciRaw = some ci ∧
      env.answer (.hash (Cose.algHash (getAlgorithm o.stmt)) (o.authData ++ h)) = .bytes ci.extraData ∧
      ci.encoded = some ciEnc ∧
      X509Sig.Checked env der c.key (Cose.algX509 (getAlgorithm o.stmt)) ciEnc (getSignature o.stmt) := by
  obtain ⟨der, c, rest, ciRaw, ci, ciEnc, hc, rfl, h1, h2, h3, h4, h5⟩ := tpm_core env o h res hr
  exact ⟨der, c, _, ciRaw, ci, ciEnc, rfl, certs_parsed env _ _ hc (der, c) (List.mem_cons_self ..), h1, h2, h3, h4, h5⟩

theorem apple_binding (env : Prog.Env) (o : AttObj) (h : Bytes) (res : Result)
    (hr : Prog.run env (verifyApple o h) = some res) :
    ∃ der rest c e, res.x5c = der :: rest ∧ env.answer (.x509Parse der) = .cert c ∧
      findExt c Generated.Core.oidAppleNonce = some e ∧
      KeyDesc.appleNonce e.value = some (Spec.sha256 env (o.authData ++ h)) := by
  obtain ⟨der, c, rest, e, hc, rfl, h1, h2⟩ := apple_core env o h res hr
  exact ⟨der, _, c, e, rfl, certs_parsed env _ _ hc (der, c) (List.mem_cons_self ..), h1, h2⟩

theorem safetyNet_binding (env : Prog.Env) (o : AttObj) (h : Bytes) (res : Result)
    (hr : Prog.run env (verifySafetyNet o h) = some res) :
    ∃ raw nonce, stmtBytes o.stmt "response" = some raw ∧ Spec.Att.SafetyNetResponse env raw nonce ∧
      nonce = Spec.sha256 env (o.authData ++ h) := by
  obtain ⟨raw, nonce, h1, h2, h3, -⟩ := safetyNet_core env o h res hr
  exact ⟨raw, nonce, h1, h2, h3⟩

/-! ### binding under the idealised hypotheses -/

theorem unmarshal_rpIdHash_length (b : Bytes) (d : AuthData) (rest : Bytes) (h : unmarshalAuthData b = some (d, rest)) :
    d.rpIdHash.length = 32 := by
  unfold unmarshalAuthData at h
  split at h
  · cases h
  · rename_i hlen
    have hl : (List.take Generated.Core.rpIdHashSize b).length = 32 := by
      rw [List.length_take]; simp only [Generated.Core.rpIdHashSize] at hlen ⊢; omega
    dsimp only at h
    split at h
    · cases h
    · split at h
      · cases h
      · split at h
        · cases h
        · split at h
          · cases h
          · split at h
            · split at h
              · cases h
              · cases h; exact hl
            · cases h; exact hl

theorem attested_rpIdHash_length (o : AttObj) (d : AuthData) (acd : AttestedCredentialData)
    (h : attestedAuthData o = some (d, acd)) : d.rpIdHash.length = 32 := by
  unfold attestedAuthData at h
  split at h
  · rename_i d' r hd
    split at h
    · cases h; exact unmarshal_rpIdHash_length _ _ _ hd
    · cases h
  · cases h
open Spec.Att in
theorem packed_x5c_binds (env : Prog.Env) (hb : SigBinds env) (o o' : AttObj) (h h' : Bytes) (res res' : Result)
    (hs : o'.stmt = o.stmt) (hl : h.length = h'.length) (hx : Cbor.stmtGet o.stmt "x5c" ≠ none)
    (hr : Prog.run env (verifyPacked o h) = some res) (hr' : Prog.run env (verifyPacked o' h') = some res') :
    o.authData = o'.authData ∧ h = h' := by
  obtain ⟨der, c, rest, hc, -, hsig⟩ := packed_x5c_core env o h res hx hr
  obtain ⟨der', c', rest', hc', -, hsig'⟩ := packed_x5c_core env o' h' res' (hs ▸ hx) hr'
  rw [hs] at hc' hsig'
  have e := hc.symm.trans hc'
  simp only [Certs.ok.injEq, List.cons.injEq, Prod.mk.injEq] at e
  obtain ⟨⟨rfl, rfl⟩, -⟩ := e
  exact concat_hash_inj _ _ _ _ hl (X509SigLemmas.checked_binds hb hsig hsig')

theorem verifyParams_congr (k k' : Cose.Key) (ha : k.alg = k'.alg) (hm : k.material = k'.material) :
    Cose.verifyParams k = Cose.verifyParams k' := by
  cases k <;> cases k' <;> simp only [Cose.Key.material, reduceCtorEq] at hm
  · simp only [Cose.Key.alg] at ha; subst ha; rfl
  · rfl
  · simp only [Cose.Key.alg] at ha; subst ha; rfl

open Spec.Att in
/-- self attestation binds `authData ‖ hash` only relative to the credential key (which is itself taken from `authData`) -/
theorem packed_self_binds_partial (env : Prog.Env) (hb : SigBinds env) (o o' : AttObj) (h h' : Bytes) (res res' : Result)
    (hs : o'.stmt = o.stmt) (hl : h.length = h'.length) (hx : Cbor.stmtGet o.stmt "x5c" = none)
    (hk : ∀ d acd k d' acd' k', attestedAuthData o = some (d, acd) → credentialKey acd = some k →
      attestedAuthData o' = some (d', acd') → credentialKey acd' = some k' → k.material = k'.material)
    (hr : Prog.run env (verifyPacked o h) = some res) (hr' : Prog.run env (verifyPacked o' h') = some res') :
    o.authData = o'.authData ∧ h = h' := by
  obtain ⟨-, d, acd, k, sc, hh, h1, h2, h3, h4, h5⟩ := packed_self_core env o h res hx hr
  obtain ⟨-, d', acd', k', sc', hh', h1', h2', h3', h4', h5'⟩ := packed_self_core env o' h' res' (hs ▸ hx) hr'
  rw [hs] at h3' h5'
  have hm := hk _ _ _ _ _ _ h1 h2 h1' h2'
  have hp := verifyParams_congr k k' (h3.symm.trans h3') hm
  rw [h4, h4'] at hp
  simp only [Option.some.injEq, Prod.mk.injEq] at hp
  obtain ⟨rfl, rfl⟩ := hp
  rw [← hm] at h5'
  exact concat_hash_inj _ _ _ _ hl (hb.2 _ _ _ _ _ _ h5 h5')

open Spec.Att in
theorem packed_binds_partial (env : Prog.Env) (hb : SigBinds env) (o o' : AttObj) (h h' : Bytes) (res res' : Result)
    (hs : o'.stmt = o.stmt) (hl : h.length = h'.length)
    (hk : Cbor.stmtGet o.stmt "x5c" = none → ∀ d acd k d' acd' k', attestedAuthData o = some (d, acd) → credentialKey acd = some k →
      attestedAuthData o' = some (d', acd') → credentialKey acd' = some k' → k.material = k'.material)
    (hr : Prog.run env (verifyPacked o h) = some res) (hr' : Prog.run env (verifyPacked o' h') = some res') :
    o.authData = o'.authData ∧ h = h' := by
  by_cases hx : Cbor.stmtGet o.stmt "x5c" = none
  · exact packed_self_binds_partial env hb o o' h h' res res' hs hl hx (hk hx) hr hr'
  · exact packed_x5c_binds env hb o o' h h' res res' hs hl hx hr hr'

open Spec.Att in
theorem androidKey_binds (env : Prog.Env) (hb : SigBinds env) (o o' : AttObj) (h h' : Bytes) (res res' : Result)
    (hs : o'.stmt = o.stmt) (hl : h.length = h'.length)
    (hr : Prog.run env (verifyAndroidKey o h) = some res) (hr' : Prog.run env (verifyAndroidKey o' h') = some res') :
    o.authData = o'.authData ∧ h = h' := by
  obtain ⟨der, c, rest, hc, -, hsig⟩ := androidKey_core env o h res hr
  obtain ⟨der', c', rest', hc', -, hsig'⟩ := androidKey_core env o' h' res' hr'
  rw [hs] at hc' hsig'
  have e := hc.symm.trans hc'
  simp only [Certs.ok.injEq, List.cons.injEq, Prod.mk.injEq] at e
  obtain ⟨⟨rfl, rfl⟩, -⟩ := e
  exact concat_hash_inj _ _ _ _ hl (X509SigLemmas.checked_binds hb hsig hsig')

open Spec.Att in
theorem tpm_binds (env : Prog.Env) (hi : HashInj env) (o o' : AttObj) (h h' : Bytes) (res res' : Result)
    (hs : o'.stmt = o.stmt) (hl : h.length = h'.length)
    (hr : Prog.run env (verifyTPM o h) = some res) (hr' : Prog.run env (verifyTPM o' h') = some res') :
    o.authData = o'.authData ∧ h = h' := by
  obtain ⟨-, -, -, ciRaw, ci, -, -, -, h1, h2, h3, -, -⟩ := tpm_core env o h res hr
  obtain ⟨-, -, -, ciRaw', ci', -, -, -, h1', h2', h3', -, -⟩ := tpm_core env o' h' res' hr'
  rw [hs] at h1' h3'
  obtain rfl : ciRaw = ciRaw' := Option.some.inj (h1.symm.trans h1')
  obtain rfl : ci = ci' := by
    have := h2.symm.trans h2'
    simpa using this
  exact concat_hash_inj _ _ _ _ hl (hi.2 _ _ _ _ h3 h3')

open Spec.Att in
theorem sha_inj (env : Prog.Env) (hi : HashInj env) (m m' : Bytes)
    (hd : ∃ v, env.answer (.sha256 m) = .bytes v) (hd' : ∃ v, env.answer (.sha256 m') = .bytes v)
    (e : Spec.sha256 env m = Spec.sha256 env m') : m = m' := by
  obtain ⟨v, hv⟩ := hd
  obtain ⟨v', hv'⟩ := hd'
  simp only [Spec.sha256, hv, hv'] at e
  subst e
  exact hi.1 _ _ _ hv hv'

theorem sha_answered_of_ne_nil (env : Prog.Env) (m : Bytes) (h : Spec.sha256 env m ≠ []) :
    ∃ v, env.answer (.sha256 m) = .bytes v := by
  unfold Spec.sha256 at h
  split at h
  · exact ⟨_, by assumption⟩
  · exact absurd rfl h

open Spec.Att in
theorem apple_binds_partial (env : Prog.Env) (hi : HashInj env) (o o' : AttObj) (h h' : Bytes) (res res' : Result)
    (hs : o'.stmt = o.stmt) (hl : h.length = h'.length)
    (hd : ∃ v, env.answer (.sha256 (o.authData ++ h)) = .bytes v)
    (hd' : ∃ v, env.answer (.sha256 (o'.authData ++ h')) = .bytes v)
    (hr : Prog.run env (verifyApple o h) = some res) (hr' : Prog.run env (verifyApple o' h') = some res') :
    o.authData = o'.authData ∧ h = h' := by
  obtain ⟨der, c, rest, e, hc, -, he, hn⟩ := apple_core env o h res hr
  obtain ⟨der', c', rest', e', hc', -, he', hn'⟩ := apple_core env o' h' res' hr'
  rw [hs] at hc'
  have ec := hc.symm.trans hc'
  simp only [Certs.ok.injEq, List.cons.injEq, Prod.mk.injEq] at ec
  obtain ⟨⟨rfl, rfl⟩, -⟩ := ec
  obtain rfl : e = e' := Option.some.inj (he.symm.trans he')
  have := hn.symm.trans hn'
  simp only [Option.some.injEq] at this
  exact concat_hash_inj _ _ _ _ hl (sha_inj env hi _ _ hd hd' this)

open Spec.Att in
/-- variant: it is enough that the nonce in the certificate is non-empty -/
theorem apple_binds_of_nonce_ne_nil (env : Prog.Env) (hi : HashInj env) (o o' : AttObj) (h h' : Bytes) (res res' : Result)
    (hs : o'.stmt = o.stmt) (hl : h.length = h'.length)
    (hne : Spec.sha256 env (o.authData ++ h) ≠ [])
    (hr : Prog.run env (verifyApple o h) = some res) (hr' : Prog.run env (verifyApple o' h') = some res') :
    o.authData = o'.authData ∧ h = h' := by
  obtain ⟨der, c, rest, e, hc, -, he, hn⟩ := apple_core env o h res hr
  obtain ⟨der', c', rest', e', hc', -, he', hn'⟩ := apple_core env o' h' res' hr'
  rw [hs] at hc'
  have ec := hc.symm.trans hc'
  simp only [Certs.ok.injEq, List.cons.injEq, Prod.mk.injEq] at ec
  obtain ⟨⟨rfl, rfl⟩, -⟩ := ec
  obtain rfl : e = e' := Option.some.inj (he.symm.trans he')
  have := hn.symm.trans hn'
  simp only [Option.some.injEq] at this
  exact apple_binds_partial env hi o o' h h' res res' hs hl (sha_answered_of_ne_nil _ _ hne)
    (sha_answered_of_ne_nil _ _ (this ▸ hne)) hr hr'

open Spec.Att in
theorem safetyNet_binds_partial (env : Prog.Env) (hi : HashInj env) (o o' : AttObj) (h h' : Bytes) (res res' : Result)
    (hs : o'.stmt = o.stmt) (hl : h.length = h'.length)
    (hd : ∃ v, env.answer (.sha256 (o.authData ++ h)) = .bytes v)
    (hd' : ∃ v, env.answer (.sha256 (o'.authData ++ h')) = .bytes v)
    (hr : Prog.run env (verifySafetyNet o h) = some res) (hr' : Prog.run env (verifySafetyNet o' h') = some res') :
    o.authData = o'.authData ∧ h = h' := by
  obtain ⟨raw, nonce, h1, h2, h3, -⟩ := safetyNet_core env o h res hr
  obtain ⟨raw', nonce', h1', h2', h3', -⟩ := safetyNet_core env o' h' res' hr'
  rw [hs] at h1'
  obtain rfl : raw = raw' := Option.some.inj (h1.symm.trans h1')
  have hn := safetyNetResponse_nonce_unique env raw nonce nonce' h2 h2'
  rw [h3, h3'] at hn
  exact concat_hash_inj _ _ _ _ hl (sha_inj env hi _ _ hd hd' hn)

open Spec.Att in
theorem safetyNet_binds_of_nonce_ne_nil (env : Prog.Env) (hi : HashInj env) (o o' : AttObj) (h h' : Bytes) (res res' : Result)
    (hs : o'.stmt = o.stmt) (hl : h.length = h'.length)
    (hne : Spec.sha256 env (o.authData ++ h) ≠ [])
    (hr : Prog.run env (verifySafetyNet o h) = some res) (hr' : Prog.run env (verifySafetyNet o' h') = some res') :
    o.authData = o'.authData ∧ h = h' := by
  obtain ⟨raw, nonce, h1, h2, h3, -⟩ := safetyNet_core env o h res hr
  obtain ⟨raw', nonce', h1', h2', h3', -⟩ := safetyNet_core env o' h' res' hr'
  rw [hs] at h1'
  obtain rfl : raw = raw' := Option.some.inj (h1.symm.trans h1')
  have hn := safetyNetResponse_nonce_unique env raw nonce nonce' h2 h2'
  rw [h3, h3'] at hn
  exact safetyNet_binds_partial env hi o o' h h' res res' hs hl (sha_answered_of_ne_nil _ _ hne)
    (sha_answered_of_ne_nil _ _ (hn ▸ hne)) hr hr'

open Spec.Att in
theorem u2f_binds (env : Prog.Env) (hb : SigBinds env) (o o' : AttObj) (h h' : Bytes) (res res' : Result)
    (hs : o'.stmt = o.stmt) (hl : h.length = h'.length)
    (hr : Prog.run env (verifyU2F o h) = some res) (hr' : Prog.run env (verifyU2F o' h') = some res') :
    ∃ d acd alg crv x y d' acd' alg' crv' x' y',
      attestedAuthData o = some (d, acd) ∧ credentialKey acd = some (.ec2 alg crv x y) ∧
      attestedAuthData o' = some (d', acd') ∧ credentialKey acd' = some (.ec2 alg' crv' x' y') ∧
      (Cose.algX509 alg = Cose.algX509 alg' →
        d.rpIdHash = d'.rpIdHash ∧ h = h' ∧ acd.credentialId = acd'.credentialId ∧ coord32 x = coord32 x' ∧ coord32 y = coord32 y') := by
  obtain ⟨der, c, d, acd, alg, crv, x, y, hc, -, h1, h2, h3, -⟩ := u2f_core env o h res hr
  obtain ⟨der', c', d', acd', alg', crv', x', y', hc', -, h1', h2', h3', -⟩ := u2f_core env o' h' res' hr'
  rw [hs] at hc' h3'
  have ec := hc.symm.trans hc'
  simp only [Certs.ok.injEq, List.cons.injEq, Prod.mk.injEq] at ec
  obtain ⟨⟨rfl, rfl⟩, -⟩ := ec
  refine ⟨d, acd, alg, crv, x, y, d', acd', alg', crv', x', y', h1, h2, h1', h2', fun ha => ?_⟩
  rw [← ha] at h3'
  exact u2fMessage_inj _ _ _ _ _ _ _ _ _ _
    ((attested_rpIdHash_length _ _ _ h1).trans (attested_rpIdHash_length _ _ _ h1').symm) hl (X509SigLemmas.checked_binds hb h3 h3')


theorem stripZeros_idem (b : Bytes) : Bytes.stripZeros (Bytes.stripZeros b) = Bytes.stripZeros b := by
  induction b with
  | nil => rfl
  | cons a l ih =>
    by_cases ha : a = 0
    · simp only [Bytes.stripZeros, ha, if_true]; exact ih
    · simp only [Bytes.stripZeros, ha, if_false]

theorem stripZeros_replicate_append (n : Nat) (m : Bytes) :
    Bytes.stripZeros (List.replicate n 0 ++ m) = Bytes.stripZeros m := by
  induction n with
  | zero => simp
  | succ k ih => simp only [List.replicate_succ, List.cons_append, Bytes.stripZeros, if_true]; exact ih

/-- a coordinate that fits 32 bytes: its 32-byte form is the left-padded magnitude, and stripping the padding gives the magnitude back -/
theorem stripZeros_coord32_of_fit (b : Bytes) (hb : (Bytes.stripZeros b).length ≤ 32) :
    Bytes.stripZeros (coord32 b) = Bytes.stripZeros b := by
  unfold coord32
  simp only
  split
  · rw [List.take_of_length_le hb]; exact stripZeros_idem b
  · rw [stripZeros_replicate_append]; exact stripZeros_idem b

/-- a coordinate that fits 32 bytes is recovered from its 32-byte form: equal forms, equal numbers -/
theorem coord32_inj_of_fit (x x' : Bytes) (hx : (Bytes.stripZeros x).length ≤ 32) (hx' : (Bytes.stripZeros x').length ≤ 32)
    (h : coord32 x = coord32 x') : Bytes.stripZeros x = Bytes.stripZeros x' := by
  rw [← stripZeros_coord32_of_fit x hx, ← stripZeros_coord32_of_fit x' hx', h]

open Spec.Att in
/-- fido-u2f, as the property states it: under `SigBinds`, two accepted statements with the same statement map and the same signature
    algorithm have the same RP ID hash, client-data hash, credential id AND THE SAME PUBLIC-KEY POINT (the coordinates as numbers) —
    the point the relying party stores is the one the attestation key vouched for.  (Before the repair of D15 only the leading 32
    bytes of each coordinate were bound.) -/
theorem u2f_binds_point (env : Prog.Env) (hb : SigBinds env) (o o' : AttObj) (h h' : Bytes) (res res' : Result)
    (hs : o'.stmt = o.stmt) (hl : h.length = h'.length)
    (hr : Prog.run env (verifyU2F o h) = some res) (hr' : Prog.run env (verifyU2F o' h') = some res') :
    ∃ d acd alg crv x y d' acd' alg' crv' x' y',
      attestedAuthData o = some (d, acd) ∧ credentialKey acd = some (.ec2 alg crv x y) ∧
      attestedAuthData o' = some (d', acd') ∧ credentialKey acd' = some (.ec2 alg' crv' x' y') ∧
      crv = 1 ∧ crv' = 1 ∧
      (Cose.algX509 alg = Cose.algX509 alg' →
        d.rpIdHash = d'.rpIdHash ∧ h = h' ∧ acd.credentialId = acd'.credentialId ∧
        Bytes.stripZeros x = Bytes.stripZeros x' ∧ Bytes.stripZeros y = Bytes.stripZeros y') := by
  obtain ⟨der, c, d, acd, alg, crv, x, y, hc, -, h1, h2, h3, hf⟩ := u2f_core env o h res hr
  obtain ⟨der', c', d', acd', alg', crv', x', y', hc', -, h1', h2', h3', hf'⟩ := u2f_core env o' h' res' hr'
  simp only [u2fCoordinatesFit, Bool.and_eq_true, decide_eq_true_eq] at hf hf'
  obtain ⟨⟨hcrv, hx⟩, hy⟩ := hf
  obtain ⟨⟨hcrv', hx'⟩, hy'⟩ := hf'
  rw [hs] at hc' h3'
  have ec := hc.symm.trans hc'
  simp only [Certs.ok.injEq, List.cons.injEq, Prod.mk.injEq] at ec
  obtain ⟨⟨rfl, rfl⟩, -⟩ := ec
  refine ⟨d, acd, alg, crv, x, y, d', acd', alg', crv', x', y', h1, h2, h1', h2', hcrv, hcrv', fun ha => ?_⟩
  rw [← ha] at h3'
  obtain ⟨e1, e2, e3, e4, e5⟩ := u2fMessage_inj _ _ _ _ _ _ _ _ _ _
    ((attested_rpIdHash_length _ _ _ h1).trans (attested_rpIdHash_length _ _ _ h1').symm) hl (X509SigLemmas.checked_binds hb h3 h3')
  exact ⟨e1, e2, e3, coord32_inj_of_fit x x' hx hx' e4, coord32_inj_of_fit y y' hy hy' e5⟩

/-! ### non-vacuity of the idealised hypotheses -/

def idealEnv : Prog.Env := ⟨fun q => match q with
  | .sha256 d => .bytes d
  | .hash _ d => .bytes d
  | .x509CheckSig _ _ m sg => .bool (m == sg)
  | .sigVerify _ _ _ m sg => .bool (m == sg)
  | _ => .none⟩

open Spec.Att in
theorem idealEnv_ok : SigBinds idealEnv ∧ HashInj idealEnv := by
  refine ⟨⟨?_, ?_⟩, ⟨?_, ?_⟩⟩
  · intro der alg m m' sg h1 h2
    simp only [idealEnv, Resp.bool.injEq, beq_iff_eq] at h1 h2
    exact h1.trans h2.symm
  · intro sc hh k m m' sg h1 h2
    simp only [idealEnv, Resp.bool.injEq, beq_iff_eq] at h1 h2
    exact h1.trans h2.symm
  · intro d d' v h1 h2
    simp only [idealEnv, Resp.bytes.injEq] at h1 h2
    exact h1.trans h2.symm
  · intro id d d' v h1 h2
    simp only [idealEnv, Resp.bytes.injEq] at h1 h2
    exact h1.trans h2.symm
/-- NON-VACUITY: an environment satisfying both idealised hypotheses exists -/
example : ∃ env : Prog.Env, Spec.Att.SigBinds env ∧ Spec.Att.HashInj env := ⟨idealEnv, idealEnv_ok⟩

/-! ### counterexamples to the unrestricted `packed` / `apple` / `android-safetynet` binding statements -/
namespace Counter
open Spec.Att

def zeros (n : Nat) : Bytes := List.replicate n 0
/-- an OKP (Ed25519) COSE key with public key `k` -/
def keyBytes (k : Bytes) : Bytes := [0xa4, 0x01, 0x01, 0x03, 0x27, 0x20, 0x06, 0x21, 0x58, 0x20] ++ k
/-- authenticator data: zero RP ID hash, flags UP|AT, counter `cnt`, zero AAGUID, credential id `[7]`, key `k` -/
def authData (cnt : UInt8) (k : Bytes) : Bytes :=
  zeros 32 ++ [0x41] ++ [0, 0, 0, cnt] ++ zeros 16 ++ [0, 1] ++ [7] ++ keyBytes k

/-- extension value `SEQUENCE { [1] EXPLICIT { OCTET STRING "" } }`: the Apple nonce extension carrying the empty nonce -/
def appleNonceExt : Bytes := [0x30, 0x04, 0xA1, 0x02, 0x04, 0x00]

theorem appleNonceExt_nonce : KeyDesc.appleNonce appleNonceExt = some [] := by
  with_unfolding_all rfl

/-- SHA-256 is unavailable (answers `.none`): `Spec.sha256`/`Att.sha256` then yield `[]` for every input -/
def noShaEnv : Prog.Env := ⟨fun q => match q with
  | .safetyNet _ => .safetyNet ⟨true, true, true, []⟩
  | .x509Parse _ => .cert ⟨3, false, [], [], [], [], [⟨Generated.Core.oidAppleNonce, false, appleNonceExt⟩], [], .ed (zeros 32)⟩
  | _ => .none⟩

theorem noShaEnv_ok : SigBinds noShaEnv ∧ HashInj noShaEnv := by
  refine ⟨⟨?_, ?_⟩, ⟨?_, ?_⟩⟩
  · intro der alg m m' sg h1; cases h1
  · intro sc hh k m m' sg h1; cases h1
  · intro d d' v h1; cases h1
  · intro id d d' v h1; cases h1

/-- a response in the JSON serialisation (first byte '{'): the form answered by the opaque dependency view -/
def snStmt : List (Bytes × Cbor.Value) := [(Att.s "response", .bytes [123])]

theorem safetyNet_accepts (ad : Bytes) :
    Prog.run noShaEnv (verifySafetyNet ⟨[], ad, snStmt⟩ []) = some ⟨"Basic", []⟩ := by
  with_unfolding_all rfl

/-- a compact token `base64url({"alg":"EdDSA","x5c":["AA=="]}) . base64url({}) . ""`: one x5c entry, empty claims (nonce absent = empty) -/
def snCompactStmt : List (Bytes × Cbor.Value) := [(Att.s "response", .bytes (Bytes.ofString "eyJhbGciOiJFZERTQSIsIng1YyI6WyJBQT09Il19.e30."))]

/-- the dependencies answer positively: the x5c entry is a certificate with an Ed25519 key, it validates for the SafetyNet host name,
    the Ed25519 check over the signing input succeeds; SHA-256 is unavailable (so the expected nonce is empty) -/
def snCompactEnv : Prog.Env := ⟨fun q => match q with
  | .x509Parse _ => .cert ⟨3, false, [], [], [], [], [], [], .ed (zeros 32)⟩
  | .x509Verify .. => .bool true
  | .sigVerify .eddsa _ _ _ _ => .bool true
  | _ => .none⟩

theorem safetyNet_compact_parse :
    (match Jws.parse (Bytes.ofString "eyJhbGciOiJFZERTQSIsIng1YyI6WyJBQT09Il19.e30.") with
     | .ok c => c.x5c == [[0]] && c.payload == Bytes.ofString "{}" && c.signature == [] && c.verifiable && c.alg == Bytes.ofString "EdDSA" &&
                c.signingInput == Bytes.ofString "eyJhbGciOiJFZERTQSIsIng1YyI6WyJBQT09Il19.e30" && Jws.claims c.payload == some [] &&
                Jws.verifyPlan c.alg (.ed (zeros 32)) c.signature == .primitive .eddsa 0 []
     | _ => false) = true := by
  decide +kernel

/-- non-vacuity of the compact branch: the Lean JWS model takes this token through header decoding, x5c decoding, the choice of the
    signature primitive (Ed25519 over the signing input), claims decoding and the nonce comparison -/
theorem safetyNet_accepts_compact (ad : Bytes) :
    Prog.run snCompactEnv (verifySafetyNet ⟨[], ad, snCompactStmt⟩ []) = some ⟨"Basic", []⟩ := by
  have hp := safetyNet_compact_parse
  have hraw : stmtBytes snCompactStmt "response" = some (Bytes.ofString "eyJhbGciOiJFZERTQSIsIng1YyI6WyJBQT09Il19.e30.") := by decide +kernel
  rw [JwsLemmas.verifySafetyNet_iff]
  cases hc : Jws.parse (Bytes.ofString "eyJhbGciOiJFZERTQSIsIng1YyI6WyJBQT09Il19.e30.") with
  | ok c =>
    rw [hc] at hp
    simp only [Bool.and_eq_true, beq_iff_eq] at hp
    obtain ⟨⟨⟨⟨⟨⟨⟨hx, -⟩, -⟩, hv⟩, -⟩, -⟩, hcl⟩, hpl⟩ := hp
    refine ⟨_, [], hraw, Spec.Att.SafetyNetResponse.compact c [0]
      ⟨3, false, [], [], [], [], [], [], .ed (zeros 32)⟩ [] hc ?_ rfl ⟨hv, ?_⟩ hcl, rfl, rfl⟩
    · rw [hx]
      exact ⟨rfl, rfl, trivial⟩
    · show match Jws.verifyPlan c.alg (.ed (zeros 32)) c.signature with
        | .reject => False
        | .primitive sc hh sig => snCompactEnv.answer (.sigVerify sc hh (.ed (zeros 32)) c.signingInput sig) = .bool true
        | .«opaque» => snCompactEnv.answer (.jwsVerify _ [0]) = .bool true
      rw [hpl]
      rfl
  | error => rw [hc] at hp; cases hp
  | unmodelled => rw [hc] at hp; cases hp

/-- `safetyNet_binds` without an extra hypothesis is FALSE: with SHA-256 unavailable (so `HashInj` holds vacuously for it)
    the empty nonce matches every authenticator data -/
theorem safetyNet_binds_false :
    ¬ ∀ (env : Prog.Env) (_ : HashInj env) (o o' : AttObj) (h h' : Bytes) (res res' : Result)
        (_ : o'.stmt = o.stmt) (_ : o'.fmt = o.fmt) (_ : h.length = h'.length)
        (_ : Prog.run env (verifySafetyNet o h) = some res) (_ : Prog.run env (verifySafetyNet o' h') = some res'),
        o.authData = o'.authData ∧ h = h' := by
  intro H
  have := (H noShaEnv noShaEnv_ok.2 ⟨[], [1], snStmt⟩ ⟨[], [2], snStmt⟩ [] [] _ _ rfl rfl rfl
    (safetyNet_accepts [1]) (safetyNet_accepts [2])).1
  cases this

def appleStmt : List (Bytes × Cbor.Value) := [(Att.s "x5c", .array [.bytes [1]])]

set_option maxRecDepth 100000 in
theorem apple_accepts0 :
    Prog.run noShaEnv (verifyApple ⟨[], authData 0 (zeros 32), appleStmt⟩ []) = some ⟨"AnonCA", [[1]]⟩ := by
  with_unfolding_all rfl
set_option maxRecDepth 100000 in
theorem apple_accepts1 :
    Prog.run noShaEnv (verifyApple ⟨[], authData 1 (zeros 32), appleStmt⟩ []) = some ⟨"AnonCA", [[1]]⟩ := by
  with_unfolding_all rfl

/-- `apple_binds` without an extra hypothesis is FALSE (same reason; the two authenticator data differ in the counter) -/
theorem apple_binds_false :
    ¬ ∀ (env : Prog.Env) (_ : HashInj env) (o o' : AttObj) (h h' : Bytes) (res res' : Result)
        (_ : o'.stmt = o.stmt) (_ : o'.fmt = o.fmt) (_ : h.length = h'.length)
        (_ : Prog.run env (verifyApple o h) = some res) (_ : Prog.run env (verifyApple o' h') = some res'),
        o.authData = o'.authData ∧ h = h' := by
  intro H
  have := (H noShaEnv noShaEnv_ok.2 ⟨[], authData 0 (zeros 32), appleStmt⟩ ⟨[], authData 1 (zeros 32), appleStmt⟩ [] [] _ _ rfl rfl rfl
    apple_accepts0 apple_accepts1).1
  exact absurd this (by decide)

/-- self attestation: every Ed25519 key `k` accepts exactly one message, the authenticator data carrying `k` itself -/
def selfEnv : Prog.Env := ⟨fun q => match q with
  | .sigVerify _ _ (.ed k) m _ => .bool (m == authData 0 k)
  | _ => .none⟩

theorem selfEnv_ok : SigBinds selfEnv ∧ HashInj selfEnv := by
  refine ⟨⟨?_, ?_⟩, ⟨?_, ?_⟩⟩
  · intro der alg m m' sg h1; cases h1
  · intro sc hh k m m' sg h1 h2
    cases k with
    | ed k =>
      simp only [selfEnv, Resp.bool.injEq, beq_iff_eq] at h1 h2
      exact h1.trans h2.symm
    | _ => cases h1
  · intro d d' v h1; cases h1
  · intro id d d' v h1; cases h1

def selfStmt : List (Bytes × Cbor.Value) := [(Att.s "alg", .nint 7)]
def ones : Bytes := List.replicate 32 1

set_option maxRecDepth 100000 in
theorem packed_self_accepts0 :
    Prog.run selfEnv (verifyPacked ⟨Att.s "packed", authData 0 (zeros 32), selfStmt⟩ []) = some ⟨"Self", []⟩ := by
  with_unfolding_all rfl
set_option maxRecDepth 100000 in
theorem packed_self_accepts1 :
    Prog.run selfEnv (verifyPacked ⟨Att.s "packed", authData 0 ones, selfStmt⟩ []) = some ⟨"Self", []⟩ := by
  with_unfolding_all rfl

/-- `packed_binds` without an extra hypothesis is FALSE: in self attestation the verification key is read from the
    authenticator data itself, so `SigBinds` (one message per key) does not relate two objects carrying different keys -/
theorem packed_binds_false :
    ¬ ∀ (env : Prog.Env) (_ : SigBinds env) (o o' : AttObj) (h h' : Bytes) (res res' : Result)
        (_ : o'.stmt = o.stmt) (_ : o'.fmt = o.fmt) (_ : h.length = h'.length)
        (_ : Prog.run env (verifyPacked o h) = some res) (_ : Prog.run env (verifyPacked o' h') = some res'),
        o.authData = o'.authData ∧ h = h' := by
  intro H
  have := (H selfEnv selfEnv_ok.1 ⟨Att.s "packed", authData 0 (zeros 32), selfStmt⟩ ⟨Att.s "packed", authData 0 ones, selfStmt⟩
    [] [] _ _ rfl rfl rfl packed_self_accepts0 packed_self_accepts1).1
  exact absurd this (by decide)

end Counter
end WebAuthn.C03

namespace WebAuthn.C03
open WebAuthn WebAuthn.Att

/-- SHA-256 is a total function of the environment (what `crypto/sha256` is): every question gets bytes -/
def ShaTotal (env : Prog.Env) : Prop := ∀ d, ∃ v, env.answer (.sha256 d) = .bytes v

/-- apple: under collision-freedom and totality of SHA-256, the statement binds the whole authenticator data and the client-data hash -/
theorem apple_binds (env : Prog.Env) (hi : Spec.Att.HashInj env) (ht : ShaTotal env) (o o' : AttObj) (h h' : Bytes) (res res' : Result)
    (hs : o'.stmt = o.stmt) (hl : h.length = h'.length)
    (hr : Prog.run env (verifyApple o h) = some res) (hr' : Prog.run env (verifyApple o' h') = some res') :
    o.authData = o'.authData ∧ h = h' :=
  apple_binds_partial env hi o o' h h' res res' hs hl (ht _) (ht _) hr hr'

/-- android-safetynet: likewise -/
theorem safetyNet_binds (env : Prog.Env) (hi : Spec.Att.HashInj env) (ht : ShaTotal env) (o o' : AttObj) (h h' : Bytes) (res res' : Result)
    (hs : o'.stmt = o.stmt) (hl : h.length = h'.length)
    (hr : Prog.run env (verifySafetyNet o h) = some res) (hr' : Prog.run env (verifySafetyNet o' h') = some res') :
    o.authData = o'.authData ∧ h = h' :=
  safetyNet_binds_partial env hi o o' h h' res res' hs hl (ht _) (ht _) hr hr'

end WebAuthn.C03
