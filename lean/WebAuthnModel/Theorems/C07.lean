import WebAuthnModel.Spec.History
import WebAuthnModel.Theorems.C01
import WebAuthnModel.Theorems.C02
import WebAuthnModel.Theorems.C06
/-
  C07 — histories of ceremonies against `InMemoryCredentialStorage` refine the reference state machine of
  `Spec.History` (state: id ↦ (owner, key)), for every environment and every finite history; and the
  reference machine has the binding properties of the statement (stutter on failure, no re-binding,
  stable owners, authentication against the current binding only).
-/
namespace WebAuthn.C07
open WebAuthn

/-! ### storage lemmas: the association list behaves as the map id ↦ (owner, key) -/

theorem abs_empty : Spec.abs [] = Spec.State.empty := rfl

theorem find_insert_self (st : Store) (c : Credential) :
    (st.insert c).find? (fun x => x.id == c.id) = some c := by
  simp [Store.insert]

theorem find_insert_other (st : Store) (c : Credential) (id : Bytes) (h : id ≠ c.id) :
    (st.insert c).find? (fun x => x.id == id) = st.find? (fun x => x.id == id) := by
  have hc : (c.id == id) = false := by
    simp only [beq_eq_false_iff_ne, ne_eq]; exact fun e => h e.symm
  simp only [Store.insert, List.find?_cons, hc, List.find?_filter]
  congr 1
  funext x
  by_cases hx : x.id = id
  · simp [hx, h]
  · simp [hx]

theorem abs_insert (st : Store) (c : Credential) :
    Spec.abs (st.insert c) = (Spec.abs st).bind c.id c.owner c.publicKey := by
  funext id
  unfold Spec.abs Spec.State.bind
  by_cases h : id = c.id
  · subst h
    rw [find_insert_self, if_pos rfl]; rfl
  · rw [find_insert_other st c id h, if_neg h]

theorem get_found_iff (st : Store) (id : Bytes) (c : Credential) :
    st.get id = .found c → c.id = id ∧ Spec.abs st id = some (c.owner, c.publicKey) := by
  unfold Store.get Spec.abs
  cases hf : st.find? (fun x => x.id == id) with
  | none => intro h; cases h
  | some x =>
    intro h
    cases h
    have := List.find?_some hf
    exact ⟨by simpa using this, rfl⟩

theorem get_notFound_iff (st : Store) (id : Bytes) : st.get id = .notFound ↔ Spec.abs st id = none := by
  unfold Store.get Spec.abs
  cases hf : st.find? (fun x => x.id == id) with
  | none => simp
  | some x => simp

/-- the storage never answers anything but `found` / `notFound` -/
theorem get_cases (st : Store) (id : Bytes) :
    (st.get id = .notFound ∧ Spec.abs st id = none) ∨
    ∃ c, st.get id = .found c ∧ c.id = id ∧ Spec.abs st id = some (c.owner, c.publicKey) := by
  cases hg : st.get id with
  | notFound => exact Or.inl ⟨rfl, (get_notFound_iff st id).1 hg⟩
  | found c => exact Or.inr ⟨c, rfl, get_found_iff st id c hg⟩
  | wrappedNotFound => unfold Store.get at hg; split at hg <;> cases hg
  | err => unfold Store.get at hg; split at hg <;> cases hg

/-! ### the reference machine, one step, as pure functions of the two decisions -/

/-- the registration decision of the reference machine is `C02.regPre`, read as an option -/
theorem regDecision_eq (env : Prog.Env) (rp : RP) (o : CreationOptions) (c : Attestation) (opts : List VerifyOption) :
    Spec.regDecision env rp o c opts =
      (match C02.regPre env rp o c opts with | .ok p => some p | .error _ => none) := by
  unfold Spec.regDecision Spec.regDecisionP C02.regPre
  simp only [Prog.run_bind]
  generalize (Prog.run env (verifyRegistration rp o c opts (fun _ => .notFound) (fun _ => .ok))).result = r
  cases r <;> rfl

theorem regDecision_some_iff (env : Prog.Env) (rp : RP) (o : CreationOptions) (c : Attestation) (opts : List VerifyOption)
    (id key : Bytes) :
    Spec.regDecision env rp o c opts = some (id, key) ↔ C02.regPre env rp o c opts = .ok (id, key) := by
  rw [regDecision_eq]
  cases C02.regPre env rp o c opts with
  | error e => simp
  | ok p => simp

theorem regDecision_none_iff (env : Prog.Env) (rp : RP) (o : CreationOptions) (c : Attestation) (opts : List VerifyOption) :
    Spec.regDecision env rp o c opts = none ↔ ∃ e, C02.regPre env rp o c opts = .error e := by
  rw [regDecision_eq]
  cases C02.regPre env rp o c opts with
  | error e => simp
  | ok p => simp

/-- the registration step of the reference machine as a function of the decision -/
def regStep (s : Spec.State) (u : Bytes) : Option (Bytes × Bytes) → HOut × Spec.State
  | none => (none, s)
  | some (id, key) =>
    match s id with
    | some (owner, _) => if owner ≠ u then (none, s) else (some ⟨id, u, key⟩, s.bind id u key)
    | none => (some ⟨id, u, key⟩, s.bind id u key)

theorem step_register (env : Prog.Env) (rp : RP) (s : Spec.State) (o : CreationOptions) (c : Attestation)
    (opts : List VerifyOption) :
    Spec.step env rp s (.register o c opts) = regStep s o.userId (Spec.regDecision env rp o c opts) := by
  unfold Spec.step Spec.stepP Spec.regDecision
  simp only [Prog.run_bind]
  generalize Prog.run env (Spec.regDecisionP rp o c opts) = d
  cases d with
  | none => rfl
  | some p =>
    obtain ⟨id, key⟩ := p
    simp only [regStep]
    cases hs : s id with
    | none => rfl
    | some q =>
      obtain ⟨owner, k0⟩ := q
      simp only []
      split <;> rfl

/-- the authentication step of the reference machine as a function of the decision -/
def authStep (s : Spec.State) (id : Bytes) (dec : Bytes → Bytes → Bool) : HOut × Spec.State :=
  match s id with
  | none => (none, s)
  | some (owner, key) => if dec owner key = true then (some ⟨id, owner, key⟩, s) else (none, s)

theorem step_authenticate (env : Prog.Env) (rp : RP) (s : Spec.State) (o : RequestOptions) (a : Assertion) :
    Spec.step env rp s (.authenticate o a) = authStep s a.rawId (Spec.authDecision env rp o a) := by
  simp only [Spec.step, Spec.stepP, authStep]
  cases hs : s a.rawId with
  | none => rfl
  | some q =>
    obtain ⟨owner, key⟩ := q
    simp only [Prog.run_bind]
    unfold Spec.authDecision
    generalize Prog.run env (Spec.authDecisionP rp o a owner key) = d
    cases d <;> rfl

theorem authDecision_eq (env : Prog.Env) (rp : RP) (o : RequestOptions) (a : Assertion) (owner key : Bytes) :
    Spec.authDecision env rp o a owner key =
      (match (Prog.run env (verifyAuthentication rp o a (fun _ => .found ⟨a.rawId, owner, key⟩))).result with
       | .ok _ => true | .error _ => false) := by
  unfold Spec.authDecision Spec.authDecisionP
  simp only [Prog.run_bind]
  generalize (Prog.run env (verifyAuthentication rp o a (fun _ => .found ⟨a.rawId, owner, key⟩))).result = r
  cases r <;> rfl

/-- the decision is `true` exactly when the ceremony against that binding returns the binding -/
theorem authDecision_true_iff (env : Prog.Env) (rp : RP) (o : RequestOptions) (a : Assertion) (owner key : Bytes) :
    Spec.authDecision env rp o a owner key = true ↔
      (Prog.run env (verifyAuthentication rp o a (fun _ => .found ⟨a.rawId, owner, key⟩))).result =
        .ok ⟨a.rawId, owner, key⟩ := by
  rw [authDecision_eq]
  cases hr : (Prog.run env (verifyAuthentication rp o a (fun _ => .found ⟨a.rawId, owner, key⟩))).result with
  | error e => simp
  | ok cred =>
    have := C01.auth_returns_stored env rp o a _ cred hr
    simp only [GetOutcome.found.injEq] at this
    simp [this]

/-! ### the model, one ceremony -/

theorem hstep_register (env : Prog.Env) (rp : RP) (st : Store) (o : CreationOptions) (c : Attestation)
    (opts : List VerifyOption) :
    Prog.run env (hstep rp st (.register o c opts)) =
      (match (Prog.run env (verifyRegistration rp o c opts st.get (fun _ => .ok))).result with
       | .ok cred => (some cred, st.insert cred)
       | .error _ => (none, st)) := by
  simp only [hstep, Prog.run_bind]
  generalize (Prog.run env (verifyRegistration rp o c opts st.get (fun _ => .ok))).result = r
  cases r <;> rfl

theorem hstep_authenticate (env : Prog.Env) (rp : RP) (st : Store) (o : RequestOptions) (a : Assertion) :
    Prog.run env (hstep rp st (.authenticate o a)) =
      (match (Prog.run env (verifyAuthentication rp o a st.get)).result with
       | .ok cred => (some cred, st)
       | .error _ => (none, st)) := by
  simp only [hstep, Prog.run_bind]
  generalize (Prog.run env (verifyAuthentication rp o a st.get)).result = r
  cases r <;> rfl

theorem step_refines_register (env : Prog.Env) (rp : RP) (st : Store) (o : CreationOptions) (c : Attestation)
    (opts : List VerifyOption) :
    (Prog.run env (hstep rp st (.register o c opts))).1 = (Spec.step env rp (Spec.abs st) (.register o c opts)).1 ∧
    Spec.abs (Prog.run env (hstep rp st (.register o c opts))).2 =
      (Spec.step env rp (Spec.abs st) (.register o c opts)).2 := by
  rw [hstep_register, step_register, regDecision_eq, C02.reg_decompose]
  cases hp : C02.regPre env rp o c opts with
  | error e => exact ⟨rfl, rfl⟩
  | ok p =>
    obtain ⟨id, key⟩ := p
    simp only [regStep]
    rcases get_cases st id with ⟨hg, ha⟩ | ⟨ex, hg, _, ha⟩
    · rw [C06.storageStep_write _ _ _ _ _ (Or.inl hg), ha]
      exact ⟨rfl, abs_insert st _⟩
    · rw [ha]
      by_cases hown : ex.owner = o.userId
      · rw [C06.storageStep_write _ _ _ _ _ (Or.inr (Or.inr ⟨ex, hg, hown⟩))]
        simp only []
        rw [if_neg (fun h => h hown)]
        exact ⟨rfl, abs_insert st _⟩
      · rw [C06.storageStep_other_owner _ _ _ _ _ ex hg hown]
        simp only []
        rw [if_pos hown]
        exact ⟨rfl, rfl⟩

theorem step_refines_authenticate (env : Prog.Env) (rp : RP) (st : Store) (o : RequestOptions) (a : Assertion) :
    (Prog.run env (hstep rp st (.authenticate o a))).1 = (Spec.step env rp (Spec.abs st) (.authenticate o a)).1 ∧
    Spec.abs (Prog.run env (hstep rp st (.authenticate o a))).2 =
      (Spec.step env rp (Spec.abs st) (.authenticate o a)).2 := by
  rw [hstep_authenticate, step_authenticate]
  unfold authStep
  rcases get_cases st a.rawId with ⟨hg, ha⟩ | ⟨ex, hg, hid, ha⟩
  · rw [ha]
    cases hr : (Prog.run env (verifyAuthentication rp o a st.get)).result with
    | error e => exact ⟨rfl, rfl⟩
    | ok cred =>
      have := C01.auth_returns_stored env rp o a st.get cred hr
      rw [hg] at this
      cases this
  · rw [ha]
    have hex : ex = ⟨a.rawId, ex.owner, ex.publicKey⟩ := by
      cases ex; cases hid; rfl
    have hrun : Prog.run env (verifyAuthentication rp o a st.get) =
        Prog.run env (verifyAuthentication rp o a (fun _ => .found ⟨a.rawId, ex.owner, ex.publicKey⟩)) :=
      C01.auth_depends_on_get_rawId env rp o a _ _ (by rw [hg, ← hex])
    simp only []
    by_cases hd : Spec.authDecision env rp o a ex.owner ex.publicKey = true
    · rw [if_pos hd, hrun, (authDecision_true_iff ..).1 hd]
      exact ⟨rfl, rfl⟩
    · rw [if_neg hd, hrun]
      cases hr : (Prog.run env (verifyAuthentication rp o a
          (fun _ => .found ⟨a.rawId, ex.owner, ex.publicKey⟩))).result with
      | error e => exact ⟨rfl, rfl⟩
      | ok cred =>
        exfalso
        apply hd
        rw [authDecision_eq, hr]

/-- one ceremony of the model against the in-memory storage simulates one step of the reference machine -/
theorem step_refines (env : Prog.Env) (rp : RP) (st : Store) (op : HOp) :
    (Prog.run env (hstep rp st op)).1 = (Spec.step env rp (Spec.abs st) op).1 ∧
    Spec.abs (Prog.run env (hstep rp st op)).2 = (Spec.step env rp (Spec.abs st) op).2 := by
  cases op with
  | register o c opts => exact step_refines_register env rp st o c opts
  | authenticate o a => exact step_refines_authenticate env rp st o a

/-! ### histories -/

theorem hrun_nil (env : Prog.Env) (rp : RP) (st : Store) : Prog.run env (hrun rp st []) = ([], st) := rfl

theorem hrun_cons (env : Prog.Env) (rp : RP) (st : Store) (op : HOp) (ops : List HOp) :
    Prog.run env (hrun rp st (op :: ops)) =
      ((Prog.run env (hstep rp st op)).1 :: (Prog.run env (hrun rp (Prog.run env (hstep rp st op)).2 ops)).1,
       (Prog.run env (hrun rp (Prog.run env (hstep rp st op)).2 ops)).2) := by
  simp only [hrun, Prog.run_bind]
  rfl

theorem runAll_nil (env : Prog.Env) (rp : RP) (s : Spec.State) : Spec.runAll env rp s [] = ([], s) := rfl

theorem runAll_cons (env : Prog.Env) (rp : RP) (s : Spec.State) (op : HOp) (ops : List HOp) :
    Spec.runAll env rp s (op :: ops) =
      ((Spec.step env rp s op).1 :: (Spec.runAll env rp (Spec.step env rp s op).2 ops).1,
       (Spec.runAll env rp (Spec.step env rp s op).2 ops).2) := by
  simp only [Spec.runAll, Spec.runAllP, Spec.step, Prog.run_bind]
  rfl

/-- ANY finite history: every ceremony's outcome and the resulting storage equal those of the reference machine -/
theorem history_refines (env : Prog.Env) (rp : RP) (st : Store) (ops : List HOp) :
    (Prog.run env (hrun rp st ops)).1 = (Spec.runAll env rp (Spec.abs st) ops).1 ∧
    Spec.abs (Prog.run env (hrun rp st ops)).2 = (Spec.runAll env rp (Spec.abs st) ops).2 := by
  induction ops generalizing st with
  | nil => exact ⟨rfl, rfl⟩
  | cons op ops ih =>
    obtain ⟨h1, h2⟩ := step_refines env rp st op
    obtain ⟨i1, i2⟩ := ih (Prog.run env (hstep rp st op)).2
    rw [hrun_cons, runAll_cons]
    simp only []
    rw [← h2, ← h1, ← i1, ← i2]
    exact ⟨rfl, rfl⟩

theorem history_refines_from_empty (env : Prog.Env) (rp : RP) (ops : List HOp) :
    (Prog.run env (hrun rp [] ops)).1 = (Spec.runAll env rp Spec.State.empty ops).1 ∧
    Spec.abs (Prog.run env (hrun rp [] ops)).2 = (Spec.runAll env rp Spec.State.empty ops).2 :=
  history_refines env rp [] ops

/-! ### properties of the reference machine -/

/-- the state after a registration step: unchanged, or the attested id bound to (options.user.id, attested key) -/
theorem regStep_cases (s : Spec.State) (u : Bytes) (d : Option (Bytes × Bytes)) :
    regStep s u d = (none, s) ∨
    ∃ id key, d = some (id, key) ∧ (∀ owner k0, s id = some (owner, k0) → owner = u) ∧
      regStep s u d = (some ⟨id, u, key⟩, s.bind id u key) := by
  cases d with
  | none => exact Or.inl rfl
  | some p =>
    obtain ⟨id, key⟩ := p
    simp only [regStep]
    cases hs : s id with
    | none =>
      refine Or.inr ⟨id, key, rfl, ?_, rfl⟩
      intro owner k0 h; rw [hs] at h; cases h
    | some q =>
      obtain ⟨owner, k0⟩ := q
      simp only []
      by_cases hown : owner = u
      · rw [if_neg (fun h => h hown)]
        refine Or.inr ⟨id, key, rfl, ?_, rfl⟩
        intro owner' k0' h; rw [hs] at h; cases h; exact hown
      · rw [if_pos hown]
        exact Or.inl rfl

/-- failed ceremonies are stutters: the state is unchanged -/
theorem failed_is_stutter (env : Prog.Env) (rp : RP) (s : Spec.State) (op : HOp)
    (h : (Spec.step env rp s op).1 = none) : (Spec.step env rp s op).2 = s := by
  cases op with
  | register o c opts =>
    rw [step_register] at h ⊢
    rcases regStep_cases s o.userId (Spec.regDecision env rp o c opts) with hr | ⟨id, key, _, _, hr⟩
    · rw [hr]
    · rw [hr] at h; cases h
  | authenticate o a =>
    rw [step_authenticate]
    unfold authStep
    split
    · rfl
    · split <;> rfl

/-- authentication never changes the state -/
theorem auth_preserves_state (env : Prog.Env) (rp : RP) (s : Spec.State) (o : RequestOptions) (a : Assertion) :
    (Spec.step env rp s (.authenticate o a)).2 = s := by
  rw [step_authenticate]
  unfold authStep
  split
  · rfl
  · split <;> rfl

/-- a successful registration binds exactly (owner = options.user.id, key = attested key) to the attested id and
    nothing else changes -/
theorem register_binds (env : Prog.Env) (rp : RP) (s : Spec.State) (o : CreationOptions) (c : Attestation)
    (opts : List VerifyOption) (cred : Credential) (h : (Spec.step env rp s (.register o c opts)).1 = some cred) :
    cred.owner = o.userId ∧ (Spec.step env rp s (.register o c opts)).2 = s.bind cred.id o.userId cred.publicKey ∧
    Spec.regDecision env rp o c opts = some (cred.id, cred.publicKey) := by
  rw [step_register] at h ⊢
  rcases regStep_cases s o.userId (Spec.regDecision env rp o c opts) with hr | ⟨id, key, hd, _, hr⟩
  · rw [hr] at h; cases h
  · rw [hr] at h ⊢
    cases h
    exact ⟨rfl, rfl, hd⟩

/-- an id bound to one user is never re-bound to another -/
theorem no_rebinding (env : Prog.Env) (rp : RP) (s : Spec.State) (o : CreationOptions) (c : Attestation)
    (opts : List VerifyOption) (id key owner k0 : Bytes)
    (hd : Spec.regDecision env rp o c opts = some (id, key)) (hs : s id = some (owner, k0)) (hne : owner ≠ o.userId) :
    Spec.step env rp s (.register o c opts) = (none, s) := by
  rw [step_register, hd]
  simp only [regStep, hs]
  rw [if_pos hne]

/-- one step never changes the owner of a bound id -/
theorem step_owner_stable (env : Prog.Env) (rp : RP) (s : Spec.State) (op : HOp) (id owner k0 : Bytes)
    (hs : s id = some (owner, k0)) : ∃ k1, (Spec.step env rp s op).2 id = some (owner, k1) := by
  cases op with
  | authenticate o a => rw [auth_preserves_state]; exact ⟨k0, hs⟩
  | register o c opts =>
    rw [step_register]
    rcases regStep_cases s o.userId (Spec.regDecision env rp o c opts) with hr | ⟨id', key, _, hown, hr⟩
    · rw [hr]; exact ⟨k0, hs⟩
    · rw [hr]
      simp only [Spec.State.bind]
      by_cases hid : id = id'
      · subst hid
        rw [if_pos rfl, hown owner k0 hs]
        exact ⟨key, rfl⟩
      · rw [if_neg hid]; exact ⟨k0, hs⟩

/-- the owner of a bound id never changes along any history -/
theorem owner_stable (env : Prog.Env) (rp : RP) (s : Spec.State) (ops : List HOp) (id owner k0 : Bytes)
    (hs : s id = some (owner, k0)) : ∃ k1, (Spec.runAll env rp s ops).2 id = some (owner, k1) := by
  induction ops generalizing s k0 with
  | nil => exact ⟨k0, hs⟩
  | cons op ops ih =>
    rw [runAll_cons]
    obtain ⟨k1, h1⟩ := step_owner_stable env rp s op id owner k0 hs
    exact ih _ k1 h1

/-- an assertion succeeds only against the CURRENT binding of its id, under that binding's owner: in particular after a
    re-registration by the owner has replaced the key, what is verified is the new key (the old key authenticates only
    if it also verifies under the new binding) -/
theorem auth_uses_current_binding (env : Prog.Env) (rp : RP) (s : Spec.State) (o : RequestOptions) (a : Assertion)
    (cred : Credential) (h : (Spec.step env rp s (.authenticate o a)).1 = some cred) :
    ∃ owner key, s a.rawId = some (owner, key) ∧ cred = ⟨a.rawId, owner, key⟩ ∧
      Spec.authDecision env rp o a owner key = true := by
  rw [step_authenticate] at h
  unfold authStep at h
  cases hs : s a.rawId with
  | none => rw [hs] at h; cases h
  | some q =>
    obtain ⟨owner, key⟩ := q
    rw [hs] at h
    simp only [] at h
    by_cases hd : Spec.authDecision env rp o a owner key = true
    · rw [if_pos hd] at h
      cases h
      exact ⟨owner, key, rfl, rfl, hd⟩
    · rw [if_neg hd] at h; cases h

/-- and `authDecision` is characterised by the ten conditions of C01 against that binding (so: only under the owner's
    user handle, only with a signature under the bound key) -/
theorem authDecision_iff (env : Prog.Env) (rp : RP) (o : RequestOptions) (a : Assertion) (owner key : Bytes) :
    Spec.authDecision env rp o a owner key = true ↔
      Spec.AuthOK env rp o a (fun _ => .found ⟨a.rawId, owner, key⟩) ⟨a.rawId, owner, key⟩ := by
  rw [authDecision_true_iff, C01.auth_iff]

/-- `regDecision` is characterised by the ceremony conditions of C02 -/
theorem regDecision_iff (env : Prog.Env) (rp : RP) (o : CreationOptions) (c : Attestation) (opts : List VerifyOption)
    (id key : Bytes) :
    Spec.regDecision env rp o c opts = some (id, key) ↔ Spec.RegPreOK env rp o c opts id key := by
  rw [regDecision_some_iff, C02.regPre_iff]

/-- a step that is not a successful registration of `id` leaves the binding of `id` alone -/
theorem step_untouched (env : Prog.Env) (rp : RP) (s : Spec.State) (op : HOp) (id : Bytes)
    (h : ∀ o c opts, op = .register o c opts → ∀ key, Spec.regDecision env rp o c opts = some (id, key) → False) :
    (Spec.step env rp s op).2 id = s id := by
  cases op with
  | authenticate o a => rw [auth_preserves_state]
  | register o c opts =>
    rw [step_register]
    rcases regStep_cases s o.userId (Spec.regDecision env rp o c opts) with hr | ⟨id', key, hd, _, hr⟩
    · rw [hr]
    · rw [hr]
      simp only [Spec.State.bind]
      by_cases hid : id = id'
      · subst hid
        exact absurd hd (fun hd => h o c opts rfl key hd)
      · rw [if_neg hid]

/-- ids never mentioned by a successful registration keep their binding: no sequence of failed or adversarial
    ceremonies changes an existing credential -/
theorem untouched_binding (env : Prog.Env) (rp : RP) (s : Spec.State) (ops : List HOp) (id : Bytes)
    (h : ∀ op ∈ ops, ∀ o c opts, op = .register o c opts → ∀ key, Spec.regDecision env rp o c opts = some (id, key) → False) :
    (Spec.runAll env rp s ops).2 id = s id := by
  induction ops generalizing s with
  | nil => rfl
  | cons op ops ih =>
    rw [runAll_cons]
    simp only []
    rw [ih _ (fun op' hm => h op' (List.mem_cons_of_mem _ hm)),
      step_untouched env rp s op id (h op (List.mem_cons_self ..))]

end WebAuthn.C07
