import WebAuthnModel.Model.JwsVerify
import WebAuthnModel.Generated.TpmAndroid
import WebAuthnModel.Proofs.Base64
import WebAuthnModel.Proofs.BytesLemmas
/-
  The compact-JWS model (Model/Jws.lean, go-jose v3.0.3 `jose.ParseSigned` as the android-safetynet verifier uses it), taken on its own:

  * `parse_ok_parts`       : an accepted token is, after whitespace stripping, exactly three dot-separated parts whose base64url
                             decodings (trailing '=' trimmed) are the protected header bytes, the payload and the signature;
                             the header decodes, carries no "jwk", and `alg` / `x5c` / `verifiable` are read from it;
  * `signingInput_eq`      : what go-jose verifies is base64url(protected) "." base64url(payload) (payload raw under "b64": false);
  * `signingInput_inj`     : that message determines the protected header bytes and the payload — a signature over it binds both;
  * `parseCompact_honest`  : the canonical token of (header bytes, payload, signature) parses back to exactly these;
  * `strip_plain`          : whitespace stripping leaves a string of non-space ASCII bytes unchanged;
  * `claims_null`, `claims_empty_object` : the two smallest accepted payloads.
-/
namespace WebAuthn.C04Jws
open WebAuthn WebAuthn.Jws

/-! ### helper lemmas: the base64url alphabet, `splitDots`, `trimPad`, `stripLoop` -/

/-- a byte with a sextet value is one of `A–Z a–z 0–9 - _` -/
theorem valOf_some_range (x : UInt8) (n : Nat) (h : B64.valOf x = some n) :
    (65 ≤ x.toNat ∧ x.toNat ≤ 90) ∨ (97 ≤ x.toNat ∧ x.toNat ≤ 122) ∨ (48 ≤ x.toNat ∧ x.toNat ≤ 57) ∨ x.toNat = 45 ∨ x.toNat = 95 := by
  unfold B64.valOf at h
  simp only at h
  split at h
  · left; assumption
  split at h
  · right; left; assumption
  split at h
  · right; right; left; assumption
  split at h
  · right; right; right; left; assumption
  split at h
  · right; right; right; right; assumption
  · cases h

theorem encode_range (b : Bytes) (x : UInt8) (hx : x ∈ B64.encode b) :
    (65 ≤ x.toNat ∧ x.toNat ≤ 90) ∨ (97 ≤ x.toNat ∧ x.toNat ≤ 122) ∨ (48 ≤ x.toNat ∧ x.toNat ≤ 57) ∨ x.toNat = 45 ∨ x.toNat = 95 := by
  obtain ⟨n, hn, rfl⟩ := B64.encode_alphabet b x hx
  exact valOf_some_range _ n (B64.valOf_charOf n hn)

theorem encode_no_dot (b : Bytes) : (46 : UInt8) ∉ B64.encode b := by
  intro h
  have := encode_range b 46 h
  simp at this

theorem encode_no_pad (b : Bytes) : (61 : UInt8) ∉ B64.encode b := by
  intro h
  have := encode_range b 61 h
  simp at this

theorem encode_no_brace (b : Bytes) : (123 : UInt8) ∉ B64.encode b := by
  intro h
  have := encode_range b 123 h
  simp at this

theorem encode_plain (b : Bytes) (x : UInt8) (hx : x ∈ B64.encode b) : x.toNat < 0x80 ∧ isAsciiSpace x = false := by
  have h := encode_range b x hx
  refine ⟨by omega, ?_⟩
  unfold isAsciiSpace
  have h32 : x ≠ 32 := by
    intro e; subst e; simp at h
  simp only [Bool.or_eq_false_iff, Bool.and_eq_false_iff, decide_eq_false_iff_not, Nat.not_le]
  exact ⟨by omega, h32⟩

theorem splitDots_ne_nil (s : Bytes) : splitDots s ≠ [] := by
  cases s with
  | nil => simp [splitDots]
  | cons b rest =>
    unfold splitDots
    split
    · simp
    · split <;> simp

theorem splitDots_nodot (a : Bytes) (h : (46 : UInt8) ∉ a) : splitDots a = [a] := by
  induction a with
  | nil => rfl
  | cons x rest ih =>
    have hx : x ≠ 46 := fun e => h (e ▸ List.mem_cons_self ..)
    have hr : (46 : UInt8) ∉ rest := fun e => h (List.mem_cons_of_mem _ e)
    unfold splitDots
    rw [ih hr]
    simp [hx]

theorem splitDots_append (a b : Bytes) (h : (46 : UInt8) ∉ a) : splitDots (a ++ 46 :: b) = a :: splitDots b := by
  induction a with
  | nil =>
    simp only [List.nil_append]
    rw [splitDots]
    cases hb : splitDots b with
    | nil => exact absurd hb (splitDots_ne_nil b)
    | cons p ps => simp
  | cons x rest ih =>
    have hx : x ≠ 46 := fun e => h (e ▸ List.mem_cons_self ..)
    have hr : (46 : UInt8) ∉ rest := fun e => h (List.mem_cons_of_mem _ e)
    simp only [List.cons_append]
    rw [splitDots, ih hr]
    simp [hx]

theorem trimPad_nopad (s : Bytes) (h : (61 : UInt8) ∉ s) : trimPad s = s := by
  unfold trimPad
  have : s.reverse.dropWhile (· = 61) = s.reverse := by
    cases hs : s.reverse with
    | nil => rfl
    | cons x xs =>
      have hx : x ∈ s := by
        rw [← List.mem_reverse, hs]; exact List.mem_cons_self ..
      have hne : x ≠ 61 := fun e => h (e ▸ hx)
      simp [List.dropWhile, hne]
  rw [this, List.reverse_reverse]

theorem base64URLDecode_encode (b : Bytes) : base64URLDecode (B64.encode b) = some b := by
  unfold base64URLDecode
  rw [trimPad_nopad _ (encode_no_pad b), B64.decode_encode]

theorem stripLoop_plain (s : Bytes) (h : ∀ b ∈ s, b.toNat < 0x80 ∧ isAsciiSpace b = false) :
    ∀ fuel, s.length < fuel → stripLoop fuel s = s := by
  induction s with
  | nil =>
    intro fuel hf
    cases fuel with
    | zero => rfl
    | succ n => rfl
  | cons b rest ih =>
    intro fuel hf
    cases fuel with
    | zero => simp at hf
    | succ n =>
      obtain ⟨h1, h2⟩ := h b (List.mem_cons_self ..)
      have hrest := ih (fun x hx => h x (List.mem_cons_of_mem _ hx)) n (by simp only [List.length_cons] at hf; omega)
      simp only [stripLoop, h1, if_true, h2, Bool.false_eq_true, if_false, hrest]

/-- a list is determined by its split at the first occurrence of a separator -/
theorem split_first_inj (x : UInt8) (a a' r r' : Bytes) (ha : x ∉ a) (ha' : x ∉ a')
    (e : a ++ x :: r = a' ++ x :: r') : a = a' ∧ r = r' := by
  induction a generalizing a' with
  | nil =>
    cases a' with
    | nil => simpa using e
    | cons y ys =>
      simp only [List.nil_append, List.cons_append, List.cons.injEq] at e
      exact absurd (e.1 ▸ List.mem_cons_self ..) ha'
  | cons z zs ih =>
    cases a' with
    | nil =>
      simp only [List.nil_append, List.cons_append, List.cons.injEq] at e
      exact absurd (e.1 ▸ List.mem_cons_self ..) ha
    | cons y ys =>
      simp only [List.cons_append, List.cons.injEq] at e
      obtain ⟨rfl, e⟩ := e
      obtain ⟨h1, h2⟩ := ih ys (fun m => ha (List.mem_cons_of_mem _ m)) (fun m => ha' (List.mem_cons_of_mem _ m)) e
      exact ⟨by rw [h1], h2⟩

/-- the canonical token: plain ASCII, and its first byte is not '{' -/
theorem token_plain (hdr payload sig : Bytes) :
    ∀ b ∈ B64.encode hdr ++ [46] ++ B64.encode payload ++ [46] ++ B64.encode sig, b.toNat < 0x80 ∧ isAsciiSpace b = false := by
  intro b hb
  simp only [List.mem_append, List.mem_cons, List.not_mem_nil, or_false] at hb
  rcases hb with (((hb | rfl) | hb) | rfl) | hb
  · exact encode_plain _ _ hb
  · decide
  · exact encode_plain _ _ hb
  · decide
  · exact encode_plain _ _ hb

theorem parse_of_plain (s : Bytes) (hs : stripWhitespace s = s) (h123 : ∀ r, s ≠ 123 :: r) : parse s = parseCompact s := by
  unfold parse
  -- the matcher's second equation applies; its side condition `∀ r, s = 123 :: r → False` is discharged from `h123`
  simp only [hs]

theorem parse_ok_parts (raw : Bytes) (c : Compact) (h : parse raw = .ok c) :
    ∃ p0 p1 p2 hd, splitDots (stripWhitespace raw) = [p0, p1, p2] ∧
      base64URLDecode p0 = some c.protectedBytes ∧ base64URLDecode p1 = some c.payload ∧ base64URLDecode p2 = some c.signature ∧
      (if c.protectedBytes = [] then hd = ({} : Header) else header c.protectedBytes = some hd) ∧
      hd.hasJwk = false ∧ c.alg = hd.alg ∧ c.x5c = hd.x5c ∧
      c.verifiable = (decide (c.protectedBytes ≠ []) && hd.critOK) ∧
      c.signingInput = signingInputOf c.protectedBytes c.payload hd.b64 := by
  unfold parse at h
  simp only at h
  split at h
  · cases h
  · unfold parseCompact at h
    split at h
    · rename_i p0 p1 p2 hsp
      split at h
      · rename_i prot payload sig h0 h1 h2
        split at h
        · cases h
        · rename_i hd hhd
          split at h
          · cases h
          · rename_i hj
            cases h
            refine ⟨p0, p1, p2, hd, hsp, h0, h1, h2, ?_, by simpa using hj, rfl, rfl, rfl, rfl⟩
            dsimp only
            by_cases hp : prot = []
            · rw [if_pos hp] at hhd ⊢
              exact (Option.some.inj hhd).symm
            · rw [if_neg hp] at hhd ⊢
              exact hhd
      · cases h
    · cases h

theorem signingInput_eq (prot payload : Bytes) :
    signingInputOf prot payload true = B64.encode prot ++ [46] ++ B64.encode payload ∧
    signingInputOf prot payload false = B64.encode prot ++ [46] ++ payload :=
  ⟨rfl, rfl⟩

/-- the message go-jose verifies determines the protected header bytes and the payload -/
theorem signingInput_inj (p q p' q' : Bytes) (b : Bool) (h : signingInputOf p q b = signingInputOf p' q' b) : p = p' ∧ q = q' := by
  unfold signingInputOf at h
  simp only [List.append_assoc, List.cons_append, List.nil_append] at h
  obtain ⟨h1, h2⟩ := split_first_inj 46 _ _ _ _ (encode_no_dot p) (encode_no_dot p') h
  refine ⟨B64.encode_injective _ _ h1, ?_⟩
  cases b with
  | true => exact B64.encode_injective _ _ (by simpa using h2)
  | false => simpa using h2

/-- whitespace stripping leaves non-space ASCII alone -/
theorem strip_plain (s : Bytes) (h : ∀ b ∈ s, b.toNat < 0x80 ∧ isAsciiSpace b = false) : stripWhitespace s = s :=
  stripLoop_plain s h _ (Nat.lt_succ_self _)

/-- the canonical serialisation of (header bytes, payload, signature) parses back to exactly these parts -/
theorem parseCompact_honest (hdr payload sig : Bytes) (hd : Header)
    (hh : if hdr = [] then hd = ({} : Header) else header hdr = some hd) (hj : hd.hasJwk = false) :
    parseCompact (B64.encode hdr ++ [46] ++ B64.encode payload ++ [46] ++ B64.encode sig) =
      .ok { protectedBytes := hdr, payload := payload, signature := sig,
            signingInput := signingInputOf hdr payload hd.b64, alg := hd.alg, x5c := hd.x5c,
            verifiable := decide (hdr ≠ []) && hd.critOK } := by
  have hsp : splitDots (B64.encode hdr ++ [46] ++ B64.encode payload ++ [46] ++ B64.encode sig) =
      [B64.encode hdr, B64.encode payload, B64.encode sig] := by
    simp only [List.append_assoc, List.cons_append, List.nil_append]
    rw [splitDots_append _ _ (encode_no_dot hdr), splitDots_append _ _ (encode_no_dot payload),
      splitDots_nodot _ (encode_no_dot sig)]
  have hhd : (if hdr = [] then some ({} : Header) else header hdr) = some hd := by
    by_cases hp : hdr = []
    · rw [if_pos hp] at hh ⊢; rw [hh]
    · rw [if_neg hp] at hh ⊢; exact hh
  unfold parseCompact
  rw [hsp]
  simp only [base64URLDecode_encode, hhd, hj, Bool.false_eq_true, if_false]

/-- and so does `parse` (the token has no whitespace and does not start with '{') -/
theorem parse_honest (hdr payload sig : Bytes) (hd : Header)
    (hh : if hdr = [] then hd = ({} : Header) else header hdr = some hd) (hj : hd.hasJwk = false) :
    parse (B64.encode hdr ++ [46] ++ B64.encode payload ++ [46] ++ B64.encode sig) =
      parseCompact (B64.encode hdr ++ [46] ++ B64.encode payload ++ [46] ++ B64.encode sig) := by
  apply parse_of_plain _ (strip_plain _ (token_plain hdr payload sig))
  intro r e
  simp only [List.append_assoc, List.cons_append, List.nil_append] at e
  cases he : B64.encode hdr with
  | nil => rw [he] at e; simp at e
  | cons x xs =>
    rw [he] at e
    simp only [List.cons_append, List.cons.injEq] at e
    exact encode_no_brace hdr (by rw [he, e.1]; exact List.mem_cons_self ..)

theorem claims_null : claims (Bytes.ofString "null") = some [] := by
  decide +kernel

theorem claims_empty_object : claims (Bytes.ofString "{}") = some [] := by
  decide +kernel

/-- a SafetyNet-like payload: the nonce is the standard-base64 decoding of the member, other members are type-checked -/
theorem claims_example :
    claims (Bytes.ofString "{\"nonce\":\"AQID\",\"timestampMs\":1700000000000,\"ctsProfileMatch\":true,\"apkCertificateDigestSha256\":[\"AA==\"],\"extra\":{\"a\":1,\"a\":2}}") = some [1, 2, 3] ∧
    claims (Bytes.ofString "{\"nonce\":\"AQID\",\"nonce\":\"AQID\"}") = none ∧
    claims (Bytes.ofString "{\"Nonce\":\"AQID\"}") = some [] ∧
    claims (Bytes.ofString "{\"nonce\":\"AQID\",\"timestampMs\":\"1\"}") = none ∧
    claims (Bytes.ofString "{\"nonce\":\"AQI\"}") = none := by
  refine ⟨?_, ?_, ?_, ?_, ?_⟩ <;> decide +kernel

/-! ### which primitive checks the signature (Model/JwsVerify.lean: go-jose's `newVerifier` + `verifyPayload`) -/

/-- RSA keys: RS256/384/512 are RSASSA-PKCS1-v1_5 and PS256/384/512 RSASSA-PSS, with SHA-256/384/512, over the signature bytes as they are;
    every other algorithm name is refused -/
theorem verifyPlan_rsa (n : Bytes) (e : Nat) (alg sig : Bytes) :
    verifyPlan alg (.rsa n e) sig =
      if alg = str "RS256" then .primitive .pkcs1 5 sig else if alg = str "RS384" then .primitive .pkcs1 6 sig
      else if alg = str "RS512" then .primitive .pkcs1 7 sig else if alg = str "PS256" then .primitive .pss 5 sig
      else if alg = str "PS384" then .primitive .pss 6 sig else if alg = str "PS512" then .primitive .pss 7 sig else .reject := by
  rfl

/-- EC keys (whatever their curve): ES256/384/512 want exactly 64 / 96 / 132 bytes r ‖ s and use SHA-256/384/512; everything else is refused -/
theorem verifyPlan_ec (crv : Nat) (x y alg sig : Bytes) :
    verifyPlan alg (.ec crv x y) sig =
      if alg = str "ES256" then (if sig.length = 64 then .primitive .ecdsa 5 (derOfRS (sig.take 32) (sig.drop 32)) else .reject)
      else if alg = str "ES384" then (if sig.length = 96 then .primitive .ecdsa 6 (derOfRS (sig.take 48) (sig.drop 48)) else .reject)
      else if alg = str "ES512" then (if sig.length = 132 then .primitive .ecdsa 7 (derOfRS (sig.take 66) (sig.drop 66)) else .reject)
      else .reject := by
  simp only [verifyPlan, ecPlan, ecPlanFor, hSHA256, hSHA384, hSHA512]

theorem verifyPlan_ed (k alg sig : Bytes) :
    verifyPlan alg (.ed k) sig = if alg = str "EdDSA" then .primitive .eddsa 0 sig else .reject := by
  rfl

/-- a token without an algorithm the key kind supports is never accepted: in particular "none", "HS256" and the empty name -/
theorem verifyPlan_no_alg (key : KeyMat) (sig : Bytes) (hk : key ≠ .other) :
    verifyPlan (str "none") key sig = .reject ∧ verifyPlan (str "HS256") key sig = .reject ∧ verifyPlan [] key sig = .reject := by
  have e1 : str "none" ≠ str "RS256" ∧ str "none" ≠ str "RS384" ∧ str "none" ≠ str "RS512" ∧ str "none" ≠ str "PS256" ∧
      str "none" ≠ str "PS384" ∧ str "none" ≠ str "PS512" ∧ str "none" ≠ str "ES256" ∧ str "none" ≠ str "ES384" ∧
      str "none" ≠ str "ES512" ∧ str "none" ≠ str "EdDSA" := by decide +kernel
  have e2 : str "HS256" ≠ str "RS256" ∧ str "HS256" ≠ str "RS384" ∧ str "HS256" ≠ str "RS512" ∧ str "HS256" ≠ str "PS256" ∧
      str "HS256" ≠ str "PS384" ∧ str "HS256" ≠ str "PS512" ∧ str "HS256" ≠ str "ES256" ∧ str "HS256" ≠ str "ES384" ∧
      str "HS256" ≠ str "ES512" ∧ str "HS256" ≠ str "EdDSA" := by decide +kernel
  have e3 : ([] : Bytes) ≠ str "RS256" ∧ ([] : Bytes) ≠ str "RS384" ∧ ([] : Bytes) ≠ str "RS512" ∧ ([] : Bytes) ≠ str "PS256" ∧
      ([] : Bytes) ≠ str "PS384" ∧ ([] : Bytes) ≠ str "PS512" ∧ ([] : Bytes) ≠ str "ES256" ∧ ([] : Bytes) ≠ str "ES384" ∧
      ([] : Bytes) ≠ str "ES512" ∧ ([] : Bytes) ≠ str "EdDSA" := by decide +kernel
  obtain ⟨a1, a2, a3, a4, a5, a6, a7, a8, a9, a10⟩ := e1
  obtain ⟨b1, b2, b3, b4, b5, b6, b7, b8, b9, b10⟩ := e2
  obtain ⟨c1, c2, c3, c4, c5, c6, c7, c8, c9, c10⟩ := e3
  cases key with
  | rsa n e => simp only [verifyPlan, rsaPlan, if_neg a1, if_neg a2, if_neg a3, if_neg a4, if_neg a5, if_neg a6,
      if_neg b1, if_neg b2, if_neg b3, if_neg b4, if_neg b5, if_neg b6, if_neg c1, if_neg c2, if_neg c3, if_neg c4, if_neg c5, if_neg c6, and_self]
  | ec crv x y => simp only [verifyPlan, ecPlan, if_neg a7, if_neg a8, if_neg a9, if_neg b7, if_neg b8, if_neg b9,
      if_neg c7, if_neg c8, if_neg c9, and_self]
  | ed k => simp only [verifyPlan, if_neg a10, if_neg b10, if_neg c10, and_self]
  | other => exact absurd rfl hk

/-- the DER INTEGER contents written for r and s denote the same number and are minimal and non-negative -/
theorem derMagnitude_value (b : Bytes) : Bytes.beNat (derMagnitude b) = Bytes.beNat b := by
  have hd : ∀ l : Bytes, Bytes.beNat (l.dropWhile (· = 0)) = Bytes.beNat l := by
    intro l
    induction l with
    | nil => rfl
    | cons x xs ih =>
      by_cases hx : x = 0
      · subst hx
        rw [List.dropWhile_cons_of_pos (by simp), ih, Bytes.beNat_cons]
        simp
      · rw [List.dropWhile_cons_of_neg (by simpa using hx)]
  rw [← hd b]
  unfold derMagnitude
  split
  · next h => rw [h]; rfl
  · next x rest h =>
    rw [h]
    split
    · rw [Bytes.beNat_cons]; simp
    · rfl

theorem derMagnitude_minimal (b : Bytes) :
    ∃ x rest, derMagnitude b = x :: rest ∧ x.toNat < 128 ∧ (x = 0 → rest = [] ∨ ∃ y r, rest = y :: r ∧ y.toNat ≥ 128) := by
  unfold derMagnitude
  split
  · exact ⟨0, [], rfl, by decide, fun _ => Or.inl rfl⟩
  · next x rest h =>
    have hx : x ≠ 0 := by
      intro h0
      have := List.head_dropWhile_not (p := fun y : UInt8 => decide (y = 0)) (l := b) (by rw [h]; simp)
      simp [h, h0] at this
    by_cases hge : x.toNat ≥ 128
    · rw [if_pos hge]
      exact ⟨0, x :: rest, rfl, by decide, fun _ => Or.inr ⟨x, rest, rfl, hge⟩⟩
    · rw [if_neg hge]
      exact ⟨x, rest, rfl, by omega, fun h0 => absurd h0 hx⟩

theorem derOfRS_example :
    derOfRS [0, 0, 1] [0x80] = [0x30, 0x07, 0x02, 0x01, 0x01, 0x02, 0x02, 0x00, 0x80] ∧ derOfRS [] [0] = [0x30, 0x06, 0x02, 0x01, 0x00, 0x02, 0x01, 0x00] := by
  constructor <;> decide +kernel


/-- the SafetyNet claims structure `Model/Jws.lean` `claims` transcribes, regenerated from `android/safetynet.go` on every run:
    field, Go type, json member name -/
theorem claims_schema : Generated.Android.safetyNetClaimsFields =
    [("TimestampMS", "int", "timestampMs"), ("Nonce", "[]byte", "nonce"), ("APKPackageName", "string", "apkPackageName"),
     ("APKCertificateDigestSHA256", "[][]byte", "apkCertificateDigestSha256"), ("CTSProfileMatch", "bool", "ctsProfileMatch"),
     ("BasicIntegrity", "bool", "basicIntegrity"), ("EvaluationType", "string", "evaluationType")] := by
  decide

end WebAuthn.C04Jws
