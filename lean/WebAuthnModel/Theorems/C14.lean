import WebAuthnModel.Spec.Wire
import WebAuthnModel.Generated.Wire
import WebAuthnModel.Proofs.Base64
/-
  C14: JSON wire round trip.  For each of the eleven wire types, Unmarshal ∘ Marshal is the identity up to the
  `omitempty` normalisation `norm` (an empty-but-non-nil slice/map in an `omitempty` member comes back nil);
  binary members travel as unpadded base64url strings and every malformed binary member is an error.
-/
namespace WebAuthn.C14
open WebAuthn WebAuthn.Wire

/-! ## Definitions -/

/-- the values `vs` match the schema member by member (same length), each member satisfying `ty` -/
def TypedFieldsWith (ty : Kind → Val → Prop) : Schema → List Val → Prop
  | [], [] => True
  | fld :: sch, v :: vs => ty fld.kind v ∧ TypedFieldsWith ty sch vs
  | _, _ => False

/-- the value has the shape of the kind; the `Nat` bounds the nesting of structs exactly like the fuel of `decode` -/
def Typed (schemas : String → Schema) : Nat → Kind → Val → Prop
  | 0, _, _ => False
  | _ + 1, .bytes, .bytes _ => True
  | _ + 1, .nbytes, .bytes _ => True
  | _ + 1, .str, .str _ => True
  | _ + 1, .bool, .bool _ => True
  | _ + 1, .int, .int _ => True
  | _ + 1, .ms, .int _ => True
  | _ + 1, .any, .any none => True
  | _ + 1, .any, .any (some (.obj _)) => True
  | _ + 1, .strList, .strs _ => True
  | f + 1, .obj ty, .obj fs => TypedFieldsWith (Typed schemas f) (schemas ty) fs
  | _ + 1, .ptr _, .ptr none => True
  | f + 1, .ptr ty, .ptr (some (.obj fs)) => TypedFieldsWith (Typed schemas f) (schemas ty) fs
  | _ + 1, .objList _, .objs none => True
  | f + 1, .objList ty, .objs (some xs) =>
    ∀ x ∈ xs, ∃ fs, x = .obj fs ∧ TypedFieldsWith (Typed schemas f) (schemas ty) fs
  | _ + 1, _, _ => False

/-- normalise the members of a struct, given the normaliser for member values (`nrm kind omitempty value`) -/
def normFieldsWith (nrm : Kind → Bool → Val → Val) : Schema → List Val → List Val
  | fld :: sch, v :: vs => nrm fld.kind fld.omitempty v :: normFieldsWith nrm sch vs
  | _, _ => []

/-- normalise an element of a slice of structs -/
def normObjWith (nrm : Kind → Bool → Val → Val) (sch : Schema) : Val → Val
  | .obj fs => .obj (normFieldsWith nrm sch fs)
  | x => x

/-- what a value looks like after Marshal ∘ Unmarshal; the `Bool` is the member's `omitempty` -/
def norm (schemas : String → Schema) : Nat → Kind → Bool → Val → Val
  | 0, _, _, v => v
  | _ + 1, .any, true, .any (some (.obj [])) => .any none
  | _ + 1, .strList, true, .strs (some []) => .strs none
  | _ + 1, .objList _, true, .objs (some []) => .objs none
  | f + 1, .objList ty, _, .objs (some xs) =>
    .objs (some (xs.map (normObjWith (norm schemas f) (schemas ty))))
  | f + 1, .obj ty, _, .obj fs => .obj (normFieldsWith (norm schemas f) (schemas ty) fs)
  | f + 1, .ptr ty, _, .ptr (some (.obj fs)) => .ptr (some (.obj (normFieldsWith (norm schemas f) (schemas ty) fs)))
  | _ + 1, _, _, v => v

/-! ## Easy facts about the encoder -/

theorem schema_names_distinct : ∀ ty ∈ Spec.Wire.typeNames, ((Spec.Wire.schemas ty).map (·.name)).Nodup := by
  intro ty h
  simp only [Spec.Wire.typeNames, List.mem_cons, List.not_mem_nil, or_false] at h
  rcases h with rfl | rfl | rfl | rfl | rfl | rfl | rfl | rfl | rfl | rfl | rfl <;>
    simp [Spec.Wire.schemas, Spec.Wire.rpEntity, Spec.Wire.userEntity, Spec.Wire.descriptor, Spec.Wire.parameters,
      Spec.Wire.authenticatorSelection, Spec.Wire.creationOptions, Spec.Wire.requestOptions,
      Spec.Wire.attestationResponse, Spec.Wire.assertionResponse, Spec.Wire.creationCredential,
      Spec.Wire.assertionCredential]

/-- the same for every name (unknown names have the empty schema) -/
theorem schemas_nodup (ty : String) : ((Spec.Wire.schemas ty).map (·.name)).Nodup := by
  unfold Spec.Wire.schemas
  split <;>
    simp [Spec.Wire.rpEntity, Spec.Wire.userEntity, Spec.Wire.descriptor, Spec.Wire.parameters,
      Spec.Wire.authenticatorSelection, Spec.Wire.creationOptions, Spec.Wire.requestOptions,
      Spec.Wire.attestationResponse, Spec.Wire.assertionResponse, Spec.Wire.creationCredential,
      Spec.Wire.assertionCredential]

theorem encode_bytes (schemas : String → Schema) (b : Bytes) :
    encode schemas .bytes (.bytes b) = .str (B64.encode b) := by
  simp [encode]

theorem encode_nbytes (schemas : String → Schema) (b : Bytes) :
    encode schemas .nbytes (.bytes b) = if b.isEmpty then .null else .str (B64.encode b) := by
  simp [encode]

theorem encode_ms (schemas : String → Schema) (i : Int) : encode schemas .ms (.int i) = .num i := by
  simp [encode]


/-! ## Rejection of malformed binary members -/

theorem decode_bytes_rejects_bad_char (schemas : String → Schema) (f : Nat) (s : Bytes) (c : UInt8) (hc : c ∈ s)
    (hv : B64.valOf c = none) (hn : B64.isNewline c = false) :
    decode schemas (f + 1) .bytes (.str s) = none ∧ decode schemas (f + 1) .nbytes (.str s) = none := by
  have hne : s ≠ [] := by intro h; subst h; cases hc
  have h : B64.fromBase64URL s = none := by
    unfold B64.fromBase64URL
    rw [if_neg hne]
    exact B64.decode_rejects_bad_char s c hc hv hn
  simp [decode, h]

theorem decode_bytes_rejects_length (schemas : String → Schema) (f : Nat) (s : Bytes)
    (h : (s.filter (fun c => !B64.isNewline c)).length % 4 = 1) :
    decode schemas (f + 1) .bytes (.str s) = none ∧ decode schemas (f + 1) .nbytes (.str s) = none := by
  have hne : s ≠ [] := by intro h'; subst h'; simp at h
  have h : B64.fromBase64URL s = none := by
    unfold B64.fromBase64URL
    rw [if_neg hne]
    exact B64.decode_rejects_length s h
  simp [decode, h]

/-! ## Error propagation -/

theorem mapM_none_of_mem {α β : Type} (g : α → Option β) (l : List α) (a : α) (ha : a ∈ l) (hg : g a = none) :
    l.mapM g = none := by
  induction l with
  | nil => cases ha
  | cons x xs ih =>
    rw [List.mapM_cons]
    rcases List.mem_cons.1 ha with rfl | h
    · simp [hg]
    · simp [ih h]

theorem decodeFieldsWith_member_error (dec : Kind → Json → Option Val) (zeroOf : Kind → Val) (sch : Schema)
    (kvs : List (String × Json)) (fld : Field) (j : Json)
    (hf : fld ∈ sch) (hl : lookup kvs fld.name = some j) (he : dec fld.kind j = none) :
    decodeFieldsWith dec zeroOf sch kvs = none := by
  unfold decodeFieldsWith
  apply mapM_none_of_mem _ _ fld hf
  simp [hl, he]

/-- an error in a member fails the enclosing struct, at every fuel (hence at every nesting level) -/
theorem decode_obj_member_error (schemas : String → Schema) (f : Nat) (ty : String) (kvs : List (String × Json))
    (fld : Field) (j : Json)
    (hf : fld ∈ schemas ty) (hl : lookup kvs fld.name = some j) (he : decode schemas f fld.kind j = none) :
    decode schemas (f + 1) (.obj ty) (.obj kvs) = none ∧ decode schemas (f + 1) (.ptr ty) (.obj kvs) = none := by
  simp [decode, decodeFieldsWith_member_error _ _ _ kvs fld j hf hl he]

/-- … and an erroneous element fails a list of structs -/
theorem decode_objList_member_error (schemas : String → Schema) (f : Nat) (ty : String) (xs : List Json)
    (kvs : List (String × Json)) (fld : Field) (j : Json) (hx : Json.obj kvs ∈ xs)
    (hf : fld ∈ schemas ty) (hl : lookup kvs fld.name = some j) (he : decode schemas f fld.kind j = none) :
    decode schemas (f + 1) (.objList ty) (.arr xs) = none := by
  simp only [decode]
  rw [mapM_none_of_mem (l := xs) (a := Json.obj kvs) (ha := hx)]
  · rfl
  · simp [decodeFieldsWith_member_error _ _ _ kvs fld j hf hl he]

theorem unmarshal_member_error (ty : String) (kvs : List (String × Json)) (fld : Field) (j : Json)
    (hf : fld ∈ Spec.Wire.schemas ty) (hl : lookup kvs fld.name = some j)
    (he : decode Spec.Wire.schemas 3 fld.kind j = none) :
    unmarshal Spec.Wire.schemas ty (.obj kvs) = none :=
  (decode_obj_member_error Spec.Wire.schemas 3 ty kvs fld j hf hl he).1


/-! ## Lookup in an encoded member list -/

theorem lookup_cons (k : String) (j : Json) (rest : List (String × Json)) (n : String) :
    lookup ((k, j) :: rest) n = if k = n then some j else lookup rest n := by
  unfold lookup
  by_cases h : k = n <;> simp [h]

theorem lookup_eq_none (kvs : List (String × Json)) (n : String) (h : ∀ e ∈ kvs, e.1 ≠ n) : lookup kvs n = none := by
  induction kvs with
  | nil => rfl
  | cons e rest ih =>
    obtain ⟨k, j⟩ := e
    rw [lookup_cons, if_neg (h (k, j) (by simp))]
    exact ih (fun e he => h e (by simp [he]))

theorem lookup_append_of_not_mem (pre l : List (String × Json)) (n : String) (h : ∀ e ∈ pre, e.1 ≠ n) :
    lookup (pre ++ l) n = lookup l n := by
  induction pre with
  | nil => rfl
  | cons e rest ih =>
    obtain ⟨k, j⟩ := e
    rw [List.cons_append, lookup_cons, if_neg (h (k, j) (by simp))]
    exact ih (fun e he => h e (by simp [he]))

/-- the second skip condition of `encodeFields` is subsumed by the first -/
theorem encodeFields_cons (schemas : String → Schema) (fld : Field) (sch : Schema) (v : Val) (vs : List Val) :
    encodeFields schemas (fld :: sch) (v :: vs) =
      if fld.omitempty && isEmpty v then encodeFields schemas sch vs
      else (fld.name, encode schemas fld.kind v) :: encodeFields schemas sch vs := by
  simp only [encodeFields]
  by_cases h1 : (fld.omitempty && isEmpty v) = true
  · simp [h1]
  · rw [if_neg h1, if_neg h1]
    cases v <;> simp_all [isEmpty]

theorem encodeFields_keys (schemas : String → Schema) (sch : Schema) (vs : List Val) :
    ∀ e ∈ encodeFields schemas sch vs, e.1 ∈ sch.map (·.name) := by
  induction sch generalizing vs with
  | nil => intro e he; simp [encodeFields] at he
  | cons fld sch ih =>
    cases vs with
    | nil => intro e he; simp [encodeFields] at he
    | cons v vs =>
      intro e he
      rw [encodeFields_cons] at he
      split at he
      · exact List.mem_cons_of_mem _ (ih vs e he)
      · rcases List.mem_cons.1 he with rfl | he
        · simp
        · exact List.mem_cons_of_mem _ (ih vs e he)

/-! ## Member-level facts about `norm` -/

theorem zero_eq_norm (schemas : String → Schema) (f f' : Nat) (k : Kind) (v : Val)
    (ht : Typed schemas f k v) (he : isEmpty v = true) : zero schemas f' k = norm schemas f k true v := by
  cases f with
  | zero => simp [Typed] at ht
  | succ f =>
    unfold Typed at ht
    split at ht <;> (try simp only [isEmpty] at he) <;> (try split at he) <;> simp_all [zero, norm]

theorem norm_true_eq_false (schemas : String → Schema) (f : Nat) (k : Kind) (v : Val)
    (ht : Typed schemas f k v) (he : isEmpty v = false) : norm schemas f k true v = norm schemas f k false v := by
  cases f with
  | zero => simp [Typed] at ht
  | succ f =>
    unfold Typed at ht
    split at ht <;> (try simp only [isEmpty] at he) <;> (try split at he) <;> simp_all [norm]

theorem strsOf_map_str (xs : List Bytes) : strsOf (xs.map Json.str) = some xs := by
  induction xs with
  | nil => rfl
  | cons x xs ih => simp [strsOf, ih]

/-! ## The round trip -/

theorem decodeFieldsWith_cons (dec : Kind → Json → Option Val) (zeroOf : Kind → Val) (fld : Field) (sch : Schema)
    (kvs : List (String × Json)) :
    decodeFieldsWith dec zeroOf (fld :: sch) kvs =
      ((match lookup kvs fld.name with
        | none => some (zeroOf fld.kind)
        | some j => dec fld.kind j).bind fun b =>
        (decodeFieldsWith dec zeroOf sch kvs).bind fun bs => some (b :: bs)) := by
  unfold decodeFieldsWith
  rw [List.mapM_cons]
  rfl

/-- struct level, given the member-level round trip at fuel `f`: looking every schema member up by name in the
    encoded member list (after an arbitrary prefix `pre` of already-consumed members) recovers the normalised members -/
theorem fields_roundtrip (schemas : String → Schema) (f : Nat)
    (ih : ∀ k v, Typed schemas f k v → decode schemas f k (encode schemas k v) = some (norm schemas f k false v)) :
    ∀ (sch : Schema) (vs : List Val) (pre : List (String × Json)),
      (sch.map (·.name)).Nodup → (∀ e ∈ pre, e.1 ∉ sch.map (·.name)) →
      TypedFieldsWith (Typed schemas f) sch vs →
      decodeFieldsWith (decode schemas f) (zero schemas f) sch (pre ++ encodeFields schemas sch vs)
        = some (normFieldsWith (norm schemas f) sch vs) := by
  intro sch
  induction sch with
  | nil => intro vs pre _ _ _; cases vs <;> simp [normFieldsWith, decodeFieldsWith]
  | cons fld sch ihs =>
    intro vs pre hnd hpre ht
    cases vs with
    | nil => simp [TypedFieldsWith] at ht
    | cons v vs =>
      simp only [TypedFieldsWith] at ht
      obtain ⟨htv, hts⟩ := ht
      simp only [List.map_cons, List.nodup_cons] at hnd
      obtain ⟨hn1, hnd⟩ := hnd
      have hpre1 : ∀ e ∈ pre, e.1 ≠ fld.name := fun e he h => hpre e he (by simp [h])
      have hpre2 : ∀ e ∈ pre, e.1 ∉ sch.map (·.name) := fun e he h => hpre e he (List.mem_cons_of_mem _ h)
      rw [decodeFieldsWith_cons, encodeFields_cons, normFieldsWith]
      by_cases hskip : (fld.omitempty && isEmpty v) = true
      · rw [if_pos hskip]
        have hl : lookup (pre ++ encodeFields schemas sch vs) fld.name = none := by
          rw [lookup_append_of_not_mem _ _ _ hpre1]
          apply lookup_eq_none
          intro e he h
          exact hn1 (h ▸ encodeFields_keys schemas sch vs e he)
        simp only [Bool.and_eq_true] at hskip
        rw [hl, ihs vs pre hnd hpre2 hts, hskip.1, ← zero_eq_norm schemas f f fld.kind v htv hskip.2]
        rfl
      · rw [if_neg hskip]
        have hl : lookup (pre ++ (fld.name, encode schemas fld.kind v) :: encodeFields schemas sch vs) fld.name
            = some (encode schemas fld.kind v) := by
          rw [lookup_append_of_not_mem _ _ _ hpre1, lookup_cons, if_pos rfl]
        have hrest := ihs vs (pre ++ [(fld.name, encode schemas fld.kind v)]) hnd (by
          intro e he
          rcases List.mem_append.1 he with he | he
          · exact hpre2 e he
          · simp only [List.mem_singleton] at he
            subst he
            exact hn1) hts
        rw [List.append_assoc, List.singleton_append] at hrest
        have hn : norm schemas f fld.kind fld.omitempty v = norm schemas f fld.kind false v := by
          cases ho : fld.omitempty with
          | false => rfl
          | true =>
            apply norm_true_eq_false _ _ _ _ htv
            simpa [ho] using hskip
        rw [hl, hrest, hn]
        simp only [ih _ _ htv]
        rfl

theorem encodeObjs_eq_map (schemas : String → Schema) (sch : Schema) (xs : List Val) :
    encodeObjs schemas sch xs = xs.map (fun x => match x with
      | .obj fs => Json.obj (encodeFields schemas sch fs)
      | _ => Json.null) := by
  induction xs with
  | nil => simp [encodeObjs]
  | cons x xs ih => cases x <;> simp [encodeObjs, ih]

theorem mapM_eq_some_map {α β γ : Type} (g : β → Option γ) (e : α → β) (n : α → γ) (l : List α)
    (h : ∀ a ∈ l, g (e a) = some (n a)) : (l.map e).mapM g = some (l.map n) := by
  induction l with
  | nil => simp
  | cons a l ih =>
    rw [List.map_cons, List.mapM_cons, h a (by simp), ih (fun a ha => h a (by simp [ha]))]
    rfl

/-- member level, for any schema table whose schemas have distinct member names -/
theorem member_roundtrip (schemas : String → Schema) (hnd : ∀ ty, ((schemas ty).map (·.name)).Nodup) :
    ∀ f k v, Typed schemas f k v → decode schemas f k (encode schemas k v) = some (norm schemas f k false v) := by
  intro f
  induction f with
  | zero => intro k v ht; simp [Typed] at ht
  | succ f ihf =>
    intro k v ht
    have fr := fun ty vs => fields_roundtrip schemas f ihf (schemas ty) vs [] (hnd ty) (by simp)
    unfold Typed at ht
    split at ht <;> try (simp [encode, decode, norm, zero, B64.fromBase64URL_encode]; done)
    · exact ht.elim
    · -- nbytes
      rename_i b _
      cases b <;> simp [encode, decode, norm, zero, B64.fromBase64URL_encode]
    · -- strList
      rename_i l _
      cases l <;> simp [encode, decode, norm, zero, strsOf_map_str]
    · -- obj
      rename_i ty fs heq
      cases heq
      have := fr ty fs ht
      simp only [List.nil_append] at this
      simp [encode, decode, norm, this]
    · -- ptr
      rename_i ty fs heq
      cases heq
      have := fr ty fs ht
      simp only [List.nil_append] at this
      simp [encode, decode, norm, this]
    · -- objList
      rename_i ty xs heq
      cases heq
      simp only [encode, decode, norm]
      rw [encodeObjs_eq_map, mapM_eq_some_map (n := normObjWith (norm schemas f) (schemas ty))]
      · rfl
      · intro x hx
        obtain ⟨fs, rfl, hfs⟩ := ht x hx
        have := fr ty fs hfs
        simp only [List.nil_append] at this
        simp [normObjWith, this]
    · exact ht.elim

set_option linter.unusedVariables false in
/-- THE ROUND TRIP: for each of the eleven wire types and every well-typed value, Unmarshal(Marshal v) = norm v -/
theorem wire_roundtrip (ty : String) (hty : ty ∈ Spec.Wire.typeNames) (v : Val)
    (hv : Typed Spec.Wire.schemas 4 (.obj ty) v) :
    unmarshal Spec.Wire.schemas ty (marshal Spec.Wire.schemas ty v)
      = some (norm Spec.Wire.schemas 4 (.obj ty) false v) :=
  member_roundtrip Spec.Wire.schemas schemas_nodup 4 (.obj ty) v hv

/-! ## `norm` is idempotent -/

theorem normFields_idem (nrm : Kind → Bool → Val → Val) (T : Kind → Val → Prop)
    (h : ∀ k o v, T k v → nrm k o (nrm k o v) = nrm k o v) :
    ∀ sch vs, TypedFieldsWith T sch vs →
      normFieldsWith nrm sch (normFieldsWith nrm sch vs) = normFieldsWith nrm sch vs := by
  intro sch
  induction sch with
  | nil => intro vs _; cases vs <;> simp [normFieldsWith]
  | cons fld sch ih =>
    intro vs ht
    cases vs with
    | nil => simp [normFieldsWith]
    | cons v vs =>
      simp only [TypedFieldsWith] at ht
      simp only [normFieldsWith, h _ _ _ ht.1, ih vs ht.2]

theorem norm_idem_gen (schemas : String → Schema) :
    ∀ f k o v, Typed schemas f k v → norm schemas f k o (norm schemas f k o v) = norm schemas f k o v := by
  intro f
  induction f with
  | zero => intro k o v ht; simp [Typed] at ht
  | succ f ihf =>
    intro k o v ht
    have nf := fun ty => normFields_idem (norm schemas f) (Typed schemas f) ihf (schemas ty)
    unfold Typed at ht
    split at ht <;> try (simp [norm]; done)
    · exact ht.elim
    · -- any
      rename_i kvs _
      cases o <;> cases kvs <;> simp [norm]
    · -- strList
      rename_i l _
      rcases l with _ | _ | _ <;> cases o <;> simp [norm]
    · -- obj
      rename_i ty fs heq
      cases heq
      simp [norm, nf ty fs ht]
    · -- ptr
      rename_i ty fs heq
      cases heq
      simp [norm, nf ty fs ht]
    · -- objList
      rename_i ty xs heq
      cases heq
      have hmap : xs.map (normObjWith (norm schemas f) (schemas ty) ∘ normObjWith (norm schemas f) (schemas ty))
          = xs.map (normObjWith (norm schemas f) (schemas ty)) := by
        apply List.map_congr_left
        intro x hx
        obtain ⟨fs, rfl, hfs⟩ := ht x hx
        simp [normObjWith, nf ty fs hfs]
      cases xs with
      | nil => cases o <;> simp [norm]
      | cons x xs =>
        cases o <;> simp only [norm, List.map_cons, List.map_map] <;>
          exact congrArg (fun l => Val.objs (some l)) hmap
    · exact ht.elim

set_option linter.unusedVariables false in
/-- norm is idempotent, and a normal value round-trips unchanged -/
theorem norm_idem (ty : String) (hty : ty ∈ Spec.Wire.typeNames) (v : Val)
    (hv : Typed Spec.Wire.schemas 4 (.obj ty) v) :
    norm Spec.Wire.schemas 4 (.obj ty) false (norm Spec.Wire.schemas 4 (.obj ty) false v)
      = norm Spec.Wire.schemas 4 (.obj ty) false v :=
  norm_idem_gen Spec.Wire.schemas 4 (.obj ty) false v hv

/-! ## Re-marshalling -/

theorem isEmpty_norm_true (schemas : String → Schema) (f : Nat) (k : Kind) (v : Val)
    (ht : Typed schemas f k v) (he : isEmpty v = true) : isEmpty (norm schemas f k true v) = true := by
  rw [← zero_eq_norm schemas f 0 k v ht he]
  cases k <;> simp [zero, isEmpty]
  -- `.obj` never is empty
  cases f with
  | zero => simp [Typed] at ht
  | succ f => cases v <;> simp [Typed] at ht <;> simp [isEmpty] at he

theorem isEmpty_norm_false (schemas : String → Schema) (f : Nat) (k : Kind) (v : Val)
    (ht : Typed schemas f k v) : isEmpty (norm schemas f k false v) = isEmpty v := by
  cases f with
  | zero => simp [Typed] at ht
  | succ f =>
    unfold Typed at ht
    split at ht <;> try (simp [norm, isEmpty]; done)
    all_goals exact ht.elim

theorem encodeFields_norm (schemas : String → Schema) (f : Nat)
    (ih : ∀ k v, Typed schemas f k v → encode schemas k (norm schemas f k false v) = encode schemas k v) :
    ∀ sch vs, TypedFieldsWith (Typed schemas f) sch vs →
      encodeFields schemas sch (normFieldsWith (norm schemas f) sch vs) = encodeFields schemas sch vs := by
  intro sch
  induction sch with
  | nil => intro vs _; cases vs <;> simp [normFieldsWith, encodeFields]
  | cons fld sch ihs =>
    intro vs ht
    cases vs with
    | nil => simp [TypedFieldsWith] at ht
    | cons v vs =>
      simp only [TypedFieldsWith] at ht
      obtain ⟨htv, hts⟩ := ht
      rw [normFieldsWith, encodeFields_cons, encodeFields_cons, ihs vs hts]
      by_cases hskip : (fld.omitempty && isEmpty v) = true
      · have h2 := hskip
        simp only [Bool.and_eq_true] at h2
        have : (fld.omitempty && isEmpty (norm schemas f fld.kind fld.omitempty v)) = true := by
          rw [h2.1]; simp [isEmpty_norm_true schemas f fld.kind v htv h2.2]
        rw [if_pos hskip, if_pos this]
      · have hn : norm schemas f fld.kind fld.omitempty v = norm schemas f fld.kind false v := by
          cases ho : fld.omitempty with
          | false => rfl
          | true =>
            apply norm_true_eq_false _ _ _ _ htv
            simpa [ho] using hskip
        rw [hn, isEmpty_norm_false schemas f fld.kind v htv, ih _ _ htv]

theorem encode_norm (schemas : String → Schema) :
    ∀ f k v, Typed schemas f k v → encode schemas k (norm schemas f k false v) = encode schemas k v := by
  intro f
  induction f with
  | zero => intro k v ht; simp [Typed] at ht
  | succ f ihf =>
    intro k v ht
    have ef := fun ty => encodeFields_norm schemas f ihf (schemas ty)
    unfold Typed at ht
    split at ht <;> try (simp [norm]; done)
    · exact ht.elim
    · -- obj
      rename_i ty fs heq
      cases heq
      simp [norm, encode, ef ty fs ht]
    · -- ptr
      rename_i ty fs heq
      cases heq
      simp [norm, encode, ef ty fs ht]
    · -- objList
      rename_i ty xs heq
      cases heq
      simp only [norm, encode, encodeObjs_eq_map, List.map_map]
      congr 1
      apply List.map_congr_left
      intro x hx
      obtain ⟨fs, rfl, hfs⟩ := ht x hx
      simp [normObjWith, ef ty fs hfs]

set_option linter.unusedVariables false in
/-- re-marshalling the unmarshalled value yields the same document -/
theorem remarshal_stable (ty : String) (hty : ty ∈ Spec.Wire.typeNames) (v : Val)
    (hv : Typed Spec.Wire.schemas 4 (.obj ty) v) :
    marshal Spec.Wire.schemas ty (norm Spec.Wire.schemas 4 (.obj ty) false v) = marshal Spec.Wire.schemas ty v :=
  encode_norm Spec.Wire.schemas 4 (.obj ty) v hv

/-- a value that already is normal (e.g. one produced by Unmarshal) round-trips exactly -/
theorem wire_roundtrip_normal (ty : String) (hty : ty ∈ Spec.Wire.typeNames) (v : Val)
    (hv : Typed Spec.Wire.schemas 4 (.obj ty) v) (hn : norm Spec.Wire.schemas 4 (.obj ty) false v = v) :
    unmarshal Spec.Wire.schemas ty (marshal Spec.Wire.schemas ty v) = some v := by
  rw [wire_roundtrip ty hty v hv, hn]

/-! ## Non-vacuity -/

/-- an assertion credential: non-empty rawId, nil userHandle, an extensions map -/
def exAssertion : Val :=
  .obj [.str [65, 81], .str [112, 107], .bytes [1, 2, 3],
    .obj [.bytes [123, 125], .bytes [4, 5, 6, 7], .bytes [48, 0], .bytes []],
    .any (some (.obj [("appid", .bool true)]))]

theorem exAssertion_typed : Typed Spec.Wire.schemas 4 (.obj "assertionCredential") exAssertion := by
  simp [exAssertion, Typed, TypedFieldsWith, Spec.Wire.schemas, Spec.Wire.assertionCredential,
    Spec.Wire.assertionResponse]

example : norm Spec.Wire.schemas 4 (.obj "assertionCredential") false exAssertion = exAssertion := by
  simp [exAssertion, norm, normFieldsWith, Spec.Wire.schemas, Spec.Wire.assertionCredential,
    Spec.Wire.assertionResponse]

example : unmarshal Spec.Wire.schemas "assertionCredential"
    (marshal Spec.Wire.schemas "assertionCredential" exAssertion) = some exAssertion := by
  apply wire_roundtrip_normal _ (by simp [Spec.Wire.typeNames]) _ exAssertion_typed
  simp [exAssertion, norm, normFieldsWith, Spec.Wire.schemas, Spec.Wire.assertionCredential,
    Spec.Wire.assertionResponse]

/-- the document: rawId as an unpadded base64url string, the nil userHandle as `null` -/
example : marshal Spec.Wire.schemas "assertionCredential" exAssertion =
    .obj [("id", .str [65, 81]), ("type", .str [112, 107]), ("rawId", .str (B64.encode [1, 2, 3])),
      ("response", .obj [("clientDataJSON", .str (B64.encode [123, 125])),
        ("authenticatorData", .str (B64.encode [4, 5, 6, 7])), ("signature", .str (B64.encode [48, 0])),
        ("userHandle", .null)]),
      ("clientExtensionResults", .obj [("appid", .bool true)])] := by
  simp [exAssertion, marshal, encode, encodeFields, isEmpty, Spec.Wire.schemas, Spec.Wire.assertionCredential,
    Spec.Wire.assertionResponse]

/-- the normalisation is visible: an empty non-nil `allowCredentials` / `extensions` comes back nil -/
def exRequest : Val :=
  .obj [.bytes [9, 9], .int 60000, .str [], .objs (some []), .str [], .any (some (.obj []))]

example : Typed Spec.Wire.schemas 4 (.obj "requestOptions") exRequest := by
  simp [exRequest, Typed, TypedFieldsWith, Spec.Wire.schemas, Spec.Wire.requestOptions]

example : norm Spec.Wire.schemas 4 (.obj "requestOptions") false exRequest =
    .obj [.bytes [9, 9], .int 60000, .str [], .objs none, .str [], .any none] := by
  simp [exRequest, norm, normFieldsWith, Spec.Wire.schemas, Spec.Wire.requestOptions]

/-- the deepest type (struct → slice of structs → members) is inhabited at fuel 4, and normalisation reaches the
    innermost level (`transports`) -/
def exCreation : Val :=
  .obj [.obj [.str [], .str [65]], .obj [.bytes [], .str [66], .str [67]], .bytes [1],
    .objs (some [.obj [.str [112], .int (-7)]]), .int 0,
    .objs (some [.obj [.str [112], .bytes [5], .strs (some [])]]),
    .ptr (some (.obj [.str [], .str [], .bool false, .str [114]])), .str [], .any none]

example : Typed Spec.Wire.schemas 4 (.obj "creationOptions") exCreation := by
  simp [exCreation, Typed, TypedFieldsWith, Spec.Wire.schemas, Spec.Wire.creationOptions, Spec.Wire.rpEntity,
    Spec.Wire.userEntity, Spec.Wire.parameters, Spec.Wire.descriptor, Spec.Wire.authenticatorSelection]

example : norm Spec.Wire.schemas 4 (.obj "creationOptions") false exCreation =
    .obj [.obj [.str [], .str [65]], .obj [.bytes [], .str [66], .str [67]], .bytes [1],
      .objs (some [.obj [.str [112], .int (-7)]]), .int 0,
      .objs (some [.obj [.str [112], .bytes [5], .strs none]]),
      .ptr (some (.obj [.str [], .str [], .bool false, .str [114]])), .str [], .any none] := by
  simp [exCreation, norm, normFieldsWith, normObjWith, Spec.Wire.schemas, Spec.Wire.creationOptions,
    Spec.Wire.rpEntity, Spec.Wire.userEntity, Spec.Wire.parameters, Spec.Wire.descriptor,
    Spec.Wire.authenticatorSelection]

end WebAuthn.C14

/-! ### the regenerated facts about the Marshal/Unmarshal methods (translator T7) are the reviewed ones

  Which members each `MarshalJSON` shadows, with which Go type, JSON tag and helper (`toBase64URL`, `toNullableBase64URL`,
  `.Milliseconds()`), which receiver kind it has (all value receivers: marshalling a value and a pointer give the same document),
  what each `UnmarshalJSON` assigns from which helper, the struct tags of the eleven wire structs, and the encoding the four helpers use.
  Any edit to those methods changes a generated definition and breaks one of these proofs. -/
namespace WebAuthn.C14

set_option maxRecDepth 100000 in
theorem structFields_pinned : Generated.Wire.structFields = [
  ("PublicKeyCredentialRPEntity", [("ID", "string", "json:\"id,omitempty\""), ("Name", "string", "json:\"name\"")]),
  ("PublicKeyCredentialUserEntity", [("ID", "[]byte", "json:\"id\""), ("DisplayName", "string", "json:\"displayName\""), ("Name", "string", "json:\"name\"")]),
  ("PublicKeyCredentialDescriptor", [("Type", "PublicKeyCredentialType", "json:\"type\""), ("ID", "[]byte", "json:\"id\""), ("Transports", "[]AuthenticatorTransport", "json:\"transports,omitempty\"")]),
  ("PublicKeyCredentialParameters", [("Type", "PublicKeyCredentialType", "json:\"type\""), ("COSEAlgorithmIdentifier", "Algorithm", "json:\"alg\"")]),
  ("AuthenticatorSelectionCriteria", [("AuthenticatorAttachment", "AuthenticatorAttachment", "json:\"authenticatorAttachment,omitempty\""), ("ResidentKey", "ResidentKeyType", "json:\"residentKey,omitempty\""), ("RequireResidentKey", "bool", "json:\"requireResidentKey\""), ("UserVerification", "UserVerificationRequirement", "json:\"userVerification,omitempty\"")]),
  ("PublicKeyCredentialCreationOptions", [("RP", "PublicKeyCredentialRPEntity", "json:\"rp\""), ("User", "PublicKeyCredentialUserEntity", "json:\"user\""), ("Challenge", "[]byte", "json:\"challenge\""), ("PubKeyCredParams", "[]PublicKeyCredentialParameters", "json:\"pubKeyCredParams\""), ("Timeout", "Duration", "json:\"timeout,omitempty\""), ("ExcludeCredentials", "[]PublicKeyCredentialDescriptor", "json:\"excludeCredentials,omitempty\""), ("AuthenticatorSelection", "*AuthenticatorSelectionCriteria", "json:\"authenticatorSelection,omitempty\""), ("Attestation", "AttestationConveyancePreference", "json:\"attestation,omitempty\""), ("Extensions", "map[string]interface{}", "json:\"extensions,omitempty\"")]),
  ("PublicKeyCredentialRequestOptions", [("Challenge", "[]byte", "json:\"challenge\""), ("Timeout", "Duration", "json:\"timeout,omitempty\""), ("RPID", "string", "json:\"rpId,omitempty\""), ("AllowCredentials", "[]PublicKeyCredentialDescriptor", "json:\"allowCredentials,omitempty\""), ("UserVerification", "UserVerificationRequirement", "json:\"userVerification,omitempty\""), ("Extensions", "map[string]interface{}", "json:\"extensions,omitempty\"")]),
  ("AuthenticatorAttestationResponse", [("ClientDataJSON", "[]byte", "json:\"clientDataJSON\""), ("AttestationObject", "[]byte", "json:\"attestationObject\"")]),
  ("AuthenticatorAssertionResponse", [("ClientDataJSON", "[]byte", "json:\"clientDataJSON\""), ("AuthenticatorData", "[]byte", "json:\"authenticatorData\""), ("Signature", "[]byte", "json:\"signature\""), ("UserHandle", "[]byte", "json:\"userHandle\"")]),
  ("PublicKeyCreationCredential", [("ID", "string", "json:\"id\""), ("Type", "PublicKeyCredentialType", "json:\"type\""), ("RawID", "[]byte", "json:\"rawId\""), ("Response", "AuthenticatorAttestationResponse", "json:\"response\""), ("ClientExtensionResults", "map[string]interface{}", "json:\"clientExtensionResults,omitempty\"")]),
  ("PublicKeyAssertionCredential", [("ID", "string", "json:\"id\""), ("Type", "PublicKeyCredentialType", "json:\"type\""), ("RawID", "[]byte", "json:\"rawId\""), ("Response", "AuthenticatorAssertionResponse", "json:\"response\""), ("ClientExtensionResults", "map[string]interface{}", "json:\"clientExtensionResults,omitempty\"")])
] := rfl

set_option maxRecDepth 100000 in
theorem marshalFacts_pinned : Generated.Wire.marshalFacts = [
  ("AuthenticatorAssertionResponse", "value", [("<embedded>", "Override", ""), ("ClientDataJSON", "string", "json:\"clientDataJSON\""), ("AuthenticatorData", "string", "json:\"authenticatorData\""), ("Signature", "string", "json:\"signature\""), ("UserHandle", "*string", "json:\"userHandle\"")], [("Override", "Override(response)"), ("ClientDataJSON", "toBase64URL(recv.ClientDataJSON)"), ("AuthenticatorData", "toBase64URL(recv.AuthenticatorData)"), ("Signature", "toBase64URL(recv.Signature)"), ("UserHandle", "toNullableBase64URL(recv.UserHandle)")]),
  ("AuthenticatorAttestationResponse", "value", [("<embedded>", "Override", ""), ("ClientDataJSON", "string", "json:\"clientDataJSON\""), ("AttestationObject", "string", "json:\"attestationObject\"")], [("Override", "Override(response)"), ("ClientDataJSON", "toBase64URL(recv.ClientDataJSON)"), ("AttestationObject", "toBase64URL(recv.AttestationObject)")]),
  ("PublicKeyAssertionCredential", "value", [("<embedded>", "Override", ""), ("RawID", "string", "json:\"rawId\"")], [("Override", "Override(credential)"), ("RawID", "toBase64URL(recv.RawID)")]),
  ("PublicKeyCreationCredential", "value", [("<embedded>", "Override", ""), ("RawID", "string", "json:\"rawId\"")], [("Override", "Override(credential)"), ("RawID", "toBase64URL(recv.RawID)")]),
  ("PublicKeyCredentialCreationOptions", "value", [("<embedded>", "Override", ""), ("Challenge", "string", "json:\"challenge\""), ("Timeout", "int64", "json:\"timeout\"")], [("Override", "Override(creationOptions)"), ("Challenge", "toBase64URL(recv.Challenge)"), ("Timeout", "recv.Timeout.Milliseconds()")]),
  ("PublicKeyCredentialDescriptor", "value", [("<embedded>", "Override", ""), ("ID", "string", "json:\"id\"")], [("Override", "Override(descriptor)"), ("ID", "toBase64URL(recv.ID)")]),
  ("PublicKeyCredentialRequestOptions", "value", [("<embedded>", "Override", ""), ("Challenge", "string", "json:\"challenge\""), ("Timeout", "int64", "json:\"timeout\"")], [("Override", "Override(requestOptions)"), ("Challenge", "toBase64URL(recv.Challenge)"), ("Timeout", "recv.Timeout.Milliseconds()")]),
  ("PublicKeyCredentialUserEntity", "value", [("<embedded>", "Override", ""), ("ID", "*string", "json:\"id,omitempty\"")], [("Override", "Override(user)"), ("ID", "toNullableBase64URL(recv.ID)")])
] := rfl

set_option maxRecDepth 100000 in
theorem unmarshalFacts_pinned : Generated.Wire.unmarshalFacts = [
  ("AuthenticatorAssertionResponse", "pointer", [("<embedded>", "Override", ""), ("ClientDataJSON", "string", "json:\"clientDataJSON\""), ("AuthenticatorData", "string", "json:\"authenticatorData\""), ("Signature", "string", "json:\"signature\""), ("UserHandle", "*string", "json:\"userHandle\"")], [("err", "json.Unmarshal(raw,&override)"), ("*response", "AuthenticatorAssertionResponse(override.Override)"), ("recv.ClientDataJSON,err", "fromBase64URL(override.ClientDataJSON)"), ("recv.AuthenticatorData,err", "fromBase64URL(override.AuthenticatorData)"), ("recv.Signature,err", "fromBase64URL(override.Signature)"), ("recv.UserHandle,err", "fromNullableBase64URL(override.UserHandle)")]),
  ("AuthenticatorAttestationResponse", "pointer", [("<embedded>", "Override", ""), ("ClientDataJSON", "string", "json:\"clientDataJSON\""), ("AttestationObject", "string", "json:\"attestationObject\"")], [("err", "json.Unmarshal(raw,&override)"), ("*response", "AuthenticatorAttestationResponse(override.Override)"), ("recv.ClientDataJSON,err", "fromBase64URL(override.ClientDataJSON)"), ("recv.AttestationObject,err", "fromBase64URL(override.AttestationObject)")]),
  ("PublicKeyAssertionCredential", "pointer", [("<embedded>", "Override", ""), ("RawID", "string", "json:\"rawId\"")], [("err", "json.Unmarshal(raw,&override)"), ("*credential", "PublicKeyAssertionCredential(override.Override)"), ("recv.RawID,err", "fromBase64URL(override.RawID)")]),
  ("PublicKeyCreationCredential", "pointer", [("<embedded>", "Override", ""), ("RawID", "string", "json:\"rawId\"")], [("err", "json.Unmarshal(raw,&override)"), ("*credential", "PublicKeyCreationCredential(override.Override)"), ("recv.RawID,err", "fromBase64URL(override.RawID)")]),
  ("PublicKeyCredentialCreationOptions", "pointer", [("<embedded>", "Override", ""), ("Challenge", "string", "json:\"challenge\""), ("Timeout", "int64", "json:\"timeout\"")], [("err", "json.Unmarshal(raw,&override)"), ("*creationOptions", "PublicKeyCredentialCreationOptions(override.Override)"), ("recv.Challenge,err", "fromBase64URL(override.Challenge)"), ("recv.Timeout", "time.Duration(override.Timeout) * time.Millisecond")]),
  ("PublicKeyCredentialDescriptor", "pointer", [("<embedded>", "Override", ""), ("ID", "string", "json:\"id\"")], [("err", "json.Unmarshal(raw,&override)"), ("*descriptor", "PublicKeyCredentialDescriptor(override.Override)"), ("recv.ID,err", "fromBase64URL(override.ID)")]),
  ("PublicKeyCredentialRequestOptions", "pointer", [("<embedded>", "Override", ""), ("Challenge", "string", "json:\"challenge\""), ("Timeout", "int64", "json:\"timeout\"")], [("err", "json.Unmarshal(raw,&override)"), ("*requestOptions", "PublicKeyCredentialRequestOptions(override.Override)"), ("recv.Challenge,err", "fromBase64URL(override.Challenge)"), ("recv.Timeout", "time.Duration(override.Timeout) * time.Millisecond")]),
  ("PublicKeyCredentialUserEntity", "pointer", [("<embedded>", "Override", ""), ("ID", "*string", "json:\"id,omitempty\"")], [("err", "json.Unmarshal(raw,&override)"), ("*user", "PublicKeyCredentialUserEntity(override.Override)"), ("recv.ID,err", "fromNullableBase64URL(override.ID)")])
] := rfl

set_option maxRecDepth 100000 in
theorem base64Helpers_pinned : Generated.Wire.base64Helpers = ["fromBase64URL: base64.RawURLEncoding.DecodeString | encoded == \"\"", "toBase64URL: base64.RawURLEncoding.EncodeToString | ", "fromNullableBase64URL: base64.RawURLEncoding.DecodeString | encoded == nil || *encoded == \"\"", "toNullableBase64URL: base64.RawURLEncoding.EncodeToString | len(raw) == 0"] := rfl

/-- every MarshalJSON of a wire type has a value receiver and every UnmarshalJSON a pointer receiver -/
theorem receivers : Generated.Wire.marshalFacts.all (fun m => m.2.1 == "value") = true ∧
    Generated.Wire.unmarshalFacts.all (fun m => m.2.1 == "pointer") = true := by decide

end WebAuthn.C14
