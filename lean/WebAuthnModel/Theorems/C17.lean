import WebAuthnModel.Spec.Tpm
/-
  C17 — tpm vendor ids / hardware details from the SAN, and the android Keymaster schema tables.
-/
namespace WebAuthn.C17
open WebAuthn

/-! ### UnmarshalVendorID -/

theorem idPrefix_eq : Tpm.idPrefix = [105, 100, 58] := by decide +kernel

theorem hexDigit_eq (c : UInt8) :
    Tpm.hexDigit c = if Spec.Tpm.isHex c = true then some (Spec.Tpm.hexVal c) else none := by
  unfold Tpm.hexDigit Spec.Tpm.isHex Spec.Tpm.hexVal
  simp only [Bool.or_eq_true, Bool.and_eq_true, decide_eq_true_eq]
  repeat' split
  all_goals first | rfl | (exfalso; omega)


theorem hexDecode_len8 (h : Bytes) (hl : h.length = 8) :
    Tpm.hexDecode h = if h.all Spec.Tpm.isHex = true then some (Spec.Tpm.bytesOfHex8 h) else none := by
  match h, hl with
  | [a, b, c, d, e, f, g, i], _ =>
    simp only [Tpm.hexDecode, hexDigit_eq, Spec.Tpm.bytesOfHex8, List.all_cons, List.all_nil, List.map_cons, List.map_nil,
      Bool.and_true, Bool.and_eq_true]
    cases Spec.Tpm.isHex a <;> cases Spec.Tpm.isHex b <;> cases Spec.Tpm.isHex c <;> cases Spec.Tpm.isHex d <;>
      cases Spec.Tpm.isHex e <;> cases Spec.Tpm.isHex f <;> cases Spec.Tpm.isHex g <;> cases Spec.Tpm.isHex i <;> simp <;> rfl


theorem idPrefix_length : Tpm.idPrefix.length = 3 := by rw [idPrefix_eq]; rfl

/-- the function as a three-way condition -/
theorem unmarshalVendorId_eq (s : Bytes) :
    Tpm.unmarshalVendorId s =
      if s.length = 11 ∧ s.take 3 = Tpm.idPrefix ∧ (s.drop 3).all Spec.Tpm.isHex = true
      then some (Spec.Tpm.bytesOfHex8 (s.drop 3)) else none := by
  unfold Tpm.unmarshalVendorId
  by_cases hl : s.length = 11
  · by_cases hp : s.take 3 = Tpm.idPrefix
    · have h8 : (s.drop 3).length = 8 := by simp [hl]
      simp only [hl, hp, ne_eq, not_true_eq_false, if_false, true_and, hexDecode_len8 _ h8]
    · simp [hl, hp]
  · simp [hl]

/-- UnmarshalVendorID accepts exactly "id:" followed by eight hexadecimal digits and returns those four bytes -/
theorem vendorId_iff (s v : Bytes) :
    Tpm.unmarshalVendorId s = some v ↔
      ∃ h : Bytes, s = Tpm.idPrefix ++ h ∧ h.length = 8 ∧ h.all Spec.Tpm.isHex = true ∧ v = Spec.Tpm.bytesOfHex8 h := by
  rw [unmarshalVendorId_eq]
  constructor
  · intro h
    split at h
    · rename_i hc
      obtain ⟨hl, hp, hx⟩ := hc
      refine ⟨s.drop 3, ?_, by simp [hl], hx, ?_⟩
      · rw [← hp, List.take_append_drop]
      · exact (Option.some.inj h).symm
    · cases h
  · rintro ⟨h, rfl, hl, hx, rfl⟩
    have h3 := idPrefix_length
    have hd : (Tpm.idPrefix ++ h).drop 3 = h := by rw [← h3]; exact List.drop_left
    have ht : (Tpm.idPrefix ++ h).take 3 = Tpm.idPrefix := by rw [← h3]; exact List.take_left
    rw [hd, ht, if_pos]
    exact ⟨by simp [h3, hl], rfl, hx⟩

theorem vendorId_length (s v : Bytes) (h : Tpm.unmarshalVendorId s = some v) : v.length = 4 := by
  obtain ⟨_, _, _, _, rfl⟩ := (vendorId_iff s v).1 h
  rfl

/-- wrong length, missing prefix, or a non-hex digit ⇒ rejected -/
theorem vendorId_rejects_length (s : Bytes) (h : s.length ≠ 11) : Tpm.unmarshalVendorId s = none := by
  rw [unmarshalVendorId_eq, if_neg]; exact fun hc => h hc.1

theorem vendorId_rejects_prefix (s : Bytes) (h : s.take 3 ≠ Tpm.idPrefix) : Tpm.unmarshalVendorId s = none := by
  rw [unmarshalVendorId_eq, if_neg]; exact fun hc => h hc.2.1

theorem vendorId_rejects_nonhex (s : Bytes) (c : UInt8) (hc : c ∈ s.drop 3) (hx : Spec.Tpm.isHex c = false) :
    Tpm.unmarshalVendorId s = none := by
  rw [unmarshalVendorId_eq, if_neg]
  intro h
  have := List.all_eq_true.1 h.2.2 c hc
  rw [hx] at this; cases this


/-! ### the vendor table and the constants -/

/-- the regenerated vendor table is the reviewed one -/
theorem vendors_pinned : Generated.Tpm.vendors = Spec.Tpm.vendorsReviewed := by decide

/-- every id the table accepts is in the TCG registry (or the documented pseudo vendor) -/
theorem vendors_sound : ∀ v ∈ Generated.Tpm.vendors,
    v.1 ∈ Spec.Tpm.tcgRegistry ∨ v.1 = Spec.Tpm.fidoConformancePseudoVendor := by decide

theorem tpm_constants : Generated.Tpm.generatedValue = 0xFF544347 ∧ Generated.Tpm.tagAttestCertify = 0x8017
    ∧ Generated.Tpm.sanTagDirectoryName = 4 ∧ Generated.Tpm.oidSAN = [2, 5, 29, 17]
    ∧ Generated.Tpm.oidTPMManufacturer = Spec.Tpm.oidManufacturer ∧ Generated.Tpm.oidTPMPartNumber = Spec.Tpm.oidModel
    ∧ Generated.Tpm.oidTPMFirmwareVersion = Spec.Tpm.oidVersion := by decide

theorem vendorName_zero : Tpm.vendorName [0, 0, 0, 0] = none := by decide

/-! ### hardware details from the RDN sequence -/

/-- the vendor an attribute value denotes, if it parses and is registered -/
def vendorOf (m : Bytes) : Option (Bytes × String) :=
  match Tpm.unmarshalVendorId m with
  | none => none
  | some id =>
    match Tpm.vendorName id with
    | none => none
    | some n => some (id, n)

theorem vendorOf_eq_some (m id : Bytes) (n : String) :
    vendorOf m = some (id, n) ↔ Tpm.unmarshalVendorId m = some id ∧ Tpm.vendorName id = some n := by
  unfold vendorOf
  cases h1 : Tpm.unmarshalVendorId m with
  | none => simp
  | some id' =>
    dsimp only
    cases h2 : Tpm.vendorName id' with
    | none =>
      simp only [Option.some.injEq]
      constructor
      · intro h; cases h
      · rintro ⟨rfl, h⟩; rw [h2] at h; cases h
    | some n' =>
      simp only [Option.some.injEq, Prod.mk.injEq]
      constructor
      · rintro ⟨rfl, rfl⟩; exact ⟨rfl, h2⟩
      · rintro ⟨rfl, h⟩; rw [h2] at h; exact ⟨rfl, Option.some.inj h⟩

/-- one loop iteration, in terms of the specification OIDs -/
theorem stepAttr_eq (acc : Tpm.Acc) (a : Tpm.Attr) :
    Tpm.stepAttr acc a =
      if a.isString = false then some acc
      else if a.oid = Spec.Tpm.oidManufacturer then (vendorOf a.value).map (fun v => { acc with vendor := some v })
      else if a.oid = Spec.Tpm.oidModel then some { acc with part := a.value }
      else if a.oid = Spec.Tpm.oidVersion then some { acc with fw := a.value }
      else some acc := by
  unfold Tpm.stepAttr vendorOf
  have h1 : Generated.Tpm.oidTPMManufacturer = Spec.Tpm.oidManufacturer := rfl
  have h2 : Generated.Tpm.oidTPMPartNumber = Spec.Tpm.oidModel := rfl
  have h3 : Generated.Tpm.oidTPMFirmwareVersion = Spec.Tpm.oidVersion := rfl
  rw [h1, h2, h3]
  cases a.isString
  · simp
  · simp only [Bool.not_true, Bool.false_eq_true, if_false, Bool.true_eq_false]
    split
    · cases Tpm.unmarshalVendorId a.value with
      | none => rfl
      | some id => cases h : Tpm.vendorName id <;> simp [h]
    · rfl

/-- what the manufacturer attributes must satisfy for the loop not to fail -/
def MfrOK (attrs : List Tpm.Attr) : Prop :=
  ∀ a ∈ attrs, a.isString = true → a.oid = Spec.Tpm.oidManufacturer →
    ∃ id n, Tpm.unmarshalVendorId a.value = some id ∧ Tpm.vendorName id = some n


theorem mfrOK_cons (a : Tpm.Attr) (rest : List Tpm.Attr) :
    MfrOK (a :: rest) ↔
      (a.isString = true → a.oid = Spec.Tpm.oidManufacturer → ∃ v, vendorOf a.value = some v) ∧ MfrOK rest := by
  unfold MfrOK
  simp only [List.mem_cons, forall_eq_or_imp]
  refine and_congr (imp_congr_right fun _ => imp_congr_right fun _ => ?_) Iff.rfl
  constructor
  · rintro ⟨id, n, h⟩; exact ⟨(id, n), (vendorOf_eq_some _ _ _).2 h⟩
  · rintro ⟨⟨id, n⟩, h⟩; exact ⟨id, n, (vendorOf_eq_some _ _ _).1 h⟩

theorem lastValue_cons_neg (oid : List Nat) (a : Tpm.Attr) (rest : List Tpm.Attr)
    (h : ¬ (a.isString = true ∧ a.oid = oid)) :
    Spec.Tpm.lastValue oid (a :: rest) = Spec.Tpm.lastValue oid rest := by
  rw [Spec.Tpm.lastValue]
  cases Spec.Tpm.lastValue oid rest <;> simp [h]

theorem lastValue_cons_pos (oid : List Nat) (a : Tpm.Attr) (rest : List Tpm.Attr)
    (h : a.isString = true ∧ a.oid = oid) :
    Spec.Tpm.lastValue oid (a :: rest) = some ((Spec.Tpm.lastValue oid rest).getD a.value) := by
  rw [Spec.Tpm.lastValue]
  cases Spec.Tpm.lastValue oid rest <;> simp [h]

/-- the accumulator after the loop, as a function of the last attributes -/
def result (acc : Tpm.Acc) (attrs : List Tpm.Attr) : Tpm.Acc where
  vendor := match Spec.Tpm.lastValue Spec.Tpm.oidManufacturer attrs with
    | none => acc.vendor
    | some m => vendorOf m
  part := (Spec.Tpm.lastValue Spec.Tpm.oidModel attrs).getD acc.part
  fw := (Spec.Tpm.lastValue Spec.Tpm.oidVersion attrs).getD acc.fw

theorem oids_distinct : Spec.Tpm.oidManufacturer ≠ Spec.Tpm.oidModel ∧ Spec.Tpm.oidManufacturer ≠ Spec.Tpm.oidVersion
    ∧ Spec.Tpm.oidModel ≠ Spec.Tpm.oidVersion := by decide

/-- the loop succeeds iff every string-valued manufacturer attribute is acceptable; it keeps the last assignments -/
theorem foldAttrs_iff (attrs : List Tpm.Attr) (acc acc' : Tpm.Acc) :
    Tpm.foldAttrs acc attrs = some acc' ↔ MfrOK attrs ∧ acc' = result acc attrs := by
  obtain ⟨d12, d13, d23⟩ := oids_distinct
  induction attrs generalizing acc with
  | nil =>
    simp only [Tpm.foldAttrs, Option.some.injEq, MfrOK, List.not_mem_nil, false_imp_iff, implies_true, true_and]
    exact eq_comm
  | cons a rest ih =>
    rw [Tpm.foldAttrs, stepAttr_eq, mfrOK_cons]
    by_cases hs : a.isString = true
    · have hs' : ¬ a.isString = false := by simp [hs]
      rw [if_neg hs']
      by_cases h1 : a.oid = Spec.Tpm.oidManufacturer
      · rw [if_pos h1]
        have e2 : ¬ (a.isString = true ∧ a.oid = Spec.Tpm.oidModel) := fun h => d12 (h1.symm.trans h.2)
        have e3 : ¬ (a.isString = true ∧ a.oid = Spec.Tpm.oidVersion) := fun h => d13 (h1.symm.trans h.2)
        cases hv : vendorOf a.value with
        | none => simp [hs, h1]
        | some v =>
          simp only [Option.map_some, ih, hs, h1, forall_const, Option.some.injEq, exists_eq', true_and]
          have : result { acc with vendor := some v } rest = result acc (a :: rest) := by
            unfold result
            rw [lastValue_cons_neg _ _ _ e2, lastValue_cons_neg _ _ _ e3, lastValue_cons_pos _ _ _ ⟨hs, h1⟩]
            cases Spec.Tpm.lastValue Spec.Tpm.oidManufacturer rest <;> simp [hv]
          rw [this]
      · rw [if_neg h1]
        have e1 : ¬ (a.isString = true ∧ a.oid = Spec.Tpm.oidManufacturer) := fun h => h1 h.2
        by_cases h2 : a.oid = Spec.Tpm.oidModel
        · rw [if_pos h2]
          have e3 : ¬ (a.isString = true ∧ a.oid = Spec.Tpm.oidVersion) := fun h => d23 (h2.symm.trans h.2)
          simp only [ih, h1, false_imp_iff, implies_true, true_and]
          have : result { acc with part := a.value } rest = result acc (a :: rest) := by
            unfold result
            rw [lastValue_cons_neg _ _ _ e1, lastValue_cons_neg _ _ _ e3, lastValue_cons_pos _ _ _ ⟨hs, h2⟩]
            cases Spec.Tpm.lastValue Spec.Tpm.oidModel rest <;> simp
          rw [this]
        · rw [if_neg h2]
          have e2 : ¬ (a.isString = true ∧ a.oid = Spec.Tpm.oidModel) := fun h => h2 h.2
          by_cases h3 : a.oid = Spec.Tpm.oidVersion
          · rw [if_pos h3]
            simp only [ih, h1, false_imp_iff, implies_true, true_and]
            have : result { acc with fw := a.value } rest = result acc (a :: rest) := by
              unfold result
              rw [lastValue_cons_neg _ _ _ e1, lastValue_cons_neg _ _ _ e2, lastValue_cons_pos _ _ _ ⟨hs, h3⟩]
              cases Spec.Tpm.lastValue Spec.Tpm.oidVersion rest <;> simp
            rw [this]
          · rw [if_neg h3]
            have e3 : ¬ (a.isString = true ∧ a.oid = Spec.Tpm.oidVersion) := fun h => h3 h.2
            simp only [ih, h1, false_imp_iff, implies_true, true_and]
            have : result acc rest = result acc (a :: rest) := by
              unfold result
              rw [lastValue_cons_neg _ _ _ e1, lastValue_cons_neg _ _ _ e2, lastValue_cons_neg _ _ _ e3]
            rw [this]
    · have hs' : a.isString = false := by simpa using hs
      rw [if_pos hs']
      have e : ∀ oid, ¬ (a.isString = true ∧ a.oid = oid) := fun _ h => hs h.1
      have : result acc rest = result acc (a :: rest) := by
        unfold result
        rw [lastValue_cons_neg _ _ _ (e _), lastValue_cons_neg _ _ _ (e _), lastValue_cons_neg _ _ _ (e _)]
      rw [ih, this]
      simp [hs']


/-- hardware details are extracted exactly when every string-valued manufacturer attribute parses and names a registered vendor,
    and the LAST manufacturer / model / version attributes exist with non-empty model and version; the values returned are those attributes -/
theorem hardwareDetails_iff (attrs : List Tpm.Attr) (d : Tpm.Details) :
    Tpm.detailsFromAttrs attrs = some d ↔
      (∀ a ∈ attrs, a.isString = true → a.oid = Spec.Tpm.oidManufacturer →
          ∃ id n, Tpm.unmarshalVendorId a.value = some id ∧ Tpm.vendorName id = some n) ∧
      (∃ m, Spec.Tpm.lastValue Spec.Tpm.oidManufacturer attrs = some m ∧ Tpm.unmarshalVendorId m = some d.vendorId ∧
            Tpm.vendorName d.vendorId = some d.vendorName) ∧
      Spec.Tpm.lastValue Spec.Tpm.oidModel attrs = some d.partNumber ∧ d.partNumber ≠ [] ∧
      Spec.Tpm.lastValue Spec.Tpm.oidVersion attrs = some d.firmwareVersion ∧ d.firmwareVersion ≠ [] := by
  show _ ↔ MfrOK attrs ∧ _
  unfold Tpm.detailsFromAttrs
  constructor
  · intro h
    cases hf : Tpm.foldAttrs {} attrs with
    | none => rw [hf] at h; cases h
    | some acc =>
      rw [hf] at h
      obtain ⟨hok, rfl⟩ := (foldAttrs_iff attrs {} acc).1 hf
      refine ⟨hok, ?_⟩
      dsimp only [result] at h
      cases hm : Spec.Tpm.lastValue Spec.Tpm.oidManufacturer attrs with
      | none => rw [hm] at h; cases h
      | some m =>
        rw [hm] at h
        dsimp only at h
        cases hv : vendorOf m with
        | none => rw [hv] at h; cases h
        | some v =>
          obtain ⟨id, n⟩ := v
          rw [hv] at h
          dsimp only at h
          obtain ⟨hu, hn⟩ := (vendorOf_eq_some m id n).1 hv
          split at h
          · cases h
          · split at h
            · cases h
            · split at h
              · cases h
              · rename_i _ hp hw
                cases h
                dsimp only
                refine ⟨⟨m, rfl, hu, hn⟩, ?_, hp, ?_, hw⟩
                · cases hl : Spec.Tpm.lastValue Spec.Tpm.oidModel attrs with
                  | none => rw [hl] at hp; exact absurd rfl hp
                  | some p => rfl
                · cases hl : Spec.Tpm.lastValue Spec.Tpm.oidVersion attrs with
                  | none => rw [hl] at hw; exact absurd rfl hw
                  | some p => rfl
  · rintro ⟨hok, ⟨m, hm, hu, hn⟩, hp, hpne, hw, hwne⟩
    have hf := (foldAttrs_iff attrs {} _).2 ⟨hok, rfl⟩
    rw [hf]
    have hv := (vendorOf_eq_some m _ _).2 ⟨hu, hn⟩
    dsimp only [result]
    rw [hm]
    dsimp only
    rw [hv, hp, hw]
    dsimp only [Option.getD]
    have hz : d.vendorId ≠ [0, 0, 0, 0] := by
      intro hz; rw [hz, vendorName_zero] at hn; cases hn
    rw [if_neg hz, if_neg hpne, if_neg hwne]


/-! ### hardware details from the SAN extensions -/

theorem scanNames_first (pre : List Tpm.GeneralName) (n : Tpm.GeneralName) (post : List Tpm.GeneralName)
    (hpre : ∀ g ∈ pre, ¬ (g.cls = Tpm.classContextSpecific ∧ g.tag = 4)) (hn : n.cls = Tpm.classContextSpecific ∧ n.tag = 4) :
    Tpm.scanNames (pre ++ n :: post) =
      some (match n.rdn with | none => none | some attrs => Tpm.detailsFromAttrs attrs) := by
  have h4 : Generated.Tpm.sanTagDirectoryName = 4 := rfl
  induction pre with
  | nil =>
    rw [List.nil_append, Tpm.scanNames, h4, if_pos hn]
    cases n.rdn <;> rfl
  | cons g pre ih =>
    rw [List.cons_append, Tpm.scanNames, h4, if_neg (hpre g List.mem_cons_self)]
    exact ih fun g' hg' => hpre g' (List.mem_cons_of_mem _ hg')

/-- only the FIRST context-specific [4] (directoryName) entry of the first SAN extension that has one is used; other entries before/after are ignored -/
theorem san_first_directoryName (pre : List Tpm.GeneralName) (n : Tpm.GeneralName) (post : List Tpm.GeneralName) (rest : List Tpm.SanExt)
    (hpre : ∀ g ∈ pre, ¬ (g.cls = Tpm.classContextSpecific ∧ g.tag = 4)) (hn : n.cls = Tpm.classContextSpecific ∧ n.tag = 4) :
    Tpm.detailsFromSan (.names (pre ++ n :: post) :: rest) =
      (match n.rdn with | none => none | some attrs => Tpm.detailsFromAttrs attrs) := by
  rw [Tpm.detailsFromSan, scanNames_first pre n post hpre hn]

/-- a non-context-specific entry with tag number 4 (e.g. a universal OCTET STRING) is NOT a directoryName -/
theorem san_class_matters (g : Tpm.GeneralName) (h : g.cls ≠ Tpm.classContextSpecific) (rest : List Tpm.SanExt) :
    Tpm.detailsFromSan (.names [g] :: rest) = Tpm.detailsFromSan rest := by
  have hs : Tpm.scanNames [g] = none := by
    rw [Tpm.scanNames, if_neg (fun hc => h hc.1), Tpm.scanNames]
  rw [Tpm.detailsFromSan, hs]

theorem san_missing : Tpm.detailsFromSan [] = none := rfl

/-- an extension without any directoryName is skipped; an unparsable extension is an error -/
theorem san_skip (ns : List Tpm.GeneralName) (rest : List Tpm.SanExt)
    (h : ∀ g ∈ ns, ¬ (g.cls = Tpm.classContextSpecific ∧ g.tag = 4)) :
    Tpm.detailsFromSan (.names ns :: rest) = Tpm.detailsFromSan rest := by
  have h4 : Generated.Tpm.sanTagDirectoryName = 4 := rfl
  have hs : Tpm.scanNames ns = none := by
    induction ns with
    | nil => rfl
    | cons g ns ih =>
      rw [Tpm.scanNames, h4, if_neg (h g List.mem_cons_self)]
      exact ih fun g' hg' => h g' (List.mem_cons_of_mem _ hg')
  rw [Tpm.detailsFromSan, hs]

theorem san_bad (rest : List Tpm.SanExt) : Tpm.detailsFromSan (.bad :: rest) = none := rfl


/-! ### Keymaster schema -/

/-- Keymaster schema: the regenerated struct tags are pinned -/
theorem authList_pinned : Generated.Android.authorizationListFields.map (fun f => (f.1, f.2.2)) = [
      ("Purpose", "tag:1,explicit,set,optional"),
      ("Algorithm", "tag:2,explicit,optional"),
      ("KeySize", "tag:3,explicit,optional"),
      ("Digest", "tag:5,explicit,set,optional"),
      ("Padding", "tag:6,explicit,set,optional"),
      ("ECCurve", "tag:10,explicit,optional"),
      ("RSAPublicExponent", "tag:200,explicit,optional"),
      ("RollbackResistance", "tag:303,explicit,optional"),
      ("ActiveDateTime", "tag:400,explicit,optional"),
      ("OriginationExpireDateTime", "tag:401,explicit,optional"),
      ("UsageExpireDateTime", "tag:402,explicit,optional"),
      ("NoAuthRequired", "tag:503,explicit,optional"),
      ("UserAuthType", "tag:504,explicit,optional"),
      ("AuthTimeout", "tag:505,explicit,optional"),
      ("AllowWhileOnBody", "tag:506,explicit,optional"),
      ("TrustedUserPresenceRequired", "tag:507,explicit,optional"),
      ("TrustedConfirmationRequired", "tag:508,explicit,optional"),
      ("UnlockedDeviceRequired", "tag:509,explicit,optional"),
      ("AllApplications", "tag:600,explicit,optional"),
      ("ApplicationID", "tag:601,explicit,optional"),
      ("CreationDateTime", "tag:701,explicit,optional"),
      ("Origin", "tag:702,explicit,optional"),
      ("RootOfTrust", "tag:704,explicit,optional"),
      ("OSVersion", "tag:705,explicit,optional"),
      ("OSPatchLevel", "tag:706,explicit,optional"),
      ("AttestationApplicationID", "tag:709,explicit,optional"),
      ("AttestationIDBrand", "tag:710,explicit,optional"),
      ("AttestationIDDevice", "tag:711,explicit,optional"),
      ("AttestationIDProduct", "tag:712,explicit,optional"),
      ("AttestationIDSerial", "tag:713,explicit,optional"),
      ("AttestationIDIMEID", "tag:714,explicit,optional"),
      ("AttestationIDMEID", "tag:715,explicit,optional"),
      ("AttestationIDManufacturer", "tag:716,explicit,optional"),
      ("AttestationIDModel", "tag:717,explicit,optional"),
      ("VendorPatchLevel", "tag:718,explicit,optional"),
      ("BootPatchLevel", "tag:719,explicit,optional")] := by
  decide

/-
  `Spec.Tpm.tagOf` goes through `String.splitOn` and `String.Slice.toNat?`, which the kernel cannot evaluate
  (well-founded recursion over string positions / iterator loops; `decide`, `decide +kernel`, `rfl` and `simp` all get stuck,
  and core has no lemmas about `String.splitOn`).  `tagNum` below is the same function written by structural recursion over the
  characters; the two are compared on every regenerated struct tag by the `#guard` after the definition (a build-time
  evaluation, not a theorem), and the theorems are stated for `tagNum`.
-/

/-- split at commas -/
def splitComma : List Char → List (List Char)
  | [] => [[]]
  | c :: cs =>
    if c = ',' then [] :: splitComma cs
    else match splitComma cs with
      | [] => [[c]]
      | p :: ps => (c :: p) :: ps

/-- decimal value of a non-empty list of digits -/
def natOfDigits (cs : List Char) : Option Nat :=
  if cs = [] then none
  else cs.foldl (fun acc c => acc.bind fun n => if c.isDigit then some (n * 10 + (c.toNat - 48)) else none) (some 0)

/-- the tag number in an `asn1:"tag:N,…"` struct tag (kernel-evaluable counterpart of `Spec.Tpm.tagOf`) -/
def tagNum (asn1Tag : String) : Option Nat :=
  match (splitComma asn1Tag.toList).find? (fun p => p.take 4 == ['t', 'a', 'g', ':']) with
  | some p => natOfDigits (p.drop 4)
  | none => none

#guard Generated.Android.authorizationListFields.all fun f => tagNum f.2.2 == Spec.Tpm.tagOf f.2.2
#guard (Generated.Android.keyDescriptionFields ++ Generated.Android.rootOfTrustFields).all
  fun f => tagNum f.2.2 == Spec.Tpm.tagOf f.2.2

/-- the context tag numbers of the regenerated struct tags, in order -/
theorem authList_tag_numbers : Generated.Android.authorizationListFields.map (fun f => tagNum f.2.2) =
    [1, 2, 3, 5, 6, 10, 200, 303, 400, 401, 402, 503, 504, 505, 506, 507, 508, 509, 600, 601, 701, 702, 704, 705, 706,
      709, 710, 711, 712, 713, 714, 715, 716, 717, 718, 719].map some := by
  decide

/-- every context tag number occurs in the published schema -/
theorem authList_tags_published : ∀ f ∈ Generated.Android.authorizationListFields,
    ∃ t, tagNum f.2.2 = some t ∧ t ∈ Spec.Tpm.keymasterSchema.map (fun e => e.2.1) := by
  decide


/-- the three tags the android-key verifier relies on are purpose 1, allApplications 600, origin 702 -/
theorem verifier_tags :
    (Generated.Android.authorizationListFields.find? (fun f => f.1 == "Purpose")).map (fun f => tagNum f.2.2) = some (some 1)
    ∧ (Generated.Android.authorizationListFields.find? (fun f => f.1 == "AllApplications")).map (fun f => tagNum f.2.2)
        = some (some 600)
    ∧ (Generated.Android.authorizationListFields.find? (fun f => f.1 == "Origin")).map (fun f => tagNum f.2.2) = some (some 702)
    ∧ Generated.Android.keyOriginGenerated = 0 ∧ Generated.Android.keyMasterPurposeSign = 2 := by
  decide

theorem keyDescription_pinned :
    Generated.Android.keyDescriptionFields = [
      ("AttestationVersion", "int", ""),
      ("AttestationSecurityLevel", "Enumerated", ""),
      ("KeyMasterVersion", "int", ""),
      ("KeyMasterSecurityLevel", "Enumerated", ""),
      ("AttestationChallenge", "[]byte", ""),
      ("UniqueID", "[]byte", ""),
      ("SoftwareEnforced", "AuthorizationList", ""),
      ("TeeEnforced", "AuthorizationList", "")]
    ∧ Generated.Android.rootOfTrustFields = [
      ("VerifiedBootKey", "[]byte", ""),
      ("DeviceLocked", "bool", ""),
      ("VerifiedBootState", "Enumerated", ""),
      ("VerifiedBootHash", "[]byte", "")] := by
  decide

end WebAuthn.C17
