import WebAuthnModel.Spec.Attestation
import WebAuthnModel.Theorems.C12
import WebAuthnModel.Theorems.C08
import WebAuthnModel.Proofs.JwsLemmas
import WebAuthnModel.Proofs.X509SigLemmas
/-
  C04 — each attestation statement verifier accepts exactly when the requirements of its format hold
  (and C05: the attestation type / trust path reported).  For every environment.
-/
namespace WebAuthn.C04
open WebAuthn WebAuthn.Cbor WebAuthn.Att WebAuthn.Spec.Att

/-! ### oracle helpers -/

theorem run_askCert (env : Prog.Env) (der : Bytes) (c : CertView) :
    Prog.run env (askCert der) = some c ↔ env.answer (.x509Parse der) = .cert c := by
  simp only [askCert, Prog.run_bind, Prog.run_query]
  cases env.answer (.x509Parse der) <;> simp

theorem run_askCert_none (env : Prog.Env) (der : Bytes) :
    Prog.run env (askCert der) = none ↔ ∀ c, env.answer (.x509Parse der) ≠ .cert c := by
  simp only [askCert, Prog.run_bind, Prog.run_query]
  cases env.answer (.x509Parse der) <;> simp

theorem run_askBool (env : Prog.Env) (q : Ask) :
    Prog.run env (askBool q) = true ↔ env.answer q = .bool true := by
  simp only [askBool, Prog.run_bind, Prog.run_query]
  cases env.answer q <;> simp

theorem run_hardwareDetailsOK (c : CertView) :
    hardwareDetailsOK c = true ↔ ∃ details, Tpm.detailsFromSan (sanViews c) = some details := by
  simp only [hardwareDetailsOK, Option.isSome_iff_exists]

theorem run_askBytes (env : Prog.Env) (q : Ask) (b : Bytes) :
    Prog.run env (askBytes q) = some b ↔ env.answer q = .bytes b := by
  simp only [askBytes, Prog.run_bind, Prog.run_query]
  cases env.answer q <;> simp

theorem run_sha256 (env : Prog.Env) (b : Bytes) : Prog.run env (Att.sha256 b) = Spec.sha256 env b := by
  simp only [Att.sha256, Spec.sha256, Prog.run_bind, Prog.run_query]
  cases env.answer (.sha256 b) <;> rfl

theorem run_hashIsEqual (env : Prog.Env) (id : Nat) (data expected : Bytes) :
    Prog.run env (hashIsEqual id data expected) = true ↔ env.answer (.hash id data) = .bytes expected := by
  simp only [hashIsEqual, Prog.run_bind, Prog.run_query]
  cases env.answer (.hash id data) <;> simp

/-! ### certificates -/

theorem parseCerts_iff (env : Prog.Env) (xs : List Value) (cs : List (Bytes × CertView)) :
    Prog.run env (parseCerts xs) = some cs ↔ X5cList env xs cs := by
  induction xs generalizing cs with
  | nil =>
    cases cs <;> simp [parseCerts, X5cList]
  | cons v rest ih =>
    cases v with
    | bytes der =>
      simp only [parseCerts, asBytes, Prog.run_bind]
      cases hc : Prog.run env (askCert der) with
      | none =>
        rw [run_askCert_none] at hc
        cases cs with
        | nil => simp [X5cList]
        | cons p cs' =>
          obtain ⟨d, c⟩ := p
          simp only [Prog.run_pure, X5cList, false_iff, not_and, reduceCtorEq]
          intro _ h; exact absurd h (hc c)
      | some c =>
        rw [run_askCert] at hc
        simp only [Prog.run_bind]
        cases hr : Prog.run env (parseCerts rest) with
        | none =>
          cases cs with
          | nil => simp [X5cList]
          | cons p cs' =>
            obtain ⟨d, c'⟩ := p
            simp only [Prog.run_pure, X5cList, false_iff, not_and, reduceCtorEq]
            intro _ _ h
            rw [← ih] at h
            rw [hr] at h; cases h
        | some cs0 =>
          cases cs with
          | nil => simp [X5cList]
          | cons p cs' =>
            obtain ⟨d, c'⟩ := p
            simp only [Prog.run_pure, X5cList, Option.some.injEq, List.cons.injEq, Prod.mk.injEq, hc,
              Resp.cert.injEq, ← ih, hr]
            constructor
            · rintro ⟨⟨rfl, rfl⟩, rfl⟩; exact ⟨rfl, rfl, rfl⟩
            · rintro ⟨rfl, rfl, rfl⟩; exact ⟨⟨rfl, rfl⟩, rfl⟩
    | _ => cases cs <;> simp [parseCerts, asBytes, X5cList]

theorem unmarshal_ok_iff (env : Prog.Env) (stmt : List (Bytes × Value)) (cs : List (Bytes × CertView)) :
    Prog.run env (unmarshalCertificates stmt) = .ok cs ↔ X5c env stmt cs := by
  simp only [unmarshalCertificates, X5c]
  cases hg : stmtGet stmt "x5c" with
  | none => simp
  | some v =>
    cases v with
    | array xs =>
      simp only [asArray, Prog.run_bind, Option.some.injEq, Value.array.injEq, exists_eq_left']
      rw [← parseCerts_iff]
      cases Prog.run env (parseCerts xs) <;> simp
    | _ => simp [asArray]

theorem unmarshal_missing_iff (env : Prog.Env) (stmt : List (Bytes × Value)) :
    Prog.run env (unmarshalCertificates stmt) = .missing ↔ stmtGet stmt "x5c" = none := by
  simp only [unmarshalCertificates]
  cases hg : stmtGet stmt "x5c" with
  | none => simp
  | some v =>
    cases v with
    | array xs =>
      simp only [asArray, Prog.run_bind]
      cases Prog.run env (parseCerts xs) <;> simp
    | _ => simp [asArray]

/-! ### authenticator data, credential key, key equality -/

theorem attested_iff (o : AttObj) (d : AuthData) (acd : AttestedCredentialData) :
    attestedAuthData o = some (d, acd) ↔ Attested o d acd := by
  simp only [attestedAuthData, Attested]
  cases hu : unmarshalAuthData o.authData with
  | none => simp
  | some p =>
    obtain ⟨d', rest⟩ := p
    simp only [Option.some.injEq, Prod.mk.injEq]
    cases ha : d'.acd with
    | none =>
      simp only [reduceCtorEq, false_iff, not_exists, not_and]
      rintro r ⟨rfl, _⟩ h; rw [ha] at h; cases h
    | some a =>
      simp only [Option.some.injEq, Prod.mk.injEq]
      constructor
      · rintro ⟨rfl, rfl⟩; exact ⟨rest, ⟨rfl, rfl⟩, ha⟩
      · rintro ⟨r, ⟨rfl, rfl⟩, h⟩; rw [ha] at h; cases h; exact ⟨rfl, rfl⟩

theorem credKey_iff (acd : AttestedCredentialData) (k : Cose.Key) :
    credentialKey acd = some k ↔ CredKey acd k := by
  simp only [credentialKey, CredKey]
  cases Cose.parse acd.credentialPublicKey <;> simp

theorem keysEqual_iff (a b : KeyMat) : keysEqual a b = true ↔ a ≠ .other ∧ a = b := by
  cases a <;> simp [keysEqual]

theorem run_ite {α} (env : Prog.Env) (c : Prop) [Decidable c] (p q : Prog α) :
    Prog.run env (if c then p else q) = if c then Prog.run env p else Prog.run env q := by
  split <;> rfl

/-! ### none -/

theorem none_iff (env : Prog.Env) (res : Result) : Prog.run env verifyNone = some res ↔ NoneOK res := by
  simp only [verifyNone, NoneOK, Prog.run_pure, Option.some.injEq]
  exact eq_comm

/-! ### packed -/

theorem certAAGUID_spec (env : Prog.Env) (c : CertView) :
    (findExt c [1, 3, 6, 1, 4, 1, 45724, 1, 1, 4] = none ∧ Prog.run env (certAAGUID c) = .absent) ∨
    (∃ e, findExt c [1, 3, 6, 1, 4, 1, 45724, 1, 1, 4] = some e ∧ e.critical = true ∧
      Prog.run env (certAAGUID c) = .critical) ∨
    (∃ e, findExt c [1, 3, 6, 1, 4, 1, 45724, 1, 1, 4] = some e ∧ e.critical = false ∧
      (∀ b, KeyDesc.octetStringExact e.value = some b → b.length ≠ 16) ∧
      Prog.run env (certAAGUID c) = .invalid) ∨
    (∃ e b, findExt c [1, 3, 6, 1, 4, 1, 45724, 1, 1, 4] = some e ∧ e.critical = false ∧
      KeyDesc.octetStringExact e.value = some b ∧ b.length = 16 ∧
      Prog.run env (certAAGUID c) = .value b) := by
  have hoid : Generated.Core.oidAAGUID = [1, 3, 6, 1, 4, 1, 45724, 1, 1, 4] := rfl
  have hsz : Generated.Core.aaguidSize = 16 := rfl
  cases hf : findExt c [1, 3, 6, 1, 4, 1, 45724, 1, 1, 4] with
  | none => exact .inl ⟨rfl, by simp [certAAGUID, hoid, hf]⟩
  | some e =>
    cases hcr : e.critical with
    | true => exact .inr (.inl ⟨e, rfl, hcr, by simp [certAAGUID, hoid, hf, hcr]⟩)
    | false =>
      cases hb : KeyDesc.octetStringExact e.value with
      | none =>
        refine .inr (.inr (.inl ⟨e, rfl, hcr, ?_, by simp [certAAGUID, hoid, hf, hcr, hb]⟩))
        intro b hb'
        rw [hb] at hb'; cases hb'
      | some b =>
        by_cases hl : b.length = 16
        · exact .inr (.inr (.inr ⟨e, b, rfl, hcr, hb, hl,
            by simp [certAAGUID, hoid, hsz, hf, hcr, hb, hl]⟩))
        · refine .inr (.inr (.inl ⟨e, rfl, hcr, ?_, by simp [certAAGUID, hoid, hsz, hf, hcr, hb, hl]⟩))
          intro b' hb'
          rw [hb] at hb'; cases hb'; exact hl

theorem packedCert_iff (env : Prog.Env) (o : AttObj) (h der : Bytes) (c : CertView) :
    Prog.run env (verifyPackedCert o h der c) = true ↔
      ∃ d acd, Attested o d acd ∧
        CertSigOK env der c (getAlgorithm o.stmt) (o.authData ++ h) (getSignature o.stmt) ∧
        c.version = 3 ∧ c.country ≠ [] ∧ c.org ≠ [] ∧
        c.orgUnit = Spec.Att.s "Authenticator Attestation" ∧ c.commonName ≠ [] ∧ c.isCA = false ∧
        (∀ e, findExt c [1, 3, 6, 1, 4, 1, 45724, 1, 1, 4] = some e →
          e.critical = false ∧ KeyDesc.octetStringExact e.value = some acd.aaguid ∧ acd.aaguid.length = 16) := by
  simp only [verifyPackedCert, ← attested_iff, CertSigOK, ← C12.algX509_spec]
  cases hA : attestedAuthData o with
  | none => simp
  | some p =>
    obtain ⟨d, acd⟩ := p
    have hs : Att.s "Authenticator Attestation" = Spec.Att.s "Authenticator Attestation" := rfl
    simp only [Prog.run_bind, run_ite, Prog.run_pure, hs]
    rcases certAAGUID_spec env c with ⟨hf, hr⟩ | ⟨e, hf, hc, hr⟩ | ⟨e, hf, hc, hb, hr⟩ | ⟨e, b, hf, hc, hb, hl, hr⟩
    · simp [hf, hr, X509SigLemmas.run_certCheckSig]
    · simp [hf, hr, hc]
    · simp [hf, hr, hc]
      intro _ _ _ _ _ _ _ h1 h2
      exact hb _ h1 h2
    · simp [hf, hr, hc, hb, X509SigLemmas.run_certCheckSig]
      constructor
      · rintro ⟨h1, h2, h3, h4, h5, h6, h7, rfl⟩
        exact ⟨d, acd, ⟨rfl, rfl⟩, h1, h2, h3, h4, h5, h6, h7, rfl, hl⟩
      · rintro ⟨d', acd', ⟨rfl, rfl⟩, h1, h2, h3, h4, h5, h6, h7, rfl, _⟩
        exact ⟨h1, h2, h3, h4, h5, h6, h7, rfl⟩

theorem packedSelf_iff (env : Prog.Env) (o : AttObj) (h : Bytes) :
    Prog.run env (verifyPackedSelf o h) = true ↔
      ∃ d acd k, Attested o d acd ∧ CredKey acd k ∧ getAlgorithm o.stmt = k.alg ∧
        (∃ sc hh, Spec.Cose.schemeOf k.kty k.alg = some (sc, hh) ∧
          env.answer (.sigVerify sc hh k.material (o.authData ++ h) (getSignature o.stmt)) = .bool true) := by
  simp only [verifyPackedSelf, ← attested_iff, ← credKey_iff]
  cases hA : attestedAuthData o with
  | none => simp
  | some p =>
    obtain ⟨d, acd⟩ := p
    simp only []
    cases hK : credentialKey acd with
    | none => simp [hK]
    | some k =>
      simp only [run_ite, Prog.run_pure]
      by_cases halg : getAlgorithm o.stmt = k.alg
      · simp only [halg, ne_eq, not_true_eq_false, if_false, C12.verify_iff]
        constructor
        · intro hv; exact ⟨d, acd, k, rfl, hK, rfl, hv⟩
        · rintro ⟨d', acd', k', hda, hk', _, hv⟩
          cases hda; rw [hK] at hk'; cases hk'; exact hv
      · simp only [ne_eq, halg, not_false_eq_true, if_true, Bool.false_eq_true, false_iff, not_exists, not_and]
        rintro d' acd' k' hda hk' ha
        cases hda; rw [hK] at hk'; cases hk'; exact absurd ha halg

theorem x5c_stmtGet {env : Prog.Env} {stmt : List (Bytes × Value)} {cs : List (Bytes × CertView)}
    (hx : X5c env stmt cs) : stmtGet stmt "x5c" ≠ none := by
  obtain ⟨xs, h, _⟩ := hx
  rw [h]; exact fun h => nomatch h

theorem packed_iff (env : Prog.Env) (o : AttObj) (h : Bytes) (res : Result) :
    Prog.run env (verifyPacked o h) = some res ↔ (PackedX5cOK env o h res ∨ PackedSelfOK env o h res) := by
  have hs : Att.s "packed" = Spec.Att.s "packed" := rfl
  simp only [verifyPacked, hs, run_ite, Prog.run_pure, Prog.run_bind]
  by_cases hfmt : ¬ o.fmt = Spec.Att.s "packed"
  · simp only [ne_eq, hfmt, not_false_eq_true, if_true, reduceCtorEq, false_iff, not_or]
    exact ⟨fun hx => hfmt hx.fmt, fun hx => hfmt hx.fmt⟩
  have hfmt : o.fmt = Spec.Att.s "packed" := Decidable.not_not.1 hfmt
  simp only [ne_eq, hfmt, not_true_eq_false, if_false]
  cases hc : Prog.run env (unmarshalCertificates o.stmt) with
  | missing =>
    have hm := (unmarshal_missing_iff env o.stmt).1 hc
    simp only [Prog.run_bind, run_ite, Prog.run_pure]
    constructor
    · intro hr
      right
      by_cases hv : Prog.run env (verifyPackedSelf o h) = true
      · rw [if_pos hv] at hr
        cases hr
        obtain ⟨d, acd, k, h1, h2, h3, h4⟩ := (packedSelf_iff env o h).1 hv
        exact ⟨hfmt, hm, d, acd, k, h1, h2, h3, h4, rfl⟩
      · rw [if_neg hv] at hr; cases hr
    · rintro (hx | hx)
      · obtain ⟨_, der, c, rest, d, acd, hx5, _⟩ := hx
        exact absurd hm (x5c_stmtGet hx5)
      · obtain ⟨_, _, d, acd, k, h1, h2, h3, h4, rfl⟩ := hx
        rw [if_pos ((packedSelf_iff env o h).2 ⟨d, acd, k, h1, h2, h3, h4⟩)]
  | invalid =>
    simp only [Prog.run_pure, reduceCtorEq, false_iff, not_or]
    constructor
    · rintro ⟨_, der, c, rest, d, acd, hx5, _⟩
      rw [← unmarshal_ok_iff, hc] at hx5; cases hx5
    · rintro ⟨_, hm, _⟩
      rw [← unmarshal_missing_iff env, hc] at hm; cases hm
  | ok cs =>
    have hne : stmtGet o.stmt "x5c" ≠ none := x5c_stmtGet ((unmarshal_ok_iff env o.stmt cs).1 hc)
    cases cs with
    | nil =>
      simp only [Prog.run_pure, reduceCtorEq, false_iff, not_or]
      constructor
      · rintro ⟨_, der, c, rest, d, acd, hx5, _⟩
        rw [← unmarshal_ok_iff, hc] at hx5; cases hx5
      · rintro ⟨_, hm, _⟩; exact hne hm
    | cons p rest =>
      obtain ⟨der, c⟩ := p
      simp only [Prog.run_bind, run_ite, Prog.run_pure]
      constructor
      · intro hr
        left
        by_cases hv : Prog.run env (verifyPackedCert o h der c) = true
        · rw [if_pos hv] at hr
          cases hr
          obtain ⟨d, acd, h1, h2, h3, h4, h5, h6, h7, h8, h9⟩ := (packedCert_iff env o h der c).1 hv
          exact ⟨hfmt, der, c, rest, d, acd, (unmarshal_ok_iff env o.stmt _).1 hc, h1, h2, h3, h8, h4, h5, h6, h7, h9, rfl⟩
        · rw [if_neg hv] at hr; cases hr
      · rintro (hx | hx)
        · obtain ⟨_, der', c', rest', d, acd, hx5, h1, h2, h3, h8, h4, h5, h6, h7, h9, rfl⟩ := hx
          rw [← unmarshal_ok_iff, hc] at hx5
          cases hx5
          rw [if_pos ((packedCert_iff env o h der c).2 ⟨d, acd, h1, h2, h3, h4, h5, h6, h7, h8, h9⟩)]
        · exact absurd hx.noX5c hne

/-! ### fido-u2f -/

theorem u2f_iff (env : Prog.Env) (o : AttObj) (h : Bytes) (res : Result) :
    Prog.run env (verifyU2F o h) = some res ↔ U2FOK env o h res := by
  constructor
  · intro hr
    simp only [verifyU2F, Prog.run_bind] at hr
    split at hr
    next der c hc =>
      split at hr
      next px py hk =>
        split at hr
        · simp at hr
        next d acd hA =>
          split at hr
          next alg crv x y hK =>
            simp only [Prog.run_bind, run_ite, Prog.run_pure] at hr
            split at hr
            · cases hr
            next hfit =>
              have hfit : u2fCoordinatesFit crv x y = true := by simpa using hfit
              simp only [u2fCoordinatesFit, Bool.and_eq_true, decide_eq_true_eq] at hfit
              split at hr
              next hsig =>
                cases hr
                rw [X509SigLemmas.run_certCheckSig, C12.algX509_spec] at hsig
                exact ⟨der, c, d, acd, alg, crv, x, y, px, py, (unmarshal_ok_iff _ _ _).1 hc, hk,
                  (attested_iff _ _ _).1 hA, (credKey_iff _ _).1 hK, hfit.1.1, hfit.1.2, hfit.2, hsig, rfl⟩
              · cases hr
          · simp at hr
      · simp at hr
    · simp at hr
  · rintro ⟨der, c, d, acd, alg, crv, x, y, px, py, hx, hk, hA, hK, hcrv, hfx, hfy, hsig, rfl⟩
    have hx' := (unmarshal_ok_iff _ _ _).2 hx
    have hA' := (attested_iff _ _ _).2 hA
    have hK' := (credKey_iff _ _).2 hK
    have hfit : u2fCoordinatesFit crv x y = true := by
      simp only [u2fCoordinatesFit, Bool.and_eq_true, decide_eq_true_eq]; exact ⟨⟨hcrv, hfx⟩, hfy⟩
    have hsig' : Prog.run env (certCheckSig der c alg
        (u2fMessage d.rpIdHash h acd.credentialId x y) (getSignature o.stmt)) = true := by
      rw [X509SigLemmas.run_certCheckSig, C12.algX509_spec]; exact hsig
    simp [verifyU2F, hx', hk, hA', hK', hfit, hsig']

/-! ### android-key -/

theorem androidKey_iff (env : Prog.Env) (o : AttObj) (h : Bytes) (res : Result) :
    Prog.run env (verifyAndroidKey o h) = some res ↔ AndroidKeyOK env o h res := by
  have hoid : Generated.Core.oidAndroidKey = [1, 3, 6, 1, 4, 1, 11129, 2, 1, 17] := rfl
  have horg : (Generated.Android.keyOriginGenerated : Int) = 0 := rfl
  have hpur : (Generated.Android.keyMasterPurposeSign : Int) = 2 := rfl
  constructor
  · intro hr
    simp only [verifyAndroidKey, Prog.run_bind, hoid, horg, hpur] at hr
    split at hr
    next der c rest hc =>
      split at hr
      · simp at hr
      next d acd hA =>
        split at hr
        · simp at hr
        next k hK =>
          simp only [Prog.run_bind, run_ite, Prog.run_pure] at hr
          split at hr
          · cases hr
          next hsig =>
            split at hr
            · cases hr
            next hkeq =>
              split at hr
              · simp at hr
              next e hf =>
                split at hr
                next kd hkd =>
                  simp only [run_ite, Prog.run_pure] at hr
                  split at hr
                  · cases hr
                  next hch =>
                    split at hr
                    · cases hr
                    next hall =>
                      split at hr
                      · cases hr
                      next horig =>
                        split at hr
                        · cases hr
                        next hp =>
                          cases hr
                          simp only [Bool.not_eq_false, Bool.not_eq_eq_eq_not, Bool.not_true,
                            Bool.or_eq_true, not_or, Bool.not_eq_true, ne_eq, Decidable.not_not,
                            List.contains_iff_mem] at hsig hkeq hch hall horig hp
                          rw [X509SigLemmas.run_certCheckSig, C12.algX509_spec] at hsig
                          rw [keysEqual_iff] at hkeq
                          exact ⟨der, c, rest, d, acd, k, e, kd, (unmarshal_ok_iff _ _ _).1 hc,
                            (attested_iff _ _ _).1 hA, (credKey_iff _ _).1 hK, hsig, hkeq.1, hkeq.2, hf, hkd, hch,
                            hall.1, hall.2, horig, hp, rfl⟩
                · simp at hr
    · simp at hr
  · rintro ⟨der, c, rest, d, acd, k, e, kd, hx, hA, hK, hsig, hk1, hk2, hf, hkd, hch, ha1, ha2, horig, hp, rfl⟩
    have hx' := (unmarshal_ok_iff _ _ _).2 hx
    have hA' := (attested_iff _ _ _).2 hA
    have hK' := (credKey_iff _ _).2 hK
    have hsig' : Prog.run env (certCheckSig der c (getAlgorithm o.stmt)
        (o.authData ++ h) (getSignature o.stmt)) = true := by
      rw [X509SigLemmas.run_certCheckSig, C12.algX509_spec]; exact hsig
    have hkeq : keysEqual c.key k.material = true := (keysEqual_iff _ _).2 ⟨hk1, hk2⟩
    simp [verifyAndroidKey, hx', hA', hK', hsig', hkeq, hoid, horg, hpur, hf, hkd, hch, ha1, ha2, horig, hp]

/-! ### apple -/

theorem apple_iff (env : Prog.Env) (o : AttObj) (h : Bytes) (res : Result) :
    Prog.run env (verifyApple o h) = some res ↔ AppleOK env o h res := by
  have hoid : Generated.Core.oidAppleNonce = [1, 2, 840, 113635, 100, 8, 2] := rfl
  constructor
  · intro hr
    simp only [verifyApple, Prog.run_bind, hoid] at hr
    split at hr
    next der c rest hc =>
      split at hr
      · simp at hr
      next d acd hA =>
        split at hr
        · simp at hr
        next k hK =>
          simp only [Prog.run_bind, run_sha256] at hr
          split at hr
          · simp at hr
          next e hf =>
            split at hr
            · simp at hr
            next certNonce hn =>
              simp only [run_ite, Prog.run_pure] at hr
              split at hr
              · cases hr
              next hne =>
                split at hr
                · cases hr
                next hkeq =>
                  cases hr
                  simp only [Bool.not_eq_true', Bool.not_eq_false, ne_eq, Decidable.not_not] at hne hkeq
                  rw [keysEqual_iff] at hkeq
                  rw [← hne] at hn
                  exact ⟨der, c, rest, d, acd, k, e, (unmarshal_ok_iff _ _ _).1 hc,
                    (attested_iff _ _ _).1 hA, (credKey_iff _ _).1 hK, hf, hn, hkeq.1, hkeq.2, rfl⟩
    · simp at hr
  · rintro ⟨der, c, rest, d, acd, k, e, hx, hA, hK, hf, hn, hk1, hk2, rfl⟩
    have hx' := (unmarshal_ok_iff _ _ _).2 hx
    have hA' := (attested_iff _ _ _).2 hA
    have hK' := (credKey_iff _ _).2 hK
    have hkeq : keysEqual c.key k.material = true := (keysEqual_iff _ _).2 ⟨hk1, hk2⟩
    simp [verifyApple, hx', hA', hK', hoid, hf, hn, run_sha256, hkeq]

/-! ### android-safetynet -/

theorem safetyNet_iff (env : Prog.Env) (o : AttObj) (h : Bytes) (res : Result) :
    Prog.run env (verifySafetyNet o h) = some res ↔ SafetyNetOK env o h res :=
  JwsLemmas.verifySafetyNet_iff env o h res

/-! ### tpm -/

theorem tpm_iff (env : Prog.Env) (o : AttObj) (h : Bytes) (res : Result) :
    Prog.run env (verifyTPM o h) = some res ↔ TpmOK env o h res := by
  have hoid : Generated.Core.oidAIKCertificate = [2, 23, 133, 8, 3] := rfl
  have hgen : Generated.Tpm.generatedValue = 0xFF544347 := rfl
  have htag : Generated.Tpm.tagAttestCertify = 0x8017 := rfl
  constructor
  · intro hr
    simp only [verifyTPM, Prog.run_bind, hoid, hgen, htag] at hr
    split at hr
    next certs hc =>
      split at hr
      · simp at hr
      next ciRaw hciRaw =>
        simp only [Prog.run_bind] at hr
        split at hr
        next ci hci =>
          split at hr
          · simp at hr
          next paRaw hpaRaw =>
            split at hr
            next pa hpa =>
              split at hr
              · simp at hr
              next d acd hA =>
                split at hr
                · simp at hr
                next k hK =>
                  split at hr
                  · simp at hr
                  next pk hpk =>
                    simp only [Prog.run_bind, run_ite, Prog.run_pure, Option.ite_none_left_eq_some] at hr
                    obtain ⟨hkeq, hmagic, htype, hextra, hr⟩ := hr
                    split at hr
                    · simp at hr
                    next paEnc hpaEnc =>
                      simp only [run_ite, Prog.run_pure, Option.ite_none_left_eq_some] at hr
                      obtain ⟨hcert, hr⟩ := hr
                      split at hr
                      next nameAlg nameVal hname =>
                        simp only [run_ite, Prog.run_pure, Option.ite_none_left_eq_some] at hr
                        obtain ⟨hnalg, hr⟩ := hr
                        split at hr
                        next hashId hhid =>
                          simp only [Prog.run_bind, run_ite, Prog.run_pure, Option.ite_none_left_eq_some] at hr
                          obtain ⟨hnameOK, hr⟩ := hr
                          split at hr
                          · simp at hr
                          next ciEnc hciEnc =>
                            split at hr
                            · simp at hr
                            next der c rest =>
                              simp only [Prog.run_bind, run_ite, Prog.run_pure, Option.ite_none_left_eq_some] at hr
                              obtain ⟨hsig, hver, hhw, heku, hca, hr⟩ := hr
                              cases hr
                              simp only [Bool.not_eq_true', Bool.not_eq_false, ne_eq,
                                Decidable.not_not] at hkeq hmagic htype hextra hcert hnalg
                              simp only [Bool.not_eq_true', Bool.not_eq_false, Bool.not_eq_true, ne_eq,
                                Decidable.not_not, List.contains_iff_mem] at hnameOK hsig hver hhw heku hca
                              rw [keysEqual_iff] at hkeq
                              rw [run_hashIsEqual, C12.algHash_spec] at hextra
                              rw [run_hashIsEqual] at hnameOK
                              rw [X509SigLemmas.run_certCheckSig, C12.algX509_spec] at hsig
                              rw [run_hardwareDetailsOK] at hhw
                              exact ⟨der, c, rest, _, ciRaw, ci, paRaw, pa, d, acd, k, pk, paEnc, nameAlg, nameVal,
                                hashId, ciEnc, (unmarshal_ok_iff _ _ _).1 hc, rfl, hciRaw, hci, hpaRaw, hpa,
                                (attested_iff _ _ _).1 hA, (credKey_iff _ _).1 hK, hpk, hkeq.1, hkeq.2, hmagic, htype,
                                hextra, hpaEnc, hcert, hname, hnalg, hhid, hnameOK, hciEnc, hsig, hver, hhw, heku,
                                hca, rfl⟩
                        · simp at hr
                      · simp at hr
            · simp at hr
        · simp at hr
    · simp at hr
  · rintro ⟨der, c, rest, hashes, ciRaw, ci, paRaw, pa, d, acd, k, pk, paEnc, nameAlg, nameVal, hashId, ciEnc,
      hx, rfl, hciRaw, hci, hpaRaw, hpa, hA, hK, hpk, hpk1, hpk2, hmagic, htype, hextra, hpaEnc, hcert, hname, hnalg,
      hhid, hnameOK, hciEnc, hsig, hver, hhw, heku, hca, rfl⟩
    have hx' := (unmarshal_ok_iff _ _ _).2 hx
    have hA' := (attested_iff _ _ _).2 hA
    have hK' := (credKey_iff _ _).2 hK
    have hkeq : keysEqual pk k.material = true := (keysEqual_iff _ _).2 ⟨hpk1, hpk2⟩
    have hextra' : Prog.run env (hashIsEqual (Cose.algHash (getAlgorithm o.stmt)) (o.authData ++ h) ci.extraData) = true := by
      rw [run_hashIsEqual, C12.algHash_spec]; exact hextra
    have hnameOK' : Prog.run env (hashIsEqual hashId paEnc nameVal) = true := (run_hashIsEqual _ _ _ _).2 hnameOK
    have hsig' : Prog.run env (certCheckSig der c (getAlgorithm o.stmt) ciEnc
        (getSignature o.stmt)) = true := by
      rw [X509SigLemmas.run_certCheckSig, C12.algX509_spec]; exact hsig
    have hhw' := (run_hardwareDetailsOK _).2 hhw
    subst hnalg
    simp [verifyTPM, hx', hciRaw, hci, hpaRaw, hpa, hA', hK', hpk, hkeq, hgen, htag, hmagic, htype, hextra', hpaEnc,
      hcert, hname, hhid, hnameOK', hciEnc, hsig', hver, hhw', hoid, heku, hca]

/-! ### the dispatcher -/

theorem s_none : Spec.Att.s "none" = [110, 111, 110, 101] := by decide +kernel
theorem s_packed : Spec.Att.s "packed" = [112, 97, 99, 107, 101, 100] := by decide +kernel
theorem s_u2f : Spec.Att.s "fido-u2f" = [102, 105, 100, 111, 45, 117, 50, 102] := by decide +kernel
theorem s_tpm : Spec.Att.s "tpm" = [116, 112, 109] := by decide +kernel
theorem s_androidKey : Spec.Att.s "android-key" = [97, 110, 100, 114, 111, 105, 100, 45, 107, 101, 121] := by
  decide +kernel
theorem s_apple : Spec.Att.s "apple" = [97, 112, 112, 108, 101] := by decide +kernel
theorem s_safetyNet : Spec.Att.s "android-safetynet" =
    [97, 110, 100, 114, 111, 105, 100, 45, 115, 97, 102, 101, 116, 121, 110, 101, 116] := by decide +kernel

theorem find_none : (Generated.Core.dispatch.find? (fun e => Att.s e.1 == Spec.Att.s "none")).map (·.2) =
    some "VerifyNoneAttestationStatement" := by decide +kernel
theorem find_packed : (Generated.Core.dispatch.find? (fun e => Att.s e.1 == Spec.Att.s "packed")).map (·.2) =
    some "VerifyPackedAttestationStatement" := by decide +kernel
theorem find_u2f : (Generated.Core.dispatch.find? (fun e => Att.s e.1 == Spec.Att.s "fido-u2f")).map (·.2) =
    some "VerifyFIDOU2FAttestationStatement" := by decide +kernel
theorem find_tpm : (Generated.Core.dispatch.find? (fun e => Att.s e.1 == Spec.Att.s "tpm")).map (·.2) =
    some "VerifyTPMAttestationStatement" := by decide +kernel
theorem find_androidKey : (Generated.Core.dispatch.find? (fun e => Att.s e.1 == Spec.Att.s "android-key")).map (·.2) =
    some "VerifyAndroidKeyAttestationStatement" := by decide +kernel
theorem find_apple : (Generated.Core.dispatch.find? (fun e => Att.s e.1 == Spec.Att.s "apple")).map (·.2) =
    some "VerifyAppleAttestationStatement" := by decide +kernel
theorem find_safetyNet :
    (Generated.Core.dispatch.find? (fun e => Att.s e.1 == Spec.Att.s "android-safetynet")).map (·.2) =
    some "VerifyAndroidSafetyNetAttestationStatement" := by decide +kernel

theorem verify_none (o : AttObj) (h : Bytes) (hf : o.fmt = Spec.Att.s "none") : Att.verify o h = verifyNone := by
  unfold Att.verify; rw [hf, find_none]; rfl
theorem verify_packed (o : AttObj) (h : Bytes) (hf : o.fmt = Spec.Att.s "packed") :
    Att.verify o h = verifyPacked o h := by
  unfold Att.verify; rw [hf, find_packed]; rfl
theorem verify_u2f (o : AttObj) (h : Bytes) (hf : o.fmt = Spec.Att.s "fido-u2f") :
    Att.verify o h = verifyU2F o h := by
  unfold Att.verify; rw [hf, find_u2f]; rfl
theorem verify_tpm (o : AttObj) (h : Bytes) (hf : o.fmt = Spec.Att.s "tpm") : Att.verify o h = verifyTPM o h := by
  unfold Att.verify; rw [hf, find_tpm]; rfl
theorem verify_androidKey (o : AttObj) (h : Bytes) (hf : o.fmt = Spec.Att.s "android-key") :
    Att.verify o h = verifyAndroidKey o h := by
  unfold Att.verify; rw [hf, find_androidKey]; rfl
theorem verify_apple (o : AttObj) (h : Bytes) (hf : o.fmt = Spec.Att.s "apple") :
    Att.verify o h = verifyApple o h := by
  unfold Att.verify; rw [hf, find_apple]; rfl
theorem verify_safetyNet (o : AttObj) (h : Bytes) (hf : o.fmt = Spec.Att.s "android-safetynet") :
    Att.verify o h = verifySafetyNet o h := by
  unfold Att.verify; rw [hf, find_safetyNet]; rfl

/-- the dispatcher: a statement verifies iff its exact format identifier is one of the seven and that format's
    conditions hold -/
theorem verify_iff (env : Prog.Env) (o : AttObj) (h : Bytes) (res : Result) :
    Prog.run env (Att.verify o h) = some res ↔ FormatOK env o h res := by
  unfold FormatOK
  by_cases h1 : o.fmt = Spec.Att.s "none"
  · rw [verify_none o h h1, none_iff]
    simp [h1, s_none, s_packed, s_u2f, s_tpm, s_androidKey, s_apple, s_safetyNet]
  by_cases h2 : o.fmt = Spec.Att.s "packed"
  · rw [verify_packed o h h2, packed_iff]
    simp [h2, s_none, s_packed, s_u2f, s_tpm, s_androidKey, s_apple, s_safetyNet]
  by_cases h3 : o.fmt = Spec.Att.s "fido-u2f"
  · rw [verify_u2f o h h3, u2f_iff]
    simp [h3, s_none, s_packed, s_u2f, s_tpm, s_androidKey, s_apple, s_safetyNet]
  by_cases h4 : o.fmt = Spec.Att.s "tpm"
  · rw [verify_tpm o h h4, tpm_iff]
    simp [h4, s_none, s_packed, s_u2f, s_tpm, s_androidKey, s_apple, s_safetyNet]
  by_cases h5 : o.fmt = Spec.Att.s "android-key"
  · rw [verify_androidKey o h h5, androidKey_iff]
    simp [h5, s_none, s_packed, s_u2f, s_tpm, s_androidKey, s_apple, s_safetyNet]
  by_cases h6 : o.fmt = Spec.Att.s "apple"
  · rw [verify_apple o h h6, apple_iff]
    simp [h6, s_none, s_packed, s_u2f, s_tpm, s_androidKey, s_apple, s_safetyNet]
  by_cases h7 : o.fmt = Spec.Att.s "android-safetynet"
  · rw [verify_safetyNet o h h7, safetyNet_iff]
    simp [h7, s_none, s_packed, s_u2f, s_tpm, s_androidKey, s_apple, s_safetyNet]
  have hnot : o.fmt ∉ Spec.sevenFormats := by
    have hstr : Spec.str = Spec.Att.s := rfl
    simp only [Spec.sevenFormats, List.map_cons, List.map_nil, List.mem_cons, List.not_mem_nil, or_false, hstr]
    rintro (h' | h' | h' | h' | h' | h' | h') <;> contradiction
  rw [C08.unknown_fmt_rejected env o h hnot]
  simp [h1, h2, h3, h4, h5, h6, h7]

/-! ### the requirements, one per format (property C04) -/

theorem packed_x5c_requirements (env : Prog.Env) (o : AttObj) (h : Bytes) (res : Result)
    (hx : stmtGet o.stmt "x5c" ≠ none) (hr : Prog.run env (verifyPacked o h) = some res) :
    PackedX5cOK env o h res := by
  rcases (packed_iff env o h res).1 hr with hok | hok
  · exact hok
  · exact absurd hok.noX5c hx

theorem packed_self_requirements (env : Prog.Env) (o : AttObj) (h : Bytes) (res : Result)
    (hx : stmtGet o.stmt "x5c" = none) (hr : Prog.run env (verifyPacked o h) = some res) :
    PackedSelfOK env o h res := by
  rcases (packed_iff env o h res).1 hr with hok | hok
  · obtain ⟨_, der, c, rest, d, acd, hx5, _⟩ := hok
    exact absurd hx (x5c_stmtGet hx5)
  · exact hok

theorem u2f_requirements (env : Prog.Env) (o : AttObj) (h : Bytes) (res : Result)
    (hr : Prog.run env (verifyU2F o h) = some res) : U2FOK env o h res := (u2f_iff env o h res).1 hr

theorem tpm_requirements (env : Prog.Env) (o : AttObj) (h : Bytes) (res : Result)
    (hr : Prog.run env (verifyTPM o h) = some res) : TpmOK env o h res := (tpm_iff env o h res).1 hr

/-- T8–T10: an accepted TPM statement's AIK certificate carries, in the first directory name of its SAN, a manufacturer attribute naming a
    registered vendor together with non-empty model and version attributes -/
theorem tpm_hardware_details (env o h res) (hr : Prog.run env (verifyTPM o h) = some res) :
    ∃ der c rest details, res.x5c = der :: rest.map (·.1) ∧ X5c env o.stmt ((der, c) :: rest) ∧
      env.answer (.x509Parse der) = .cert c ∧ Tpm.detailsFromSan (sanViews c) = some details := by
  obtain ⟨der, c, rest, _, _, _, _, _, _, _, _, _, _, _, _, _, _, hx, _, _, _, _, _, _, _, _, _, _, _, _, _, _, _, _, _, _, _, _, _, _,
    ⟨details, hdet⟩, _, _, rfl⟩ := (tpm_requirements env o h res hr).body
  obtain ⟨xs, hget, hl⟩ := hx
  have hparse : env.answer (.x509Parse der) = .cert c := by
    cases xs with
    | nil => exact absurd hl (by simp [X5cList])
    | cons v vs =>
      cases v with
      | bytes b => obtain ⟨rfl, hp, _⟩ := hl; exact hp
      | _ => exact absurd hl (by simp [X5cList])
  exact ⟨der, c, rest, details, rfl, ⟨xs, hget, hl⟩, hparse, hdet⟩

theorem androidKey_requirements (env : Prog.Env) (o : AttObj) (h : Bytes) (res : Result)
    (hr : Prog.run env (verifyAndroidKey o h) = some res) : AndroidKeyOK env o h res :=
  (androidKey_iff env o h res).1 hr

theorem apple_requirements (env : Prog.Env) (o : AttObj) (h : Bytes) (res : Result)
    (hr : Prog.run env (verifyApple o h) = some res) : AppleOK env o h res := (apple_iff env o h res).1 hr

theorem safetyNet_requirements (env : Prog.Env) (o : AttObj) (h : Bytes) (res : Result)
    (hr : Prog.run env (verifySafetyNet o h) = some res) : SafetyNetOK env o h res :=
  (safetyNet_iff env o h res).1 hr

/-! ### C05: attestation type and trust path -/

theorem none_type {res : Result} (hok : NoneOK res) : res.type = "None" := by
  rw [NoneOK] at hok; rw [hok]
theorem packedX5c_type {env o h res} (hok : PackedX5cOK env o h res) :
    res.type = "Unknown" ∧ stmtGet o.stmt "x5c" ≠ none := by
  obtain ⟨_, der, c, rest, d, acd, hx5, _, _, _, _, _, _, _, _, _, rfl⟩ := hok
  exact ⟨rfl, x5c_stmtGet hx5⟩
theorem packedSelf_type {env o h res} (hok : PackedSelfOK env o h res) :
    res.type = "Self" ∧ stmtGet o.stmt "x5c" = none := by
  obtain ⟨_, hno, d, acd, k, _, _, _, _, rfl⟩ := hok
  exact ⟨rfl, hno⟩
theorem u2f_type {env o h res} (hok : U2FOK env o h res) : res.type = "Unknown" := by
  obtain ⟨der, c, d, acd, alg, crv, x, y, px, py, _, _, _, _, _, _, _, _, rfl⟩ := hok; rfl
theorem tpm_type {env o h res} (hok : TpmOK env o h res) : res.type = "AttCA" := by
  obtain ⟨der, c, rest, hashes, ciRaw, ci, paRaw, pa, d, acd, k, pk, paEnc, nameAlg, nameVal, hashId, ciEnc, _, _,
    _, _, _, _, _, _, _, _, _, _, _, _, _, _, _, _, _, _, _, _, _, _, _, _, rfl⟩ := hok
  rfl
theorem androidKey_type {env o h res} (hok : AndroidKeyOK env o h res) : res.type = "Basic" := by
  obtain ⟨der, c, rest, d, acd, k, e, kd, _, _, _, _, _, _, _, _, _, _, _, _, _, rfl⟩ := hok; rfl
theorem apple_type {env o h res} (hok : AppleOK env o h res) : res.type = "AnonCA" := by
  obtain ⟨der, c, rest, d, acd, k, e, _, _, _, _, _, _, _, rfl⟩ := hok; rfl
theorem safetyNet_type {env o h res} (hok : SafetyNetOK env o h res) : res.type = "Basic" := by
  obtain ⟨raw, v, _, _, _, _, _, _, rfl⟩ := hok; rfl

/-- C05: the attestation type reported per format -/
theorem result_type (env : Prog.Env) (o : AttObj) (h : Bytes) (res : Result)
    (hr : Prog.run env (Att.verify o h) = some res) :
    (o.fmt = Spec.Att.s "none" → res.type = "None") ∧ (o.fmt = Spec.Att.s "fido-u2f" → res.type = "Unknown") ∧
    (o.fmt = Spec.Att.s "tpm" → res.type = "AttCA") ∧ (o.fmt = Spec.Att.s "android-key" → res.type = "Basic") ∧
    (o.fmt = Spec.Att.s "android-safetynet" → res.type = "Basic") ∧ (o.fmt = Spec.Att.s "apple" → res.type = "AnonCA") ∧
    (o.fmt = Spec.Att.s "packed" → (res.type = "Self" ∧ stmtGet o.stmt "x5c" = none) ∨
      (res.type = "Unknown" ∧ stmtGet o.stmt "x5c" ≠ none)) := by
  rcases (verify_iff env o h res).1 hr with ⟨hf, hok⟩ | ⟨hf, hok⟩ | ⟨hf, hok⟩ | ⟨hf, hok⟩ | ⟨hf, hok⟩ | ⟨hf, hok⟩ |
    ⟨hf, hok⟩
  · have ht := none_type hok
    simp [hf, ht, s_none, s_packed, s_u2f, s_tpm, s_androidKey, s_apple, s_safetyNet]
  · have ht : (res.type = "Self" ∧ stmtGet o.stmt "x5c" = none) ∨
        (res.type = "Unknown" ∧ stmtGet o.stmt "x5c" ≠ none) := by
      rcases hok with hok | hok
      · exact .inr (packedX5c_type hok)
      · exact .inl (packedSelf_type hok)
    simp only [hf, s_none, s_packed, s_u2f, s_tpm, s_androidKey, s_apple, s_safetyNet]
    refine ⟨?_, ?_, ?_, ?_, ?_, ?_, fun _ => ht⟩ <;> intro hh <;> simp at hh
  · have ht := u2f_type hok
    simp [hf, ht, s_none, s_packed, s_u2f, s_tpm, s_androidKey, s_apple, s_safetyNet]
  · have ht := tpm_type hok
    simp [hf, ht, s_none, s_packed, s_u2f, s_tpm, s_androidKey, s_apple, s_safetyNet]
  · have ht := androidKey_type hok
    simp [hf, ht, s_none, s_packed, s_u2f, s_tpm, s_androidKey, s_apple, s_safetyNet]
  · have ht := apple_type hok
    simp [hf, ht, s_none, s_packed, s_u2f, s_tpm, s_androidKey, s_apple, s_safetyNet]
  · have ht := safetyNet_type hok
    simp [hf, ht, s_none, s_packed, s_u2f, s_tpm, s_androidKey, s_apple, s_safetyNet]

/-- C05: the trust path, when there is one, is the `x5c` list in order -/
theorem trust_path_is_x5c (env : Prog.Env) (o : AttObj) (h : Bytes) (res : Result)
    (hr : Prog.run env (Att.verify o h) = some res) (hne : res.x5c ≠ []) :
    ∃ certs, X5c env o.stmt certs ∧ res.x5c = certs.map (·.1) := by
  rcases (verify_iff env o h res).1 hr with ⟨_, hok⟩ | ⟨_, hok | hok⟩ | ⟨_, hok⟩ | ⟨_, hok⟩ | ⟨_, hok⟩ | ⟨_, hok⟩ |
    ⟨_, hok⟩
  · rw [NoneOK] at hok; rw [hok] at hne; exact absurd rfl hne
  · obtain ⟨_, der, c, rest, d, acd, hx5, _, _, _, _, _, _, _, _, _, rfl⟩ := hok
    exact ⟨_, hx5, rfl⟩
  · obtain ⟨_, hno, d, acd, k, _, _, _, _, rfl⟩ := hok
    exact absurd rfl hne
  · obtain ⟨der, c, d, acd, alg, crv, x, y, px, py, hx5, _, _, _, _, _, _, _, rfl⟩ := hok
    exact ⟨_, hx5, rfl⟩
  · obtain ⟨der, c, rest, hashes, ciRaw, ci, paRaw, pa, d, acd, k, pk, paEnc, nameAlg, nameVal, hashId, ciEnc, hx5, _,
      _, _, _, _, _, _, _, _, _, _, _, _, _, _, _, _, _, _, _, _, _, _, _, _, rfl⟩ := hok
    exact ⟨_, hx5, rfl⟩
  · obtain ⟨der, c, rest, d, acd, k, e, kd, hx5, _, _, _, _, _, _, _, _, _, _, _, _, rfl⟩ := hok
    exact ⟨_, hx5, rfl⟩
  · obtain ⟨der, c, rest, d, acd, k, e, hx5, _, _, _, _, _, _, rfl⟩ := hok
    exact ⟨_, hx5, rfl⟩
  · obtain ⟨raw, v, _, _, _, _, _, _, rfl⟩ := hok
    exact absurd rfl hne

end WebAuthn.C04
