import WebAuthnModel.Spec.AuthData
import WebAuthnModel.Proofs.CborFrame
import WebAuthnModel.Proofs.BytesLemmas
/-
  C10 — the authenticator-data / attested-credential-data codec accepts exactly the WebAuthn layout,
  round-trips byte for byte, and rejects every truncation.
-/
namespace WebAuthn.C10
open WebAuthn
open WebAuthn.Generated.Core
set_option linter.unusedVariables false
set_option linter.unusedSimpArgs false

/-! ## flags -/

set_option maxRecDepth 100000 in
theorem flag_bits_nat : ∀ n, n < 256 →
    (decide (n &&& 1 = 1) = n.testBit 0 ∧ decide (n &&& 4 = 4) = n.testBit 2 ∧
      decide (n &&& 64 = 64) = n.testBit 6 ∧ decide (n &&& 128 = 128) = n.testBit 7) := by
  decide

/-- flag accessors test bits 0 / 2 / 6 / 7, for all 256 flag bytes -/
theorem flag_bits (f : UInt8) :
    flagsUP f = Spec.bit f 0 ∧ flagsUV f = Spec.bit f 2 ∧ flagsAT f = Spec.bit f 6 ∧ flagsED f = Spec.bit f 7 :=
  flag_bits_nat f.toNat f.toNat_lt

/-! ## extractCBOR -/

theorem decode_frame (b : Bytes) (v : Cbor.Value) (r : Bytes) (h : Cbor.decode b = some (v, r)) :
    ∃ p : Bytes, p ≠ [] ∧ b = p ++ r ∧ ∀ s : Bytes, Cbor.decode (p ++ s) = some (v, s) := by
  obtain ⟨p, hp, hb, hfr⟩ := Cbor.item_frame _ _ _ _ _ h
  refine ⟨p, hp, hb, fun s => ?_⟩
  rw [Cbor.decode_eq_item (max (Cbor.fuelFor b) (Cbor.fuelFor (p ++ s))) (p ++ s) (Nat.le_max_right _ _)]
  exact hfr s _ (Nat.le_max_left _ _)

theorem extractCBOR_eq_some (b i r : Bytes) :
    extractCBOR b = some (i, r) ↔
      ∃ v, Cbor.decode b = some (v, r) ∧ Cbor.acceptable v = true ∧ i = b.take (b.length - r.length) := by
  unfold extractCBOR
  cases hd : Cbor.decode b with
  | none => simp
  | some vr =>
    obtain ⟨v, r'⟩ := vr
    by_cases ha : Cbor.acceptable v = true
    · simp only [ha, if_true, Option.some.injEq, Prod.mk.injEq]
      constructor
      · rintro ⟨rfl, rfl⟩; exact ⟨v, ⟨rfl, rfl⟩, ha, rfl⟩
      · rintro ⟨v', ⟨rfl, rfl⟩, _, rfl⟩; exact ⟨rfl, rfl⟩
    · simp only [ha]
      constructor
      · intro h; cases h
      · rintro ⟨v', ⟨rfl, rfl⟩, ha', _⟩; exact absurd ha' ha

theorem take_len_sub (p r : Bytes) : (p ++ r).take ((p ++ r).length - r.length) = p := by
  rw [List.length_append, Nat.add_sub_cancel]; exact List.take_left

/-- `extractCBOR` succeeds exactly on `item ++ rest` where `item` is exactly one item -/
theorem extractCBOR_iff (b i r : Bytes) :
    extractCBOR b = some (i, r) ↔ b = i ++ r ∧ Spec.OneItem i := by
  constructor
  · intro h
    obtain ⟨v, hd, ha, hi⟩ := (extractCBOR_eq_some b i r).1 h
    obtain ⟨p, hp, rfl, hfr⟩ := decode_frame b v r hd
    rw [take_len_sub] at hi
    subst hi
    refine ⟨rfl, ?_⟩
    apply (extractCBOR_eq_some i i []).2
    refine ⟨v, ?_, ha, ?_⟩
    · have := hfr []; rwa [List.append_nil] at this
    · simp
  · rintro ⟨rfl, h1⟩
    obtain ⟨v, hd, ha, _⟩ := (extractCBOR_eq_some i i []).1 h1
    obtain ⟨p, hp, hb, hfr⟩ := decode_frame i v [] hd
    rw [List.append_nil] at hb
    subst hb
    apply (extractCBOR_eq_some _ _ _).2
    exact ⟨v, hfr r, ha, (take_len_sub _ _).symm⟩

theorem oneItem_ne_nil (i : Bytes) (h : Spec.OneItem i) : i ≠ [] := by
  obtain ⟨v, hd, _, _⟩ := (extractCBOR_eq_some i i []).1 h
  obtain ⟨p, hp, hb, _⟩ := decode_frame i v [] hd
  rw [List.append_nil] at hb
  subst hb; exact hp

/-- extractCBOR splits its input: the item is a non-empty prefix, the remainder is the rest -/
theorem extractCBOR_split (b i r : Bytes) (h : extractCBOR b = some (i, r)) : b = i ++ r ∧ i ≠ [] := by
  obtain ⟨hb, h1⟩ := (extractCBOR_iff b i r).1 h
  exact ⟨hb, oneItem_ne_nil i h1⟩

/-- the result depends only on the consumed prefix -/
theorem extractCBOR_frame (b i r s : Bytes) (h : extractCBOR b = some (i, r)) :
    extractCBOR (i ++ s) = some (i, s) :=
  (extractCBOR_iff _ _ _).2 ⟨rfl, ((extractCBOR_iff b i r).1 h).2⟩

/-- so the item alone is "exactly one item" -/
theorem extractCBOR_oneItem (b i r : Bytes) (h : extractCBOR b = some (i, r)) : Spec.OneItem i :=
  ((extractCBOR_iff b i r).1 h).2

/-- prefix-freeness: every proper truncation of the item is rejected -/
theorem extractCBOR_truncation (b i r : Bytes) (h : extractCBOR b = some (i, r)) (m : Nat) (hm : m < i.length) :
    extractCBOR (b.take m) = none := by
  obtain ⟨v, hd, _, hi⟩ := (extractCBOR_eq_some b i r).1 h
  obtain ⟨p, _, rfl, _⟩ := decode_frame b v r hd
  rw [take_len_sub] at hi
  subst hi
  have := Cbor.decode_truncation _ v r hd m (by simp only [List.length_append]; omega)
  unfold extractCBOR
  rw [this]

/-- fixed-width big-endian round trips -/
theorem ofNatBE_beNat (w : Nat) (l : Bytes) (h : l.length = w) : Bytes.ofNatBE w (Bytes.beNat l) = l :=
  Bytes.ofNatBE_beNat w l h
theorem beNat_ofNatBE (w n : Nat) (h : n < 256 ^ w) : Bytes.beNat (Bytes.ofNatBE w n) = n :=
  Bytes.beNat_ofNatBE w n h
theorem beNat_lt (l : Bytes) : Bytes.beNat l < 256 ^ l.length := Bytes.beNat_lt l

/-! ## parser combinators the two `Unmarshal` functions are built from -/

/-- take exactly `k` bytes (fail when fewer are left), continue with them and the rest -/
def stage {β : Type} (k : Nat) (g : Bytes → Bytes → Option β) (raw : Bytes) : Option β :=
  if raw.length < k then none else g (raw.take k) (raw.drop k)

/-- take one byte -/
def stage1 {β : Type} (g : UInt8 → Bytes → Option β) : Bytes → Option β
  | [] => none
  | x :: raw => g x raw

/-- run `f`, continue with its result and remainder -/
def bindP {α β : Type} (f : Bytes → Option (α × Bytes)) (g : α → Bytes → Option β) (raw : Bytes) : Option β :=
  match f raw with
  | none => none
  | some (a, raw) => g a raw

def acdTail (g c : Bytes) (raw : Bytes) : Option (AttestedCredentialData × Bytes) :=
  match extractCBOR raw with
  | none => none
  | some (key, rest) => some (⟨g, c, key⟩, rest)

def optACD (t : Bool) (raw : Bytes) : Option (Option AttestedCredentialData × Bytes) :=
  if t then
    match unmarshalACD raw with
    | none => none
    | some (acd, rest) => some (some acd, rest)
  else some (none, raw)

def extTail (h : Bytes) (f : UInt8) (sc : Nat) (acd : Option AttestedCredentialData) (raw : Bytes) :
    Option (AuthData × Bytes) :=
  if flagsED f then
    match extractCBOR raw with
    | none => none
    | some (ext, rest) => some (⟨h, f, sc, acd, ext⟩, rest)
  else some (⟨h, f, sc, acd, []⟩, raw)

/-- the model's `unmarshalACD` is literally this composition (checked by `rfl`: the sizes come from `Generated.Core`) -/
theorem unmarshalACD_eq (raw : Bytes) : unmarshalACD raw =
    stage 16 (fun g raw => stage 2 (fun L raw => stage (Bytes.beNat L) (fun c raw => acdTail g c raw) raw) raw) raw := rfl

/-- the model's `unmarshalAuthData` is literally this composition -/
theorem unmarshalAuthData_eq (raw : Bytes) : unmarshalAuthData raw =
    stage 32 (fun h raw => stage1 (fun f raw => stage 4 (fun sc raw =>
      bindP (optACD (flagsAT f)) (fun acd raw => extTail h f (Bytes.beNat sc) acd raw) raw) raw) raw) raw := by
  unfold unmarshalAuthData stage
  simp only [rpIdHashSize]
  by_cases h : raw.length < 32
  · simp only [h, if_true]
  · simp only [h, if_false]
    cases List.drop 32 raw with
    | nil => rfl
    | cons f q =>
      simp only [stage1]
      rw [if_neg (by decide)]
      by_cases h4 : q.length < 4
      · simp only [h4, if_true]
      · simp only [h4, if_false]
        unfold bindP optACD extTail
        cases flagsAT f with
        | false => rfl
        | true =>
          simp only [if_true]
          cases unmarshalACD (List.drop 4 q) with
          | none => rfl
          | some ar => rfl

/-! ### success characterisations -/

theorem stage_eq_some {β : Type} (k : Nat) (g : Bytes → Bytes → Option β) (raw : Bytes) (x : β) :
    stage k g raw = some x ↔ ∃ p q, raw = p ++ q ∧ p.length = k ∧ g p q = some x := by
  unfold stage
  constructor
  · intro h
    split at h
    · cases h
    · rename_i hk
      exact ⟨raw.take k, raw.drop k, (List.take_append_drop k raw).symm, by rw [List.length_take]; omega, h⟩
  · rintro ⟨p, q, rfl, rfl, h⟩
    rw [if_neg (by simp), List.take_left, List.drop_left]; exact h

theorem stage_append {β : Type} (k : Nat) (g : Bytes → Bytes → Option β) (p q : Bytes) (h : p.length = k) :
    stage k g (p ++ q) = g p q := by
  subst h; unfold stage; rw [if_neg (by simp), List.take_left, List.drop_left]

theorem stage1_eq_some {β : Type} (g : UInt8 → Bytes → Option β) (raw : Bytes) (x : β) :
    stage1 g raw = some x ↔ ∃ f q, raw = f :: q ∧ g f q = some x := by
  cases raw with
  | nil => simp [stage1]
  | cons f q =>
    simp only [stage1, List.cons.injEq]
    constructor
    · intro h; exact ⟨f, q, ⟨rfl, rfl⟩, h⟩
    · rintro ⟨f', q', ⟨rfl, rfl⟩, h⟩; exact h

theorem bindP_eq_some {α β : Type} (f : Bytes → Option (α × Bytes)) (g : α → Bytes → Option β) (raw : Bytes)
    (x : β) : bindP f g raw = some x ↔ ∃ a r, f raw = some (a, r) ∧ g a r = some x := by
  unfold bindP
  cases f raw with
  | none => simp
  | some ar =>
    obtain ⟨a, r⟩ := ar
    simp only [Option.some.injEq, Prod.mk.injEq]
    constructor
    · intro h; exact ⟨a, r, ⟨rfl, rfl⟩, h⟩
    · rintro ⟨a', r', ⟨rfl, rfl⟩, h⟩; exact h

theorem acdTail_eq_some (g c raw : Bytes) (a : AttestedCredentialData) (rest : Bytes) :
    acdTail g c raw = some (a, rest) ↔ ∃ key, extractCBOR raw = some (key, rest) ∧ a = ⟨g, c, key⟩ := by
  unfold acdTail
  cases extractCBOR raw with
  | none => simp
  | some kr =>
    obtain ⟨key, r⟩ := kr
    simp only [Option.some.injEq, Prod.mk.injEq]
    constructor
    · rintro ⟨rfl, rfl⟩; exact ⟨key, ⟨rfl, rfl⟩, rfl⟩
    · rintro ⟨key', ⟨rfl, rfl⟩, rfl⟩; exact ⟨rfl, rfl⟩

/-- `unmarshalACD` accepts exactly `aaguid(16) ‖ be16 len ‖ credId(len) ‖ one CBOR item ‖ rest` -/
theorem unmarshalACD_iff (b : Bytes) (a : AttestedCredentialData) (rest : Bytes) :
    unmarshalACD b = some (a, rest) ↔
      a.aaguid.length = 16 ∧ a.credentialId.length < 65536 ∧ Spec.OneItem a.credentialPublicKey ∧
        b = marshalACD a ++ rest := by
  rw [unmarshalACD_eq]
  constructor
  · intro h
    obtain ⟨g, q1, rfl, hg, h1⟩ := (stage_eq_some _ _ _ _).1 h
    obtain ⟨L, q2, rfl, hL, h2⟩ := (stage_eq_some _ _ _ _).1 h1
    obtain ⟨c, q3, rfl, hc, h3⟩ := (stage_eq_some _ _ _ _).1 h2
    obtain ⟨key, hk, rfl⟩ := (acdTail_eq_some _ _ _ _ _).1 h3
    obtain ⟨rfl, hone⟩ := (extractCBOR_iff _ _ _).1 hk
    have hlt := Bytes.beNat_lt L
    rw [hL] at hlt
    refine ⟨hg, by simp only; omega, hone, ?_⟩
    simp only [marshalACD, hc, Bytes.ofNatBE_beNat 2 L hL, List.append_assoc]
  · rintro ⟨hg, hc, h1, rfl⟩
    unfold marshalACD
    simp only [List.append_assoc]
    rw [stage_append _ _ _ _ hg, stage_append _ _ _ _ (Bytes.length_ofNatBE _ _),
      Bytes.beNat_ofNatBE 2 _ hc, stage_append _ _ _ _ rfl]
    unfold acdTail
    rw [(extractCBOR_iff _ _ _).2 ⟨rfl, h1⟩]

theorem optACD_iff (t : Bool) (q : Bytes) (acd : Option AttestedCredentialData) (r1 : Bytes) :
    optACD t q = some (acd, r1) ↔ ∃ acdBytes, q = acdBytes ++ r1 ∧
      (if t then
        ∃ a : AttestedCredentialData, acd = some a ∧ a.aaguid.length = 16 ∧ a.credentialId.length < 65536 ∧
          Spec.OneItem a.credentialPublicKey ∧ acdBytes = marshalACD a
       else acd = none ∧ acdBytes = []) := by
  cases t with
  | false =>
    simp only [optACD, Bool.false_eq_true, if_false, Option.some.injEq, Prod.mk.injEq]
    constructor
    · rintro ⟨rfl, rfl⟩; exact ⟨[], rfl, rfl, rfl⟩
    · rintro ⟨_, rfl, rfl, rfl⟩; exact ⟨rfl, rfl⟩
  | true =>
    simp only [optACD, if_true]
    cases hu : unmarshalACD q with
    | none =>
      constructor
      · intro h; cases h
      · rintro ⟨acdBytes, rfl, a, rfl, h1, h2, h3, rfl⟩
        rw [(unmarshalACD_iff _ a r1).2 ⟨h1, h2, h3, rfl⟩] at hu; cases hu
    | some ar =>
      obtain ⟨a, r⟩ := ar
      simp only [Option.some.injEq, Prod.mk.injEq]
      constructor
      · rintro ⟨rfl, rfl⟩
        obtain ⟨h1, h2, h3, hq⟩ := (unmarshalACD_iff _ _ _).1 hu
        exact ⟨marshalACD a, hq, a, rfl, h1, h2, h3, rfl⟩
      · rintro ⟨acdBytes, hq, a', rfl, h1', h2', h3', rfl⟩
        have := (unmarshalACD_iff q a' r1).2 ⟨h1', h2', h3', hq⟩
        rw [hu] at this
        simp only [Option.some.injEq, Prod.mk.injEq] at this
        obtain ⟨rfl, rfl⟩ := this
        exact ⟨rfl, rfl⟩

theorem extTail_iff (h : Bytes) (f : UInt8) (sc : Nat) (acd : Option AttestedCredentialData) (q : Bytes)
    (d : AuthData) (rest : Bytes) :
    extTail h f sc acd q = some (d, rest) ↔ ∃ extBytes, q = extBytes ++ rest ∧
      d.rpIdHash = h ∧ d.flags = f ∧ d.signCount = sc ∧ d.acd = acd ∧
      (if flagsED f then Spec.OneItem d.extensions ∧ extBytes = d.extensions
       else d.extensions = [] ∧ extBytes = []) := by
  obtain ⟨dh, df, dsc, dacd, dext⟩ := d
  unfold extTail
  cases hE : flagsED f with
  | true =>
    simp only [if_true]
    cases he : extractCBOR q with
    | none =>
      constructor
      · intro h; cases h
      · rintro ⟨extBytes, rfl, _, _, _, _, h1, rfl⟩
        rw [(extractCBOR_iff _ _ _).2 ⟨rfl, h1⟩] at he; cases he
    | some er =>
      obtain ⟨ext, r⟩ := er
      simp only [Option.some.injEq, Prod.mk.injEq, AuthData.mk.injEq]
      constructor
      · rintro ⟨⟨rfl, rfl, rfl, rfl, rfl⟩, rfl⟩
        obtain ⟨hq, h1⟩ := (extractCBOR_iff _ _ _).1 he
        exact ⟨ext, hq, rfl, rfl, rfl, rfl, h1, rfl⟩
      · rintro ⟨extBytes, hq, rfl, rfl, rfl, rfl, h1, hx⟩
        rw [hx] at hq
        have := (extractCBOR_iff q dext rest).2 ⟨hq, h1⟩
        rw [he] at this
        simp only [Option.some.injEq, Prod.mk.injEq] at this
        obtain ⟨rfl, rfl⟩ := this
        exact ⟨⟨rfl, rfl, rfl, rfl, rfl⟩, rfl⟩
  | false =>
    simp only [Bool.false_eq_true, if_false, Option.some.injEq, Prod.mk.injEq, AuthData.mk.injEq]
    constructor
    · rintro ⟨⟨rfl, rfl, rfl, rfl, rfl⟩, rfl⟩
      exact ⟨[], rfl, rfl, rfl, rfl, rfl, rfl, rfl⟩
    · rintro ⟨_, rfl, rfl, rfl, rfl, rfl, rfl, rfl⟩
      exact ⟨⟨rfl, rfl, rfl, rfl, rfl⟩, rfl⟩

/-- Unmarshal accepts exactly the WebAuthn layout, returns each field with exactly the input bytes and the
unconsumed suffix -/
theorem unmarshal_layout (b : Bytes) (d : AuthData) (rest : Bytes) :
    unmarshalAuthData b = some (d, rest) ↔ Spec.Layout b d rest := by
  rw [unmarshalAuthData_eq]
  unfold Spec.Layout
  rw [← (flag_bits d.flags).2.2.1, ← (flag_bits d.flags).2.2.2]
  constructor
  · intro h
    obtain ⟨hh, q1, rfl, hhl, h1⟩ := (stage_eq_some _ _ _ _).1 h
    obtain ⟨f, q2, rfl, h2⟩ := (stage1_eq_some _ _ _).1 h1
    obtain ⟨sc, q3, rfl, hsc, h3⟩ := (stage_eq_some _ _ _ _).1 h2
    obtain ⟨acd, r1, hacd, h4⟩ := (bindP_eq_some _ _ _ _).1 h3
    obtain ⟨acdBytes, rfl, hA⟩ := (optACD_iff _ _ _ _).1 hacd
    obtain ⟨extBytes, rfl, rfl, rfl, hsc', rfl, hE⟩ := (extTail_iff _ _ _ _ _ _ _).1 h4
    refine ⟨acdBytes, extBytes, ?_, hhl, ?_, hA, hE⟩
    · rw [hsc', Bytes.ofNatBE_beNat 4 sc hsc]; simp only [List.append_assoc, List.cons_append, List.nil_append]
    · rw [hsc']; have := Bytes.beNat_lt sc; rw [hsc] at this; omega
  · rintro ⟨acdBytes, extBytes, rfl, hhl, hsc, hA, hE⟩
    simp only [List.append_assoc, List.cons_append, List.nil_append]
    rw [stage_append _ _ _ _ hhl]
    simp only [stage1]
    rw [stage_append _ _ _ _ (Bytes.length_ofNatBE _ _)]
    apply (bindP_eq_some _ _ _ _).2
    refine ⟨d.acd, extBytes ++ rest, (optACD_iff _ _ _ _).2 ⟨acdBytes, rfl, hA⟩, ?_⟩
    apply (extTail_iff _ _ _ _ _ _ _).2
    exact ⟨extBytes, rfl, rfl, rfl, (Bytes.beNat_ofNatBE 4 _ (by omega)).symm, rfl, hE⟩

/-- the empty map `a0` followed by anything is one item (evaluated by `simp`, no native code) -/
theorem extractCBOR_a0 (s : Bytes) : extractCBOR (0xa0 :: s) = some ([0xa0], s) := by
  have : Cbor.decode (0xa0 :: s) = some (.map [], s) := by
    simp [Cbor.decode, Cbor.fuelFor, Cbor.item, Cbor.head, Cbor.items, Cbor.maxNested, Cbor.maxElems]
  simp [extractCBOR, this, Cbor.acceptable, Cbor.acceptablePairs]

/-- non-vacuity: flags 0xC1 (UP|AT|ED), 2-byte credential id, key item `a0`, extension item `a0`, one byte left -/
example :
    unmarshalAuthData
        (List.replicate 32 7 ++ [0xC1] ++ [0, 0, 0, 5] ++
          (List.replicate 16 9 ++ [0, 2] ++ [1, 2] ++ [0xa0]) ++ [0xa0] ++ [0x99]) =
      some (⟨List.replicate 32 7, 0xC1, 5, some ⟨List.replicate 16 9, [1, 2], [0xa0]⟩, [0xa0]⟩, [0x99]) := by
  simp [unmarshalAuthData, unmarshalACD, rpIdHashSize, aaguidSize, flagsSize, extractCBOR_a0, flagsAT, flagsED,
    flagTest, accAT, accED, Bytes.beNat, List.replicate]

/-- and therefore `Spec.Layout` is inhabited at that point -/
example :
    Spec.Layout
        (List.replicate 32 7 ++ [0xC1] ++ [0, 0, 0, 5] ++
          (List.replicate 16 9 ++ [0, 2] ++ [1, 2] ++ [0xa0]) ++ [0xa0] ++ [0x99])
        ⟨List.replicate 32 7, 0xC1, 5, some ⟨List.replicate 16 9, [1, 2], [0xa0]⟩, [0xa0]⟩ [0x99] := by
  apply (unmarshal_layout _ _ _).1
  simp [unmarshalAuthData, unmarshalACD, rpIdHashSize, aaguidSize, flagsSize, extractCBOR_a0, flagsAT, flagsED,
    flagTest, accAT, accED, Bytes.beNat, List.replicate]

/-! ## round trips -/

/-- the flag-dependent part of `Spec.Layout` / `Spec.WellFormed`, with the optional byte strings made explicit -/
def Parts (d : AuthData) (acdBytes extBytes : Bytes) : Prop :=
  (if Spec.bit d.flags 6 then
      ∃ a : AttestedCredentialData, d.acd = some a ∧ a.aaguid.length = 16 ∧ a.credentialId.length < 65536 ∧
        Spec.OneItem a.credentialPublicKey ∧ acdBytes = marshalACD a
    else d.acd = none ∧ acdBytes = []) ∧
  (if Spec.bit d.flags 7 then Spec.OneItem d.extensions ∧ extBytes = d.extensions
    else d.extensions = [] ∧ extBytes = [])

theorem layout_iff_parts (b : Bytes) (d : AuthData) (rest : Bytes) :
    Spec.Layout b d rest ↔ ∃ acdBytes extBytes : Bytes,
      b = d.rpIdHash ++ [d.flags] ++ Bytes.ofNatBE 4 d.signCount ++ acdBytes ++ extBytes ++ rest ∧
      d.rpIdHash.length = 32 ∧ d.signCount < 2 ^ 32 ∧ Parts d acdBytes extBytes := Iff.rfl

theorem wellFormed_iff_parts (d : AuthData) :
    Spec.WellFormed d ↔ d.rpIdHash.length = 32 ∧ d.signCount < 2 ^ 32 ∧ ∃ acdBytes extBytes, Parts d acdBytes extBytes := by
  unfold Spec.WellFormed Parts
  constructor
  · rintro ⟨h1, h2, hA, hE⟩
    refine ⟨h1, h2, ?_⟩
    by_cases h6 : Spec.bit d.flags 6 = true <;> by_cases h7 : Spec.bit d.flags 7 = true <;>
      simp only [h6, h7, if_true, if_false] at hA hE ⊢
    · obtain ⟨a, ha, hrest⟩ := hA
      exact ⟨marshalACD a, d.extensions, ⟨a, ha, hrest.1, hrest.2.1, hrest.2.2, rfl⟩, hE, rfl⟩
    · obtain ⟨a, ha, hrest⟩ := hA
      exact ⟨marshalACD a, [], ⟨a, ha, hrest.1, hrest.2.1, hrest.2.2, rfl⟩, hE, rfl⟩
    · exact ⟨[], d.extensions, ⟨hA, rfl⟩, hE, rfl⟩
    · exact ⟨[], [], ⟨hA, rfl⟩, hE, rfl⟩
  · rintro ⟨h1, h2, acdBytes, extBytes, hA, hE⟩
    refine ⟨h1, h2, ?_, ?_⟩
    · by_cases h6 : Spec.bit d.flags 6 = true <;> simp only [h6, if_true, if_false] at hA ⊢
      · obtain ⟨a, ha, h3, h4, h5, _⟩ := hA
        exact ⟨a, ha, h3, h4, h5⟩
      · exact hA.1
    · by_cases h7 : Spec.bit d.flags 7 = true <;> simp only [h7, if_true, if_false] at hE ⊢
      · exact hE.1
      · exact hE.1

theorem marshal_of_parts (d : AuthData) (acdBytes extBytes : Bytes) (h : Parts d acdBytes extBytes) :
    marshalAuthData d =
      some (d.rpIdHash ++ [d.flags] ++ Bytes.ofNatBE 4 d.signCount ++ acdBytes ++ extBytes) := by
  obtain ⟨hA, hE⟩ := h
  rw [← (flag_bits d.flags).2.2.1] at hA
  rw [← (flag_bits d.flags).2.2.2] at hE
  unfold marshalAuthData
  simp only []
  by_cases h6 : flagsAT d.flags = true <;> by_cases h7 : flagsED d.flags = true <;>
    simp only [h6, h7, Bool.false_eq_true, if_true, if_false] at hA hE ⊢
  · obtain ⟨a, ha, _, _, _, rfl⟩ := hA
    rw [ha, hE.2]
  · obtain ⟨a, ha, _, _, _, rfl⟩ := hA
    rw [ha, hE.2]
  · rw [hA.2, hE.2]
  · rw [hA.2, hE.2]

/-- Marshal(Unmarshal(b)) is the consumed prefix of b, byte for byte -/
theorem marshal_unmarshal (b : Bytes) (d : AuthData) (rest : Bytes) (h : unmarshalAuthData b = some (d, rest)) :
    ∃ p, marshalAuthData d = some p ∧ b = p ++ rest := by
  obtain ⟨acdBytes, extBytes, hb, _, _, hP⟩ := (layout_iff_parts b d rest).1 ((unmarshal_layout b d rest).1 h)
  exact ⟨_, marshal_of_parts d acdBytes extBytes hP, hb⟩

/-- Unmarshal(Marshal(d) ++ s) = (d, s) for every well-formed d and every suffix s -/
theorem unmarshal_marshal (d : AuthData) (s : Bytes) (h : Spec.WellFormed d) :
    ∃ p, marshalAuthData d = some p ∧ unmarshalAuthData (p ++ s) = some (d, s) := by
  obtain ⟨h1, h2, acdBytes, extBytes, hP⟩ := (wellFormed_iff_parts d).1 h
  refine ⟨_, marshal_of_parts d acdBytes extBytes hP, ?_⟩
  apply (unmarshal_layout _ _ _).2
  exact (layout_iff_parts _ _ _).2 ⟨acdBytes, extBytes, rfl, h1, h2, hP⟩

/-- what Unmarshal returns is well-formed -/
theorem unmarshal_wellFormed (b : Bytes) (d : AuthData) (rest : Bytes) (h : unmarshalAuthData b = some (d, rest)) :
    Spec.WellFormed d := by
  obtain ⟨acdBytes, extBytes, _, h1, h2, hP⟩ := (layout_iff_parts b d rest).1 ((unmarshal_layout b d rest).1 h)
  exact (wellFormed_iff_parts d).2 ⟨h1, h2, acdBytes, extBytes, hP⟩

/-! ## truncation -/

/-- every cut strictly inside the consumed prefix makes the parser fail -/
def Trunc {β : Type} (f : Bytes → Option (β × Bytes)) : Prop :=
  ∀ (raw : Bytes) (x : β) (rest : Bytes) (n : Nat),
    f raw = some (x, rest) → n < raw.length - rest.length → f (raw.take n) = none

/-- the result depends only on the consumed prefix -/
def Frame {β : Type} (f : Bytes → Option (β × Bytes)) : Prop :=
  ∀ (raw : Bytes) (x : β) (rest : Bytes), f raw = some (x, rest) →
    ∃ p : Bytes, raw = p ++ rest ∧ ∀ s : Bytes, f (p ++ s) = some (x, s)

theorem stage_trunc {β : Type} (k : Nat) (g : Bytes → Bytes → Option (β × Bytes)) (hg : ∀ p, Trunc (g p)) :
    Trunc (stage k g) := by
  intro raw x rest n h hn
  unfold stage at h ⊢
  split at h
  · cases h
  · rename_i hk
    by_cases hnk : n < k
    · rw [if_pos (by rw [List.length_take]; omega)]
    · rw [if_neg (by rw [List.length_take]; omega), Bytes.take_take_of_le _ _ _ (by omega), List.drop_take]
      apply hg _ _ x rest _ h
      rw [List.length_drop]; omega

theorem stage1_trunc {β : Type} (g : UInt8 → Bytes → Option (β × Bytes)) (hg : ∀ x, Trunc (g x)) :
    Trunc (stage1 g) := by
  intro raw x rest n h hn
  cases raw with
  | nil => cases h
  | cons y ys =>
    cases n with
    | zero => rfl
    | succ m =>
      show g y (ys.take m) = none
      apply hg y ys x rest m h
      simp only [List.length_cons] at hn; omega

theorem bindP_trunc {α β : Type} (f : Bytes → Option (α × Bytes)) (g : α → Bytes → Option (β × Bytes))
    (hf : Frame f) (hft : Trunc f) (hg : ∀ a, Trunc (g a)) : Trunc (bindP f g) := by
  intro raw x rest n h hn
  obtain ⟨a, r1, hfr, hga⟩ := (bindP_eq_some f g raw (x, rest)).1 h
  obtain ⟨p, rfl, hp⟩ := hf raw a r1 hfr
  unfold bindP
  by_cases hnp : n < p.length
  · rw [hft _ a r1 n hfr (by simp only [List.length_append]; omega)]
  · rw [Bytes.take_append_ge _ _ _ (by omega), hp]
    simp only []
    apply hg a r1 x rest _ hga
    simp only [List.length_append] at hn; omega

theorem acdTail_trunc (g c : Bytes) : Trunc (acdTail g c) := by
  intro raw x rest n h hn
  obtain ⟨key, hk, _⟩ := (acdTail_eq_some _ _ _ _ _).1 h
  obtain ⟨hraw, _⟩ := extractCBOR_split _ _ _ hk
  unfold acdTail
  rw [extractCBOR_truncation raw key rest hk n (by rw [hraw] at hn; simp only [List.length_append] at hn; omega)]

theorem unmarshalACD_trunc : Trunc unmarshalACD := by
  intro raw x rest n h hn
  rw [unmarshalACD_eq] at h ⊢
  exact stage_trunc 16 _ (fun g => stage_trunc 2 _ (fun L => stage_trunc _ _ (fun c => acdTail_trunc g c)))
    raw x rest n h hn

theorem unmarshalACD_frame : Frame unmarshalACD := by
  intro raw a rest h
  obtain ⟨h1, h2, h3, rfl⟩ := (unmarshalACD_iff _ _ _).1 h
  exact ⟨marshalACD a, rfl, fun s => (unmarshalACD_iff _ _ _).2 ⟨h1, h2, h3, rfl⟩⟩

theorem optACD_frame (t : Bool) : Frame (optACD t) := by
  intro raw acd rest h
  obtain ⟨acdBytes, rfl, hA⟩ := (optACD_iff _ _ _ _).1 h
  exact ⟨acdBytes, rfl, fun s => (optACD_iff _ _ _ _).2 ⟨acdBytes, rfl, hA⟩⟩

theorem optACD_trunc (t : Bool) : Trunc (optACD t) := by
  intro raw acd rest n h hn
  cases t with
  | false =>
    simp only [optACD, Bool.false_eq_true, if_false, Option.some.injEq, Prod.mk.injEq] at h
    obtain ⟨_, rfl⟩ := h
    omega
  | true =>
    simp only [optACD, if_true] at h ⊢
    cases hu : unmarshalACD raw with
    | none => rw [hu] at h; cases h
    | some ar =>
      obtain ⟨a, r⟩ := ar
      rw [hu] at h
      simp only [Option.some.injEq, Prod.mk.injEq] at h
      obtain ⟨_, rfl⟩ := h
      rw [unmarshalACD_trunc raw a r n hu hn]

theorem extTail_trunc (h : Bytes) (f : UInt8) (sc : Nat) (acd : Option AttestedCredentialData) :
    Trunc (extTail h f sc acd) := by
  intro raw x rest n hx hn
  unfold extTail at hx ⊢
  cases hE : flagsED f with
  | false =>
    rw [hE] at hx
    simp only [Bool.false_eq_true, if_false, Option.some.injEq, Prod.mk.injEq] at hx
    obtain ⟨_, rfl⟩ := hx
    omega
  | true =>
    rw [hE] at hx
    simp only [if_true] at hx ⊢
    cases he : extractCBOR raw with
    | none => rw [he] at hx; cases hx
    | some er =>
      obtain ⟨ext, r⟩ := er
      rw [he] at hx
      simp only [Option.some.injEq, Prod.mk.injEq] at hx
      obtain ⟨_, rfl⟩ := hx
      obtain ⟨hraw, _⟩ := extractCBOR_split _ _ _ he
      rw [extractCBOR_truncation raw ext r he n
        (by rw [hraw] at hn; simp only [List.length_append] at hn; omega)]

theorem unmarshalAuthData_trunc : Trunc unmarshalAuthData := by
  intro raw x rest n h hn
  rw [unmarshalAuthData_eq] at h ⊢
  exact stage_trunc 32 _ (fun hh => stage1_trunc _ (fun f => stage_trunc 4 _ (fun sc =>
    bindP_trunc _ _ (optACD_frame _) (optACD_trunc _) (fun acd => extTail_trunc hh f _ acd))))
    raw x rest n h hn

/-- every truncation of a valid encoding (cut anywhere inside the consumed prefix) is rejected -/
theorem truncation_rejected (b : Bytes) (d : AuthData) (rest : Bytes) (h : unmarshalAuthData b = some (d, rest))
    (n : Nat) (hn : n < b.length - rest.length) : unmarshalAuthData (b.take n) = none :=
  unmarshalAuthData_trunc b d rest n h hn

/-- the same three facts for attested credential data on its own -/
theorem acd_marshal_unmarshal (b : Bytes) (a : AttestedCredentialData) (rest : Bytes)
    (h : unmarshalACD b = some (a, rest)) : b = marshalACD a ++ rest :=
  ((unmarshalACD_iff b a rest).1 h).2.2.2

theorem acd_unmarshal_marshal (a : AttestedCredentialData) (s : Bytes) (h1 : a.aaguid.length = 16)
    (h2 : a.credentialId.length < 65536) (h3 : Spec.OneItem a.credentialPublicKey) :
    unmarshalACD (marshalACD a ++ s) = some (a, s) :=
  (unmarshalACD_iff _ a s).2 ⟨h1, h2, h3, rfl⟩

theorem acd_truncation_rejected (b : Bytes) (a : AttestedCredentialData) (rest : Bytes)
    (h : unmarshalACD b = some (a, rest)) (n : Nat) (hn : n < b.length - rest.length) : unmarshalACD (b.take n) = none :=
  unmarshalACD_trunc b a rest n h hn

end WebAuthn.C10
