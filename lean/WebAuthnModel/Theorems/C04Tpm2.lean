import WebAuthnModel.Model.Tpm2
import WebAuthnModel.Proofs.Tpm2Lemmas
/-
  C03 / C04, TPM structures — the model of go-tpm's TPMS_ATTEST / TPMT_PUBLIC codec (Model/Tpm2.lean, compared with
  legacy/tpm2 on every run).  The verifier checks the AIK signature over `certInfo.Encode()` — the RE-ENCODING of what it decoded —
  and hashes `pubArea.Encode()`.  These theorems say why that still binds every decoded field: re-encoding is a normal form
  (decoding it gives the same view again), so two byte strings with the same re-encoding decode to the same view.
-/
namespace WebAuthn.Theorems.C04Tpm2
open WebAuthn WebAuthn.Tpm2

/-- decoding the re-encoding of a decoded TPMS_ATTEST gives the same view (and hence the same re-encoding) -/
theorem certInfo_reencode (t : HashTable) (raw e : Bytes) (ci : CertInfoView)
    (h : certInfo t raw = some ci) (he : ci.encoded = some e) : certInfo t e = some ci := by
  unfold certInfo at h
  split at h
  · cases h
  rename_i magic r1 hf1
  split at h
  · cases h
  rename_i ty r2 hf2
  split at h
  · cases h
  rename_i hmagic
  split at h
  · cases h
  rename_i signer signerH r3 hsigner
  split at h
  · cases h
  rename_i extra r4 hextra
  split at h
  · cases h
  rename_i hlen
  dsimp only at h
  split at h
  · rename_i hty
    split at h
    · cases h
    rename_i name nameH r5 hname
    split at h
    · cases h
    rename_i qn qnH r6 hqn
    cases h
    cases he
    have hm := (fixed_some hf1).1
    have ht := (fixed_some hf2).1
    have hex := u16bytes_some hextra
    have hclk : (r4.take 25).length = 25 := by rw [List.length_take]; omega
    have hqn' := decodeName_reencode hqn []
    rw [List.append_nil] at hqn'
    simp only [certInfo, List.append_assoc, fixed_pad 4 magic hm, fixed_pad 2 ty ht, decodeName_reencode hsigner,
      u16bytes_append extra hex, decodeName_reencode hname, hqn', if_pos hty, Bytes.take_append_of_length _ _ _ hclk,
      Bytes.drop_append_of_length _ _ _ hclk, List.length_append, hclk]
    simp [hmagic]
  · split at h
    · cases h; cases he
    · cases h

/-- two certInfo byte strings with the same re-encoding carry the same magic, type, extraData and certified name -/
theorem certInfo_determined_by_encoding (t : HashTable) (a b e : Bytes) (ca cb : CertInfoView)
    (ha : certInfo t a = some ca) (hb : certInfo t b = some cb) (hea : ca.encoded = some e) (heb : cb.encoded = some e) :
    ca = cb := by
  have h1 := certInfo_reencode t a e ca ha hea
  have h2 := certInfo_reencode t b e cb hb heb
  exact Option.some.inj (h1.symm.trans h2)

/-- decoding the re-encoding of a decoded TPMT_PUBLIC gives the same view: same name algorithm, same key, same re-encoding -/
theorem pubArea_reencode (raw e : Bytes) (pa : PubAreaView)
    (h : pubArea raw = some pa) (he : pa.encoded = some e) : pubArea e = some pa := by
  unfold pubArea at h
  split at h
  · cases h
  rename_i ty r1 hf1
  split at h
  · cases h
  rename_i nameAlg r2 hf2
  split at h
  · cases h
  rename_i attrs r3 hf3
  split at h
  · cases h
  rename_i policy r4 hpol
  have hty := (fixed_some hf1).1
  have hna := (fixed_some hf2).1
  have hat := (fixed_some hf3).1
  have hpl := u16bytes_some hpol
  dsimp only at h
  split at h
  · -- RSA
    rename_i hrsa
    split at h
    · cases h
    rename_i symE r5 hsym
    split at h
    · cases h
    rename_i sigE r6 hsig
    split at h
    · cases h
    rename_i keyBits r7 hkb
    split at h
    · cases h
    rename_i expRaw r8 hexp
    split at h
    · cases h
    rename_i modulus r9 hmod
    cases h
    cases he
    have hk := (fixed_some hkb).1
    have hx := (fixed_some hexp).1
    have hml := u16bytes_some hmod
    have hmod' := u16bytes_append modulus hml []
    rw [List.append_nil] at hmod'
    simp only [pubArea, List.append_assoc, fixed_pad 2 ty hty, fixed_pad 2 nameAlg hna, fixed_pad 4 attrs hat,
      u16bytes_append policy hpl, if_pos hrsa, symScheme_reencode hsym, sigScheme_reencode hsig,
      fixed_pad 2 keyBits hk, fixed_pad 4 expRaw hx, hmod']
  rename_i hnrsa
  split at h
  · -- ECC
    rename_i hecc
    split at h
    · cases h
    rename_i symE r5 hsym
    split at h
    · cases h
    rename_i sigE r6 hsig
    split at h
    · cases h
    rename_i curve r7 hcurve
    split at h
    · cases h
    rename_i kdfE r8 hkdf
    split at h
    · cases h
    rename_i x r9 hxx
    split at h
    · cases h
    rename_i y r10 hyy
    cases h
    cases he
    have hc := (fixed_some hcurve).1
    have hxl := u16bytes_some hxx
    have hyl := u16bytes_some hyy
    have hy' := u16bytes_append y hyl []
    rw [List.append_nil] at hy'
    simp only [pubArea, List.append_assoc, fixed_pad 2 ty hty, fixed_pad 2 nameAlg hna, fixed_pad 4 attrs hat,
      u16bytes_append policy hpl, if_neg hnrsa, if_pos hecc, symScheme_reencode hsym, sigScheme_reencode hsig,
      fixed_pad 2 curve hc, kdfScheme_reencode hkdf, u16bytes_append x hxl, hy']
  rename_i hnecc
  split at h
  · -- symmetric cipher
    rename_i hsc
    split at h
    · cases h
    rename_i symE r5 hsym
    split at h
    · cases h
    rename_i u r6 hu
    cases h
    cases he
    have hul := u16bytes_some hu
    have hu' := u16bytes_append u hul []
    rw [List.append_nil] at hu'
    simp only [pubArea, List.append_assoc, fixed_pad 2 ty hty, fixed_pad 2 nameAlg hna, fixed_pad 4 attrs hat,
      u16bytes_append policy hpl, if_neg hnrsa, if_neg hnecc, if_pos hsc, symScheme_reencode hsym, hu']
  rename_i hnsc
  split at h
  · -- keyed hash
    rename_i hkh
    split at h
    · cases h
    rename_i alg r5 hfa
    have hal := (fixed_some hfa).1
    by_cases hn : alg = algNull
    · rw [if_pos hn] at h
      dsimp only at h
      split at h
      · cases h
      rename_i u r6 hu
      cases h
      cases he
      have hul := u16bytes_some hu
      have hu' := u16bytes_append u hul []
      rw [List.append_nil] at hu'
      simp only [pubArea, List.append_assoc, fixed_pad 2 ty hty, fixed_pad 2 nameAlg hna, fixed_pad 4 attrs hat,
        u16bytes_append policy hpl, if_neg hnrsa, if_neg hnecc, if_neg hnsc, if_pos hkh, fixed_pad 2 alg hal, if_pos hn, hu']
    rw [if_neg hn] at h
    by_cases hh : alg = algHMAC
    · rw [if_pos hh] at h
      cases hf : fixed 2 r5 with
      | none => rw [hf] at h; cases h
      | some q =>
      obtain ⟨v, r6⟩ := q
      rw [hf] at h
      dsimp only [Option.map_some] at h
      split at h
      · cases h
      rename_i u r7 hu
      cases h
      cases he
      have hl2 := (fixed_some hf).2.1
      have hul := u16bytes_some hu
      have hu' := u16bytes_append u hul []
      rw [List.append_nil] at hu'
      simp only [pubArea, List.append_assoc, fixed_pad 2 ty hty, fixed_pad 2 nameAlg hna, fixed_pad 4 attrs hat,
        u16bytes_append policy hpl, if_neg hnrsa, if_neg hnecc, if_neg hnsc, if_pos hkh, fixed_pad 2 alg hal, if_neg hn,
        if_pos hh, fixed_append 2 _ hl2, Option.map_some, Bytes.take_append_of_length _ _ _ hl2, hu']
    rw [if_neg hh] at h
    by_cases hx : alg = algXOR
    · rw [if_pos hx] at h
      cases hf : fixed 4 r5 with
      | none => rw [hf] at h; cases h
      | some q =>
      obtain ⟨v, r6⟩ := q
      rw [hf] at h
      dsimp only [Option.map_some] at h
      split at h
      · cases h
      rename_i u r7 hu
      cases h
      cases he
      have hl4 := (fixed_some hf).2.1
      have hul := u16bytes_some hu
      have hu' := u16bytes_append u hul []
      rw [List.append_nil] at hu'
      simp only [pubArea, List.append_assoc, fixed_pad 2 ty hty, fixed_pad 2 nameAlg hna, fixed_pad 4 attrs hat,
        u16bytes_append policy hpl, if_neg hnrsa, if_neg hnecc, if_neg hnsc, if_pos hkh, fixed_pad 2 alg hal, if_neg hn,
        if_neg hh, if_pos hx, fixed_append 4 _ hl4, Option.map_some, Bytes.take_append_of_length _ _ _ hl4, hu']
    · rw [if_neg hx] at h
      cases h
  · cases h

theorem pubArea_determined_by_encoding (a b e : Bytes) (pa pb : PubAreaView)
    (ha : pubArea a = some pa) (hb : pubArea b = some pb) (hea : pa.encoded = some e) (heb : pb.encoded = some e) :
    pa = pb := by
  have h1 := pubArea_reencode a e pa ha hea
  have h2 := pubArea_reencode b e pb hb heb
  exact Option.some.inj (h1.symm.trans h2)

/-- a structure with another magic value, or of an unknown type, does not decode -/
theorem certInfo_magic (t : HashTable) (raw : Bytes) (ci : CertInfoView) (h : certInfo t raw = some ci) :
    ci.magic = 0xff544347 ∧ (ci.type = 0x8017 ∨ ci.type = 0x801a ∨ ci.type = 0x8018) ∧ (ci.hasCertifyInfo = true ↔ ci.type = 0x8017) := by
  unfold certInfo at h
  split at h
  · cases h
  rename_i magic r1 hf1
  split at h
  · cases h
  rename_i ty r2 hf2
  split at h
  · cases h
  rename_i hmagic
  split at h
  · cases h
  split at h
  · cases h
  split at h
  · cases h
  dsimp only at h
  have hmagic' : magic = 0xff544347 := by
    have : ¬ magic ≠ magicValue := hmagic
    simpa [magicValue] using this
  split at h
  · rename_i hty
    split at h
    · cases h
    split at h
    · cases h
    cases h
    simp only [tagCertify] at hty
    exact ⟨hmagic', .inl hty, by simp [hty]⟩
  · rename_i hty
    split at h
    · rename_i hty2
      cases h
      simp only [tagCertify, tagCreation, tagQuote] at hty hty2
      refine ⟨hmagic', ?_, by simp [hty]⟩
      rcases hty2 with h' | h'
      · exact .inr (.inl h')
      · exact .inr (.inr h')
    · cases h

/-- the key of a decoded public area is never of a kind the credential-key comparison accepts unless it is RSA or a NIST P-256/384/521 point -/
theorem pubArea_key_kinds (raw : Bytes) (pa : PubAreaView) (k : KeyMat) (h : pubArea raw = some pa) (hk : pa.key = some k) :
    (∃ n e, k = .rsa n e) ∨ (∃ c x y, k = .ec c x y ∧ (c = 1 ∨ c = 2 ∨ c = 3)) ∨ k = .other := by
  unfold pubArea at h
  split at h
  · cases h
  split at h
  · cases h
  split at h
  · cases h
  split at h
  · cases h
  dsimp only at h
  split at h
  · -- RSA
    split at h
    · cases h
    split at h
    · cases h
    split at h
    · cases h
    split at h
    · cases h
    split at h
    · cases h
    cases h
    cases hk
    exact .inl ⟨_, _, rfl⟩
  split at h
  · -- ECC
    split at h
    · cases h
    split at h
    · cases h
    split at h
    · cases h
    rename_i curve r7 hcurve
    split at h
    · cases h
    split at h
    · cases h
    split at h
    · cases h
    cases h
    dsimp only at hk
    split at hk
    · cases hk
    · cases hk; exact .inr (.inr rfl)
    · rename_i crv hcrv
      cases hk
      have hc : crv = 1 ∨ crv = 2 ∨ crv = 3 := by
        unfold curveOf at hcrv
        split at hcrv
        · cases hcrv
        split at hcrv
        · cases hcrv; exact .inl rfl
        split at hcrv
        · cases hcrv; exact .inr (.inl rfl)
        split at hcrv
        · cases hcrv; exact .inr (.inr rfl)
        · cases hcrv
      exact .inr (.inl ⟨_, _, _, rfl, hc⟩)
  split at h
  · -- symmetric cipher: no key
    split at h
    · cases h
    split at h
    · cases h
    cases h
    cases hk
  split at h
  · -- keyed hash: no key
    split at h
    · cases h
    split at h
    · cases h
    split at h
    · cases h
    cases h
    cases hk
  · cases h

/-- concrete structures, evaluated in the kernel: an RSA storage-key template with exponent 0 (= 65537), and a certify structure whose
    certified name is a SHA-256 digest; a name whose size prefix is shorter than the digest is zero-padded, not refused -/
def sha256Table : HashTable := [(0x0B, 5)]

def rsaPub : Bytes :=
  [0x00, 0x01, 0x00, 0x0B, 0x00, 0x03, 0x00, 0x72, 0x00, 0x00, 0x00, 0x10, 0x00, 0x10, 0x08, 0x00, 0x00, 0x00, 0x00, 0x00, 0x00, 0x03, 0x00, 0xAB, 0xCD]

def certify (nameBuf : Bytes) : Bytes :=
  [0xff, 0x54, 0x43, 0x47, 0x80, 0x17, 0x00, 0x00, 0x00, 0x02, 0xAA, 0xBB] ++ List.replicate 25 0 ++
    Bytes.ofNatBE 2 nameBuf.length ++ nameBuf ++ [0x00, 0x00]

theorem concrete_structures :
    (pubArea rsaPub).map (fun p => (p.nameAlg, p.key)) = some (0x0B, some (.rsa [0xAB, 0xCD] 65537)) ∧
    (certInfo sha256Table (certify ([0x00, 0x0B] ++ List.replicate 32 7))).map (fun c => (c.extraData, c.name)) =
      some ([0xAA, 0xBB], .digest 0x0B (List.replicate 32 7)) ∧
    (certInfo sha256Table (certify ([0x00, 0x0B] ++ List.replicate 5 7))).map (·.name) =
      some (.digest 0x0B (List.replicate 5 7 ++ List.replicate 27 0)) ∧
    (certInfo sha256Table (certify [0x00, 0x0B])) = none ∧
    (certInfo [] (certify ([0x00, 0x0B] ++ List.replicate 32 7))) = none ∧
    (certInfo sha256Table (certify [1, 2, 3, 4])).map (·.name) = some .handle ∧
    (certInfo sha256Table (certify [])).map (·.name) = some .none := by
  refine ⟨?_, ?_, ?_, ?_, ?_, ?_, ?_⟩ <;> decide +kernel

end WebAuthn.Theorems.C04Tpm2
