import WebAuthnModel.Theorems.C15
/-
  C15 (adjacent code) — `MetadataStatement.ParseAttestationRootCertificates`: the trust anchors an application takes out of an accepted
  BLOB payload.  Not part of C15's statement (which ends at the payload returned); modelled because it is the other consumer of
  `x509.ParseCertificate` in `fido/metadata.go` and a base64 variant slip there would silently empty or refuse anchor lists.

  What is proved: the call succeeds exactly when every entry, with blanks removed, is padded standard base64 of bytes that parse as a
  certificate, and then returns one certificate per entry in the entries' order; blanks (space, CR, LF, TAB) anywhere never matter;
  an entry that lacks padding, or holds a character of another alphabet ('-', '_', …), makes the call fail.
-/
namespace WebAuthn.C15Roots
open WebAuthn

/-- what a successful call returns: one view per entry, in order, each the parse of that entry's decoded bytes -/
def RootViews (env : Prog.Env) : List Bytes → List CertView → Prop
  | [], [] => True
  | e :: es, c :: cs => (∃ der, Fido.rootCertDer e = some der ∧ env.answer (.x509Parse der) = .cert c) ∧ RootViews env es cs
  | _, _ => False

theorem rootCerts_run (env : Prog.Env) (es : List Bytes) (cs : List CertView) :
    Prog.run env (Fido.parseRootCertificates es) = some cs ↔ RootViews env es cs := by
  induction es generalizing cs with
  | nil => cases cs <;> simp [Fido.parseRootCertificates, RootViews]
  | cons e rest ih =>
    simp only [Fido.parseRootCertificates]
    cases hd : Fido.rootCertDer e with
    | none => cases cs <;> simp [RootViews, hd]
    | some der =>
      simp only [Prog.run_bind, Prog.run_query]
      cases hq : env.answer (.x509Parse der) with
      | cert cv =>
        simp only [Prog.run_bind]
        cases hr : Prog.run env (Fido.parseRootCertificates rest) with
        | none =>
          cases cs with
          | nil => simp [RootViews]
          | cons c' cs' =>
            simp only [Prog.run_pure, RootViews, reduceCtorEq, false_iff, not_and]
            intro _ h
            rw [← ih, hr] at h; cases h
        | some cs0 =>
          cases cs with
          | nil => simp [RootViews]
          | cons c' cs' =>
            simp only [Prog.run_pure, RootViews, Option.some.injEq, List.cons.injEq, hd, ← ih, hr]
            constructor
            · rintro ⟨rfl, rfl⟩; exact ⟨⟨der, rfl, hq⟩, rfl⟩
            · rintro ⟨⟨d', hd', hq'⟩, rfl⟩
              cases hd'
              rw [hq] at hq'
              cases hq'
              exact ⟨rfl, rfl⟩
      | _ =>
        cases cs with
        | nil => simp [RootViews]
        | cons c' cs' =>
          simp only [Prog.run_pure, RootViews, reduceCtorEq, false_iff, not_and, hd]
          rintro ⟨d', hd', hq'⟩
          cases hd'
          rw [hq] at hq'
          cases hq'

/-- one certificate per entry -/
theorem rootCerts_length (env : Prog.Env) (es : List Bytes) (cs : List CertView)
    (h : Prog.run env (Fido.parseRootCertificates es) = some cs) : cs.length = es.length := by
  rw [rootCerts_run] at h
  induction es generalizing cs with
  | nil => cases cs with
    | nil => rfl
    | cons _ _ => exact absurd h (by simp [RootViews])
  | cons e rest ih =>
    cases cs with
    | nil => exact absurd h (by simp [RootViews])
    | cons c' cs' => simp [ih cs' h.2]

/-- every entry of an accepted list decodes and parses -/
theorem rootCerts_all (env : Prog.Env) (es : List Bytes) (cs : List CertView)
    (h : Prog.run env (Fido.parseRootCertificates es) = some cs) :
    ∀ e ∈ es, ∃ der cv, Fido.rootCertDer e = some der ∧ env.answer (.x509Parse der) = .cert cv := by
  rw [rootCerts_run] at h
  induction es generalizing cs with
  | nil => intro e he; cases he
  | cons e0 rest ih =>
    cases cs with
    | nil => exact absurd h (by simp [RootViews])
    | cons c' cs' =>
      obtain ⟨⟨der, h1, h2⟩, h3⟩ := h
      intro e he
      rcases List.mem_cons.1 he with rfl | he
      · exact ⟨der, c', h1, h2⟩
      · exact ih cs' h3 e he

/-- one entry that does not decode, or whose bytes are not a certificate, fails the whole call -/
theorem rootCerts_reject (env : Prog.Env) (es : List Bytes) (e : Bytes) (he : e ∈ es)
    (h : ∀ der, Fido.rootCertDer e = some der → ∀ cv, env.answer (.x509Parse der) ≠ .cert cv) :
    Prog.run env (Fido.parseRootCertificates es) = none := by
  cases hr : Prog.run env (Fido.parseRootCertificates es) with
  | none => rfl
  | some cs =>
    obtain ⟨der, cv, h1, h2⟩ := rootCerts_all env es cs hr e he
    exact absurd h2 (h der h1 cv)

/-- when every entry decodes and parses, the call succeeds -/
theorem rootCerts_accept (env : Prog.Env) (es : List Bytes)
    (h : ∀ e ∈ es, ∃ der cv, Fido.rootCertDer e = some der ∧ env.answer (.x509Parse der) = .cert cv) :
    ∃ cs, Prog.run env (Fido.parseRootCertificates es) = some cs := by
  induction es with
  | nil => exact ⟨[], by simp [Fido.parseRootCertificates]⟩
  | cons e rest ih =>
    obtain ⟨der, cv, h1, h2⟩ := h e (List.mem_cons_self ..)
    obtain ⟨cs, hcs⟩ := ih (fun e' he' => h e' (List.mem_cons_of_mem _ he'))
    refine ⟨cv :: cs, ?_⟩
    rw [rootCerts_run] at hcs ⊢
    exact ⟨⟨der, h1, h2⟩, hcs⟩

/-! ### the entry decoder -/

/-- blanks never matter: two entries that agree once space, CR, LF and TAB are removed decode alike -/
theorem rootCertDer_blanks (e e' : Bytes)
    (h : e.filter (fun c => !Fido.isRootCertSpace c) = e'.filter (fun c => !Fido.isRootCertSpace c)) :
    Fido.rootCertDer e = Fido.rootCertDer e' := by
  simp [Fido.rootCertDer, h]

/-- padded base64 only: a decodable text without CR/LF has a length divisible by four -/
theorem decodeClean_length (s v : Bytes) (h : B64Std.decodeClean s = some v) : s.length % 4 = 0 := by
  induction s using B64Std.decodeClean.induct generalizing v with
  | case1 => rfl
  | case2 a b c d rest ih =>
    have : (a :: b :: c :: d :: rest).length = rest.length + 4 := by simp
    rw [this]
    unfold B64Std.decodeClean at h
    cases hx : B64Std.valOf a with
    | none => simp [hx] at h
    | some x =>
      cases hy : B64Std.valOf b with
      | none => simp [hx, hy] at h
      | some y =>
        simp only [hx, hy, Option.bind_eq_bind, Option.bind_some, Option.pure_def] at h
        by_cases hc : c = B64Std.pad
        · simp only [hc, if_true] at h
          by_cases hd : d = B64Std.pad ∧ rest = []
          · simp [hd.2]
          · simp [hd] at h
        · simp only [hc, if_false] at h
          cases hz : B64Std.valOf c with
          | none => simp [hz] at h
          | some z =>
            simp only [hz, Option.bind_some] at h
            by_cases hd : d = B64Std.pad
            · simp only [hd, if_true] at h
              by_cases hr : rest = []
              · simp [hr]
              · simp [hr] at h
            · simp only [hd, if_false] at h
              cases hw : B64Std.valOf d with
              | none => simp [hw] at h
              | some w =>
                simp only [hw, Option.bind_some] at h
                cases hrr : B64Std.decodeClean rest with
                | none => simp [hrr] at h
                | some r =>
                  have := ih r hrr
                  omega
  | case3 s h1 h2 =>
    unfold B64Std.decodeClean at h
    split at h
    · exact absurd rfl h1
    · exact absurd rfl (h2 _ _ _ _ _)
    · cases h

/-- an entry without its padding (what `RawStdEncoding` would accept) is refused -/
theorem rootCertDer_needs_padding (e : Bytes)
    (h : (e.filter (fun c => !Fido.isRootCertSpace c)).length % 4 ≠ 0) : Fido.rootCertDer e = none := by
  cases hr : Fido.rootCertDer e with
  | none => rfl
  | some v =>
    exfalso
    apply h
    unfold Fido.rootCertDer B64Std.decode at hr
    have hl := decodeClean_length _ _ hr
    -- every CR/LF is already gone: filtering them again changes nothing
    have : ((e.filter (fun c => !Fido.isRootCertSpace c)).filter (fun c => !B64Std.isNewline c)) = e.filter (fun c => !Fido.isRootCertSpace c) := by
      rw [List.filter_filter]
      apply List.filter_congr
      intro c _
      simp only [Fido.isRootCertSpace, B64Std.isNewline]
      by_cases h1 : c = 0x0d <;> by_cases h2 : c = 0x0a <;> simp [h1, h2]
    rw [this] at hl
    exact hl

/-- every character of a decodable text is of the standard alphabet or the padding character -/
theorem decodeClean_alphabet (s v : Bytes) (h : B64Std.decodeClean s = some v) :
    ∀ c ∈ s, B64Std.valOf c ≠ none ∨ c = B64Std.pad := by
  induction s using B64Std.decodeClean.induct generalizing v with
  | case1 => intro c hc; cases hc
  | case2 a b c d rest ih =>
    unfold B64Std.decodeClean at h
    cases hx : B64Std.valOf a with
    | none => simp [hx] at h
    | some x =>
      cases hy : B64Std.valOf b with
      | none => simp [hx, hy] at h
      | some y =>
        simp only [hx, hy, Option.bind_eq_bind, Option.bind_some, Option.pure_def] at h
        have ha : B64Std.valOf a ≠ none := by simp [hx]
        have hb : B64Std.valOf b ≠ none := by simp [hy]
        by_cases hc : c = B64Std.pad
        · simp only [hc, if_true] at h
          by_cases hd : d = B64Std.pad ∧ rest = []
          · intro ch hch
            simp only [hd.2, List.mem_cons, List.not_mem_nil, or_false] at hch
            rcases hch with rfl | rfl | rfl | rfl
            · exact Or.inl ha
            · exact Or.inl hb
            · exact Or.inr hc
            · exact Or.inr hd.1
          · simp [hd] at h
        · simp only [hc, if_false] at h
          cases hz : B64Std.valOf c with
          | none => simp [hz] at h
          | some z =>
            simp only [hz, Option.bind_some] at h
            have hcv : B64Std.valOf c ≠ none := by simp [hz]
            by_cases hd : d = B64Std.pad
            · simp only [hd, if_true] at h
              by_cases hr : rest = []
              · intro ch hch
                simp only [hr, List.mem_cons, List.not_mem_nil, or_false] at hch
                rcases hch with rfl | rfl | rfl | rfl
                · exact Or.inl ha
                · exact Or.inl hb
                · exact Or.inl hcv
                · exact Or.inr hd
              · simp [hr] at h
            · simp only [hd, if_false] at h
              cases hw : B64Std.valOf d with
              | none => simp [hw] at h
              | some w =>
                simp only [hw, Option.bind_some] at h
                cases hrr : B64Std.decodeClean rest with
                | none => simp [hrr] at h
                | some r =>
                  intro ch hch
                  simp only [List.mem_cons] at hch
                  rcases hch with rfl | rfl | rfl | rfl | hch
                  · exact Or.inl ha
                  · exact Or.inl hb
                  · exact Or.inl hcv
                  · exact Or.inl (by simp [hw])
                  · exact ih r hrr ch hch
  | case3 s h1 h2 =>
    unfold B64Std.decodeClean at h
    split at h
    · exact absurd rfl h1
    · exact absurd rfl (h2 _ _ _ _ _)
    · cases h

/-- an entry holding a character that is neither a blank, nor of the standard alphabet, nor '=' — the URL alphabet's '-' and '_', for
    one — is refused -/
theorem rootCertDer_rejects_foreign (e : Bytes) (c : UInt8) (hc : c ∈ e) (hs : Fido.isRootCertSpace c = false)
    (hv : B64Std.valOf c = none) (hp : c ≠ B64Std.pad) : Fido.rootCertDer e = none := by
  cases hr : Fido.rootCertDer e with
  | none => rfl
  | some v =>
    exfalso
    unfold Fido.rootCertDer B64Std.decode at hr
    have hmem : c ∈ (e.filter (fun c => !Fido.isRootCertSpace c)).filter (fun c => !B64Std.isNewline c) := by
      rw [List.mem_filter, List.mem_filter]
      refine ⟨⟨hc, by simp [hs]⟩, ?_⟩
      simp only [Fido.isRootCertSpace, Bool.or_eq_false_iff, decide_eq_false_iff_not] at hs
      simp [B64Std.isNewline, hs.1.1.2, hs.1.2]
    rcases decodeClean_alphabet _ _ hr c hmem with h | h
    · exact h hv
    · exact hp h

theorem url_alphabet_is_foreign : B64Std.valOf 45 = none ∧ B64Std.valOf 95 = none := by decide

/-! ### non-vacuity: a two-entry list with blanks inside is accepted, in order -/

def rootsEnv : Prog.Env := ⟨fun q => match q with
  | .x509Parse [1, 2, 3] => .cert default
  | .x509Parse [255] => .cert { (default : CertView) with version := 3 }
  | _ => .none⟩

/-- "AQID" = 01 02 03 written with a line break and a space inside; "/w==" = ff -/
example : Prog.run rootsEnv (Fido.parseRootCertificates [[65, 81, 10, 32, 73, 68], [47, 119, 61, 61]])
    = some [default, { (default : CertView) with version := 3 }] := by decide
/-- the same first entry without its padding-free form altered to the URL alphabet, or the second without padding: refused -/
example : Prog.run rootsEnv (Fido.parseRootCertificates [[65, 81, 73, 68], [47, 119]]) = none := by decide
example : Prog.run rootsEnv (Fido.parseRootCertificates [[65, 81, 73, 68], [95, 119, 61, 61]]) = none := by decide

end WebAuthn.C15Roots
