import WebAuthnModel.Model.X509Sig
import WebAuthnModel.Model.Cose
/-
  C04 (certificate signature check) — the table `X509Sig.checkPlan` itself: which primitive crypto/x509's `CheckSignature`
  selects for each (signature algorithm id, kind of the certificate's key), which pairs it refuses, and which primitive the
  verifiers' COSE algorithm → X.509 algorithm table (`Cose.algX509`, regenerated in Generated/Cose.lean) leads to.
-/
namespace WebAuthn.C04X509
open WebAuthn

/-- an RSA key: PKCS #1 v1.5 for SHA1/256/384/512WithRSA, PSS (salt length = hash length) for SHA256/384/512WithRSAPSS, nothing else -/
theorem checkPlan_rsa (n : Bytes) (e : Nat) (algo : Nat) (sig : Bytes) :
    X509Sig.checkPlan algo (.rsa n e) sig =
      if algo = 3 then .primitive .pkcs1 3 sig
      else if algo = 4 then .primitive .pkcs1 5 sig
      else if algo = 5 then .primitive .pkcs1 6 sig
      else if algo = 6 then .primitive .pkcs1 7 sig
      else if algo = 13 then .primitive .pssEq 5 sig
      else if algo = 14 then .primitive .pssEq 6 sig
      else if algo = 15 then .primitive .pssEq 7 sig
      else .reject := by
  by_cases h3 : algo = 3; · subst h3; rfl
  by_cases h4 : algo = 4; · subst h4; rfl
  by_cases h5 : algo = 5; · subst h5; rfl
  by_cases h6 : algo = 6; · subst h6; rfl
  by_cases h9 : algo = 9; · subst h9; rfl
  by_cases h10 : algo = 10; · subst h10; rfl
  by_cases h11 : algo = 11; · subst h11; rfl
  by_cases h12 : algo = 12; · subst h12; rfl
  by_cases h13 : algo = 13; · subst h13; rfl
  by_cases h14 : algo = 14; · subst h14; rfl
  by_cases h15 : algo = 15; · subst h15; rfl
  by_cases h16 : algo = 16; · subst h16; rfl
  simp only [X509Sig.checkPlan, X509Sig.details, if_neg h3, if_neg h4, if_neg h5, if_neg h6, if_neg h9, if_neg h10, if_neg h11,
    if_neg h12, if_neg h13, if_neg h14, if_neg h15, if_neg h16]

/-- an EC key: ECDSA over SHA-1/256/384/512 for ECDSAWithSHA1/256/384/512, nothing else -/
theorem checkPlan_ec (crv : Nat) (x y : Bytes) (algo : Nat) (sig : Bytes) :
    X509Sig.checkPlan algo (.ec crv x y) sig =
      if algo = 9 then .primitive .ecdsa 3 sig
      else if algo = 10 then .primitive .ecdsa 5 sig
      else if algo = 11 then .primitive .ecdsa 6 sig
      else if algo = 12 then .primitive .ecdsa 7 sig
      else .reject := by
  by_cases h3 : algo = 3; · subst h3; rfl
  by_cases h4 : algo = 4; · subst h4; rfl
  by_cases h5 : algo = 5; · subst h5; rfl
  by_cases h6 : algo = 6; · subst h6; rfl
  by_cases h9 : algo = 9; · subst h9; rfl
  by_cases h10 : algo = 10; · subst h10; rfl
  by_cases h11 : algo = 11; · subst h11; rfl
  by_cases h12 : algo = 12; · subst h12; rfl
  by_cases h13 : algo = 13; · subst h13; rfl
  by_cases h14 : algo = 14; · subst h14; rfl
  by_cases h15 : algo = 15; · subst h15; rfl
  by_cases h16 : algo = 16; · subst h16; rfl
  simp only [X509Sig.checkPlan, X509Sig.details, if_neg h3, if_neg h4, if_neg h5, if_neg h6, if_neg h9, if_neg h10, if_neg h11,
    if_neg h12, if_neg h13, if_neg h14, if_neg h15, if_neg h16]

/-- an Ed25519 key: Ed25519 over the message for PureEd25519, nothing else -/
theorem checkPlan_ed (k : Bytes) (algo : Nat) (sig : Bytes) :
    X509Sig.checkPlan algo (.ed k) sig = if algo = 16 then .primitive .eddsa 0 sig else .reject := by
  by_cases h3 : algo = 3; · subst h3; rfl
  by_cases h4 : algo = 4; · subst h4; rfl
  by_cases h5 : algo = 5; · subst h5; rfl
  by_cases h6 : algo = 6; · subst h6; rfl
  by_cases h9 : algo = 9; · subst h9; rfl
  by_cases h10 : algo = 10; · subst h10; rfl
  by_cases h11 : algo = 11; · subst h11; rfl
  by_cases h12 : algo = 12; · subst h12; rfl
  by_cases h13 : algo = 13; · subst h13; rfl
  by_cases h14 : algo = 14; · subst h14; rfl
  by_cases h15 : algo = 15; · subst h15; rfl
  by_cases h16 : algo = 16; · subst h16; rfl
  simp only [X509Sig.checkPlan, X509Sig.details, if_neg h3, if_neg h4, if_neg h5, if_neg h6, if_neg h9, if_neg h10, if_neg h11,
    if_neg h12, if_neg h13, if_neg h14, if_neg h15, if_neg h16]

/-- no entry (0 unknown, 1 MD2WithRSA, 2 MD5WithRSA, 7–8 DSA, anything from 17 on): refused for every key the view describes -/
theorem checkPlan_unknown (key : KeyMat) (sig : Bytes) (hk : key ≠ .other) (algo : Nat)
    (ha : algo = 0 ∨ algo = 1 ∨ algo = 2 ∨ algo = 7 ∨ algo = 8 ∨ 17 ≤ algo) :
    X509Sig.checkPlan algo key sig = .reject := by
  cases key with
  | other => exact absurd rfl hk
  | rsa n e =>
    rw [checkPlan_rsa]
    repeat' split
    all_goals first | rfl | omega
  | ec crv x y =>
    rw [checkPlan_ec]
    repeat' split
    all_goals first | rfl | omega
  | ed k =>
    rw [checkPlan_ed]
    repeat' split
    all_goals first | rfl | omega

/-- the eleven COSE algorithms: the verifier's X.509 algorithm and a certificate key of the matching kind select the expected primitive -/
theorem cose_alg_primitive :
    (∀ crv x y sig, X509Sig.checkPlan (Cose.algX509 (-7)) (.ec crv x y) sig = .primitive .ecdsa 5 sig) ∧
    (∀ crv x y sig, X509Sig.checkPlan (Cose.algX509 (-35)) (.ec crv x y) sig = .primitive .ecdsa 6 sig) ∧
    (∀ crv x y sig, X509Sig.checkPlan (Cose.algX509 (-36)) (.ec crv x y) sig = .primitive .ecdsa 7 sig) ∧
    (∀ n e sig, X509Sig.checkPlan (Cose.algX509 (-65535)) (.rsa n e) sig = .primitive .pkcs1 3 sig) ∧
    (∀ n e sig, X509Sig.checkPlan (Cose.algX509 (-257)) (.rsa n e) sig = .primitive .pkcs1 5 sig) ∧
    (∀ n e sig, X509Sig.checkPlan (Cose.algX509 (-258)) (.rsa n e) sig = .primitive .pkcs1 6 sig) ∧
    (∀ n e sig, X509Sig.checkPlan (Cose.algX509 (-259)) (.rsa n e) sig = .primitive .pkcs1 7 sig) ∧
    (∀ n e sig, X509Sig.checkPlan (Cose.algX509 (-37)) (.rsa n e) sig = .primitive .pssEq 5 sig) ∧
    (∀ n e sig, X509Sig.checkPlan (Cose.algX509 (-38)) (.rsa n e) sig = .primitive .pssEq 6 sig) ∧
    (∀ n e sig, X509Sig.checkPlan (Cose.algX509 (-39)) (.rsa n e) sig = .primitive .pssEq 7 sig) ∧
    (∀ k sig, X509Sig.checkPlan (Cose.algX509 (-8)) (.ed k) sig = .primitive .eddsa 0 sig) := by
  have h7 : Cose.algX509 (-7) = 10 := by decide +kernel
  have h35 : Cose.algX509 (-35) = 11 := by decide +kernel
  have h36 : Cose.algX509 (-36) = 12 := by decide +kernel
  have h65535 : Cose.algX509 (-65535) = 3 := by decide +kernel
  have h257 : Cose.algX509 (-257) = 4 := by decide +kernel
  have h258 : Cose.algX509 (-258) = 5 := by decide +kernel
  have h259 : Cose.algX509 (-259) = 6 := by decide +kernel
  have h37 : Cose.algX509 (-37) = 13 := by decide +kernel
  have h38 : Cose.algX509 (-38) = 14 := by decide +kernel
  have h39 : Cose.algX509 (-39) = 15 := by decide +kernel
  have h8 : Cose.algX509 (-8) = 16 := by decide +kernel
  rw [h7, h35, h36, h65535, h257, h258, h259, h37, h38, h39, h8]
  refine ⟨?_, ?_, ?_, ?_, ?_, ?_, ?_, ?_, ?_, ?_, ?_⟩ <;> intros <;> rfl

end WebAuthn.C04X509
