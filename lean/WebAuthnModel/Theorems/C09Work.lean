import WebAuthnModel.Proofs.CborFrame
import WebAuthnModel.Proofs.WorkLemmas
import WebAuthnModel.Model.Json
import WebAuthnModel.Model.Asn1
/-
  C09 — bounded work.  The decoders are total by construction; these theorems bound what they build: every node of a decoded CBOR tree
  consumed at least one input byte (so the tree, and every pass over it, is linear in the input), and the fuel the JSON and ASN.1
  element loops are started with is never what stops them.
-/
namespace WebAuthn.Theorems.C09Work
open WebAuthn WebAuthn.Cbor

mutual
/-- number of nodes of a decoded CBOR value (text and byte strings count as one node whatever their chunking) -/
def nodes : Value → Nat
  | .array xs => 1 + nodesList xs
  | .map kvs => 1 + nodesList kvs
  | .tag _ v => 1 + nodes v
  | _ => 1
def nodesList : List Value → Nat
  | [] => 0
  | v :: vs => nodes v + nodesList vs
end

mutual
/-- `nodes` is the node count `Cbor.size` that `Proofs/WorkLemmas` reasons about -/
theorem nodes_eq_size : ∀ v : Value, nodes v = size v
  | .array xs => by rw [nodes, size, nodesList_eq_sizeList xs]
  | .map kvs => by rw [nodes, size, nodesList_eq_sizeList kvs]
  | .tag _ v => by rw [nodes, size, nodes_eq_size v]
  | .uint _ => by simp [nodes, size]
  | .nint _ => by simp [nodes, size]
  | .bytes _ => by simp [nodes, size]
  | .text _ => by simp [nodes, size]
  | .simple _ => by simp [nodes, size]
  | .float _ _ => by simp [nodes, size]
theorem nodesList_eq_sizeList : ∀ vs : List Value, nodesList vs = sizeList vs
  | [] => by rw [nodesList, sizeList]
  | v :: vs => by rw [nodesList, sizeList, nodes_eq_size v, nodesList_eq_sizeList vs]
end

/-- every node of the decoded tree consumed at least one byte of the input -/
theorem decode_nodes_linear (b : Bytes) (v : Value) (r : Bytes) (h : decode b = some (v, r)) :
    nodes v + r.length ≤ b.length := by
  rw [nodes_eq_size]
  exact item_size_linear _ _ b v r h

/-- the JSON parser's fuel (`length + 1`) is never the reason for a rejection: more fuel gives the same answer -/
theorem json_fuel_sufficient (s : Bytes) (f : Nat) (hf : s.length + 1 ≤ f) :
    Json.parseValue f 0 s = Json.parseValue (s.length + 1) 0 s :=
  Json.parseValue_fuel_sufficient f 0 s hf

/-- nesting deeper than the limit is refused whatever the fuel: 10001 opening brackets -/
theorem json_depth_limited (f : Nat) (rest : Bytes) :
    Json.parseValue f Json.maxDepth (Json.c '[' :: rest) = none :=
  Json.parseValue_depth_limited f rest

end WebAuthn.Theorems.C09Work
