import WebAuthnModel.Theorems.C02
/-
  C06 — storage discipline of the registration ceremony (relying_party.go `VerifyRegistrationCeremony`,
  storage.go): one read, at most one write, no re-binding, failures write nothing effective.
-/
open WebAuthn
namespace WebAuthn.C06
open WebAuthn.C02

/-! ### the storage step, case by case -/

theorem storageStep_read_err (u : Bytes) (get : Bytes → GetOutcome) (set : Credential → SetOutcome) (id key : Bytes)
    (hget : get id = .err) : storageStep u get set id key = ⟨.error .storageErr, [Call.get id]⟩ := by
  simp only [storageStep, hget]

theorem storageStep_other_owner (u : Bytes) (get : Bytes → GetOutcome) (set : Credential → SetOutcome) (id key : Bytes)
    (ex : Credential) (hget : get id = .found ex) (hown : ex.owner ≠ u) :
    storageStep u get set id key = ⟨.error .differentUser, [Call.get id]⟩ := by
  simp only [storageStep, hget, hown, ne_eq, not_false_eq_true, ↓reduceIte]

theorem storageStep_write (u : Bytes) (get : Bytes → GetOutcome) (set : Credential → SetOutcome) (id key : Bytes)
    (hget : get id = .notFound ∨ get id = .wrappedNotFound ∨ ∃ ex, get id = .found ex ∧ ex.owner = u) :
    storageStep u get set id key =
      match set ⟨id, u, key⟩ with
      | .ok => ⟨.ok ⟨id, u, key⟩, [Call.get id, Call.set ⟨id, u, key⟩]⟩
      | .err => ⟨.error .saveErr, [Call.get id, Call.set ⟨id, u, key⟩]⟩ := by
  rcases hget with hget | hget | ⟨ex, hget, hown⟩
  · simp only [storageStep, hget]
    rfl
  · simp only [storageStep, hget]
    rfl
  · simp only [storageStep, hget, hown, ne_eq, not_true_eq_false, ↓reduceIte]
    rfl

/-- the three shapes of the storage step -/
theorem storageStep_cases (u : Bytes) (get : Bytes → GetOutcome) (set : Credential → SetOutcome) (id key : Bytes) :
    storageStep u get set id key = ⟨.error .storageErr, [Call.get id]⟩ ∨
    storageStep u get set id key = ⟨.error .differentUser, [Call.get id]⟩ ∨
    (set ⟨id, u, key⟩ = .ok ∧
      storageStep u get set id key = ⟨.ok ⟨id, u, key⟩, [Call.get id, Call.set ⟨id, u, key⟩]⟩) ∨
    (set ⟨id, u, key⟩ = .err ∧
      storageStep u get set id key = ⟨.error .saveErr, [Call.get id, Call.set ⟨id, u, key⟩]⟩) := by
  have hw : (get id = .notFound ∨ get id = .wrappedNotFound ∨ ∃ ex, get id = .found ex ∧ ex.owner = u) →
      (set ⟨id, u, key⟩ = .ok ∧
        storageStep u get set id key = ⟨.ok ⟨id, u, key⟩, [Call.get id, Call.set ⟨id, u, key⟩]⟩) ∨
      (set ⟨id, u, key⟩ = .err ∧
        storageStep u get set id key = ⟨.error .saveErr, [Call.get id, Call.set ⟨id, u, key⟩]⟩) := by
    intro hget
    rw [storageStep_write u get set id key hget]
    cases hs : set ⟨id, u, key⟩
    · exact Or.inl ⟨rfl, rfl⟩
    · exact Or.inr ⟨rfl, rfl⟩
  cases hg : get id with
  | err => exact Or.inl (storageStep_read_err u get set id key hg)
  | notFound => exact Or.inr (Or.inr (hw (Or.inl hg)))
  | wrappedNotFound => exact Or.inr (Or.inr (hw (Or.inr (Or.inl hg))))
  | found ex =>
    by_cases hown : ex.owner = u
    · exact Or.inr (Or.inr (hw (Or.inr (Or.inr ⟨ex, hg, hown⟩))))
    · exact Or.inr (Or.inl (storageStep_other_owner u get set id key ex hg hown))

/-! ### the statements of C06 -/

/-- success writes exactly one record — the attested id, options.user.id, the attested key bytes — after exactly one read, and returns that same record -/
theorem reg_success_writes_one (env rp o c opts get set cred)
    (h : (Prog.run env (verifyRegistration rp o c opts get set)).result = .ok cred) :
    (Prog.run env (verifyRegistration rp o c opts get set)).calls = [Call.get cred.id, Call.set cred] ∧ set cred = .ok ∧
    cred.owner = o.userId ∧ ∃ id key, Spec.RegPreOK env rp o c opts id key ∧ cred.id = id ∧ cred.publicKey = key := by
  obtain ⟨id, key, hpre, rfl, hget, hset⟩ := (reg_iff ..).1 h
  refine ⟨?_, hset, rfl, id, key, hpre, rfl, rfl⟩
  rw [run_of_pre env rp o c opts get set id key hpre, storageStep_write _ _ _ _ _ hget, hset]

/-- on failure nothing is written successfully: every `set` in the log was answered with an error -/
theorem reg_failure_no_effective_write (env rp o c opts get set e)
    (h : (Prog.run env (verifyRegistration rp o c opts get set)).result = .error e) :
    ∀ cr, Call.set cr ∈ (Prog.run env (verifyRegistration rp o c opts get set)).calls → set cr = .err := by
  intro cr hmem
  rw [run_eq_finish] at h hmem
  cases hc : regCore env rp o c opts with
  | error e' => rw [hc] at hmem; cases hmem
  | ok p =>
    obtain ⟨id, key⟩ := p
    rw [hc] at h hmem
    change (storageStep o.userId get set id key).result = .error e at h
    change Call.set cr ∈ (storageStep o.userId get set id key).calls at hmem
    rcases storageStep_cases o.userId get set id key with hs | hs | ⟨_, hs⟩ | ⟨hset, hs⟩ <;> rw [hs] at h hmem
    · simp at hmem
    · simp at hmem
    · cases h
    · simp only [List.mem_cons, reduceCtorEq, Call.set.injEq, List.not_mem_nil, or_false, false_or] at hmem
      rw [hmem]; exact hset

/-- at most one read and at most one write, the read first -/
theorem reg_calls_shape (env rp o c opts get set) :
    let calls := (Prog.run env (verifyRegistration rp o c opts get set)).calls
    calls = [] ∨ (∃ id, calls = [Call.get id]) ∨ (∃ id cr, calls = [Call.get id, Call.set cr]) := by
  intro calls
  have hcalls : calls = (finish o.userId get set (regCore env rp o c opts)).calls := by
    show (Prog.run env (verifyRegistration rp o c opts get set)).calls = _
    rw [run_eq_finish]
  rw [hcalls]
  cases hc : regCore env rp o c opts with
  | error e' => exact Or.inl rfl
  | ok p =>
    obtain ⟨id, key⟩ := p
    have hfin : finish o.userId get set (Except.ok (id, key)) = storageStep o.userId get set id key := rfl
    rw [hfin]
    rcases storageStep_cases o.userId get set id key with hs | hs | ⟨_, hs⟩ | ⟨_, hs⟩ <;> rw [hs]
    · exact Or.inr (Or.inl ⟨id, rfl⟩)
    · exact Or.inr (Or.inl ⟨id, rfl⟩)
    · exact Or.inr (Or.inr ⟨id, _, rfl⟩)
    · exact Or.inr (Or.inr ⟨id, _, rfl⟩)

/-- no re-binding: an id owned by another user fails with differentUser and is never written -/
theorem no_rebinding (env rp o c opts get set id key ex)
    (hpre : Spec.RegPreOK env rp o c opts id key) (hget : get id = .found ex) (hown : ex.owner ≠ o.userId) :
    Prog.run env (verifyRegistration rp o c opts get set) = ⟨.error .differentUser, [Call.get id]⟩ := by
  rw [run_of_pre env rp o c opts get set id key hpre]
  exact storageStep_other_owner _ _ _ _ _ ex hget hown

/-- only not-found (possibly wrapped) counts as "not yet registered": any other read failure fails the ceremony with the storage error and writes nothing -/
theorem read_error_fails (env rp o c opts get set id key)
    (hpre : Spec.RegPreOK env rp o c opts id key) (hget : get id = .err) :
    Prog.run env (verifyRegistration rp o c opts get set) = ⟨.error .storageErr, [Call.get id]⟩ := by
  rw [run_of_pre env rp o c opts get set id key hpre]
  exact storageStep_read_err _ _ _ _ _ hget

/-- a write failure is a failure, never success -/
theorem write_error_fails (env rp o c opts get set id key)
    (hpre : Spec.RegPreOK env rp o c opts id key)
    (hget : get id = .notFound ∨ get id = .wrappedNotFound ∨ ∃ ex, get id = .found ex ∧ ex.owner = o.userId)
    (hset : set ⟨id, o.userId, key⟩ = .err) :
    (Prog.run env (verifyRegistration rp o c opts get set)).result = .error .saveErr := by
  rw [run_of_pre env rp o c opts get set id key hpre, storageStep_write _ _ _ _ _ hget, hset]

/-- the regenerated call-order facts (translator T9): registration calls GetCredential then SetCredential, authentication only GetCredential; after SetCredential only its own error check and the final return follow -/
theorem storage_call_facts : Generated.Core.regStorageCalls = ["GetCredential", "SetCredential"]
    ∧ Generated.Core.authStorageCalls = ["GetCredential"]
    ∧ Generated.Core.regAfterSetKinds = ["if-return-nil", "return-ok"] :=
  ⟨rfl, rfl, rfl⟩

end WebAuthn.C06
