import WebAuthnModel.Spec.Ceremony
import WebAuthnModel.Proofs.Origin
import WebAuthnModel.Theorems.C10
import WebAuthnModel.Theorems.C12
import WebAuthnModel.Theorems.C11
/-
  C01 — `VerifyAuthenticationCeremony` returns the stored credential exactly when the ten conditions of
  `Spec.AuthOK` hold; otherwise it returns an error.  Storage is consulted at most once (a read of the
  response's id) and never written.  Everything is proved for every environment (whatever the
  dependencies answer) and every storage behaviour.
-/
namespace WebAuthn.C01
open WebAuthn

/-! ### the run as a pure function of the environment -/

theorem run_sha256 (env : Prog.Env) (b : Bytes) : Prog.run env (Att.sha256 b) = Spec.sha256 env b := by
  unfold Att.sha256 Spec.sha256
  simp only [Prog.run_bind, Prog.run_query]
  cases env.answer (.sha256 b) <;> rfl

/-- what `json.Unmarshal` into the client data returns, as an option: the Lean model of encoding/json (`Model/Json`);
    the environment is not consulted -/
def clientDataOf (_env : Prog.Env) (raw : Bytes) : Option ClientData := Json.clientData raw

theorem run_askClientData (env : Prog.Env) (raw : Bytes) :
    Prog.run env (askClientData raw) = clientDataOf env raw := rfl

theorem clientDataOf_eq_some (env : Prog.Env) (raw : Bytes) (cd : ClientData) :
    clientDataOf env raw = some cd ↔ Json.clientData raw = some cd := Iff.rfl

theorem run_ite {α : Type} (env : Prog.Env) (c : Prop) [Decidable c] (p q : Prog α) :
    Prog.run env (if c then p else q) = if c then Prog.run env p else Prog.run env q := by
  split <;> rfl

/-- steps after the authenticator data has been parsed -/
def afterAuthData (env : Prog.Env) (rp : RP) (o : RequestOptions) (a : Assertion) (cred : Credential) (ad : AuthData) :
    AuthOut :=
  if ad.rpIdHash ≠ Spec.sha256 env rp.id then ⟨.error .rpIdHash, [Call.get a.rawId]⟩
  else if (!flagsUP ad.flags) = true then ⟨.error .notPresent, [Call.get a.rawId]⟩
  else if o.userVerification = strBytes Generated.Core.userVerificationRequired ∧ (!flagsUV ad.flags) = true then
    ⟨.error .notVerified, [Call.get a.rawId]⟩
  else match Cose.parse cred.publicKey with
    | .ok k _ =>
      if Prog.run env (Cose.verify k (a.authenticatorData ++ Spec.sha256 env a.clientDataJSON) a.signature) = true then
        ⟨.ok cred, [Call.get a.rawId]⟩
      else ⟨.error .signature, [Call.get a.rawId]⟩
    | _ => ⟨.error .publicKey, [Call.get a.rawId]⟩

/-- steps after storage answered with a record -/
def afterGet (env : Prog.Env) (rp : RP) (o : RequestOptions) (a : Assertion) (cred : Credential) : AuthOut :=
  if a.userHandle ≠ cred.owner then ⟨.error .userHandle, [Call.get a.rawId]⟩
  else match clientDataOf env a.clientDataJSON with
    | none => ⟨.error .clientData, [Call.get a.rawId]⟩
    | some cd =>
      if cd.type ≠ strBytes Generated.Core.clientDataTypeGet then ⟨.error .type, [Call.get a.rawId]⟩
      else if cd.challenge ≠ B64.encode o.challenge then ⟨.error .challenge, [Call.get a.rawId]⟩
      else if (!Prog.run env (originMatches cd.origin rp.origin)) = true then ⟨.error .origin, [Call.get a.rawId]⟩
      else match unmarshalAuthData a.authenticatorData with
        | none => ⟨.error .authData, [Call.get a.rawId]⟩
        | some (ad, _) => afterAuthData env rp o a cred ad

def authPure (env : Prog.Env) (rp : RP) (o : RequestOptions) (a : Assertion) (get : Bytes → GetOutcome) : AuthOut :=
  if o.allow ≠ [] ∧ (!o.allow.contains a.rawId) = true then ⟨.error .notAllowed, []⟩
  else match get a.rawId with
    | .notFound => ⟨.error .storageNotFound, [Call.get a.rawId]⟩
    | .wrappedNotFound => ⟨.error .storageWrappedNotFound, [Call.get a.rawId]⟩
    | .err => ⟨.error .storageErr, [Call.get a.rawId]⟩
    | .found cred => afterGet env rp o a cred

theorem run_eq_authPure (env : Prog.Env) (rp : RP) (o : RequestOptions) (a : Assertion) (get : Bytes → GetOutcome) :
    Prog.run env (verifyAuthentication rp o a get) = authPure env rp o a get := by
  unfold verifyAuthentication authPure
  rw [run_ite]
  split
  · rfl
  · cases hget : get a.rawId with
    | notFound => rfl
    | wrappedNotFound => rfl
    | err => rfl
    | found cred =>
      simp only []
      unfold afterGet
      rw [run_ite]
      split
      · rfl
      · rw [Prog.run_bind, run_askClientData]
        cases hcd : clientDataOf env a.clientDataJSON with
        | none => rfl
        | some cd =>
          simp only []
          rw [run_ite]; split
          · rfl
          · rw [run_ite]; split
            · rfl
            · rw [Prog.run_bind, run_ite]; split
              · rfl
              · cases hu : unmarshalAuthData a.authenticatorData with
                | none => rfl
                | some p =>
                  obtain ⟨ad, rest⟩ := p
                  simp only []
                  unfold afterAuthData
                  rw [Prog.run_bind, run_sha256, run_ite]; split
                  · rfl
                  · rw [run_ite]; split
                    · rfl
                    · rw [run_ite]; split
                      · rfl
                      · rw [Prog.run_bind, run_sha256]
                        cases hp : Cose.parse cred.publicKey with
                        | ok k r =>
                          simp only []
                          rw [Prog.run_bind, run_ite]; split <;> rfl
                        | err e => rfl
                        | unmodelled => rfl


/-! ### translating the code's tests into the specification's conditions -/

theorem allow_iff (o : RequestOptions) (a : Assertion) :
    ¬ (o.allow ≠ [] ∧ (!o.allow.contains a.rawId) = true) ↔ (o.allow = [] ∨ a.rawId ∈ o.allow) := by
  by_cases h1 : o.allow = [] <;> by_cases h2 : a.rawId ∈ o.allow <;> simp [h1, h2]

theorem type_str : strBytes Generated.Core.clientDataTypeGet = Spec.str "webauthn.get" := rfl
theorem uv_str : strBytes Generated.Core.userVerificationRequired = Spec.str "required" := rfl

theorem origin_iff (env : Prog.Env) (co ro : Bytes) :
    Prog.run env (originMatches co ro) = true ↔ Spec.OriginOK env co ro := by
  rw [originMatches_run]
  unfold Spec.OriginOK
  simp only [labelWalk_iff]

theorem sig_iff (env : Prog.Env) (pk msg sig : Bytes) :
    (∃ k rest, Cose.parse pk = .ok k rest ∧ Prog.run env (Cose.verify k msg sig) = true) ↔ Spec.SigOK env pk msg sig := by
  unfold Spec.SigOK
  simp only [C12.verify_iff]

/-- an error branch never yields a credential -/
theorem ite_err (c : Prop) [Decidable c] (e : AuthErr) (l : List Call) (x : AuthOut) (cred : Credential) :
    (if c then (⟨.error e, l⟩ : AuthOut) else x).result = .ok cred ↔ ¬ c ∧ x.result = .ok cred := by
  split <;> simp [*]

theorem err_ne_ok (e : AuthErr) (l : List Call) (cred : Credential) :
    ((⟨.error e, l⟩ : AuthOut).result = .ok cred) ↔ False := by simp

theorem afterAuthData_ok (env : Prog.Env) (rp : RP) (o : RequestOptions) (a : Assertion) (cred : Credential)
    (ad : AuthData) (c : Credential) :
    (afterAuthData env rp o a cred ad).result = .ok c ↔
      c = cred ∧ ad.rpIdHash = Spec.sha256 env rp.id ∧ Spec.bit ad.flags 0 = true ∧
      (o.userVerification = Spec.str "required" → Spec.bit ad.flags 2 = true) ∧
      Spec.SigOK env cred.publicKey (a.authenticatorData ++ Spec.sha256 env a.clientDataJSON) a.signature := by
  unfold afterAuthData
  rw [← sig_iff]
  simp only [ite_err, (C10.flag_bits ad.flags).1, (C10.flag_bits ad.flags).2.1]
  simp only [uv_str]
  cases hp : Cose.parse cred.publicKey with
  | ok k r =>
    simp only []
    by_cases hv : Prog.run env (Cose.verify k (a.authenticatorData ++ Spec.sha256 env a.clientDataJSON) a.signature) = true
    · rw [if_pos hv]
      constructor
      · rintro ⟨h1, h2, h3, h4⟩
        have h4' : cred = c := by simpa using h4
        exact ⟨h4'.symm, by simpa using h1, by simpa using h2, by simpa using h3, k, r, rfl, hv⟩
      · rintro ⟨h1, h2, h3, h4, _⟩
        exact ⟨by simpa using h2, by simpa using h3, by simpa using h4, by simp [h1]⟩
    · rw [if_neg hv]
      constructor
      · rintro ⟨_, _, _, h⟩
        simp at h
      · rintro ⟨_, _, _, _, k', r', h, hv'⟩
        cases h
        exact absurd hv' hv
  | err e => simp
  | unmodelled => simp

theorem afterGet_ok (env : Prog.Env) (rp : RP) (o : RequestOptions) (a : Assertion) (cred : Credential) (c : Credential) :
    (afterGet env rp o a cred).result = .ok c ↔
      c = cred ∧ a.userHandle = cred.owner ∧
      (∃ cd, Json.clientData a.clientDataJSON = some cd ∧
        cd.type = Spec.str "webauthn.get" ∧ cd.challenge = B64.encode o.challenge ∧ Spec.OriginOK env cd.origin rp.origin) ∧
      (∃ ad rest, unmarshalAuthData a.authenticatorData = some (ad, rest) ∧ ad.rpIdHash = Spec.sha256 env rp.id ∧
        Spec.bit ad.flags 0 = true ∧ (o.userVerification = Spec.str "required" → Spec.bit ad.flags 2 = true)) ∧
      Spec.SigOK env cred.publicKey (a.authenticatorData ++ Spec.sha256 env a.clientDataJSON) a.signature := by
  unfold afterGet clientDataOf
  simp only [ite_err, ← origin_iff]
  cases hcd : Json.clientData a.clientDataJSON with
  | none => simp
  | some cd =>
    simp only [ite_err]
    cases hu : unmarshalAuthData a.authenticatorData with
    | none => simp
    | some p =>
      obtain ⟨ad, rest⟩ := p
      simp only [afterAuthData_ok, type_str]
      constructor
      · rintro ⟨h1, h2, h3, h4, rfl, h6, h7, h8, h9⟩
        exact ⟨rfl, by simpa using h1, ⟨cd, rfl, by simpa using h2, by simpa using h3, by simpa using h4⟩,
          ⟨ad, rest, rfl, h6, h7, h8⟩, h9⟩
      · rintro ⟨rfl, h1, ⟨cd', hcd', h2, h3, h4⟩, ⟨ad', rest', hu', h6, h7, h8⟩, h9⟩
        cases hcd'; cases hu'
        exact ⟨by simpa using h1, by simpa using h2, by simpa using h3, by simpa using h4, rfl, h6, h7, h8, h9⟩


/-! ### C01 -/

/-- VerifyAuthenticationCeremony returns `cred` iff all ten conditions hold — for every environment, RP, options,
    response and storage answer -/
theorem auth_iff (env : Prog.Env) (rp : RP) (o : RequestOptions) (a : Assertion) (get : Bytes → GetOutcome)
    (cred : Credential) :
    (Prog.run env (verifyAuthentication rp o a get)).result = .ok cred ↔ Spec.AuthOK env rp o a get cred := by
  rw [run_eq_authPure]
  unfold authPure
  rw [ite_err, allow_iff]
  cases hget : get a.rawId with
  | notFound =>
    constructor
    · rintro ⟨_, h⟩; cases h
    · intro h; have := h.stored; rw [hget] at this; cases this
  | wrappedNotFound =>
    constructor
    · rintro ⟨_, h⟩; cases h
    · intro h; have := h.stored; rw [hget] at this; cases this
  | err =>
    constructor
    · rintro ⟨_, h⟩; cases h
    · intro h; have := h.stored; rw [hget] at this; cases this
  | found c =>
    simp only [afterGet_ok]
    constructor
    · rintro ⟨h1, rfl, h3, h4, h5, h6⟩
      exact ⟨h1, hget, h3, h4, h5, h6⟩
    · intro h
      have hs := h.stored
      rw [hget] at hs
      cases hs
      exact ⟨h.allowed, rfl, h.owner, h.clientData, h.authData, h.signature⟩

/-- the credential returned is the stored record for that id -/
theorem auth_returns_stored (env : Prog.Env) (rp : RP) (o : RequestOptions) (a : Assertion) (get : Bytes → GetOutcome)
    (cred : Credential) (h : (Prog.run env (verifyAuthentication rp o a get)).result = .ok cred) :
    get a.rawId = .found cred :=
  ((auth_iff env rp o a get cred).mp h).stored

/-- an unknown id yields the storage's own not-found error (when the allow-list does not already exclude it) -/
theorem auth_unknown_id (env : Prog.Env) (rp : RP) (o : RequestOptions) (a : Assertion) (get : Bytes → GetOutcome)
    (hallow : o.allow = [] ∨ a.rawId ∈ o.allow) (hget : get a.rawId = .notFound) :
    (Prog.run env (verifyAuthentication rp o a get)).result = .error .storageNotFound := by
  rw [run_eq_authPure]
  unfold authPure
  rw [if_neg ((allow_iff o a).mpr hallow), hget]

theorem auth_unknown_id_wrapped (env : Prog.Env) (rp : RP) (o : RequestOptions) (a : Assertion)
    (get : Bytes → GetOutcome) (hallow : o.allow = [] ∨ a.rawId ∈ o.allow) (hget : get a.rawId = .wrappedNotFound) :
    (Prog.run env (verifyAuthentication rp o a get)).result = .error .storageWrappedNotFound := by
  rw [run_eq_authPure]
  unfold authPure
  rw [if_neg ((allow_iff o a).mpr hallow), hget]

theorem auth_storage_error (env : Prog.Env) (rp : RP) (o : RequestOptions) (a : Assertion) (get : Bytes → GetOutcome)
    (hallow : o.allow = [] ∨ a.rawId ∈ o.allow) (hget : get a.rawId = .err) :
    (Prog.run env (verifyAuthentication rp o a get)).result = .error .storageErr := by
  rw [run_eq_authPure]
  unfold authPure
  rw [if_neg ((allow_iff o a).mpr hallow), hget]

/-! every response violating any one condition is rejected: contrapositive per clause (corollaries of `auth_iff`) -/

theorem auth_reject_not_allowed (env : Prog.Env) (rp : RP) (o : RequestOptions) (a : Assertion)
    (get : Bytes → GetOutcome) (h1 : o.allow ≠ []) (h2 : a.rawId ∉ o.allow) :
    ∀ cred, (Prog.run env (verifyAuthentication rp o a get)).result ≠ .ok cred := by
  intro cred h
  rcases ((auth_iff env rp o a get cred).mp h).allowed with h | h
  · exact h1 h
  · exact h2 h

theorem auth_reject_foreign_user_handle (env : Prog.Env) (rp : RP) (o : RequestOptions) (a : Assertion)
    (get : Bytes → GetOutcome) (cred : Credential) (hget : get a.rawId = .found cred) (h : a.userHandle ≠ cred.owner) :
    ∀ c, (Prog.run env (verifyAuthentication rp o a get)).result ≠ .ok c := by
  intro c hc
  have hok := (auth_iff env rp o a get c).mp hc
  have hs := hok.stored
  rw [hget] at hs
  cases hs
  exact h hok.owner

theorem auth_reject_no_UP (env : Prog.Env) (rp : RP) (o : RequestOptions) (a : Assertion) (get : Bytes → GetOutcome)
    (ad : AuthData) (rest : Bytes) (hu : unmarshalAuthData a.authenticatorData = some (ad, rest))
    (h : Spec.bit ad.flags 0 = false) :
    ∀ c, (Prog.run env (verifyAuthentication rp o a get)).result ≠ .ok c := by
  intro c hc
  obtain ⟨ad', rest', hu', _, hup, _⟩ := ((auth_iff env rp o a get c).mp hc).authData
  rw [hu] at hu'
  cases hu'
  rw [h] at hup
  cases hup

theorem auth_reject_no_UV (env : Prog.Env) (rp : RP) (o : RequestOptions) (a : Assertion) (get : Bytes → GetOutcome)
    (ad : AuthData) (rest : Bytes) (hu : unmarshalAuthData a.authenticatorData = some (ad, rest))
    (hreq : o.userVerification = Spec.str "required") (h : Spec.bit ad.flags 2 = false) :
    ∀ c, (Prog.run env (verifyAuthentication rp o a get)).result ≠ .ok c := by
  intro c hc
  obtain ⟨ad', rest', hu', _, _, huv⟩ := ((auth_iff env rp o a get c).mp hc).authData
  rw [hu] at hu'
  cases hu'
  have := huv hreq
  rw [h] at this
  cases this

theorem auth_reject_bad_rpIdHash (env : Prog.Env) (rp : RP) (o : RequestOptions) (a : Assertion)
    (get : Bytes → GetOutcome) (ad : AuthData) (rest : Bytes)
    (hu : unmarshalAuthData a.authenticatorData = some (ad, rest)) (h : ad.rpIdHash ≠ Spec.sha256 env rp.id) :
    ∀ c, (Prog.run env (verifyAuthentication rp o a get)).result ≠ .ok c := by
  intro c hc
  obtain ⟨ad', rest', hu', hh, _, _⟩ := ((auth_iff env rp o a get c).mp hc).authData
  rw [hu] at hu'
  cases hu'
  exact h hh

theorem auth_reject_bad_signature (env : Prog.Env) (rp : RP) (o : RequestOptions) (a : Assertion)
    (get : Bytes → GetOutcome) (cred : Credential) (hget : get a.rawId = .found cred)
    (h : ¬ Spec.SigOK env cred.publicKey (a.authenticatorData ++ Spec.sha256 env a.clientDataJSON) a.signature) :
    ∀ c, (Prog.run env (verifyAuthentication rp o a get)).result ≠ .ok c := by
  intro c hc
  have hok := (auth_iff env rp o a get c).mp hc
  have hs := hok.stored
  rw [hget] at hs
  cases hs
  exact h hok.signature

theorem auth_reject_bad_client_data (env : Prog.Env) (rp : RP) (o : RequestOptions) (a : Assertion)
    (get : Bytes → GetOutcome)
    (h : ¬ ∃ cd, Json.clientData a.clientDataJSON = some cd ∧ cd.type = Spec.str "webauthn.get" ∧
          cd.challenge = B64.encode o.challenge ∧ Spec.OriginOK env cd.origin rp.origin) :
    ∀ c, (Prog.run env (verifyAuthentication rp o a get)).result ≠ .ok c := by
  intro c hc
  exact h ((auth_iff env rp o a get c).mp hc).clientData

/-! ### storage calls (C06 for authentication) -/

theorem afterAuthData_calls (env : Prog.Env) (rp : RP) (o : RequestOptions) (a : Assertion) (cred : Credential)
    (ad : AuthData) : (afterAuthData env rp o a cred ad).calls = [Call.get a.rawId] := by
  unfold afterAuthData
  repeat' split
  all_goals rfl

theorem afterGet_calls (env : Prog.Env) (rp : RP) (o : RequestOptions) (a : Assertion) (cred : Credential) :
    (afterGet env rp o a cred).calls = [Call.get a.rawId] := by
  unfold afterGet
  repeat' split
  all_goals first | rfl | exact afterAuthData_calls ..

/-- C06 for authentication: at most one storage call, a read of the response's id, and never a write -/
theorem auth_calls (env : Prog.Env) (rp : RP) (o : RequestOptions) (a : Assertion) (get : Bytes → GetOutcome) :
    (Prog.run env (verifyAuthentication rp o a get)).calls = [] ∨
    (Prog.run env (verifyAuthentication rp o a get)).calls = [Call.get a.rawId] := by
  rw [run_eq_authPure]
  unfold authPure
  split
  · exact Or.inl rfl
  · right
    split
    · rfl
    · rfl
    · rfl
    · exact afterGet_calls ..

theorem auth_never_writes (env : Prog.Env) (rp : RP) (o : RequestOptions) (a : Assertion) (get : Bytes → GetOutcome) :
    ∀ c, Call.set c ∉ (Prog.run env (verifyAuthentication rp o a get)).calls := by
  intro c
  rcases auth_calls env rp o a get with h | h <;> rw [h] <;> simp

/-- the outcome depends on storage only through the answer for the response's id -/
theorem auth_depends_on_get_rawId (env : Prog.Env) (rp : RP) (o : RequestOptions) (a : Assertion)
    (get get' : Bytes → GetOutcome) (h : get a.rawId = get' a.rawId) :
    Prog.run env (verifyAuthentication rp o a get) = Prog.run env (verifyAuthentication rp o a get') := by
  rw [run_eq_authPure, run_eq_authPure]
  unfold authPure
  rw [h]

/-! ### non-vacuity: a concrete accepted ceremony -/

def exEnv : Prog.Env :=
  ⟨fun q => match q with
    | .sha256 _ => .bytes (List.replicate 32 7)
    | .sigVerify .. => .bool true
    | _ => .none⟩
def exRP : RP := ⟨Spec.str "https://h", Spec.str "h"⟩

/-- the example's origin really parses to the host the example intends -/
theorem ex_host : Url.hostOf (Spec.str "https://h") = some (Spec.str "h") := by decide +kernel
def exOpts : RequestOptions := ⟨[1, 2, 3], [], []⟩
def exCred : Credential := ⟨[1], [], Cose.marshal (.okp (List.replicate 32 1))⟩
/-- the client data of the example: a real JSON document; its challenge member is base64url of the options' challenge -/
def exClientDataJSON : Bytes :=
  Bytes.ofString "{\"type\":\"webauthn.get\",\"challenge\":\"AQID\",\"origin\":\"https://h\"}"
def exAssertion : Assertion := ⟨[1], exClientDataJSON, List.replicate 32 7 ++ [0x01, 0, 0, 0, 0], [], []⟩

/-- `encoding/json` (the Lean model) decodes the example's client data to the intended three members -/
theorem ex_clientData :
    Json.clientData exClientDataJSON = some ⟨Spec.str "webauthn.get", B64.encode exOpts.challenge, Spec.str "https://h"⟩ := by
  decide +kernel
def exGet : Bytes → GetOutcome := fun _ => .found exCred

theorem ex_authOK : Spec.AuthOK exEnv exRP exOpts exAssertion exGet exCred where
  allowed := Or.inl rfl
  stored := rfl
  owner := rfl
  clientData := ⟨_, ex_clientData, rfl, rfl, Spec.str "h", Spec.str "h", ex_host, ex_host, by decide +kernel, Or.inl rfl⟩
  authData := ⟨⟨List.replicate 32 7, 1, 0, none, []⟩, [], by decide, rfl, by decide,
    fun h => absurd h (by decide +kernel)⟩
  signature := ⟨.okp (List.replicate 32 1), [], C11.marshal_parse_roundtrip_okp _ List.length_replicate, .eddsa, 0, rfl, rfl⟩

/-- the conditions of `auth_iff` are satisfiable: the equivalence is not vacuous -/
example : ∃ env rp o a get cred, Spec.AuthOK env rp o a get cred := ⟨_, _, _, _, _, _, ex_authOK⟩

/-- and the ceremony indeed returns the stored credential on that input -/
example : (Prog.run exEnv (verifyAuthentication exRP exOpts exAssertion exGet)).result = .ok exCred :=
  (auth_iff ..).mpr ex_authOK

end WebAuthn.C01

