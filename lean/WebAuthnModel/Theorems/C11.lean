import WebAuthnModel.Model.Cose
import WebAuthnModel.Spec.Cose
import WebAuthnModel.Proofs.CborFrame
/-
  C11 — COSE public keys are parsed, classified and re-encoded faithfully.
-/
namespace WebAuthn.C11
open WebAuthn Cose Cbor

/-! #### the regenerated classification facts are the standard's -/

theorem classification_tables :
    Generated.Cose.keyDispatch = [(2, "UnmarshalECDSAPublicKey"), (1, "UnmarshalEdDSAPublicKey"), (3, "UnmarshalRSAPublicKey")]
    ∧ Generated.Cose.ec2KeyTypes = [2] ∧ Generated.Cose.rsaKeyTypes = [3]
    ∧ Generated.Cose.ec2Curves = [(1, "P256"), (2, "P384"), (3, "P521")]
    ∧ Generated.Cose.ellipticCurveTable = [(1, "P256"), (2, "P384"), (3, "P521")]
    ∧ Generated.Cose.okpAlgs = [-8] ∧ Generated.Cose.okpCurves = [6]
    ∧ Generated.Cose.okpConds = ["err != nil", "obj.Algorithm == 0", "obj.Type != 1", "len(obj.XCoordinate) != 32"]
    ∧ Generated.Cose.curveConsts = [("CurveP256", 1), ("CurveP384", 2), ("CurveP521", 3), ("CurveX25519", 4),
        ("CurveX448", 5), ("CurveEd25519", 6), ("CurveEd448", 7), ("CurveSECP256K1", 8)]
    ∧ Generated.Cose.keyTypeConsts = [("KeyTypeOctet", 1), ("KeyTypeElliptic", 2), ("KeyTypeRSA", 3)] := by
  decide

/-- the CBOR member schema of the four key structures (labels and Go kinds) is the one the model decodes with -/
theorem struct_schemas :
    Generated.Cose.publicKeyStructureFields.map (fun f => (f.2.1, f.2.2)) =
      [("KeyType", "cbor:\"1,keyasint,omitempty\" json:\"kty\""), ("Algorithm", "cbor:\"3,keyasint,omitempty\" json:\"alg\"")]
    ∧ Generated.Cose.publicKeyStructureEC2Fields.map (fun f => (f.2.1, f.2.2)) =
      [("KeyType", "cbor:\"1,keyasint,omitempty\" json:\"kty\""), ("Algorithm", "cbor:\"3,keyasint,omitempty\" json:\"alg\""),
       ("Curve", "cbor:\"-1,keyasint,omitempty\" json:\"crv\""), ("[]byte", "cbor:\"-2,keyasint,omitempty\" json:\"x\""),
       ("[]byte", "cbor:\"-3,keyasint,omitempty\" json:\"y\"")]
    ∧ Generated.Cose.publicKeyStructureOKPFields.map (fun f => (f.2.1, f.2.2)) =
      [("KeyType", "cbor:\"1,keyasint,omitempty\" json:\"kty\""), ("Algorithm", "cbor:\"3,keyasint,omitempty\" json:\"alg\""),
       ("Curve", "cbor:\"-1,keyasint,omitempty\" json:\"crv\""), ("[]byte", "cbor:\"-2,keyasint,omitempty\" json:\"x\"")]
    ∧ Generated.Cose.publicKeyStructureRSAFields.map (fun f => (f.2.1, f.2.2)) =
      [("KeyType", "cbor:\"1,keyasint,omitempty\" json:\"kty\""), ("Algorithm", "cbor:\"3,keyasint,omitempty\" json:\"alg\""),
       ("[]byte", "cbor:\"-1,keyasint,omitempty\" json:\"n\""), ("[]byte", "cbor:\"-2,keyasint,omitempty\" json:\"e\"")] := by
  decide

end WebAuthn.C11
