import WebAuthnModel.Model.Cose
import WebAuthnModel.Spec.Cose
import WebAuthnModel.Proofs.CborFrame
import WebAuthnModel.Proofs.CoseEncode
/-
  C11 — COSE public keys are parsed, classified and re-encoded faithfully.
-/
namespace WebAuthn.C11
open WebAuthn Cose Cbor

/-! #### the regenerated classification facts are the standard's -/

/-- (the OKP parser's conditions: the four reviewed ones are there, in this order; a further condition — say a redundant emptiness test in
    front of the length test — does not break the fact, and whether it changes what is accepted is for the correspondence streams to say) -/
theorem classification_tables :
    Generated.Cose.keyDispatch = [(2, "UnmarshalECDSAPublicKey"), (1, "UnmarshalEdDSAPublicKey"), (3, "UnmarshalRSAPublicKey")]
    ∧ Generated.Cose.ec2KeyTypes = [2] ∧ Generated.Cose.rsaKeyTypes = [3]
    ∧ Generated.Cose.ec2Curves = [(1, "P256"), (2, "P384"), (3, "P521")]
    ∧ Generated.Cose.ellipticCurveTable = [(1, "P256"), (2, "P384"), (3, "P521")]
    ∧ Generated.Cose.okpAlgs = [-8] ∧ Generated.Cose.okpCurves = [6]
    ∧ ["err != nil", "obj.Algorithm == 0", "obj.Type != 1", "len(obj.XCoordinate) != 32"].isSublist Generated.Cose.okpConds = true
    ∧ Generated.Cose.curveConsts = [("CurveP256", 1), ("CurveP384", 2), ("CurveP521", 3), ("CurveX25519", 4),
        ("CurveX448", 5), ("CurveEd25519", 6), ("CurveEd448", 7), ("CurveSECP256K1", 8)]
    ∧ Generated.Cose.keyTypeConsts = [("KeyTypeOctet", 1), ("KeyTypeElliptic", 2), ("KeyTypeRSA", 3)] := by
  decide

/-- the CBOR member schema of the four key structures (labels and Go kinds) is the one the model decodes with -/
theorem struct_schemas :
    Generated.Cose.publicKeyStructureFields.map (fun f => (f.2.1, f.2.2)) =
      [("KeyType", "cbor:\"1,keyasint,omitempty\" json:\"kty\""), ("Algorithm", "cbor:\"3,keyasint,omitempty\" json:\"alg\"")]
    ∧ Generated.Cose.publicKeyStructureEC2Fields.map (fun f => (f.2.1, f.2.2)) =
      [("KeyType", "cbor:\"1,keyasint,omitempty\" json:\"kty\""), ("Algorithm", "cbor:\"3,keyasint,omitempty\" json:\"alg\""),
       ("Curve", "cbor:\"-1,keyasint,omitempty\" json:\"crv\""), ("[]byte", "cbor:\"-2,keyasint,omitempty\" json:\"x\""),
       ("[]byte", "cbor:\"-3,keyasint,omitempty\" json:\"y\"")]
    ∧ Generated.Cose.publicKeyStructureOKPFields.map (fun f => (f.2.1, f.2.2)) =
      [("KeyType", "cbor:\"1,keyasint,omitempty\" json:\"kty\""), ("Algorithm", "cbor:\"3,keyasint,omitempty\" json:\"alg\""),
       ("Curve", "cbor:\"-1,keyasint,omitempty\" json:\"crv\""), ("[]byte", "cbor:\"-2,keyasint,omitempty\" json:\"x\"")]
    ∧ Generated.Cose.publicKeyStructureRSAFields.map (fun f => (f.2.1, f.2.2)) =
      [("KeyType", "cbor:\"1,keyasint,omitempty\" json:\"kty\""), ("Algorithm", "cbor:\"3,keyasint,omitempty\" json:\"alg\""),
       ("[]byte", "cbor:\"-1,keyasint,omitempty\" json:\"n\""), ("[]byte", "cbor:\"-2,keyasint,omitempty\" json:\"e\"")] := by
  decide

/-! #### the parsers accept exactly the supported keys -/

def toClass : Key → Spec.Cose.KeyClass
  | .ec2 a c x y => .ec2 a c x y
  | .okp x => .okp x
  | .rsa a n e => .rsa a n e

theorem toClass_ec2 (k : Key) (a c : Int) (x y : Bytes) : .ec2 a c x y = toClass k ↔ k = .ec2 a c x y := by
  cases k <;> simp [toClass, eq_comm]
theorem toClass_okp (k : Key) (x : Bytes) : .okp x = toClass k ↔ k = .okp x := by
  cases k <;> simp [toClass, eq_comm]
theorem toClass_rsa (k : Key) (a : Int) (n e : Bytes) : .rsa a n e = toClass k ↔ k = .rsa a n e := by
  cases k <;> simp [toClass, eq_comm]

theorem lookup_isSome {β : Type} (tbl : List (Int × β)) (k : Int) :
    (lookup tbl k).isSome = true ↔ k ∈ tbl.map (·.1) := by
  unfold lookup
  simp [List.find?_isSome]

theorem lookup_isNone {β : Type} (tbl : List (Int × β)) (k : Int) :
    (lookup tbl k).isNone = true ↔ k ∉ tbl.map (·.1) := by
  rw [← lookup_isSome]
  cases lookup tbl k <;> simp

theorem exists_decode_iff {v : Value} {r' rest : Bytes}
    (schema : List (Int × FieldKind)) (P : List (Int × FieldVal) → Prop) :
    (∃ v' vals, some (v, r') = some (v', rest) ∧ decodeStruct schema v' = .ok vals ∧ P vals) ↔
      r' = rest ∧ ∃ vals, decodeStruct schema v = .ok vals ∧ P vals := by
  constructor
  · rintro ⟨v', vals, he, hs, hp⟩
    simp only [Option.some.injEq, Prod.mk.injEq] at he
    obtain ⟨rfl, rfl⟩ := he
    exact ⟨rfl, vals, hs, hp⟩
  · rintro ⟨rfl, vals, hs, hp⟩
    exact ⟨v, vals, rfl, hs, hp⟩

theorem ec2KeyTypes_contains (i : Int) : Generated.Cose.ec2KeyTypes.contains i = true ↔ i = 2 := by
  simp [Generated.Cose.ec2KeyTypes]
theorem rsaKeyTypes_contains (i : Int) : Generated.Cose.rsaKeyTypes.contains i = true ↔ i = 3 := by
  simp [Generated.Cose.rsaKeyTypes]
theorem okpAlgs_contains (i : Int) : Generated.Cose.okpAlgs.contains i = true ↔ i = -8 := by
  simp [Generated.Cose.okpAlgs]
theorem okpCurves_contains (i : Int) : Generated.Cose.okpCurves.contains i = true ↔ i = 6 := by
  simp [Generated.Cose.okpCurves]
theorem ec2Curves_isNone (c : Int) :
    (lookup Generated.Cose.ec2Curves c).isNone = true ↔ ¬ (c = 1 ∨ c = 2 ∨ c = 3) := by
  rw [lookup_isNone]; simp [Generated.Cose.ec2Curves]
theorem ecdsaVerifyTable_isNone (a : Int) :
    (lookup Generated.Cose.ecdsaVerifyTable a).isNone = true ↔ ¬ (a = -7 ∨ a = -35 ∨ a = -36) := by
  rw [lookup_isNone]; simp [Generated.Cose.ecdsaVerifyTable]; omega
theorem rsaVerifyTable_isNone (a : Int) :
    (lookup Generated.Cose.rsaVerifyTable a).isNone = true ↔
      ¬ (a = -65535 ∨ a = -257 ∨ a = -258 ∨ a = -259 ∨ a = -37 ∨ a = -38 ∨ a = -39) := by
  rw [lookup_isNone]; simp [Generated.Cose.rsaVerifyTable]; omega

theorem ec2_body_iff (vals : List (Int × FieldVal)) (r' rest : Bytes) (k : Key) :
    (if !(Generated.Cose.ec2KeyTypes.contains (getInt vals 1)) then ParseRes.err .unsupportedKeyType
      else if (lookup Generated.Cose.ec2Curves (getInt vals (-1))).isNone then .err .unsupportedCurve
      else if (lookup Generated.Cose.ecdsaVerifyTable (getInt vals 3)).isNone then .err .unsupportedAlgorithm
      else .ok (.ec2 (getInt vals 3) (getInt vals (-1)) (getBytes vals (-2)) (getBytes vals (-3))) r') = .ok k rest ↔
    r' = rest ∧ getInt vals 1 = 2 ∧
        Spec.Cose.classify 2 (getInt vals 3) (getInt vals (-1)) [] (getBytes vals (-2)) (getBytes vals (-3)) = some (toClass k) := by
  simp only [Bool.not_eq_true', Bool.eq_false_iff, ne_eq, ec2KeyTypes_contains, ec2Curves_isNone, ecdsaVerifyTable_isNone,
    Spec.Cose.classify, Spec.Cose.ES256, Spec.Cose.ES384, Spec.Cose.ES512, if_true]
  by_cases c1 : getInt vals 1 = 2
  · by_cases c2 : (getInt vals (-1) = 1 ∨ getInt vals (-1) = 2 ∨ getInt vals (-1) = 3)
    · by_cases c3 : (getInt vals 3 = -7 ∨ getInt vals 3 = -35 ∨ getInt vals 3 = -36)
      · simp only [c1, c2, c3, not_true, if_true, if_false, and_true, true_and, Option.some.injEq,
          toClass_ec2, ParseRes.ok.injEq]
        constructor
        · rintro ⟨rfl, rfl⟩; exact ⟨rfl, rfl⟩
        · rintro ⟨rfl, rfl⟩; exact ⟨rfl, rfl⟩
      · simp [c1, c2, c3]
    · simp [c1, c2]
  · simp [c1]

/-- EC2 parser: accepts exactly when the members classify as a supported EC2 key, and the key returned carries exactly the encoded members -/
theorem parseEC2_iff (raw : Bytes) (k : Key) (rest : Bytes) :
    parseEC2 raw = .ok k rest ↔
      ∃ v vals, decode raw = some (v, rest) ∧ decodeStruct ec2Schema v = .ok vals ∧ getInt vals 1 = 2 ∧
        Spec.Cose.classify 2 (getInt vals 3) (getInt vals (-1)) [] (getBytes vals (-2)) (getBytes vals (-3)) = some (toClass k) := by
  unfold parseEC2
  cases hd : decode raw with
  | none => simp
  | some vr =>
    obtain ⟨v, r'⟩ := vr
    rw [exists_decode_iff]
    simp only []
    cases hs : decodeStruct ec2Schema v with
    | unmodelled => simp
    | err => simp
    | ok vals =>
      simp only [StructRes.ok.injEq, exists_eq_left']
      exact ec2_body_iff vals r' rest k

theorem okp_body_iff (vals : List (Int × FieldVal)) (r' rest : Bytes) (k : Key) :
    (let alg := if getInt vals 3 = 0 then -8 else getInt vals 3
      if getInt vals 1 ≠ 1 then ParseRes.err .invalidKey
      else if !(Generated.Cose.okpAlgs.contains alg) then .err .unsupportedAlgorithm
      else if !(Generated.Cose.okpCurves.contains (getInt vals (-1))) then .err .unsupportedCurve
      else if (getBytes vals (-2)).length ≠ 32 then .err .invalidKey
      else .ok (.okp (getBytes vals (-2))) r') = .ok k rest ↔
    r' = rest ∧ getInt vals 1 = 1 ∧
        Spec.Cose.classify 1 (getInt vals 3) (getInt vals (-1)) [] (getBytes vals (-2)) [] = some (toClass k) := by
  have ha : (if getInt vals 3 = 0 then (-8 : Int) else getInt vals 3) = -8 ↔ (getInt vals 3 = -8 ∨ getInt vals 3 = 0) := by
    split <;> omega
  simp only [Bool.not_eq_true', Bool.eq_false_iff, ne_eq, okpAlgs_contains, okpCurves_contains, ha,
    Spec.Cose.classify, Spec.Cose.EdDSA, if_true]
  by_cases c1 : getInt vals 1 = 1
  · by_cases c2 : (getInt vals 3 = -8 ∨ getInt vals 3 = 0)
    · by_cases c3 : getInt vals (-1) = 6
      · by_cases c4 : (getBytes vals (-2)).length = 32
        · simp [c1, c2, c3, c4]
          rw [toClass_okp]
          constructor
          · rintro ⟨h1, h2⟩; exact ⟨h2, h1.symm⟩
          · rintro ⟨h1, h2⟩; exact ⟨h2.symm, h1⟩
        · simp [c1, c2, c3, c4]
      · simp [c1, c2, c3]
    · simp [c1, c2]
  · simp [c1]

theorem parseOKP_iff (raw : Bytes) (k : Key) (rest : Bytes) :
    parseOKP raw = .ok k rest ↔
      ∃ v vals, decode raw = some (v, rest) ∧ decodeStruct okpSchema v = .ok vals ∧ getInt vals 1 = 1 ∧
        Spec.Cose.classify 1 (getInt vals 3) (getInt vals (-1)) [] (getBytes vals (-2)) [] = some (toClass k) := by
  unfold parseOKP
  cases hd : decode raw with
  | none => simp
  | some vr =>
    obtain ⟨v, r'⟩ := vr
    rw [exists_decode_iff]
    simp only []
    cases hs : decodeStruct okpSchema v with
    | unmodelled => simp
    | err => simp
    | ok vals =>
      simp only [StructRes.ok.injEq, exists_eq_left']
      exact okp_body_iff vals r' rest k

theorem rsa_body_iff (vals : List (Int × FieldVal)) (r' rest : Bytes) (k : Key) :
    (if !(Generated.Cose.rsaKeyTypes.contains (getInt vals 1)) then ParseRes.err .unsupportedKeyType
      else if !exponentFits (getBytes vals (-2)) then .err .invalidKey
      else if (lookup Generated.Cose.rsaVerifyTable (getInt vals 3)).isNone then .err .unsupportedAlgorithm
      else .ok (.rsa (getInt vals 3) (getBytes vals (-1)) (getBytes vals (-2))) r') = .ok k rest ↔
    r' = rest ∧ getInt vals 1 = 3 ∧
        Spec.Cose.classify 3 (getInt vals 3) 0 (getBytes vals (-1)) (getBytes vals (-2)) [] = some (toClass k) := by
  have he : exponentFits (getBytes vals (-2)) = true ↔ Bytes.beNat (getBytes vals (-2)) < 2 ^ 63 := by
    simp [exponentFits]
  simp only [Bool.not_eq_true', Bool.eq_false_iff, ne_eq, rsaKeyTypes_contains, rsaVerifyTable_isNone, he,
    Spec.Cose.classify, Spec.Cose.RS1, Spec.Cose.RS256, Spec.Cose.RS384, Spec.Cose.RS512, Spec.Cose.PS256,
    Spec.Cose.PS384, Spec.Cose.PS512, if_true]
  by_cases c1 : getInt vals 1 = 3
  · by_cases c2 : Bytes.beNat (getBytes vals (-2)) < 2 ^ 63
    · by_cases c3 : (getInt vals 3 = -65535 ∨ getInt vals 3 = -257 ∨ getInt vals 3 = -258 ∨ getInt vals 3 = -259 ∨
          getInt vals 3 = -37 ∨ getInt vals 3 = -38 ∨ getInt vals 3 = -39)
      · simp [c1, c2, c3]
        rw [toClass_rsa]
        constructor
        · rintro ⟨h1, h2⟩; exact ⟨h2, h1.symm⟩
        · rintro ⟨h1, h2⟩; exact ⟨h2.symm, h1⟩
      · simp [c1, c2, c3]
    · simp [c1, c2]
  · simp [c1]

theorem parseRSA_iff (raw : Bytes) (k : Key) (rest : Bytes) :
    parseRSA raw = .ok k rest ↔
      ∃ v vals, decode raw = some (v, rest) ∧ decodeStruct rsaSchema v = .ok vals ∧ getInt vals 1 = 3 ∧
        Spec.Cose.classify 3 (getInt vals 3) 0 (getBytes vals (-1)) (getBytes vals (-2)) [] = some (toClass k) := by
  unfold parseRSA
  cases hd : decode raw with
  | none => simp
  | some vr =>
    obtain ⟨v, r'⟩ := vr
    rw [exists_decode_iff]
    simp only []
    cases hs : decodeStruct rsaSchema v with
    | unmodelled => simp
    | err => simp
    | ok vals =>
      simp only [StructRes.ok.injEq, exists_eq_left']
      exact rsa_body_iff vals r' rest k

/-- what the dispatching parser accepts is a supported key, with nothing after it -/
def Supported : Key → Prop
  | .ec2 alg crv _ _ => (crv = 1 ∨ crv = 2 ∨ crv = 3) ∧ (alg = -7 ∨ alg = -35 ∨ alg = -36)
  | .okp x => x.length = 32
  | .rsa alg _ e => (alg = -65535 ∨ alg = -257 ∨ alg = -258 ∨ alg = -259 ∨ alg = -37 ∨ alg = -38 ∨ alg = -39) ∧ Bytes.beNat e < 2 ^ 63

theorem supported_of_classify (kty alg crv : Int) (m1 m2 m3 : Bytes) (k : Key)
    (h : Spec.Cose.classify kty alg crv m1 m2 m3 = some (toClass k)) : Supported k := by
  unfold Spec.Cose.classify at h
  simp only [Spec.Cose.ES256, Spec.Cose.ES384, Spec.Cose.ES512, Spec.Cose.EdDSA, Spec.Cose.RS1, Spec.Cose.RS256,
    Spec.Cose.RS384, Spec.Cose.RS512, Spec.Cose.PS256, Spec.Cose.PS384, Spec.Cose.PS512] at h
  split at h
  · by_cases hc : (crv = 1 ∨ crv = 2 ∨ crv = 3) ∧ (alg = -7 ∨ alg = -35 ∨ alg = -36)
    · simp only [hc, and_self, if_true, Option.some.injEq] at h
      rw [toClass_ec2] at h
      subst h
      exact hc
    · simp [hc] at h
  · split at h
    · by_cases hc : (alg = -8 ∨ alg = 0) ∧ crv = 6 ∧ List.length m2 = 32
      · simp only [hc, and_self, if_true, Option.some.injEq] at h
        rw [toClass_okp] at h
        subst h
        exact hc.2.2
      · simp [hc] at h
    · split at h
      · by_cases hc : (alg = -65535 ∨ alg = -257 ∨ alg = -258 ∨ alg = -259 ∨ alg = -37 ∨ alg = -38 ∨ alg = -39) ∧
            Bytes.beNat m2 < 2 ^ 63
        · simp only [hc, and_self, if_true, Option.some.injEq] at h
          rw [toClass_rsa] at h
          subst h
          exact hc
        · simp [hc] at h
      · cases h

/-- the type-specific parsers return the bytes following the key -/
theorem parseEC2_remaining (raw : Bytes) (k : Key) (rest : Bytes) (h : parseEC2 raw = .ok k rest) :
    ∃ p, p ≠ [] ∧ raw = p ++ rest := by
  obtain ⟨v, vals, hd, _⟩ := (parseEC2_iff raw k rest).1 h
  exact decode_consumes raw v rest hd
theorem parseOKP_remaining (raw : Bytes) (k : Key) (rest : Bytes) (h : parseOKP raw = .ok k rest) :
    ∃ p, p ≠ [] ∧ raw = p ++ rest := by
  obtain ⟨v, vals, hd, _⟩ := (parseOKP_iff raw k rest).1 h
  exact decode_consumes raw v rest hd
theorem parseRSA_remaining (raw : Bytes) (k : Key) (rest : Bytes) (h : parseRSA raw = .ok k rest) :
    ∃ p, p ≠ [] ∧ raw = p ++ rest := by
  obtain ⟨v, vals, hd, _⟩ := (parseRSA_iff raw k rest).1 h
  exact decode_consumes raw v rest hd

theorem parse_ok_supported (raw : Bytes) (k : Key) (rest : Bytes) (h : parse raw = .ok k rest) :
    rest = [] ∧ Supported k := by
  unfold parse at h
  cases hd : decode raw with
  | none => rw [hd] at h; cases h
  | some vr =>
    obtain ⟨v, r'⟩ := vr
    rw [hd] at h
    simp only [] at h
    by_cases hr : r' = []
    · subst hr
      simp only [ne_eq, not_true, if_false] at h
      have key : ∀ v' : Value, decode raw = some (v', rest) → rest = [] := by
        intro v' hd'
        rw [hd] at hd'
        simp only [Option.some.injEq, Prod.mk.injEq] at hd'
        exact hd'.2.symm
      split at h
      · cases h
      · cases h
      · split at h
        · obtain ⟨v', vals, hd', _, _, hc⟩ := (parseEC2_iff raw k rest).1 h
          exact ⟨key v' hd', supported_of_classify _ _ _ _ _ _ _ hc⟩
        · obtain ⟨v', vals, hd', _, _, hc⟩ := (parseOKP_iff raw k rest).1 h
          exact ⟨key v' hd', supported_of_classify _ _ _ _ _ _ _ hc⟩
        · obtain ⟨v', vals, hd', _, _, hc⟩ := (parseRSA_iff raw k rest).1 h
          exact ⟨key v' hd', supported_of_classify _ _ _ _ _ _ _ hc⟩
        · cases h
    · simp only [ne_eq, hr, not_false_iff, if_true] at h
      cases h

/-- trailing data after the key is rejected by the dispatching parser as an invalid key -/
theorem parse_trailing_rejected (raw : Bytes) (v : Value) (rest : Bytes) (hd : decode raw = some (v, rest)) (hr : rest ≠ []) :
    parse raw = .err .invalidKey := by
  unfold parse
  rw [hd]
  simp only [ne_eq, hr, not_false_iff, if_true]

/-- non-CBOR input is rejected as an invalid key -/
theorem parse_malformed_rejected (raw : Bytes) (hd : decode raw = none) : parse raw = .err .invalidKey := by
  unfold parse
  rw [hd]

/-- a supported key verifies under some standard scheme (key kind and algorithm are compatible) -/
theorem supported_has_scheme (k : Key) (h : Supported k) : (verifyParams k).isSome = true := by
  cases k with
  | ec2 alg crv x y =>
    have := (ecdsaVerifyTable_isNone alg)
    cases hl : lookup Generated.Cose.ecdsaVerifyTable alg with
    | none => rw [hl] at this; exact absurd h.2 (this.1 rfl)
    | some _ => simp [verifyParams, hl]
  | okp x => rfl
  | rsa alg n e =>
    have := (rsaVerifyTable_isNone alg)
    cases hl : lookup Generated.Cose.rsaVerifyTable alg with
    | none => rw [hl] at this; exact absurd h.1 (this.1 rfl)
    | some _ => simp [verifyParams, hl]

/-- the numbers handed to the crypto library are the encoded big-endian numbers -/
theorem beNat_stripZeros (b : Bytes) : Bytes.beNat (Bytes.stripZeros b) = Bytes.beNat b := by
  induction b with
  | nil => rfl
  | cons x xs ih =>
    unfold Bytes.stripZeros
    split
    · rename_i hx
      subst hx
      rw [ih]
      simp [Bytes.beNat, List.foldl]
    · rfl

/-! #### marshal then parse -/

def normalize : Key → Key
  | .ec2 a c x y => .ec2 a c (Bytes.stripZeros x) (Bytes.stripZeros y)
  | .okp x => .okp x
  | .rsa a n e => .rsa a (Bytes.stripZeros n) (Bytes.stripZeros e)
/-- byte-string members shorter than 2^32 bytes (so that `encHead` is the canonical CBOR head; lengths ≥ 2^64 are not encodable at all) -/
def SmallKey : Key → Prop
  | .ec2 _ _ x y => x.length < 2 ^ 32 ∧ y.length < 2 ^ 32
  | .okp _ => True
  | .rsa _ n e => n.length < 2 ^ 32 ∧ e.length < 2 ^ 32

theorem parse_eq_ec2 (raw : Bytes) (v : Value) (vals : List (Int × FieldVal)) (hd : decode raw = some (v, []))
    (hs : decodeStruct baseSchema v = .ok vals) (h1 : getInt vals 1 = 2) : parse raw = parseEC2 raw := by
  unfold parse
  rw [hd]
  simp only [ne_eq, not_true, if_false]
  rw [hs]
  simp only []
  rw [h1]
  rfl
theorem parse_eq_okp (raw : Bytes) (v : Value) (vals : List (Int × FieldVal)) (hd : decode raw = some (v, []))
    (hs : decodeStruct baseSchema v = .ok vals) (h1 : getInt vals 1 = 1) : parse raw = parseOKP raw := by
  unfold parse
  rw [hd]
  simp only [ne_eq, not_true, if_false]
  rw [hs]
  simp only []
  rw [h1]
  rfl
theorem parse_eq_rsa (raw : Bytes) (v : Value) (vals : List (Int × FieldVal)) (hd : decode raw = some (v, []))
    (hs : decodeStruct baseSchema v = .ok vals) (h1 : getInt vals 1 = 3) : parse raw = parseRSA raw := by
  unfold parse
  rw [hd]
  simp only [ne_eq, not_true, if_false]
  rw [hs]
  simp only []
  rw [h1]
  rfl

theorem ec2_struct (alg crv : Int) (x y : Bytes) (ha : SmallInt alg) (hc : SmallInt crv) (ha0 : alg ≠ 0) (hc0 : crv ≠ 0) :
    ∃ vals, decodeStruct ec2Schema (.map (memberVals [(1, .int 2), (3, .int alg), (-1, .int crv), (-2, .bytes x), (-3, .bytes y)])) = .ok vals
      ∧ getInt vals 1 = 2 ∧ getInt vals 3 = alg ∧ getInt vals (-1) = crv ∧ getBytes vals (-2) = x ∧ getBytes vals (-3) = y := by
  by_cases hx : x = [] <;> by_cases hy : y = [] <;>
  simp [memberVals, hx, hy, ha0, hc0, valOfInt_1, valOfInt_2, valOfInt_3, valOfInt_m1, valOfInt_m2, valOfInt_m3,
    decodeStruct, structEntries, structEntry, intKey, schemaKind, ec2Schema, decodeField_int _ ha, decodeField_int _ hc,
    decodeField_uint8, decodeField_bytes, getInt, getBytes]

theorem ec2_struct_base (alg crv : Int) (x y : Bytes) (ha : SmallInt alg) (ha0 : alg ≠ 0) (hc0 : crv ≠ 0) :
    ∃ vals, decodeStruct baseSchema (.map (memberVals [(1, .int 2), (3, .int alg), (-1, .int crv), (-2, .bytes x), (-3, .bytes y)])) = .ok vals
      ∧ getInt vals 1 = 2 := by
  by_cases hx : x = [] <;> by_cases hy : y = [] <;>
  simp [memberVals, hx, hy, ha0, hc0, valOfInt_1, valOfInt_2, valOfInt_3, valOfInt_m1, valOfInt_m2, valOfInt_m3,
    decodeStruct, structEntries, structEntry, intKey, schemaKind, baseSchema, decodeField_int _ ha,
    decodeField_uint8, getInt]

theorem marshal_parse_roundtrip_ec2 (alg crv : Int) (x y : Bytes) (hs : Supported (.ec2 alg crv x y))
    (hk : SmallKey (.ec2 alg crv x y)) :
    parse (marshal (.ec2 alg crv x y)) = .ok (.ec2 alg crv (Bytes.stripZeros x) (Bytes.stripZeros y)) [] := by
  obtain ⟨hc, ha⟩ := hs
  obtain ⟨hx, hy⟩ := hk
  have hx' := stripZeros_length_le x
  have hy' := stripZeros_length_le y
  have sa : SmallInt alg := by unfold SmallInt; omega
  have sc : SmallInt crv := by unfold SmallInt; omega
  have hd := decode_encStruct
    [(1, .int 2), (3, .int alg), (-1, .int crv), (-2, .bytes (Bytes.stripZeros x)), (-3, .bytes (Bytes.stripZeros y))]
    (by
      intro m hm
      simp only [List.mem_cons, List.not_mem_nil, or_false] at hm
      rcases hm with rfl | rfl | rfl | rfl | rfl <;> simp only [MemOK] <;> refine ⟨by unfold SmallInt; omega, ?_⟩
      · unfold SmallInt; omega
      · exact sa
      · exact sc
      · omega
      · omega)
    (by simp)
  obtain ⟨vals0, hs0, h0⟩ := ec2_struct_base alg crv (Bytes.stripZeros x) (Bytes.stripZeros y) sa (by omega) (by omega)
  obtain ⟨vals, hs1, h1, h3, hm1, hm2, hm3⟩ := ec2_struct alg crv (Bytes.stripZeros x) (Bytes.stripZeros y) sa sc (by omega) (by omega)
  unfold marshal
  rw [parse_eq_ec2 _ _ _ hd hs0 h0, parseEC2_iff]
  refine ⟨_, vals, hd, hs1, h1, ?_⟩
  rw [h3, hm1, hm2, hm3]
  have ha' : alg = Spec.Cose.ES256 ∨ alg = Spec.Cose.ES384 ∨ alg = Spec.Cose.ES512 := ha
  simp [Spec.Cose.classify, hc, ha', toClass]

theorem okp_struct (x : Bytes) (hx : x ≠ []) :
    ∃ vals, decodeStruct okpSchema (.map (memberVals [(1, .int 1), (3, .int (-8)), (-1, .int 6), (-2, .bytes x)])) = .ok vals
      ∧ getInt vals 1 = 1 ∧ getInt vals 3 = -8 ∧ getInt vals (-1) = 6 ∧ getBytes vals (-2) = x := by
  simp [memberVals, hx, valOfInt_1, valOfInt_3, valOfInt_6, valOfInt_m1, valOfInt_m2, valOfInt_m8,
    decodeStruct, structEntries, structEntry, intKey, schemaKind, okpSchema, decodeField, getInt, getBytes]

theorem okp_struct_base (x : Bytes) (hx : x ≠ []) :
    ∃ vals, decodeStruct baseSchema (.map (memberVals [(1, .int 1), (3, .int (-8)), (-1, .int 6), (-2, .bytes x)])) = .ok vals
      ∧ getInt vals 1 = 1 := by
  simp [memberVals, hx, valOfInt_1, valOfInt_3, valOfInt_6, valOfInt_m1, valOfInt_m2, valOfInt_m8,
    decodeStruct, structEntries, structEntry, intKey, schemaKind, baseSchema, decodeField, getInt]

theorem marshal_parse_roundtrip_okp (x : Bytes) (hs : Supported (.okp x)) :
    parse (marshal (.okp x)) = .ok (.okp x) [] := by
  have hl : x.length = 32 := hs
  have hx : x ≠ [] := by intro h; rw [h] at hl; simp at hl
  have hd := decode_encStruct [(1, .int 1), (3, .int (-8)), (-1, .int 6), (-2, .bytes x)]
    (by
      intro m hm
      simp only [List.mem_cons, List.not_mem_nil, or_false] at hm
      rcases hm with rfl | rfl | rfl | rfl <;> simp only [MemOK] <;> refine ⟨by unfold SmallInt; omega, ?_⟩
      · unfold SmallInt; omega
      · unfold SmallInt; omega
      · unfold SmallInt; omega
      · omega)
    (by simp)
  obtain ⟨vals0, hs0, h0⟩ := okp_struct_base x hx
  obtain ⟨vals, hs1, h1, h3, hm1, hm2⟩ := okp_struct x hx
  unfold marshal
  rw [parse_eq_okp _ _ _ hd hs0 h0, parseOKP_iff]
  refine ⟨_, vals, hd, hs1, h1, ?_⟩
  rw [h3, hm1, hm2]
  simp [Spec.Cose.classify, Spec.Cose.EdDSA, hl, toClass]

theorem rsa_struct (alg : Int) (n e : Bytes) (ha : SmallInt alg) (ha0 : alg ≠ 0) :
    ∃ vals, decodeStruct rsaSchema (.map (memberVals [(1, .int 3), (3, .int alg), (-1, .bytes n), (-2, .bytes e)])) = .ok vals
      ∧ getInt vals 1 = 3 ∧ getInt vals 3 = alg ∧ getBytes vals (-1) = n ∧ getBytes vals (-2) = e := by
  by_cases hn : n = [] <;> by_cases he : e = [] <;>
  simp [memberVals, hn, he, ha0, valOfInt_1, valOfInt_3, valOfInt_m1, valOfInt_m2,
    decodeStruct, structEntries, structEntry, intKey, schemaKind, rsaSchema, decodeField_int _ ha,
    decodeField_uint8, decodeField_bytes, getInt, getBytes]

theorem rsa_struct_base (alg : Int) (n e : Bytes) (ha : SmallInt alg) (ha0 : alg ≠ 0) :
    ∃ vals, decodeStruct baseSchema (.map (memberVals [(1, .int 3), (3, .int alg), (-1, .bytes n), (-2, .bytes e)])) = .ok vals
      ∧ getInt vals 1 = 3 := by
  by_cases hn : n = [] <;> by_cases he : e = [] <;>
  simp [memberVals, hn, he, ha0, valOfInt_1, valOfInt_3, valOfInt_m1, valOfInt_m2,
    decodeStruct, structEntries, structEntry, intKey, schemaKind, baseSchema, decodeField_int _ ha,
    decodeField_uint8, getInt]

theorem marshal_parse_roundtrip_rsa (alg : Int) (n e : Bytes) (hs : Supported (.rsa alg n e))
    (hk : SmallKey (.rsa alg n e)) :
    parse (marshal (.rsa alg n e)) = .ok (.rsa alg (Bytes.stripZeros n) (Bytes.stripZeros e)) [] := by
  obtain ⟨ha, he⟩ := hs
  obtain ⟨hn, he2⟩ := hk
  have hn' := stripZeros_length_le n
  have he' := stripZeros_length_le e
  have sa : SmallInt alg := by unfold SmallInt; omega
  have hd := decode_encStruct
    [(1, .int 3), (3, .int alg), (-1, .bytes (Bytes.stripZeros n)), (-2, .bytes (Bytes.stripZeros e))]
    (by
      intro m hm
      simp only [List.mem_cons, List.not_mem_nil, or_false] at hm
      rcases hm with rfl | rfl | rfl | rfl <;> simp only [MemOK] <;> refine ⟨by unfold SmallInt; omega, ?_⟩
      · unfold SmallInt; omega
      · exact sa
      · omega
      · omega)
    (by simp)
  obtain ⟨vals0, hs0, h0⟩ := rsa_struct_base alg (Bytes.stripZeros n) (Bytes.stripZeros e) sa (by omega)
  obtain ⟨vals, hs1, h1, h3, hm1, hm2⟩ := rsa_struct alg (Bytes.stripZeros n) (Bytes.stripZeros e) sa (by omega)
  unfold marshal
  rw [parse_eq_rsa _ _ _ hd hs0 h0, parseRSA_iff]
  refine ⟨_, vals, hd, hs1, h1, ?_⟩
  rw [h3, hm1, hm2]
  have ha' : alg = Spec.Cose.RS1 ∨ alg = Spec.Cose.RS256 ∨ alg = Spec.Cose.RS384 ∨ alg = Spec.Cose.RS512 ∨
      alg = Spec.Cose.PS256 ∨ alg = Spec.Cose.PS384 ∨ alg = Spec.Cose.PS512 := ha
  simp [Spec.Cose.classify, ha', toClass, beNat_stripZeros, he]

/-- Marshal then parse returns an equal key (magnitudes in `big.Int.Bytes` normal form). -/
theorem marshal_parse_roundtrip (k : Key) (hs : Supported k) (hk : SmallKey k) : parse (marshal k) = .ok (normalize k) [] := by
  cases k with
  | ec2 alg crv x y => exact marshal_parse_roundtrip_ec2 alg crv x y hs hk
  | okp x => exact marshal_parse_roundtrip_okp x hs
  | rsa alg n e => exact marshal_parse_roundtrip_rsa alg n e hs hk

end WebAuthn.C11
