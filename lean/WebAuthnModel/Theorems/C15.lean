import WebAuthnModel.Model.Fido
import WebAuthnModel.Proofs.JwsLemmas
/-
  C15 — AAGUID text form round trips (`AAGUID.String` / `uuid.Parse`) and `UnmarshalMetadataBLOBPayload`.
-/
namespace WebAuthn.C15
open WebAuthn

/-! ### hexadecimal digits -/

theorem xval_hexLower : ∀ n, n < 16 → Fido.xval (Fido.hexLower n) = some n := by decide

theorem xtob_hex (b : UInt8) : Fido.xtob (Fido.hexLower (b.toNat / 16)) (Fido.hexLower (b.toNat % 16)) = some b := by
  have hb : b.toNat < 256 := b.toNat_lt
  unfold Fido.xtob
  rw [xval_hexLower _ (by omega), xval_hexLower _ (by omega)]
  show some (UInt8.ofNat (b.toNat / 16 * 16 + b.toNat % 16)) = some b
  rw [Nat.div_add_mod', UInt8.ofNat_toNat]

theorem hexBytes_cons (b : UInt8) (a : Bytes) :
    Fido.hexBytes (b :: a) = Fido.hexLower (b.toNat / 16) :: Fido.hexLower (b.toNat % 16) :: Fido.hexBytes a := rfl

theorem hexBytes_nil : Fido.hexBytes [] = [] := rfl

theorem hexBytes_length (a : Bytes) : (Fido.hexBytes a).length = 2 * a.length := by
  induction a with
  | nil => rfl
  | cons b a ih => rw [hexBytes_cons, List.length_cons, List.length_cons, List.length_cons, ih]; omega

theorem parseHexPairs_cons (x y : UInt8) (rest : Bytes) :
    Fido.parseHexPairs (x :: y :: rest) =
      (Fido.xtob x y).bind fun v => (Fido.parseHexPairs rest).bind fun r => some (v :: r) := by
  rw [Fido.parseHexPairs]; rfl

theorem parseHexPairs_hexBytes (a : Bytes) : Fido.parseHexPairs (Fido.hexBytes a) = some a := by
  induction a with
  | nil => rfl
  | cons b a ih => rw [hexBytes_cons, parseHexPairs_cons, xtob_hex, ih]; rfl

theorem parseHexPairs_length (s v : Bytes) (h : Fido.parseHexPairs s = some v) : s.length = 2 * v.length := by
  induction s using Fido.parseHexPairs.induct generalizing v with
  | case1 => cases h; rfl
  | case2 x => rw [Fido.parseHexPairs] at h; cases h
  | case3 x y rest ih =>
    rw [parseHexPairs_cons] at h
    cases hx : Fido.xtob x y with
    | none => rw [hx] at h; cases h
    | some w =>
      cases hr : Fido.parseHexPairs rest with
      | none => rw [hx, hr] at h; cases h
      | some r =>
        rw [hx, hr] at h
        cases h
        have := ih r hr
        simp only [List.length_cons, this]; omega


/-! ### round trips -/

theorem parseCore_toString (a : Bytes) (h : a.length = 16) : Fido.parseCore (Fido.toString a) = some a := by
  match a, h with
  | [a0, a1, a2, a3, a4, a5, a6, a7, a8, a9, a10, a11, a12, a13, a14, a15], _ =>
    simp only [Fido.toString, Fido.parseCore, List.take, List.drop, hexBytes_cons, hexBytes_nil, List.cons_append, List.nil_append,
      List.getD_cons_succ, List.getD_cons_zero, ne_eq, not_true_eq_false, or_self, if_false, parseHexPairs_cons, xtob_hex,
      Fido.parseHexPairs, Option.bind_some, bind, pure]


theorem toString_length (a : Bytes) (h : a.length = 16) : (Fido.toString a).length = 36 := by
  match a, h with
  | [a0, a1, a2, a3, a4, a5, a6, a7, a8, a9, a10, a11, a12, a13, a14, a15], _ => rfl

/-- AAGUIDs round-trip through their textual form, for all 2^128 values -/
theorem aaguid_roundtrip (a : Bytes) (h : a.length = 16) : Fido.parse (Fido.toString a) = some a := by
  unfold Fido.parse
  rw [if_pos (toString_length a h)]
  exact parseCore_toString a h

theorem urn_eq : Bytes.ofString "urn:uuid:" = [117, 114, 110, 58, 117, 117, 105, 100, 58] := by decide +kernel

/-- the other forms uuid.Parse accepts denote the same value -/
theorem parse_urn (a : Bytes) (h : a.length = 16) : Fido.parse (Bytes.ofString "urn:uuid:" ++ Fido.toString a) = some a := by
  have hl : (Bytes.ofString "urn:uuid:" ++ Fido.toString a).length = 45 := by
    rw [List.length_append, toString_length a h, urn_eq]; rfl
  have h9 : (Bytes.ofString "urn:uuid:").length = 9 := by rw [urn_eq]; rfl
  have ht : (Bytes.ofString "urn:uuid:" ++ Fido.toString a).take 9 = Bytes.ofString "urn:uuid:" := by
    rw [← h9]; exact List.take_left
  have hd : (Bytes.ofString "urn:uuid:" ++ Fido.toString a).drop 9 = Fido.toString a := by
    rw [← h9]; exact List.drop_left
  have hm : (Bytes.ofString "urn:uuid:").map Fido.asciiLower = Bytes.ofString "urn:uuid:" := by
    rw [urn_eq]; decide
  unfold Fido.parse
  rw [hl, if_neg (by decide), if_pos rfl, ht, hd, hm, if_pos rfl]
  exact parseCore_toString a h

theorem parse_braces (a : Bytes) (h : a.length = 16) (l r : UInt8) : Fido.parse ([l] ++ Fido.toString a ++ [r]) = some a := by
  have h36 := toString_length a h
  have hl : ([l] ++ Fido.toString a ++ [r]).length = 38 := by
    simp only [List.length_append, List.length_cons, List.length_nil, h36]
  have hd : (([l] ++ Fido.toString a ++ [r]).drop 1).take 36 = Fido.toString a := by
    rw [List.append_assoc, List.singleton_append, List.drop_succ_cons, List.drop_zero, ← h36]
    exact List.take_left
  unfold Fido.parse
  rw [hl, if_neg (by decide), if_neg (by decide), if_pos rfl, hd]
  exact parseCore_toString a h

theorem parse_raw_hex (a : Bytes) (h : a.length = 16) : Fido.parse (Fido.hexBytes a) = some a := by
  have hl : (Fido.hexBytes a).length = 32 := by rw [hexBytes_length, h]
  unfold Fido.parse
  rw [hl, if_neg (by decide), if_neg (by decide), if_neg (by decide), if_pos rfl]
  exact parseHexPairs_hexBytes a


theorem parseCore_length (s v : Bytes) (hl : s.length = 36) (h : Fido.parseCore s = some v) : v.length = 16 := by
  unfold Fido.parseCore at h
  split at h
  · cases h
  · cases ha : Fido.parseHexPairs (s.take 8) with
    | none => rw [ha] at h; cases h
    | some a =>
    cases hb : Fido.parseHexPairs ((s.drop 9).take 4) with
    | none => rw [ha, hb] at h; cases h
    | some b =>
    cases hc : Fido.parseHexPairs ((s.drop 14).take 4) with
    | none => rw [ha, hb, hc] at h; cases h
    | some c =>
    cases hd : Fido.parseHexPairs ((s.drop 19).take 4) with
    | none => rw [ha, hb, hc, hd] at h; cases h
    | some d =>
    cases he : Fido.parseHexPairs ((s.drop 24).take 12) with
    | none => rw [ha, hb, hc, hd, he] at h; cases h
    | some e =>
      rw [ha, hb, hc, hd, he] at h
      cases h
      have la := parseHexPairs_length _ _ ha
      have lb := parseHexPairs_length _ _ hb
      have lc := parseHexPairs_length _ _ hc
      have ld := parseHexPairs_length _ _ hd
      have le := parseHexPairs_length _ _ he
      simp only [List.length_take, List.length_drop, hl] at la lb lc ld le
      simp only [List.length_append]
      omega

/-- whatever parses has 16 bytes; other lengths are rejected -/
theorem parse_length (s v : Bytes) (h : Fido.parse s = some v) : v.length = 16 := by
  unfold Fido.parse at h
  split at h
  · rename_i hl; exact parseCore_length s v hl h
  · split at h
    · rename_i hl
      split at h
      · exact parseCore_length _ v (by rw [List.length_drop, hl]) h
      · cases h
    · split at h
      · rename_i hl
        refine parseCore_length _ v ?_ h
        rw [List.length_take, List.length_drop, hl]; rfl
      · split at h
        · rename_i hl
          have := parseHexPairs_length _ _ h
          omega
        · cases h

theorem parse_rejects_length (s : Bytes) (h : s.length ≠ 36 ∧ s.length ≠ 45 ∧ s.length ≠ 38 ∧ s.length ≠ 32) :
    Fido.parse s = none := by
  unfold Fido.parse
  rw [if_neg h.1, if_neg h.2.1, if_neg h.2.2.1, if_neg h.2.2.2]

/-- textual form is injective -/
theorem toString_injective (a b : Bytes) (ha : a.length = 16) (hb : b.length = 16)
    (h : Fido.toString a = Fido.toString b) : a = b := by
  have h1 := aaguid_roundtrip a ha
  rw [h, aaguid_roundtrip b hb] at h1
  exact (Option.some.inj h1).symm


/-! ### metadata BLOB -/

/-- pool configuration: default is the embedded root; the last WithRootCA wins -/
theorem blob_default_pool : Fido.configPool [] = .default := rfl

theorem blob_pool_last_wins (opts : List Fido.Pool) (p : Fido.Pool) : Fido.configPool (opts ++ [p]) = p := by
  unfold Fido.configPool
  rw [List.foldl_append]; rfl

/-- the chain oracle's answer for header `j`, as an option -/
def chainLeaf (env : Prog.Env) (raw : Bytes) (pool j : Nat) : Option Bytes :=
  match env.answer (.jwsChain raw j pool) with
  | .bytes leaf => some leaf
  | _ => none

theorem chainLeaf_eq_some (env : Prog.Env) (raw : Bytes) (pool j : Nat) (leaf : Bytes) :
    chainLeaf env raw pool j = some leaf ↔ env.answer (.jwsChain raw j pool) = .bytes leaf := by
  unfold chainLeaf
  cases env.answer (.jwsChain raw j pool) <;> simp

theorem headerChains_succ (env : Prog.Env) (raw : Bytes) (pool n i : Nat) :
    Prog.run env (Fido.headerChains raw pool (n + 1) i) =
      match chainLeaf env raw pool i with
      | none => none
      | some leaf =>
        match Prog.run env (Fido.headerChains raw pool n (i + 1)) with
        | none => none
        | some _ => some (some leaf) := by
  rw [Fido.headerChains]
  simp only [Prog.run_bind, Prog.run_query, chainLeaf]
  cases env.answer (.jwsChain raw i pool) <;> try rfl
  simp only [Prog.run_bind]
  cases Prog.run env (Fido.headerChains raw pool n (i + 1)) <;> rfl

/-- `headerChains` succeeds iff every header in the range has a valid chain -/
theorem headerChains_some (env : Prog.Env) (raw : Bytes) (pool n i : Nat) :
    (∃ r, Prog.run env (Fido.headerChains raw pool n i) = some r) ↔
      ∀ j, i ≤ j → j < i + n → ∃ leaf, env.answer (.jwsChain raw j pool) = .bytes leaf := by
  induction n generalizing i with
  | zero =>
    constructor
    · intro _ j h1 h2; omega
    · intro _; exact ⟨none, rfl⟩
  | succ n ih =>
    rw [headerChains_succ]
    constructor
    · rintro ⟨r, hr⟩ j h1 h2
      cases hl : chainLeaf env raw pool i with
      | none => rw [hl] at hr; cases hr
      | some leaf =>
        rw [hl] at hr
        cases hrest : Prog.run env (Fido.headerChains raw pool n (i + 1)) with
        | none => rw [hrest] at hr; cases hr
        | some r' =>
          by_cases hji : j = i
          · subst hji; exact ⟨leaf, (chainLeaf_eq_some _ _ _ _ _).1 hl⟩
          · exact (ih (i + 1)).1 ⟨r', hrest⟩ j (by omega) (by omega)
    · intro h
      obtain ⟨leaf, hleaf⟩ := h i (Nat.le_refl _) (by omega)
      rw [(chainLeaf_eq_some _ _ _ _ _).2 hleaf]
      obtain ⟨r', hr'⟩ := (ih (i + 1)).2 fun j h1 h2 => h j (by omega) (by omega)
      rw [hr']
      exact ⟨_, rfl⟩

theorem firstLeaf_run (env : Prog.Env) (raw : Bytes) (pool n : Nat) :
    Prog.run env (Fido.firstLeaf raw pool n) = if n = 0 then none else chainLeaf env raw pool 0 := by
  unfold Fido.firstLeaf chainLeaf
  by_cases hn : n = 0
  · simp [hn]
  · simp only [hn, if_false, Prog.run_bind, Prog.run_query]
    cases env.answer (.jwsChain raw 0 pool) <;> rfl

/-- the run of `unmarshalBlobOpaque` as a pure function of the environment -/
theorem unmarshalBlobOpaque_run (env : Prog.Env) (raw : Bytes) (pool : Nat) :
    Prog.run env (Fido.unmarshalBlobOpaque raw pool) =
      match env.answer (.jwsHeaders raw) with
      | .nat n =>
        match Prog.run env (Fido.headerChains raw pool n 0) with
        | none => none
        | some _ =>
          match (if n = 0 then none else chainLeaf env raw pool 0) with
          | none => none
          | some leaf =>
            match env.answer (.jwsClaims raw leaf) with
            | .bytes payload => some payload
            | _ => none
      | _ => none := by
  unfold Fido.unmarshalBlobOpaque
  simp only [Prog.run_bind, Prog.run_query]
  cases env.answer (.jwsHeaders raw) <;> try rfl
  rename_i n
  simp only [Prog.run_bind]
  cases Prog.run env (Fido.headerChains raw pool n 0) <;> try rfl
  simp only [Prog.run_bind, firstLeaf_run]
  cases (if n = 0 then none else chainLeaf env raw pool 0) <;> try rfl
  rename_i leaf
  simp only [Prog.run_bind, Prog.run_query]
  cases env.answer (.jwsClaims raw leaf) <;> rfl


/-- a payload is returned iff the BLOB parses with n ≥ 1 headers, EVERY header's chain validates against the CONFIGURED pool, and the
    signature/claims check under the leaf of header 0's first chain yields exactly that payload -/
theorem blobOpaque_iff (env : Prog.Env) (raw : Bytes) (pool : Nat) (payload : Bytes) :
    Prog.run env (Fido.unmarshalBlobOpaque raw pool) = some payload ↔
      ∃ n, env.answer (.jwsHeaders raw) = .nat n ∧ 0 < n ∧
        (∀ i, i < n → ∃ leaf, env.answer (.jwsChain raw i pool) = .bytes leaf) ∧
        ∃ leaf0, env.answer (.jwsChain raw 0 pool) = .bytes leaf0 ∧
          env.answer (.jwsClaims raw leaf0) = .bytes payload := by
  rw [unmarshalBlobOpaque_run]
  constructor
  · intro h
    cases hh : env.answer (.jwsHeaders raw) <;> rw [hh] at h <;> try (cases h; done)
    rename_i n
    dsimp only at h
    cases hc : Prog.run env (Fido.headerChains raw pool n 0) with
    | none => rw [hc] at h; cases h
    | some r =>
      rw [hc] at h
      dsimp only at h
      have hall := (headerChains_some env raw pool n 0).1 ⟨r, hc⟩
      by_cases hn : n = 0
      · rw [if_pos hn] at h; cases h
      · rw [if_neg hn] at h
        cases hl : chainLeaf env raw pool 0 with
        | none => rw [hl] at h; cases h
        | some leaf0 =>
          rw [hl] at h
          dsimp only at h
          refine ⟨n, rfl, Nat.pos_of_ne_zero hn, fun i hi => hall i (Nat.zero_le _) (by omega), leaf0,
            (chainLeaf_eq_some _ _ _ _ _).1 hl, ?_⟩
          cases hcl : env.answer (.jwsClaims raw leaf0) <;> rw [hcl] at h <;> try (cases h; done)
          cases h; rfl
  · rintro ⟨n, hh, hn, hall, leaf0, hl, hcl⟩
    rw [hh]
    dsimp only
    obtain ⟨r, hr⟩ := (headerChains_some env raw pool n 0).2
      fun j _ h2 => hall j (by omega)
    rw [hr]
    dsimp only
    rw [if_neg (by omega), (chainLeaf_eq_some _ _ _ _ _).2 hl]
    dsimp only
    rw [hcl]

/-- consequences named in the property -/
theorem blobOpaque_reject_unparsable (env : Prog.Env) (raw : Bytes) (pool : Nat)
    (h : ∀ n, env.answer (.jwsHeaders raw) ≠ .nat n) : Prog.run env (Fido.unmarshalBlobOpaque raw pool) = none := by
  cases hr : Prog.run env (Fido.unmarshalBlobOpaque raw pool) with
  | none => rfl
  | some payload =>
    obtain ⟨n, hn, _⟩ := (blobOpaque_iff env raw pool payload).1 hr
    exact absurd hn (h n)

theorem blobOpaque_reject_bad_chain (env : Prog.Env) (raw : Bytes) (pool : Nat) (n i : Nat)
    (hn : env.answer (.jwsHeaders raw) = .nat n) (hi : i < n)
    (h : ∀ leaf, env.answer (.jwsChain raw i pool) ≠ .bytes leaf) :
    Prog.run env (Fido.unmarshalBlobOpaque raw pool) = none := by
  cases hr : Prog.run env (Fido.unmarshalBlobOpaque raw pool) with
  | none => rfl
  | some payload =>
    obtain ⟨n', hn', _, hall, _⟩ := (blobOpaque_iff env raw pool payload).1 hr
    rw [hn] at hn'
    cases hn'
    obtain ⟨leaf, hleaf⟩ := hall i hi
    exact absurd hleaf (h leaf)

theorem blobOpaque_reject_no_headers (env : Prog.Env) (raw : Bytes) (pool : Nat)
    (hn : env.answer (.jwsHeaders raw) = .nat 0) : Prog.run env (Fido.unmarshalBlobOpaque raw pool) = none := by
  cases hr : Prog.run env (Fido.unmarshalBlobOpaque raw pool) with
  | none => rfl
  | some payload =>
    obtain ⟨n', hn', hpos, _⟩ := (blobOpaque_iff env raw pool payload).1 hr
    rw [hn] at hn'
    cases hn'
    exact absurd hpos (Nat.lt_irrefl 0)

theorem blobOpaque_reject_bad_signature (env : Prog.Env) (raw : Bytes) (pool : Nat)
    (h : ∀ leaf p, env.answer (.jwsClaims raw leaf) ≠ .bytes p) : Prog.run env (Fido.unmarshalBlobOpaque raw pool) = none := by
  cases hr : Prog.run env (Fido.unmarshalBlobOpaque raw pool) with
  | none => rfl
  | some payload =>
    obtain ⟨_, _, _, _, leaf0, _, hcl⟩ := (blobOpaque_iff env raw pool payload).1 hr
    exact absurd hcl (h leaf0 payload)


/-! ### the compact serialisation through the Lean JWS model -/

/-- what makes `UnmarshalMetadataBLOBPayload` return `payload` under the configured pool (code `pool`).
    * compact serialisation: the token parses (`Jws.parse`), every `x5c` entry is a certificate, there is at least one, the first one
      validates against the CONFIGURED pool with the others as intermediates, go-jose reaches the signature check and the signature over
      the signing input verifies under that first certificate's key with the primitive the header's `alg` names for that key kind
      (`Jws.SignedBy`, Model/JwsVerify.lean), and the PAYLOAD SEGMENT OF THE TOKEN decodes to `payload`;
    * the forms the Lean model does not cover: the dependency's own view, as before. -/
inductive BlobOK (env : Prog.Env) (raw : Bytes) (pool : Nat) (payload : Bytes) : Prop where
  | compact (c : Jws.Compact) (leaf : Bytes) (rest : List Bytes)
      (parsed : Jws.parse raw = .ok c)
      (chain : c.x5c = leaf :: rest)
      (certs : ∀ d ∈ c.x5c, ∃ cv, env.answer (.x509Parse d) = .cert cv)
      (leafCert : CertView) (leafParsed : env.answer (.x509Parse leaf) = .cert leafCert)
      (trusted : env.answer (.x509VerifyPool leaf rest pool) = .bool true)
      (signed : Jws.SignedBy env raw c leaf leafCert.key)
      (decoded : env.answer (.blobPayload c.payload) = .bytes payload)
  | opaque (n : Nat) (leaf0 : Bytes)
      (unmodelled : Jws.parse raw = .unmodelled)
      (headers : env.answer (.jwsHeaders raw) = .nat n) (pos : 0 < n)
      (chains : ∀ i, i < n → ∃ leaf, env.answer (.jwsChain raw i pool) = .bytes leaf)
      (first : env.answer (.jwsChain raw 0 pool) = .bytes leaf0)
      (claims : env.answer (.jwsClaims raw leaf0) = .bytes payload)

theorem run_askBool (env : Prog.Env) (q : Ask) :
    Prog.run env (Fido.askBool q) = true ↔ env.answer q = .bool true := by
  simp only [Fido.askBool, Prog.run_bind, Prog.run_query]
  cases env.answer q <;> simp

theorem run_ite {α} (env : Prog.Env) (c : Prop) [Decidable c] (p q : Prog α) :
    Prog.run env (if c then p else q) = if c then Prog.run env p else Prog.run env q := by
  split <;> rfl

/-- `Fido.parseChain` succeeds exactly when every entry parses, returning the views in order -/
def ChainViews (env : Prog.Env) : List Bytes → List CertView → Prop
  | [], [] => True
  | d :: ds, c :: cs => env.answer (.x509Parse d) = .cert c ∧ ChainViews env ds cs
  | _, _ => False

theorem parseChain_run (env : Prog.Env) (ds : List Bytes) (cs : List CertView) :
    Prog.run env (Fido.parseChain ds) = some cs ↔ ChainViews env ds cs := by
  induction ds generalizing cs with
  | nil => cases cs <;> simp [Fido.parseChain, ChainViews]
  | cons der rest ih =>
    simp only [Fido.parseChain, Prog.run_bind, Prog.run_query]
    cases hq : env.answer (.x509Parse der) with
    | cert cv =>
      simp only [Prog.run_bind]
      cases hr : Prog.run env (Fido.parseChain rest) with
      | none =>
        cases cs with
        | nil => simp [ChainViews]
        | cons c' cs' =>
          simp only [Prog.run_pure, ChainViews, reduceCtorEq, false_iff, not_and]
          intro _ h
          rw [← ih, hr] at h; cases h
      | some cs0 =>
        cases cs with
        | nil => simp [ChainViews]
        | cons c' cs' =>
          simp only [Prog.run_pure, ChainViews, Option.some.injEq, List.cons.injEq, hq, Resp.cert.injEq, ← ih, hr]
    | _ => cases cs <;> simp [ChainViews, hq]

theorem chainViews_all (env : Prog.Env) (ds : List Bytes) (cs : List CertView) (h : ChainViews env ds cs) :
    ∀ d ∈ ds, ∃ cv, env.answer (.x509Parse d) = .cert cv := by
  induction ds generalizing cs with
  | nil => intro d hd; cases hd
  | cons der rest ih =>
    cases cs with
    | nil => exact absurd h (by simp [ChainViews])
    | cons c' cs' =>
      obtain ⟨h1, h2⟩ := h
      intro d hd
      rcases List.mem_cons.1 hd with rfl | hd
      · exact ⟨c', h1⟩
      · exact ih cs' h2 d hd

theorem chainViews_of_all (env : Prog.Env) (ds : List Bytes) (h : ∀ d ∈ ds, ∃ cv, env.answer (.x509Parse d) = .cert cv) :
    ∃ cs, ChainViews env ds cs := by
  induction ds with
  | nil => exact ⟨[], trivial⟩
  | cons der rest ih =>
    obtain ⟨cv, hcv⟩ := h der (List.mem_cons_self ..)
    obtain ⟨cs, hcs⟩ := ih (fun d hd => h d (List.mem_cons_of_mem _ hd))
    exact ⟨cv :: cs, hcv, hcs⟩

/-- the compact branch -/
theorem blobCompact_iff (env : Prog.Env) (raw : Bytes) (c : Jws.Compact) (pool : Nat) (payload : Bytes) :
    Prog.run env (Fido.unmarshalBlobCompact raw c pool) = some payload ↔
      ∃ leaf rest leafCert cs, c.x5c = leaf :: rest ∧ ChainViews env c.x5c (leafCert :: cs) ∧
        env.answer (.x509VerifyPool leaf rest pool) = .bool true ∧ Jws.SignedBy env raw c leaf leafCert.key ∧
        env.answer (.blobPayload c.payload) = .bytes payload := by
  simp only [Fido.unmarshalBlobCompact, Prog.run_bind]
  cases hp : Prog.run env (Fido.parseChain c.x5c) with
  | none =>
    simp only [Prog.run_pure, reduceCtorEq, false_iff, not_exists, not_and]
    intro leaf rest leafCert cs _ hc
    rw [← parseChain_run, hp] at hc; cases hc
  | some cs =>
    have hcv := (parseChain_run env _ _).1 hp
    cases hx : c.x5c with
    | nil =>
      cases cs <;> simp
    | cons leaf rest =>
      rw [hx] at hcv
      cases cs with
      | nil => exact absurd hcv (by simp [ChainViews])
      | cons leafCert cs0 =>
        simp only [Prog.run_bind, run_ite, Prog.run_pure, Prog.run_query, List.cons.injEq]
        constructor
        · intro hr
          by_cases hv : Prog.run env (Fido.askBool (.x509VerifyPool leaf rest pool)) = true
          · simp only [hv, Bool.not_true, Bool.false_eq_true, if_false] at hr
            by_cases hs : Prog.run env (Jws.signatureOK raw c leaf leafCert.key) = true
            · simp only [hs, Bool.not_true, Bool.false_eq_true, if_false] at hr
              refine ⟨leaf, rest, leafCert, cs0, ⟨rfl, rfl⟩, hcv, (run_askBool _ _).1 hv, (JwsLemmas.run_signatureOK _ _ _ _ _).1 hs, ?_⟩
              cases hb : env.answer (.blobPayload c.payload) <;> rw [hb] at hr <;> simp at hr
              rw [hr]
            · simp [hs] at hr
          · simp [hv] at hr
        · rintro ⟨leaf', rest', leafCert', cs', ⟨rfl, rfl⟩, hcv', hv, hs, hb⟩
          have e : leafCert = leafCert' := by
            have h1 := hcv.1
            rw [hcv'.1] at h1
            exact (Resp.cert.inj h1).symm
          subst e
          rw [← run_askBool] at hv
          rw [← JwsLemmas.run_signatureOK] at hs
          simp [hv, hs, hb]

/-- a payload is returned iff `BlobOK` under the LAST configured pool (the default root when no option is given) -/
theorem blob_iff (env : Prog.Env) (raw : Bytes) (opts : List Fido.Pool) (payload : Bytes) :
    Prog.run env (Fido.unmarshalBlob raw opts) = some payload ↔ BlobOK env raw (Fido.configPool opts).code payload := by
  unfold Fido.unmarshalBlob
  simp only []
  cases hp : Jws.parse raw with
  | error =>
    simp only [Prog.run_pure, reduceCtorEq, false_iff]
    intro h
    cases h with
    | compact c leaf rest parsed => rw [hp] at parsed; cases parsed
    | «opaque» n leaf0 unmodelled => rw [hp] at unmodelled; cases unmodelled
  | unmodelled =>
    simp only [blobOpaque_iff]
    constructor
    · rintro ⟨n, hh, hn, hall, leaf0, hl, hcl⟩
      exact BlobOK.opaque n leaf0 hp hh hn hall hl hcl
    · intro h
      cases h with
      | compact c leaf rest parsed => rw [hp] at parsed; cases parsed
      | «opaque» n leaf0 _ hh hn hall hl hcl => exact ⟨n, hh, hn, hall, leaf0, hl, hcl⟩
  | ok c =>
    simp only [blobCompact_iff]
    constructor
    · rintro ⟨leaf, rest, leafCert, cs, hx, hc, hv, hs, hb⟩
      refine BlobOK.compact c leaf rest hp hx (chainViews_all env _ _ hc) leafCert ?_ hv hs hb
      rw [hx] at hc
      exact hc.1
    · intro h
      cases h with
      | compact c' leaf rest parsed hx hc leafCert hl hv hs hb =>
        rw [hp] at parsed; cases parsed
        obtain ⟨cs, hcs⟩ := chainViews_of_all env _ hc
        have hcs' := hcs
        rw [hx] at hcs'
        cases cs with
        | nil => exact absurd hcs' (by simp [ChainViews])
        | cons c0 cs0 =>
          have e : c0 = leafCert := by
            have := hcs'.1
            rw [hl] at this
            exact (Resp.cert.inj this).symm
          subst e
          exact ⟨leaf, rest, c0, cs0, hx, hcs, hv, hs, hb⟩
      | «opaque» n leaf0 unmodelled => rw [hp] at unmodelled; cases unmodelled

/-- the payload returned is the decoding of the token's own payload segment, and the signature that was checked — with the primitive
    the header names, under the first certificate's key — is over the signing input, which contains that segment and determines it
    (`Compact.signingInput` = base64url(protected) "." base64url(payload), `C04Jws.signingInput_inj`) -/
theorem blob_payload_is_signed (env : Prog.Env) (raw : Bytes) (opts : List Fido.Pool) (payload : Bytes) (c : Jws.Compact)
    (hp : Jws.parse raw = .ok c) (h : Prog.run env (Fido.unmarshalBlob raw opts) = some payload) :
    env.answer (.blobPayload c.payload) = .bytes payload ∧
    ∃ leaf rest leafCert, c.x5c = leaf :: rest ∧ env.answer (.x509Parse leaf) = .cert leafCert ∧
      Jws.SignedBy env raw c leaf leafCert.key ∧
      env.answer (.x509VerifyPool leaf rest (Fido.configPool opts).code) = .bool true := by
  rw [blob_iff] at h
  cases h with
  | compact c' leaf rest parsed hx hc leafCert hl hv hs hb =>
    rw [hp] at parsed; cases parsed
    exact ⟨hb, leaf, rest, leafCert, hx, hl, hs, hv⟩
  | «opaque» n leaf0 unmodelled => rw [hp] at unmodelled; cases unmodelled

/-- with a key the certificate view describes (RSA, EC on P-256/384/521, Ed25519) the check is the named primitive over the signing input -/
theorem signedBy_primitive (env : Prog.Env) (raw : Bytes) (c : Jws.Compact) (leaf : Bytes) (key : KeyMat) (hk : key ≠ .other)
    (h : Jws.SignedBy env raw c leaf key) :
    ∃ sc hh sg, Jws.verifyPlan c.alg key c.signature = .primitive sc hh sg ∧
      env.answer (.sigVerify sc hh key c.signingInput sg) = .bool true := by
  obtain ⟨_, h2⟩ := h
  cases hpl : Jws.verifyPlan c.alg key c.signature with
  | reject => rw [hpl] at h2; exact h2.elim
  | primitive sc hh sg => rw [hpl] at h2; exact ⟨sc, hh, sg, rfl, h2⟩
  | «opaque» =>
    cases key with
    | other => exact absurd rfl hk
    | rsa n e =>
      simp only [Jws.verifyPlan, Jws.rsaPlan] at hpl
      repeat' split at hpl
      all_goals cases hpl
    | ec crv x y =>
      simp only [Jws.verifyPlan, Jws.ecPlan, Jws.ecPlanFor] at hpl
      repeat' split at hpl
      all_goals cases hpl
    | ed k =>
      simp only [Jws.verifyPlan] at hpl
      split at hpl <;> cases hpl

/-- consequences named in the property -/
theorem blob_reject_unparsable (env : Prog.Env) (raw : Bytes) (opts : List Fido.Pool) (h : Jws.parse raw = .error) :
    Prog.run env (Fido.unmarshalBlob raw opts) = none := by
  cases hr : Prog.run env (Fido.unmarshalBlob raw opts) with
  | none => rfl
  | some payload =>
    rw [blob_iff] at hr
    cases hr with
    | compact c leaf rest parsed => rw [h] at parsed; cases parsed
    | «opaque» n leaf0 unmodelled => rw [h] at unmodelled; cases unmodelled

/-- no certificate chain in the protected header -/
theorem blob_reject_missing_chain (env : Prog.Env) (raw : Bytes) (opts : List Fido.Pool) (c : Jws.Compact)
    (hp : Jws.parse raw = .ok c) (h : c.x5c = []) : Prog.run env (Fido.unmarshalBlob raw opts) = none := by
  cases hr : Prog.run env (Fido.unmarshalBlob raw opts) with
  | none => rfl
  | some payload =>
    obtain ⟨_, leaf, rest, _, hx, _⟩ := blob_payload_is_signed env raw opts payload c hp hr
    rw [h] at hx; cases hx

/-- the chain does not validate against the configured pool (another root, expired, reordered, a CA constraint violated) -/
theorem blob_reject_bad_chain (env : Prog.Env) (raw : Bytes) (opts : List Fido.Pool) (c : Jws.Compact) (leaf : Bytes) (rest : List Bytes)
    (hp : Jws.parse raw = .ok c) (hx : c.x5c = leaf :: rest)
    (h : env.answer (.x509VerifyPool leaf rest (Fido.configPool opts).code) ≠ .bool true) :
    Prog.run env (Fido.unmarshalBlob raw opts) = none := by
  cases hr : Prog.run env (Fido.unmarshalBlob raw opts) with
  | none => rfl
  | some payload =>
    obtain ⟨_, leaf', rest', _, hx', _, _, hv⟩ := blob_payload_is_signed env raw opts payload c hp hr
    rw [hx] at hx'; cases hx'
    exact absurd hv h

/-- the signature does not verify under the key of the FIRST certificate (altered payload, signature or protected header; signed by
    another key, including the key of another chain member; an algorithm that does not fit the key) -/
theorem blob_reject_bad_signature (env : Prog.Env) (raw : Bytes) (opts : List Fido.Pool) (c : Jws.Compact) (leaf : Bytes) (rest : List Bytes)
    (leafCert : CertView) (hp : Jws.parse raw = .ok c) (hx : c.x5c = leaf :: rest) (hl : env.answer (.x509Parse leaf) = .cert leafCert)
    (h : ¬ Jws.SignedBy env raw c leaf leafCert.key) :
    Prog.run env (Fido.unmarshalBlob raw opts) = none := by
  cases hr : Prog.run env (Fido.unmarshalBlob raw opts) with
  | none => rfl
  | some payload =>
    obtain ⟨_, leaf', rest', leafCert', hx', hl', hs, _⟩ := blob_payload_is_signed env raw opts payload c hp hr
    rw [hx] at hx'; cases hx'
    rw [hl] at hl'; cases hl'
    exact absurd hs h

/-- non-vacuity: the token `base64url({"alg":"EdDSA","x5c":["AA=="]}) . base64url({}) . ""` with the dependencies answering positively
    (the certificate carries an Ed25519 key; the Ed25519 check over the signing input succeeds) -/
def okEnv : Prog.Env := ⟨fun q => match q with
  | .x509Parse _ => .cert ⟨3, false, [], [], [], [], [], [], .ed []⟩
  | .x509VerifyPool .. => .bool true
  | .sigVerify .eddsa _ _ _ _ => .bool true
  | .blobPayload p => .bytes p
  | _ => .none⟩

/-- kernel evaluation of the JWS model on the compact example token -/
theorem compact_parse_aux :
    (match Jws.parse (Bytes.ofString "eyJhbGciOiJFZERTQSIsIng1YyI6WyJBQT09Il19.e30.") with
     | .ok c => c.x5c == [[0]] && c.payload == Bytes.ofString "{}" && c.verifiable && c.alg == Jws.str "EdDSA"
     | _ => false) = true := by
  decide +kernel

theorem blob_accepts_compact :
    Prog.run okEnv (Fido.unmarshalBlob (Bytes.ofString "eyJhbGciOiJFZERTQSIsIng1YyI6WyJBQT09Il19.e30.") []) = some (Bytes.ofString "{}") := by
  have hp := compact_parse_aux
  rw [blob_iff]
  cases hc : Jws.parse (Bytes.ofString "eyJhbGciOiJFZERTQSIsIng1YyI6WyJBQT09Il19.e30.") with
  | ok c =>
    rw [hc] at hp
    simp only [Bool.and_eq_true, beq_iff_eq] at hp
    obtain ⟨⟨⟨hx, hpl⟩, hv⟩, ha⟩ := hp
    refine BlobOK.compact c [0] [] hc hx (fun d _ => ⟨_, rfl⟩) _ rfl rfl ⟨hv, ?_⟩ ?_
    · show match Jws.verifyPlan c.alg (.ed []) c.signature with
        | .reject => False
        | .primitive s h sig => okEnv.answer (.sigVerify s h (.ed []) c.signingInput sig) = .bool true
        | .«opaque» => okEnv.answer (.jwsVerify _ [0]) = .bool true
      rw [ha]
      simp only [Jws.verifyPlan, if_true]
      rfl
    · rw [hpl]; rfl
  | error => rw [hc] at hp; cases hp
  | unmodelled => rw [hc] at hp; cases hp

end WebAuthn.C15
