import WebAuthnModel.Model.Cose
import WebAuthnModel.Spec.Cose
/-
  C12 — COSE signature verification equals the algorithm's standard definition.
  The primitives themselves (ECDSA, Ed25519, RSA) are an oracle (`Ask.sigVerify`); what is proved is
  that the repository maps every algorithm identifier — and every other integer — to the standard's
  hash / X.509 algorithm, and that `Verify` asks for exactly the standard (scheme, hash) primitive
  under the key's own material.
-/
namespace WebAuthn.C12
open WebAuthn Cose

/-! #### the regenerated tables are the IANA tables -/

theorem hashTable_eq :
    Generated.Cose.hashTable =
      [(-65535, 3), (-259, 7), (-258, 6), (-257, 5), (-39, 7), (-38, 6), (-37, 5), (-36, 7), (-35, 6), (-8, 0), (-7, 5)]
    ∧ Generated.Cose.hashTableDefault = 0 := by decide

theorem x509Table_eq :
    Generated.Cose.x509Table =
      [(-65535, 3), (-259, 6), (-258, 5), (-257, 4), (-39, 15), (-38, 14), (-37, 13), (-36, 12), (-35, 11), (-8, 16), (-7, 10)]
    ∧ Generated.Cose.x509TableDefault = 0 := by decide

theorem verifyTables_eq :
    Generated.Cose.ecdsaVerifyTable = [(-36, 7), (-35, 6), (-7, 5)]
    ∧ Generated.Cose.rsaVerifyTable =
        [(-65535, (0, 3)), (-259, (0, 7)), (-258, (0, 6)), (-257, (0, 5)), (-39, (1, 7)), (-38, (1, 6)), (-37, (1, 5))] := by
  decide

set_option hygiene false in
/-- case split over the eleven identifiers, then the default branch -/
macro "alg_cases" alg:ident : tactic => `(tactic| (
  by_cases h1 : $alg = -65535; · subst h1; decide
  by_cases h2 : $alg = -259; · subst h2; decide
  by_cases h3 : $alg = -258; · subst h3; decide
  by_cases h4 : $alg = -257; · subst h4; decide
  by_cases h5 : $alg = -39; · subst h5; decide
  by_cases h6 : $alg = -38; · subst h6; decide
  by_cases h7 : $alg = -37; · subst h7; decide
  by_cases h8 : $alg = -36; · subst h8; decide
  by_cases h9 : $alg = -35; · subst h9; decide
  by_cases h10 : $alg = -8; · subst h10; decide
  by_cases h11 : $alg = -7; · subst h11; decide
  ))

/-- `Algorithm.Hash` for **every** integer: the eleven identifiers map to their hash, everything else to none. -/
theorem algHash_spec : ∀ alg : Int, algHash alg = Spec.Cose.hashOf alg := by
  intro alg
  have h := hashTable_eq
  unfold algHash lookup
  rw [h.1, h.2]
  alg_cases alg
  have e : ∀ k : Int, alg ≠ k → (k == alg) = false := fun k hk => by simp; omega
  simp only [List.find?, e _ h1, e _ h2, e _ h3, e _ h4, e _ h5, e _ h6, e _ h7, e _ h8, e _ h9, e _ h10, e _ h11,
    Option.map, Option.getD, Spec.Cose.hashOf, Spec.Cose.RS1, Spec.Cose.RS256, Spec.Cose.RS384, Spec.Cose.RS512,
    Spec.Cose.PS256, Spec.Cose.PS384, Spec.Cose.PS512, Spec.Cose.ES256, Spec.Cose.ES384, Spec.Cose.ES512]
  simp [*]

/-- `Algorithm.X509SignatureAlgorithm` for **every** integer. -/
theorem algX509_spec : ∀ alg : Int, algX509 alg = Spec.Cose.x509Of alg := by
  intro alg
  have h := x509Table_eq
  unfold algX509 lookup
  rw [h.1, h.2]
  alg_cases alg
  have e : ∀ k : Int, alg ≠ k → (k == alg) = false := fun k hk => by simp; omega
  simp only [List.find?, e _ h1, e _ h2, e _ h3, e _ h4, e _ h5, e _ h6, e _ h7, e _ h8, e _ h9, e _ h10, e _ h11,
    Option.map, Option.getD, Spec.Cose.x509Of, Spec.Cose.RS1, Spec.Cose.RS256, Spec.Cose.RS384, Spec.Cose.RS512,
    Spec.Cose.PS256, Spec.Cose.PS384, Spec.Cose.PS512, Spec.Cose.ES256, Spec.Cose.ES384, Spec.Cose.ES512, Spec.Cose.EdDSA]
  simp [*]


/-! #### verification dispatch -/

/-- The (scheme, hash) a parsed key verifies with is the one the standard defines for its key type and algorithm:
    ECDSA/SHA-2 for ES*, pure Ed25519, RSASSA-PKCS1-v1_5 for RS*, RSASSA-PSS for PS*; anything else has none. -/
theorem verifyParams_spec (k : Key) : verifyParams k = Spec.Cose.schemeOf k.kty k.alg := by
  have h := verifyTables_eq
  cases k with
  | ec2 alg crv x y =>
    simp only [verifyParams, Key.kty, Key.alg, lookup]
    rw [h.1]
    by_cases h1 : alg = -36; · subst h1; decide
    by_cases h2 : alg = -35; · subst h2; decide
    by_cases h3 : alg = -7; · subst h3; decide
    have e : ∀ k : Int, alg ≠ k → (k == alg) = false := fun k hk => by simp; omega
    simp only [List.find?, e _ h1, e _ h2, e _ h3, Option.map, Spec.Cose.schemeOf, Spec.Cose.ES256, Spec.Cose.ES384,
      Spec.Cose.ES512]
    simp [*]
  | okp x => rfl
  | rsa alg n e =>
    simp only [verifyParams, Key.kty, Key.alg, lookup]
    rw [h.2]
    by_cases h1 : alg = -65535; · subst h1; decide
    by_cases h2 : alg = -259; · subst h2; decide
    by_cases h3 : alg = -258; · subst h3; decide
    by_cases h4 : alg = -257; · subst h4; decide
    by_cases h5 : alg = -39; · subst h5; decide
    by_cases h6 : alg = -38; · subst h6; decide
    by_cases h7 : alg = -37; · subst h7; decide
    have e : ∀ k : Int, alg ≠ k → (k == alg) = false := fun k hk => by simp; omega
    simp only [List.find?, e _ h1, e _ h2, e _ h3, e _ h4, e _ h5, e _ h6, e _ h7, Option.map, Spec.Cose.schemeOf,
      Spec.Cose.RS1, Spec.Cose.RS256, Spec.Cose.RS384, Spec.Cose.RS512, Spec.Cose.PS256, Spec.Cose.PS384, Spec.Cose.PS512]
    simp [*]

/-- `Verify(data, sig)` succeeds exactly when the standard primitive for the key's algorithm accepts `sig` over
    `data` under the key's own material — for every environment (i.e. whatever the primitives compute). -/
theorem verify_iff (env : Prog.Env) (k : Key) (data sig : Bytes) :
    Prog.run env (verify k data sig) = true ↔
      ∃ s h, Spec.Cose.schemeOf k.kty k.alg = some (s, h) ∧
        env.answer (.sigVerify s h k.material data sig) = .bool true := by
  unfold verify
  rw [verifyParams_spec]
  cases hs : Spec.Cose.schemeOf k.kty k.alg with
  | none => simp
  | some p =>
    obtain ⟨s, h⟩ := p
    simp only [Prog.run_bind, Prog.run_query, Option.some.injEq, Prod.mk.injEq]
    constructor
    · intro hr
      refine ⟨s, h, ⟨rfl, rfl⟩, ?_⟩
      cases ha : env.answer (.sigVerify s h k.material data sig) <;> simp_all
    · rintro ⟨s', h', ⟨rfl, rfl⟩, ha⟩
      simp [ha]

/-- `Verify` consults exactly one primitive: the trace of oracle questions is that single question. -/
theorem verify_trace (env : Prog.Env) (k : Key) (data sig : Bytes) (s : SigScheme) (h : Nat)
    (hs : Spec.Cose.schemeOf k.kty k.alg = some (s, h)) :
    Prog.trace env (verify k data sig) = [.sigVerify s h k.material data sig] := by
  unfold verify
  rw [verifyParams_spec, hs]
  simp only [bind, Prog.bind, Prog.query, Prog.trace]
  cases env.answer (.sigVerify s h k.material data sig) <;> rfl

/-- non-vacuity: an ES256 key under an environment that accepts one particular signature -/
example : ∃ env : Prog.Env, Prog.run env (verify (.ec2 (-7) 1 [1] [2]) [0x61] [0x30]) = true := by
  refine ⟨⟨fun _ => .bool true⟩, ?_⟩
  rw [verify_iff]
  exact ⟨.ecdsa, 5, by decide, rfl⟩

end WebAuthn.C12
