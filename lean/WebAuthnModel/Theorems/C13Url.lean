import WebAuthnModel.Spec.Url
import WebAuthnModel.Proofs.UrlLemmas
/-
  C13, host extraction — what `url.Parse(s).Hostname()` (Model/Url.lean, compared with net/url on every run) returns:
  only the host component of a well-formed URL, whatever stands in its user-info, port, path, query or fragment; nothing
  for host-less strings; never a string containing a delimiter.
-/
namespace WebAuthn.Theorems.C13Url
open WebAuthn.Url WebAuthn.Spec.Url

/-- The host reported for scheme://[userinfo@]host[:port][/path][?query][#fragment] is exactly `host`. -/
theorem hostOf_render (p : Parts) (h : p.WF) : hostOf p.render = some p.host := by
  exact hostOf_render_aux p h

/-- …so two well-formed URLs with the same host component are indistinguishable to the origin check. -/
theorem hostOf_only_host (p q : Parts) (hp : p.WF) (hq : q.WF) (h : p.host = q.host) :
    hostOf p.render = hostOf q.render := by
  rw [hostOf_render p hp, hostOf_render q hq, h]

/-- non-vacuity: a URL with every component present, carrying another host name in user-info, path, query and fragment -/
def examplePartsBytes : Bytes := "https://example.com:pw@evil.org:8443/example.com?example.com#example.com".toUTF8.toList
def exampleParts : Parts :=
  { scheme := "https".toUTF8.toList, userinfo := some "example.com:pw".toUTF8.toList, host := "evil.org".toUTF8.toList,
    port := some "8443".toUTF8.toList, path := "/example.com".toUTF8.toList, query := some "example.com".toUTF8.toList,
    fragment := some "example.com".toUTF8.toList }
theorem exampleParts_wf : exampleParts.WF ∧ exampleParts.render = examplePartsBytes := by
  refine ⟨⟨⟨⟨104, [116, 116, 112, 115], ?_, ?_⟩, ?_⟩, ?_, ⟨?_, ?_⟩, ?_, ?_, ?_, ?_⟩, ?_⟩
  · decide +kernel
  · decide +kernel
  · decide +kernel
  · intro u hu; cases hu; unfold UserinfoOK; decide +kernel
  · decide +kernel
  · decide +kernel
  · intro q hq; cases hq; decide +kernel
  · right; exact ⟨⟨"example.com".toUTF8.toList, by decide +kernel⟩, by decide +kernel⟩
  · intro q hq; cases hq; unfold QueryOK; decide +kernel
  · intro f hf; cases hf; unfold FragmentOK; decide +kernel
  · decide +kernel

/-- a bare host name (no scheme, no "//") parses, as a path: there is no host -/
theorem hostOf_bare_host (h : Bytes) (hh : PlainHost h) : hostOf h = some [] := by
  exact hostOf_bare_host_aux h hh

theorem hostOf_empty : hostOf [] = some [] := by
  decide +kernel

/-- an ASCII control character before the fragment makes the URL unparsable -/
theorem hostOf_ctl (s : Bytes) (h : hasCTL (cut (ch '#') s).1 = true) : hostOf s = none := by
  rw [hostOf_eq, parseHostField_eq, h]; rfl

/-- a reported host never contains '/', '?', '#', '@' or '\\' -/
theorem hostOf_no_delimiters (s h : Bytes) (hs : hostOf s = some h) : ∀ c ∈ neverInHost, c ∉ h := by
  intro c hc hch
  exact hostOut_not_never c (List.all_eq_true.mp (hostOf_hostOut s h hs) c hch) hc

/-- concrete boundary cases of the property text, evaluated in the kernel -/
theorem boundary_cases :
    hostOf "https://example.com@evil.org".toUTF8.toList = some "evil.org".toUTF8.toList ∧
    hostOf "https://evil.org/example.com".toUTF8.toList = some "evil.org".toUTF8.toList ∧
    hostOf "https://evil.org?example.com".toUTF8.toList = some "evil.org".toUTF8.toList ∧
    hostOf "https://evil.org#example.com".toUTF8.toList = some "evil.org".toUTF8.toList ∧
    hostOf "https://evil.org#@example.com".toUTF8.toList = some "evil.org".toUTF8.toList ∧
    hostOf "https://evil.org\\@example.com".toUTF8.toList = none ∧
    hostOf "https://example.com:443".toUTF8.toList = some "example.com".toUTF8.toList ∧
    hostOf "https://[2001:db8::1]:8443".toUTF8.toList = some "2001:db8::1".toUTF8.toList ∧
    hostOf "example.com".toUTF8.toList = some [] ∧
    hostOf "https://".toUTF8.toList = some [] ∧
    hostOf "://example.com".toUTF8.toList = none ∧
    hostOf "https://exa mple.com".toUTF8.toList = none ∧
    hostOf "https://example.com:x".toUTF8.toList = none ∧
    hostOf "https://ex%61mple.com".toUTF8.toList = none := by
  decide +kernel

end WebAuthn.Theorems.C13Url
