import WebAuthnModel.Spec.Ceremony
/-
  C08 — format / type policy options (verify_options.go, attestation_statement.go dispatch).
-/
open WebAuthn
namespace WebAuthn.C08

/-- the regenerated lists are the seven registered formats and the six types; dispatch covers exactly the seven formats and its default is an error -/
theorem tables : Generated.Core.formats = ["android-key", "android-safetynet", "apple", "fido-u2f", "none", "packed", "tpm"]
    ∧ Generated.Core.types = ["Basic", "Self", "AttCA", "AnonCA", "None", "Unknown"]
    ∧ Generated.Core.dispatch.map (·.1) = ["android-key", "android-safetynet", "apple", "fido-u2f", "none", "packed", "tpm"]
    ∧ Generated.Core.dispatchDefaultIsError = true
    ∧ Generated.Core.withVerifyAllowedFormatsReplaces = true ∧ Generated.Core.withVerifyAllowedTypesReplaces = true :=
  ⟨rfl, rfl, rfl, rfl, rfl, rfl⟩

theorem default_all : getVerifyConfig [] = ⟨Spec.sevenFormats, Spec.sixTypes⟩ := rfl

/-- folding the options over an arbitrary starting configuration -/
theorem foldl_spec (opts : List VerifyOption) (cfg : VerifyConfig) :
    (opts.foldl applyOption cfg).formats = (Spec.lastFormats opts).getD cfg.formats ∧
    (opts.foldl applyOption cfg).types = (Spec.lastTypes opts).getD cfg.types := by
  induction opts generalizing cfg with
  | nil => exact ⟨rfl, rfl⟩
  | cons o rest ih =>
    obtain ⟨h1, h2⟩ := ih (applyOption cfg o)
    rw [List.foldl_cons, h1, h2]
    cases o with
    | allowedFormats fs =>
      simp only [Spec.lastFormats, Spec.lastTypes, applyOption]
      cases Spec.lastFormats rest <;> simp
    | allowedTypes ts =>
      simp only [Spec.lastFormats, Spec.lastTypes, applyOption]
      cases Spec.lastTypes rest <;> simp

/-- for ANY option list: the effective sets are those of the last option of each kind, else all seven formats / six types -/
theorem config_spec (opts : List VerifyOption) :
    (getVerifyConfig opts).formats = Spec.allowedFormats opts ∧ (getVerifyConfig opts).types = Spec.allowedTypes opts :=
  foldl_spec opts defaultConfig

theorem lastFormats_append (opts : List VerifyOption) (fs : List Bytes) (rest : List VerifyOption)
    (hrest : ∀ o ∈ rest, ∀ gs, o ≠ .allowedFormats gs) :
    Spec.lastFormats (opts ++ .allowedFormats fs :: rest) = some fs := by
  have hr : Spec.lastFormats rest = none := by
    induction rest with
    | nil => rfl
    | cons o r ih =>
      cases o with
      | allowedFormats gs => exact absurd rfl (hrest _ (List.mem_cons_self) gs)
      | allowedTypes ts =>
        simp only [Spec.lastFormats]
        exact ih (fun o ho => hrest o (List.mem_cons_of_mem _ ho))
  induction opts with
  | nil => simp [Spec.lastFormats, hr]
  | cons o r ih =>
    cases o with
    | allowedFormats gs => simp [Spec.lastFormats, ih]
    | allowedTypes ts => simpa [Spec.lastFormats] using ih

theorem lastTypes_append (opts : List VerifyOption) (ts : List Bytes) (rest : List VerifyOption)
    (hrest : ∀ o ∈ rest, ∀ gs, o ≠ .allowedTypes gs) :
    Spec.lastTypes (opts ++ .allowedTypes ts :: rest) = some ts := by
  have hr : Spec.lastTypes rest = none := by
    induction rest with
    | nil => rfl
    | cons o r ih =>
      cases o with
      | allowedTypes gs => exact absurd rfl (hrest _ (List.mem_cons_self) gs)
      | allowedFormats fs =>
        simp only [Spec.lastTypes]
        exact ih (fun o ho => hrest o (List.mem_cons_of_mem _ ho))
  induction opts with
  | nil => simp [Spec.lastTypes, hr]
  | cons o r ih =>
    cases o with
    | allowedTypes gs => simp [Spec.lastTypes, ih]
    | allowedFormats fs => simpa [Spec.lastTypes] using ih

theorem last_option_wins_formats (opts : List VerifyOption) (fs : List Bytes) (rest : List VerifyOption)
    (hrest : ∀ o ∈ rest, ∀ gs, o ≠ .allowedFormats gs) : (getVerifyConfig (opts ++ .allowedFormats fs :: rest)).formats = fs := by
  rw [(config_spec _).1, Spec.allowedFormats, lastFormats_append opts fs rest hrest]; rfl

theorem last_option_wins_types (opts : List VerifyOption) (ts : List Bytes) (rest : List VerifyOption)
    (hrest : ∀ o ∈ rest, ∀ gs, o ≠ .allowedTypes gs) : (getVerifyConfig (opts ++ .allowedTypes ts :: rest)).types = ts := by
  rw [(config_spec _).2, Spec.allowedTypes, lastTypes_append opts ts rest hrest]; rfl

/-- a format that is not exactly one of the seven registered identifiers is rejected by statement verification, whatever the rest -/
theorem unknown_fmt_rejected (env : Prog.Env) (ao : Att.AttObj) (h : Bytes) (hf : ao.fmt ∉ Spec.sevenFormats) :
    Prog.run env (Att.verify ao h) = none := by
  have hfind : (Generated.Core.dispatch.find? (fun e => Att.s e.1 == ao.fmt)) = none := by
    simp only [Spec.sevenFormats, List.map_cons, List.map_nil, List.mem_cons, List.not_mem_nil, or_false, not_or] at hf
    obtain ⟨h1, h2, h3, h4, h5, h6, h7⟩ := hf
    simp only [Generated.Core.dispatch, List.find?_cons, List.find?_nil]
    have e : ∀ x : String, ao.fmt ≠ Spec.str x → (Att.s x == ao.fmt) = false := by
      intro x hx
      rw [beq_eq_false_iff_ne]
      exact fun hh => hx hh.symm
    rw [e _ h1, e _ h2, e _ h3, e _ h4, e _ h5, e _ h6, e _ h7]
  unfold Att.verify
  rw [hfind]
  rfl

/-- the attestation type a verifier can report per format (from the regenerated resultTypes table) -/
theorem result_types : Generated.Core.resultTypes =
    [("VerifyAndroidKeyAttestationStatement", ["Basic"]), ("VerifyAndroidSafetyNetAttestationStatement", ["Basic"]),
     ("VerifyAppleAttestationStatement", ["AnonCA"]), ("VerifyFIDOU2FAttestationStatement", ["Unknown"]),
     ("VerifyNoneAttestationStatement", ["None"]), ("VerifyPackedAttestationStatement", ["Self", "Unknown"]),
     ("VerifyTPMAttestationStatement", ["AttCA"])] := rfl

end WebAuthn.C08
