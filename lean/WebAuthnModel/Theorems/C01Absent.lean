import WebAuthnModel.Theorems.C01
import WebAuthnModel.Theorems.C02
import WebAuthnModel.Proofs.Base64
/-
  C01 / C02 — client data that does not SAY something is refused.

  `type`, `challenge` and `origin` are members of a JSON object; a document may leave one out, or write `null` for it.  What the ceremony
  compares is then the empty string (the zero value of the Go member: `encoding/json` does not touch a member the document does not name, and
  `null` leaves it as it is) — never a value from anywhere else, such as what an earlier ceremony decoded.  Stated here for every document,
  every environment, options, response and storage: such a document is refused by both ceremonies (for the challenge: unless the options'
  challenge is itself empty, in which case the empty text is the right one).
-/
namespace WebAuthn.C01Absent
open WebAuthn Json

/-- the document does not give `field` a value: no member name spells it (names match case-insensitively, after unescaping), or every
    such member is `null` -/
def Absent (kvs : List (Bytes × JVal)) (field : String) : Prop := ∀ kv ∈ kvs, nameIs kv.1 field = false ∨ kv.2 = .null

theorem storeString_null (cur : Bytes) : storeString cur .null = (cur, true) := rfl

theorem storeMembers_type_absent (f : ClientDataFields) (ok : Bool) (kvs : List (Bytes × JVal)) (h : Absent kvs "type") :
    (storeMembers f ok kvs).1.type = f.type := by
  induction kvs generalizing f ok with
  | nil => rfl
  | cons kv rest ih =>
    obtain ⟨k, v⟩ := kv
    have hrest : Absent rest "type" := fun kv' hkv' => h kv' (List.mem_cons_of_mem _ hkv')
    have hk := h (k, v) (List.mem_cons_self ..)
    simp only [storeMembers]
    split
    · next hn =>
      rcases hk with hk | hk
      · simp only at hk; rw [hn] at hk; cases hk
      · simp only at hk; subst hk
        simp only [storeString_null]
        exact ih _ _ hrest
    · split
      · rw [ih _ _ hrest]
      · split
        · rw [ih _ _ hrest]
        · split
          · exact ih _ _ hrest
          · split
            · exact ih _ _ hrest
            · exact ih _ _ hrest

theorem storeMembers_challenge_absent (f : ClientDataFields) (ok : Bool) (kvs : List (Bytes × JVal)) (h : Absent kvs "challenge") :
    (storeMembers f ok kvs).1.challenge = f.challenge := by
  induction kvs generalizing f ok with
  | nil => rfl
  | cons kv rest ih =>
    obtain ⟨k, v⟩ := kv
    have hrest : Absent rest "challenge" := fun kv' hkv' => h kv' (List.mem_cons_of_mem _ hkv')
    have hk := h (k, v) (List.mem_cons_self ..)
    simp only [storeMembers]
    split
    · rw [ih _ _ hrest]
    · split
      · next hn =>
        rcases hk with hk | hk
        · simp only at hk; rw [hn] at hk; cases hk
        · simp only at hk; subst hk
          simp only [storeString_null]
          exact ih _ _ hrest
      · split
        · rw [ih _ _ hrest]
        · split
          · exact ih _ _ hrest
          · split
            · exact ih _ _ hrest
            · exact ih _ _ hrest

theorem storeMembers_origin_absent (f : ClientDataFields) (ok : Bool) (kvs : List (Bytes × JVal)) (h : Absent kvs "origin") :
    (storeMembers f ok kvs).1.origin = f.origin := by
  induction kvs generalizing f ok with
  | nil => rfl
  | cons kv rest ih =>
    obtain ⟨k, v⟩ := kv
    have hrest : Absent rest "origin" := fun kv' hkv' => h kv' (List.mem_cons_of_mem _ hkv')
    have hk := h (k, v) (List.mem_cons_self ..)
    simp only [storeMembers]
    split
    · rw [ih _ _ hrest]
    · split
      · rw [ih _ _ hrest]
      · split
        · next hn =>
          rcases hk with hk | hk
          · simp only at hk; rw [hn] at hk; cases hk
          · simp only at hk; subst hk
            simp only [storeString_null]
            exact ih _ _ hrest
        · split
          · exact ih _ _ hrest
          · split
            · exact ih _ _ hrest
            · exact ih _ _ hrest

/-- what the decoded client data holds for a member the document does not give a value: the empty string -/
theorem clientData_absent (raw : Bytes) (kvs : List (Bytes × JVal)) (f : ClientDataFields)
    (hp : parse raw = some (.obj kvs)) (h : clientData raw = some f) :
    (Absent kvs "type" → f.type = []) ∧ (Absent kvs "challenge" → f.challenge = []) ∧ (Absent kvs "origin" → f.origin = []) := by
  unfold clientData at h
  rw [hp] at h
  simp only at h
  split at h
  · cases h
    exact ⟨fun ha => storeMembers_type_absent {} true kvs ha, fun ha => storeMembers_challenge_absent {} true kvs ha,
      fun ha => storeMembers_origin_absent {} true kvs ha⟩
  · cases h

theorem type_get_ne_nil : Spec.str "webauthn.get" ≠ [] := by decide +kernel
theorem type_create_ne_nil : Spec.str "webauthn.create" ≠ [] := by decide +kernel
/-- the empty origin has the empty host -/
theorem hostOf_nil : Url.hostOf [] = some [] := by decide +kernel

theorem encode_ne_nil (b : Bytes) (h : b ≠ []) : B64.encode b ≠ [] := by
  intro he
  have hl := B64.encode_length b
  rw [he] at hl
  cases b with
  | nil => exact h rfl
  | cons x xs => simp at hl; omega

theorem originOK_nil (env : Prog.Env) (rpOrigin : Bytes) : ¬ Spec.OriginOK env [] rpOrigin := by
  rintro ⟨ch, rh, h1, _, hne, h2⟩
  rw [hostOf_nil] at h1
  cases h1
  rcases h2 with h2 | ⟨p, h2⟩
  · exact hne h2.symm
  · cases p <;> cases h2

/-- the three conditions on client data cannot hold of a document that leaves one of the members out -/
theorem conditions_fail (env : Prog.Env) (raw : Bytes) (kvs : List (Bytes × JVal)) (ty challenge rpOrigin : Bytes)
    (hp : parse raw = some (.obj kvs)) (hty : ty ≠ [])
    (h : Absent kvs "type" ∨ (Absent kvs "challenge" ∧ challenge ≠ []) ∨ Absent kvs "origin") :
    ¬ ∃ cd, clientData raw = some cd ∧ cd.type = ty ∧ cd.challenge = B64.encode challenge ∧ Spec.OriginOK env cd.origin rpOrigin := by
  rintro ⟨cd, hcd, h1, h2, h3⟩
  obtain ⟨a1, a2, a3⟩ := clientData_absent raw kvs cd hp hcd
  rcases h with h | ⟨h, hne⟩ | h
  · rw [a1 h] at h1; exact hty h1.symm
  · rw [a2 h] at h2; exact encode_ne_nil challenge hne h2.symm
  · rw [a3 h] at h3; exact originOK_nil env rpOrigin h3

/-- C01: an assertion whose client data leaves out (or nulls) `type`, `origin`, or — for a non-empty challenge — `challenge` is refused,
    whatever else holds -/
theorem auth_reject_absent_member (env : Prog.Env) (rp : RP) (o : RequestOptions) (a : Assertion) (get : Bytes → GetOutcome)
    (kvs : List (Bytes × JVal)) (hp : parse a.clientDataJSON = some (.obj kvs))
    (h : Absent kvs "type" ∨ (Absent kvs "challenge" ∧ o.challenge ≠ []) ∨ Absent kvs "origin") :
    ∀ cred, (Prog.run env (verifyAuthentication rp o a get)).result ≠ .ok cred := by
  intro cred hok
  have := ((C01.auth_iff env rp o a get cred).mp hok).clientData
  exact conditions_fail env a.clientDataJSON kvs _ o.challenge rp.origin hp type_get_ne_nil h this

/-- C02: the same for registration -/
theorem reg_reject_absent_member (env : Prog.Env) (rp : RP) (o : CreationOptions) (c : Attestation) (opts : List VerifyOption)
    (get : Bytes → GetOutcome) (set : Credential → SetOutcome)
    (kvs : List (Bytes × JVal)) (hp : parse c.clientDataJSON = some (.obj kvs))
    (h : Absent kvs "type" ∨ (Absent kvs "challenge" ∧ o.challenge ≠ []) ∨ Absent kvs "origin") :
    ∀ cred, (Prog.run env (verifyRegistration rp o c opts get set)).result ≠ .ok cred := by
  intro cred hok
  obtain ⟨id, key, hpre, _⟩ := (C02.reg_iff env rp o c opts get set cred).mp hok
  exact conditions_fail env c.clientDataJSON kvs _ o.challenge rp.origin hp type_create_ne_nil h hpre.clientData

/-! ### non-vacuity: documents that parse and leave a member out, in each of the two ways -/

def lit (s : String) : Bytes := s.toUTF8.toList

/-- `Absent`, computed -/
def absentB (kvs : List (Bytes × JVal)) (field : String) : Bool :=
  kvs.all (fun kv => !nameIs kv.1 field || (match kv.2 with | .null => true | _ => false))

theorem absent_of_absentB (kvs : List (Bytes × JVal)) (field : String) (h : absentB kvs field = true) : Absent kvs field := by
  intro kv hkv
  have := List.all_eq_true.1 h kv hkv
  simp only [Bool.or_eq_true, Bool.not_eq_true'] at this
  rcases this with h1 | h1
  · exact Or.inl h1
  · right
    split at h1
    · assumption
    · cases h1

/-- the hypotheses of the two rejection theorems are met by real documents: `origin` not written at all; `type` written as `null` -/
theorem absent_examples :
    (match parse (lit "{\"type\":\"webauthn.get\",\"challenge\":\"YQ\"}") with
      | some (.obj kvs) => absentB kvs "origin" && !absentB kvs "type" | _ => false) = true ∧
    (match parse (lit "{\"type\":null,\"challenge\":\"YQ\",\"origin\":\"https://h\"}") with
      | some (.obj kvs) => absentB kvs "type" && !absentB kvs "origin" | _ => false) = true := by
  decide +kernel

end WebAuthn.C01Absent
