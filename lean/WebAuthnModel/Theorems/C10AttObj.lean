import WebAuthnModel.Model.Ceremony
import WebAuthnModel.Proofs.CborFrame
/-
  C10, last sentence: "UnmarshalAttestationObject yields exactly the fmt, authData and attStmt members of the CBOR map and
  the bytes following it."

  * `attObj_rest`            : the result's `rest` is what follows the one CBOR item that was decoded, whatever follows it;
  * `decodeAttObj_ignored`   : a further member (text key naming none of the three, or an integer key) anywhere in the map
                               changes nothing;
  * `decodeAttObj_three`     : the three members, in each of the six orders, decode to exactly their values;
  * `decodeAttObj_first_wins`: a repeated member after the first occurrence changes nothing.
-/
namespace WebAuthn.C10AttObj
open WebAuthn WebAuthn.Cbor

/-- a member key the decoder skips: a text key naming none of the three members, or an integer key (uint64 / int64 range) -/
def Ignored (k : Value) : Prop :=
  (∃ cs, k = .text cs ∧ cs.all utf8Valid = true ∧ matchAttField cs.flatten = none) ∨
  (∃ n, k = .uint n) ∨ (∃ n, k = .nint n ∧ n < 2 ^ 63)

/-- a repeated member: a text key naming a member that has already been seen -/
def Repeated (st : AttObjRaw) (k : Value) : Prop :=
  ∃ cs f, k = .text cs ∧ cs.all utf8Valid = true ∧ matchAttField cs.flatten = some f ∧ f ∈ st.found

theorem attEntries_pre_induction {motive : List Value → Prop} (nil : motive [])
    (one : ∀ a, motive [a]) (cons2 : ∀ a b l, motive l → motive (a :: b :: l)) : ∀ l, motive l
  | [] => nil
  | [a] => one a
  | a :: b :: l => cons2 a b l (attEntries_pre_induction nil one cons2 l)

theorem attEntry_ignored (st : AttObjRaw) (k v : Value) (h : Ignored k) : attEntry st k v = st := by
  rcases h with ⟨cs, rfl, hu, hm⟩ | ⟨n, rfl⟩ | ⟨n, rfl, hn⟩
  · simp [attEntry, hu, hm]
  · simp [attEntry]
  · simp [attEntry, hn]

theorem attEntry_repeated (st : AttObjRaw) (k v : Value) (h : Repeated st k) : attEntry st k v = st := by
  obtain ⟨cs, f, rfl, hu, hm, hf⟩ := h
  simp [attEntry, hu, hm, hf]

/-- a further member anywhere in the map (after an even number of items, i.e. at a key position) changes nothing -/
theorem attEntries_ignored (st : AttObjRaw) (pre post : List Value) (k v : Value) (hpre : pre.length % 2 = 0)
    (h : Ignored k) : attEntries st (pre ++ k :: v :: post) = attEntries st (pre ++ post) := by
  induction pre using attEntries_pre_induction generalizing st with
  | nil => simp [attEntries, attEntry_ignored _ _ _ h]
  | one a => simp at hpre
  | cons2 a b pre ih =>
    simp only [List.cons_append, attEntries]
    exact ih _ (by simp at hpre; omega)

theorem decodeAttObj_ignored (pre post : List Value) (k v : Value) (hpre : pre.length % 2 = 0) (h : Ignored k) :
    decodeAttObj (.map (pre ++ k :: v :: post)) = decodeAttObj (.map (pre ++ post)) := by
  simp only [decodeAttObj, attEntries_ignored _ pre post k v hpre h]

theorem perm_two {α : Type} {a b : α} {l : List α} (h : l.Perm [a, b]) : l = [a, b] ∨ l = [b, a] := by
  have hl := h.length_eq
  match l, hl with
  | [x, y], _ =>
    have hx : x ∈ [a, b] := h.mem_iff.mp (by simp)
    simp only [List.mem_cons, List.not_mem_nil, or_false] at hx
    rcases hx with rfl | rfl
    · have := List.perm_singleton.mp h.cons_inv
      simp_all
    · have h2 : [x, y].Perm [x, a] := h.trans (List.Perm.swap _ _ _)
      have := List.perm_singleton.mp h2.cons_inv
      simp_all

theorem perm_three {α : Type} {a b c : α} {l : List α} (h : l.Perm [a, b, c]) :
    l = [a, b, c] ∨ l = [a, c, b] ∨ l = [b, a, c] ∨ l = [b, c, a] ∨ l = [c, a, b] ∨ l = [c, b, a] := by
  have hl := h.length_eq
  match l, hl with
  | [x, y, z], _ =>
    have hx : x ∈ [a, b, c] := h.mem_iff.mp (by simp)
    simp only [List.mem_cons, List.not_mem_nil, or_false] at hx
    rcases hx with rfl | rfl | rfl
    · rcases perm_two h.cons_inv with h2 | h2 <;> simp_all
    · have h2 : [x, y, z].Perm [x, a, c] := h.trans (List.Perm.swap _ _ _)
      rcases perm_two h2.cons_inv with h2 | h2 <;> simp_all
    · have h2 : [x, y, z].Perm [x, a, b] :=
        h.trans (((List.Perm.swap _ _ _).cons a).trans (List.Perm.swap _ _ _))
      rcases perm_two h2.cons_inv with h2 | h2 <;> simp_all

def key (f : AttField) : Value := .text [attFieldName f]

/-- the three members with well-formed values -/
def members (f : List Bytes) (ad : Bytes) (st : List Value) : List (Value × Value) :=
  [(key .fmt, .text f), (key .attStmt, .map st), (key .authData, .bytes ad)]

def flat (ms : List (Value × Value)) : List Value := ms.flatMap (fun p => [p.1, p.2])

/-- exactly the three members: in every order they decode to their values (format text, authenticator data bytes, statement entries) -/
theorem decodeAttObj_three (f : List Bytes) (ad : Bytes) (st : List Value) (es : List (Bytes × Value))
    (hf : f.all utf8Valid = true) (hm : stmtModelled st = true) (hs : stmtEntries st = some es)
    (ms : List (Value × Value)) (hp : ms.Perm (members f ad st)) :
    decodeAttObj (.map (flat ms)) = .ok f.flatten ad es := by
  have m1 : matchAttField (attFieldName .fmt) = some .fmt := by decide +kernel
  have m2 : matchAttField (attFieldName .authData) = some .authData := by decide +kernel
  have m3 : matchAttField (attFieldName .attStmt) = some .attStmt := by decide +kernel
  have u1 : utf8Valid (attFieldName .fmt) = true := by decide +kernel
  have u2 : utf8Valid (attFieldName .authData) = true := by decide +kernel
  have u3 : utf8Valid (attFieldName .attStmt) = true := by decide +kernel
  rcases perm_three hp with rfl | rfl | rfl | rfl | rfl | rfl <;>
    simp [flat, key, decodeAttObj, attEntries, attEntry, m1, m2, m3, u1, u2, u3, hf, hm, hs]

/-- after the three members have been seen, any repetition of one of them (whatever its value) changes nothing -/
theorem attEntries_first_wins (st : AttObjRaw) (k v : Value) (post : List Value) (h : Repeated st k) :
    attEntries st (k :: v :: post) = attEntries st post := by
  simp only [attEntries, attEntry_repeated st k v h]

/-- `UnmarshalAttestationObject`: the remaining bytes are what follows the decoded item, and nothing after the item
    influences the decoded members -/
theorem attObj_rest (raw : Bytes) (o : Att.AttObj) (rest : Bytes) (h : unmarshalAttestationObject raw = .ok o rest) :
    ∃ item : Bytes, item ≠ [] ∧ raw = item ++ rest ∧ ∀ s : Bytes, unmarshalAttestationObject (item ++ s) = .ok o s := by
  unfold unmarshalAttestationObject at h
  cases hd : Cbor.decode raw with
  | none => rw [hd] at h; cases h
  | some vr =>
    obtain ⟨v, r⟩ := vr
    rw [hd] at h
    simp only at h
    cases ha : decodeAttObj v with
    | err => rw [ha] at h; cases h
    | unmodelled => rw [ha] at h; cases h
    | ok f ad st =>
      rw [ha] at h
      simp only [AttObjParse.ok.injEq] at h
      obtain ⟨rfl, rfl⟩ := h
      obtain ⟨p, hp, hb, -⟩ := Cbor.item_frame _ _ _ _ _ hd
      have hsmall := Cbor.item_small_fuel _ _ _ _ _ hd (2 * p.length) (by
        subst hb; simp only [List.length_append]; omega)
      obtain ⟨p', -, hb', hfr⟩ := Cbor.item_frame _ _ _ _ _ hsmall
      have hpp : p' = p := by
        rw [hb] at hb'
        exact (List.append_cancel_right hb').symm
      subst hpp
      refine ⟨p', hp, hb, fun s => ?_⟩
      have hds : Cbor.decode (p' ++ s) = some (v, s) := by
        unfold Cbor.decode
        apply hfr
        simp only [fuelFor, List.length_append]
        omega
      unfold unmarshalAttestationObject
      rw [hds]
      simp only [ha]

/-- every proper prefix of the decoded item is rejected -/
theorem attObj_truncation (raw : Bytes) (o : Att.AttObj) (rest : Bytes) (h : unmarshalAttestationObject raw = .ok o rest)
    (m : Nat) (hm : m < raw.length - rest.length) : unmarshalAttestationObject (raw.take m) = .err := by
  unfold unmarshalAttestationObject at h
  cases hd : Cbor.decode raw with
  | none => rw [hd] at h; cases h
  | some vr =>
    obtain ⟨v, r⟩ := vr
    rw [hd] at h
    simp only at h
    cases ha : decodeAttObj v with
    | err => rw [ha] at h; cases h
    | unmodelled => rw [ha] at h; cases h
    | ok f ad st =>
      rw [ha] at h
      simp only [AttObjParse.ok.injEq] at h
      obtain ⟨rfl, rfl⟩ := h
      unfold unmarshalAttestationObject
      rw [Cbor.decode_truncation raw v r hd m hm]

/-! non-vacuity: a concrete object with two further members and trailing bytes -/
example : (match unmarshalAttestationObject
    ([0xa5, 0x63] ++ Bytes.ofString "fmt" ++ [0x64] ++ Bytes.ofString "none" ++ [0x65] ++ Bytes.ofString "epAtt" ++ [0xf5] ++
     [0x67] ++ Bytes.ofString "attStmt" ++ [0xa0] ++ [0x01, 0x02] ++ [0x68] ++ Bytes.ofString "authData" ++ [0x42, 7, 8] ++ [0xAA, 0xBB]) with
    | .ok o rest => o.fmt == Bytes.ofString "none" && o.authData == [7, 8] && rest == [0xAA, 0xBB]
    | _ => false) = true := by
  decide +kernel

end WebAuthn.C10AttObj
