import WebAuthnModel.Generated.Effects
import WebAuthnModel.Theorems.C02
import WebAuthnModel.Theorems.C01
/-
  C16 — verification is stateless, deterministic, side-effect free, concurrency-safe.
  PARTIAL by nature: data races, the Go memory model and the scheduler cannot be exhibited by an executable model.
  What is proved: (a) the regenerated effect facts about ALL non-test code of the five packages (translator T8) are the
  reviewed ones — no package-level variable is written outside `init`, no goroutine is started, no method of RelyingParty
  writes through its receiver, the only writes through parameters are in one local helper; (b) in the model a ceremony is a
  function of (environment, RP, options, response, storage answers) only, and concurrent ceremonies over a linearizable
  storage each return what they return alone against the storage contents at their read point.
-/
namespace WebAuthn.C16
open WebAuthn

/-! ### regenerated effect facts -/

/-- no package-level variable is assigned outside `init` functions (format/type lists, vendor registry, Apple root pool, error values) -/
theorem no_global_writes : Generated.Effects.globalWrites = [] := by decide

/-- no goroutine is started anywhere in the library -/
theorem no_goroutines : Generated.Effects.goStatements = [] := by decide

/-- the only methods that write through their receiver are the JSON decoders (`UnmarshalJSON`: they fill the value being decoded) and the
    in-memory storage's `SetCredential`; no method of RelyingParty writes through its receiver.  (Stated by method name, not by expression.) -/
theorem receiver_writes_reviewed : Generated.Effects.receiverWriteMethodNames = ["SetCredential", "UnmarshalJSON"]
    ∧ Generated.Effects.relyingPartyReceiverWrites = [] := by decide

/-- no exported function or method writes through one of its parameters (index assignment, copy destination, append base rooted at a
    parameter): nothing rooted at options, credentials, responses or stored records is written by the API.  (Unexported helpers that fill a
    caller-owned buffer exist; whether caller data is ever modified is what the `inputs.unmodified` / `returned.records` streams observe.) -/
theorem param_writes_reviewed : Generated.Effects.exportedParamWrites = [] := by decide

/-- a `RelyingParty` value has no member through which it could remember anything between calls: no map, channel, `sync` / `atomic`
    value, slice of structured values, nor a struct or pointer to a struct holding one (its members are the origin, the RP ID bytes and the
    storage the integrator supplies) — a memo of verified attestations, a cache of decoded keys or a counter would be listed here -/
theorem relying_party_keeps_nothing : Generated.Effects.relyingPartyStatefulFields = [] := by decide

/-- the data types decoded from input and handed to the caller (`AttestationObject`, `AuthenticatorData`, `AttestedCredentialData`,
    `CollectedClientData`, `Credential`, the two responses and the two credentials) have exported members only: there is no place where a
    decoded form could be kept beside the bytes it came from and go stale when the caller changes those -/
theorem decoded_types_keep_nothing : Generated.Effects.unexportedFieldsInDecodedTypes = [] := by decide

/-! ### the model has no hidden state -/

/-- the relying party is never an output of a ceremony: outcomes are functions of the arguments (stated as congruence) -/
theorem authentication_deterministic (env : Prog.Env) (rp : RP) (o : RequestOptions) (a : Assertion) (get get' : Bytes → GetOutcome)
    (h : ∀ id, get id = get' id) :
    Prog.run env (verifyAuthentication rp o a get) = Prog.run env (verifyAuthentication rp o a get') := by
  have : get = get' := funext h
  rw [this]

theorem registration_deterministic (env : Prog.Env) (rp : RP) (o : CreationOptions) (c : Attestation) (opts : List VerifyOption)
    (get get' : Bytes → GetOutcome) (set set' : Credential → SetOutcome) (hg : ∀ id, get id = get' id) (hs : ∀ cr, set cr = set' cr) :
    Prog.run env (verifyRegistration rp o c opts get set) = Prog.run env (verifyRegistration rp o c opts get' set') := by
  have e1 : get = get' := funext hg
  have e2 : set = set' := funext hs
  rw [e1, e2]

/-! ### interleavings over a linearizable storage

  A ceremony performs at most one read and at most one write (C06), with pure computation in between.  A concurrent run of
  N ceremonies over a linearizable storage is therefore a sequence of atomic steps; the storage an individual ceremony observes
  is the one at its read step.  The following states that each ceremony's result is exactly its result when run alone against
  the storage answer it obtained — nothing else about the interleaving matters. -/

/-- a registration whose read was answered `g` and whose write (if any) was answered `s` -/
theorem registration_result_depends_only_on_its_answers (env : Prog.Env) (rp : RP) (o : CreationOptions) (c : Attestation)
    (opts : List VerifyOption) (get get' : Bytes → GetOutcome) (set set' : Credential → SetOutcome)
    (hread : ∀ id key, Spec.RegPreOK env rp o c opts id key → get id = get' id)
    (hwrite : ∀ id key, Spec.RegPreOK env rp o c opts id key → set ⟨id, o.userId, key⟩ = set' ⟨id, o.userId, key⟩) :
    Prog.run env (verifyRegistration rp o c opts get set) = Prog.run env (verifyRegistration rp o c opts get' set') := by
  rw [C02.reg_decompose, C02.reg_decompose]
  cases hp : C02.regPre env rp o c opts with
  | error e => rfl
  | ok p =>
    obtain ⟨id, key⟩ := p
    have hpre := (C02.regPre_iff env rp o c opts id key).1 hp
    simp only [C02.storageStep, hread id key hpre, hwrite id key hpre]

/-- an authentication depends on storage only through the answer to its single read -/
theorem authentication_result_depends_only_on_its_answer (env : Prog.Env) (rp : RP) (o : RequestOptions) (a : Assertion)
    (get get' : Bytes → GetOutcome) (h : get a.rawId = get' a.rawId) :
    Prog.run env (verifyAuthentication rp o a get) = Prog.run env (verifyAuthentication rp o a get') :=
  C01.auth_depends_on_get_rawId env rp o a get get' h

end WebAuthn.C16
