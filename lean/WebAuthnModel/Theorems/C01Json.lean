import WebAuthnModel.Model.Json
import WebAuthnModel.Proofs.JsonLemmas
/-
  C01 / C02, client data — what `json.Unmarshal(clientDataJSON, &CollectedClientData)` (Model/Json.lean, compared with
  encoding/json through the repository's UnmarshalClientData on every run) returns on the documents clients write, and a few
  facts about documents they do not.
-/
namespace WebAuthn.Theorems.C01Json
open WebAuthn.Json

/-- printable ASCII without `"` and `\`: what base64url challenges, type constants and origins consist of -/
def plainChar (b : UInt8) : Bool := 0x20 ≤ b.toNat && b.toNat < 0x7f && b ≠ c '"' && b ≠ c '\\'
def Plain (s : Bytes) : Prop := s.all plainChar = true

def quote (s : Bytes) : Bytes := c '"' :: s ++ [c '"']
def member (k : String) (v : Bytes) : Bytes := quote k.toUTF8.toList ++ [c ':'] ++ v

def joinComma : List Bytes → Bytes
  | [] => []
  | [m] => m
  | m :: ms => m ++ c ',' :: joinComma ms

def renderObj (ms : List Bytes) : Bytes := c '{' :: joinComma ms ++ [c '}']

/-- the renderer of this file and the one the parser lemmas are stated for agree -/
theorem joinComma_render (l : List Lemmas.Mem) (hne : l ≠ []) :
    joinComma (l.map Lemmas.Mem.render) ++ [c '}'] = Lemmas.renderMembers l [] := by
  induction l with
  | nil => exact absurd rfl hne
  | cons m l ih =>
    cases l with
    | nil => rfl
    | cons m' l' =>
      have := ih (by simp)
      simp only [List.map_cons, joinComma, Lemmas.renderMembers, List.append_assoc, List.cons_append] at this ⊢
      rw [this]

/-- the document every client writes, members in any order, with or without `crossOrigin` -/
theorem clientData_canonical (t ch o : Bytes) (ht : Plain t) (hc : Plain ch) (ho : Plain o) (ms : List Bytes)
    (hperm : ms.Perm [member "type" (quote t), member "challenge" (quote ch), member "origin" (quote o)] ∨
             ms.Perm [member "type" (quote t), member "challenge" (quote ch), member "origin" (quote o), member "crossOrigin" "false".toUTF8.toList] ∨
             ms.Perm [member "type" (quote t), member "challenge" (quote ch), member "origin" (quote o), member "crossOrigin" "true".toUTF8.toList]) :
    clientData (renderObj ms) = some ⟨t, ch, o⟩ := by
  have key : ∀ L : List Lemmas.Mem,
      (L = [Lemmas.mType t, Lemmas.mChallenge ch, Lemmas.mOrigin o] ∨
        ∃ b, L = [Lemmas.mType t, Lemmas.mChallenge ch, Lemmas.mOrigin o, Lemmas.mCross b]) →
      ms.Perm (L.map Lemmas.Mem.render) → clientData (renderObj ms) = some ⟨t, ch, o⟩ := by
    intro L hL hp
    obtain ⟨l, hl, rfl⟩ := Lemmas.perm_map_exists _ _ _ hp
    have hne : l ≠ [] := by
      intro h; subst h
      have := hl.length_eq
      rcases hL with rfl | ⟨b, rfl⟩ <;> simp at this
    rw [renderObj, List.cons_append, joinComma_render l hne]
    exact Lemmas.clientData_members t ch o ht hc ho l L hl hL
  rcases hperm with h | h | h
  · exact key _ (Or.inl rfl) h
  · exact key _ (Or.inr ⟨false, rfl⟩) h
  · exact key _ (Or.inr ⟨true, rfl⟩) h

/-- plain strings are returned as they stand -/
theorem unq_plain (s : Bytes) (h : Plain s) : unq s = s := Lemmas.unq_plain s h

def lit (s : String) : Bytes := s.toUTF8.toList

/-- concrete documents, evaluated in the kernel: member names match case-insensitively and a later duplicate wins; `null`
    decodes to the zero value; a member of the wrong JSON type, a non-object, trailing data, and invalid syntax are errors;
    escapes are resolved, lone surrogates and invalid UTF-8 become U+FFFD -/
theorem concrete_documents :
    clientData (lit "{\"type\":\"webauthn.get\",\"challenge\":\"YQ\",\"origin\":\"https://example.com\"}") =
      some ⟨lit "webauthn.get", lit "YQ", lit "https://example.com"⟩ ∧
    clientData (lit " {\"origin\" : \"https://example.com\",\n\"challenge\":\"YQ\", \"type\":\"webauthn.get\" , \"extra\":[1,{\"a\":null}]} ") =
      some ⟨lit "webauthn.get", lit "YQ", lit "https://example.com"⟩ ∧
    clientData (lit "{\"type\":\"webauthn.get\",\"TYPE\":\"webauthn.create\"}") = some ⟨lit "webauthn.create", [], []⟩ ∧
    clientData (lit "{\"type\":\"webauthn.get\",\"type\":null}") = some ⟨lit "webauthn.get", [], []⟩ ∧
    clientData (lit "{\"\\u0074ype\":\"web\\u0061uthn.get\"}") = some ⟨lit "webauthn.get", [], []⟩ ∧
    clientData (lit "{\"type\":\"\\ud83d\\ude00 \\ud83d x\"}") = some ⟨[0xF0, 0x9F, 0x98, 0x80, 0x20, 0xEF, 0xBF, 0xBD, 0x20, 0x78], [], []⟩ ∧
    clientData (lit "null") = some ⟨[], [], []⟩ ∧
    clientData (lit "{}") = some ⟨[], [], []⟩ ∧
    clientData (lit "{\"type\":1}") = none ∧
    clientData (lit "{\"crossOrigin\":\"false\"}") = none ∧
    clientData (lit "{\"tokenBinding\":{\"status\":true}}") = none ∧
    clientData (lit "{\"tokenBinding\":{\"status\":\"supported\",\"other\":[true]}}") = some ⟨[], [], []⟩ ∧
    clientData (lit "[]") = none ∧
    clientData (lit "\"webauthn.get\"") = none ∧
    clientData (lit "{\"type\":\"webauthn.get\"} x") = none ∧
    clientData (lit "{\"type\":\"webauthn.get\",}") = none ∧
    clientData (lit "{'type':'webauthn.get'}") = none ∧
    clientData (lit "") = none := by
  decide +kernel

end WebAuthn.Theorems.C01Json
