import WebAuthnModel.Theorems.C01
import WebAuthnModel.Theorems.C02
/-
  C13 — credentials are scoped to the RP host: origin and RP ID matching.
  The label walk theorems are in `Proofs/Origin.lean` (`labelWalk_iff`, `labelWalkLoop_eq`, the rejection corollaries);
  this file states the ceremony-level consequences.
  Host extraction (`url.Parse(..).Hostname()`) is an oracle: statements are about the hosts the URL parser reports.
-/
namespace WebAuthn.C13
open WebAuthn

/-- in both ceremonies a client-data origin is acceptable exactly when its host equals the RP host or ends with "." ++ RP host
    (and the RP host is non-empty: an origin that is empty, unparsable or host-less is never acceptable, on either side) -/
theorem origin_acceptable_iff (env : Prog.Env) (clientOrigin rpOrigin : Bytes) :
    Prog.run env (originMatches clientOrigin rpOrigin) = true ↔
      ∃ ch rh, env.answer (.urlHost clientOrigin) = .bytes ch ∧ env.answer (.urlHost rpOrigin) = .bytes rh ∧
        rh ≠ [] ∧ (ch = rh ∨ ∃ p : Bytes, ch = p ++ dot :: rh) :=
  C01.origin_iff env clientOrigin rpOrigin

/-- an unparsable client origin (the URL parser reports an error) is never acceptable -/
theorem unparsable_origin_rejected (env : Prog.Env) (co ro : Bytes) (h : ∀ b, env.answer (.urlHost co) ≠ .bytes b) :
    Prog.run env (originMatches co ro) = false := by
  cases hr : Prog.run env (originMatches co ro) with
  | false => rfl
  | true =>
    obtain ⟨ch, _, h1, _⟩ := (origin_acceptable_iff env co ro).1 hr
    exact absurd h1 (h ch)

/-- a host-less client origin (empty host) is never acceptable -/
theorem hostless_origin_rejected (env : Prog.Env) (co ro : Bytes) (h : env.answer (.urlHost co) = .bytes []) :
    Prog.run env (originMatches co ro) = false := by
  cases hr : Prog.run env (originMatches co ro) with
  | false => rfl
  | true =>
    obtain ⟨ch, rh, h1, _, hne, hor⟩ := (origin_acceptable_iff env co ro).1 hr
    rw [h] at h1
    have : ch = [] := by injection h1 with h1; exact h1.symm
    subst this
    rcases hor with h2 | ⟨p, h2⟩
    · exact absurd h2.symm hne
    · cases p <;> simp at h2

/-- scheme and port are irrelevant: only what the URL parser reports as host enters the decision -/
theorem only_hosts_matter (env : Prog.Env) (co co' ro ro' : Bytes)
    (hc : env.answer (.urlHost co) = env.answer (.urlHost co')) (hr : env.answer (.urlHost ro) = env.answer (.urlHost ro')) :
    Prog.run env (originMatches co ro) = Prog.run env (originMatches co' ro') := by
  have e : ∀ a b, (Prog.run env (originMatches a b) = true ↔ _) := fun a b => origin_acceptable_iff env a b
  cases h1 : Prog.run env (originMatches co ro) <;> cases h2 : Prog.run env (originMatches co' ro') <;> try rfl
  · have := (e co' ro').1 h2
    rw [← hc, ← hr] at this
    rw [(e co ro).2 this] at h1
    exact absurd h1 (by decide)
  · have := (e co ro).1 h1
    rw [hc, hr] at this
    rw [(e co' ro').2 this] at h2
    exact absurd h2 (by decide)

/-- the relying party's RP ID is the host name of its configured origin (the origin itself when it does not parse) -/
theorem rp_id_is_host (env : Prog.Env) (origin : Bytes) :
    (Prog.run env (newRP origin)).id = (match env.answer (.urlHost origin) with | .bytes h => h | _ => origin) ∧
    (Prog.run env (newRP origin)).origin = origin := by
  unfold newRP rpId
  simp only [Prog.run_bind, Prog.run_query, Prog.run_pure]
  cases env.answer (.urlHost origin) <;> simp

/-- authentication accepts only authenticator data whose RP ID hash is SHA-256 of exactly the RP ID -/
theorem auth_rpIdHash_exact (env : Prog.Env) (rp : RP) (o : RequestOptions) (a : Assertion) (get : Bytes → GetOutcome) (cred : Credential)
    (h : (Prog.run env (verifyAuthentication rp o a get)).result = .ok cred) :
    ∃ ad rest, unmarshalAuthData a.authenticatorData = some (ad, rest) ∧ ad.rpIdHash = Spec.sha256 env rp.id := by
  obtain ⟨ad, rest, h1, h2, _⟩ := ((C01.auth_iff env rp o a get cred).1 h).authData
  exact ⟨ad, rest, h1, h2⟩

/-- registration accepts only authenticator data whose RP ID hash is SHA-256 of exactly the RP ID -/
theorem reg_rpIdHash_exact (env : Prog.Env) (rp : RP) (o : CreationOptions) (c : Attestation) (opts : List VerifyOption)
    (get : Bytes → GetOutcome) (set : Credential → SetOutcome) (cred : Credential)
    (h : (Prog.run env (verifyRegistration rp o c opts get set)).result = .ok cred) :
    ∃ ao rest ad adRest, unmarshalAttestationObject c.attestationObject = .ok ao rest ∧
      unmarshalAuthData ao.authData = some (ad, adRest) ∧ ad.rpIdHash = Spec.sha256 env rp.id := by
  obtain ⟨id, key, hpre, _⟩ := (C02.reg_iff env rp o c opts get set cred).1 h
  obtain ⟨ao, rest, ad, adRest, _, _, _, _, h1, h2, h3, _⟩ := hpre.attestation
  exact ⟨ao, rest, ad, adRest, h1, h2, h3⟩

/-- and the client-data origin of every accepted ceremony satisfies the host condition -/
theorem auth_origin_ok (env : Prog.Env) (rp : RP) (o : RequestOptions) (a : Assertion) (get : Bytes → GetOutcome) (cred : Credential)
    (h : (Prog.run env (verifyAuthentication rp o a get)).result = .ok cred) :
    ∃ cd, env.answer (.clientData a.clientDataJSON) = .clientData cd ∧ Spec.OriginOK env cd.origin rp.origin := by
  obtain ⟨cd, h1, _, _, h4⟩ := ((C01.auth_iff env rp o a get cred).1 h).clientData
  exact ⟨cd, h1, h4⟩

end WebAuthn.C13
