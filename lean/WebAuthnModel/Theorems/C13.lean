import WebAuthnModel.Theorems.C01
import WebAuthnModel.Theorems.C02
/-
  C13 — credentials are scoped to the RP host: origin and RP ID matching.
  The label walk theorems are in `Proofs/Origin.lean` (`labelWalk_iff`, `labelWalkLoop_eq`, the rejection corollaries);
  this file states the ceremony-level consequences.
  Host extraction (`url.Parse(..).Hostname()`) is the Lean model of net/url, `Url.hostOf` (`Model/Url.lean`):
  statements are about the hosts `Url.hostOf` reports; the origin decision asks the environment nothing.
-/
namespace WebAuthn.C13
open WebAuthn

/-- in both ceremonies a client-data origin is acceptable exactly when its host equals the RP host or ends with "." ++ RP host
    (and the RP host is non-empty: an origin that is empty, unparsable or host-less is never acceptable, on either side) -/
theorem origin_acceptable_iff (env : Prog.Env) (clientOrigin rpOrigin : Bytes) :
    Prog.run env (originMatches clientOrigin rpOrigin) = true ↔
      ∃ ch rh, Url.hostOf clientOrigin = some ch ∧ Url.hostOf rpOrigin = some rh ∧
        rh ≠ [] ∧ (ch = rh ∨ ∃ p : Bytes, ch = p ++ dot :: rh) :=
  C01.origin_iff env clientOrigin rpOrigin

/-- an unparsable client origin (the URL parser reports an error) is never acceptable -/
theorem unparsable_origin_rejected (env : Prog.Env) (co ro : Bytes) (h : Url.hostOf co = none) :
    Prog.run env (originMatches co ro) = false := by
  cases hr : Prog.run env (originMatches co ro) with
  | false => rfl
  | true =>
    obtain ⟨ch, _, h1, _⟩ := (origin_acceptable_iff env co ro).1 hr
    rw [h] at h1
    cases h1

/-- a host-less client origin (empty host) is never acceptable -/
theorem hostless_origin_rejected (env : Prog.Env) (co ro : Bytes) (h : Url.hostOf co = some []) :
    Prog.run env (originMatches co ro) = false := by
  cases hr : Prog.run env (originMatches co ro) with
  | false => rfl
  | true =>
    obtain ⟨ch, rh, h1, _, hne, hor⟩ := (origin_acceptable_iff env co ro).1 hr
    rw [h] at h1
    have : ch = [] := by injection h1 with h1; exact h1.symm
    subst this
    rcases hor with h2 | ⟨p, h2⟩
    · exact absurd h2.symm hne
    · cases p <;> simp at h2

/-- scheme and port are irrelevant: only what the URL parser reports as host enters the decision
    (two client origins with the same `Url.hostOf`, and two RP origins with the same `Url.hostOf`, give the same decision) -/
theorem only_hosts_matter (env : Prog.Env) (co co' ro ro' : Bytes)
    (hc : Url.hostOf co = Url.hostOf co') (hr : Url.hostOf ro = Url.hostOf ro') :
    Prog.run env (originMatches co ro) = Prog.run env (originMatches co' ro') := by
  rw [originMatches_run_eq, originMatches_run_eq, hc, hr]

/-- the relying party's RP ID is the host name of its configured origin (the origin itself when it does not parse) -/
theorem rp_id_is_host (env : Prog.Env) (origin : Bytes) :
    (Prog.run env (newRP origin)).id = (match Url.hostOf origin with | some h => h | none => origin) ∧
    (Prog.run env (newRP origin)).origin = origin := by
  unfold newRP rpId
  cases Url.hostOf origin <;> simp [Prog.run_bind, Prog.run_pure]

/-- authentication accepts only authenticator data whose RP ID hash is SHA-256 of exactly the RP ID -/
theorem auth_rpIdHash_exact (env : Prog.Env) (rp : RP) (o : RequestOptions) (a : Assertion) (get : Bytes → GetOutcome) (cred : Credential)
    (h : (Prog.run env (verifyAuthentication rp o a get)).result = .ok cred) :
    ∃ ad rest, unmarshalAuthData a.authenticatorData = some (ad, rest) ∧ ad.rpIdHash = Spec.sha256 env rp.id := by
  obtain ⟨ad, rest, h1, h2, _⟩ := ((C01.auth_iff env rp o a get cred).1 h).authData
  exact ⟨ad, rest, h1, h2⟩

/-- registration accepts only authenticator data whose RP ID hash is SHA-256 of exactly the RP ID -/
theorem reg_rpIdHash_exact (env : Prog.Env) (rp : RP) (o : CreationOptions) (c : Attestation) (opts : List VerifyOption)
    (get : Bytes → GetOutcome) (set : Credential → SetOutcome) (cred : Credential)
    (h : (Prog.run env (verifyRegistration rp o c opts get set)).result = .ok cred) :
    ∃ ao rest ad adRest, unmarshalAttestationObject c.attestationObject = .ok ao rest ∧
      unmarshalAuthData ao.authData = some (ad, adRest) ∧ ad.rpIdHash = Spec.sha256 env rp.id := by
  obtain ⟨id, key, hpre, _⟩ := (C02.reg_iff env rp o c opts get set cred).1 h
  obtain ⟨ao, rest, ad, adRest, _, _, _, _, h1, h2, h3, _⟩ := hpre.attestation
  exact ⟨ao, rest, ad, adRest, h1, h2, h3⟩

/-- and the client-data origin of every accepted ceremony satisfies the host condition -/
theorem auth_origin_ok (env : Prog.Env) (rp : RP) (o : RequestOptions) (a : Assertion) (get : Bytes → GetOutcome) (cred : Credential)
    (h : (Prog.run env (verifyAuthentication rp o a get)).result = .ok cred) :
    ∃ cd, Json.clientData a.clientDataJSON = some cd ∧ Spec.OriginOK env cd.origin rp.origin := by
  obtain ⟨cd, h1, _, _, h4⟩ := ((C01.auth_iff env rp o a get cred).1 h).clientData
  exact ⟨cd, h1, h4⟩

/-- the origin decision is independent of the environment: it is the label walk on the two hosts `Url.hostOf` reports,
    and `false` as soon as either origin does not parse -/
theorem origin_decision_is_label_walk (env : Prog.Env) (co ro : Bytes) :
    Prog.run env (originMatches co ro) =
      (match Url.hostOf co, Url.hostOf ro with
       | some ch, some rh => labelWalk ch rh
       | _, _ => false) :=
  originMatches_run_eq env co ro

end WebAuthn.C13
