import WebAuthnModel.Model.San
import WebAuthnModel.Model.Attestation
import WebAuthnModel.Proofs.SanLemmas
/-
  C17, second clause at byte level — the Subject Alternative Name walk (Model/San.lean, compared with
  tpm.GetHardwareDetailsFromCertificate on every run): what the extension value of a TPM attestation certificate decodes to.
-/
namespace WebAuthn.Theorems.C17San
open WebAuthn WebAuthn.Asn1 WebAuthn.San

/-- contents octets of the three TCG attribute OIDs (2.23.133.2.1 / .2 / .3) -/
def mfrOID : Bytes := [0x67, 0x81, 0x05, 0x02, 0x01]
def modelOID : Bytes := [0x67, 0x81, 0x05, 0x02, 0x02]
def versionOID : Bytes := [0x67, 0x81, 0x05, 0x02, 0x03]

theorem tcg_oids :
    parseOID mfrOID = some Generated.Tpm.oidTPMManufacturer ∧ parseOID modelOID = some Generated.Tpm.oidTPMPartNumber ∧
    parseOID versionOID = some Generated.Tpm.oidTPMFirmwareVersion ∧ parseOID [0x55, 0x1d, 0x11] = some Generated.Tpm.oidSAN := by
  decide +kernel

def tlv (cls : Nat) (compound : Bool) (tag : Nat) (c : Bytes) : Bytes := encTL cls compound tag c.length ++ c

/-- SEQUENCE { OBJECT IDENTIFIER oid, UTF8String v } -/
def utf8Attr (oid v : Bytes) : Bytes := tlv 0 true 16 (tlv 0 false 6 oid ++ tlv 0 false 12 v)

/-- the SAN extension value of a TPM certificate as the TCG EK credential profile writes it:
    SEQUENCE { [4] { SEQUENCE { SET { manufacturer }, SET { model }, SET { version } } } } -/
def tpmSan (m p f : Bytes) : Bytes :=
  tlv 0 true 16 (tlv 2 true 4 (tlv 0 true 16 (tlv 0 true 17 (utf8Attr mfrOID m) ++ tlv 0 true 17 (utf8Attr modelOID p) ++ tlv 0 true 17 (utf8Attr versionOID f))))

/-- such a value decodes to one directory name carrying exactly those three string attributes (valid UTF-8, short enough for the
    2³¹ length limit of the decoder) -/
theorem parseExt_tpmSan (m p f : Bytes) (hm : utf8Valid m = true) (hp : utf8Valid p = true) (hf : utf8Valid f = true)
    (hlen : m.length + p.length + f.length < 2 ^ 30) :
    parseExt (tpmSan m p f) =
      (.names [⟨2, 4, some [⟨Generated.Tpm.oidTPMManufacturer, true, m⟩, ⟨Generated.Tpm.oidTPMPartNumber, true, p⟩,
                              ⟨Generated.Tpm.oidTPMFirmwareVersion, true, f⟩]⟩], true) := by
  have hl : mfrOID.length + modelOID.length + versionOID.length + m.length + p.length + f.length + 200 < 2 ^ 31 := by
    simp only [mfrOID, modelOID, versionOID, List.length_cons, List.length_nil]; omega
  exact Proofs.SanLemmas.parseExt_san3 mfrOID modelOID versionOID m p f m p f 12 12 12 _ _ _ tcg_oids.1 tcg_oids.2.1
    tcg_oids.2.2.1 (Proofs.SanLemmas.anyValue_utf8 m hm) (Proofs.SanLemmas.anyValue_utf8 p hp)
    (Proofs.SanLemmas.anyValue_utf8 f hf) (by omega) (by omega) (by omega) hl

/-- bytes after the outer SEQUENCE make the extension unusable ("unexpected trailing data") -/
theorem parseExt_trailing (m p f : Bytes) (x : UInt8) (rest : Bytes) (hm : utf8Valid m = true) (hp : utf8Valid p = true)
    (hf : utf8Valid f = true) (hlen : m.length + p.length + f.length < 2 ^ 30) :
    (parseExt (tpmSan m p f ++ x :: rest)).1 = .bad := by
  have hl : mfrOID.length + modelOID.length + versionOID.length + m.length + p.length + f.length + 200 < 2 ^ 31 := by
    simp only [mfrOID, modelOID, versionOID, List.length_cons, List.length_nil]; omega
  exact Proofs.SanLemmas.parseExt_san3_trailing mfrOID modelOID versionOID m p f 12 12 12 x rest (by omega) (by omega)
    (by omega) hl

/-- concrete values, evaluated in the kernel: string types, a non-string manufacturer value (skipped, hence no details), class and tag of the
    general name, a PrintableString with a character outside its alphabet (an error), a BMPString -/
def ascii (s : String) : Bytes := s.toUTF8.toList

def sanWith (mfrValue : Bytes) (cls tag : Nat) : Bytes :=
  tlv 0 true 16 (tlv cls true tag (tlv 0 true 16 (tlv 0 true 17 (tlv 0 true 16 (tlv 0 false 6 mfrOID ++ mfrValue)) ++
    tlv 0 true 17 (utf8Attr modelOID (ascii "NPCT6xx")) ++ tlv 0 true 17 (utf8Attr versionOID (ascii "id:13")))))

def detailsOf (v : Bytes) : Option (Bytes × String × Bytes × Bytes) :=
  (Tpm.detailsFromSan [(parseExt v).1]).map (fun d => (d.vendorId, d.vendorName, d.partNumber, d.firmwareVersion))

/-- the BMPString case: `utf16ToUtf8` is defined by well-founded recursion, which the kernel does not evaluate; the decoded value is
    computed through `Proofs.SanLemmas.utf16ToUtf8_bmp` and the walk through `parseExt_san3` -/
theorem bmp_san :
    detailsOf (sanWith (tlv 0 false 30 [0, 0x69, 0, 0x64, 0, 0x3a, 0, 0x34, 0, 0x31, 0, 0x34, 0, 0x44, 0, 0x34, 0, 0x34, 0, 0x30, 0, 0x30]) 2 4) =
      some ([0x41, 0x4D, 0x44, 0x00], "AMD", ascii "NPCT6xx", ascii "id:13") := by
  have hu : utf16ToUtf8 (bmpUnits [0, 0x69, 0, 0x64, 0, 0x3a, 0, 0x34, 0, 0x31, 0, 0x34, 0, 0x44, 0, 0x34, 0, 0x34, 0, 0x30, 0, 0x30]) =
      ascii "id:414D4400" := by
    rw [Proofs.SanLemmas.utf16ToUtf8_bmp _ (by decide +kernel)]; decide +kernel
  have hv : anyValue ⟨0, false, 30, ([0, 0x69, 0, 0x64, 0, 0x3a, 0, 0x34, 0, 0x31, 0, 0x34, 0, 0x44, 0, 0x34, 0, 0x34, 0, 0x30, 0, 0x30] : Bytes).length⟩
      [0, 0x69, 0, 0x64, 0, 0x3a, 0, 0x34, 0, 0x31, 0, 0x34, 0, 0x44, 0, 0x34, 0, 0x34, 0, 0x30, 0, 0x30] = .str (ascii "id:414D4400") := by
    rw [← hu]
    simp [anyValue]
  have h := Proofs.SanLemmas.parseExt_san3 mfrOID modelOID versionOID _ (ascii "NPCT6xx") (ascii "id:13") _ _ _ 30 12 12 _ _ _
    tcg_oids.1 tcg_oids.2.1 tcg_oids.2.2.1 hv (Proofs.SanLemmas.anyValue_utf8 _ (by decide +kernel))
    (Proofs.SanLemmas.anyValue_utf8 _ (by decide +kernel)) (by omega) (by omega) (by omega) (by decide +kernel)
  have hs : sanWith (tlv 0 false 30 [0, 0x69, 0, 0x64, 0, 0x3a, 0, 0x34, 0, 0x31, 0, 0x34, 0, 0x44, 0, 0x34, 0, 0x34, 0, 0x30, 0, 0x30]) 2 4 =
      Proofs.SanLemmas.san3 mfrOID modelOID versionOID 30 [0, 0x69, 0, 0x64, 0, 0x3a, 0, 0x34, 0, 0x31, 0, 0x34, 0, 0x44, 0, 0x34, 0, 0x34, 0, 0x30, 0, 0x30]
        12 (ascii "NPCT6xx") 12 (ascii "id:13") := rfl
  rw [detailsOf, hs, h]
  decide +kernel

theorem concrete_sans :
    detailsOf (tpmSan (ascii "id:414D4400") (ascii "NPCT6xx") (ascii "id:13")) = some ([0x41, 0x4D, 0x44, 0x00], "AMD", ascii "NPCT6xx", ascii "id:13") ∧
    detailsOf (sanWith (tlv 0 false 19 (ascii "id:494E5443")) 2 4) = some ([0x49, 0x4E, 0x54, 0x43], "Intel", ascii "NPCT6xx", ascii "id:13") ∧
    detailsOf (sanWith (tlv 0 false 30 [0, 0x69, 0, 0x64, 0, 0x3a, 0, 0x34, 0, 0x31, 0, 0x34, 0, 0x44, 0, 0x34, 0, 0x34, 0, 0x30, 0, 0x30]) 2 4) =
      some ([0x41, 0x4D, 0x44, 0x00], "AMD", ascii "NPCT6xx", ascii "id:13") ∧
    detailsOf (sanWith (tlv 0 false 4 (ascii "id:414D4400")) 2 4) = none ∧
    detailsOf (sanWith (tlv 0 false 19 (ascii "id:414D4400_")) 2 4) = none ∧
    detailsOf (sanWith (tlv 0 false 12 (ascii "id:414D4400")) 0 4) = none ∧
    detailsOf (sanWith (tlv 0 false 12 (ascii "id:414D4400")) 2 3) = none ∧
    detailsOf (sanWith (tlv 0 false 12 (ascii "id:00000000")) 2 4) = none ∧
    detailsOf (sanWith (tlv 0 false 12 (ascii "id:414D440")) 2 4) = none := by
  refine ⟨?_, ?_, bmp_san, ?_, ?_, ?_, ?_, ?_, ?_⟩ <;> decide +kernel

end WebAuthn.Theorems.C17San
