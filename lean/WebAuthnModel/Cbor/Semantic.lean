import WebAuthnModel.Cbor.Value
import WebAuthnModel.Basic.Utf8
/-
  What `Decoder.Decode(&interface{})` of fxamacker/cbor v2.7.0 (default mode) rejects
  *after* the well-formedness scan (decode.go `parse`, `parseMap`, `validBuiltinTag`):
  invalid UTF-8 in a text-string chunk, map keys that are not usable as Go map keys,
  and wrong content kinds under the built-in tags 0–3.
-/
namespace WebAuthn.Cbor
open WebAuthn

/-- `validBuiltinTag` on the kind of the tag's immediate content. -/
def builtinTagOK (t : Nat) (content : Value) : Bool :=
  match t with
  | 0 => match content with | .text _ => true | _ => false
  | 1 => match content with | .uint _ => true | .nint _ => true | .float _ _ => true | _ => false
  | 2 => match content with | .bytes _ => true | _ => false
  | 3 => match content with | .bytes _ => true | _ => false
  | _ => true

/-- Is the Go value this item decodes to usable as a map key (`isHashableValue` + byte-string conversion)? -/
def hashableKey : Value → Bool
  | .uint _ => true
  | .nint n => n < 2 ^ 63                 -- beyond int64 it becomes a big.Int
  | .bytes _ => true                      -- converted to cbor.ByteString
  | .text _ => true
  | .array _ => false
  | .map _ => false
  | .tag t v =>
    if t = 2 ∨ t = 3 then false            -- big.Int
    else if t = 0 ∨ t = 1 then true        -- time.Time
    else hashableKey v
  | .simple _ => true
  | .float _ _ => true

/-- `hashableKey` for a key in element position: leading self-described-CBOR tags (55799) are stripped
    first (`parse(true)`). -/
def hashableKeyS : Value → Bool
  | .tag t v => if t = 55799 then hashableKeyS v else hashableKey (.tag t v)
  | v => hashableKey v

mutual
/-- The generic decode accepts the (well-formed) item. -/
def acceptable : Value → Bool
  | .uint _ => true
  | .nint _ => true
  | .bytes _ => true
  | .text cs => cs.all utf8Valid
  | .array xs => acceptableElems xs
  | .map kvs => acceptablePairs kvs
  | .tag t v => builtinTagOK t v && acceptable v
  | .simple _ => true
  | .float _ _ => true
/-- Same, for an item in element position (array element, map key or value): leading 55799 tags are stripped. -/
def acceptableS : Value → Bool
  | .tag t v => if t = 55799 then acceptableS v else builtinTagOK t v && acceptable v
  | .uint _ => true
  | .nint _ => true
  | .bytes _ => true
  | .text cs => cs.all utf8Valid
  | .array xs => acceptableElems xs
  | .map kvs => acceptablePairs kvs
  | .simple _ => true
  | .float _ _ => true
def acceptableElems : List Value → Bool
  | [] => true
  | x :: xs => acceptableS x && acceptableElems xs
def acceptablePairs : List Value → Bool
  | [] => true
  | [_] => true
  | k :: v :: rest => acceptableS k && hashableKeyS k && acceptableS v && acceptablePairs rest
end

mutual
/-- Everything the model reproduces exactly. Tags 0 and 1 trigger time parsing in the library,
    which the model does not reproduce; the driver reports such items as `unmodelled`. -/
def modelled : Value → Bool
  | .array xs => modelledList xs
  | .map kvs => modelledList kvs
  | .tag t v => t ≠ 0 && t ≠ 1 && modelled v
  | _ => true
def modelledList : List Value → Bool
  | [] => true
  | x :: xs => modelled x && modelledList xs
end

mutual
/-- no tag anywhere in the item -/
def tagFree : Value → Bool
  | .array xs => tagFreeList xs
  | .map kvs => tagFreeList kvs
  | .tag _ _ => false
  | _ => true
def tagFreeList : List Value → Bool
  | [] => true
  | x :: xs => tagFree x && tagFreeList xs
end

end WebAuthn.Cbor
