import WebAuthnModel.Cbor.Semantic
/-
  fxamacker/cbor v2.7.0 decoding of a CBOR map into a Go struct whose fields carry `keyasint` tags
  (`parseMapToStruct`, `parseToValue`), restricted to the member kinds the repository uses:
  uint8-kinded, int-kinded and []byte members.  DESIGN.md Appendix D is the measured matrix.
-/
namespace WebAuthn.Cbor
open WebAuthn

inductive FieldKind where
  | uint8 | int | bytes
  deriving Repr, DecidableEq

inductive FieldVal where
  | int (i : Int)
  | bytes (b : Bytes)
  deriving Repr, DecidableEq

/-- outcome of decoding one member value -/
inductive FieldRes where
  | set (v : FieldVal)     -- member assigned
  | keep                   -- accepted, member left at its zero value (CBOR null / undefined)
  | err                    -- type error (remembered; decoding continues)
  | unmodelled             -- tags, bignums, unassigned simple values: not reproduced by the model
  deriving Repr, DecidableEq

def smallBytes : List Value → Option Bytes
  | [] => some []
  | .uint n :: rest =>
    if n ≤ 255 then (smallBytes rest).map (fun r => UInt8.ofNat n :: r) else none
  | _ => none

def decodeField (k : FieldKind) (v : Value) : FieldRes :=
  match v with
  | .uint n =>
    match k with
    | .uint8 => if n ≤ 255 then .set (.int n) else .err
    | .int => if n < 2 ^ 63 then .set (.int n) else .err
    | .bytes => .err
  | .nint n =>
    match k with
    | .uint8 => .err
    | .int => if n < 2 ^ 63 then .set (.int (-1 - (n : Int))) else .err
    | .bytes => .err
  | .bytes b =>
    match k with
    | .bytes => .set (.bytes b)
    | _ => .err
  | .text _ => .err
  | .array xs =>
    match k with
    | .bytes =>
      match smallBytes xs with
      | some b => .set (.bytes b)
      | none => if xs.all (fun x => match x with | .uint _ => true | _ => false) then .err else .unmodelled
    | _ => .err
  | .map _ => .err
  | .tag _ _ => .unmodelled
  | .simple n =>
    if n = 22 ∨ n = 23 then .keep
    else if n = 20 ∨ n = 21 then .err
    else .unmodelled
  | .float _ _ => .err

/-- the Go `int64` a map key of integer kind is compared with (`int64(val)` wraps for unsigned keys ≥ 2^63). -/
def intKey : Value → Option Int
  | .uint n => some (if n < 2 ^ 63 then (n : Int) else (n : Int) - 2 ^ 64)
  | .nint n => if n < 2 ^ 63 then some (-1 - (n : Int)) else none
  | _ => none

/-- decimal rendering of a schema key, which is the member's *name* for `keyasint` members. -/
def keyName (k : Int) : Bytes := Bytes.ofString (toString k)

structure StructState where
  vals : List (Int × FieldVal) := []      -- members assigned so far
  found : List Int := []                  -- members matched so far (first match wins, later ones are discarded)
  err : Bool := false
  unmodelled : Bool := false
  deriving Repr

def schemaKind (schema : List (Int × FieldKind)) (k : Int) : Option FieldKind :=
  (schema.find? (fun e => e.1 == k)).map (·.2)

/-- one map entry -/
def structEntry (schema : List (Int × FieldKind)) (st : StructState) (key val : Value) : StructState :=
  let matched : Option (Option Int) :=   -- none: key kind unusable (error); some none: no member; some (some k): member k
    match key with
    | .uint _ | .nint _ =>
      match intKey key with
      | some i => some (if (schemaKind schema i).isSome then some i else none)
      | none => none
    | .text cs =>
      if cs.all utf8Valid then
        let name := cs.flatten
        some ((schema.find? (fun e => keyName e.1 == name)).map (·.1))
      else none
    | _ => none
  match matched with
  | none => { st with err := true }
  | some none => st
  | some (some k) =>
    if st.found.contains k then st
    else
      let st := { st with found := k :: st.found }
      match schemaKind schema k with
      | none => st
      | some kind =>
        match decodeField kind val with
        | .set v => { st with vals := (k, v) :: st.vals }
        | .keep => st
        | .err => { st with err := true }
        | .unmodelled => { st with unmodelled := true }

def structEntries (schema : List (Int × FieldKind)) (st : StructState) : List Value → StructState
  | k :: v :: rest => structEntries schema (structEntry schema st k v) rest
  | _ => st

inductive StructRes where
  | ok (vals : List (Int × FieldVal))
  | err
  | unmodelled
  deriving Repr

/-- Decode a (well-formed) item into a struct with the given `keyasint` schema. -/
def decodeStruct (schema : List (Int × FieldKind)) (v : Value) : StructRes :=
  match v with
  | .map kvs =>
    let st := structEntries schema {} kvs
    if st.unmodelled then .unmodelled else if st.err then .err else .ok st.vals
  | .simple n => if n = 22 ∨ n = 23 then .ok [] else .err
  | .tag _ _ => .unmodelled
  | _ => .err

def getInt (vals : List (Int × FieldVal)) (k : Int) : Int :=
  match vals.find? (fun e => e.1 == k) with
  | some (_, .int i) => i
  | _ => 0

def getBytes (vals : List (Int × FieldVal)) (k : Int) : Bytes :=
  match vals.find? (fun e => e.1 == k) with
  | some (_, .bytes b) => b
  | _ => []

end WebAuthn.Cbor
