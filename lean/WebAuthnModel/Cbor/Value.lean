import WebAuthnModel.Basic.Bytes
/-
  CBOR data items as decoded by fxamacker/cbor v2.7.0 in its default decoding mode
  (the mode pomerium/webauthn uses everywhere): RFC 8949 well-formedness plus the
  library's limits (nesting 32, 131072 array elements / map pairs).

  `Cbor.item fuel depth b` mirrors `decoder.wellformedInternal` (valid.go) but also
  builds the value tree, so that one function serves as scanner and decoder.
-/
namespace WebAuthn.Cbor
open WebAuthn

inductive Value where
  | uint (n : Nat)
  | nint (n : Nat)                 -- the integer -1 - n
  | bytes (b : Bytes)              -- definite, or concatenation of indefinite chunks
  | text (chunks : List Bytes)     -- one chunk when definite (UTF-8 is checked per chunk by the library)
  | array (xs : List Value)
  | map (kvs : List Value)         -- flat: k₀, v₀, k₁, v₁, …  (even length by construction)
  | tag (t : Nat) (v : Value)
  | simple (n : Nat)               -- 0..19, 20 false, 21 true, 22 null, 23 undefined, 32..255
  | float (width : Nat) (bits : Nat)
  deriving Repr, Inhabited

structure Head where
  major : Nat
  ai : Nat
  val : Nat
  deriving Repr, DecidableEq

def maxNested : Nat := 32
def maxElems : Nat := 131072

/-- `decoder.wellformedHead`. -/
def head : Bytes → Option (Head × Bytes)
  | [] => none
  | x :: rest =>
    let major := x.toNat / 32
    let ai := x.toNat % 32
    if ai < 24 then some (⟨major, ai, ai⟩, rest)
    else if ai = 24 then
      match rest with
      | a :: r => if major = 7 ∧ a.toNat < 32 then none else some (⟨major, ai, a.toNat⟩, r)
      | _ => none
    else if ai = 25 then
      match rest with
      | a :: b :: r => some (⟨major, ai, Bytes.beNat [a, b]⟩, r)
      | _ => none
    else if ai = 26 then
      match rest with
      | a :: b :: c :: d :: r => some (⟨major, ai, Bytes.beNat [a, b, c, d]⟩, r)
      | _ => none
    else if ai = 27 then
      match rest with
      | a :: b :: c :: d :: e :: f :: g :: h :: r =>
        some (⟨major, ai, Bytes.beNat [a, b, c, d, e, f, g, h]⟩, r)
      | _ => none
    else if ai = 31 then
      if major = 0 ∨ major = 1 ∨ major = 6 ∨ major = 7 then none else some (⟨major, ai, ai⟩, rest)
    else none

/-- Split off exactly `n` bytes. -/
def takeExact (n : Nat) (b : Bytes) : Option (Bytes × Bytes) :=
  if n ≤ b.length then some (b.take n, b.drop n) else none

def isBreak (x : UInt8) : Bool := x = 0xff

mutual
/-- One data item at nesting level `depth`; returns the value and the unconsumed rest. -/
def item : (fuel : Nat) → (depth : Nat) → Bytes → Option (Value × Bytes)
  | 0, _, _ => none
  | f + 1, depth, b =>
    match head b with
    | none => none
    | some (h, rest) =>
      if h.major = 0 then some (.uint h.val, rest)
      else if h.major = 1 then some (.nint h.val, rest)
      else if h.major = 2 then
        if h.ai = 31 then
          match chunks f 2 rest with
          | some (cs, r) => some (.bytes cs.flatten, r)
          | none => none
        else match takeExact h.val rest with
          | some (s, r) => some (.bytes s, r)
          | none => none
      else if h.major = 3 then
        if h.ai = 31 then
          match chunks f 3 rest with
          | some (cs, r) => some (.text cs, r)
          | none => none
        else match takeExact h.val rest with
          | some (s, r) => some (.text [s], r)
          | none => none
      else if h.major = 4 then
        if depth + 1 > maxNested then none
        else if h.ai = 31 then
          match untilBreak f (depth + 1) false 0 rest with
          | some (vs, r) => some (.array vs, r)
          | none => none
        else if h.val > maxElems then none
        else match items f (depth + 1) h.val rest with
          | some (vs, r) => some (.array vs, r)
          | none => none
      else if h.major = 5 then
        if depth + 1 > maxNested then none
        else if h.ai = 31 then
          match untilBreak f (depth + 1) true 0 rest with
          | some (vs, r) => some (.map vs, r)
          | none => none
        else if h.val > maxElems then none
        else match items f (depth + 1) (2 * h.val) rest with
          | some (vs, r) => some (.map vs, r)
          | none => none
      else if h.major = 6 then
        match rest with
        | [] => none
        | x :: _ =>
          -- a tag directly followed by another tag costs one nesting level
          let depth' := if x.toNat / 32 = 6 then depth + 1 else depth
          if depth' > maxNested then none
          else match item f depth' rest with
            | some (v, r) => some (.tag h.val v, r)
            | none => none
      else
        -- major 7
        if h.ai < 24 then some (.simple h.val, rest)
        else if h.ai = 24 then some (.simple h.val, rest)
        else if h.ai = 25 then some (.float 2 h.val, rest)
        else if h.ai = 26 then some (.float 4 h.val, rest)
        else some (.float 8 h.val, rest)

/-- Exactly `n` items in sequence. -/
def items : (fuel : Nat) → (depth : Nat) → (n : Nat) → Bytes → Option (List Value × Bytes)
  | 0, _, _, _ => none
  | _ + 1, _, 0, b => some ([], b)
  | f + 1, depth, n + 1, b =>
    match item f depth b with
    | none => none
    | some (v, r) =>
      match items f depth n r with
      | none => none
      | some (vs, r') => some (v :: vs, r')

/-- Items until the "break" byte of an indefinite-length array (`isMap = false`) or map. `i` counts the items seen. -/
def untilBreak : (fuel : Nat) → (depth : Nat) → (isMap : Bool) → (i : Nat) → Bytes → Option (List Value × Bytes)
  | 0, _, _, _, _ => none
  | _ + 1, _, _, _, [] => none
  | f + 1, depth, isMap, i, x :: rest =>
    if isBreak x then
      if isMap ∧ i % 2 = 1 then none else some ([], rest)
    else
      match item f depth (x :: rest) with
      | none => none
      | some (v, r) =>
        if (!isMap ∧ i + 1 > maxElems) ∨ (isMap ∧ (i + 1) % 2 = 0 ∧ (i + 1) / 2 > maxElems) then none
        else match untilBreak f depth isMap (i + 1) r with
          | none => none
          | some (vs, r') => some (v :: vs, r')

/-- Definite-length chunks of major type `major` until "break" (`wellformedIndefiniteString`). -/
def chunks : (fuel : Nat) → (major : Nat) → Bytes → Option (List Bytes × Bytes)
  | 0, _, _ => none
  | _ + 1, _, [] => none
  | f + 1, major, x :: rest =>
    if isBreak x then some ([], rest)
    else if x.toNat / 32 ≠ major then none
    else if x.toNat % 32 = 31 then none
    else match head (x :: rest) with
      | none => none
      | some (h, r) =>
        match takeExact h.val r with
        | none => none
        | some (s, r') =>
          match chunks f major r' with
          | none => none
          | some (cs, r'') => some (s :: cs, r'')
end

/-- Fuel that is enough for every input of this length (proved in `Proofs/CborFuel`). -/
def fuelFor (b : Bytes) : Nat := 2 * b.length + 2

/-- Decode one item from the front of `b`. -/
def decode (b : Bytes) : Option (Value × Bytes) := item (fuelFor b) 0 b

end WebAuthn.Cbor
