import WebAuthnModel.Cbor.Semantic
/-
  Decoding of the attestation object (`cbor` into `webauthn.AttestationObject`): three members matched by
  their (json-tag) names `fmt`, `authData`, `attStmt` — exact match, else ASCII case-insensitive match of equal
  byte length; first match wins; unknown keys skipped; keys that are neither text nor integer are an error —
  and of the attestation statement `map[string]interface{}` (text keys only, later duplicates win, values decoded
  generically).
-/
namespace WebAuthn.Cbor
open WebAuthn

def asciiLower (c : UInt8) : UInt8 := if 65 ≤ c.toNat ∧ c.toNat ≤ 90 then c + 32 else c

def foldEq (a b : Bytes) : Bool := a.map asciiLower == b.map asciiLower

inductive AttField where
  | fmt | authData | attStmt
  deriving Repr, DecidableEq

def attFieldName : AttField → Bytes
  | .fmt => Bytes.ofString "fmt"
  | .authData => Bytes.ofString "authData"
  | .attStmt => Bytes.ofString "attStmt"

def matchAttField (name : Bytes) : Option AttField :=
  if foldEq name (attFieldName .fmt) then some .fmt
  else if foldEq name (attFieldName .authData) then some .authData
  else if foldEq name (attFieldName .attStmt) then some .attStmt
  else none

structure AttObjRaw where
  fmt : Bytes := []
  authData : Bytes := []
  stmt : List (Bytes × Value) := []     -- attStmt entries, first = latest; lookups take the first hit (later duplicates win)
  found : List AttField := []
  err : Bool := false
  unmodelled : Bool := false
  deriving Repr

def smallBytes' : List Value → Option Bytes
  | [] => some []
  | .uint n :: rest => if n ≤ 255 then (smallBytes' rest).map (fun r => UInt8.ofNat n :: r) else none
  | _ => none

/-- entries of a `map[string]interface{}`: `none` = a key is not a (valid) text string or a value is not acceptable.
    fxamacker/cbor v2.7.0 decodes a `null` / `undefined` KEY as "leave the key variable as it is": the entry is stored under the
    previous entry's key (the empty string for the first entry), overwriting it (measured; DESIGN.md Appendix D). -/
def stmtEntriesFrom (prev : Bytes) : List Value → Option (List (Bytes × Value))
  | k :: v :: rest =>
    let key : Option Bytes :=
      match k with
      | .text cs => if cs.all utf8Valid then some cs.flatten else none
      | .simple n => if n = 22 ∨ n = 23 then some prev else none
      | _ => none
    match key with
    | some kb => if acceptableS v then (stmtEntriesFrom kb rest).map (fun r => r ++ [(kb, v)]) else none
    | none => none
  | _ => some []

def stmtEntries (kvs : List Value) : Option (List (Bytes × Value)) := stmtEntriesFrom [] kvs

def stmtModelled : List Value → Bool
  | k :: v :: rest => (match k with | .tag _ _ => false | _ => true) && tagFree v && stmtModelled rest
  | _ => true

def attEntry (st : AttObjRaw) (key val : Value) : AttObjRaw :=
  match key with
  | .text cs =>
    if !cs.all utf8Valid then { st with err := true } else
    match matchAttField cs.flatten with
    | none => st
    | some f =>
      if st.found.contains f then st else
      let st := { st with found := f :: st.found }
      match f with
      | .fmt =>
        match val with
        | .text vs => if vs.all utf8Valid then { st with fmt := vs.flatten } else { st with err := true }
        | .simple n => if n = 22 ∨ n = 23 then st else if n = 20 ∨ n = 21 then { st with err := true } else { st with unmodelled := true }
        | .tag _ _ => { st with unmodelled := true }
        | _ => { st with err := true }
      | .authData =>
        match val with
        | .bytes b => { st with authData := b }
        | .array xs =>
          match smallBytes' xs with
          | some b => { st with authData := b }
          | none => if xs.all (fun x => match x with | .uint _ => true | _ => false) then { st with err := true } else { st with unmodelled := true }
        | .simple n => if n = 22 ∨ n = 23 then st else if n = 20 ∨ n = 21 then { st with err := true } else { st with unmodelled := true }
        | .tag _ _ => { st with unmodelled := true }
        | _ => { st with err := true }
      | .attStmt =>
        match val with
        | .map kvs =>
          if !stmtModelled kvs then { st with unmodelled := true } else
          match stmtEntries kvs with
          | some es => { st with stmt := es }
          | none => { st with err := true }
        | .simple n => if n = 22 ∨ n = 23 then st else if n = 20 ∨ n = 21 then { st with err := true } else { st with unmodelled := true }
        | .tag _ _ => { st with unmodelled := true }
        | _ => { st with err := true }
  | .uint _ => st
  | .nint n => if n < 2 ^ 63 then st else { st with err := true }
  | _ => { st with err := true }

def attEntries (st : AttObjRaw) : List Value → AttObjRaw
  | k :: v :: rest => attEntries (attEntry st k v) rest
  | _ => st

inductive AttObjRes where
  | ok (fmt authData : Bytes) (stmt : List (Bytes × Value))
  | err
  | unmodelled
  deriving Repr

def decodeAttObj (v : Value) : AttObjRes :=
  match v with
  | .map kvs =>
    let st := attEntries {} kvs
    if st.unmodelled then .unmodelled else if st.err then .err else .ok st.fmt st.authData st.stmt
  | .simple n => if n = 22 ∨ n = 23 then .ok [] [] [] else .err
  | .tag _ _ => .unmodelled
  | _ => .err

/-! accessors on the decoded statement, mirroring the Go type assertions on `interface{}` values -/

def stmtGet (stmt : List (Bytes × Value)) (name : String) : Option Value :=
  (stmt.find? (fun e => e.1 == Bytes.ofString name)).map (·.2)

/-- `v.(int64)`: only CBOR negative integers that fit decode to int64 (unsigned ones decode to uint64) -/
def asInt64 : Value → Option Int
  | .nint n => if n < 2 ^ 63 then some (-1 - (n : Int)) else none
  | _ => none

/-- `v.([]byte)` -/
def asBytes : Value → Option Bytes
  | .bytes b => some b
  | _ => none

/-- `v.([]interface{})` -/
def asArray : Value → Option (List Value)
  | .array xs => some xs
  | _ => none

end WebAuthn.Cbor
