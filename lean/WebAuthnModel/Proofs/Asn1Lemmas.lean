import WebAuthnModel.Spec.Asn1
import WebAuthnModel.Proofs.BytesLemmas
/-
  Helper lemmas for Theorems/C17Asn1.lean: the model of Go's `encoding/asn1` (Model/Asn1.lean) and its Keymaster
  instance (Model/KeyDesc.lean).  Core Lean only (`simp`, `omega`, `decide`, `rfl`).
-/
set_option linter.unusedSimpArgs false
namespace WebAuthn.Proofs.Asn1Lemmas

/-! ## base-128 tag numbers, DER length octets, and `parseTL` split into its tag and length parts -/
section PartA
open WebAuthn WebAuthn.Asn1

theorem u8_toNat_ofNat (n : Nat) : (UInt8.ofNat n).toNat = n % 256 := by
  rw [UInt8.toNat_ofNat']

theorem u8_ofNat_eq (x : UInt8) (m : Nat) (h : m % 256 = x.toNat) : UInt8.ofNat m = x := by
  apply UInt8.toNat_inj.mp
  rw [u8_toNat_ofNat, h]

theorem u8_eq_iff (x y : UInt8) : x = y ↔ x.toNat = y.toNat := UInt8.toNat_inj.symm

theorem u8_lt (x : UInt8) : x.toNat < 256 := x.toNat_lt

theorem encBase128_1 (n : Nat) (h : n < 128) : encBase128 n = [UInt8.ofNat n] := by
  simp [encBase128, base128Digits, h]

theorem encBase128_2 (n : Nat) (h1 : 128 ≤ n) (h : n < 128^2) :
    encBase128 n = [UInt8.ofNat (128 + n / 128), UInt8.ofNat (n % 128)] := by
  have a : ¬ n < 128 := by omega
  have b : n / 128 < 128 := by omega
  simp [encBase128, base128Digits, a, b]

theorem encBase128_3 (n : Nat) (h1 : 128^2 ≤ n) (h : n < 128^3) :
    encBase128 n = [UInt8.ofNat (128 + n / 128 / 128), UInt8.ofNat (128 + n / 128 % 128), UInt8.ofNat (n % 128)] := by
  have a : ¬ n < 128 := by omega
  have b : ¬ n / 128 < 128 := by omega
  have c : n / 128 / 128 < 128 := by omega
  simp [encBase128, base128Digits, a, b, c]

theorem encBase128_4 (n : Nat) (h1 : 128^3 ≤ n) (h : n < 128^4) :
    encBase128 n = [UInt8.ofNat (128 + n / 128 / 128 / 128), UInt8.ofNat (128 + n / 128 / 128 % 128),
      UInt8.ofNat (128 + n / 128 % 128), UInt8.ofNat (n % 128)] := by
  have a : ¬ n < 128 := by omega
  have b : ¬ n / 128 < 128 := by omega
  have c : ¬ n / 128 / 128 < 128 := by omega
  have d : n / 128 / 128 / 128 < 128 := by omega
  simp [encBase128, base128Digits, a, b, c, d]

theorem encBase128_5 (n : Nat) (h1 : 128^4 ≤ n) (h : n < 128^5) :
    encBase128 n = [UInt8.ofNat (128 + n / 128 / 128 / 128 / 128), UInt8.ofNat (128 + n / 128 / 128 / 128 % 128),
      UInt8.ofNat (128 + n / 128 / 128 % 128), UInt8.ofNat (128 + n / 128 % 128), UInt8.ofNat (n % 128)] := by
  have a : ¬ n < 128 := by omega
  have b : ¬ n / 128 < 128 := by omega
  have c : ¬ n / 128 / 128 < 128 := by omega
  have d : ¬ n / 128 / 128 / 128 < 128 := by omega
  have e : n / 128 / 128 / 128 / 128 < 128 := by omega
  simp [encBase128, base128Digits, a, b, c, d, e]

/-- encoder then parser -/
theorem base128_encBase128 (n : Nat) (rest : Bytes) (h : n < 2 ^ 31) :
    base128 0 0 (encBase128 n ++ rest) = some (n, rest) := by
  by_cases h1 : n < 128
  · rw [encBase128_1 n h1]
    simp [base128, u8_eq_iff]
    refine ⟨by omega, ?_⟩
    simp (disch := omega) only [if_pos, if_neg]
    simp; omega
  by_cases h2 : n < 128^2
  · rw [encBase128_2 n (by omega) h2]
    simp [base128, u8_eq_iff]
    refine ⟨by omega, ?_⟩
    simp (disch := omega) only [if_pos, if_neg]
    simp; omega
  by_cases h3 : n < 128^3
  · rw [encBase128_3 n (by omega) h3]
    simp [base128, u8_eq_iff]
    refine ⟨by omega, ?_⟩
    simp (disch := omega) only [if_pos, if_neg]
    simp; omega
  by_cases h4 : n < 128^4
  · rw [encBase128_4 n (by omega) h4]
    simp [base128, u8_eq_iff]
    refine ⟨by omega, ?_⟩
    simp (disch := omega) only [if_pos, if_neg]
    simp; omega
  · rw [encBase128_5 n (by omega) (by omega)]
    simp [base128, u8_eq_iff]
    refine ⟨by omega, ?_⟩
    simp (disch := omega) only [if_pos, if_neg]
    simp; omega


theorem base128_five (acc : Nat) (b : Bytes) : base128 5 acc b = none := by
  cases b <;> simp [base128]

theorem leaf1 (t : Nat) (b1 : UInt8) (ht : b1.toNat % 128 = t) (h1 : b1.toNat < 128) :
    encBase128 t = [b1] := by
  rw [encBase128_1 t (by omega)]
  simp only [List.cons.injEq, and_true]
  exact u8_ofNat_eq _ _ (by omega)

theorem leaf2 (t : Nat) (b1 b2 : UInt8) (ht : b1.toNat % 128 * 128 + b2.toNat % 128 = t)
    (hne : b1.toNat ≠ 128) (h1 : 128 ≤ b1.toNat) (h2 : b2.toNat < 128) :
    encBase128 t = [b1, b2] := by
  have q1 := u8_lt b1
  rw [encBase128_2 t (by omega) (by omega)]
  simp only [List.cons.injEq, and_true]
  exact ⟨u8_ofNat_eq _ _ (by omega), u8_ofNat_eq _ _ (by omega)⟩

theorem leaf3 (t : Nat) (b1 b2 b3 : UInt8)
    (ht : (b1.toNat % 128 * 128 + b2.toNat % 128) * 128 + b3.toNat % 128 = t)
    (hne : b1.toNat ≠ 128) (h1 : 128 ≤ b1.toNat) (h2 : 128 ≤ b2.toNat) (h3 : b3.toNat < 128) :
    encBase128 t = [b1, b2, b3] := by
  have q1 := u8_lt b1
  have q2 := u8_lt b2
  rw [encBase128_3 t (by omega) (by omega)]
  simp only [List.cons.injEq, and_true]
  exact ⟨u8_ofNat_eq _ _ (by omega), u8_ofNat_eq _ _ (by omega), u8_ofNat_eq _ _ (by omega)⟩

theorem leaf4 (t : Nat) (b1 b2 b3 b4 : UInt8)
    (ht : ((b1.toNat % 128 * 128 + b2.toNat % 128) * 128 + b3.toNat % 128) * 128 + b4.toNat % 128 = t)
    (hne : b1.toNat ≠ 128) (h1 : 128 ≤ b1.toNat) (h2 : 128 ≤ b2.toNat) (h3 : 128 ≤ b3.toNat) (h4 : b4.toNat < 128) :
    encBase128 t = [b1, b2, b3, b4] := by
  have q1 := u8_lt b1
  have q2 := u8_lt b2
  have q3 := u8_lt b3
  rw [encBase128_4 t (by omega) (by omega)]
  simp only [List.cons.injEq, and_true]
  exact ⟨u8_ofNat_eq _ _ (by omega), u8_ofNat_eq _ _ (by omega), u8_ofNat_eq _ _ (by omega),
    u8_ofNat_eq _ _ (by omega)⟩

theorem leaf5 (t : Nat) (b1 b2 b3 b4 b5 : UInt8)
    (ht : (((b1.toNat % 128 * 128 + b2.toNat % 128) * 128 + b3.toNat % 128) * 128 + b4.toNat % 128) * 128 +
      b5.toNat % 128 = t)
    (hne : b1.toNat ≠ 128) (h1 : 128 ≤ b1.toNat) (h2 : 128 ≤ b2.toNat) (h3 : 128 ≤ b3.toNat) (h4 : 128 ≤ b4.toNat)
    (h5 : b5.toNat < 128) (hmax : t ≤ 2147483647) :
    encBase128 t = [b1, b2, b3, b4, b5] := by
  have q1 := u8_lt b1
  have q2 := u8_lt b2
  have q3 := u8_lt b3
  have q4 := u8_lt b4
  rw [encBase128_5 t (by omega) (by omega)]
  simp only [List.cons.injEq, and_true]
  exact ⟨u8_ofNat_eq _ _ (by omega), u8_ofNat_eq _ _ (by omega), u8_ofNat_eq _ _ (by omega),
    u8_ofNat_eq _ _ (by omega), u8_ofNat_eq _ _ (by omega)⟩

theorem base128_canonical (b r : Bytes) (t : Nat) (h : base128 0 0 b = some (t, r)) :
    b = encBase128 t ++ r ∧ t < 2 ^ 31 := by
  rcases b with _ | ⟨b1, _ | ⟨b2, _ | ⟨b3, _ | ⟨b4, _ | ⟨b5, b⟩⟩⟩⟩⟩ <;> simp [base128, u8_eq_iff] at h
  all_goals obtain ⟨hne, h⟩ := h
  · obtain ⟨h1, -, ht, rfl⟩ := h
    exact ⟨by rw [leaf1 t b1 ht h1]; rfl, by omega⟩
  all_goals repeat' (split at h)
  all_goals (first | (exfalso; simp [base128_five] at h; done) | skip)
  all_goals (simp at h; obtain ⟨ht, rfl⟩ := h)
  all_goals first
    | exact ⟨by rw [leaf1 t b1 ht (by omega)]; rfl, by omega⟩
    | exact ⟨by rw [leaf2 t b1 b2 ht hne (by omega) (by omega)]; rfl, by omega⟩
    | exact ⟨by rw [leaf3 t b1 b2 b3 ht hne (by omega) (by omega) (by omega)]; rfl, by omega⟩
    | exact ⟨by rw [leaf4 t b1 b2 b3 b4 ht hne (by omega) (by omega) (by omega) (by omega)]; rfl, by omega⟩
    | exact ⟨by rw [leaf5 t b1 b2 b3 b4 b5 ht hne (by omega) (by omega) (by omega) (by omega) (by omega) (by omega)]; rfl, by omega⟩
theorem natBytes_1 (n : Nat) (h0 : 1 ≤ n) (h : n < 256) : natBytes n = [UInt8.ofNat (n % 256)] := by
  simp [natBytes, Bytes.ofNatBE, Bytes.stripZeros, u8_eq_iff]
  simp (disch := omega) only [if_pos, if_neg]

theorem natBytes_2 (n : Nat) (h0 : 256 ≤ n) (h : n < 65536) :
    natBytes n = [UInt8.ofNat (n / 256 % 256), UInt8.ofNat (n % 256)] := by
  simp [natBytes, Bytes.ofNatBE, Bytes.stripZeros, u8_eq_iff]
  simp (disch := omega) only [if_pos, if_neg]

theorem natBytes_3 (n : Nat) (h0 : 65536 ≤ n) (h : n < 16777216) :
    natBytes n = [UInt8.ofNat (n / 65536 % 256), UInt8.ofNat (n / 256 % 256), UInt8.ofNat (n % 256)] := by
  simp [natBytes, Bytes.ofNatBE, Bytes.stripZeros, u8_eq_iff]
  simp (disch := omega) only [if_pos, if_neg]

theorem natBytes_4 (n : Nat) (h0 : 16777216 ≤ n) (h : n < 4294967296) :
    natBytes n = [UInt8.ofNat (n / 16777216 % 256), UInt8.ofNat (n / 65536 % 256), UInt8.ofNat (n / 256 % 256),
      UInt8.ofNat (n % 256)] := by
  simp [natBytes, Bytes.ofNatBE, Bytes.stripZeros, u8_eq_iff]
  simp (disch := omega) only [if_pos, if_neg]

theorem length_stripZeros_le (b : Bytes) : (Bytes.stripZeros b).length ≤ b.length := by
  induction b with
  | nil => simp [Bytes.stripZeros]
  | cons x xs ih => simp only [Bytes.stripZeros]; split <;> simp <;> omega

theorem natBytes_length_le (n : Nat) : (natBytes n).length ≤ 8 := by
  have := length_stripZeros_le (Bytes.ofNatBE 8 n)
  simpa [natBytes] using this

/-- the long-form length octets, parsed back -/
theorem lengthBytes_natBytes (n : Nat) (rest : Bytes) (h0 : 128 ≤ n) (h : n < 2 ^ 31) :
    lengthBytes (natBytes n).length 0 (natBytes n ++ rest) = some (n, rest) := by
  by_cases h1 : n < 256
  · rw [natBytes_1 n (by omega) h1]
    simp [lengthBytes]
    omega
  by_cases h2 : n < 65536
  · rw [natBytes_2 n (by omega) h2]
    simp [lengthBytes]
    omega
  by_cases h3 : n < 16777216
  · rw [natBytes_3 n (by omega) h3]
    simp [lengthBytes]
    omega
  · rw [natBytes_4 n (by omega) (by omega)]
    simp [lengthBytes]
    omega

theorem lengthBytes_big (n acc : Nat) (rest : Bytes) (h : 2 ^ 23 ≤ acc) : lengthBytes (n + 1) acc rest = none := by
  cases rest <;> simp [lengthBytes]; omega

theorem lengthBytes_canonical (n : Nat) (b r : Bytes) (len : Nat) (hn : n ≠ 0)
    (h : lengthBytes n 0 b = some (len, r)) (hl : 128 ≤ len) :
    b = natBytes len ++ r ∧ (natBytes len).length = n ∧ len < 2 ^ 31 := by
  rcases n with _ | _ | _ | _ | _ | n
  · omega
  · rcases b with _ | ⟨b1, b⟩ <;> simp [lengthBytes] at h
    obtain ⟨h1, ht, rfl⟩ := h
    have q1 := u8_lt b1
    rw [natBytes_1 len (by omega) (by omega)]
    refine ⟨?_, rfl, by omega⟩
    simp only [List.cons_append, List.nil_append, List.cons.injEq, and_true]
    exact (u8_ofNat_eq _ _ (by omega)).symm
  · rcases b with _ | ⟨b1, _ | ⟨b2, b⟩⟩ <;> simp [lengthBytes] at h
    obtain ⟨h1, -, -, ht, rfl⟩ := h
    have q1 := u8_lt b1
    have q2 := u8_lt b2
    rw [natBytes_2 len (by omega) (by omega)]
    refine ⟨?_, rfl, by omega⟩
    simp only [List.cons_append, List.nil_append, List.cons.injEq, and_true]
    exact ⟨(u8_ofNat_eq _ _ (by omega)).symm, (u8_ofNat_eq _ _ (by omega)).symm⟩
  · rcases b with _ | ⟨b1, _ | ⟨b2, _ | ⟨b3, b⟩⟩⟩ <;> simp [lengthBytes] at h
    obtain ⟨h1, -, -, -, -, ht, rfl⟩ := h
    have q1 := u8_lt b1
    have q2 := u8_lt b2
    have q3 := u8_lt b3
    rw [natBytes_3 len (by omega) (by omega)]
    refine ⟨?_, rfl, by omega⟩
    simp only [List.cons_append, List.nil_append, List.cons.injEq, and_true]
    exact ⟨(u8_ofNat_eq _ _ (by omega)).symm, (u8_ofNat_eq _ _ (by omega)).symm,
      (u8_ofNat_eq _ _ (by omega)).symm⟩
  · rcases b with _ | ⟨b1, _ | ⟨b2, _ | ⟨b3, _ | ⟨b4, b⟩⟩⟩⟩ <;> simp [lengthBytes] at h
    obtain ⟨h1, -, -, -, -, h3, -, ht, rfl⟩ := h
    have q1 := u8_lt b1
    have q2 := u8_lt b2
    have q3 := u8_lt b3
    have q4 := u8_lt b4
    rw [natBytes_4 len (by omega) (by omega)]
    refine ⟨?_, rfl, by omega⟩
    simp only [List.cons_append, List.nil_append, List.cons.injEq, and_true]
    exact ⟨(u8_ofNat_eq _ _ (by omega)).symm, (u8_ofNat_eq _ _ (by omega)).symm,
      (u8_ofNat_eq _ _ (by omega)).symm, (u8_ofNat_eq _ _ (by omega)).symm⟩
  · exfalso
    rcases b with _ | ⟨b1, _ | ⟨b2, _ | ⟨b3, _ | ⟨b4, b⟩⟩⟩⟩ <;> simp [lengthBytes] at h
    obtain ⟨h1, -, -, -, -, h3, -, h⟩ := h
    rw [lengthBytes_big _ _ _ (by omega)] at h
    simp at h

/-! ### parseTL split into its tag part and its length part -/

def tagRes (b : UInt8) (rest : Bytes) : Option (Nat × Bytes) :=
  if b.toNat % 32 = 31 then
    match base128 0 0 rest with
    | some (t, r) => if t < 31 then none else some (t, r)
    | none => none
  else some (b.toNat % 32, rest)

def lenRes : Bytes → Option (Nat × Bytes)
  | [] => none
  | l :: rest =>
    if l.toNat < 128 then some (l.toNat, rest)
    else
      let n := l.toNat % 128
      if n = 0 then none
      else match lengthBytes n 0 rest with
        | none => none
        | some (len, rest) => if len < 128 then none else some (len, rest)

theorem parseTL_cons (b : UInt8) (rest : Bytes) :
    parseTL (b :: rest) =
      match tagRes b rest with
      | none => none
      | some (tag, r) =>
        match lenRes r with
        | none => none
        | some (len, r') => some (⟨b.toNat / 64, b.toNat / 32 % 2 == 1, tag, len⟩, r') := by
  simp only [parseTL, tagRes]
  generalize (if b.toNat % 32 = 31 then _ else _ : Option (Nat × Bytes)) = tr
  rcases tr with _ | ⟨tag, r⟩
  · rfl
  simp only []
  cases r with
  | nil => simp [lenRes]
  | cons l r =>
    simp only [lenRes]
    split
    · rfl
    · split
      · rfl
      · split <;> rename_i hlb <;> simp only [hlb]
        split <;> rfl

def encTag (cls : Nat) (compound : Bool) (tag : Nat) : Bytes :=
  let c := cls * 64 + (if compound then 32 else 0)
  if tag ≥ 31 then UInt8.ofNat (c + 31) :: encBase128 tag else [UInt8.ofNat (c + tag)]

theorem encTL_eq (cls : Nat) (compound : Bool) (tag len : Nat) :
    encTL cls compound tag len = encTag cls compound tag ++ encLen len := rfl

theorem lenRes_encLen (len : Nat) (rest : Bytes) (h : len < 2 ^ 31) :
    lenRes (encLen len ++ rest) = some (len, rest) := by
  unfold encLen
  split
  · rename_i hlt
    simp only [List.cons_append, List.nil_append, lenRes, u8_toNat_ofNat]
    rw [if_pos (by omega), Nat.mod_eq_of_lt (by omega)]
  · rename_i h128
    have hle := natBytes_length_le len
    have hlb := lengthBytes_natBytes len rest (by omega) h
    have hpos : 1 ≤ (natBytes len).length := by
      rcases hnb : natBytes len with _ | ⟨x, xs⟩
      · rw [hnb] at hlb; simp [lengthBytes] at hlb; omega
      · simp
    simp only [List.cons_append, lenRes, u8_toNat_ofNat]
    rw [if_neg (by omega), if_neg (by omega)]
    have e : (128 + (natBytes len).length) % 256 % 128 = (natBytes len).length := by omega
    rw [e, hlb]
    simp [h128]

theorem lenRes_canonical (b r : Bytes) (len : Nat) (h : lenRes b = some (len, r)) :
    b = encLen len ++ r ∧ len < 2 ^ 31 := by
  rcases b with _ | ⟨l, b⟩
  · simp [lenRes] at h
  have ql := u8_lt l
  simp only [lenRes] at h
  split at h
  · simp at h
    obtain ⟨rfl, rfl⟩ := h
    refine ⟨?_, by omega⟩
    simp only [encLen]
    rw [if_pos (by omega)]
    simp
  · split at h
    · simp at h
    · split at h
      · simp at h
      · rename_i len' r' hlb
        split at h
        · simp at h
        · simp at h
          obtain ⟨rfl, rfl⟩ := h
          obtain ⟨hb, hlen, hlt⟩ := lengthBytes_canonical _ _ _ _ (by assumption) hlb (by omega)
          refine ⟨?_, hlt⟩
          simp only [encLen]
          rw [if_neg (by omega), hlen, hb]
          simp only [List.cons_append, List.cons.injEq, and_true]
          exact (u8_ofNat_eq _ _ (by omega)).symm
end PartA

/-! ## `parseTL` is strict DER and `encTL` is its inverse -/
section PartB
open WebAuthn WebAuthn.Asn1

theorem tagRes_canonical (b : UInt8) (rest r : Bytes) (tag : Nat) (h : tagRes b rest = some (tag, r)) :
    b :: rest = encTag (b.toNat / 64) (b.toNat / 32 % 2 == 1) tag ++ r ∧ tag < 2 ^ 31 := by
  have qb := u8_lt b
  simp only [tagRes] at h
  split at h
  · rename_i h31
    split at h
    · rename_i t r' hb
      split at h
      · simp at h
      · simp at h
        obtain ⟨rfl, rfl⟩ := h
        obtain ⟨hrest, hlt⟩ := base128_canonical _ _ _ hb
        refine ⟨?_, hlt⟩
        simp only [encTag]
        rw [if_pos (by omega), hrest]
        simp only [List.cons_append, List.cons.injEq, and_true]
        by_cases hc : b.toNat / 32 % 2 = 1
        · simp only [hc, beq_self_eq_true, if_true]
          exact (u8_ofNat_eq _ _ (by omega)).symm
        · have : (b.toNat / 32 % 2 == 1) = false := by simp [hc]
          simp only [this]
          exact (u8_ofNat_eq _ _ (by simp; omega)).symm
    · simp at h
  · rename_i h31
    simp at h
    obtain ⟨rfl, rfl⟩ := h
    refine ⟨?_, by omega⟩
    simp only [encTag]
    rw [if_neg (by omega)]
    simp only [List.cons_append, List.nil_append, List.cons.injEq, and_true]
    by_cases hc : b.toNat / 32 % 2 = 1
    · simp only [hc, beq_self_eq_true, if_true]
      exact (u8_ofNat_eq _ _ (by omega)).symm
    · have : (b.toNat / 32 % 2 == 1) = false := by simp [hc]
      simp only [this]
      exact (u8_ofNat_eq _ _ (by simp; omega)).symm

theorem tagRes_encTag (cls tag : Nat) (compound : Bool) (rest : Bytes) (hc : cls < 4) (ht : tag < 2 ^ 31) :
    ∃ x xs, encTag cls compound tag = x :: xs ∧ tagRes x (xs ++ rest) = some (tag, rest) ∧
      x.toNat / 64 = cls ∧ (x.toNat / 32 % 2 == 1) = compound := by
  simp only [encTag]
  split
  · rename_i h31
    refine ⟨_, _, rfl, ?_, ?_, ?_⟩
    · simp only [tagRes, u8_toNat_ofNat]
      rw [if_pos (by cases compound <;> simp <;> omega), base128_encBase128 _ _ ht]
      simp only []
      rw [if_neg (by omega)]
    · rw [u8_toNat_ofNat]; cases compound <;> simp <;> omega
    · rw [u8_toNat_ofNat]; cases compound <;> simp <;> omega
  · rename_i h31
    refine ⟨_, _, rfl, ?_, ?_, ?_⟩
    · simp only [tagRes, u8_toNat_ofNat, List.nil_append]
      rw [if_neg (by cases compound <;> simp <;> omega)]
      congr 2
      cases compound <;> simp <;> omega
    · rw [u8_toNat_ofNat]; cases compound <;> simp <;> omega
    · rw [u8_toNat_ofNat]; cases compound <;> simp <;> omega


theorem encBase128_length (n : Nat) (h : n < 2 ^ 31) : 1 ≤ (encBase128 n).length ∧ (encBase128 n).length ≤ 5 := by
  by_cases h1 : n < 128
  · rw [encBase128_1 n h1]; simp
  by_cases h2 : n < 128^2
  · rw [encBase128_2 n (by omega) h2]; simp
  by_cases h3 : n < 128^3
  · rw [encBase128_3 n (by omega) h3]; simp
  by_cases h4 : n < 128^4
  · rw [encBase128_4 n (by omega) h4]; simp
  · rw [encBase128_5 n (by omega) (by omega)]; simp

theorem encTag_length (cls tag : Nat) (compound : Bool) (h : tag < 2 ^ 31) :
    1 ≤ (encTag cls compound tag).length ∧ (encTag cls compound tag).length ≤ 6 := by
  simp only [encTag]
  have := encBase128_length tag h
  split <;> simp <;> omega

theorem encLen_length (n : Nat) : 1 ≤ (encLen n).length ∧ (encLen n).length ≤ 9 := by
  simp only [encLen]
  have := natBytes_length_le n
  split <;> simp <;> omega

theorem encLen_length_small (n : Nat) (h : n < 2 ^ 31) : (encLen n).length ≤ 5 := by
  simp only [encLen]
  split
  · simp
  · by_cases h1 : n < 256
    · rw [natBytes_1 n (by omega) h1]; simp
    by_cases h2 : n < 65536
    · rw [natBytes_2 n (by omega) h2]; simp
    by_cases h3 : n < 16777216
    · rw [natBytes_3 n (by omega) h3]; simp
    · rw [natBytes_4 n (by omega) (by omega)]; simp

theorem encTL_length (cls tag len : Nat) (compound : Bool) (ht : tag < 2 ^ 31) (hl : len < 2 ^ 31) :
    2 ≤ (encTL cls compound tag len).length ∧ (encTL cls compound tag len).length ≤ 11 := by
  have := encTag_length cls tag compound ht
  have := encLen_length len
  have := encLen_length_small len hl
  rw [encTL_eq, List.length_append]; omega

/-- for the small universal / context tags used with arbitrary (possibly huge) lengths -/
theorem encTL_length_le (cls tag len : Nat) (compound : Bool) (ht : tag < 2 ^ 31) :
    2 ≤ (encTL cls compound tag len).length ∧ (encTL cls compound tag len).length ≤ 15 := by
  have := encTag_length cls tag compound ht
  have := encLen_length len
  rw [encTL_eq, List.length_append]; omega

theorem encTL_ne_nil (cls tag len : Nat) (compound : Bool) : encTL cls compound tag len ≠ [] := by
  rw [encTL_eq]
  simp only [encTag]
  split <;> simp

theorem parseTL_canonical' (b r : Bytes) (t : TL) (h : parseTL b = some (t, r)) :
    b = encTL t.cls t.compound t.tag t.len ++ r ∧ t.cls < 4 ∧ t.tag < 2 ^ 31 ∧ t.len < 2 ^ 31 := by
  rcases b with _ | ⟨x, rest⟩
  · simp [parseTL] at h
  have qx := u8_lt x
  rw [parseTL_cons] at h
  split at h
  · simp at h
  · rename_i tag r1 htr
    split at h
    · simp at h
    · rename_i len r2 hlr
      simp at h
      obtain ⟨rfl, rfl⟩ := h
      obtain ⟨h1, h2⟩ := tagRes_canonical _ _ _ _ htr
      obtain ⟨h3, h4⟩ := lenRes_canonical _ _ _ hlr
      refine ⟨?_, by simp only; omega, h2, h4⟩
      rw [encTL_eq, h1, h3, List.append_assoc]

theorem parseTL_encTL' (cls tag len : Nat) (compound : Bool) (rest : Bytes)
    (hc : cls < 4) (ht : tag < 2 ^ 31) (hl : len < 2 ^ 31) :
    parseTL (encTL cls compound tag len ++ rest) = some (⟨cls, compound, tag, len⟩, rest) := by
  obtain ⟨x, xs, hx, htr, h1, h2⟩ := tagRes_encTag cls tag compound (encLen len ++ rest) hc ht
  rw [encTL_eq, hx, List.append_assoc, List.cons_append, parseTL_cons, htr]
  simp only []
  rw [lenRes_encLen _ _ hl]
  simp only [h1, h2]
end PartB

/-! ## INTEGER contents: `intLen`, `encInt`, `parseInt64` per length 1..8 -/
section PartC
open WebAuthn WebAuthn.Asn1 WebAuthn.Spec.Asn1

theorem intLen_unfold (i : Int) : intLen i =
    if -128 ≤ i ∧ i < 128 then 1
    else if -32768 ≤ i ∧ i < 32768 then 2
    else if -8388608 ≤ i ∧ i < 8388608 then 3
    else if -2147483648 ≤ i ∧ i < 2147483648 then 4
    else if -549755813888 ≤ i ∧ i < 549755813888 then 5
    else if -140737488355328 ≤ i ∧ i < 140737488355328 then 6
    else if -36028797018963968 ≤ i ∧ i < 36028797018963968 then 7
    else 8 := by
  simp only [intLen, intLenAux, Nat.reduceMul, Nat.reduceAdd, Nat.reduceSub, Int.reducePow, Int.reduceNeg]



theorem roundtrip_int_1 (i : Int) (hlo : -128 ≤ i) (hhi : i < 128) :
    parseInt64 (Bytes.ofNatBE 1 (i % 256).toNat) = some i := by
  simp [Bytes.ofNatBE, parseInt64, checkInteger, twos, Bytes.beNat, u8_eq_iff]
  split <;> omega

theorem roundtrip_int_2 (i : Int) (hlo : -32768 ≤ i) (hhi : i < 32768) (hm : ¬(-128 ≤ i ∧ i < 128)) :
    parseInt64 (Bytes.ofNatBE 2 (i % 65536).toNat) = some i := by
  simp [Bytes.ofNatBE, parseInt64, checkInteger, twos, Bytes.beNat, u8_eq_iff]
  split <;> omega

theorem roundtrip_int_3 (i : Int) (hlo : -8388608 ≤ i) (hhi : i < 8388608) (hm : ¬(-32768 ≤ i ∧ i < 32768)) :
    parseInt64 (Bytes.ofNatBE 3 (i % 16777216).toNat) = some i := by
  simp [Bytes.ofNatBE, parseInt64, checkInteger, twos, Bytes.beNat, u8_eq_iff]
  split <;> omega

theorem roundtrip_int_4 (i : Int) (hlo : -2147483648 ≤ i) (hhi : i < 2147483648) (hm : ¬(-8388608 ≤ i ∧ i < 8388608)) :
    parseInt64 (Bytes.ofNatBE 4 (i % 4294967296).toNat) = some i := by
  simp [Bytes.ofNatBE, parseInt64, checkInteger, twos, Bytes.beNat, u8_eq_iff]
  split <;> omega

theorem roundtrip_int_5 (i : Int) (hlo : -549755813888 ≤ i) (hhi : i < 549755813888) (hm : ¬(-2147483648 ≤ i ∧ i < 2147483648)) :
    parseInt64 (Bytes.ofNatBE 5 (i % 1099511627776).toNat) = some i := by
  simp [Bytes.ofNatBE, parseInt64, checkInteger, twos, Bytes.beNat, u8_eq_iff]
  split <;> omega

theorem roundtrip_int_6 (i : Int) (hlo : -140737488355328 ≤ i) (hhi : i < 140737488355328) (hm : ¬(-549755813888 ≤ i ∧ i < 549755813888)) :
    parseInt64 (Bytes.ofNatBE 6 (i % 281474976710656).toNat) = some i := by
  simp [Bytes.ofNatBE, parseInt64, checkInteger, twos, Bytes.beNat, u8_eq_iff]
  split <;> omega

theorem roundtrip_int_7 (i : Int) (hlo : -36028797018963968 ≤ i) (hhi : i < 36028797018963968) (hm : ¬(-140737488355328 ≤ i ∧ i < 140737488355328)) :
    parseInt64 (Bytes.ofNatBE 7 (i % 72057594037927936).toNat) = some i := by
  simp [Bytes.ofNatBE, parseInt64, checkInteger, twos, Bytes.beNat, u8_eq_iff]
  split <;> omega

theorem roundtrip_int_8 (i : Int) (hlo : -9223372036854775808 ≤ i) (hhi : i < 9223372036854775808) (hm : ¬(-36028797018963968 ≤ i ∧ i < 36028797018963968)) :
    parseInt64 (Bytes.ofNatBE 8 (i % 18446744073709551616).toNat) = some i := by
  simp [Bytes.ofNatBE, parseInt64, checkInteger, twos, Bytes.beNat, u8_eq_iff]
  split <;> omega

theorem parseInt64_encInt' (i : Int) (h : Int64 i) : parseInt64 (encInt i) = some i := by
  obtain ⟨hlo, hhi⟩ := h
  simp only [encInt, intLen_unfold]
  repeat' split
  all_goals simp only [Int.reducePow]
  · exact roundtrip_int_1 i (by omega) (by omega)
  · exact roundtrip_int_2 i (by omega) (by omega) (by omega)
  · exact roundtrip_int_3 i (by omega) (by omega) (by omega)
  · exact roundtrip_int_4 i (by omega) (by omega) (by omega)
  · exact roundtrip_int_5 i (by omega) (by omega) (by omega)
  · exact roundtrip_int_6 i (by omega) (by omega) (by omega)
  · exact roundtrip_int_7 i (by omega) (by omega) (by omega)
  · exact roundtrip_int_8 i (by omega) (by omega) (by omega)


theorem canon_int_1 (b1 : UInt8) (i : Int) (h : parseInt64 [b1] = some i) :
    encInt i = [b1] ∧ Int64 i := by
  have q1 := u8_lt b1
  simp [parseInt64, checkInteger, twos, Bytes.beNat, u8_eq_iff] at h
  have hi := h
  split at hi
  all_goals
    subst hi
    refine ⟨?_, by unfold Spec.Asn1.Int64; omega⟩
    simp only [encInt, intLen_unfold]
    simp (disch := omega) only [if_pos, if_neg]
    simp only [Bytes.ofNatBE, Int.reducePow, Nat.reducePow, Nat.pow_zero, Nat.div_one, List.cons.injEq, and_true]
    exact u8_ofNat_eq _ _ (by omega)

theorem canon_int_2 (b1 b2 : UInt8) (i : Int) (h : parseInt64 [b1, b2] = some i) :
    encInt i = [b1, b2] ∧ Int64 i := by
  have q1 := u8_lt b1
  have q2 := u8_lt b2
  simp [parseInt64, checkInteger, twos, Bytes.beNat, u8_eq_iff] at h
  obtain ⟨⟨ha, hb⟩, hi⟩ := h
  split at hi
  all_goals
    subst hi
    refine ⟨?_, by unfold Spec.Asn1.Int64; omega⟩
    simp only [encInt, intLen_unfold]
    simp (disch := omega) only [if_pos, if_neg]
    simp only [Bytes.ofNatBE, Int.reducePow, Nat.reducePow, Nat.pow_zero, Nat.div_one, List.cons.injEq, and_true]
    exact ⟨u8_ofNat_eq _ _ (by omega), u8_ofNat_eq _ _ (by omega)⟩

theorem canon_int_3 (b1 b2 b3 : UInt8) (i : Int) (h : parseInt64 [b1, b2, b3] = some i) :
    encInt i = [b1, b2, b3] ∧ Int64 i := by
  have q1 := u8_lt b1
  have q2 := u8_lt b2
  have q3 := u8_lt b3
  simp [parseInt64, checkInteger, twos, Bytes.beNat, u8_eq_iff] at h
  obtain ⟨⟨ha, hb⟩, hi⟩ := h
  split at hi
  all_goals
    subst hi
    refine ⟨?_, by unfold Spec.Asn1.Int64; omega⟩
    simp only [encInt, intLen_unfold]
    simp (disch := omega) only [if_pos, if_neg]
    simp only [Bytes.ofNatBE, Int.reducePow, Nat.reducePow, Nat.pow_zero, Nat.div_one, List.cons.injEq, and_true]
    exact ⟨u8_ofNat_eq _ _ (by omega), u8_ofNat_eq _ _ (by omega), u8_ofNat_eq _ _ (by omega)⟩

theorem canon_int_4 (b1 b2 b3 b4 : UInt8) (i : Int) (h : parseInt64 [b1, b2, b3, b4] = some i) :
    encInt i = [b1, b2, b3, b4] ∧ Int64 i := by
  have q1 := u8_lt b1
  have q2 := u8_lt b2
  have q3 := u8_lt b3
  have q4 := u8_lt b4
  simp [parseInt64, checkInteger, twos, Bytes.beNat, u8_eq_iff] at h
  obtain ⟨⟨ha, hb⟩, hi⟩ := h
  split at hi
  all_goals
    subst hi
    refine ⟨?_, by unfold Spec.Asn1.Int64; omega⟩
    simp only [encInt, intLen_unfold]
    simp (disch := omega) only [if_pos, if_neg]
    simp only [Bytes.ofNatBE, Int.reducePow, Nat.reducePow, Nat.pow_zero, Nat.div_one, List.cons.injEq, and_true]
    exact ⟨u8_ofNat_eq _ _ (by omega), u8_ofNat_eq _ _ (by omega), u8_ofNat_eq _ _ (by omega), u8_ofNat_eq _ _ (by omega)⟩

theorem canon_int_5 (b1 b2 b3 b4 b5 : UInt8) (i : Int) (h : parseInt64 [b1, b2, b3, b4, b5] = some i) :
    encInt i = [b1, b2, b3, b4, b5] ∧ Int64 i := by
  have q1 := u8_lt b1
  have q2 := u8_lt b2
  have q3 := u8_lt b3
  have q4 := u8_lt b4
  have q5 := u8_lt b5
  simp [parseInt64, checkInteger, twos, Bytes.beNat, u8_eq_iff] at h
  obtain ⟨⟨ha, hb⟩, hi⟩ := h
  split at hi
  all_goals
    subst hi
    refine ⟨?_, by unfold Spec.Asn1.Int64; omega⟩
    simp only [encInt, intLen_unfold]
    simp (disch := omega) only [if_pos, if_neg]
    simp only [Bytes.ofNatBE, Int.reducePow, Nat.reducePow, Nat.pow_zero, Nat.div_one, List.cons.injEq, and_true]
    exact ⟨u8_ofNat_eq _ _ (by omega), u8_ofNat_eq _ _ (by omega), u8_ofNat_eq _ _ (by omega), u8_ofNat_eq _ _ (by omega), u8_ofNat_eq _ _ (by omega)⟩

theorem canon_int_6 (b1 b2 b3 b4 b5 b6 : UInt8) (i : Int) (h : parseInt64 [b1, b2, b3, b4, b5, b6] = some i) :
    encInt i = [b1, b2, b3, b4, b5, b6] ∧ Int64 i := by
  have q1 := u8_lt b1
  have q2 := u8_lt b2
  have q3 := u8_lt b3
  have q4 := u8_lt b4
  have q5 := u8_lt b5
  have q6 := u8_lt b6
  simp [parseInt64, checkInteger, twos, Bytes.beNat, u8_eq_iff] at h
  obtain ⟨⟨ha, hb⟩, hi⟩ := h
  split at hi
  all_goals
    subst hi
    refine ⟨?_, by unfold Spec.Asn1.Int64; omega⟩
    simp only [encInt, intLen_unfold]
    simp (disch := omega) only [if_pos, if_neg]
    simp only [Bytes.ofNatBE, Int.reducePow, Nat.reducePow, Nat.pow_zero, Nat.div_one, List.cons.injEq, and_true]
    exact ⟨u8_ofNat_eq _ _ (by omega), u8_ofNat_eq _ _ (by omega), u8_ofNat_eq _ _ (by omega), u8_ofNat_eq _ _ (by omega), u8_ofNat_eq _ _ (by omega), u8_ofNat_eq _ _ (by omega)⟩

theorem canon_int_7 (b1 b2 b3 b4 b5 b6 b7 : UInt8) (i : Int) (h : parseInt64 [b1, b2, b3, b4, b5, b6, b7] = some i) :
    encInt i = [b1, b2, b3, b4, b5, b6, b7] ∧ Int64 i := by
  have q1 := u8_lt b1
  have q2 := u8_lt b2
  have q3 := u8_lt b3
  have q4 := u8_lt b4
  have q5 := u8_lt b5
  have q6 := u8_lt b6
  have q7 := u8_lt b7
  simp [parseInt64, checkInteger, twos, Bytes.beNat, u8_eq_iff] at h
  obtain ⟨⟨ha, hb⟩, hi⟩ := h
  split at hi
  all_goals
    subst hi
    refine ⟨?_, by unfold Spec.Asn1.Int64; omega⟩
    simp only [encInt, intLen_unfold]
    simp (disch := omega) only [if_pos, if_neg]
    simp only [Bytes.ofNatBE, Int.reducePow, Nat.reducePow, Nat.pow_zero, Nat.div_one, List.cons.injEq, and_true]
    exact ⟨u8_ofNat_eq _ _ (by omega), u8_ofNat_eq _ _ (by omega), u8_ofNat_eq _ _ (by omega), u8_ofNat_eq _ _ (by omega), u8_ofNat_eq _ _ (by omega), u8_ofNat_eq _ _ (by omega), u8_ofNat_eq _ _ (by omega)⟩

theorem canon_int_8 (b1 b2 b3 b4 b5 b6 b7 b8 : UInt8) (i : Int) (h : parseInt64 [b1, b2, b3, b4, b5, b6, b7, b8] = some i) :
    encInt i = [b1, b2, b3, b4, b5, b6, b7, b8] ∧ Int64 i := by
  have q1 := u8_lt b1
  have q2 := u8_lt b2
  have q3 := u8_lt b3
  have q4 := u8_lt b4
  have q5 := u8_lt b5
  have q6 := u8_lt b6
  have q7 := u8_lt b7
  have q8 := u8_lt b8
  simp [parseInt64, checkInteger, twos, Bytes.beNat, u8_eq_iff] at h
  obtain ⟨⟨ha, hb⟩, hi⟩ := h
  split at hi
  all_goals
    subst hi
    refine ⟨?_, by unfold Spec.Asn1.Int64; omega⟩
    simp only [encInt, intLen_unfold]
    simp (disch := omega) only [if_pos, if_neg]
    simp only [Bytes.ofNatBE, Int.reducePow, Nat.reducePow, Nat.pow_zero, Nat.div_one, List.cons.injEq, and_true]
    exact ⟨u8_ofNat_eq _ _ (by omega), u8_ofNat_eq _ _ (by omega), u8_ofNat_eq _ _ (by omega), u8_ofNat_eq _ _ (by omega), u8_ofNat_eq _ _ (by omega), u8_ofNat_eq _ _ (by omega), u8_ofNat_eq _ _ (by omega), u8_ofNat_eq _ _ (by omega)⟩
end PartC

/-! ## INTEGER contents: canonical form, `parseInt32`, fuel of `parseInts` -/
section PartD
open WebAuthn WebAuthn.Asn1 WebAuthn.Spec.Asn1

theorem encInt_of_parseInt64' (b : Bytes) (i : Int) (h : parseInt64 b = some i) : encInt i = b ∧ Spec.Asn1.Int64 i := by
  rcases b with _ | ⟨b1, _ | ⟨b2, _ | ⟨b3, _ | ⟨b4, _ | ⟨b5, _ | ⟨b6, _ | ⟨b7, _ | ⟨b8, _ | ⟨b9, b⟩⟩⟩⟩⟩⟩⟩⟩⟩
  · simp [parseInt64, checkInteger] at h
  · exact canon_int_1 _ _ h
  · exact canon_int_2 _ _ _ h
  · exact canon_int_3 _ _ _ _ h
  · exact canon_int_4 _ _ _ _ _ h
  · exact canon_int_5 _ _ _ _ _ _ h
  · exact canon_int_6 _ _ _ _ _ _ _ h
  · exact canon_int_7 _ _ _ _ _ _ _ _ h
  · exact canon_int_8 _ _ _ _ _ _ _ _ _ h
  · exfalso
    simp only [parseInt64, List.length_cons] at h
    split at h
    · simp at h
    · rw [if_pos (by omega)] at h; simp at h

theorem parseInt32_iff' (b : Bytes) (i : Int) : parseInt32 b = some i ↔ parseInt64 b = some i ∧ Spec.Asn1.Int32 i := by
  unfold parseInt32 Spec.Asn1.Int32
  cases hp : parseInt64 b with
  | none => simp
  | some v =>
    simp only []
    constructor
    · intro h
      split at h
      · simp at h; subst h; exact ⟨rfl, by assumption⟩
      · simp at h
    · rintro ⟨h1, h2⟩
      simp at h1; subst h1
      rw [if_pos h2]

theorem encInt_length (i : Int) : 1 ≤ (encInt i).length ∧ (encInt i).length ≤ 8 := by
  simp only [encInt, Bytes.length_ofNatBE, intLen_unfold]
  repeat' split
  all_goals omega

theorem parseTL_length_lt (b r : Bytes) (t : TL) (h : parseTL b = some (t, r)) : r.length < b.length := by
  obtain ⟨hb, -, ht, hl⟩ := parseTL_canonical' b r t h
  have := encTL_length t.cls t.tag t.len t.compound ht hl
  rw [hb, List.length_append]; omega

theorem parseInts_fuel_gen (n m : Nat) (b : Bytes) (hn : b.length ≤ n) (hm : b.length ≤ m) :
    parseInts n b = parseInts m b := by
  induction n generalizing m b with
  | zero =>
    have : b = [] := List.eq_nil_of_length_eq_zero (by omega)
    subst this
    cases m <;> simp [parseInts]
  | succ n ih =>
    rcases b with _ | ⟨x, xs⟩
    · cases m <;> simp [parseInts]
    rcases m with _ | m
    · simp at hm
    simp only [parseInts]
    split
    · rfl
    · rename_i t r htl
      have hlt := parseTL_length_lt _ _ _ htl
      simp only [List.length_cons] at hlt hn hm
      split
      · rfl
      · split
        · rfl
        · split
          · rfl
          · rw [ih m (r.drop t.len) (by rw [List.length_drop]; omega) (by rw [List.length_drop]; omega)]
end PartD

/-! ## `parseField` on a present / skipped member -/
section PartE
open WebAuthn WebAuthn.Asn1 WebAuthn.Spec.Asn1

variable {σ : Type}

/-- the `go` closure of `parseField` -/
def pfGo (sub : String → Option (SubOps σ)) (f : Field) (dflt : Option (FV σ × Bytes)) (t : TL) (r : Bytes) :
    Option (FV σ × Bytes) :=
  if t.cls ≠ 0 ∨ t.tag ≠ (universal f).1 ∨ t.compound ≠ (universal f).2 then dflt
  else if t.len > r.length then none
  else (parseContents sub f.ty (r.take t.len)).map (·, r.drop t.len)

def pfDflt (sub : String → Option (SubOps σ)) (f : Field) (b : Bytes) : Option (FV σ × Bytes) :=
  if f.optional then (zeroOf sub f.ty).map (·, b) else none

theorem parseField_nil (sub : String → Option (SubOps σ)) (f : Field) :
    parseField sub f [] = pfDflt sub f [] := rfl

theorem parseField_ne_nil (sub : String → Option (SubOps σ)) (f : Field) (b : Bytes) (h : b ≠ []) :
    parseField sub f b =
      match parseTL b with
      | none => none
      | some (t, r) =>
        if f.explicit then
          if r = [] then none
          else if t.cls = 2 ∧ some t.tag = f.tag ∧ (t.len = 0 ∨ t.compound) then
            if t.len > 0 then
              match parseTL r with
              | none => none
              | some (t', r') => pfGo sub f (pfDflt sub f b) t' r'
            else if f.ty = .flag then some (.prim (.bool true), r)
            else none
          else pfDflt sub f b
        else pfGo sub f (pfDflt sub f b) t r := by
  cases b with
  | nil => exact absurd rfl h
  | cons x xs => rfl

theorem universal_lt (f : Field) : (universal f).1 < 31 := by
  unfold universal
  split <;> simp <;> split <;> omega


theorem append_ne_nil_left {α : Type} (a b : List α) (h : a ≠ []) : a ++ b ≠ [] := by
  cases a with
  | nil => exact absurd rfl h
  | cons x xs => simp

/-- the element under the cursor is this member's own universal element -/
theorem pfGo_match (sub : String → Option (SubOps σ)) (f : Field) (dflt : Option (FV σ × Bytes))
    (body rest : Bytes) (v : FV σ) (hpc : parseContents sub f.ty body = some v) :
    pfGo sub f dflt ⟨0, (universal f).2, (universal f).1, body.length⟩ (body ++ rest) = some (v, rest) := by
  simp only [pfGo]
  rw [if_neg (by simp), if_neg (by simp)]
  simp [hpc]

/-- an untagged member, present -/
theorem parseField_plain (sub : String → Option (SubOps σ)) (f : Field) (body rest : Bytes) (v : FV σ)
    (hex : f.explicit = false) (hlen : body.length < 2 ^ 31)
    (hpc : parseContents sub f.ty body = some v) :
    parseField sub f (encTL 0 (universal f).2 (universal f).1 body.length ++ body ++ rest) = some (v, rest) := by
  have hu := universal_lt f
  rw [parseField_ne_nil _ _ _ (by rw [List.append_assoc]; exact append_ne_nil_left _ _ (encTL_ne_nil _ _ _ _)),
    List.append_assoc, parseTL_encTL' _ _ _ _ _ (by omega) (by omega) hlen]
  simp only [hex]
  exact pfGo_match sub f _ body rest v hpc

/-- a `tag:N,explicit` member, present -/
theorem parseField_explicit (sub : String → Option (SubOps σ)) (f : Field) (tg : Nat) (body rest : Bytes) (v : FV σ)
    (hex : f.explicit = true) (htag : f.tag = some tg) (htg : tg < 2 ^ 31)
    (hlen : (encTL 0 (universal f).2 (universal f).1 body.length ++ body).length < 2 ^ 31)
    (hpc : parseContents sub f.ty body = some v) :
    parseField sub f
      (encTL 2 true tg (encTL 0 (universal f).2 (universal f).1 body.length ++ body).length ++
        (encTL 0 (universal f).2 (universal f).1 body.length ++ body) ++ rest) = some (v, rest) := by
  have hu := universal_lt f
  have hne : encTL 0 (universal f).2 (universal f).1 body.length ≠ [] := encTL_ne_nil _ _ _ _
  have hbl : body.length < 2 ^ 31 := by rw [List.length_append] at hlen; omega
  have hpos : 0 < (encTL 0 (universal f).2 (universal f).1 body.length ++ body).length := by
    have := (encTL_length_le 0 (universal f).1 body.length (universal f).2 (by omega)).1
    rw [List.length_append]; omega
  rw [parseField_ne_nil _ _ _ (by rw [List.append_assoc]; exact append_ne_nil_left _ _ (encTL_ne_nil _ _ _ _)),
    List.append_assoc, parseTL_encTL' _ _ _ _ _ (by omega) htg hlen]
  simp only [hex, htag, if_true]
  rw [if_neg (append_ne_nil_left _ _ (append_ne_nil_left _ _ hne)), if_pos (by simp), if_pos hpos,
    List.append_assoc, parseTL_encTL' _ _ _ _ _ (by omega) (by omega) hbl]
  exact pfGo_match sub f _ body rest v hpc

/-- an optional `tag:N,explicit` member looking at an element with another context tag: default, cursor unmoved -/
theorem parseField_skip (sub : String → Option (SubOps σ)) (f : Field) (tg tg' n : Nat) (x : UInt8) (rest : Bytes)
    (hex : f.explicit = true) (htag : f.tag = some tg) (hne : tg' ≠ tg) (htg : tg' < 2 ^ 31) (hn : n < 2 ^ 31) :
    parseField sub f (encTL 2 true tg' n ++ x :: rest) = pfDflt sub f (encTL 2 true tg' n ++ x :: rest) := by
  rw [parseField_ne_nil _ _ _ (append_ne_nil_left _ _ (encTL_ne_nil _ _ _ _)),
    parseTL_encTL' _ _ _ _ _ (by omega) htg hn]
  simp only [hex, htag, if_true]
  rw [if_neg (by simp), if_neg (by simp; intro h; exact absurd h hne)]
end PartE

/-! ## member-wise round trip of `marshalFields` / `parseFields` -/
section PartF
open WebAuthn WebAuthn.Asn1 WebAuthn.Spec.Asn1

variable {σ : Type}

def innerOf (f : Field) (body : Bytes) : Bytes := encTL 0 (universal f).2 (universal f).1 body.length ++ body

theorem marshalField_eq (sub : String → Option (SubOps σ)) (f : Field) (v : FV σ) :
    marshalField sub f v =
      if f.optional && isZeroFV sub f.ty v then some []
      else match bodyOf sub f v with
        | none => none
        | some body =>
          match f.tag with
          | some tg => if f.explicit then some (encTL 2 true tg (innerOf f body).length ++ innerOf f body) else none
          | none => some (innerOf f body) := rfl

theorem innerOf_ne_nil (f : Field) (body : Bytes) : innerOf f body ≠ [] :=
  append_ne_nil_left _ _ (encTL_ne_nil _ _ _ _)

/-! ### SEQUENCE OF / SET OF INTEGER contents -/

theorem parseInts_succ (n : Nat) (b : Bytes) (h : b ≠ []) :
    parseInts (n + 1) b =
      match parseTL b with
      | none => none
      | some (t, r) =>
        if t.cls ≠ 0 ∨ t.compound ∨ t.tag ≠ 2 then none
        else if t.len > r.length then none
        else match parseInt64 (r.take t.len) with
          | none => none
          | some i => (parseInts n (r.drop t.len)).map (i :: ·) := by
  cases b with
  | nil => exact absurd rfl h
  | cons x xs => rfl

theorem parseInts_cons (n : Nat) (i : Int) (restb : Bytes) (hi : Spec.Asn1.Int64 i) :
    parseInts (n + 1) (encIntTLV i ++ restb) = (parseInts n restb).map (i :: ·) := by
  have hl := encInt_length i
  simp only [encIntTLV, List.append_assoc]
  rw [parseInts_succ _ _ (append_ne_nil_left _ _ (encTL_ne_nil _ _ _ _)),
    parseTL_encTL' _ _ _ _ _ (by omega) (by omega) (by omega)]
  simp only []
  rw [if_neg (by simp), if_neg (by simp)]
  simp [parseInt64_encInt' i hi]

theorem parseInts_encode (l : List Int) (h : ∀ i ∈ l, Spec.Asn1.Int64 i) :
    parseInts (l.map encIntTLV).flatten.length (l.map encIntTLV).flatten = some l := by
  induction l with
  | nil => simp [parseInts]
  | cons i l ih =>
    have hi := h i (by simp)
    have ih := ih (fun j hj => h j (by simp [hj]))
    simp only [List.map_cons, List.flatten_cons]
    have hpos : 2 ≤ (encIntTLV i).length := by
      have := (encTL_length_le 0 2 (encInt i).length false (by omega)).1
      simp only [encIntTLV, List.length_append]; omega
    rw [parseInts_fuel_gen _ ((encIntTLV i).length - 1 + (l.map encIntTLV).flatten.length + 1) _
      (Nat.le_refl _) (by rw [List.length_append]; omega)]
    rw [parseInts_cons _ _ _ hi, parseInts_fuel_gen _ (l.map encIntTLV).flatten.length _ (by omega) (Nat.le_refl _), ih]
    rfl


/-! ### member-wise round trip -/

/-- the member is written, and its contents octets read back as the value (when they are short enough to be framed) -/
def PresentOK (sub : String → Option (SubOps σ)) (f : Field) (x : FV σ) : Prop :=
  ∃ body, bodyOf sub f x = some body ∧ (body.length < 2 ^ 31 → parseContents sub f.ty body = some x)

/-- an optional member: a zero value is the decoder's default; any other value is written and read back -/
def OptOK (sub : String → Option (SubOps σ)) (f : Field) (x : FV σ) : Prop :=
  (isZeroFV sub f.ty x = true → zeroOf sub f.ty = some x) ∧ (isZeroFV sub f.ty x = false → PresentOK sub f x)

def OptFieldOK (f : Field) : Prop := f.explicit = true ∧ f.optional = true ∧ ∃ tg, f.tag = some tg ∧ tg < 2 ^ 31

def PlainFieldOK (f : Field) : Prop := f.explicit = false ∧ f.optional = false ∧ f.tag = none

def AllOK (P : Field → FV σ → Prop) : List Field → List (FV σ) → Prop
  | [], [] => True
  | f :: fs, x :: xs => P f x ∧ AllOK P fs xs
  | _, _ => False

/-- the bytes under the cursor are nothing, or an element of context class with a tag other than `tg` -/
def StartsOther (tg : Nat) (b : Bytes) : Prop :=
  b = [] ∨ ∃ tg' n x r, b = encTL 2 true tg' n ++ x :: r ∧ tg' ≠ tg ∧ tg' < 2 ^ 31 ∧ n < 2 ^ 31

theorem parseField_startsOther (sub : String → Option (SubOps σ)) (f : Field) (tg : Nat) (b : Bytes)
    (hex : f.explicit = true) (hopt : f.optional = true) (htag : f.tag = some tg) (h : StartsOther tg b) :
    parseField sub f b = (zeroOf sub f.ty).map (·, b) := by
  rcases h with rfl | ⟨tg', n, x, r, rfl, hne, htg, hn⟩
  · rw [parseField_nil]; simp [pfDflt, hopt]
  · rw [parseField_skip sub f tg tg' n x r hex htag hne htg hn]; simp [pfDflt, hopt]

theorem plain_roundtrip (sub : String → Option (SubOps σ)) (fs : List Field) (xs : List (FV σ))
    (hf : ∀ f ∈ fs, PlainFieldOK f) (hx : AllOK (PresentOK sub) fs xs) :
    ∃ body, marshalFields sub fs xs = some body ∧
      (body.length < 2 ^ 31 → ∀ rest, parseFields sub fs (body ++ rest) = some xs) := by
  induction fs generalizing xs with
  | nil =>
    cases xs with
    | nil => exact ⟨[], rfl, fun _ _ => rfl⟩
    | cons x xs => exact absurd hx (by simp [AllOK])
  | cons f fs ih =>
    cases xs with
    | nil => exact absurd hx (by simp [AllOK])
    | cons x xs =>
      obtain ⟨⟨bd, hbd, hpc⟩, hxs⟩ := hx
      obtain ⟨hex, hopt, htag⟩ := hf f (by simp)
      obtain ⟨body', hm', hp'⟩ := ih xs (fun g hg => hf g (by simp [hg])) hxs
      have hmf : marshalField sub f x = some (innerOf f bd) := by
        rw [marshalField_eq, hopt, hbd, htag]; rfl
      refine ⟨innerOf f bd ++ body', by simp [marshalFields, hmf, hm'], ?_⟩
      intro hlen rest
      simp only [List.length_append, innerOf] at hlen
      simp only [parseFields, innerOf, List.append_assoc]
      have := parseField_plain sub f bd (body' ++ rest) x hex (by omega) (hpc (by omega))
      rw [List.append_assoc] at this
      rw [this]
      simp only []
      rw [hp' (by omega) rest]
      rfl

theorem opt_roundtrip (sub : String → Option (SubOps σ)) (fs : List Field) (xs : List (FV σ))
    (hf : ∀ f ∈ fs, OptFieldOK f) (hd : fs.Pairwise (fun a b => a.tag ≠ b.tag)) (hx : AllOK (OptOK sub) fs xs) :
    ∃ body, marshalFields sub fs xs = some body ∧
      (body.length < 2 ^ 31 →
        (∀ tg, (∀ f ∈ fs, f.tag ≠ some tg) → StartsOther tg body) ∧ parseFields sub fs body = some xs) := by
  induction fs generalizing xs with
  | nil =>
    cases xs with
    | nil => exact ⟨[], rfl, fun _ => ⟨fun _ _ => Or.inl rfl, rfl⟩⟩
    | cons x xs => exact absurd hx (by simp [AllOK])
  | cons f fs ih =>
    cases xs with
    | nil => exact absurd hx (by simp [AllOK])
    | cons x xs =>
      obtain ⟨⟨hz, hnz⟩, hxs⟩ := hx
      obtain ⟨hex, hopt, tg, htag, htg⟩ := hf f (by simp)
      rw [List.pairwise_cons] at hd
      obtain ⟨hd1, hd2⟩ := hd
      obtain ⟨body', hm', hp'⟩ := ih xs (fun g hg => hf g (by simp [hg])) hd2 hxs
      cases hzero : isZeroFV sub f.ty x with
      | true =>
        have hmf : marshalField sub f x = some [] := by
          rw [marshalField_eq, hopt, hzero]; rfl
        refine ⟨body', by simp [marshalFields, hmf, hm'], ?_⟩
        intro hlen
        obtain ⟨hso, hpf⟩ := hp' hlen
        refine ⟨fun tg0 h0 => hso tg0 (fun g hg => h0 g (by simp [hg])), ?_⟩
        have hs : StartsOther tg body' := hso tg (fun g hg => by rw [← htag]; exact fun e => hd1 g hg e.symm)
        simp only [parseFields]
        rw [parseField_startsOther sub f tg body' hex hopt htag hs, hz hzero]
        simp only [Option.map_some]
        rw [hpf]; rfl
      | false =>
        obtain ⟨bd, hbd, hpc⟩ := hnz hzero
        have hmf : marshalField sub f x = some (encTL 2 true tg (innerOf f bd).length ++ innerOf f bd) := by
          rw [marshalField_eq, hopt, hzero, hbd, htag, hex]; rfl
        refine ⟨encTL 2 true tg (innerOf f bd).length ++ innerOf f bd ++ body', by simp [marshalFields, hmf, hm'], ?_⟩
        intro hlen
        simp only [List.length_append] at hlen
        obtain ⟨hso, hpf⟩ := hp' (by omega)
        have hbdlen : bd.length < 2 ^ 31 := by simp only [innerOf, List.length_append] at hlen; omega
        constructor
        · intro tg0 h0
          right
          obtain ⟨y, ys, hy⟩ := List.exists_cons_of_ne_nil (innerOf_ne_nil f bd)
          refine ⟨tg, (innerOf f bd).length, y, ys ++ body', by rw [hy]; simp, ?_, htg, by omega⟩
          intro e; exact h0 f (by simp) (by rw [htag, e])
        · simp only [parseFields]
          have := parseField_explicit sub f tg bd body' x hex htag htg (by simp only [innerOf] at hlen ⊢; omega)
            (hpc hbdlen)
          simp only [innerOf]
          rw [this]
          simp only []
          rw [hpf]; rfl
end PartF

/-! ## contents round trips per member type and the Keymaster instance -/
section PartG
open WebAuthn WebAuthn.Asn1 WebAuthn.Spec.Asn1 WebAuthn.KeyDesc WebAuthn.Generated.Asn1Schema

variable {σ : Type}

theorem presentOK_int (sub : String → Option (SubOps σ)) (f : Field) (i : Int) (hty : f.ty = .int)
    (hi : Spec.Asn1.Int64 i) : PresentOK sub f (.prim (.int i)) :=
  ⟨encInt i, by simp [bodyOf, hty], fun _ => by simp [hty, parseContents, parseInt64_encInt' i hi]⟩

theorem presentOK_enum (sub : String → Option (SubOps σ)) (f : Field) (i : Int) (hty : f.ty = .enum)
    (hi : Spec.Asn1.Int32 i) : PresentOK sub f (.prim (.int i)) := by
  refine ⟨encInt i, by simp [bodyOf, hty], fun _ => ?_⟩
  have h64 : Spec.Asn1.Int64 i := by unfold Spec.Asn1.Int32 at hi; unfold Spec.Asn1.Int64; omega
  have : parseInt32 (encInt i) = some i := (parseInt32_iff' _ _).mpr ⟨parseInt64_encInt' i h64, hi⟩
  simp [hty, parseContents, this]

theorem presentOK_flag (sub : String → Option (SubOps σ)) (f : Field) (hty : f.ty = .flag) :
    PresentOK sub f (.prim (.bool true)) :=
  ⟨[], by simp [bodyOf, hty], fun _ => by simp [hty, parseContents]⟩

theorem presentOK_bool (sub : String → Option (SubOps σ)) (f : Field) (b : Bool) (hty : f.ty = .bool) :
    PresentOK sub f (.prim (.bool b)) :=
  ⟨[if b then 0xff else 0], by simp [bodyOf, hty], fun _ => by cases b <;> simp [hty, parseContents, parseBool]⟩

theorem presentOK_bytes (sub : String → Option (SubOps σ)) (f : Field) (b : Bytes) (hty : f.ty = .bytes) :
    PresentOK sub f (.prim (.bytes (some b))) :=
  ⟨b, by simp [bodyOf, hty], fun _ => by simp [hty, parseContents]⟩

theorem presentOK_ints (sub : String → Option (SubOps σ)) (f : Field) (l : List Int) (hty : f.ty = .intList)
    (hi : ∀ i ∈ l, Spec.Asn1.Int64 i) (hs : f.set = true → sortEnc (l.map encIntTLV) = l.map encIntTLV) :
    PresentOK sub f (.prim (.ints (some l))) := by
  refine ⟨(l.map encIntTLV).flatten, ?_, fun _ => ?_⟩
  · simp only [bodyOf, hty, if_true, Option.getD_some]
    cases hset : f.set with
    | true => rw [hs hset]; rfl
    | false => rfl
  · simp only [hty, parseContents, parseInts_encode l hi, Option.map_some]

theorem presentOK_struct (sub : String → Option (SubOps σ)) (f : Field) (n : String) (o : SubOps σ) (s : σ) (body : Bytes)
    (hty : f.ty = .struct n) (hsub : sub n = some o) (hb : o.body s = some body)
    (hp : body.length < 2 ^ 31 → o.parse body = some s) : PresentOK sub f (.sub s) := by
  refine ⟨body, by simp [bodyOf, hty, hsub, hb], fun hl => ?_⟩
  simp [hty, parseContents, hsub, hp hl]


/-! ### the Keymaster instance -/

def rotOpsVal : SubOps RotVal :=
  { parse := parseFields noSub rootOfTrust
    zero := zeroRot
    isZero := fun v => v.length == rootOfTrust.length &&
      (List.zipWith (fun f x => isZeroFV noSub f.ty x) rootOfTrust v).all id
    body := marshalFields noSub rootOfTrust }

def alOpsVal : SubOps AuthListVal :=
  { parse := parseFields alSub authorizationList
    zero := zeroAuthList
    isZero := fun v => v.length == authorizationList.length &&
      (List.zipWith (fun f x => isZeroFV alSub f.ty x) authorizationList v).all id
    body := marshalFields alSub authorizationList }

theorem rotOps_eq : rotOps = some rotOpsVal := rfl

theorem alOps_eq : alOps = some alOpsVal := rfl

instance : DecidablePred PlainFieldOK := fun f => by unfold PlainFieldOK; infer_instance

def optFieldB (f : Field) : Bool :=
  f.explicit && f.optional && match f.tag with
    | some tg => decide (tg < 2 ^ 31)
    | none => false

theorem optFieldOK_of_B (f : Field) (h : optFieldB f = true) : OptFieldOK f := by
  unfold optFieldB at h
  rcases htag : f.tag with _ | tg
  · simp [htag] at h
  · simp [htag] at h
    exact ⟨h.1.1, h.1.2, tg, htag, h.2⟩

theorem rot_roundtrip (r : RotVal) (h : WFRot r) :
    ∃ body, marshalFields noSub rootOfTrust r = some body ∧
      (body.length < 2 ^ 31 → ∀ rest, parseFields noSub rootOfTrust (body ++ rest) = some r) := by
  obtain ⟨key, locked, state, hash, rfl, hs⟩ := h
  apply plain_roundtrip
  · decide
  · simp only [rootOfTrust, AllOK, and_true]
    exact ⟨presentOK_bytes _ _ _ rfl, presentOK_bool _ _ _ rfl, presentOK_enum _ _ _ rfl hs, presentOK_bytes _ _ _ rfl⟩


theorem authList_fields_ok : ∀ f ∈ authorizationList, OptFieldOK f := by
  intro f hf
  apply optFieldOK_of_B
  revert f
  decide

theorem authList_tags_distinct : authorizationList.Pairwise (fun a b => a.tag ≠ b.tag) := by
  decide

def structNameB (f : Field) : Bool :=
  match f.ty with
  | .struct n => n == "RootOfTrust"
  | _ => true

theorem authList_struct_names : ∀ f ∈ authorizationList, ∀ n, f.ty = .struct n → n = "RootOfTrust" := by
  have h : ∀ f ∈ authorizationList, structNameB f = true := by decide
  intro f hf n hn
  have := h f hf
  simpa [structNameB, hn] using this

theorem zeroRot_isZero : rotOpsVal.isZero zeroRot = true := by decide

theorem wfRot_not_isZero (r : RotVal) (h : WFRot r) : rotOpsVal.isZero r = false := by
  obtain ⟨key, locked, state, hash, rfl, -⟩ := h
  simp [rotOpsVal, rootOfTrust, isZeroFV, isZeroP]

theorem optOK_of_wf (f : Field) (x : FV RotVal) (hn : ∀ n, f.ty = .struct n → n = "RootOfTrust")
    (h : WFAuthField f x) : OptOK alSub f x := by
  unfold WFAuthField at h
  split at h
  · -- int
    rename_i i hty
    refine ⟨fun hz => ?_, fun _ => presentOK_int _ _ _ hty h⟩
    simp [isZeroFV, isZeroP] at hz
    simp [hty, zeroOf, hz]
  · -- flag
    rename_i b hty
    refine ⟨fun hz => ?_, fun hz => ?_⟩
    · simp [isZeroFV, isZeroP] at hz
      simp [hty, zeroOf, hz]
    · simp [isZeroFV, isZeroP] at hz
      subst hz
      exact presentOK_flag _ _ hty
  · -- bytes
    rename_i b hty
    refine ⟨fun hz => ?_, fun hz => ?_⟩
    · simp [isZeroFV, isZeroP] at hz
      simp [hty, zeroOf, hz]
    · simp [isZeroFV, isZeroP] at hz
      obtain ⟨bb, rfl⟩ := Option.isSome_iff_exists.mp (by simpa using hz)
      exact presentOK_bytes _ _ _ hty
  · -- ints none
    rename_i hty
    refine ⟨fun _ => by simp [hty, zeroOf], fun hz => ?_⟩
    simp [isZeroFV, isZeroP] at hz
  · -- ints some
    rename_i l hty
    refine ⟨fun hz => ?_, fun _ => presentOK_ints _ _ _ hty h.1 (fun _ => h.2)⟩
    simp [isZeroFV, isZeroP] at hz
  · -- struct
    rename_i n r hty
    have hn' := hn n hty
    subst hn'
    have hsub : alSub "RootOfTrust" = some rotOpsVal := by
      simp only [alSub, if_true]; exact rotOps_eq
    refine ⟨fun hz => ?_, fun hz => ?_⟩
    · simp only [isZeroFV, hty, hsub] at hz
      rcases h with rfl | hw
      · simp [hty, zeroOf, hsub, rotOpsVal]
      · rw [wfRot_not_isZero r hw] at hz; exact absurd hz (by simp)
    · simp only [isZeroFV, hty, hsub] at hz
      rcases h with rfl | hw
      · rw [zeroRot_isZero] at hz; exact absurd hz (by simp)
      · obtain ⟨body, hb, hp⟩ := rot_roundtrip r hw
        refine presentOK_struct _ _ _ _ _ body hty hsub hb (fun hl => ?_)
        have := hp hl []
        rw [List.append_nil] at this
        exact this
  · exact absurd h id

theorem allOK_of_wfFields (fs : List Field) (xs : AuthListVal)
    (hn : ∀ f ∈ fs, ∀ n, f.ty = .struct n → n = "RootOfTrust") (h : WFFields fs xs) : AllOK (OptOK alSub) fs xs := by
  induction fs generalizing xs with
  | nil => cases xs <;> simp_all [WFFields, AllOK]
  | cons f fs ih =>
    cases xs with
    | nil => simp [WFFields] at h
    | cons x xs =>
      simp only [WFFields] at h
      exact ⟨optOK_of_wf f x (hn f (by simp)) h.1, ih xs (fun g hg => hn g (by simp [hg])) h.2⟩

theorem authList_roundtrip (v : AuthListVal) (h : WFAuthList v) :
    ∃ body, marshalFields alSub authorizationList v = some body ∧
      (body.length < 2 ^ 31 → parseFields alSub authorizationList body = some v) := by
  obtain ⟨body, hm, hp⟩ := opt_roundtrip alSub authorizationList v authList_fields_ok authList_tags_distinct
    (allOK_of_wfFields _ _ authList_struct_names h)
  exact ⟨body, hm, fun hl => (hp hl).2⟩


theorem unmarshalStruct_ne_nil (sub : String → Option (SubOps σ)) (fs : List Field) (b : Bytes) (h : b ≠ []) :
    unmarshalStruct sub fs b =
      match parseTL b with
      | none => none
      | some (t, r) =>
        if t.cls ≠ 0 ∨ t.tag ≠ 16 ∨ t.compound ≠ true then none
        else if t.len > r.length then none
        else (parseFields sub fs (r.take t.len)).map (·, r.drop t.len) := by
  cases b with
  | nil => exact absurd rfl h
  | cons x xs => rfl

/-- a framed SEQUENCE whose contents decode to `v` -/
theorem unmarshalStruct_encTL (sub : String → Option (SubOps σ)) (fs : List Field) (body rest : Bytes) (v : List (FV σ))
    (hl : body.length < 2 ^ 31) (hp : parseFields sub fs body = some v) :
    unmarshalStruct sub fs (encTL 0 true 16 body.length ++ body ++ rest) = some (v, rest) := by
  rw [unmarshalStruct_ne_nil _ _ _ (by rw [List.append_assoc]; exact append_ne_nil_left _ _ (encTL_ne_nil _ _ _ _)),
    List.append_assoc, parseTL_encTL' _ _ _ _ _ (by omega) (by omega) hl]
  simp only []
  rw [if_neg (by simp), if_neg (by simp)]
  simp [hp]

theorem kdSub_authList : kdSub "AuthorizationList" = some alOpsVal := by
  simp only [kdSub, if_true]; exact alOps_eq

theorem presentOK_authList (f : Field) (hty : f.ty = .struct "AuthorizationList") (l : AuthListVal) (h : WFAuthList l) :
    PresentOK kdSub f (.sub l) := by
  obtain ⟨body, hm, hp⟩ := authList_roundtrip l h
  exact presentOK_struct kdSub f _ alOpsVal l body hty kdSub_authList hm hp

theorem kd_roundtrip (v : KDVal) (h : WFKD v) :
    ∃ b, KeyDesc.marshal v = some b ∧
      (b.length < 2 ^ 31 → ∀ rest, KeyDesc.unmarshal (b ++ rest) = some (v, rest)) := by
  obtain ⟨ver, sec, kmVer, kmSec, chal, uid, sw, tee, rfl, hver, hsec, hkmVer, hkmSec, hsw, htee⟩ := h
  obtain ⟨body, hm, hp⟩ := plain_roundtrip kdSub keyDescription _ (by decide)
    (show AllOK (PresentOK kdSub) keyDescription
      [.prim (.int ver), .prim (.int sec), .prim (.int kmVer), .prim (.int kmSec),
       .prim (.bytes (some chal)), .prim (.bytes (some uid)), .sub sw, .sub tee] from by
      simp only [keyDescription, AllOK, and_true]
      exact ⟨presentOK_int _ _ _ rfl hver, presentOK_enum _ _ _ rfl hsec, presentOK_int _ _ _ rfl hkmVer,
        presentOK_enum _ _ _ rfl hkmSec, presentOK_bytes _ _ _ rfl, presentOK_bytes _ _ _ rfl,
        presentOK_authList _ rfl _ hsw, presentOK_authList _ rfl _ htee⟩)
  refine ⟨encTL 0 true 16 body.length ++ body, by simp [KeyDesc.marshal, marshalStruct, hm], ?_⟩
  intro hl rest
  rw [List.length_append] at hl
  have := hp (by omega) []
  rw [List.append_nil] at this
  exact unmarshalStruct_encTL kdSub keyDescription body rest _ (by omega) this
end PartG

/-! ## the NULL-typed (flag) members -/
section PartH
open WebAuthn WebAuthn.Asn1 WebAuthn.Spec.Asn1 WebAuthn.KeyDesc WebAuthn.Generated.Asn1Schema

variable {σ : Type}

theorem parseTL_bool0 (rest : Bytes) : parseTL (0x01 :: 0x00 :: rest) = some (⟨0, false, 1, 0⟩, rest) := by
  simp [parseTL]

theorem parseTL_null0 (rest : Bytes) : parseTL (0x05 :: 0x00 :: rest) = some (⟨0, false, 5, 0⟩, rest) := by
  simp [parseTL]

theorem go_flag_reads_true' (sub : String → Option (SubOps σ)) (f : Field) (tg : Nat) (rest : Bytes)
    (hty : f.ty = .flag) (hex : f.explicit = true) (htag : f.tag = some tg) (htg : tg < 2 ^ 31) :
    parseField sub f (encTL 2 true tg 2 ++ [0x01, 0x00] ++ rest) = some (.prim (.bool true), rest) := by
  rw [parseField_ne_nil _ _ _ (by rw [List.append_assoc]; exact append_ne_nil_left _ _ (encTL_ne_nil _ _ _ _)),
    List.append_assoc, parseTL_encTL' _ _ _ _ _ (by omega) htg (by omega)]
  simp only [hex, htag, if_true]
  rw [if_neg (by simp), if_pos (by simp), if_pos (by omega)]
  simp only [List.cons_append, List.nil_append, parseTL_bool0]
  simp [pfGo, universal, hty, parseContents]

theorem explicit_null_not_read' (sub : String → Option (SubOps σ)) (f : Field) (tg : Nat) (rest : Bytes)
    (hty : f.ty = .flag) (hex : f.explicit = true) (hopt : f.optional = true) (htag : f.tag = some tg) (htg : tg < 2 ^ 31) :
    parseField sub f (encTL 2 true tg 2 ++ [0x05, 0x00] ++ rest) =
      some (.prim (.bool false), encTL 2 true tg 2 ++ [0x05, 0x00] ++ rest) := by
  rw [parseField_ne_nil _ _ _ (by rw [List.append_assoc]; exact append_ne_nil_left _ _ (encTL_ne_nil _ _ _ _)),
    List.append_assoc, parseTL_encTL' _ _ _ _ _ (by omega) htg (by omega)]
  simp only [hex, htag, if_true]
  rw [if_neg (by simp), if_pos (by simp), if_pos (by omega)]
  simp only [List.cons_append, List.nil_append, parseTL_null0]
  simp [pfGo, universal, hty, pfDflt, hopt, zeroOf]


theorem parseFields_stall (sub : String → Option (SubOps σ)) (fs : List Field) (b : Bytes) (z : Field → FV σ)
    (h : ∀ f ∈ fs, parseField sub f b = some (z f, b)) : parseFields sub fs b = some (fs.map z) := by
  induction fs with
  | nil => rfl
  | cons f fs ih =>
    simp only [parseFields, h f (by simp), List.map_cons]
    rw [ih (fun g hg => h g (by simp [hg]))]
    rfl

/-- the member-wise zero of `zeroAuthList` -/
def zeroMember (f : Field) : FV RotVal :=
  match f.ty with
  | .int | .enum => .prim (.int 0)
  | .flag | .bool => .prim (.bool false)
  | .bytes => .prim (.bytes none)
  | .intList => .prim (.ints none)
  | .struct _ => .sub zeroRot

theorem zeroAuthList_eq : zeroAuthList = authorizationList.map zeroMember := rfl

theorem zeroOf_alSub (f : Field) (hn : ∀ n, f.ty = .struct n → n = "RootOfTrust") :
    zeroOf alSub f.ty = some (zeroMember f) := by
  unfold zeroMember
  cases hty : f.ty with
  | struct n =>
    have := hn n hty; subst this
    simp [zeroOf, alSub, rotOps_eq, rotOpsVal]
  | _ => rfl

def flagTagB (f : Field) : Bool :=
  match f.tag with
  | some tg => !(flagTags.contains tg) || f.ty == .flag
  | none => true

theorem authList_flagTags : ∀ f ∈ authorizationList, ∀ tg ∈ flagTags, f.tag = some tg → f.ty = .flag := by
  have h : ∀ f ∈ authorizationList, flagTagB f = true := by decide
  intro f hf tg htg htag
  have := h f hf
  simp only [flagTagB, htag, Bool.or_eq_true, Bool.not_eq_true', beq_iff_eq] at this
  rcases this with h1 | h1
  · have : flagTags.contains tg = true := by simpa using htg
    rw [this] at h1; exact absurd h1 (by simp)
  · exact h1

theorem authList_stalls (tg : Nat) (htg : tg ∈ flagTags) (rest : Bytes) :
    parseFields alSub authorizationList (encTL 2 true tg 2 ++ [0x05, 0x00] ++ rest) = some zeroAuthList := by
  rw [zeroAuthList_eq]
  apply parseFields_stall
  intro f hf
  obtain ⟨hex, hopt, tgf, htag, htgf⟩ := authList_fields_ok f hf
  have hz := zeroOf_alSub f (authList_struct_names f hf)
  have htg31 : tg < 2 ^ 31 := by
    simp only [flagTags, List.mem_cons, List.mem_nil_iff, or_false] at htg
    omega
  by_cases he : tgf = tg
  · subst he
    have hty := authList_flagTags f hf tgf htg htag
    rw [explicit_null_not_read' alSub f tgf rest hty hex hopt htag htgf]
    simp [zeroMember, hty]
  · rw [List.append_assoc]
    rw [show ([0x05, 0x00] ++ rest : Bytes) = 0x05 :: (0x00 :: rest) from rfl]
    rw [parseField_skip alSub f tgf tg 2 _ _ hex htag (fun e => he e.symm) htg31 (by omega)]
    simp [pfDflt, hopt, hz]
end PartH

/-! ## the OCTET STRING and Apple-nonce decoders -/
section PartI
open WebAuthn WebAuthn.Asn1 WebAuthn.Spec.Asn1 WebAuthn.KeyDesc WebAuthn.Generated.Asn1Schema

theorem unmarshalOctetString_eq (b : Bytes) :
    unmarshalOctetString b =
      match parseTL b with
      | none => none
      | some (t, r) =>
        if t.cls ≠ 0 ∨ t.tag ≠ 4 ∨ t.compound ≠ false then none
        else if t.len > r.length then none
        else some (r.take t.len, r.drop t.len) := by
  cases b with
  | nil => rfl
  | cons x xs =>
    simp only [unmarshalOctetString]
    rw [parseField_ne_nil _ _ _ (by simp)]
    cases parseTL (x :: xs) with
    | none => rfl
    | some p =>
      obtain ⟨t, r⟩ := p
      simp only [pfGo, pfDflt, universal, parseContents, Bool.false_eq_true, ↓reduceIte, Option.map_some]
      by_cases hc : t.cls ≠ 0 ∨ t.tag ≠ 4 ∨ t.compound ≠ false
      · rw [if_pos hc, if_pos hc]
      · rw [if_neg hc, if_neg hc]
        by_cases hl : t.len > r.length
        · rw [if_pos hl, if_pos hl]
        · rw [if_neg hl, if_neg hl]

theorem octetStringExact_iff' (b v : Bytes) :
    KeyDesc.octetStringExact b = some v ↔ (b = encTL 0 false 4 v.length ++ v ∧ v.length < 2 ^ 31) := by
  unfold KeyDesc.octetStringExact
  rw [unmarshalOctetString_eq]
  constructor
  · intro h
    cases hp : parseTL b with
    | none => simp [hp] at h
    | some p =>
      obtain ⟨t, r⟩ := p
      obtain ⟨hb, -, -, hl⟩ := parseTL_canonical' b r t hp
      simp only [hp] at h
      by_cases hc : t.cls ≠ 0 ∨ t.tag ≠ 4 ∨ t.compound ≠ false
      · rw [if_pos hc] at h; simp at h
      · by_cases hlen : t.len > r.length
        · rw [if_neg hc, if_pos hlen] at h; simp at h
        · rw [if_neg hc, if_neg hlen] at h
          have hdl : (r.drop t.len).length = r.length - t.len := List.length_drop
          split at h
          · rename_i v' heq
            simp only [Option.some.injEq, Prod.mk.injEq] at heq h
            obtain ⟨h1, h2⟩ := heq
            subst h
            rw [h2] at hdl
            simp only [List.length_nil] at hdl
            have hrl : t.len = r.length := by omega
            have hv : v' = r := by rw [← h1, hrl, List.take_length]
            subst hv
            simp only [ne_eq, not_or, Decidable.not_not] at hc
            obtain ⟨c1, c2, c3⟩ := hc
            rw [c1, c2, c3, hrl] at hb
            exact ⟨hb, by omega⟩
          · simp at h
  · rintro ⟨rfl, hl⟩
    rw [← List.append_nil (encTL 0 false 4 v.length ++ v), List.append_assoc,
      parseTL_encTL' _ _ _ _ _ (by omega) (by omega) hl]
    simp


def nonceField : Field := ⟨"Nonce", .bytes, some 1, true, false, false⟩

theorem pfGo_some {σ : Type} (sub : String → Option (SubOps σ)) (f : Field) (t : TL) (r b' : Bytes) (x : FV σ)
    (h : pfGo sub f none t r = some (x, b')) :
    t.cls = 0 ∧ t.tag = (universal f).1 ∧ t.compound = (universal f).2 ∧ t.len ≤ r.length ∧
      parseContents sub f.ty (r.take t.len) = some x ∧ b' = r.drop t.len := by
  unfold pfGo at h
  by_cases hc : t.cls ≠ 0 ∨ t.tag ≠ (universal f).1 ∨ t.compound ≠ (universal f).2
  · rw [if_pos hc] at h; simp at h
  rw [if_neg hc] at h
  by_cases hl : t.len > r.length
  · rw [if_pos hl] at h; simp at h
  rw [if_neg hl] at h
  simp only [ne_eq, not_or, Decidable.not_not] at hc
  obtain ⟨c1, c2, c3⟩ := hc
  cases hpc : parseContents sub f.ty (r.take t.len) with
  | none => simp [hpc] at h
  | some y =>
    simp only [hpc, Option.map_some, Option.some.injEq, Prod.mk.injEq] at h
    exact ⟨c1, c2, c3, by omega, by rw [h.1], h.2.symm⟩

theorem nonceField_some (c b' : Bytes) (x : FV Empty) (h : parseField noSub nonceField c = some (x, b')) :
    ∃ t1 r1 t' r', parseTL c = some (t1, r1) ∧ t1.cls = 2 ∧ t1.tag = 1 ∧ t1.compound = true ∧ 0 < t1.len ∧
      parseTL r1 = some (t', r') ∧ t'.cls = 0 ∧ t'.tag = 4 ∧ t'.compound = false ∧ t'.len ≤ r'.length ∧
      x = .prim (.bytes (some (r'.take t'.len))) ∧ b' = r'.drop t'.len := by
  have hex : nonceField.explicit = true := rfl
  have hopt : nonceField.optional = false := rfl
  have htag : nonceField.tag = some 1 := rfl
  have hty : nonceField.ty = .bytes := rfl
  have hd : ∀ b, pfDflt noSub nonceField b = none := fun b => by simp [pfDflt, hopt]
  cases c with
  | nil => simp [parseField_nil, hd] at h
  | cons y ys =>
    rw [parseField_ne_nil _ _ _ (by simp)] at h
    cases hp : parseTL (y :: ys) with
    | none => simp [hp] at h
    | some p =>
      obtain ⟨t1, r1⟩ := p
      simp only [hp, hex, htag, hty, hd, ↓reduceIte] at h
      by_cases hr1 : r1 = []
      · rw [if_pos hr1] at h; simp at h
      rw [if_neg hr1] at h
      by_cases hc : t1.cls = 2 ∧ some t1.tag = some 1 ∧ (t1.len = 0 ∨ t1.compound = true)
      · rw [if_pos hc] at h
        by_cases hlen : t1.len > 0
        · rw [if_pos hlen] at h
          cases hp' : parseTL r1 with
          | none => simp [hp'] at h
          | some p' =>
            obtain ⟨t', r'⟩ := p'
            simp only [hp'] at h
            obtain ⟨c1, c2, c3, c4, c5, c6⟩ := pfGo_some _ _ _ _ _ _ h
            obtain ⟨d1, d2, d3⟩ := hc
            have d2' : t1.tag = 1 := Option.some.inj d2
            have d3' : t1.compound = true := by
              rcases d3 with d3 | d3
              · omega
              · exact d3
            simp only [hty, parseContents, Option.some.injEq] at c5
            exact ⟨t1, r1, t', r', rfl, d1, d2', d3', hlen, hp', c1, c2, c3, c4, c5.symm, c6⟩
        · rw [if_neg hlen] at h; simp at h
      · rw [if_neg hc] at h; simp at h

theorem apple_schema : appleAnonymousAttestation = [nonceField] := rfl

theorem appleNonce_some' (b v : Bytes) (h : KeyDesc.appleNonce b = some v) :
    ∃ l l1 junk rest, b = encTL 0 true 16 l ++ (encTL 2 true 1 l1 ++ encTL 0 false 4 v.length ++ v ++ junk) ++ rest ∧
      l = (encTL 2 true 1 l1 ++ encTL 0 false 4 v.length ++ v ++ junk).length ∧ 0 < l1 := by
  unfold KeyDesc.appleNonce at h
  rw [apple_schema] at h
  cases b with
  | nil => simp [unmarshalStruct] at h
  | cons y ys =>
    rw [unmarshalStruct_ne_nil _ _ _ (by simp)] at h
    cases hp : parseTL (y :: ys) with
    | none => simp [hp] at h
    | some p =>
      obtain ⟨t, r⟩ := p
      simp only [hp] at h
      by_cases hc : t.cls ≠ 0 ∨ t.tag ≠ 16 ∨ t.compound ≠ true
      · rw [if_pos hc] at h; simp at h
      rw [if_neg hc] at h
      by_cases hl : t.len > r.length
      · rw [if_pos hl] at h; simp at h
      rw [if_neg hl] at h
      simp only [ne_eq, not_or, Decidable.not_not] at hc
      obtain ⟨c1, c2, c3⟩ := hc
      simp only [parseFields] at h
      cases hpf : parseField noSub nonceField (r.take t.len) with
      | none => simp [hpf] at h
      | some q =>
        obtain ⟨x, b'⟩ := q
        simp only [hpf, Option.map_some] at h
        obtain ⟨t1, r1, t', r', e1, e2, e3, e4, e5, e6, e7, e8, e9, e10, e11, e12⟩ := nonceField_some _ _ _ hpf
        subst e11
        simp only [Option.some.injEq] at h
        subst h
        obtain ⟨hb, -, -, -⟩ := parseTL_canonical' _ _ _ hp
        obtain ⟨hb1, -, -, -⟩ := parseTL_canonical' _ _ _ e1
        obtain ⟨hb2, -, -, -⟩ := parseTL_canonical' _ _ _ e6
        rw [c1, c2, c3] at hb
        rw [e2, e3, e4] at hb1
        rw [e7, e8, e9] at hb2
        have hvl : (r'.take t'.len).length = t'.len := by rw [List.length_take]; omega
        have hr' : r' = r'.take t'.len ++ r'.drop t'.len := (List.take_append_drop _ _).symm
        have hr : r = r.take t.len ++ r.drop t.len := (List.take_append_drop _ _).symm
        have hcl : (r.take t.len).length = t.len := by rw [List.length_take]; omega
        refine ⟨t.len, t1.len, r'.drop t'.len, r.drop t.len, ?_, ?_, e5⟩
        · rw [hvl]
          have : encTL 2 true 1 t1.len ++ encTL 0 false 4 t'.len ++ List.take t'.len r' ++ List.drop t'.len r' =
              r.take t.len := by
            rw [hb1, hb2, List.append_assoc, List.append_assoc, ← hr']
          rw [this, hb, List.append_assoc, ← hr]
        · rw [hvl]
          have : encTL 2 true 1 t1.len ++ encTL 0 false 4 t'.len ++ List.take t'.len r' ++ List.drop t'.len r' =
              r.take t.len := by
            rw [hb1, hb2, List.append_assoc, List.append_assoc, ← hr']
          rw [this, hcl]

theorem appleNonce_canonical' (v rest : Bytes) (hv : v.length < 2 ^ 30) :
    KeyDesc.appleNonce
      (encTL 0 true 16 (encTL 2 true 1 (encTL 0 false 4 v.length ++ v).length ++ encTL 0 false 4 v.length ++ v).length ++
        (encTL 2 true 1 (encTL 0 false 4 v.length ++ v).length ++ encTL 0 false 4 v.length ++ v) ++ rest) = some v := by
  have hpc : parseContents noSub nonceField.ty v = some (.prim (.bytes (some v))) := rfl
  have h1 := (encTL_length_le 0 4 v.length false (by omega)).2
  have hil : (encTL 0 false 4 v.length ++ v).length < 2 ^ 30 + 16 := by rw [List.length_append]; omega
  have h2 := (encTL_length_le 2 1 (encTL 0 false 4 v.length ++ v).length true (by omega)).2
  have hpf := parseField_explicit noSub nonceField 1 v [] (.prim (.bytes (some v))) rfl rfl (by omega)
    (by show (encTL 0 false 4 v.length ++ v).length < 2 ^ 31; omega) hpc
  have hu : universal nonceField = (4, false) := rfl
  simp only [hu, List.append_nil] at hpf
  have hfs : parseFields noSub appleAnonymousAttestation
      (encTL 2 true 1 (encTL 0 false 4 v.length ++ v).length ++ encTL 0 false 4 v.length ++ v) =
      some [.prim (.bytes (some v))] := by
    rw [apple_schema]
    simp only [parseFields]
    rw [List.append_assoc, hpf]
    rfl
  unfold KeyDesc.appleNonce
  rw [unmarshalStruct_encTL noSub appleAnonymousAttestation _ rest _ (by
    rw [List.append_assoc, List.length_append]; omega) hfs]
end PartI

end WebAuthn.Proofs.Asn1Lemmas
