import WebAuthnModel.Proofs.CborFrame
import WebAuthnModel.Model.Json
/-
  Helper lemmas for `Theorems/C09Work.lean`:
  * the number of nodes of a decoded CBOR tree plus the length of the unconsumed rest is at most the length of the input;
  * the JSON value / member / element parsers: a successful run needs at most as much fuel as it consumed bytes, and more
    fuel never changes a successful result.
  Core Lean only.
-/
namespace WebAuthn.Cbor
open WebAuthn
set_option linter.unusedSimpArgs false
set_option linter.unusedVariables false

/-! ## CBOR: nodes are paid for by input bytes -/

mutual
/-- number of nodes of a CBOR value (same recursion as `Theorems.C09Work.nodes`) -/
def size : Value → Nat
  | .array xs => 1 + sizeList xs
  | .map kvs => 1 + sizeList kvs
  | .tag _ v => 1 + size v
  | _ => 1
def sizeList : List Value → Nat
  | [] => 0
  | v :: vs => size v + sizeList vs
end

theorem size_simpleOf (h : Head) : size (simpleOf h) = 1 := by
  unfold simpleOf
  split
  · simp [size]
  · split
    · simp [size]
    · split
      · simp [size]
      · split <;> simp [size]

def ItemLin (f : Nat) : Prop :=
  ∀ (d : Nat) (b : Bytes) (v : Value) (r : Bytes), item f d b = some (v, r) → size v + r.length ≤ b.length

def ItemsLin (f : Nat) : Prop :=
  ∀ (d n : Nat) (b : Bytes) (vs : List Value) (r : Bytes), items f d n b = some (vs, r) →
    sizeList vs + r.length ≤ b.length

def UntilBreakLin (f : Nat) : Prop :=
  ∀ (d : Nat) (m : Bool) (i : Nat) (b : Bytes) (vs : List Value) (r : Bytes),
    untilBreak f d m i b = some (vs, r) → sizeList vs + r.length ≤ b.length

theorem chunks_length (f mj : Nat) (b : Bytes) (cs : List Bytes) (r : Bytes) (h : chunks f mj b = some (cs, r)) :
    r.length ≤ b.length := by
  obtain ⟨p, _, rfl, _⟩ := chunks_frame f mj b cs r h
  simp

theorem takeExact_length (n : Nat) (b s r : Bytes) (h : takeExact n b = some (s, r)) : r.length ≤ b.length := by
  obtain ⟨rfl, _, _⟩ := takeExact_frame n b s r h
  simp

theorem item_lin_step (f : Nat) (hI : ItemLin f) (hIs : ItemsLin f) (hU : UntilBreakLin f) : ItemLin (f + 1) := by
  intro d b v r h
  cases hh : head b with
  | none => rw [item_head_none hh] at h; cases h
  | some hr =>
    obtain ⟨hd, rest⟩ := hr
    obtain ⟨p0, hp0, rfl, _⟩ := head_frame _ _ _ hh
    have hl := length_pos_of_ne_nil hp0
    simp only [List.length_append]
    by_cases hm0 : hd.major = 0
    · rw [item_uint hh hm0] at h
      simp only [Option.some.injEq, Prod.mk.injEq] at h
      obtain ⟨rfl, rfl⟩ := h
      simp only [size]; omega
    by_cases hm1 : hd.major = 1
    · rw [item_nint hh hm1] at h
      simp only [Option.some.injEq, Prod.mk.injEq] at h
      obtain ⟨rfl, rfl⟩ := h
      simp only [size]; omega
    by_cases hm2 : hd.major = 2
    · by_cases hai : hd.ai = 31
      · rw [item_bytes_indef hh hm2 hai] at h
        obtain ⟨a, hs, rfl⟩ := (wrap_eq_some _ _ _ _).1 h
        have := chunks_length _ _ _ _ _ hs
        simp only [size]; omega
      · rw [item_bytes_def hh hm2 hai] at h
        obtain ⟨a, hs, rfl⟩ := (wrap_eq_some _ _ _ _).1 h
        have := takeExact_length _ _ _ _ hs
        simp only [size]; omega
    by_cases hm3 : hd.major = 3
    · by_cases hai : hd.ai = 31
      · rw [item_text_indef hh hm3 hai] at h
        obtain ⟨a, hs, rfl⟩ := (wrap_eq_some _ _ _ _).1 h
        have := chunks_length _ _ _ _ _ hs
        simp only [size]; omega
      · rw [item_text_def hh hm3 hai] at h
        obtain ⟨a, hs, rfl⟩ := (wrap_eq_some _ _ _ _).1 h
        have := takeExact_length _ _ _ _ hs
        simp only [size]; omega
    by_cases hm4 : hd.major = 4
    · rw [item_array hh hm4] at h
      by_cases hd1 : d + 1 > maxNested
      · rw [if_pos hd1] at h; cases h
      rw [if_neg hd1] at h
      by_cases hai : hd.ai = 31
      · rw [if_pos hai] at h
        obtain ⟨a, hs, rfl⟩ := (wrap_eq_some _ _ _ _).1 h
        have := hU _ _ _ _ _ _ hs
        simp only [size]; omega
      rw [if_neg hai] at h
      by_cases hv : hd.val > maxElems
      · rw [if_pos hv] at h; cases h
      rw [if_neg hv] at h
      obtain ⟨a, hs, rfl⟩ := (wrap_eq_some _ _ _ _).1 h
      have := hIs _ _ _ _ _ hs
      simp only [size]; omega
    by_cases hm5 : hd.major = 5
    · rw [item_map hh hm5] at h
      by_cases hd1 : d + 1 > maxNested
      · rw [if_pos hd1] at h; cases h
      rw [if_neg hd1] at h
      by_cases hai : hd.ai = 31
      · rw [if_pos hai] at h
        obtain ⟨a, hs, rfl⟩ := (wrap_eq_some _ _ _ _).1 h
        have := hU _ _ _ _ _ _ hs
        simp only [size]; omega
      rw [if_neg hai] at h
      by_cases hv : hd.val > maxElems
      · rw [if_pos hv] at h; cases h
      rw [if_neg hv] at h
      obtain ⟨a, hs, rfl⟩ := (wrap_eq_some _ _ _ _).1 h
      have := hIs _ _ _ _ _ hs
      simp only [size]; omega
    by_cases hm6 : hd.major = 6
    · cases hrest : rest with
      | nil => rw [item_tag_nil hh hm6 hrest] at h; cases h
      | cons x t =>
        rw [item_tag_cons hh hm6 hrest] at h
        by_cases hdep : (if x.toNat / 32 = 6 then d + 1 else d) > maxNested
        · rw [if_pos hdep] at h; cases h
        rw [if_neg hdep] at h
        obtain ⟨a, hs, rfl⟩ := (wrap_eq_some _ _ _ _).1 h
        have := hI _ _ _ _ hs
        rw [hrest] at this
        simp only [size]; omega
    · rw [item_simple hh hm0 hm1 hm2 hm3 hm4 hm5 hm6] at h
      simp only [Option.some.injEq, Prod.mk.injEq] at h
      obtain ⟨rfl, rfl⟩ := h
      rw [size_simpleOf]; omega

theorem items_lin_step (f : Nat) (hI : ItemLin f) (hIs : ItemsLin f) : ItemsLin (f + 1) := by
  intro d n b vs r h
  cases n with
  | zero =>
    rw [items] at h
    simp only [Option.some.injEq, Prod.mk.injEq] at h
    obtain ⟨rfl, rfl⟩ := h
    simp [sizeList]
  | succ n =>
    rw [items] at h
    cases h1 : item f d b with
    | none => rw [h1] at h; cases h
    | some vr =>
      obtain ⟨v, r1⟩ := vr
      rw [h1] at h
      simp only at h
      cases h2 : items f d n r1 with
      | none => rw [h2] at h; cases h
      | some vsr =>
        obtain ⟨vs', r2⟩ := vsr
        rw [h2] at h
        simp only [Option.some.injEq, Prod.mk.injEq] at h
        obtain ⟨rfl, rfl⟩ := h
        have a1 := hI _ _ _ _ h1
        have a2 := hIs _ _ _ _ _ h2
        simp only [sizeList]; omega

theorem untilBreak_lin_step (f : Nat) (hI : ItemLin f) (hU : UntilBreakLin f) : UntilBreakLin (f + 1) := by
  intro d m i b vs r h
  cases b with
  | nil => rw [untilBreak] at h; cases h
  | cons x rest =>
    rw [untilBreak] at h
    by_cases hb : isBreak x = true
    · rw [if_pos hb] at h
      by_cases hodd : m = true ∧ i % 2 = 1
      · rw [if_pos hodd] at h; cases h
      rw [if_neg hodd] at h
      simp only [Option.some.injEq, Prod.mk.injEq] at h
      obtain ⟨rfl, rfl⟩ := h
      simp [sizeList]
    · rw [if_neg hb] at h
      cases h1 : item f d (x :: rest) with
      | none => rw [h1] at h; cases h
      | some vr =>
        obtain ⟨v, r1⟩ := vr
        rw [h1] at h
        simp only at h
        by_cases hlim : (!m) = true ∧ i + 1 > maxElems ∨ m = true ∧ (i + 1) % 2 = 0 ∧ (i + 1) / 2 > maxElems
        · rw [if_pos hlim] at h; cases h
        rw [if_neg hlim] at h
        cases h2 : untilBreak f d m (i + 1) r1 with
        | none => rw [h2] at h; cases h
        | some vsr =>
          obtain ⟨vs', r2⟩ := vsr
          rw [h2] at h
          simp only [Option.some.injEq, Prod.mk.injEq] at h
          obtain ⟨rfl, rfl⟩ := h
          have a1 := hI _ _ _ _ h1
          have a2 := hU _ _ _ _ _ _ h2
          simp only [sizeList]; omega

theorem all_lin (f : Nat) : ItemLin f ∧ ItemsLin f ∧ UntilBreakLin f := by
  induction f with
  | zero =>
    refine ⟨?_, ?_, ?_⟩
    · intro d b v r h; rw [item_zero] at h; cases h
    · intro d n b vs r h; rw [items_zero] at h; cases h
    · intro d m i b vs r h; rw [untilBreak_zero] at h; cases h
  | succ f ih =>
    obtain ⟨hI, hIs, hU⟩ := ih
    exact ⟨item_lin_step f hI hIs hU, items_lin_step f hI hIs, untilBreak_lin_step f hI hU⟩

/-- every node of a decoded item consumed at least one byte -/
theorem item_size_linear (f d : Nat) (b : Bytes) (v : Value) (r : Bytes) (h : item f d b = some (v, r)) :
    size v + r.length ≤ b.length := (all_lin f).1 d b v r h

end WebAuthn.Cbor

namespace WebAuthn.Json
open WebAuthn
set_option linter.unusedSimpArgs false
set_option linter.unusedVariables false

/-! ## JSON: lengths of what the scanners leave -/

theorem skipSpace_length_le (s : Bytes) : (skipSpace s).length ≤ s.length := by
  induction s with
  | nil => simp [skipSpace]
  | cons b s ih =>
    rw [skipSpace]
    split
    · simp only [List.length_cons]; omega
    · exact Nat.le_refl _

theorem skipSpace_cons_length {s : Bytes} {b : UInt8} {rest : Bytes} (h : skipSpace s = b :: rest) :
    rest.length < s.length := by
  have := skipSpace_length_le s
  rw [h] at this
  simp only [List.length_cons] at this
  omega

theorem scanString_length_aux (n : Nat) : ∀ (s : Bytes), s.length ≤ n → ∀ (k r : Bytes),
    scanString s = some (k, r) → r.length < s.length := by
  induction n with
  | zero =>
    intro s hs k r h
    cases s with
    | nil => simp [scanString] at h
    | cons _ _ => simp at hs
  | succ n ih =>
    intro s hs k r h
    rw [scanString.eq_def] at h
    split at h
    · cases h
    · rename_i b rest
      simp only [List.length_cons] at hs ⊢
      split at h
      · simp only [Option.some.injEq, Prod.mk.injEq] at h
        obtain ⟨_, rfl⟩ := h
        omega
      · split at h
        · split at h
          · rename_i e rest'
            split at h
            · split at h
              · rename_i h1 h2 h3 h4 rest''
                split at h
                · obtain ⟨⟨k', r'⟩, hk, heq⟩ := Option.map_eq_some_iff.1 h
                  simp only [Prod.mk.injEq] at heq
                  obtain ⟨_, rfl⟩ := heq
                  have := ih rest'' (by simp only [List.length_cons] at hs; omega) _ _ hk
                  simp only [List.length_cons]; omega
                · cases h
              · cases h
            · split at h
              · obtain ⟨⟨k', r'⟩, hk, heq⟩ := Option.map_eq_some_iff.1 h
                simp only [Prod.mk.injEq] at heq
                obtain ⟨_, rfl⟩ := heq
                have := ih rest' (by simp only [List.length_cons] at hs; omega) _ _ hk
                simp only [List.length_cons]; omega
              · cases h
          · cases h
        · split at h
          · cases h
          · obtain ⟨⟨k', r'⟩, hk, heq⟩ := Option.map_eq_some_iff.1 h
            simp only [Prod.mk.injEq] at heq
            obtain ⟨_, rfl⟩ := heq
            have := ih rest (by omega) _ _ hk
            omega

theorem scanString_length {s k r : Bytes} (h : scanString s = some (k, r)) : r.length < s.length :=
  scanString_length_aux s.length s (Nat.le_refl _) k r h

theorem takeDigits_length (s : Bytes) : (takeDigits s).2.length ≤ s.length := by
  induction s with
  | nil => simp [takeDigits]
  | cons b s ih =>
    rw [takeDigits]
    split
    · simp only [List.length_cons]; omega
    · exact Nat.le_refl _

def numSign (s : Bytes) : Bytes :=
  match s with
  | b :: rest => if b = c '-' then rest else s
  | [] => s
def numInt (s : Bytes) : Option Bytes :=
  match s with
  | b :: rest =>
    if b = c '0' then some rest
    else if isDigit b then some (takeDigits rest).2
    else none
  | [] => none
def numFrac (s : Bytes) : Option Bytes :=
  match s with
  | b :: rest =>
    if b = c '.' then
      let (d, r) := takeDigits rest
      if d = [] then none else some r
    else some s
  | [] => some s
def numExpSign (rest : Bytes) : Bytes :=
  match rest with
  | sg :: r => if sg = c '+' || sg = c '-' then r else rest
  | [] => rest
def numExp (s : Bytes) : Option Bytes :=
  match s with
  | b :: rest =>
    if b = c 'e' || b = c 'E' then
      let rest := numExpSign rest
      let (d, r) := takeDigits rest
      if d = [] then none else some r
    else some s
  | [] => some s

theorem scanNumber_eq (s : Bytes) : scanNumber s =
    match numInt (numSign s) with
    | none => none
    | some s => match numFrac s with
      | none => none
      | some s => numExp s := by
  rfl

theorem numSign_length (s : Bytes) : (numSign s).length ≤ s.length := by
  unfold numSign
  split
  · split
    · simp
    · exact Nat.le_refl _
  · exact Nat.le_refl _

theorem numInt_length {s r : Bytes} (h : numInt s = some r) : r.length < s.length := by
  unfold numInt at h
  split at h
  · rename_i b rest
    split at h
    · cases h; simp
    · split at h
      · cases h
        have := takeDigits_length rest
        simp only [List.length_cons]; omega
      · cases h
  · cases h

theorem numFrac_length {s r : Bytes} (h : numFrac s = some r) : r.length ≤ s.length := by
  unfold numFrac at h
  split at h
  · rename_i b rest
    split at h
    · simp only at h
      split at h
      · cases h
      · cases h
        have := takeDigits_length rest
        simp only [List.length_cons]; omega
    · cases h; exact Nat.le_refl _
  · cases h; exact Nat.le_refl _

theorem numExp_length {s r : Bytes} (h : numExp s = some r) : r.length ≤ s.length := by
  unfold numExp at h
  split at h
  · rename_i b rest
    split at h
    · simp only at h
      split at h
      · cases h
      · cases h
        rename_i hne
        refine Nat.le_trans (takeDigits_length _) ?_
        unfold numExpSign
        split
        · split
          · simp only [List.length_cons]; omega
          · simp
        · simp
    · cases h; exact Nat.le_refl _
  · cases h; exact Nat.le_refl _

theorem scanNumber_length {s r : Bytes} (h : scanNumber s = some r) : r.length < s.length := by
  rw [scanNumber_eq] at h
  have h0 := numSign_length s
  cases h1 : numInt (numSign s) with
  | none => rw [h1] at h; cases h
  | some s1 =>
    rw [h1] at h
    simp only at h
    have := numInt_length h1
    cases h2 : numFrac s1 with
    | none => rw [h2] at h; cases h
    | some s2 =>
      rw [h2] at h
      simp only at h
      have := numFrac_length h2
      have := numExp_length h
      omega

/-! ## JSON: fuel -/

/-- the fuel-independent part of `parseValue`: literals, strings and numbers -/
def leafValue (b : UInt8) (rest : Bytes) : Option (JVal × Bytes) :=
  if b = c '"' then (scanString rest).map (fun p => (.str p.1, p.2))
  else if b = c 't' then (if (rest.take 3) = [c 'r', c 'u', c 'e'] then some (.bool true, rest.drop 3) else none)
  else if b = c 'f' then (if (rest.take 4) = [c 'a', c 'l', c 's', c 'e'] then some (.bool false, rest.drop 4) else none)
  else if b = c 'n' then (if (rest.take 3) = [c 'u', c 'l', c 'l'] then some (.null, rest.drop 3) else none)
  else if b = c '-' || isDigit b then (scanNumber (b :: rest)).map (fun r => (.num, r))
  else none

theorem leafValue_length {b : UInt8} {rest : Bytes} {v : JVal} {r : Bytes} (h : leafValue b rest = some (v, r)) :
    r.length ≤ rest.length := by
  unfold leafValue at h
  split at h
  · obtain ⟨⟨k', r'⟩, hk, heq⟩ := Option.map_eq_some_iff.1 h
    simp only [Prod.mk.injEq] at heq
    obtain ⟨_, rfl⟩ := heq
    exact Nat.le_of_lt (scanString_length hk)
  · split at h
    · split at h
      · cases h; simp
      · cases h
    · split at h
      · split at h
        · cases h; simp
        · cases h
      · split at h
        · split at h
          · cases h; simp
          · cases h
        · split at h
          · obtain ⟨r', hk, heq⟩ := Option.map_eq_some_iff.1 h
            simp only [Prod.mk.injEq] at heq
            obtain ⟨_, rfl⟩ := heq
            have := scanNumber_length hk
            simp only [List.length_cons] at this
            omega
          · cases h

theorem parseValue_leaf (f d : Nat) (s : Bytes) (b : UInt8) (rest : Bytes) (hs : skipSpace s = b :: rest)
    (h1 : b ≠ c '{') (h2 : b ≠ c '[') : parseValue (f + 1) d s = leafValue b rest := by
  rw [parseValue, hs]
  simp only [if_neg h1, if_neg h2]
  rfl

theorem parseValue_obj (f d : Nat) (s : Bytes) (rest : Bytes) (hs : skipSpace s = c '{' :: rest) :
    parseValue (f + 1) d s =
      if d + 1 > maxDepth then none
      else match skipSpace rest with
        | b2 :: rest2 => if b2 = c '}' then some (.obj [], rest2) else (parseMembers f (d + 1) rest).map (fun p => (.obj p.1, p.2))
        | [] => none := by
  rw [parseValue, hs]
  simp only [if_true]
  rfl

theorem parseValue_arr (f d : Nat) (s : Bytes) (rest : Bytes) (hs : skipSpace s = c '[' :: rest) :
    parseValue (f + 1) d s =
      if d + 1 > maxDepth then none
      else match skipSpace rest with
        | b2 :: rest2 => if b2 = c ']' then some (.arr [], rest2) else (parseElems f (d + 1) rest).map (fun p => (.arr p.1, p.2))
        | [] => none := by
  rw [parseValue, hs]
  simp only [show c '[' ≠ c '{' by decide, if_false, if_true]
  rfl

def ValFuel (f : Nat) : Prop :=
  ∀ (d : Nat) (s : Bytes) (v : JVal) (r : Bytes), parseValue f d s = some (v, r) →
    ∃ k, 1 ≤ k ∧ k ≤ f ∧ k + r.length ≤ s.length ∧ ∀ f', k ≤ f' → parseValue f' d s = some (v, r)

def MemFuel (f : Nat) : Prop :=
  ∀ (d : Nat) (s : Bytes) (v : List (Bytes × JVal)) (r : Bytes), parseMembers f d s = some (v, r) →
    ∃ k, 1 ≤ k ∧ k ≤ f ∧ k + r.length ≤ s.length ∧ ∀ f', k ≤ f' → parseMembers f' d s = some (v, r)

def ElemFuel (f : Nat) : Prop :=
  ∀ (d : Nat) (s : Bytes) (v : List JVal) (r : Bytes), parseElems f d s = some (v, r) →
    ∃ k, 1 ≤ k ∧ k ≤ f ∧ k + r.length ≤ s.length ∧ ∀ f', k ≤ f' → parseElems f' d s = some (v, r)


theorem val_step (f : Nat) (hM : MemFuel f) (hE : ElemFuel f) : ValFuel (f + 1) := by
  intro d s v r h
  cases hs : skipSpace s with
  | nil => rw [parseValue, hs] at h; cases h
  | cons b rest =>
    have hlen := skipSpace_cons_length hs
    by_cases hb1 : b = c '{'
    · subst hb1
      rw [parseValue_obj f d s rest hs] at h
      by_cases hd : d + 1 > maxDepth
      · rw [if_pos hd] at h; cases h
      rw [if_neg hd] at h
      cases hs2 : skipSpace rest with
      | nil => rw [hs2] at h; cases h
      | cons b2 rest2 =>
        rw [hs2] at h
        simp only at h
        have hlen2 := skipSpace_cons_length hs2
        by_cases hb2 : b2 = c '}'
        · rw [if_pos hb2] at h
          simp only [Option.some.injEq, Prod.mk.injEq] at h
          obtain ⟨rfl, rfl⟩ := h
          refine ⟨1, Nat.le_refl _, by omega, by omega, fun f' hf' => ?_⟩
          obtain ⟨f'', rfl, _⟩ := Cbor.exists_succ_of_le hf'
          rw [parseValue_obj f'' d s rest hs, if_neg hd, hs2]
          simp only [if_pos hb2]
        · rw [if_neg hb2] at h
          obtain ⟨⟨kvs, r'⟩, hm, heq⟩ := Option.map_eq_some_iff.1 h
          simp only [Prod.mk.injEq] at heq
          obtain ⟨rfl, rfl⟩ := heq
          obtain ⟨k, hk1, hk2, hk3, hfr⟩ := hM _ _ _ _ hm
          refine ⟨k + 1, by omega, by omega, by omega, fun f' hf' => ?_⟩
          obtain ⟨f'', rfl, hf''⟩ := Cbor.exists_succ_of_le hf'
          rw [parseValue_obj f'' d s rest hs, if_neg hd, hs2]
          simp only [if_neg hb2, hfr f'' hf'', Option.map_some]
    by_cases hb2 : b = c '['
    · subst hb2
      rw [parseValue_arr f d s rest hs] at h
      by_cases hd : d + 1 > maxDepth
      · rw [if_pos hd] at h; cases h
      rw [if_neg hd] at h
      cases hs2 : skipSpace rest with
      | nil => rw [hs2] at h; cases h
      | cons b2 rest2 =>
        rw [hs2] at h
        simp only at h
        have hlen2 := skipSpace_cons_length hs2
        by_cases hb2 : b2 = c ']'
        · rw [if_pos hb2] at h
          simp only [Option.some.injEq, Prod.mk.injEq] at h
          obtain ⟨rfl, rfl⟩ := h
          refine ⟨1, Nat.le_refl _, by omega, by omega, fun f' hf' => ?_⟩
          obtain ⟨f'', rfl, _⟩ := Cbor.exists_succ_of_le hf'
          rw [parseValue_arr f'' d s rest hs, if_neg hd, hs2]
          simp only [if_pos hb2]
        · rw [if_neg hb2] at h
          obtain ⟨⟨kvs, r'⟩, hm, heq⟩ := Option.map_eq_some_iff.1 h
          simp only [Prod.mk.injEq] at heq
          obtain ⟨rfl, rfl⟩ := heq
          obtain ⟨k, hk1, hk2, hk3, hfr⟩ := hE _ _ _ _ hm
          refine ⟨k + 1, by omega, by omega, by omega, fun f' hf' => ?_⟩
          obtain ⟨f'', rfl, hf''⟩ := Cbor.exists_succ_of_le hf'
          rw [parseValue_arr f'' d s rest hs, if_neg hd, hs2]
          simp only [if_neg hb2, hfr f'' hf'', Option.map_some]
    · rw [parseValue_leaf f d s b rest hs hb1 hb2] at h
      have := leafValue_length h
      refine ⟨1, Nat.le_refl _, by omega, by omega, fun f' hf' => ?_⟩
      obtain ⟨f'', rfl, _⟩ := Cbor.exists_succ_of_le hf'
      rw [parseValue_leaf f'' d s b rest hs hb1 hb2, h]

theorem mem_step (f : Nat) (hV : ValFuel f) (hM : MemFuel f) : MemFuel (f + 1) := by
  intro d s v r h
  rw [parseMembers] at h
  cases hs : skipSpace s with
  | nil => rw [hs] at h; cases h
  | cons b rest =>
    rw [hs] at h
    simp only at h
    have hlen := skipSpace_cons_length hs
    by_cases hb : b ≠ c '"'
    · rw [if_pos hb] at h; cases h
    rw [if_neg hb] at h
    cases hss : scanString rest with
    | none => rw [hss] at h; cases h
    | some kr =>
      obtain ⟨key, rest1⟩ := kr
      rw [hss] at h
      simp only at h
      have hlen1 := scanString_length hss
      cases hs2 : skipSpace rest1 with
      | nil => rw [hs2] at h; cases h
      | cons b2 rest2 =>
        rw [hs2] at h
        simp only at h
        have hlen2 := skipSpace_cons_length hs2
        by_cases hb2 : b2 ≠ c ':'
        · rw [if_pos hb2] at h; cases h
        rw [if_neg hb2] at h
        cases hv : parseValue f d rest2 with
        | none => rw [hv] at h; cases h
        | some vr =>
          obtain ⟨v1, rest3⟩ := vr
          rw [hv] at h
          simp only at h
          obtain ⟨kv, hkv1, hkv2, hkv3, hfrv⟩ := hV _ _ _ _ hv
          cases hs3 : skipSpace rest3 with
          | nil => rw [hs3] at h; cases h
          | cons b3 rest4 =>
            rw [hs3] at h
            simp only at h
            have hlen3 := skipSpace_cons_length hs3
            by_cases hb3 : b3 = c '}'
            · rw [if_pos hb3] at h
              simp only [Option.some.injEq, Prod.mk.injEq] at h
              obtain ⟨rfl, rfl⟩ := h
              refine ⟨kv + 1, by omega, by omega, by omega, fun f' hf' => ?_⟩
              obtain ⟨f'', rfl, hf''⟩ := Cbor.exists_succ_of_le hf'
              rw [parseMembers, hs]
              simp only [if_neg hb, hss, hs2, if_neg hb2, hfrv f'' hf'', hs3, if_pos hb3]
            · rw [if_neg hb3] at h
              by_cases hb4 : b3 = c ','
              · rw [if_pos hb4] at h
                obtain ⟨⟨kvs, r'⟩, hm, heq⟩ := Option.map_eq_some_iff.1 h
                simp only [Prod.mk.injEq] at heq
                obtain ⟨rfl, rfl⟩ := heq
                obtain ⟨km, hkm1, hkm2, hkm3, hfrm⟩ := hM _ _ _ _ hm
                refine ⟨max kv km + 1, by omega, by omega, by omega, fun f' hf' => ?_⟩
                obtain ⟨f'', rfl, hf''⟩ := Cbor.exists_succ_of_le hf'
                rw [parseMembers, hs]
                simp only [if_neg hb, hss, hs2, if_neg hb2, hfrv f'' (by omega), hs3, if_neg hb3, if_pos hb4,
                  hfrm f'' (by omega), Option.map_some]
              · rw [if_neg hb4] at h; cases h

theorem elem_step (f : Nat) (hV : ValFuel f) (hE : ElemFuel f) : ElemFuel (f + 1) := by
  intro d s v r h
  rw [parseElems] at h
  cases hv : parseValue f d s with
  | none => rw [hv] at h; cases h
  | some vr =>
    obtain ⟨v1, rest⟩ := vr
    rw [hv] at h
    simp only at h
    obtain ⟨kv, hkv1, hkv2, hkv3, hfrv⟩ := hV _ _ _ _ hv
    cases hs : skipSpace rest with
    | nil => rw [hs] at h; cases h
    | cons b rest2 =>
      rw [hs] at h
      simp only at h
      have hlen := skipSpace_cons_length hs
      by_cases hb : b = c ']'
      · rw [if_pos hb] at h
        simp only [Option.some.injEq, Prod.mk.injEq] at h
        obtain ⟨rfl, rfl⟩ := h
        refine ⟨kv + 1, by omega, by omega, by omega, fun f' hf' => ?_⟩
        obtain ⟨f'', rfl, hf''⟩ := Cbor.exists_succ_of_le hf'
        rw [parseElems]
        simp only [hfrv f'' hf'', hs, if_pos hb]
      · rw [if_neg hb] at h
        by_cases hb4 : b = c ','
        · rw [if_pos hb4] at h
          obtain ⟨⟨vs, r'⟩, hm, heq⟩ := Option.map_eq_some_iff.1 h
          simp only [Prod.mk.injEq] at heq
          obtain ⟨rfl, rfl⟩ := heq
          obtain ⟨km, hkm1, hkm2, hkm3, hfrm⟩ := hE _ _ _ _ hm
          refine ⟨max kv km + 1, by omega, by omega, by omega, fun f' hf' => ?_⟩
          obtain ⟨f'', rfl, hf''⟩ := Cbor.exists_succ_of_le hf'
          rw [parseElems]
          simp only [hfrv f'' (by omega), hs, if_neg hb, if_pos hb4, hfrm f'' (by omega), Option.map_some]
        · rw [if_neg hb4] at h; cases h

theorem all_fuel (f : Nat) : ValFuel f ∧ MemFuel f ∧ ElemFuel f := by
  induction f with
  | zero =>
    refine ⟨?_, ?_, ?_⟩
    · intro d s v r h; rw [parseValue] at h; cases h
    · intro d s v r h; rw [parseMembers] at h; cases h
    · intro d s v r h; rw [parseElems] at h; cases h
  | succ f ih =>
    obtain ⟨hV, hM, hE⟩ := ih
    exact ⟨val_step f hM hE, mem_step f hV hM, elem_step f hV hE⟩

/-- a successful run consumed at least one byte per unit of fuel it needed, and more fuel never changes it -/
theorem parseValue_small_fuel (f d : Nat) (s : Bytes) (v : JVal) (r : Bytes) (h : parseValue f d s = some (v, r)) :
    r.length < s.length ∧ ∀ f', s.length - r.length ≤ f' → parseValue f' d s = some (v, r) := by
  obtain ⟨k, hk1, _, hk3, hfr⟩ := (all_fuel f).1 d s v r h
  exact ⟨by omega, fun f' hf' => hfr f' (by omega)⟩

theorem parseValue_fuel_mono (f f' d : Nat) (s : Bytes) (x : JVal × Bytes) (hf : f ≤ f')
    (h : parseValue f d s = some x) : parseValue f' d s = some x := by
  obtain ⟨v, r⟩ := x
  obtain ⟨k, _, hk2, _, hfr⟩ := (all_fuel f).1 d s v r h
  exact hfr f' (by omega)

theorem parseValue_fuel_sufficient (f d : Nat) (s : Bytes) (hf : s.length + 1 ≤ f) :
    parseValue f d s = parseValue (s.length + 1) d s := by
  cases h : parseValue f d s with
  | some vr =>
    obtain ⟨v, r⟩ := vr
    symm
    exact (parseValue_small_fuel f d s v r h).2 _ (by omega)
  | none =>
    cases h' : parseValue (s.length + 1) d s with
    | none => rfl
    | some vr =>
      rw [parseValue_fuel_mono _ f d s vr hf h'] at h
      cases h

theorem isSpace_lbracket : isSpace (c '[') = false := by decide

/-- an opening bracket at the depth limit is refused whatever the fuel -/
theorem parseValue_depth_limited (f : Nat) (rest : Bytes) : parseValue f maxDepth (c '[' :: rest) = none := by
  cases f with
  | zero => rw [parseValue]
  | succ f =>
    have hs : skipSpace (c '[' :: rest) = c '[' :: rest := by
      rw [skipSpace, if_neg (by simp [isSpace_lbracket])]
    rw [parseValue_arr f maxDepth _ rest hs, if_pos (Nat.lt_succ_self _)]

end WebAuthn.Json
