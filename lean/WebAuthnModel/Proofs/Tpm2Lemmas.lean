import WebAuthnModel.Model.Tpm2
import WebAuthnModel.Proofs.BytesLemmas
/-
  Lemmas about the TPM structure codec of `Model/Tpm2.lean`: fixed-width fields and TPM2B byte strings decode what was
  encoded, and each sub-structure (name, symmetric / signature / KDF scheme) decodes its own re-encoding to itself.
-/
namespace WebAuthn.Tpm2
open WebAuthn

/-! ## fixed-width fields -/

@[simp] theorem pad_length (w n : Nat) : (pad w n).length = w := Bytes.length_ofNatBE w n

theorem be_pad (w n : Nat) (h : n < 256 ^ w) : be (pad w n) = n := Bytes.beNat_ofNatBE w n h

theorem pad_be (w : Nat) (x : Bytes) (h : x.length = w) : pad w (be x) = x := Bytes.ofNatBE_beNat w x h

theorem fixed_append (n : Nat) (x : Bytes) (h : x.length = n) (r : Bytes) : fixed n (x ++ r) = some (be x, r) := by
  unfold fixed
  rw [if_neg (by rw [List.length_append]; omega), Bytes.take_append_of_length _ _ _ h, Bytes.drop_append_of_length _ _ _ h]

theorem fixed_pad (n v : Nat) (h : v < 256 ^ n) (r : Bytes) : fixed n (pad n v ++ r) = some (v, r) := by
  rw [fixed_append _ _ (pad_length _ _), be_pad _ _ h]

/-- what a successful `fixed` says about its input -/
theorem fixed_some {n : Nat} {b : Bytes} {v : Nat} {r : Bytes} (h : fixed n b = some (v, r)) :
    v < 256 ^ n ∧ (b.take n).length = n ∧ v = be (b.take n) ∧ r = b.drop n := by
  unfold fixed at h
  split at h
  · cases h
  · rename_i hl
    simp only [Option.some.injEq, Prod.mk.injEq] at h
    obtain ⟨rfl, rfl⟩ := h
    have hl' : (b.take n).length = n := by rw [List.length_take]; omega
    refine ⟨?_, hl', rfl, rfl⟩
    have := Bytes.beNat_lt (b.take n)
    rw [hl'] at this
    exact this

/-! ## TPM2B -/

theorem u16bytes_some {b x r : Bytes} (h : u16bytes b = some (x, r)) : x.length < 65536 := by
  unfold u16bytes at h
  cases hf : fixed 2 b with
  | none => rw [hf] at h; cases h
  | some p =>
    obtain ⟨n, r0⟩ := p
    rw [hf] at h
    dsimp only at h
    split at h
    · cases h
    · rename_i hl
      simp only [Option.some.injEq, Prod.mk.injEq] at h
      obtain ⟨rfl, rfl⟩ := h
      have := (fixed_some hf).1
      rw [List.length_take]
      omega

theorem u16bytes_append (x : Bytes) (h : x.length < 65536) (r : Bytes) :
    u16bytes (pad 2 x.length ++ (x ++ r)) = some (x, r) := by
  unfold u16bytes
  rw [fixed_pad _ _ (by omega)]
  dsimp only
  rw [if_neg (by rw [List.length_append]; omega), List.take_left, List.drop_left]

/-! ## names -/

theorem hashSize_bounds (h : Nat) : hashSize h ≤ 64 ∧ hashSize h ≠ 2 := by
  unfold hashSize
  repeat' split
  all_goals omega

theorem decodeName_of_buf (t : HashTable) (buf : Bytes) (n : TpmName) (hlen : buf.length < 65536)
    (hdec : decodeNameBuf t buf = some n) (r' : Bytes) :
    decodeName t (pad 2 buf.length ++ buf ++ r') = some (n, (if buf.length = 4 then buf else []), r') := by
  unfold decodeName
  rw [List.append_assoc, u16bytes_append _ hlen]
  simp only [hdec, Option.map_some]

/-- a decoded name, re-encoded, decodes to the same name (and the same handle bytes) whatever follows -/
theorem decodeName_reencode {t : HashTable} {b : Bytes} {n : TpmName} {hb r : Bytes}
    (h : decodeName t b = some (n, hb, r)) (r' : Bytes) :
    decodeName t (encodeName n hb ++ r') = some (n, hb, r') := by
  unfold decodeName at h
  cases hu : u16bytes b with
  | none => rw [hu] at h; cases h
  | some p =>
  obtain ⟨nb, rest⟩ := p
  rw [hu] at h
  dsimp only at h
  have hnb := u16bytes_some hu
  cases hd : decodeNameBuf t nb with
  | none => rw [hd] at h; cases h
  | some n' =>
  rw [hd] at h
  simp only [Option.map_some, Option.some.injEq, Prod.mk.injEq] at h
  obtain ⟨rfl, rfl, rfl⟩ := h
  unfold decodeNameBuf at hd
  split at hd
  · rename_i h0
    cases hd
    have hnil : nb = [] := List.eq_nil_of_length_eq_zero h0
    subst hnil
    exact decodeName_of_buf t [] .none (by decide) (by rfl) r'
  · rename_i h0
    split at hd
    · rename_i h4
      cases hd
      rw [if_pos h4]
      have := decodeName_of_buf t nb .handle hnb (by unfold decodeNameBuf; rw [if_neg h0, if_pos h4]) r'
      rw [if_pos h4] at this
      exact this
    · rename_i h4
      rw [if_neg h4]
      cases hf : fixed 2 nb with
      | none => rw [hf] at hd; cases hd
      | some q =>
      obtain ⟨alg, r0⟩ := q
      rw [hf] at hd
      dsimp only at hd
      have halg := (fixed_some hf).1
      cases hh : hashOf t alg with
      | none => rw [hh] at hd; cases hd
      | some hid =>
      rw [hh] at hd
      dsimp only at hd
      split at hd
      · cases hd
      · rename_i hemp
        cases hd
        obtain ⟨hs64, hs2⟩ := hashSize_bounds hid
        -- the digest value has exactly the hash size
        have hv : (List.take (hashSize hid) r0 ++ List.replicate (hashSize hid - (List.take (hashSize hid) r0).length) 0).length
            = hashSize hid := by
          rw [List.length_append, List.length_replicate, List.length_take]; omega
        generalize List.take (hashSize hid) r0 ++ List.replicate (hashSize hid - (List.take (hashSize hid) r0).length) 0 = v at hv
        have hbl : (pad 2 alg ++ v).length = 2 + hashSize hid := by rw [List.length_append, pad_length, hv]
        have hdec : decodeNameBuf t (pad 2 alg ++ v) = some (.digest alg v) := by
          unfold decodeNameBuf
          rw [if_neg (by omega), if_neg (by omega), fixed_pad _ _ halg]
          dsimp only
          rw [hh]
          dsimp only
          rw [if_neg (by rintro ⟨hpos, rfl⟩; simp at hv; omega), List.take_of_length_le (by omega)]
          simp [hv]
        have := decodeName_of_buf t (pad 2 alg ++ v) (.digest alg v) (by omega) hdec r'
        rw [if_neg (by omega)] at this
        exact this

/-! ## schemes -/

theorem symScheme_null (r' : Bytes) : symScheme (pad 2 algNull ++ r') = some (pad 2 algNull, r') := by
  unfold symScheme
  rw [fixed_pad _ _ (by decide)]
  simp

theorem symScheme_reencode {b e r : Bytes} (h : symScheme b = some (e, r)) (r' : Bytes) :
    symScheme (e ++ r') = some (e, r') := by
  unfold symScheme at h
  cases hf : fixed 2 b with
  | none => rw [hf] at h; cases h
  | some p =>
  obtain ⟨alg, r0⟩ := p
  rw [hf] at h
  dsimp only at h
  have halg := (fixed_some hf).1
  split at h
  · cases h; exact symScheme_null r'
  · rename_i hne
    cases hf4 : fixed 4 r0 with
    | none => rw [hf4] at h; cases h
    | some q =>
    obtain ⟨kb, r1⟩ := q
    rw [hf4] at h
    simp only [Option.some.injEq, Prod.mk.injEq] at h
    obtain ⟨rfl, rfl⟩ := h
    split
    · exact symScheme_null r'
    · rename_i hnn
      unfold symScheme
      rw [List.append_assoc, fixed_pad _ _ halg]
      dsimp only
      rw [if_neg hne, fixed_append 4 _ (fixed_some hf4).2.1]
      dsimp only
      rw [if_neg hnn, Bytes.take_append_of_length _ _ _ (fixed_some hf4).2.1]

theorem kdfScheme_null (r' : Bytes) : kdfScheme (pad 2 algNull ++ r') = some (pad 2 algNull, r') := by
  unfold kdfScheme
  rw [fixed_pad _ _ (by decide)]
  simp

theorem kdfScheme_reencode {b e r : Bytes} (h : kdfScheme b = some (e, r)) (r' : Bytes) :
    kdfScheme (e ++ r') = some (e, r') := by
  unfold kdfScheme at h
  cases hf : fixed 2 b with
  | none => rw [hf] at h; cases h
  | some p =>
  obtain ⟨alg, r0⟩ := p
  rw [hf] at h
  dsimp only at h
  have halg := (fixed_some hf).1
  split at h
  · cases h; exact kdfScheme_null r'
  · rename_i hne
    cases hf4 : fixed 2 r0 with
    | none => rw [hf4] at h; cases h
    | some q =>
    obtain ⟨kb, r1⟩ := q
    rw [hf4] at h
    simp only [Option.some.injEq, Prod.mk.injEq] at h
    obtain ⟨rfl, rfl⟩ := h
    split
    · exact kdfScheme_null r'
    · rename_i hnn
      unfold kdfScheme
      rw [List.append_assoc, fixed_pad _ _ halg]
      dsimp only
      rw [if_neg hne, fixed_append 2 _ (fixed_some hf4).2.1]
      dsimp only
      rw [if_neg hnn, Bytes.take_append_of_length _ _ _ (fixed_some hf4).2.1]

theorem sigScheme_null (r' : Bytes) : sigScheme (pad 2 algNull ++ r') = some (pad 2 algNull, r') := by
  unfold sigScheme
  rw [fixed_pad _ _ (by decide)]
  simp

theorem sigScheme_reencode {b e r : Bytes} (h : sigScheme b = some (e, r)) (r' : Bytes) :
    sigScheme (e ++ r') = some (e, r') := by
  unfold sigScheme at h
  cases hf : fixed 2 b with
  | none => rw [hf] at h; cases h
  | some p =>
  obtain ⟨alg, r0⟩ := p
  rw [hf] at h
  dsimp only at h
  have halg := (fixed_some hf).1
  split at h
  · cases h; exact sigScheme_null r'
  · rename_i hne
    cases hf2 : fixed 2 r0 with
    | none => rw [hf2] at h; cases h
    | some q =>
    obtain ⟨hsh, r1⟩ := q
    rw [hf2] at h
    dsimp only at h
    obtain ⟨-, hl2, -, hr1⟩ := fixed_some hf2
    split at h
    · rename_i hec
      cases hf4 : fixed 4 r1 with
      | none => rw [hf4] at h; cases h
      | some q4 =>
      obtain ⟨cnt, r2⟩ := q4
      rw [hf4] at h
      simp only [Option.some.injEq, Prod.mk.injEq] at h
      obtain ⟨rfl, rfl⟩ := h
      obtain ⟨-, hl4, -, -⟩ := fixed_some hf4
      have hl6 : (r0.take 6).length = 6 := by
        rw [hr1, List.length_take, List.length_drop] at hl4
        rw [List.length_take] at hl2 ⊢
        omega
      have hsplit : r0.take 6 = (r0.take 6).take 2 ++ (r0.take 6).drop 2 := (List.take_append_drop 2 _).symm
      have hla : ((r0.take 6).take 2).length = 2 := by rw [List.length_take]; omega
      have hlb : ((r0.take 6).drop 2).length = 4 := by rw [List.length_drop]; omega
      unfold sigScheme
      rw [List.append_assoc, fixed_pad _ _ halg]
      dsimp only
      rw [if_neg hne]
      conv => lhs; rw [hsplit, List.append_assoc, fixed_append 2 _ hla]
      dsimp only
      rw [if_pos hec, fixed_append 4 _ hlb]
      dsimp only
      rw [← List.append_assoc, ← hsplit, Bytes.take_append_of_length _ _ _ hl6]
    · rename_i hec
      simp only [Option.some.injEq, Prod.mk.injEq] at h
      obtain ⟨rfl, rfl⟩ := h
      split
      · exact sigScheme_null r'
      · rename_i hnn
        unfold sigScheme
        rw [List.append_assoc, fixed_pad _ _ halg]
        dsimp only
        rw [if_neg hne, fixed_append 2 _ hl2]
        dsimp only
        rw [if_neg hec, if_neg hnn, Bytes.take_append_of_length _ _ _ hl2]

end WebAuthn.Tpm2
