import WebAuthnModel.Spec.Attestation
/-
  `X509Sig.checkSignature` (the program) against `X509Sig.Checked` (the statement about the environment), the same for the
  verifiers' `certCheckSig`, and uniqueness of the message under `Spec.Att.SigBinds`.
-/
namespace WebAuthn.X509SigLemmas
open WebAuthn WebAuthn.Att

theorem run_checkSignature (env : Prog.Env) (der : Bytes) (key : KeyMat) (algo : Nat) (msg sig : Bytes) :
    Prog.run env (X509Sig.checkSignature der key algo msg sig) = true ↔ X509Sig.Checked env der key algo msg sig := by
  unfold X509Sig.checkSignature X509Sig.Checked
  cases X509Sig.checkPlan algo key sig with
  | reject => simp
  | primitive s h sg =>
    simp only [Prog.run_bind, Prog.run_query]
    cases env.answer (.sigVerify s h key msg sg) <;> simp
  | «opaque» =>
    simp only [Prog.run_bind, Prog.run_query]
    cases env.answer (.x509CheckSig der algo msg sig) <;> simp

theorem run_certCheckSig (env : Prog.Env) (der : Bytes) (c : CertView) (alg : Int) (msg sig : Bytes) :
    Prog.run env (certCheckSig der c alg msg sig) = true ↔ X509Sig.Checked env der c.key (Cose.algX509 alg) msg sig :=
  run_checkSignature env der c.key (Cose.algX509 alg) msg sig

/-- under `SigBinds`, a certificate signature check accepts at most one message for a given signature -/
theorem checked_binds {env : Prog.Env} (hb : Spec.Att.SigBinds env) {der : Bytes} {key : KeyMat} {algo : Nat} {m m' sg : Bytes}
    (h : X509Sig.Checked env der key algo m sg) (h' : X509Sig.Checked env der key algo m' sg) : m = m' := by
  unfold X509Sig.Checked at h h'
  cases hp : X509Sig.checkPlan algo key sg with
  | reject => rw [hp] at h; exact h.elim
  | primitive s hh sg' =>
    rw [hp] at h h'
    exact hb.2 _ _ _ _ _ _ h h'
  | «opaque» =>
    rw [hp] at h h'
    exact hb.1 _ _ _ _ _ h h'

end WebAuthn.X509SigLemmas
