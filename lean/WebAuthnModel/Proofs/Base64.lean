import WebAuthnModel.Basic.Base64Url
/-
  Proofs about the model of Go's `base64.RawURLEncoding`.
-/
namespace WebAuthn.B64

theorem toNat_ofNat_lt (n : Nat) (h : n < 256) : (UInt8.ofNat n).toNat = n := by
  rw [UInt8.toNat_ofNat']; omega

theorem valOf_charOf (n : Nat) (h : n < 64) : valOf (charOf n) = some n := by
  unfold charOf
  split
  · unfold valOf
    simp only [toNat_ofNat_lt (65 + n) (by omega)]
    rw [if_pos (by omega)]; congr 1; omega
  split
  · unfold valOf
    simp only [toNat_ofNat_lt (97 + (n - 26)) (by omega)]
    rw [if_neg (by omega), if_pos (by omega)]; congr 1; omega
  split
  · unfold valOf
    simp only [toNat_ofNat_lt (48 + (n - 52)) (by omega)]
    rw [if_neg (by omega), if_neg (by omega), if_pos (by omega)]; congr 1; omega
  split
  · subst_vars; decide
  · have : n = 63 := by omega
    subst this; decide

theorem charOf_not_newline (n : Nat) (h : n < 64) : isNewline (charOf n) = false := by
  have hv := valOf_charOf n h
  generalize charOf n = c at hv
  unfold isNewline
  cases hc : (decide (c = 13) || decide (c = 10))
  · rfl
  · simp only [Bool.or_eq_true, decide_eq_true_eq] at hc
    rcases hc with hc | hc <;> subst hc <;> simp [valOf] at hv

theorem valOf_pad : valOf 61 = none := by decide
theorem valOf_plus : valOf 43 = none := by decide
theorem valOf_slash : valOf 47 = none := by decide
theorem valOf_space : valOf 32 = none := by decide

theorem charOf_ne_pad (n : Nat) (h : n < 64) : charOf n ≠ 61 := by
  intro hc
  have hv := valOf_charOf n h
  rw [hc, valOf_pad] at hv
  cases hv

theorem valOf_lt (c : UInt8) (n : Nat) (h : valOf c = some n) : n < 64 := by
  unfold valOf at h
  simp only at h
  split at h
  · cases h; omega
  split at h
  · cases h; omega
  split at h
  · cases h; omega
  split at h
  · cases h; omega
  split at h
  · cases h; omega
  · cases h

/-- every output character is in the URL-safe alphabet (so never '=', '+', '/') -/
theorem encode_alphabet (b : Bytes) : ∀ c ∈ encode b, ∃ n, n < 64 ∧ c = charOf n := by
  induction b using encode.induct with
  | case1 => intro c hc; simp [encode] at hc
  | case2 a =>
    intro c hc
    have ha := UInt8.toNat_lt a
    simp only [encode, List.mem_cons, List.not_mem_nil, or_false] at hc
    rcases hc with hc | hc
    · exact ⟨_, by omega, hc⟩
    · exact ⟨_, by omega, hc⟩
  | case3 a b =>
    intro c hc
    have ha := UInt8.toNat_lt a
    have hb := UInt8.toNat_lt b
    simp only [encode, List.mem_cons, List.not_mem_nil, or_false] at hc
    rcases hc with hc | hc | hc
    · exact ⟨_, by omega, hc⟩
    · exact ⟨_, by omega, hc⟩
    · exact ⟨_, by omega, hc⟩
  | case4 a b c rest ih =>
    intro x hx
    have ha := UInt8.toNat_lt a
    have hb := UInt8.toNat_lt b
    have hc := UInt8.toNat_lt c
    simp only [encode, List.mem_cons] at hx
    rcases hx with hx | hx | hx | hx | hx
    · exact ⟨_, by omega, hx⟩
    · exact ⟨_, by omega, hx⟩
    · exact ⟨_, by omega, hx⟩
    · exact ⟨_, by omega, hx⟩
    · exact ih x hx

theorem encode_length (b : Bytes) : (encode b).length = (b.length * 4 + 2) / 3 := by
  induction b using encode.induct with
  | case1 => rfl
  | case2 a => simp [encode]
  | case3 a b => simp [encode]
  | case4 a b c rest ih =>
    simp only [encode, List.length_cons, ih]
    omega

theorem ofNat_eq (a : UInt8) (n : Nat) (h : n = a.toNat) : UInt8.ofNat n = a := by
  subst h; exact UInt8.ofNat_toNat

/-- round trip for all byte strings of all lengths -/
theorem decodeClean_encode (b : Bytes) : decodeClean (encode b) = some b := by
  induction b using encode.induct with
  | case1 => rfl
  | case2 a =>
    have ha := UInt8.toNat_lt a
    simp only [encode, decodeClean, valOf_charOf (a.toNat / 4) (by omega),
      valOf_charOf (a.toNat % 4 * 16) (by omega), Option.bind_eq_bind, Option.bind_some,
      Option.pure_def]
    congr 2
    exact ofNat_eq _ _ (by omega)
  | case3 a b =>
    have ha := UInt8.toNat_lt a
    have hb := UInt8.toNat_lt b
    simp only [encode, decodeClean, valOf_charOf (a.toNat / 4) (by omega),
      valOf_charOf (a.toNat % 4 * 16 + b.toNat / 16) (by omega),
      valOf_charOf (b.toNat % 16 * 4) (by omega), Option.bind_eq_bind, Option.bind_some,
      Option.pure_def]
    congr 2
    · exact ofNat_eq _ _ (by omega)
    · congr 1; exact ofNat_eq _ _ (by omega)
  | case4 a b c rest ih =>
    have ha := UInt8.toNat_lt a
    have hb := UInt8.toNat_lt b
    have hc := UInt8.toNat_lt c
    simp only [encode, decodeClean, valOf_charOf (a.toNat / 4) (by omega),
      valOf_charOf (a.toNat % 4 * 16 + b.toNat / 16) (by omega),
      valOf_charOf (b.toNat % 16 * 4 + c.toNat / 64) (by omega),
      valOf_charOf (c.toNat % 64) (by omega), ih, Option.bind_eq_bind, Option.bind_some,
      Option.pure_def]
    congr 2
    · exact ofNat_eq _ _ (by omega)
    · congr 1
      · exact ofNat_eq _ _ (by omega)
      · congr 1; exact ofNat_eq _ _ (by omega)

theorem filter_encode (b : Bytes) : (encode b).filter (fun c => !isNewline c) = encode b := by
  rw [List.filter_eq_self]
  intro c hc
  obtain ⟨n, hn, rfl⟩ := encode_alphabet b c hc
  simp [charOf_not_newline n hn]

theorem decode_encode (b : Bytes) : decode (encode b) = some b := by
  unfold decode
  rw [filter_encode, decodeClean_encode]

theorem fromBase64URL_encode (b : Bytes) : fromBase64URL (encode b) = some b := by
  unfold fromBase64URL
  split
  · rename_i h
    have := decodeClean_encode b
    rw [h] at this
    simpa [decodeClean] using this
  · exact decode_encode b

theorem encode_injective (a b : Bytes) (h : encode a = encode b) : a = b := by
  have h1 := decodeClean_encode a
  rw [h, decodeClean_encode] at h1
  exact (Option.some.inj h1).symm

theorem decodeClean_rejects_bad_char (s : Bytes) (c : UInt8) (hc : c ∈ s) (hv : valOf c = none) :
    decodeClean s = none := by
  induction s using decodeClean.induct with
  | case1 => cases hc
  | case2 a => simp [decodeClean]
  | case3 a b =>
    simp only [List.mem_cons, List.not_mem_nil, or_false] at hc
    rcases hc with rfl | rfl <;> simp [decodeClean, hv]
  | case4 a b d =>
    simp only [List.mem_cons, List.not_mem_nil, or_false] at hc
    rcases hc with rfl | rfl | rfl <;> simp [decodeClean, hv]
  | case5 a b d e rest ih =>
    simp only [List.mem_cons] at hc
    rcases hc with rfl | rfl | rfl | rfl | hc
    · simp [decodeClean, hv]
    · simp [decodeClean, hv]
    · simp [decodeClean, hv]
    · simp [decodeClean, hv]
    · simp [decodeClean, ih hc]

/-- any byte outside the alphabet other than CR/LF (e.g. '=', '+', '/', space) makes decoding fail -/
theorem decode_rejects_bad_char (s : Bytes) (c : UInt8) (hc : c ∈ s) (hv : valOf c = none)
    (hn : isNewline c = false) : decode s = none := by
  unfold decode
  apply decodeClean_rejects_bad_char _ c _ hv
  simp [List.mem_filter, hc, hn]

theorem decodeClean_rejects_length (s : Bytes) (h : s.length % 4 = 1) : decodeClean s = none := by
  induction s using decodeClean.induct with
  | case1 => simp at h
  | case2 a => simp [decodeClean]
  | case3 a b => simp at h
  | case4 a b d => simp at h
  | case5 a b d e rest ih =>
    have : rest.length % 4 = 1 := by
      simp only [List.length_cons] at h; omega
    simp [decodeClean, ih this]

/-- impossible length: 1 mod 4 significant characters -/
theorem decode_rejects_length (s : Bytes) (h : (s.filter (fun c => !isNewline c)).length % 4 = 1) :
    decode s = none :=
  decodeClean_rejects_length _ h

/-- a successful decode yields exactly ⌊3n/4⌋ bytes from n significant characters -/
theorem decodeClean_length (s out : Bytes) (h : decodeClean s = some out) :
    out.length = s.length * 3 / 4 := by
  induction s using decodeClean.induct generalizing out with
  | case1 => simp [decodeClean] at h; subst h; rfl
  | case2 a => simp [decodeClean] at h
  | case3 a b =>
    simp only [decodeClean, Option.bind_eq_bind, Option.pure_def, Option.bind_eq_some_iff] at h
    obtain ⟨x, _, y, _, h⟩ := h
    cases h; simp
  | case4 a b d =>
    simp only [decodeClean, Option.bind_eq_bind, Option.pure_def, Option.bind_eq_some_iff] at h
    obtain ⟨x, _, y, _, z, _, h⟩ := h
    cases h; simp
  | case5 a b d e rest ih =>
    simp only [decodeClean, Option.bind_eq_bind, Option.pure_def, Option.bind_eq_some_iff] at h
    obtain ⟨x, _, y, _, z, _, w, _, r, hr, h⟩ := h
    cases h
    have := ih r hr
    simp only [List.length_cons, this]
    omega

end WebAuthn.B64
