import WebAuthnModel.Basic.Bytes
/-
  General lemmas about `Bytes.beNat` / `Bytes.ofNatBE` (fixed-width big-endian) and about
  `List.take` / `List.drop` on byte strings, used by the codec theorems.
-/
namespace WebAuthn.Bytes
open WebAuthn

/-! ## take / drop -/

/-- a list that is long enough splits into its first `k` elements and the rest -/
theorem take_drop_split {α : Type} (k : Nat) (l : List α) (h : k ≤ l.length) :
    l = l.take k ++ l.drop k ∧ (l.take k).length = k :=
  ⟨(List.take_append_drop k l).symm, by rw [List.length_take]; omega⟩

theorem take_append_of_length {α : Type} (p q : List α) (k : Nat) (h : p.length = k) :
    (p ++ q).take k = p := by
  subst h; exact List.take_left

theorem drop_append_of_length {α : Type} (p q : List α) (k : Nat) (h : p.length = k) :
    (p ++ q).drop k = q := by
  subst h; exact List.drop_left

/-- cutting at or after the end of the first part keeps the first part -/
theorem take_append_ge {α : Type} (p q : List α) (n : Nat) (h : p.length ≤ n) :
    (p ++ q).take n = p ++ q.take (n - p.length) := by
  rw [List.take_append, List.take_of_length_le h]

/-- cutting inside the first part forgets the second part -/
theorem take_append_lt {α : Type} (p q : List α) (n : Nat) (h : n ≤ p.length) :
    (p ++ q).take n = p.take n := by
  rw [List.take_append, Nat.sub_eq_zero_of_le h, List.take_zero, List.append_nil]

theorem take_take_of_le {α : Type} (l : List α) (k n : Nat) (h : k ≤ n) :
    (l.take n).take k = l.take k := by
  rw [List.take_take, Nat.min_eq_left h]

/-! ## big-endian -/

theorem foldl_init (l : Bytes) (a : Nat) :
    l.foldl (fun acc x => acc * 256 + x.toNat) a =
      a * 256 ^ l.length + l.foldl (fun acc x => acc * 256 + x.toNat) 0 := by
  induction l generalizing a with
  | nil => simp
  | cons x xs ih =>
    simp only [List.foldl_cons, List.length_cons]
    rw [ih (a * 256 + x.toNat), ih (0 * 256 + x.toNat), Nat.pow_succ, Nat.add_mul, Nat.add_mul,
      Nat.zero_mul, Nat.zero_add, Nat.mul_assoc, Nat.mul_comm 256 (256 ^ xs.length),
      Nat.add_assoc]

@[simp] theorem beNat_nil : beNat [] = 0 := rfl

theorem beNat_cons (x : UInt8) (l : Bytes) : beNat (x :: l) = x.toNat * 256 ^ l.length + beNat l := by
  simp only [beNat, List.foldl_cons]
  rw [foldl_init]
  simp

theorem beNat_lt (l : Bytes) : beNat l < 256 ^ l.length := by
  induction l with
  | nil => simp
  | cons x xs ih =>
    rw [beNat_cons, List.length_cons, Nat.pow_succ]
    have hx : x.toNat < 256 := x.toNat_lt
    have h1 : x.toNat * 256 ^ xs.length + 256 ^ xs.length ≤ 256 ^ xs.length * 256 := by
      rw [Nat.mul_comm (256 ^ xs.length) 256, ← Nat.succ_mul]
      exact Nat.mul_le_mul_right _ hx
    omega

@[simp] theorem length_ofNatBE (w n : Nat) : (ofNatBE w n).length = w := by
  induction w with
  | zero => rfl
  | succ w ih => simp [ofNatBE, ih]

theorem beNat_ofNatBE_mod (w n : Nat) : beNat (ofNatBE w n) = n % 256 ^ w := by
  induction w with
  | zero => simp [ofNatBE, Nat.mod_one]
  | succ w ih =>
    rw [ofNatBE, beNat_cons, ih, length_ofNatBE, Nat.mod_pow_succ]
    have h : (UInt8.ofNat (n / 256 ^ w % 256)).toNat = n / 256 ^ w % 256 := by
      rw [UInt8.toNat_ofNat']
      exact Nat.mod_eq_of_lt (Nat.mod_lt _ (by decide))
    rw [h, Nat.mul_comm, Nat.add_comm]

theorem beNat_ofNatBE (w n : Nat) (h : n < 256 ^ w) : beNat (ofNatBE w n) = n := by
  rw [beNat_ofNatBE_mod, Nat.mod_eq_of_lt h]

/-- `ofNatBE w` only looks at the value mod `256 ^ w` -/
theorem ofNatBE_add_mul (w k m : Nat) : ofNatBE w (k * 256 ^ w + m) = ofNatBE w m := by
  induction w generalizing k with
  | zero => rfl
  | succ w ih =>
    have e : k * 256 ^ (w + 1) + m = (k * 256) * 256 ^ w + m := by
      rw [Nat.pow_succ, Nat.mul_assoc, Nat.mul_comm 256 (256 ^ w)]
    rw [ofNatBE, ofNatBE, e, ih (k * 256)]
    have hpos : 0 < 256 ^ w := Nat.pow_pos (by decide)
    have e2 : (k * 256 * 256 ^ w + m) / 256 ^ w % 256 = m / 256 ^ w % 256 := by
      rw [Nat.add_comm, Nat.add_mul_div_right _ _ hpos, Nat.add_mul_mod_self_right]
    rw [e2]

theorem ofNatBE_beNat (w : Nat) (l : Bytes) (h : l.length = w) : ofNatBE w (beNat l) = l := by
  induction l generalizing w with
  | nil => subst h; rfl
  | cons x xs ih =>
    subst h
    rw [List.length_cons, beNat_cons, ofNatBE, ofNatBE_add_mul, ih _ rfl]
    have hpos : 0 < 256 ^ xs.length := Nat.pow_pos (by decide)
    have hlt := beNat_lt xs
    have e : (x.toNat * 256 ^ xs.length + beNat xs) / 256 ^ xs.length % 256 = x.toNat := by
      rw [Nat.add_comm, Nat.add_mul_div_right _ _ hpos, Nat.div_eq_of_lt hlt, Nat.zero_add]
      exact Nat.mod_eq_of_lt x.toNat_lt
    rw [e]
    simp

end WebAuthn.Bytes
