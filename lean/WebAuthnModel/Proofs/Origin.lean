import WebAuthnModel.Model.Origin
/-
  Proofs about the origin / RP ID label walk (`labelWalk`, `labelWalkLoop`, `originMatches`).
-/
namespace WebAuthn

/-- membership in `suffixesAfterDots c`: exactly the suffixes of `c` that follow a dot. -/
theorem mem_suffixesAfterDots (x c : Bytes) :
    x ∈ suffixesAfterDots c ↔ ∃ p : Bytes, c = p ++ dot :: x := by
  induction c with
  | nil => simp [suffixesAfterDots]
  | cons a cs ih =>
    unfold suffixesAfterDots
    constructor
    · intro h
      split at h
      · rename_i hd
        rcases List.mem_cons.mp h with h | h
        · exact ⟨[], by simp [hd, h]⟩
        · obtain ⟨p, hp⟩ := ih.mp h
          exact ⟨a :: p, by simp [hp]⟩
      · obtain ⟨p, hp⟩ := ih.mp h
        exact ⟨a :: p, by simp [hp]⟩
    · rintro ⟨p, hp⟩
      cases p with
      | nil =>
        simp only [List.nil_append, List.cons.injEq] at hp
        obtain ⟨h1, h2⟩ := hp
        simp [h1, h2]
      | cons b p =>
        simp only [List.cons_append, List.cons.injEq] at hp
        obtain ⟨_, h2⟩ := hp
        have : x ∈ suffixesAfterDots cs := ih.mpr ⟨p, h2⟩
        split
        · exact List.mem_cons_of_mem _ this
        · exact this

/-- the label walk accepts exactly: RP host non-empty, and client host equal to it or ending with "." ++ rpHost -/
theorem labelWalk_iff (c r : Bytes) :
    labelWalk c r = true ↔ r ≠ [] ∧ (c = r ∨ ∃ p : Bytes, c = p ++ dot :: r) := by
  unfold labelWalk
  rw [List.any_eq_true]
  constructor
  · rintro ⟨x, hx, h⟩
    simp only [Bool.and_eq_true, decide_eq_true_eq, beq_iff_eq] at h
    obtain ⟨hne, rfl⟩ := h
    refine ⟨hne, ?_⟩
    rcases List.mem_cons.mp hx with h | h
    · exact Or.inl h.symm
    · exact Or.inr ((mem_suffixesAfterDots _ _).mp h)
  · rintro ⟨hne, h⟩
    refine ⟨r, ?_, by simp [hne]⟩
    rcases h with h | h
    · simp [h]
    · exact List.mem_cons_of_mem _ ((mem_suffixesAfterDots _ _).mpr h)

theorem afterFirstDot_none {c : Bytes} (h : afterFirstDot c = none) : suffixesAfterDots c = [] := by
  induction c with
  | nil => rfl
  | cons a cs ih =>
    unfold afterFirstDot at h
    unfold suffixesAfterDots
    split at h
    · cases h
    · rename_i hd
      simp [hd, ih h]

theorem afterFirstDot_some {c rest : Bytes} (h : afterFirstDot c = some rest) :
    rest.length < c.length ∧ suffixesAfterDots c = rest :: suffixesAfterDots rest := by
  induction c with
  | nil => cases h
  | cons a cs ih =>
    by_cases hd : a = dot
    · have h' : cs = rest := by simpa [afterFirstDot, hd] using h
      subst h'
      have : suffixesAfterDots (a :: cs) = cs :: suffixesAfterDots cs := by
        rw [suffixesAfterDots.eq_2, if_pos hd]
      exact ⟨by simp, this⟩
    · have h' : afterFirstDot cs = some rest := by simpa [afterFirstDot, hd] using h
      obtain ⟨h1, h2⟩ := ih h'
      have : suffixesAfterDots (a :: cs) = suffixesAfterDots cs := by
        rw [suffixesAfterDots.eq_2, if_neg hd]
      rw [this]
      exact ⟨by simp only [List.length_cons]; omega, h2⟩

theorem labelWalk_nil_left (r : Bytes) : labelWalk [] r = false := by
  simp [labelWalk, suffixesAfterDots]

theorem labelWalkLoop_eq_of_lt (r : Bytes) :
    ∀ (f : Nat) (c : Bytes), c.length < f → labelWalkLoop f c r = labelWalk c r := by
  intro f
  induction f with
  | zero => intro c h; omega
  | succ f ih =>
    intro c hlen
    unfold labelWalkLoop
    split
    · rename_i hc
      subst hc
      exact (labelWalk_nil_left r).symm
    · rename_i hc
      split
      · rename_i hcr
        subst hcr
        symm
        simp [labelWalk, hc]
      · rename_i hcr
        split
        · rename_i rest hrest
          obtain ⟨h1, h2⟩ := afterFirstDot_some hrest
          rw [ih rest (by omega)]
          simp [labelWalk, h2, hcr]
        · rename_i hnone
          simp [labelWalk, afterFirstDot_none hnone, hcr]

/-- the fuel-based transcription of the Go loop computes the same thing (fuel = length + 1 suffices) -/
theorem labelWalkLoop_eq (c r : Bytes) : labelWalkLoop (c.length + 1) c r = labelWalk c r :=
  labelWalkLoop_eq_of_lt r _ c (Nat.lt_succ_self _)

theorem labelWalk_empty_client (r : Bytes) : labelWalk [] r = false := labelWalk_nil_left r

theorem labelWalk_empty_rp (c : Bytes) : labelWalk c [] = false := by
  rw [← Bool.not_eq_true, labelWalk_iff]
  simp

theorem labelWalk_self (r : Bytes) (h : r ≠ []) : labelWalk r r = true :=
  (labelWalk_iff r r).mpr ⟨h, Or.inl rfl⟩

theorem labelWalk_subdomain (p r : Bytes) (h : r ≠ []) : labelWalk (p ++ dot :: r) r = true :=
  (labelWalk_iff _ r).mpr ⟨h, Or.inr ⟨p, rfl⟩⟩

/-- a parent domain of the RP host is rejected: client = the part of rp after some label prefix -/
theorem labelWalk_parent_rejected (p r : Bytes) (hp : p ≠ []) : labelWalk r (p ++ r) = false := by
  rw [← Bool.not_eq_true, labelWalk_iff]
  rintro ⟨_, h | ⟨q, h⟩⟩
  · have := congrArg List.length h
    simp only [List.length_append] at this
    have : p.length = 0 := by omega
    exact hp (List.eq_nil_of_length_eq_zero this)
  · have := congrArg List.length h
    simp only [List.length_append, List.length_cons] at this
    omega

/-- suffix without a label boundary ("evil" ++ rp) is rejected when the glued prefix is non-empty and does not end in a dot -/
theorem labelWalk_no_boundary_rejected (p r : Bytes) (hp : p ≠ []) (hlast : p.getLast? ≠ some dot) :
    labelWalk (p ++ r) r = false := by
  rw [← Bool.not_eq_true, labelWalk_iff]
  rintro ⟨_, h | ⟨q, h⟩⟩
  · have := congrArg List.length h
    simp only [List.length_append] at this
    have : p.length = 0 := by omega
    exact hp (List.eq_nil_of_length_eq_zero this)
  · have h' : p ++ r = (q ++ [dot]) ++ r := by simp [h]
    have hpq : p = q ++ [dot] := List.append_cancel_right h'
    apply hlast
    simp [hpq]

set_option linter.unusedVariables false in
/-- RP host as a prefix label sequence (rp ++ "." ++ q) is rejected unless q itself ends with ".rp" or equals rp.
    (`h1`, `h2` are not needed: `h3`/`h4` already exclude both accepting shapes; `h1`+`h2` alone would NOT
    suffice because of overlaps, e.g. r = "a.a", q = "a": "a.a.a" = "a" ++ "." ++ "a.a" is accepted.) -/
theorem labelWalk_prefix_rejected (r q : Bytes) (h1 : q ≠ r) (h2 : ∀ p, q ≠ p ++ dot :: r)
    (h3 : ∀ p, r ++ dot :: q ≠ p ++ dot :: r) (h4 : r ++ dot :: q ≠ r) :
    labelWalk (r ++ dot :: q) r = false := by
  rw [← Bool.not_eq_true, labelWalk_iff]
  rintro ⟨_, h | ⟨p, h⟩⟩
  · exact h4 h
  · exact h3 p h

/-- variant with a purely structural side condition: when `q` is at least as long as `r`, the
    only ways `r ++ "." ++ q` is accepted are `q = r` or `q` ending in `"." ++ r`. -/
theorem labelWalk_prefix_rejected_of_le (r q : Bytes) (h1 : q ≠ r) (h2 : ∀ p, q ≠ p ++ dot :: r)
    (hlen : r.length ≤ q.length) :
    labelWalk (r ++ dot :: q) r = false := by
  rw [← Bool.not_eq_true, labelWalk_iff]
  rintro ⟨_, h | ⟨p, h⟩⟩
  · have := congrArg List.length h
    simp only [List.length_append, List.length_cons] at this
    omega
  · -- compare the two decompositions of the same list
    rcases List.append_eq_append_iff.mp h with ⟨a, ha, hb⟩ | ⟨a, ha, hb⟩
    · -- p = r ++ a, dot :: q = a ++ dot :: r
      cases a with
      | nil =>
        simp only [List.nil_append, List.cons.injEq, true_and] at hb
        exact h1 hb
      | cons x a =>
        simp only [List.cons_append, List.cons.injEq] at hb
        exact h2 a hb.2
    · -- r = p ++ a, dot :: r = a ++ dot :: q
      have hb' := congrArg List.length hb
      have ha' := congrArg List.length ha
      simp only [List.length_append, List.length_cons] at hb' ha'
      have : a.length = 0 := by omega
      have ha0 : a = [] := List.eq_nil_of_length_eq_zero this
      subst ha0
      simp only [List.nil_append, List.cons.injEq, true_and] at hb
      exact h1 hb.symm

theorem originMatches_run (env : Prog.Env) (co ro : Bytes) :
    Prog.run env (originMatches co ro) = true ↔
      ∃ ch rh, Url.hostOf co = some ch ∧ Url.hostOf ro = some rh ∧
        labelWalk ch rh = true := by
  unfold originMatches
  cases hc : Url.hostOf co <;> simp only [Prog.run_pure] <;> try (simp; done)
  cases hr : Url.hostOf ro <;> simp [Prog.run_pure]

/-- the origin decision asks nothing: it is the label walk on the two hosts the URL model reports -/
theorem originMatches_run_eq (env : Prog.Env) (co ro : Bytes) :
    Prog.run env (originMatches co ro) =
      (match Url.hostOf co, Url.hostOf ro with
       | some ch, some rh => labelWalk ch rh
       | _, _ => false) := by
  unfold originMatches
  cases hc : Url.hostOf co <;> simp only [Prog.run_pure]
  cases hr : Url.hostOf ro <;> simp only [Prog.run_pure]

end WebAuthn
