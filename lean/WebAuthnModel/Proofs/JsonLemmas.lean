import WebAuthnModel.Model.Json
/-
  Lemmas about the Lean model of `encoding/json` (`Model/Json.lean`) for `Theorems/C01Json.lean`: the scanner, the unquoter
  and the value / member parsers on the documents clients write (plain printable-ASCII strings, no insignificant whitespace),
  and the member loop of `CollectedClientData` on the members `type`, `challenge`, `origin`, `crossOrigin` in any order.
  Core Lean only.
-/
namespace WebAuthn.Json.Lemmas
open WebAuthn WebAuthn.Json

/-- printable ASCII without `"` and `\` (the same predicate as `Theorems.C01Json.plainChar`) -/

def plainByte (b : UInt8) : Bool := 0x20 ≤ b.toNat && b.toNat < 0x7f && b ≠ c '"' && b ≠ c '\\'
def PlainBytes (s : Bytes) : Prop := s.all plainByte = true
instance (s : Bytes) : Decidable (PlainBytes s) := by unfold PlainBytes; infer_instance

theorem plainByte_spec {b : UInt8} (h : plainByte b = true) :
    32 ≤ b.toNat ∧ b.toNat < 127 ∧ b ≠ c '"' ∧ b ≠ c '\\' := by
  simpa [plainByte, and_assoc] using h

theorem PlainBytes.head {b : UInt8} {s : Bytes} (h : PlainBytes (b :: s)) : plainByte b = true := by
  unfold PlainBytes at h; simp at h; exact h.1
theorem PlainBytes.tail {b : UInt8} {s : Bytes} (h : PlainBytes (b :: s)) : PlainBytes s := by
  unfold PlainBytes at h ⊢; simp at h; simpa using h.2

theorem scanString_plain (s rest : Bytes) (h : PlainBytes s) : scanString (s ++ c '"' :: rest) = some (s, rest) := by
  induction s with
  | nil => rw [List.nil_append, scanString.eq_def]; simp
  | cons b s ih =>
    obtain ⟨h1, h2, h3, h4⟩ := plainByte_spec h.head
    have h5 : ¬ b.toNat < 32 := by omega
    rw [List.cons_append, scanString.eq_def]
    simp only [if_neg h3, if_neg h4, if_neg h5, ih h.tail, Option.map_some]

theorem unquote_plain (s : Bytes) (h : PlainBytes s) : ∀ fuel, s.length ≤ fuel → unquote fuel s = s := by
  induction s with
  | nil => intro fuel _; cases fuel <;> rfl
  | cons b s ih =>
    intro fuel hf
    obtain ⟨h1, h2, h3, h4⟩ := plainByte_spec h.head
    cases fuel with
    | zero => simp at hf
    | succ f =>
      have h5 : b.toNat < 0x80 := by omega
      rw [unquote.eq_def]
      simp only [if_neg h4, if_pos h5, ih h.tail f (by simpa using hf)]

theorem unq_plain (s : Bytes) (h : PlainBytes s) : unq s = s := unquote_plain s h _ (Nat.le_succ _)


theorem skipSpace_cons_of_not_space (b : UInt8) (rest : Bytes) (h : isSpace b = false) :
    skipSpace (b :: rest) = b :: rest := by
  rw [skipSpace, if_neg (by simp [h])]

/-- printable bytes other than the space are not JSON whitespace; in particular the punctuation the renderer writes -/
theorem isSpace_quote : isSpace (c '"') = false := by decide
theorem isSpace_colon : isSpace (c ':') = false := by decide
theorem isSpace_comma : isSpace (c ',') = false := by decide
theorem isSpace_rbrace : isSpace (c '}') = false := by decide
theorem isSpace_lbrace : isSpace (c '{') = false := by decide

/-- `vb` is a JSON text that the value parser reads as `v`, whatever follows and at any depth -/
def ValOK (vb : Bytes) (v : JVal) : Prop :=
  ∀ fuel depth rest, parseValue (fuel + 1) depth (vb ++ rest) = some (v, rest)

theorem valOK_quote (s : Bytes) (h : PlainBytes s) : ValOK (c '"' :: s ++ [c '"']) (.str s) := by
  intro fuel depth rest
  have : (c '"' :: s ++ [c '"']) ++ rest = c '"' :: (s ++ c '"' :: rest) := by simp
  rw [this, parseValue.eq_def]
  simp only [skipSpace_cons_of_not_space _ _ isSpace_quote, scanString_plain s rest h]
  simp [show c '"' ≠ c '{' by decide, show c '"' ≠ c '[' by decide]

theorem valOK_false : ValOK [c 'f', c 'a', c 'l', c 's', c 'e'] (.bool false) := by
  intro fuel depth rest
  rw [parseValue.eq_def]
  simp [skipSpace_cons_of_not_space _ _ (show isSpace (c 'f') = false by decide),
    show c 'f' ≠ c '{' by decide, show c 'f' ≠ c '[' by decide, show c 'f' ≠ c '"' by decide, show c 'f' ≠ c 't' by decide]

theorem valOK_true : ValOK [c 't', c 'r', c 'u', c 'e'] (.bool true) := by
  intro fuel depth rest
  rw [parseValue.eq_def]
  simp [skipSpace_cons_of_not_space _ _ (show isSpace (c 't') = false by decide),
    show c 't' ≠ c '{' by decide, show c 't' ≠ c '[' by decide, show c 't' ≠ c '"' by decide]


/-- an object member as the renderer writes it: plain key, value text, and the value the parser reads from that text -/
structure Mem where
  k : Bytes
  vb : Bytes
  v : JVal

def Mem.render (m : Mem) : Bytes := (c '"' :: m.k ++ [c '"']) ++ [c ':'] ++ m.vb
def Mem.kv (m : Mem) : Bytes × JVal := (m.k, m.v)
structure Mem.WF (m : Mem) : Prop where
  key : PlainBytes m.k
  val : ValOK m.vb m.v

/-- one member followed by anything: the member parser reads key and value and looks at the next non-space byte -/
theorem parseMembers_one (m : Mem) (h : m.WF) (fuel depth : Nat) (tl : Bytes) :
    parseMembers (fuel + 2) depth (m.render ++ tl) =
      match skipSpace tl with
      | b3 :: rest4 =>
        if b3 = c '}' then some ([m.kv], rest4)
        else if b3 = c ',' then (parseMembers (fuel + 1) depth rest4).map (fun p => (m.kv :: p.1, p.2))
        else none
      | [] => none := by
  have : m.render ++ tl = c '"' :: (m.k ++ c '"' :: (c ':' :: (m.vb ++ tl))) := by simp [Mem.render]
  rw [this, parseMembers.eq_def]
  simp only [skipSpace_cons_of_not_space _ _ isSpace_quote, scanString_plain _ _ h.key,
    skipSpace_cons_of_not_space _ _ isSpace_colon, h.val fuel depth tl]
  simp only [Mem.kv, ne_eq, not_true_eq_false, if_false]
  generalize skipSpace tl = x
  cases x <;> rfl

/-- the members of an object after the opening brace: members separated by commas, then `}` and the rest -/
def renderMembers : List Mem → Bytes → Bytes
  | [], rest => rest
  | [m], rest => m.render ++ c '}' :: rest
  | m :: ms, rest => m.render ++ c ',' :: renderMembers ms rest

theorem parseMembers_render (l : List Mem) (hne : l ≠ []) (hwf : ∀ m ∈ l, m.WF) (depth : Nat) (rest : Bytes) :
    ∀ fuel, l.length + 1 ≤ fuel → parseMembers fuel depth (renderMembers l rest) = some (l.map Mem.kv, rest) := by
  induction l with
  | nil => exact absurd rfl hne
  | cons m l ih =>
    intro fuel hf
    obtain ⟨f, rfl⟩ : ∃ f, fuel = f + 2 := ⟨fuel - 2, by simp at hf; omega⟩
    cases l with
    | nil =>
      rw [renderMembers, parseMembers_one m (hwf m (by simp)), skipSpace_cons_of_not_space _ _ isSpace_rbrace]
      simp
    | cons m' l' =>
      rw [renderMembers, parseMembers_one m (hwf m (by simp)), skipSpace_cons_of_not_space _ _ isSpace_comma]
      · simp only [show c ',' ≠ c '}' by decide, if_false, if_true]
        rw [ih (by simp) (fun x hx => hwf x (List.mem_cons_of_mem _ hx)) (f + 1) (by simp at hf ⊢; omega)]
        simp
      · simp

theorem renderMembers_head (l : List Mem) (hne : l ≠ []) (rest : Bytes) :
    ∃ tl, renderMembers l rest = c '"' :: tl := by
  match l, hne with
  | [m], _ => exact ⟨_, by simp [renderMembers, Mem.render]; rfl⟩
  | m :: m' :: l', _ => exact ⟨_, by simp [renderMembers, Mem.render]; rfl⟩


/-! ### the member loop on the members clients write -/

def kType : Bytes := "type".toUTF8.toList
def kChallenge : Bytes := "challenge".toUTF8.toList
def kOrigin : Bytes := "origin".toUTF8.toList
def kCross : Bytes := "crossOrigin".toUTF8.toList

theorem kType_plain : PlainBytes kType := by decide +kernel
theorem kChallenge_plain : PlainBytes kChallenge := by decide +kernel
theorem kOrigin_plain : PlainBytes kOrigin := by decide +kernel
theorem kCross_plain : PlainBytes kCross := by decide +kernel

theorem nameIs_facts :
    nameIs kType "type" = true ∧
    nameIs kChallenge "type" = false ∧ nameIs kChallenge "challenge" = true ∧
    nameIs kOrigin "type" = false ∧ nameIs kOrigin "challenge" = false ∧ nameIs kOrigin "origin" = true ∧
    nameIs kCross "type" = false ∧ nameIs kCross "challenge" = false ∧ nameIs kCross "origin" = false ∧
      nameIs kCross "crossOrigin" = true := by decide +kernel

def hasKey (k : Bytes) (kvs : List (Bytes × JVal)) : Bool := kvs.any (fun kv => kv.1 == k)

theorem hasKey_cons (k k' : Bytes) (v : JVal) (kvs : List (Bytes × JVal)) :
    hasKey k ((k', v) :: kvs) = (k' == k || hasKey k kvs) := by simp [hasKey]

theorem key_facts :
    (kType == kType) = true ∧ (kType == kChallenge) = false ∧ (kType == kOrigin) = false ∧
    (kChallenge == kType) = false ∧ (kChallenge == kChallenge) = true ∧ (kChallenge == kOrigin) = false ∧
    (kOrigin == kType) = false ∧ (kOrigin == kChallenge) = false ∧ (kOrigin == kOrigin) = true ∧
    (kCross == kType) = false ∧ (kCross == kChallenge) = false ∧ (kCross == kOrigin) = false := by decide +kernel

/-- on a member list consisting only of the three string members (each with its one value) and boolean `crossOrigin`
    members, in any order and multiplicity, the member loop stores the unquoted strings of the members present, keeps the
    other fields, and raises no type error -/
theorem storeMembers_known (t ch o : Bytes) (kvs : List (Bytes × JVal))
    (h : ∀ kv ∈ kvs, kv = (kType, .str t) ∨ kv = (kChallenge, .str ch) ∨ kv = (kOrigin, .str o) ∨
      ∃ b, kv = (kCross, .bool b)) :
    ∀ f ok, storeMembers f ok kvs =
      (⟨if hasKey kType kvs then unq t else f.type, if hasKey kChallenge kvs then unq ch else f.challenge,
        if hasKey kOrigin kvs then unq o else f.origin⟩, ok) := by
  obtain ⟨n1, n2, n3, n4, n5, n6, n7, n8, n9, n10⟩ := nameIs_facts
  obtain ⟨e1, e2, e3, e4, e5, e6, e7, e8, e9, e10, e11, e12⟩ := key_facts
  induction kvs with
  | nil => intro f ok; simp [storeMembers, hasKey]
  | cons kv kvs ih =>
    intro f ok
    have ih' := ih (fun x hx => h x (List.mem_cons_of_mem _ hx))
    rcases h kv (by simp) with rfl | rfl | rfl | ⟨b, rfl⟩
    · rw [storeMembers.eq_def]
      simp only [n1, if_true, storeString, ih', hasKey_cons, e1, e2, e3, Bool.true_or, Bool.false_or, Bool.and_true]
      cases hasKey kChallenge kvs <;> cases hasKey kOrigin kvs <;> simp
    · rw [storeMembers.eq_def]
      simp only [n2, n3, if_true, storeString, ih', hasKey_cons, e4, e5, e6, Bool.true_or, Bool.false_or, Bool.and_true]
      cases hasKey kType kvs <;> cases hasKey kOrigin kvs <;> simp
    · rw [storeMembers.eq_def]
      simp only [n4, n5, n6, if_true, storeString, ih', hasKey_cons, e7, e8, e9, Bool.true_or, Bool.false_or, Bool.and_true]
      cases hasKey kType kvs <;> cases hasKey kChallenge kvs <;> simp
    · rw [storeMembers.eq_def]
      simp only [n7, n8, n9, n10, if_true, storeBoolOK, ih', hasKey_cons, e10, e11, e12, Bool.false_or, Bool.and_true]
      simp

/-- a permutation of an image list is the image of a permutation -/
theorem perm_map_exists {α β : Type} (f : α → β) (ms : List β) (L : List α) (h : ms.Perm (L.map f)) :
    ∃ l : List α, l.Perm L ∧ ms = l.map f := by
  generalize hys : L.map f = ys at h
  induction h generalizing L with
  | nil => exact ⟨[], by cases L <;> simp_all, rfl⟩
  | cons x _ ih =>
    cases L with
    | nil => simp at hys
    | cons a L' =>
      simp only [List.map_cons, List.cons.injEq] at hys
      obtain ⟨l, hl, rfl⟩ := ih L' hys.2
      exact ⟨a :: l, hl.cons a, by simp [hys.1]⟩
  | swap x y l =>
    match L, hys with
    | a :: b :: L', hys =>
      simp only [List.map_cons, List.cons.injEq] at hys
      obtain ⟨rfl, rfl, rfl⟩ := hys
      exact ⟨b :: a :: L', List.Perm.swap _ _ _, rfl⟩
  | trans _ _ ih1 ih2 =>
    obtain ⟨l2, hl2, rfl⟩ := ih2 L hys
    obtain ⟨l1, hl1, rfl⟩ := ih1 l2 rfl
    exact ⟨l1, hl1.trans hl2, rfl⟩


theorem renderMembers_length (l : List Mem) (rest : Bytes) : l.length ≤ (renderMembers l rest).length := by
  induction l with
  | nil => simp
  | cons m l ih =>
    cases l with
    | nil => simp only [renderMembers, List.length_append, List.length_cons, List.length_nil]; omega
    | cons m' l' => simp only [renderMembers, List.length_append, List.length_cons] at ih ⊢; omega

/-- the whole document `{` members `}` parses to the object of its members -/
theorem parse_object (l : List Mem) (hne : l ≠ []) (hwf : ∀ m ∈ l, m.WF) :
    parse (c '{' :: renderMembers l []) = some (.obj (l.map Mem.kv)) := by
  obtain ⟨tl, htl⟩ := renderMembers_head l hne []
  have hlen := renderMembers_length l []
  have hpm := parseMembers_render l hne hwf 1 [] ((renderMembers l []).length + 1) (by omega)
  unfold parse
  rw [List.length_cons, parseValue.eq_def]
  simp only [skipSpace_cons_of_not_space _ _ isSpace_lbrace]
  simp only [if_true, maxDepth, show ¬ (0 + 1 > 10000) by decide, if_false]
  rw [htl, skipSpace_cons_of_not_space _ _ isSpace_quote]
  simp only [show c '"' ≠ c '}' by decide, if_false]
  rw [← htl, hpm]
  simp [skipSpace]

def mType (t : Bytes) : Mem := ⟨kType, c '"' :: t ++ [c '"'], .str t⟩
def mChallenge (ch : Bytes) : Mem := ⟨kChallenge, c '"' :: ch ++ [c '"'], .str ch⟩
def mOrigin (o : Bytes) : Mem := ⟨kOrigin, c '"' :: o ++ [c '"'], .str o⟩
def mCross (b : Bool) : Mem := ⟨kCross, if b then "true".toUTF8.toList else "false".toUTF8.toList, .bool b⟩

theorem mCross_wf (b : Bool) : (mCross b).WF := by
  refine ⟨kCross_plain, ?_⟩
  cases b
  · rw [show (mCross false).vb = [c 'f', c 'a', c 'l', c 's', c 'e'] by decide +kernel]; exact valOK_false
  · rw [show (mCross true).vb = [c 't', c 'r', c 'u', c 'e'] by decide +kernel]; exact valOK_true

/-- the canonical client data document, members in any order, with or without a boolean `crossOrigin` -/
theorem clientData_members (t ch o : Bytes) (ht : PlainBytes t) (hc : PlainBytes ch) (ho : PlainBytes o)
    (l L : List Mem) (hl : l.Perm L)
    (hL : L = [mType t, mChallenge ch, mOrigin o] ∨ ∃ b, L = [mType t, mChallenge ch, mOrigin o, mCross b]) :
    clientData (c '{' :: renderMembers l []) = some ⟨t, ch, o⟩ := by
  have hmem : ∀ m ∈ l, m = mType t ∨ m = mChallenge ch ∨ m = mOrigin o ∨ ∃ b, m = mCross b := by
    intro m hm
    have := hl.mem_iff.1 hm
    rcases hL with rfl | ⟨b, rfl⟩
    · simp only [List.mem_cons, List.not_mem_nil, or_false] at this
      rcases this with h | h | h
      · exact Or.inl h
      · exact Or.inr (Or.inl h)
      · exact Or.inr (Or.inr (Or.inl h))
    · simp only [List.mem_cons, List.not_mem_nil, or_false] at this
      rcases this with h | h | h | h
      · exact Or.inl h
      · exact Or.inr (Or.inl h)
      · exact Or.inr (Or.inr (Or.inl h))
      · exact Or.inr (Or.inr (Or.inr ⟨b, h⟩))
  have hwf : ∀ m ∈ l, m.WF := by
    intro m hm
    rcases hmem m hm with rfl | rfl | rfl | ⟨b, rfl⟩
    · exact ⟨kType_plain, valOK_quote t ht⟩
    · exact ⟨kChallenge_plain, valOK_quote ch hc⟩
    · exact ⟨kOrigin_plain, valOK_quote o ho⟩
    · exact mCross_wf b
  have hne : l ≠ [] := by
    intro h; subst h
    have := hl.length_eq
    rcases hL with rfl | ⟨b, rfl⟩ <;> simp at this
  have hkvs : ∀ kv ∈ l.map Mem.kv, kv = (kType, .str t) ∨ kv = (kChallenge, .str ch) ∨ kv = (kOrigin, .str o) ∨
      ∃ b, kv = (kCross, .bool b) := by
    intro kv hkv
    obtain ⟨m, hm, rfl⟩ := List.mem_map.1 hkv
    rcases hmem m hm with rfl | rfl | rfl | ⟨b, rfl⟩
    · exact Or.inl rfl
    · exact Or.inr (Or.inl rfl)
    · exact Or.inr (Or.inr (Or.inl rfl))
    · exact Or.inr (Or.inr (Or.inr ⟨b, rfl⟩))
  have hkeys : hasKey kType (l.map Mem.kv) = true ∧ hasKey kChallenge (l.map Mem.kv) = true ∧
      hasKey kOrigin (l.map Mem.kv) = true := by
    unfold hasKey
    rw [(hl.map Mem.kv).any_eq, (hl.map Mem.kv).any_eq, (hl.map Mem.kv).any_eq]
    rcases hL with rfl | ⟨b, rfl⟩ <;> simp [Mem.kv, mType, mChallenge, mOrigin, mCross]
  unfold clientData
  rw [parse_object l hne hwf]
  simp only [storeMembers_known t ch o _ hkvs, hkeys.1, hkeys.2.1, hkeys.2.2, if_true, unq_plain _ ht, unq_plain _ hc,
    unq_plain _ ho]

end WebAuthn.Json.Lemmas
