import WebAuthnModel.Spec.Attestation
/-
  Lemmas shared by Theorems/C03 and Theorems/C04 about the android-safetynet verifier after the rewrite on top of the Lean JWS
  model: the header chain parser and the acceptance characterisation.
-/
namespace WebAuthn.JwsLemmas
open WebAuthn WebAuthn.Att WebAuthn.Spec.Att

theorem run_askCert (env : Prog.Env) (der : Bytes) (c : CertView) :
    Prog.run env (askCert der) = some c ↔ env.answer (.x509Parse der) = .cert c := by
  simp only [askCert, Prog.run_bind, Prog.run_query]
  cases env.answer (.x509Parse der) <;> simp

theorem run_askCert_none (env : Prog.Env) (der : Bytes) :
    Prog.run env (askCert der) = none ↔ ∀ c, env.answer (.x509Parse der) ≠ .cert c := by
  simp only [askCert, Prog.run_bind, Prog.run_query]
  cases env.answer (.x509Parse der) <;> simp

theorem run_askBool (env : Prog.Env) (q : Ask) :
    Prog.run env (askBool q) = true ↔ env.answer q = .bool true := by
  simp only [askBool, Prog.run_bind, Prog.run_query]
  cases env.answer q <;> simp

theorem run_sha256 (env : Prog.Env) (b : Bytes) : Prog.run env (Att.sha256 b) = Spec.sha256 env b := by
  simp only [Att.sha256, Spec.sha256, Prog.run_bind, Prog.run_query]
  cases env.answer (.sha256 b) <;> rfl

theorem run_ite {α} (env : Prog.Env) (c : Prop) [Decidable c] (p q : Prog α) :
    Prog.run env (if c then p else q) = if c then Prog.run env p else Prog.run env q := by
  split <;> rfl

/-- `parseChain` succeeds with `cs` exactly when every entry parses as a certificate, in order -/
theorem parseChain_iff (env : Prog.Env) (ds : List Bytes) (cs : List (Bytes × CertView)) :
    Prog.run env (parseChain ds) = some cs ↔ ChainParsed env ds cs := by
  induction ds generalizing cs with
  | nil => cases cs <;> simp [parseChain, ChainParsed]
  | cons der rest ih =>
    simp only [parseChain, Prog.run_bind]
    cases hc : Prog.run env (askCert der) with
    | none =>
      rw [run_askCert_none] at hc
      cases cs with
      | nil => simp [ChainParsed]
      | cons p cs' =>
        obtain ⟨d, c⟩ := p
        simp only [Prog.run_pure, ChainParsed, false_iff, not_and, reduceCtorEq]
        intro _ h; exact absurd h (hc c)
    | some c =>
      rw [run_askCert] at hc
      simp only [Prog.run_bind]
      cases hr : Prog.run env (parseChain rest) with
      | none =>
        cases cs with
        | nil => simp [ChainParsed]
        | cons p cs' =>
          obtain ⟨d, c'⟩ := p
          simp only [Prog.run_pure, ChainParsed, false_iff, not_and, reduceCtorEq]
          intro _ _ h
          rw [← ih] at h
          rw [hr] at h; cases h
      | some cs0 =>
        cases cs with
        | nil => simp [ChainParsed]
        | cons p cs' =>
          obtain ⟨d, c'⟩ := p
          simp only [Prog.run_pure, ChainParsed, Option.some.injEq, List.cons.injEq, Prod.mk.injEq, hc,
            Resp.cert.injEq, ← ih, hr]
          constructor
          · rintro ⟨⟨rfl, rfl⟩, rfl⟩; exact ⟨rfl, rfl, rfl⟩
          · rintro ⟨rfl, rfl, rfl⟩; exact ⟨⟨rfl, rfl⟩, rfl⟩

/-- `ChainParsed` is functional in the chain -/
theorem chainParsed_unique (env : Prog.Env) (ds : List Bytes) (cs cs' : List (Bytes × CertView))
    (h : ChainParsed env ds cs) (h' : ChainParsed env ds cs') : cs = cs' := by
  rw [← parseChain_iff] at h h'
  exact Option.some.inj (h.symm.trans h')

/-- the opaque branch: acceptance ⇔ the opaque answer passes every step and carries the expected nonce -/
theorem opaque_iff (env : Prog.Env) (raw : Bytes) (o : AttObj) (h : Bytes) (res : Result) :
    Prog.run env (verifySafetyNetOpaque raw o h) = some res ↔
      ∃ v, env.answer (.safetyNet raw) = .safetyNet v ∧ v.parsed = true ∧ v.chainsOK = true ∧ v.claimsOK = true ∧
        v.nonce = Spec.sha256 env (o.authData ++ h) ∧ res = ⟨"Basic", []⟩ := by
  simp only [verifySafetyNetOpaque, Prog.run_bind, Prog.run_query]
  cases ha : env.answer (.safetyNet raw) with
  | safetyNet v =>
    simp only [run_ite, Prog.run_pure, Prog.run_bind, run_sha256, Resp.safetyNet.injEq, exists_eq_left']
    cases v.parsed <;> cases v.chainsOK <;> cases v.claimsOK <;> simp [eq_comm]
  | _ => simp

/-- `Jws.signatureOK` as a statement about the environment -/
theorem run_signatureOK (env : Prog.Env) (raw : Bytes) (c : Jws.Compact) (der : Bytes) (key : KeyMat) :
    Prog.run env (Jws.signatureOK raw c der key) = true ↔ Jws.SignedBy env raw c der key := by
  unfold Jws.signatureOK Jws.SignedBy
  cases hv : c.verifiable with
  | false => simp
  | true =>
    simp only [Bool.not_true, Bool.false_eq_true, if_false, true_and]
    cases hpl : Jws.verifyPlan c.alg key c.signature with
    | reject => simp
    | primitive s hh sig =>
      simp only [Prog.run_bind, Prog.run_query]
      cases env.answer (.sigVerify s hh key c.signingInput sig) <;> simp
    | «opaque» =>
      simp only [Prog.run_bind, Prog.run_query]
      cases env.answer (.jwsVerify raw der) <;> simp

/-- the compact branch -/
theorem compact_iff (env : Prog.Env) (raw : Bytes) (c : Jws.Compact) (o : AttObj) (h : Bytes) (res : Result) :
    Prog.run env (verifySafetyNetCompact raw c o h) = some res ↔
      ∃ der cert rest nonce, ChainParsed env c.x5c ((der, cert) :: rest) ∧
        env.answer (.x509Verify der (rest.map (·.1)) safetyNetDNSName) = .bool true ∧
        Jws.SignedBy env raw c der cert.key ∧ Jws.claims c.payload = some nonce ∧
        nonce = Spec.sha256 env (o.authData ++ h) ∧ res = ⟨"Basic", []⟩ := by
  simp only [verifySafetyNetCompact, Prog.run_bind]
  cases hp : Prog.run env (parseChain c.x5c) with
  | none =>
    simp only [Prog.run_pure, reduceCtorEq, false_iff, not_exists, not_and]
    intro der cert rest nonce hch
    rw [← parseChain_iff, hp] at hch; cases hch
  | some cs =>
    cases cs with
    | nil =>
      simp only [Prog.run_pure, reduceCtorEq, false_iff, not_exists, not_and]
      intro der cert rest nonce hch
      rw [← parseChain_iff, hp] at hch; cases hch
    | cons p rest =>
      obtain ⟨leafDer, leaf⟩ := p
      have hch0 := (parseChain_iff env _ _).1 hp
      simp only [Prog.run_bind, run_ite, Prog.run_pure]
      constructor
      · intro hr
        by_cases hv : Prog.run env (askBool (.x509Verify leafDer (rest.map (·.1)) safetyNetDNSName)) = true
        · simp only [hv, Bool.not_true, Bool.false_eq_true, if_false] at hr
          by_cases hs : Prog.run env (Jws.signatureOK raw c leafDer leaf.key) = true
          · simp only [hs, Bool.not_true, Bool.false_eq_true, if_false] at hr
            cases hcl : Jws.claims c.payload with
            | none => rw [hcl] at hr; simp at hr
            | some nonce =>
              rw [hcl] at hr
              simp only [Prog.run_bind, run_sha256, run_ite, Prog.run_pure] at hr
              by_cases hn : nonce = Spec.sha256 env (o.authData ++ h)
              · simp only [ne_eq, hn, not_true_eq_false, if_false, Option.some.injEq] at hr
                exact ⟨leafDer, leaf, rest, nonce, hch0, (run_askBool _ _).1 hv, (run_signatureOK _ _ _ _ _).1 hs, rfl, hn, hr.symm⟩
              · simp [hn] at hr
          · simp [hs] at hr
        · simp [hv] at hr
      · rintro ⟨der, cert, rest', nonce, hch, hv, hs, hcl, hn, rfl⟩
        obtain ⟨⟨rfl, rfl⟩, rfl⟩ : (leafDer = der ∧ leaf = cert) ∧ rest = rest' := by
          have := chainParsed_unique env _ _ _ hch0 hch
          simpa using this
        rw [← run_askBool] at hv
        rw [← run_signatureOK] at hs
        simp [hv, hs, hcl, run_sha256, hn]

/-- android-safetynet: acceptance ⇔ `SafetyNetOK` -/
theorem verifySafetyNet_iff (env : Prog.Env) (o : AttObj) (h : Bytes) (res : Result) :
    Prog.run env (verifySafetyNet o h) = some res ↔ SafetyNetOK env o h res := by
  simp only [verifySafetyNet]
  cases hraw : stmtBytes o.stmt "response" with
  | none =>
    simp only [Prog.run_pure, reduceCtorEq, false_iff]
    rintro ⟨raw, nonce, hr, _⟩; rw [hraw] at hr; cases hr
  | some raw =>
    simp only []
    cases hp : Jws.parse raw with
    | error =>
      simp only [Prog.run_pure, reduceCtorEq, false_iff]
      rintro ⟨raw', nonce, hr, hresp, _⟩
      rw [hraw] at hr; cases hr
      rcases hresp with ⟨c, der, cert, rest, parsed, _⟩ | ⟨v, unmodelled, _⟩
      · rw [hp] at parsed; cases parsed
      · rw [hp] at unmodelled; cases unmodelled
    | unmodelled =>
      simp only [opaque_iff]
      constructor
      · rintro ⟨v, ha, h1, h2, h3, h4, rfl⟩
        exact ⟨raw, v.nonce, hraw, SafetyNetResponse.«opaque» v hp ha h1 h2 h3 rfl, h4, rfl⟩
      · rintro ⟨raw', nonce, hr, hresp, hn, rfl⟩
        rw [hraw] at hr; cases hr
        rcases hresp with ⟨c, der, cert, rest, parsed, _⟩ | ⟨v, _, ha, h1, h2, h3, h4⟩
        · rw [hp] at parsed; cases parsed
        · exact ⟨v, ha, h1, h2, h3, h4.trans hn, rfl⟩
    | ok c =>
      simp only [compact_iff]
      constructor
      · rintro ⟨der, cert, rest, nonce, hch, hv, hs, hcl, hn, rfl⟩
        exact ⟨raw, nonce, hraw, SafetyNetResponse.compact c der cert rest hp hch hv hs hcl, hn, rfl⟩
      · rintro ⟨raw', nonce, hr, hresp, hn, rfl⟩
        rw [hraw] at hr; cases hr
        rcases hresp with ⟨c', der, cert, rest, parsed, hch, hv, hs, hcl⟩ | ⟨v, unmodelled, _⟩
        · rw [hp] at parsed; cases parsed
          exact ⟨der, cert, rest, nonce, hch, hv, hs, hcl, hn, rfl⟩
        · rw [hp] at unmodelled; cases unmodelled

end WebAuthn.JwsLemmas
