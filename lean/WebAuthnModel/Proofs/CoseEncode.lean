import WebAuthnModel.Model.Cose
import WebAuthnModel.Proofs.CborFrame
/-
  `Cose.marshal` produces well-formed CBOR: decoding the output of `encStruct` gives back the map of the
  members that were encoded (used for the marshal/parse round trip of C11).
-/
namespace WebAuthn.Cose
open WebAuthn Cbor


theorem firstByte (m k : Nat) (hm : m < 8) (hk : k < 32) :
    (UInt8.ofNat (m * 32) + UInt8.ofNat k).toNat / 32 = m ∧ (UInt8.ofNat (m * 32) + UInt8.ofNat k).toNat % 32 = k := by
  rw [UInt8.toNat_add, UInt8.toNat_ofNat', UInt8.toNat_ofNat']
  omega

theorem toNat_ofNat_small (n : Nat) (h : n < 256) : (UInt8.ofNat n).toNat = n := by
  rw [UInt8.toNat_ofNat']; omega

theorem head_encHead (m n : Nat) (hm : m < 7) (hn : n < 2 ^ 32) (s : Bytes) :
    ∃ ai, ai ≠ 31 ∧ (n < 24 → ai = n) ∧ head (encHead m n ++ s) = some (⟨m, ai, n⟩, s) := by
  unfold encHead
  simp only []
  by_cases h1 : n < 24
  · refine ⟨n, by omega, fun _ => rfl, ?_⟩
    obtain ⟨e1, e2⟩ := firstByte m n (by omega) (by omega)
    generalize UInt8.ofNat (m * 32) + UInt8.ofNat n = x at e1 e2
    simp [h1, head, e1, e2]
  by_cases h2 : n < 256
  · refine ⟨24, by omega, fun _ => by omega, ?_⟩
    have e : (UInt8.ofNat (m * 32) + (24 : UInt8)).toNat / 32 = m ∧ (UInt8.ofNat (m * 32) + (24 : UInt8)).toNat % 32 = 24 :=
      firstByte m 24 (by omega) (by omega)
    obtain ⟨e1, e2⟩ := e
    generalize UInt8.ofNat (m * 32) + 24 = x at e1 e2
    have e3 := toNat_ofNat_small n h2
    generalize UInt8.ofNat n = y at e3
    simp [h1, h2, head, e1, e2, e3]
    omega
  by_cases h3 : n < 65536
  · refine ⟨25, by omega, fun _ => by omega, ?_⟩
    have e : (UInt8.ofNat (m * 32) + (25 : UInt8)).toNat / 32 = m ∧ (UInt8.ofNat (m * 32) + (25 : UInt8)).toNat % 32 = 25 :=
      firstByte m 25 (by omega) (by omega)
    obtain ⟨e1, e2⟩ := e
    generalize UInt8.ofNat (m * 32) + 25 = x at e1 e2
    simp [h1, h2, h3, head, e1, e2, Bytes.ofNatBE, Bytes.beNat]
    omega
  · refine ⟨26, by omega, fun _ => by omega, ?_⟩
    have h4 : n < 4294967296 := by omega
    have e : (UInt8.ofNat (m * 32) + (26 : UInt8)).toNat / 32 = m ∧ (UInt8.ofNat (m * 32) + (26 : UInt8)).toNat % 32 = 26 :=
      firstByte m 26 (by omega) (by omega)
    obtain ⟨e1, e2⟩ := e
    generalize UInt8.ofNat (m * 32) + 26 = x at e1 e2
    simp [h1, h2, h3, h4, head, e1, e2, Bytes.ofNatBE, Bytes.beNat]
    omega

/-- the CBOR value of an integer -/
def valOfInt (i : Int) : Value := if i ≥ 0 then .uint i.toNat else .nint (-1 - i).toNat

def SmallInt (i : Int) : Prop := -(2 ^ 32) ≤ i ∧ i < 2 ^ 32

theorem item_encInt (i : Int) (hi : SmallInt i) (f d : Nat) (s : Bytes) :
    item (f + 1) d (encInt i ++ s) = some (valOfInt i, s) := by
  unfold encInt valOfInt
  obtain ⟨h1, h2⟩ := hi
  by_cases h : i ≥ 0
  · obtain ⟨ai, _, _, hh⟩ := head_encHead 0 i.toNat (by omega) (by omega) s
    simp only [h, if_true]
    exact item_uint hh rfl
  · obtain ⟨ai, _, _, hh⟩ := head_encHead 1 (-1 - i).toNat (by omega) (by omega) s
    simp only [h, if_false]
    exact item_nint hh rfl

theorem takeExact_append (b s : Bytes) : takeExact b.length (b ++ s) = some (b, s) := by
  simp [takeExact]

theorem item_encBytes (b : Bytes) (hb : b.length < 2 ^ 32) (f d : Nat) (s : Bytes) :
    item (f + 1) d (encBytes b ++ s) = some (.bytes b, s) := by
  unfold encBytes
  obtain ⟨ai, hai, _, hh⟩ := head_encHead 2 b.length (by omega) hb (b ++ s)
  rw [List.append_assoc, item_bytes_def hh rfl hai]
  show wrap Value.bytes (takeExact b.length (b ++ s)) = _
  rw [takeExact_append]
  rfl


/-- the flat key/value list of the members that are encoded (mirrors `encMembers`) -/
def memberVals : List (Int × FieldVal) → List Value
  | [] => []
  | (k, .int i) :: rest => if i = 0 then memberVals rest else valOfInt k :: valOfInt i :: memberVals rest
  | (k, .bytes b) :: rest => if b = [] then memberVals rest else valOfInt k :: .bytes b :: memberVals rest

def MemOK : Int × FieldVal → Prop
  | (k, .int i) => SmallInt k ∧ SmallInt i
  | (k, .bytes b) => SmallInt k ∧ b.length < 2 ^ 32

theorem items_two (f d n : Nat) (p1 p2 rest s' : Bytes) (v1 v2 : Value) (vs : List Value)
    (h1 : ∀ s g, item (g + 1) d (p1 ++ s) = some (v1, s))
    (h2 : ∀ s g, item (g + 1) d (p2 ++ s) = some (v2, s))
    (h3 : items (f + 1) d n rest = some (vs, s')) :
    items (f + 3) d (n + 2) ((p1 ++ p2) ++ rest) = some (v1 :: v2 :: vs, s') := by
  rw [items, List.append_assoc, h1]
  simp only []
  rw [items, h2]
  simp only []
  rw [h3]

theorem items_members (ms : List (Int × FieldVal)) (hok : ∀ m ∈ ms, MemOK m) (d : Nat) (s : Bytes) :
    ∀ f, 2 * (encMembers ms).length ≤ f →
      items (f + 1) d (2 * (encMembers ms).length) ((encMembers ms).flatten ++ s) = some (memberVals ms, s) := by
  induction ms with
  | nil => intro f _; simp [encMembers, memberVals, items]
  | cons m ms ih =>
    have ih := ih (fun m' hm' => hok m' (List.mem_cons_of_mem _ hm'))
    have hm := hok m (List.mem_cons_self ..)
    obtain ⟨k, fv⟩ := m
    cases fv with
    | int i =>
      by_cases hi : i = 0
      · simpa [encMembers, memberVals, hi] using ih
      · intro f hf
        simp only [encMembers, memberVals, hi, if_false, List.length_cons, List.flatten_cons] at hf ⊢
        obtain ⟨f', rfl⟩ : ∃ f', f = f' + 2 := ⟨f - 2, by omega⟩
        rw [List.append_assoc, show 2 * ((encMembers ms).length + 1) = 2 * (encMembers ms).length + 2 by omega]
        exact items_two _ _ _ _ _ _ _ _ _ _ (fun s g => item_encInt k hm.1 g d s) (fun s g => item_encInt i hm.2 g d s)
          (ih f' (by omega))
    | bytes b =>
      by_cases hb : b = []
      · simpa [encMembers, memberVals, hb] using ih
      · intro f hf
        simp only [encMembers, memberVals, hb, if_false, List.length_cons, List.flatten_cons] at hf ⊢
        obtain ⟨f', rfl⟩ : ∃ f', f = f' + 2 := ⟨f - 2, by omega⟩
        rw [List.append_assoc, show 2 * ((encMembers ms).length + 1) = 2 * (encMembers ms).length + 2 by omega]
        exact items_two _ _ _ _ _ _ _ _ _ _ (fun s g => item_encInt k hm.1 g d s) (fun s g => item_encBytes b hm.2 g d s)
          (ih f' (by omega))

theorem encMembers_length_le (ms : List (Int × FieldVal)) : (encMembers ms).length ≤ ms.length := by
  induction ms with
  | nil => simp [encMembers]
  | cons m ms ih =>
    obtain ⟨k, fv⟩ := m
    cases fv with
    | int i => by_cases hi : i = 0 <;> simp [encMembers, hi] <;> omega
    | bytes b => by_cases hb : b = [] <;> simp [encMembers, hb] <;> omega

theorem decode_encStruct (ms : List (Int × FieldVal)) (hok : ∀ m ∈ ms, MemOK m) (hl : ms.length < 24) :
    decode (encStruct ms) = some (.map (memberVals ms), []) := by
  have hl' := encMembers_length_le ms
  unfold encStruct
  simp only []
  obtain ⟨ai, hai, hai', hh⟩ := head_encHead 5 (encMembers ms).length (by omega) (by omega) ((encMembers ms).flatten)
  generalize hb : encHead 5 (encMembers ms).length ++ (encMembers ms).flatten = b at hh
  rw [decode_eq_item (fuelFor b + 2 * (encMembers ms).length + 1) b (by omega), item_map hh rfl]
  have h1 : ¬ (0 + 1 > maxNested) := by simp [maxNested]
  have h2 : ¬ ((encMembers ms).length > maxElems) := by simp [maxElems]; omega
  rw [if_neg h1, if_neg hai]
  simp only []
  rw [if_neg h2]
  have := items_members ms hok 1 [] (fuelFor b + 2 * (encMembers ms).length - 1) (by unfold fuelFor; omega)
  rw [List.append_nil] at this
  rw [show fuelFor b + 2 * (encMembers ms).length = fuelFor b + 2 * (encMembers ms).length - 1 + 1 by unfold fuelFor; omega, this]
  rfl

/-! ### decoding the members back into a struct -/

theorem decodeField_int (i : Int) (hi : SmallInt i) : decodeField .int (valOfInt i) = .set (.int i) := by
  obtain ⟨h1, h2⟩ := hi
  unfold valOfInt
  by_cases h : i ≥ 0
  · have : i.toNat < 2 ^ 63 := by omega
    have e : ((i.toNat : Nat) : Int) = i := by omega
    simp only [h, if_true, decodeField, this, e]
  · have : (-1 - i).toNat < 2 ^ 63 := by omega
    have e : -1 - (((-1 - i).toNat : Nat) : Int) = i := by omega
    simp only [h, if_false, decodeField, this, e, if_true]

theorem decodeField_uint8 (n : Nat) (h : n ≤ 255) : decodeField .uint8 (.uint n) = .set (.int n) := by
  simp [decodeField, h]
theorem decodeField_bytes (b : Bytes) : decodeField .bytes (.bytes b) = .set (.bytes b) := rfl

theorem valOfInt_1 : valOfInt 1 = .uint 1 := rfl
theorem valOfInt_2 : valOfInt 2 = .uint 2 := rfl
theorem valOfInt_3 : valOfInt 3 = .uint 3 := rfl
theorem valOfInt_6 : valOfInt 6 = .uint 6 := rfl
theorem valOfInt_m1 : valOfInt (-1) = .nint 0 := rfl
theorem valOfInt_m2 : valOfInt (-2) = .nint 1 := rfl
theorem valOfInt_m3 : valOfInt (-3) = .nint 2 := rfl
theorem valOfInt_m8 : valOfInt (-8) = .nint 7 := rfl

theorem stripZeros_length_le (b : Bytes) : (Bytes.stripZeros b).length ≤ b.length := by
  induction b with
  | nil => simp [Bytes.stripZeros]
  | cons x xs ih =>
    unfold Bytes.stripZeros
    split
    · simp only [List.length_cons]; omega
    · exact Nat.le_refl _

end WebAuthn.Cose
