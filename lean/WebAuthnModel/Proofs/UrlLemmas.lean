import WebAuthnModel.Spec.Url
/-
  Lemmas about the `net/url` model (`Model/Url.lean`) used by `Theorems/C13Url.lean`.
-/
namespace WebAuthn.Url
open WebAuthn.Spec.Url

/-! ### deciding statements over all 256 byte values -/

theorem forall_uint8_of_fin {P : UInt8 → Prop} (h : ∀ i : Fin 256, P (UInt8.ofFin i)) : ∀ c, P c :=
  fun c => h c.toFin

instance decidableForallUInt8 (P : UInt8 → Prop) [DecidablePred P] : Decidable (∀ c, P c) :=
  decidable_of_iff (∀ i : Fin 256, P (UInt8.ofFin i)) ⟨forall_uint8_of_fin, fun h _ => h _⟩

/-! ### `cut`, `cutLast` -/

theorem cut_not_mem (sep : UInt8) (a : Bytes) (h : sep ∉ a) : cut sep a = (a, [], false) := by
  induction a with
  | nil => rfl
  | cons c cs ih =>
    have h1 : c ≠ sep := fun e => h (by simp [e])
    have h2 : sep ∉ cs := fun e => h (by simp [e])
    simp [cut, h1, ih h2]

theorem cut_append_sep (sep : UInt8) (a b : Bytes) (h : sep ∉ a) : cut sep (a ++ sep :: b) = (a, b, true) := by
  induction a with
  | nil => simp [cut]
  | cons c cs ih =>
    have h1 : c ≠ sep := fun e => h (by simp [e])
    have h2 : sep ∉ cs := fun e => h (by simp [e])
    simp [cut, h1, ih h2]

/-- what `cut` returns, in general -/
theorem cut_spec (sep : UInt8) (s : Bytes) :
    (sep ∉ s ∧ cut sep s = (s, [], false)) ∨ (∃ a b, s = a ++ sep :: b ∧ sep ∉ a ∧ cut sep s = (a, b, true)) := by
  induction s with
  | nil => left; simp [cut]
  | cons c cs ih =>
    by_cases hc : c = sep
    · right; exact ⟨[], cs, by simp [hc], by simp, by simp [cut, hc]⟩
    · rcases ih with ⟨h1, h2⟩ | ⟨a, b, h1, h2, h3⟩
      · left
        have : sep ∉ c :: cs := by simp [Ne.symm hc, h1]
        exact ⟨this, cut_not_mem _ _ this⟩
      · right
        refine ⟨c :: a, b, by simp [h1], by simp [Ne.symm hc, h2], ?_⟩
        simp [cut, hc, h3]

theorem cutLast_not_mem (sep : UInt8) (a : Bytes) (h : sep ∉ a) : cutLast sep a = none := by
  have : sep ∉ a.reverse := by simpa using h
  simp [cutLast, cut_not_mem _ _ this]

theorem cutLast_append_sep (sep : UInt8) (a b : Bytes) (h : sep ∉ b) :
    cutLast sep (a ++ sep :: b) = some (a, b) := by
  have h' : sep ∉ b.reverse := by simpa using h
  have : (a ++ sep :: b).reverse = b.reverse ++ sep :: a.reverse := by simp
  simp [cutLast, this, cut_append_sep _ _ _ h']

theorem cutLast_spec (sep : UInt8) (s a b : Bytes) (h : cutLast sep s = some (a, b)) :
    s = a ++ sep :: b ∧ sep ∉ b := by
  unfold cutLast at h
  rcases cut_spec sep s.reverse with ⟨_, h2⟩ | ⟨x, y, h1, h2, h3⟩
  · simp [h2] at h
  · simp [h3] at h
    obtain ⟨rfl, rfl⟩ := h
    have : s = (x ++ sep :: y).reverse := by rw [← h1]; simp
    refine ⟨by simpa using this, by simpa using h2⟩

/-! ### byte classes -/

/-- what `unescape .host` / `.zone` lets through unchanged -/
def hostPass (c : UInt8) : Bool := !(c = ch '%') && !(decide (c.toNat < 128) && shouldEscapeHost c)

/-- what `unescape .host` / `.zone` can output -/
def hostOut (c : UInt8) : Bool := decide (128 ≤ c.toNat) || !shouldEscapeHost c || c = ch '%' || c = 32

theorem plain_hostPass : ∀ c : UInt8, plainHostChar c = true → hostPass c = true := by decide +kernel
theorem digit_hostPass : ∀ c : UInt8, isDigit c = true → hostPass c = true := by decide +kernel
theorem colon_hostPass : hostPass (ch ':') = true := by decide +kernel
theorem hostPass_hostOut : ∀ c : UInt8, hostPass c = true → hostOut c = true := by decide +kernel
theorem hostOut_not_never : ∀ c : UInt8, hostOut c = true → c ∉ neverInHost := by decide +kernel

theorem plain_ne_colon : ∀ c : UInt8, plainHostChar c = true → c ≠ ch ':' := by decide +kernel
theorem plain_ne_at : ∀ c : UInt8, plainHostChar c = true → c ≠ ch '@' := by decide +kernel
theorem plain_ne_slash : ∀ c : UInt8, plainHostChar c = true → c ≠ ch '/' := by decide +kernel
theorem plain_ne_quest : ∀ c : UInt8, plainHostChar c = true → c ≠ ch '?' := by decide +kernel
theorem plain_ne_hash : ∀ c : UInt8, plainHostChar c = true → c ≠ ch '#' := by decide +kernel
theorem plain_ne_pct : ∀ c : UInt8, plainHostChar c = true → c ≠ ch '%' := by decide +kernel
theorem plain_ne_lbrack : ∀ c : UInt8, plainHostChar c = true → c ≠ ch '[' := by decide +kernel
theorem plain_ne_star : ∀ c : UInt8, plainHostChar c = true → c ≠ ch '*' := by decide +kernel
theorem plain_not_ctl : ∀ c : UInt8, plainHostChar c = true → isCTL c = false := by decide +kernel

theorem digit_ne_colon : ∀ c : UInt8, isDigit c = true → c ≠ ch ':' := by decide +kernel
theorem digit_ne_at : ∀ c : UInt8, isDigit c = true → c ≠ ch '@' := by decide +kernel
theorem digit_ne_slash : ∀ c : UInt8, isDigit c = true → c ≠ ch '/' := by decide +kernel
theorem digit_ne_quest : ∀ c : UInt8, isDigit c = true → c ≠ ch '?' := by decide +kernel
theorem digit_ne_hash : ∀ c : UInt8, isDigit c = true → c ≠ ch '#' := by decide +kernel
theorem digit_not_ctl : ∀ c : UInt8, isDigit c = true → isCTL c = false := by decide +kernel

theorem scheme_ne_colon : ∀ c : UInt8, schemeChar c = true → c ≠ ch ':' := by decide +kernel
theorem scheme_ne_hash : ∀ c : UInt8, schemeChar c = true → c ≠ ch '#' := by decide +kernel
theorem scheme_not_ctl : ∀ c : UInt8, schemeChar c = true → isCTL c = false := by decide +kernel
theorem alpha_ne_star : ∀ c : UInt8, isAlpha c = true → c ≠ ch '*' := by decide +kernel

theorem ui_ne_at : ∀ c : UInt8, userinfoChar c = true → c ≠ ch '@' := by decide +kernel
theorem ui_ne_slash : ∀ c : UInt8, userinfoChar c = true → c ≠ ch '/' := by decide +kernel
theorem ui_ne_quest : ∀ c : UInt8, userinfoChar c = true → c ≠ ch '?' := by decide +kernel
theorem ui_ne_hash : ∀ c : UInt8, userinfoChar c = true → c ≠ ch '#' := by decide +kernel
theorem ui_ne_pct : ∀ c : UInt8, userinfoChar c = true → c ≠ ch '%' := by decide +kernel
theorem ui_not_ctl : ∀ c : UInt8, userinfoChar c = true → isCTL c = false := by decide +kernel
theorem ui_valid : ∀ c : UInt8, userinfoChar c = true →
    (isAlpha c || isDigit c || userinfoPunct.contains c) = true := by decide +kernel

theorem unhex_le : ∀ c : UInt8, unhex c ≤ 15 := by decide +kernel

/-! ### `unescape` -/

theorem unescape_cons_ne (m : Mode) (c : UInt8) (cs : Bytes) (h : c ≠ ch '%') :
    unescape m (c :: cs) =
      if (m = .host ∨ m = .zone) ∧ c.toNat < 128 ∧ shouldEscapeHost c = true then none
      else (unescape m cs).map (c :: ·) := by
  rw [unescape.eq_def]; simp only [h, if_false]

theorem unescape_id_other (m : Mode) (hm1 : m ≠ .host) (hm2 : m ≠ .zone) (s : Bytes) (h : ch '%' ∉ s) :
    unescape m s = some s := by
  induction s with
  | nil => simp [unescape]
  | cons c cs ih =>
    have h1 : c ≠ ch '%' := fun e => h (by simp [e])
    have h2 : ch '%' ∉ cs := fun e => h (by simp [e])
    simp [unescape_cons_ne _ _ _ h1, hm1, hm2, ih h2]

theorem unescape_id_host (m : Mode) (s : Bytes) (h : s.all hostPass = true) :
    unescape m s = some s := by
  induction s with
  | nil => simp [unescape]
  | cons c cs ih =>
    simp only [List.all_cons, Bool.and_eq_true] at h
    obtain ⟨hc, hcs⟩ := h
    simp only [hostPass, Bool.and_eq_true, Bool.not_eq_true', decide_eq_false_iff_not, Bool.and_eq_false_iff, decide_eq_false_iff_not] at hc
    obtain ⟨h1, h3⟩ := hc
    have h4 : ¬ (c.toNat < 128 ∧ shouldEscapeHost c = true) := by
      rintro ⟨x, y⟩; rcases h3 with h3 | h3
      · exact h3 x
      · simp [y] at h3
    simp [unescape_cons_ne _ _ _ h1, h4, ih hcs]

theorem hostOut_of_not_escape (c : UInt8) (h : ¬ (c.toNat < 128 ∧ shouldEscapeHost c = true)) : hostOut c = true := by
  unfold hostOut
  by_cases h1 : c.toNat < 128
  · have : shouldEscapeHost c = false := by
      cases hh : shouldEscapeHost c with
      | false => rfl
      | true => exact absurd ⟨h1, hh⟩ h
    simp [this]
  · have : 128 ≤ c.toNat := by omega
    simp [this]

theorem hostOut_pct : hostOut (UInt8.ofNat (unhex (ch '2') * 16 + unhex (ch '5'))) = true := by decide +kernel

/-- every byte `unescape .host` / `.zone` outputs -/
theorem unescape_hostOut (m : Mode) (hm : m = .host ∨ m = .zone) (n : Nat) :
    ∀ (s t : Bytes), s.length ≤ n → unescape m s = some t → t.all hostOut = true := by
  induction n with
  | zero =>
    intro s t hl h
    have : s = [] := List.length_eq_zero_iff.mp (by omega)
    subst this
    simp [unescape] at h; subst h; rfl
  | succ n ih =>
    intro s t hl h
    match s, hl, h with
    | [], _, h => simp [unescape] at h; subst h; rfl
    | c :: cs, hl, h =>
      by_cases hc : c = ch '%'
      · subst hc
        match cs, hl, h with
        | [], _, h => simp [unescape] at h
        | [a], _, h => simp [unescape] at h
        | a :: b :: rest, hl, h =>
          rw [unescape.eq_def] at h
          simp only [if_true] at h
          have hv8 : ¬ unhex a < 8 → 128 ≤ (UInt8.ofNat (unhex a * 16 + unhex b)).toNat := by
            intro h8
            have ha := unhex_le a
            have hb := unhex_le b
            rw [UInt8.toNat_ofNat']; omega
          have hv25 : a = ch '2' ∧ b = ch '5' → hostOut (UInt8.ofNat (unhex a * 16 + unhex b)) = true := by
            rintro ⟨rfl, rfl⟩; exact hostOut_pct
          generalize UInt8.ofNat (unhex a * 16 + unhex b) = v at h hv8 hv25
          split at h
          · exact absurd h (by simp)
          split at h
          · exact absurd h (by simp)
          rename_i hh1
          split at h
          · exact absurd h (by simp)
          rename_i hh2
          cases hr : unescape m rest with
          | none => simp [hr] at h
          | some r =>
            simp only [hr, Option.map_some, Option.some.injEq] at h
            subst h
            have hrl : rest.length ≤ n := by simp at hl; omega
            have := ih rest r hrl hr
            simp only [List.all_cons, this, Bool.and_true]
            by_cases h25 : a = ch '2' ∧ b = ch '5'
            · exact hv25 h25
            · rcases hm with rfl | rfl
              · have h8 : ¬ unhex a < 8 := fun x => hh1 ⟨rfl, x, h25⟩
                have := hv8 h8
                unfold hostOut
                simp [this]
              · by_cases h32 : v = 32
                · subst h32; decide +kernel
                · cases hs : shouldEscapeHost v with
                  | false => unfold hostOut; simp [hs]
                  | true => exact absurd ⟨rfl, h25, h32, hs⟩ hh2
      · rw [unescape_cons_ne _ _ _ hc] at h
        split at h
        · exact absurd h (by simp)
        rename_i hh
        cases hr : unescape m cs with
        | none => simp [hr] at h
        | some r =>
          simp [hr] at h
          subst h
          have hrl : cs.length ≤ n := by simp at hl; omega
          have := ih cs r hrl hr
          simp only [List.all_cons, this, Bool.and_true]
          exact hostOut_of_not_escape c (fun x => hh ⟨hm, x⟩)

/-! ### `getScheme`, the query step, `parse` -/

theorem colon_not_scheme : isAlpha (ch ':') = false ∧ (isDigit (ch ':') || ch ':' = ch '+' || ch ':' = ch '-' || ch ':' = ch '.') = false := by decide +kernel

theorem getSchemeAux_scheme (raw rest : Bytes) : ∀ (suf pre : Bytes), raw = pre ++ suf ++ ch ':' :: rest →
    suf.all schemeChar = true → (pre = [] → ∃ c t, suf = c :: t ∧ isAlpha c = true) →
    getSchemeAux raw pre.length (suf ++ ch ':' :: rest) = some (pre ++ suf, rest) := by
  intro suf
  induction suf with
  | nil =>
    intro pre hraw _ hne
    have hp : pre ≠ [] := by
      intro e; obtain ⟨c, t, h, _⟩ := hne e; cases h
    have hl : pre.length ≠ 0 := by simpa using hp
    simp only [List.nil_append, getSchemeAux, colon_not_scheme.1, colon_not_scheme.2, if_true, hl, if_false,
      Bool.false_eq_true]
    simp [hraw]
  | cons c cs ih =>
    intro pre hraw hall hne
    simp only [List.all_cons, Bool.and_eq_true] at hall
    have hrec := ih (pre ++ [c]) (by simp [hraw]) hall.2 (by simp)
    simp only [List.length_append, List.length_cons, List.length_nil, Nat.zero_add, List.append_assoc,
      List.cons_append, List.nil_append] at hrec
    simp only [List.cons_append, getSchemeAux]
    by_cases ha : isAlpha c = true
    · simp only [ha, if_true]; exact hrec
    · simp only [ha, if_false, Bool.false_eq_true]
      have hd : (isDigit c || c = ch '+' || c = ch '-' || c = ch '.') = true := by
        have := hall.1
        simp only [schemeChar] at this
        simpa [ha] using this
      have hl : pre.length ≠ 0 := by
        intro e
        have : pre = [] := List.length_eq_zero_iff.mp e
        obtain ⟨c', t, h, h'⟩ := hne this
        cases h; exact ha h'
      simp only [hd, if_true, hl, if_false]; exact hrec

theorem getScheme_scheme (scheme rest : Bytes) (h : ValidScheme scheme) :
    getScheme (scheme ++ ch ':' :: rest) = some (scheme, rest) := by
  have := getSchemeAux_scheme (scheme ++ ch ':' :: rest) rest scheme [] (by simp) h.2 (fun _ => h.1)
  simpa [getScheme] using this

theorem getSchemeAux_plain (raw : Bytes) : ∀ (cs : Bytes) (i : Nat), cs.all plainHostChar = true →
    getSchemeAux raw i cs = some ([], raw) := by
  intro cs
  induction cs with
  | nil => intro i _; rfl
  | cons c cs ih =>
    intro i hall
    simp only [List.all_cons, Bool.and_eq_true] at hall
    have hc := plain_ne_colon c hall.1
    simp only [getSchemeAux, ih _ hall.2, hc, if_false]
    split
    · rfl
    · split
      · split <;> rfl
      · rfl

theorem getScheme_plain (h : Bytes) (hh : h.all plainHostChar = true) : getScheme h = some ([], h) :=
  getSchemeAux_plain h h 0 hh

/-- the query step: when the rest ends in its only '?', dropping it is cutting at it -/
theorem dropLast_eq_cut (c : UInt8) : ∀ rest : Bytes, rest.getLast? = some c → rest.count c = 1 →
    rest.dropLast = (cut c rest).1 := by
  intro rest
  induction rest with
  | nil => intro h; simp at h
  | cons x xs ih =>
    intro hl hc
    cases xs with
    | nil =>
      simp at hl; subst hl; simp [cut]
    | cons y ys =>
      have hl' : (y :: ys).getLast? = some c := by simpa [List.getLast?_cons_cons] using hl
      have hmem : c ∈ y :: ys := List.mem_of_getLast? hl'
      have hpos : 0 < (y :: ys).count c := List.count_pos_iff.mpr hmem
      have hx : x ≠ c := by
        intro e; subst e
        rw [List.count_cons_self] at hc; omega
      have hc' : (y :: ys).count c = 1 := by
        rw [List.count_cons_of_ne hx] at hc; exact hc
      have := ih hl' hc'
      rw [List.dropLast_cons_cons, this]
      conv => rhs; rw [cut]
      simp [hx]

/-- the rest of `parse` once the scheme and the query are removed -/
def afterScheme (scheme rest : Bytes) : Option Bytes :=
  let startsSlash := rest.head? = some (ch '/')
  if !startsSlash ∧ scheme ≠ [] then some []
  else if !startsSlash ∧ ((cut (ch '/') rest).1).contains (ch ':') then none
  else
    let slash2 := [ch '/', ch '/']
    let slash3 := [ch '/', ch '/', ch '/']
    if (scheme ≠ [] ∨ !slash3.isPrefixOf rest) ∧ slash2.isPrefixOf rest then
      let auth := rest.drop 2
      let (authority, pathTail, hasSlash) := cut (ch '/') auth
      let path := if hasSlash then ch '/' :: pathTail else []
      match parseAuthority authority with
      | none => none
      | some h => (unescape .path path).map (fun _ => h)
    else (unescape .path rest).map (fun _ => [])

theorem parseHostField_eq (u : Bytes) : parseHostField u =
    if hasCTL u then none else if u = [ch '*'] then some [] else
      match getScheme u with
      | none => none
      | some (scheme, rest) => afterScheme scheme (cut (ch '?') rest).1 := by
  unfold parseHostField
  split
  · rfl
  split
  · rfl
  cases hg : getScheme u with
  | none => rfl
  | some p =>
    obtain ⟨scheme, rest⟩ := p
    by_cases hq : rest.getLast? = some (ch '?') ∧ rest.count (ch '?') = 1
    · simp only [hq, and_self, if_true]
      rw [dropLast_eq_cut _ _ hq.1 hq.2]; rfl
    · simp only [hq, if_false]; rfl

theorem hostOf_eq (raw : Bytes) : hostOf raw =
    match parseHostField (cut (ch '#') raw).1 with
    | none => none
    | some h =>
      if (cut (ch '#') raw).2.1 = [] then some (hostname h)
      else (unescape .fragment (cut (ch '#') raw).2.1).map (fun _ => hostname h) := rfl

/-! ### authority of a rendered URL -/

theorem not_mem_of_all {P : UInt8 → Bool} {x : UInt8} (hP : ∀ c, P c = true → c ≠ x) {s : Bytes}
    (h : s.all P = true) : x ∉ s := by
  intro hx; exact hP x (List.all_eq_true.mp h x hx) rfl

theorem all_mono {P Q : UInt8 → Bool} (hPQ : ∀ c, P c = true → Q c = true) {s : Bytes}
    (h : s.all P = true) : s.all Q = true := by
  rw [List.all_eq_true] at *; intro x hx; exact hPQ x (h x hx)

/-- host [":" port] -/
def hostPort (host : Bytes) (port : Option Bytes) : Bytes := host ++ optPre (ch ':') port

theorem cutLast_hostPort (host : Bytes) (port : Option Bytes) (hh : PlainHost host)
    (hp : ∀ q, port = some q → q.all isDigit = true) :
    cutLast (ch ':') (hostPort host port) = port.map (fun q => (host, q)) := by
  cases port with
  | none =>
    simp only [hostPort, optPre, List.append_nil, Option.map_none]
    exact cutLast_not_mem _ _ (not_mem_of_all plain_ne_colon hh.2)
  | some q =>
    simp only [hostPort, optPre, Option.map_some]
    exact cutLast_append_sep _ _ _ (not_mem_of_all digit_ne_colon (hp q rfl))

theorem hostPort_all_hostPass (host : Bytes) (port : Option Bytes) (hh : PlainHost host)
    (hp : ∀ q, port = some q → q.all isDigit = true) : (hostPort host port).all hostPass = true := by
  have h1 := all_mono plain_hostPass hh.2
  cases port with
  | none => simpa [hostPort, optPre] using h1
  | some q =>
    have h2 := all_mono digit_hostPass (hp q rfl)
    simp only [hostPort, optPre, List.all_append, List.all_cons, h1, h2, colon_hostPass, Bool.and_self]

theorem hostPort_cons (host : Bytes) (port : Option Bytes) (hh : PlainHost host) :
    ∃ c t, hostPort host port = c :: t ∧ host = c :: (host.drop 1) ∧ plainHostChar c = true := by
  obtain ⟨hne, hall⟩ := hh
  cases host with
  | nil => exact absurd rfl hne
  | cons c t =>
    simp only [List.all_cons, Bool.and_eq_true] at hall
    exact ⟨c, t ++ optPre (ch ':') port, rfl, rfl, hall.1⟩

theorem parseHost_hostPort (host : Bytes) (port : Option Bytes) (hh : PlainHost host)
    (hp : ∀ q, port = some q → q.all isDigit = true) :
    parseHost (hostPort host port) = some (hostPort host port) := by
  have hcut := cutLast_hostPort host port hh hp
  have hun := unescape_id_host .host _ (hostPort_all_hostPass host port hh hp)
  obtain ⟨c, t, hct, _, hc⟩ := hostPort_cons host port hh
  have hb := plain_ne_lbrack c hc
  rw [hct] at hcut hun ⊢
  unfold parseHost
  simp only [hb, if_false, hcut, hun]
  cases port with
  | none => rfl
  | some q => simp [validOptionalPort, hp q rfl]

theorem hostname_hostPort (host : Bytes) (port : Option Bytes) (hh : PlainHost host)
    (hp : ∀ q, port = some q → q.all isDigit = true) :
    hostname (hostPort host port) = host := by
  have hcut := cutLast_hostPort host port hh hp
  unfold hostname
  rw [hcut]
  obtain ⟨c, t, hct, hcons, hc⟩ := hostPort_cons host port hh
  have hb := plain_ne_lbrack c hc
  cases port with
  | none =>
    have : hostPort host none = host := by simp [hostPort, optPre]
    simp only [Option.map_none, this]
    rw [hcons]; simp [hb]
  | some q =>
    simp only [Option.map_some, validOptionalPort, hp q rfl, decide_true, Bool.and_self, if_true]
    rw [hcons]; simp [hb]

theorem hostPort_no_at (host : Bytes) (port : Option Bytes) (hh : PlainHost host)
    (hp : ∀ q, port = some q → q.all isDigit = true) : ch '@' ∉ hostPort host port := by
  have h1 := not_mem_of_all plain_ne_at hh.2
  cases port with
  | none => simpa [hostPort, optPre] using h1
  | some q =>
    have h2 := not_mem_of_all digit_ne_at (hp q rfl)
    have : ch '@' ≠ ch ':' := by decide
    simp [hostPort, optPre, h1, h2, this]

/-- [userinfo "@"] -/
def uiPre : Option Bytes → Bytes
  | some u => u ++ [ch '@']
  | none => []

theorem parseAuthority_ui (ui : Option Bytes) (hp h : Bytes) (hat : ch '@' ∉ hp)
    (hui : ∀ u, ui = some u → UserinfoOK u) (hph : parseHost hp = some h) :
    parseAuthority (uiPre ui ++ hp) = some h := by
  cases ui with
  | none =>
    simp only [uiPre, List.nil_append]
    unfold parseAuthority
    rw [cutLast_not_mem _ _ hat]; exact hph
  | some u =>
    have hu : u.all userinfoChar = true := hui u rfl
    have hpct : ch '%' ∉ u := not_mem_of_all ui_ne_pct hu
    have hval : validUserinfo u = true := all_mono ui_valid hu
    have : uiPre (some u) ++ hp = u ++ ch '@' :: hp := by simp [uiPre]
    rw [this]
    unfold parseAuthority
    rw [cutLast_append_sep _ _ _ hat]
    simp only [hph, hval, Bool.not_true, Bool.false_eq_true, if_false]
    rcases cut_spec (ch ':') u with ⟨_, h2⟩ | ⟨a, b, h1, _, h3⟩
    · simp [h2, unescape_id_other .userPassword (by decide) (by decide) u hpct]
    · have ha : ch '%' ∉ a := fun e => hpct (by simp [h1, e])
      have hb : ch '%' ∉ b := fun e => hpct (by simp [h1, e])
      simp [h3, unescape_id_other .userPassword (by decide) (by decide) a ha,
        unescape_id_other .userPassword (by decide) (by decide) b hb]

/-! ### character classes of the rendered pieces; assembling `parse` -/

def authChar (c : UInt8) : Bool := !(c = ch '#') && !isCTL c && !(c = ch '?') && !(c = ch '/')
def pathChar (c : UInt8) : Bool := !(c = ch '#') && !isCTL c && !(c = ch '?')
def preChar (c : UInt8) : Bool := !(c = ch '#') && !isCTL c

theorem ui_authChar : ∀ c : UInt8, userinfoChar c = true → authChar c = true := by decide +kernel
theorem plain_authChar : ∀ c : UInt8, plainHostChar c = true → authChar c = true := by decide +kernel
theorem digit_authChar : ∀ c : UInt8, isDigit c = true → authChar c = true := by decide +kernel
theorem at_authChar : authChar (ch '@') = true := by decide +kernel
theorem colon_authChar : authChar (ch ':') = true := by decide +kernel
theorem authChar_pathChar : ∀ c : UInt8, authChar c = true → pathChar c = true := by decide +kernel
theorem pathChar_preChar : ∀ c : UInt8, pathChar c = true → preChar c = true := by decide +kernel
theorem scheme_preChar : ∀ c : UInt8, schemeChar c = true → preChar c = true := by decide +kernel
theorem authChar_ne_slash : ∀ c : UInt8, authChar c = true → c ≠ ch '/' := by decide +kernel
theorem pathChar_ne_quest : ∀ c : UInt8, pathChar c = true → c ≠ ch '?' := by decide +kernel
theorem preChar_ne_hash : ∀ c : UInt8, preChar c = true → c ≠ ch '#' := by decide +kernel
theorem preChar_not_ctl : ∀ c : UInt8, preChar c = true → isCTL c = false := by decide +kernel
theorem pathOK_pathChar : ∀ c : UInt8, (!(c = ch '?' || c = ch '#' || c = ch '%' || isCTL c)) = true →
    pathChar c = true := by decide +kernel
theorem pathOK_ne_pct : ∀ c : UInt8, (!(c = ch '?' || c = ch '#' || c = ch '%' || isCTL c)) = true →
    c ≠ ch '%' := by decide +kernel
theorem queryOK_preChar : ∀ c : UInt8, (!(c = ch '#' || isCTL c)) = true → preChar c = true := by decide +kernel
theorem fragOK_ne_pct : ∀ c : UInt8, (!(c = ch '%')) = true → c ≠ ch '%' := by decide +kernel
theorem sep_chars : pathChar (ch ':') = true ∧ pathChar (ch '/') = true ∧ preChar (ch '?') = true := by decide +kernel

theorem hasCTL_false_of_all {s : Bytes} (h : s.all preChar = true) : hasCTL s = false := by
  unfold hasCTL
  rw [List.any_eq_false]
  intro x hx
  have := preChar_not_ctl x (List.all_eq_true.mp h x hx)
  simpa [isCTL] using this

theorem uiPre_authChar (ui : Option Bytes) (hui : ∀ u, ui = some u → UserinfoOK u) :
    (uiPre ui).all authChar = true := by
  cases ui with
  | none => rfl
  | some u =>
    have := all_mono ui_authChar (hui u rfl)
    simp [uiPre, List.all_append, this, at_authChar]

theorem hostPort_authChar (host : Bytes) (port : Option Bytes) (hh : PlainHost host)
    (hp : ∀ q, port = some q → q.all isDigit = true) : (hostPort host port).all authChar = true := by
  have h1 := all_mono plain_authChar hh.2
  cases port with
  | none => simpa [hostPort, optPre] using h1
  | some q =>
    have h2 := all_mono digit_authChar (hp q rfl)
    simp only [hostPort, optPre, List.all_append, List.all_cons, h1, h2, colon_authChar, Bool.and_self]

theorem pathOK_facts (path : Bytes) (h : PathOK path) :
    path.all pathChar = true ∧ ch '%' ∉ path ∧ (path = [] ∨ ∃ r, path = ch '/' :: r) := by
  rcases h with rfl | ⟨hr, hall⟩
  · exact ⟨rfl, by simp, Or.inl rfl⟩
  · exact ⟨all_mono pathOK_pathChar hall, not_mem_of_all pathOK_ne_pct hall, Or.inr hr⟩

theorem afterScheme_auth (scheme auth path h : Bytes) (hs : scheme ≠ []) (hslash : ch '/' ∉ auth)
    (hpath : PathOK path) (hpa : parseAuthority auth = some h) :
    afterScheme scheme (ch '/' :: ch '/' :: (auth ++ path)) = some h := by
  obtain ⟨_, hpct, hshape⟩ := pathOK_facts path hpath
  have hun := unescape_id_other .path (by decide) (by decide) path hpct
  have hcut : ∃ t f, cut (ch '/') (auth ++ path) = (auth, t, f) ∧ (if f = true then ch '/' :: t else []) = path := by
    rcases hshape with rfl | ⟨r, rfl⟩
    · exact ⟨[], false, by simpa using cut_not_mem _ _ hslash, rfl⟩
    · exact ⟨r, true, cut_append_sep _ _ _ hslash, rfl⟩
  obtain ⟨t, f, hc, hp⟩ := hcut
  simp [afterScheme, hs, hc, hp, hpa, hun]

theorem cut_optPre (sep : UInt8) (b : Bytes) (q : Option Bytes) (h : sep ∉ b) :
    (cut sep (b ++ optPre sep q)).1 = b := by
  cases q with
  | none => simp [optPre, cut_not_mem _ _ h]
  | some q => simp [optPre, cut_append_sep _ _ _ h]

theorem parseHostField_scheme (scheme b : Bytes) (query : Option Bytes) (hv : ValidScheme scheme)
    (hctl : hasCTL (scheme ++ ch ':' :: (b ++ optPre (ch '?') query)) = false) (hq : ch '?' ∉ b) :
    parseHostField (scheme ++ ch ':' :: (b ++ optPre (ch '?') query)) = afterScheme scheme b := by
  rw [parseHostField_eq, hctl, getScheme_scheme _ _ hv]
  obtain ⟨⟨c, t, rfl, hc⟩, _⟩ := hv
  have hstar : ¬ (c :: t ++ ch ':' :: (b ++ optPre (ch '?') query) = [ch '*']) := by
    intro e
    simp at e
  simp only [Bool.false_eq_true, if_false, hstar, cut_optPre _ _ _ hq]

theorem hostOf_pre (pre h : Bytes) (frag : Option Bytes) (hh : ch '#' ∉ pre) (hp : parseHostField pre = some h)
    (hf : ∀ f, frag = some f → FragmentOK f) : hostOf (pre ++ optPre (ch '#') frag) = some (hostname h) := by
  rw [hostOf_eq]
  cases frag with
  | none => simp [optPre, cut_not_mem _ _ hh, hp]
  | some f =>
    have hpct : ch '%' ∉ f := not_mem_of_all fragOK_ne_pct (hf f rfl)
    simp only [optPre, cut_append_sep _ _ _ hh, hp]
    split
    · rfl
    · simp [unescape_id_other .fragment (by decide) (by decide) f hpct]

/-! ### the rendered URL, the bare host -/

theorem render_eq (p : Parts) : p.render =
    (p.scheme ++ ch ':' :: ((ch '/' :: ch '/' :: ((uiPre p.userinfo ++ hostPort p.host p.port) ++ p.path)) ++
      optPre (ch '?') p.query)) ++ optPre (ch '#') p.fragment := by
  cases hu : p.userinfo <;> simp [Parts.render, uiPre, hostPort, hu]

theorem hostOf_render_aux (p : Parts) (h : p.WF) : hostOf p.render = some p.host := by
  obtain ⟨hv, hui, hh, hport, hpath, hquery, hfrag⟩ := h
  have hA1 := uiPre_authChar p.userinfo hui
  have hA2 := hostPort_authChar p.host p.port hh hport
  have hA : (uiPre p.userinfo ++ hostPort p.host p.port).all authChar = true := by
    simp [List.all_append, hA1, hA2]
  obtain ⟨hP, _, _⟩ := pathOK_facts p.path hpath
  have hB : (ch '/' :: ch '/' :: ((uiPre p.userinfo ++ hostPort p.host p.port) ++ p.path)).all pathChar = true := by
    simp only [List.all_cons, List.all_append, sep_chars.2.1, all_mono authChar_pathChar hA, hP, Bool.and_self]
  have hQ : (optPre (ch '?') p.query).all preChar = true := by
    cases hq : p.query with
    | none => rfl
    | some q => simp only [optPre, List.all_cons, sep_chars.2.2, all_mono queryOK_preChar (hquery q hq), Bool.and_self]
  have hpre : (p.scheme ++ ch ':' :: ((ch '/' :: ch '/' :: ((uiPre p.userinfo ++ hostPort p.host p.port) ++ p.path)) ++
      optPre (ch '?') p.query)).all preChar = true := by
    simp only [List.all_cons, List.all_append, all_mono scheme_preChar hv.2, pathChar_preChar _ sep_chars.1,
      all_mono pathChar_preChar hB, hQ, Bool.and_self]
  have hsne : p.scheme ≠ [] := by
    obtain ⟨⟨c, t, e, _⟩, _⟩ := hv; simp [e]
  have hauth := parseAuthority_ui p.userinfo _ _ (hostPort_no_at p.host p.port hh hport) hui
    (parseHost_hostPort p.host p.port hh hport)
  have hafter := afterScheme_auth p.scheme _ p.path _ hsne (not_mem_of_all authChar_ne_slash hA) hpath hauth
  have hfield := parseHostField_scheme p.scheme _ p.query hv (hasCTL_false_of_all hpre)
    (not_mem_of_all pathChar_ne_quest hB)
  rw [render_eq, hostOf_pre _ _ _ (not_mem_of_all preChar_ne_hash hpre) (hfield.trans hafter) hfrag,
    hostname_hostPort p.host p.port hh hport]

theorem hostOf_bare_host_aux (h : Bytes) (hh : PlainHost h) : hostOf h = some [] := by
  obtain ⟨hne, hall⟩ := hh
  have hhash := not_mem_of_all plain_ne_hash hall
  have hquest := not_mem_of_all plain_ne_quest hall
  have hslash := not_mem_of_all plain_ne_slash hall
  have hcolon := not_mem_of_all plain_ne_colon hall
  have hpct := not_mem_of_all plain_ne_pct hall
  have hctl : hasCTL h = false := by
    unfold hasCTL; rw [List.any_eq_false]; intro x hx
    have := plain_not_ctl x (List.all_eq_true.mp hall x hx)
    simpa [isCTL] using this
  have hfield : parseHostField h = some [] := by
    rw [parseHostField_eq, hctl, getScheme_plain h hall]
    simp only [cut_not_mem _ _ hquest]
    cases h with
    | nil => exact absurd rfl hne
    | cons c t =>
      simp only [List.all_cons, Bool.and_eq_true] at hall
      have h1 : ¬ (c :: t = [ch '*']) := by
        intro e; simp at e; exact plain_ne_star c hall.1 e.1
      have h2 : c ≠ ch '/' := plain_ne_slash c hall.1
      have hun := unescape_id_other .path (by decide) (by decide) (c :: t) hpct
      have hc1 : ¬ ch ':' = c := fun e => hcolon (by simp [e])
      have hc2 : ch ':' ∉ t := fun e => hcolon (by simp [e])
      simp [h1, afterScheme, h2, Ne.symm h2, cut_not_mem _ _ hslash, hc1, hc2, hun]
  rw [hostOf_eq, cut_not_mem _ _ hhash]
  simp only [hfield, if_true]
  decide +kernel

/-! ### bytes of a reported host -/

theorem unescape_hostOut' (m : Mode) (hm : m = .host ∨ m = .zone) (s t : Bytes) (h : unescape m s = some t) :
    t.all hostOut = true := unescape_hostOut m hm s.length s t (Nat.le_refl _) h

theorem map_const_eq_some {α β : Type} {o : Option α} {b c : β} (h : o.map (fun _ => b) = some c) : c = b := by
  cases o <;> simp_all

theorem parseHost_hostOut (s h : Bytes) (hs : parseHost s = some h) : h.all hostOut = true := by
  unfold parseHost at hs
  repeat' split at hs
  all_goals first
    | contradiction
    | exact unescape_hostOut' .host (Or.inl rfl) _ _ hs
    | skip
  rename_i a b c ha hb hc
  simp only [Option.some.injEq] at hs
  subst hs
  simp only [List.all_append, unescape_hostOut' .host (Or.inl rfl) _ _ ha,
    unescape_hostOut' .zone (Or.inr rfl) _ _ hb, unescape_hostOut' .host (Or.inl rfl) _ _ hc, Bool.and_self]

theorem parseAuthority_hostOut (s h : Bytes) (hs : parseAuthority s = some h) : h.all hostOut = true := by
  unfold parseAuthority at hs
  split at hs
  · exact parseHost_hostOut _ _ hs
  · split at hs
    · contradiction
    · rename_i h' hph
      have hh' := parseHost_hostOut _ _ hph
      have : h = h' := by
        split at hs
        · contradiction
        · split at hs
          split at hs
          · exact map_const_eq_some hs
          · split at hs
            · simpa using hs.symm
            · contradiction
      rw [this]; exact hh'

theorem afterScheme_hostOut (sc r h : Bytes) (hs : afterScheme sc r = some h) : h.all hostOut = true := by
  unfold afterScheme at hs
  simp only at hs
  split at hs
  · simp only [Option.some.injEq] at hs; subst hs; rfl
  split at hs
  · contradiction
  split at hs
  · split at hs
    · contradiction
    · rename_i h' hpa
      have := parseAuthority_hostOut _ _ hpa
      rw [map_const_eq_some hs]; exact this
  · rw [map_const_eq_some hs]; rfl

theorem parseHostField_hostOut (u h : Bytes) (hs : parseHostField u = some h) : h.all hostOut = true := by
  rw [parseHostField_eq] at hs
  split at hs
  · contradiction
  split at hs
  · simp only [Option.some.injEq] at hs; subst hs; rfl
  split at hs
  · contradiction
  · exact afterScheme_hostOut _ _ _ hs

/-- `splitHostPort` -/
def hostSel (hp : Bytes) : Bytes :=
  match cutLast (ch ':') hp with
  | some (h, port) => if validOptionalPort (ch ':' :: port) then h else hp
  | none => hp

/-- the bracket strip -/
def stripBr (host : Bytes) : Bytes :=
  match host with
  | c :: rest =>
    if c = ch '[' ∧ rest.getLast? = some (ch ']') then rest.dropLast
    else if c = ch '[' ∧ rest = [] then host
    else host
  | [] => host

theorem hostname_eq (hp : Bytes) : hostname hp = stripBr (hostSel hp) := rfl

theorem hostSel_subset (hp : Bytes) : ∀ x ∈ hostSel hp, x ∈ hp := by
  intro x hx
  unfold hostSel at hx
  split at hx
  · rename_i h port hc
    split at hx
    · rw [(cutLast_spec _ _ _ _ hc).1]; simp [hx]
    · exact hx
  · exact hx

theorem stripBr_subset (host : Bytes) : ∀ x ∈ stripBr host, x ∈ host := by
  intro x hx
  unfold stripBr at hx
  split at hx
  · split at hx
    · exact List.mem_cons_of_mem _ ((List.dropLast_sublist _).subset hx)
    · split at hx <;> exact hx
  · exact hx

theorem hostname_subset (hp : Bytes) : ∀ x ∈ hostname hp, x ∈ hp := by
  intro x hx
  rw [hostname_eq] at hx
  exact hostSel_subset _ _ (stripBr_subset _ _ hx)

theorem hostOf_some (s h : Bytes) (hs : hostOf s = some h) :
    ∃ h0, parseHostField (cut (ch '#') s).1 = some h0 ∧ h = hostname h0 := by
  rw [hostOf_eq] at hs
  split at hs
  · contradiction
  · rename_i h0 hp
    refine ⟨h0, hp, ?_⟩
    split at hs
    · simpa using hs.symm
    · exact map_const_eq_some hs

theorem hostOf_hostOut (s h : Bytes) (hs : hostOf s = some h) : h.all hostOut = true := by
  obtain ⟨h0, hp, rfl⟩ := hostOf_some s h hs
  have := parseHostField_hostOut _ _ hp
  rw [List.all_eq_true] at *
  intro x hx
  exact this x (hostname_subset h0 x hx)

end WebAuthn.Url
