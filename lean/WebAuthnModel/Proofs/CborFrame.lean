import WebAuthnModel.Cbor.Value
/-
  Frame, fuel-monotonicity and fuel-sufficiency lemmas for the CBOR decoder of
  `WebAuthnModel.Cbor.Value`, and their consequences for `decode`.
-/
namespace WebAuthn.Cbor
open WebAuthn
set_option linter.unusedSimpArgs false
set_option linter.unusedVariables false

/-! ## `head` and `takeExact` -/

theorem head_frame (b : Bytes) (h : Head) (r : Bytes) (hh : head b = some (h, r)) :
    ∃ p : Bytes, p ≠ [] ∧ b = p ++ r ∧ ∀ s : Bytes, head (p ++ s) = some (h, s) := by
  cases b with
  | nil => simp [head] at hh
  | cons x rest =>
    unfold head at hh
    simp only at hh
    split at hh
    · rename_i h1
      simp only [Option.some.injEq, Prod.mk.injEq] at hh
      obtain ⟨rfl, rfl⟩ := hh
      exact ⟨[x], by simp, by simp, fun s => by simp [head, h1]⟩
    · rename_i h1
      split at hh
      · rename_i h2
        split at hh
        · split at hh
          · simp at hh
          · rename_i a r' h3
            simp only [Option.some.injEq, Prod.mk.injEq] at hh
            obtain ⟨rfl, rfl⟩ := hh
            exact ⟨[x, a], by simp, by simp, fun s => by simp [head, h1, h2, h3]⟩
        · simp at hh
      · rename_i h2
        split at hh
        · rename_i h3
          split at hh
          · rename_i a b r'
            simp only [Option.some.injEq, Prod.mk.injEq] at hh
            obtain ⟨rfl, rfl⟩ := hh
            exact ⟨[x, a, b], by simp, by simp, fun s => by simp [head, h1, h2, h3]⟩
          · simp at hh
        · rename_i h3
          split at hh
          · rename_i h4
            split at hh
            · rename_i a b c d r'
              simp only [Option.some.injEq, Prod.mk.injEq] at hh
              obtain ⟨rfl, rfl⟩ := hh
              exact ⟨[x, a, b, c, d], by simp, by simp, fun s => by simp [head, h1, h2, h3, h4]⟩
            · simp at hh
          · rename_i h4
            split at hh
            · rename_i h5
              split at hh
              · rename_i a b c d e f g i r'
                simp only [Option.some.injEq, Prod.mk.injEq] at hh
                obtain ⟨rfl, rfl⟩ := hh
                exact ⟨[x, a, b, c, d, e, f, g, i], by simp, by simp,
                  fun s => by simp [head, h1, h2, h3, h4, h5]⟩
              · simp at hh
            · rename_i h5
              split at hh
              · rename_i h6
                split at hh
                · simp at hh
                · rename_i h7
                  simp only [Option.some.injEq, Prod.mk.injEq] at hh
                  obtain ⟨rfl, rfl⟩ := hh
                  exact ⟨[x], by simp, by simp,
                    fun s => by simp [head, h1, h2, h3, h4, h5, h6]; omega⟩
              · simp at hh

theorem takeExact_frame (n : Nat) (b s r : Bytes) (h : takeExact n b = some (s, r)) :
    b = s ++ r ∧ s.length = n ∧ ∀ t : Bytes, takeExact n (s ++ t) = some (s, t) := by
  unfold takeExact at h
  split at h
  · rename_i hn
    simp only [Option.some.injEq, Prod.mk.injEq] at h
    obtain ⟨rfl, rfl⟩ := h
    refine ⟨by simp, by simp [List.length_take]; omega, fun t => ?_⟩
    have hl : (List.take n b).length = n := by simp [List.length_take]; omega
    unfold takeExact
    simp [hl, List.take_append_of_le_length, List.drop_append_of_le_length]
  · simp at h

/-! ## Case equations for `item (f+1)` -/

/-- `match o with | some (a, r) => some (g a, r) | none => none` -/
def wrap {α : Type} (g : α → Value) (o : Option (α × Bytes)) : Option (Value × Bytes) :=
  match o with
  | some (a, r) => some (g a, r)
  | none => none

theorem wrap_eq_some {α : Type} (g : α → Value) (o : Option (α × Bytes)) (v : Value) (r : Bytes) :
    wrap g o = some (v, r) ↔ ∃ a, o = some (a, r) ∧ v = g a := by
  unfold wrap
  split
  · rename_i a r'
    simp only [Option.some.injEq, Prod.mk.injEq]
    constructor
    · rintro ⟨rfl, rfl⟩; exact ⟨a, ⟨rfl, rfl⟩, rfl⟩
    · rintro ⟨a', ⟨rfl, rfl⟩, rfl⟩; exact ⟨rfl, rfl⟩
  · simp

theorem wrap_some {α : Type} (g : α → Value) (a : α) (r : Bytes) : wrap g (some (a, r)) = some (g a, r) := rfl

theorem item_head_none {f d : Nat} {b : Bytes} (hh : head b = none) : item (f + 1) d b = none := by
  rw [item, hh]

section
variable {f d : Nat} {b : Bytes} {h : Head} {rest : Bytes} (hh : head b = some (h, rest))
include hh

theorem item_uint (hm : h.major = 0) : item (f + 1) d b = some (.uint h.val, rest) := by
  rw [item, hh]; simp [hm]

theorem item_nint (hm : h.major = 1) : item (f + 1) d b = some (.nint h.val, rest) := by
  rw [item, hh]; simp [hm]

theorem item_bytes_indef (hm : h.major = 2) (hai : h.ai = 31) :
    item (f + 1) d b = wrap (fun cs => .bytes cs.flatten) (chunks f 2 rest) := by
  rw [item, hh]; simp [hm, hai, wrap]
  rcases chunks f 2 rest with _ | ⟨a, r⟩ <;> rfl

theorem item_bytes_def (hm : h.major = 2) (hai : h.ai ≠ 31) :
    item (f + 1) d b = wrap .bytes (takeExact h.val rest) := by
  rw [item, hh]; simp [hm, hai, wrap]
  rcases takeExact h.val rest with _ | ⟨a, r⟩ <;> rfl

theorem item_text_indef (hm : h.major = 3) (hai : h.ai = 31) :
    item (f + 1) d b = wrap .text (chunks f 3 rest) := by
  rw [item, hh]; simp [hm, hai, wrap]
  rcases chunks f 3 rest with _ | ⟨a, r⟩ <;> rfl

theorem item_text_def (hm : h.major = 3) (hai : h.ai ≠ 31) :
    item (f + 1) d b = wrap (fun s => .text [s]) (takeExact h.val rest) := by
  rw [item, hh]; simp [hm, hai, wrap]
  rcases takeExact h.val rest with _ | ⟨a, r⟩ <;> rfl

theorem item_array (hm : h.major = 4) :
    item (f + 1) d b =
      if d + 1 > maxNested then none
      else if h.ai = 31 then wrap .array (untilBreak f (d + 1) false 0 rest)
      else if h.val > maxElems then none
      else wrap .array (items f (d + 1) h.val rest) := by
  rw [item, hh]; simp [hm, wrap]
  rcases untilBreak f (d + 1) false 0 rest with _ | ⟨a, r⟩ <;>
    rcases items f (d + 1) h.val rest with _ | ⟨a', r'⟩ <;> rfl

theorem item_map (hm : h.major = 5) :
    item (f + 1) d b =
      if d + 1 > maxNested then none
      else if h.ai = 31 then wrap .map (untilBreak f (d + 1) true 0 rest)
      else if h.val > maxElems then none
      else wrap .map (items f (d + 1) (2 * h.val) rest) := by
  rw [item, hh]; simp [hm, wrap]
  rcases untilBreak f (d + 1) true 0 rest with _ | ⟨a, r⟩ <;>
    rcases items f (d + 1) (2 * h.val) rest with _ | ⟨a', r'⟩ <;> rfl

theorem item_tag_nil (hm : h.major = 6) (hr : rest = []) : item (f + 1) d b = none := by
  subst hr; rw [item, hh]; simp [hm]

theorem item_tag_cons (hm : h.major = 6) {x : UInt8} {t : Bytes} (hr : rest = x :: t) :
    item (f + 1) d b =
      if (if x.toNat / 32 = 6 then d + 1 else d) > maxNested then none
      else wrap (.tag h.val) (item f (if x.toNat / 32 = 6 then d + 1 else d) rest) := by
  subst hr; rw [item, hh]; simp [hm, wrap]
  rcases item f (if x.toNat / 32 = 6 then d + 1 else d) (x :: t) with _ | ⟨a, r⟩ <;> rfl

/-- the value produced for major type 7 -/
def simpleOf (h : Head) : Value :=
  if h.ai < 24 then .simple h.val
  else if h.ai = 24 then .simple h.val
  else if h.ai = 25 then .float 2 h.val
  else if h.ai = 26 then .float 4 h.val
  else .float 8 h.val

theorem item_simple (h0 : h.major ≠ 0) (h1 : h.major ≠ 1) (h2 : h.major ≠ 2) (h3 : h.major ≠ 3)
    (h4 : h.major ≠ 4) (h5 : h.major ≠ 5) (h6 : h.major ≠ 6) :
    item (f + 1) d b = some (simpleOf h, rest) := by
  rw [item, hh]; simp only [h0, h1, h2, h3, h4, h5, h6, if_false, simpleOf]
  split
  · rfl
  · split
    · rfl
    · split
      · rfl
      · split <;> rfl
end

/-! ## The master invariant

For a successful run with fuel `f` we exhibit the consumed prefix `p` and a fuel amount `k`
with `k ≤ f` (monotonicity) and `k ≤ 2 * p.length (+ 1)` (sufficiency) such that the same
result is obtained on `p ++ s` for every continuation `s` and every fuel `≥ k`. -/

def ItemOK (f : Nat) : Prop :=
  ∀ (d : Nat) (b : Bytes) (v : Value) (r : Bytes), item f d b = some (v, r) →
    ∃ (p : Bytes) (k : Nat), p ≠ [] ∧ b = p ++ r ∧ k ≤ f ∧ k ≤ 2 * p.length ∧
      ∀ (s : Bytes) (f' : Nat), k ≤ f' → item f' d (p ++ s) = some (v, s)

def ItemsOK (f : Nat) : Prop :=
  ∀ (d n : Nat) (b : Bytes) (vs : List Value) (r : Bytes), items f d n b = some (vs, r) →
    ∃ (p : Bytes) (k : Nat), b = p ++ r ∧ n ≤ p.length ∧ k ≤ f ∧ k ≤ 2 * p.length + 1 ∧
      ∀ (s : Bytes) (f' : Nat), k ≤ f' → items f' d n (p ++ s) = some (vs, s)

def UntilBreakOK (f : Nat) : Prop :=
  ∀ (d : Nat) (m : Bool) (i : Nat) (b : Bytes) (vs : List Value) (r : Bytes),
    untilBreak f d m i b = some (vs, r) →
    ∃ (p : Bytes) (k : Nat), p ≠ [] ∧ b = p ++ r ∧ k ≤ f ∧ k ≤ 2 * p.length ∧
      ∀ (s : Bytes) (f' : Nat), k ≤ f' → untilBreak f' d m i (p ++ s) = some (vs, s)

def ChunksOK (f : Nat) : Prop :=
  ∀ (mj : Nat) (b : Bytes) (cs : List Bytes) (r : Bytes), chunks f mj b = some (cs, r) →
    ∃ (p : Bytes) (k : Nat), p ≠ [] ∧ b = p ++ r ∧ k ≤ f ∧ k ≤ 2 * p.length ∧
      ∀ (s : Bytes) (f' : Nat), k ≤ f' → chunks f' mj (p ++ s) = some (cs, s)

theorem length_pos_of_ne_nil {p : Bytes} (hp : p ≠ []) : 1 ≤ p.length := by
  cases p with
  | nil => exact absurd rfl hp
  | cons _ _ => simp

theorem exists_succ_of_le {k f' : Nat} (h : k + 1 ≤ f') : ∃ f'', f' = f'' + 1 ∧ k ≤ f'' :=
  ⟨f' - 1, by omega, by omega⟩

/-- generic step for the cases `item (f+1) d (p0 ++ x) = wrap g (sub f x)` -/
theorem wrap_step {α : Type} (sub : Nat → Bytes → Option (α × Bytes)) (g : α → Value) (d : Nat)
    (p0 : Bytes) (hp0 : p0 ≠ [])
    (heq : ∀ (f : Nat) (x : Bytes), item (f + 1) d (p0 ++ x) = wrap g (sub f x))
    (f : Nat) (rest : Bytes) (v : Value) (r : Bytes) (h : item (f + 1) d (p0 ++ rest) = some (v, r))
    (ih : ∀ (a : α) (r : Bytes), sub f rest = some (a, r) →
      ∃ (p : Bytes) (k : Nat), rest = p ++ r ∧ k ≤ f ∧ k ≤ 2 * p.length + 1 ∧
        ∀ (s : Bytes) (f' : Nat), k ≤ f' → sub f' (p ++ s) = some (a, s)) :
    ∃ (p : Bytes) (k : Nat), p ≠ [] ∧ p0 ++ rest = p ++ r ∧ k ≤ f + 1 ∧ k ≤ 2 * p.length ∧
      ∀ (s : Bytes) (f' : Nat), k ≤ f' → item f' d (p ++ s) = some (v, s) := by
  rw [heq] at h
  obtain ⟨a, hs, rfl⟩ := (wrap_eq_some _ _ _ _).1 h
  obtain ⟨p, k, rfl, hk1, hk2, hfr⟩ := ih a r hs
  have hl := length_pos_of_ne_nil hp0
  refine ⟨p0 ++ p, k + 1, by simp [hp0], by simp, by omega, by simp; omega, fun s f' hf' => ?_⟩
  obtain ⟨f'', rfl, hf''⟩ := exists_succ_of_le hf'
  rw [List.append_assoc, heq, hfr s f'' hf'']
  rfl

theorem item_zero (d : Nat) (b : Bytes) : item 0 d b = none := by rw [item]
theorem items_zero (d n : Nat) (b : Bytes) : items 0 d n b = none := by rw [items]
theorem untilBreak_zero (d : Nat) (m : Bool) (i : Nat) (b : Bytes) : untilBreak 0 d m i b = none := by
  rw [untilBreak]
theorem chunks_zero (mj : Nat) (b : Bytes) : chunks 0 mj b = none := by rw [chunks]

/-- weaken an `ItemsOK`-shaped or `ChunksOK`-shaped conclusion to the shape `wrap_step` wants -/
theorem weaken_ne {α : Type} {sub : Nat → Bytes → Option (α × Bytes)} {f : Nat} {rest r : Bytes} {a : α}
    (h : ∃ (p : Bytes) (k : Nat), p ≠ [] ∧ rest = p ++ r ∧ k ≤ f ∧ k ≤ 2 * p.length ∧
      ∀ (s : Bytes) (f' : Nat), k ≤ f' → sub f' (p ++ s) = some (a, s)) :
    ∃ (p : Bytes) (k : Nat), rest = p ++ r ∧ k ≤ f ∧ k ≤ 2 * p.length + 1 ∧
      ∀ (s : Bytes) (f' : Nat), k ≤ f' → sub f' (p ++ s) = some (a, s) := by
  obtain ⟨p, k, _, h1, h2, h3, h4⟩ := h
  exact ⟨p, k, h1, h2, by omega, h4⟩

theorem takeExact_ih (n f : Nat) (rest : Bytes) (a r : Bytes) (h : takeExact n rest = some (a, r)) :
    ∃ (p : Bytes) (k : Nat), rest = p ++ r ∧ k ≤ f ∧ k ≤ 2 * p.length + 1 ∧
      ∀ (s : Bytes) (f' : Nat), k ≤ f' → (fun (_ : Nat) x => takeExact n x) f' (p ++ s) = some (a, s) := by
  obtain ⟨h1, _, h3⟩ := takeExact_frame n rest a r h
  exact ⟨a, 0, h1, by omega, by omega, fun s _ _ => h3 s⟩

theorem item_step (f : Nat) (hI : ItemOK f) (hIs : ItemsOK f) (hU : UntilBreakOK f) (hC : ChunksOK f) :
    ItemOK (f + 1) := by
  intro d b v r h
  cases hh : head b with
  | none => rw [item_head_none hh] at h; cases h
  | some hr =>
    obtain ⟨hd, rest⟩ := hr
    obtain ⟨p0, hp0, rfl, hfr⟩ := head_frame _ _ _ hh
    have hl := length_pos_of_ne_nil hp0
    by_cases hm0 : hd.major = 0
    · rw [item_uint hh hm0] at h
      simp only [Option.some.injEq, Prod.mk.injEq] at h
      obtain ⟨rfl, rfl⟩ := h
      refine ⟨p0, 1, hp0, rfl, by omega, by omega, fun s f' hf' => ?_⟩
      obtain ⟨f'', rfl, _⟩ := exists_succ_of_le hf'
      exact item_uint (hfr s) hm0
    by_cases hm1 : hd.major = 1
    · rw [item_nint hh hm1] at h
      simp only [Option.some.injEq, Prod.mk.injEq] at h
      obtain ⟨rfl, rfl⟩ := h
      refine ⟨p0, 1, hp0, rfl, by omega, by omega, fun s f' hf' => ?_⟩
      obtain ⟨f'', rfl, _⟩ := exists_succ_of_le hf'
      exact item_nint (hfr s) hm1
    by_cases hm2 : hd.major = 2
    · by_cases hai : hd.ai = 31
      · exact wrap_step (fun f x => chunks f 2 x) _ d p0 hp0
          (fun f x => item_bytes_indef (hfr x) hm2 hai) f rest v r h
          (fun a r' ha => weaken_ne (hC 2 rest a r' ha))
      · exact wrap_step (fun _ x => takeExact hd.val x) _ d p0 hp0
          (fun f x => item_bytes_def (hfr x) hm2 hai) f rest v r h
          (fun a r' ha => takeExact_ih _ _ _ _ _ ha)
    by_cases hm3 : hd.major = 3
    · by_cases hai : hd.ai = 31
      · exact wrap_step (fun f x => chunks f 3 x) _ d p0 hp0
          (fun f x => item_text_indef (hfr x) hm3 hai) f rest v r h
          (fun a r' ha => weaken_ne (hC 3 rest a r' ha))
      · exact wrap_step (fun _ x => takeExact hd.val x) _ d p0 hp0
          (fun f x => item_text_def (hfr x) hm3 hai) f rest v r h
          (fun a r' ha => takeExact_ih _ _ _ _ _ ha)
    by_cases hm4 : hd.major = 4
    · by_cases hd1 : d + 1 > maxNested
      · rw [item_array hh hm4, if_pos hd1] at h; cases h
      by_cases hai : hd.ai = 31
      · exact wrap_step (fun f x => untilBreak f (d + 1) false 0 x) _ d p0 hp0
          (fun f x => by rw [item_array (hfr x) hm4, if_neg hd1, if_pos hai]) f rest v r h
          (fun a r' ha => weaken_ne (hU _ _ _ rest a r' ha))
      by_cases hv : hd.val > maxElems
      · rw [item_array hh hm4, if_neg hd1, if_neg hai, if_pos hv] at h; cases h
      · exact wrap_step (fun f x => items f (d + 1) hd.val x) _ d p0 hp0
          (fun f x => by rw [item_array (hfr x) hm4, if_neg hd1, if_neg hai, if_neg hv]) f rest v r h
          (fun a r' ha => by
            obtain ⟨p, k, h1, _, h2, h3, h4⟩ := hIs _ _ rest a r' ha
            exact ⟨p, k, h1, h2, h3, h4⟩)
    by_cases hm5 : hd.major = 5
    · by_cases hd1 : d + 1 > maxNested
      · rw [item_map hh hm5, if_pos hd1] at h; cases h
      by_cases hai : hd.ai = 31
      · exact wrap_step (fun f x => untilBreak f (d + 1) true 0 x) _ d p0 hp0
          (fun f x => by rw [item_map (hfr x) hm5, if_neg hd1, if_pos hai]) f rest v r h
          (fun a r' ha => weaken_ne (hU _ _ _ rest a r' ha))
      by_cases hv : hd.val > maxElems
      · rw [item_map hh hm5, if_neg hd1, if_neg hai, if_pos hv] at h; cases h
      · exact wrap_step (fun f x => items f (d + 1) (2 * hd.val) x) _ d p0 hp0
          (fun f x => by rw [item_map (hfr x) hm5, if_neg hd1, if_neg hai, if_neg hv]) f rest v r h
          (fun a r' ha => by
            obtain ⟨p, k, h1, _, h2, h3, h4⟩ := hIs _ _ rest a r' ha
            exact ⟨p, k, h1, h2, h3, h4⟩)
    by_cases hm6 : hd.major = 6
    · cases hrest : rest with
      | nil => rw [item_tag_nil hh hm6 hrest] at h; cases h
      | cons x t =>
        rw [item_tag_cons hh hm6 hrest] at h
        by_cases hdep : (if x.toNat / 32 = 6 then d + 1 else d) > maxNested
        · rw [if_pos hdep] at h; cases h
        rw [if_neg hdep] at h
        obtain ⟨a, hs, rfl⟩ := (wrap_eq_some _ _ _ _).1 h
        obtain ⟨p, k, hp, hpr, hk1, hk2, hfr'⟩ := hI _ _ _ _ hs
        -- `p` starts with `x`
        obtain ⟨y, p', rfl⟩ : ∃ y p', p = y :: p' := by
          cases p with
          | nil => exact absurd rfl hp
          | cons y p' => exact ⟨y, p', rfl⟩
        have hxy : x = y := by
          rw [hrest] at hpr
          simp only [List.cons_append, List.cons.injEq] at hpr
          exact hpr.1
        subst hxy
        refine ⟨p0 ++ x :: p', k + 1, by simp [hp0], by rw [← hrest, hpr]; simp, by omega,
          by simp at hk2 ⊢; omega, fun s f' hf' => ?_⟩
        obtain ⟨f'', rfl, hf''⟩ := exists_succ_of_le hf'
        rw [List.append_assoc, item_tag_cons (hfr _) hm6 (List.cons_append ..), if_neg hdep,
          hfr' s f'' hf'']
        rfl
    · rw [item_simple hh hm0 hm1 hm2 hm3 hm4 hm5 hm6] at h
      simp only [Option.some.injEq, Prod.mk.injEq] at h
      obtain ⟨rfl, rfl⟩ := h
      refine ⟨p0, 1, hp0, rfl, by omega, by omega, fun s f' hf' => ?_⟩
      obtain ⟨f'', rfl, _⟩ := exists_succ_of_le hf'
      exact item_simple (hfr s) hm0 hm1 hm2 hm3 hm4 hm5 hm6

theorem items_step (f : Nat) (hI : ItemOK f) (hIs : ItemsOK f) : ItemsOK (f + 1) := by
  intro d n b vs r h
  cases n with
  | zero =>
    rw [items] at h
    simp only [Option.some.injEq, Prod.mk.injEq] at h
    obtain ⟨rfl, rfl⟩ := h
    refine ⟨[], 1, rfl, by simp, by omega, by omega, fun s f' hf' => ?_⟩
    obtain ⟨f'', rfl, _⟩ := exists_succ_of_le hf'
    rw [items]; rfl
  | succ n =>
    rw [items] at h
    cases h1 : item f d b with
    | none => rw [h1] at h; cases h
    | some vr =>
      obtain ⟨v, r1⟩ := vr
      rw [h1] at h
      simp only at h
      cases h2 : items f d n r1 with
      | none => rw [h2] at h; cases h
      | some vsr =>
        obtain ⟨vs', r2⟩ := vsr
        rw [h2] at h
        simp only [Option.some.injEq, Prod.mk.injEq] at h
        obtain ⟨rfl, rfl⟩ := h
        obtain ⟨p1, k1, hp1, rfl, hk1, hk1', hfr1⟩ := hI _ _ _ _ h1
        obtain ⟨p2, k2, rfl, hn, hk2, hk2', hfr2⟩ := hIs _ _ _ _ _ h2
        have hl := length_pos_of_ne_nil hp1
        refine ⟨p1 ++ p2, max k1 k2 + 1, by simp, by simp; omega, by omega, by simp; omega,
          fun s f' hf' => ?_⟩
        obtain ⟨f'', rfl, hf''⟩ := exists_succ_of_le hf'
        rw [items, List.append_assoc, hfr1 _ f'' (by omega)]
        simp only
        rw [hfr2 _ f'' (by omega)]

theorem untilBreak_step (f : Nat) (hI : ItemOK f) (hU : UntilBreakOK f) : UntilBreakOK (f + 1) := by
  intro d m i b vs r h
  cases b with
  | nil => rw [untilBreak] at h; cases h
  | cons x rest =>
    rw [untilBreak] at h
    by_cases hb : isBreak x = true
    · rw [if_pos hb] at h
      by_cases hodd : m = true ∧ i % 2 = 1
      · rw [if_pos hodd] at h; cases h
      rw [if_neg hodd] at h
      simp only [Option.some.injEq, Prod.mk.injEq] at h
      obtain ⟨rfl, rfl⟩ := h
      refine ⟨[x], 1, by simp, by simp, by omega, by simp, fun s f' hf' => ?_⟩
      obtain ⟨f'', rfl, _⟩ := exists_succ_of_le hf'
      rw [List.singleton_append, untilBreak, if_pos hb, if_neg hodd]
    · rw [if_neg hb] at h
      cases h1 : item f d (x :: rest) with
      | none => rw [h1] at h; cases h
      | some vr =>
        obtain ⟨v, r1⟩ := vr
        rw [h1] at h
        simp only at h
        by_cases hlim : (!m) = true ∧ i + 1 > maxElems ∨ m = true ∧ (i + 1) % 2 = 0 ∧ (i + 1) / 2 > maxElems
        · rw [if_pos hlim] at h; cases h
        rw [if_neg hlim] at h
        cases h2 : untilBreak f d m (i + 1) r1 with
        | none => rw [h2] at h; cases h
        | some vsr =>
          obtain ⟨vs', r2⟩ := vsr
          rw [h2] at h
          simp only [Option.some.injEq, Prod.mk.injEq] at h
          obtain ⟨rfl, rfl⟩ := h
          obtain ⟨p1, k1, hp1, hb1, hk1, hk1', hfr1⟩ := hI _ _ _ _ h1
          obtain ⟨p2, k2, hp2, rfl, hk2, hk2', hfr2⟩ := hU _ _ _ _ _ _ h2
          have hl1 := length_pos_of_ne_nil hp1
          have hl2 := length_pos_of_ne_nil hp2
          obtain ⟨y, p1', rfl⟩ : ∃ y p', p1 = y :: p' := by
            cases p1 with
            | nil => exact absurd rfl hp1
            | cons y p' => exact ⟨y, p', rfl⟩
          have hxy : x = y := by
            simp only [List.cons_append, List.cons.injEq] at hb1
            exact hb1.1
          subst hxy
          refine ⟨(x :: p1') ++ p2, max k1 k2 + 1, by simp, by rw [hb1]; simp, by omega,
            by simp at hk1' ⊢; omega, fun s f' hf' => ?_⟩
          obtain ⟨f'', rfl, hf''⟩ := exists_succ_of_le hf'
          have e : (x :: p1') ++ p2 ++ s = x :: (p1' ++ (p2 ++ s)) := by simp
          rw [e, untilBreak, if_neg hb, ← List.cons_append, hfr1 _ f'' (by omega)]
          simp only
          rw [if_neg hlim, hfr2 _ f'' (by omega)]

theorem chunks_step (f : Nat) (hC : ChunksOK f) : ChunksOK (f + 1) := by
  intro mj b cs r h
  cases b with
  | nil => rw [chunks] at h; cases h
  | cons x rest =>
    rw [chunks] at h
    by_cases hb : isBreak x = true
    · rw [if_pos hb] at h
      simp only [Option.some.injEq, Prod.mk.injEq] at h
      obtain ⟨rfl, rfl⟩ := h
      refine ⟨[x], 1, by simp, by simp, by omega, by simp, fun s f' hf' => ?_⟩
      obtain ⟨f'', rfl, _⟩ := exists_succ_of_le hf'
      rw [List.singleton_append, chunks, if_pos hb]
    · rw [if_neg hb] at h
      by_cases hmj : x.toNat / 32 ≠ mj
      · rw [if_pos hmj] at h; cases h
      rw [if_neg hmj] at h
      by_cases h31 : x.toNat % 32 = 31
      · rw [if_pos h31] at h; cases h
      rw [if_neg h31] at h
      cases hh : head (x :: rest) with
      | none => rw [hh] at h; cases h
      | some hr =>
        obtain ⟨hd, r0⟩ := hr
        rw [hh] at h
        simp only at h
        cases ht : takeExact hd.val r0 with
        | none => rw [ht] at h; cases h
        | some sr =>
          obtain ⟨c, r1⟩ := sr
          rw [ht] at h
          simp only at h
          cases h2 : chunks f mj r1 with
          | none => rw [h2] at h; cases h
          | some csr =>
            obtain ⟨cs', r2⟩ := csr
            rw [h2] at h
            simp only [Option.some.injEq, Prod.mk.injEq] at h
            obtain ⟨rfl, rfl⟩ := h
            obtain ⟨p0, hp0, hb0, hfr0⟩ := head_frame _ _ _ hh
            obtain ⟨rfl, _, hfrt⟩ := takeExact_frame _ _ _ _ ht
            obtain ⟨p2, k2, hp2, rfl, hk2, hk2', hfr2⟩ := hC _ _ _ _ h2
            have hl2 := length_pos_of_ne_nil hp2
            obtain ⟨y, p0', rfl⟩ : ∃ y p', p0 = y :: p' := by
              cases p0 with
              | nil => exact absurd rfl hp0
              | cons y p' => exact ⟨y, p', rfl⟩
            have hxy : x = y := by
              simp only [List.cons_append, List.cons.injEq] at hb0
              exact hb0.1
            subst hxy
            refine ⟨(x :: p0') ++ c ++ p2, k2 + 1, by simp, by rw [hb0]; simp, by omega,
              by simp; omega, fun s f' hf' => ?_⟩
            obtain ⟨f'', rfl, hf''⟩ := exists_succ_of_le hf'
            have e : (x :: p0') ++ c ++ p2 ++ s = x :: (p0' ++ (c ++ (p2 ++ s))) := by simp
            rw [e, chunks, if_neg hb, if_neg hmj, if_neg h31, ← List.cons_append, hfr0]
            simp only
            rw [hfrt]
            simp only
            rw [hfr2 _ f'' hf'']

theorem all_ok (f : Nat) : ItemOK f ∧ ItemsOK f ∧ UntilBreakOK f ∧ ChunksOK f := by
  induction f with
  | zero =>
    refine ⟨?_, ?_, ?_, ?_⟩
    · intro d b v r h; rw [item_zero] at h; cases h
    · intro d n b vs r h; rw [items_zero] at h; cases h
    · intro d m i b vs r h; rw [untilBreak_zero] at h; cases h
    · intro mj b cs r h; rw [chunks_zero] at h; cases h
  | succ f ih =>
    obtain ⟨hI, hIs, hU, hC⟩ := ih
    exact ⟨item_step f hI hIs hU hC, items_step f hI hIs, untilBreak_step f hI hU, chunks_step f hC⟩

/-! ## Frame + fuel monotonicity -/

theorem item_frame (f d : Nat) (b : Bytes) (v : Value) (r : Bytes) (h : item f d b = some (v, r)) :
    ∃ p : Bytes, p ≠ [] ∧ b = p ++ r ∧
      ∀ (s : Bytes) (f' : Nat), f ≤ f' → item f' d (p ++ s) = some (v, s) := by
  obtain ⟨p, k, hp, hb, hk, _, hfr⟩ := (all_ok f).1 d b v r h
  exact ⟨p, hp, hb, fun s f' hf' => hfr s f' (by omega)⟩

theorem items_frame (f d n : Nat) (b : Bytes) (vs : List Value) (r : Bytes)
    (h : items f d n b = some (vs, r)) :
    ∃ p : Bytes, b = p ++ r ∧ n ≤ p.length ∧
      ∀ (s : Bytes) (f' : Nat), f ≤ f' → items f' d n (p ++ s) = some (vs, s) := by
  obtain ⟨p, k, hb, hn, hk, _, hfr⟩ := (all_ok f).2.1 d n b vs r h
  exact ⟨p, hb, hn, fun s f' hf' => hfr s f' (by omega)⟩

theorem untilBreak_frame (f d : Nat) (m : Bool) (i : Nat) (b : Bytes) (vs : List Value) (r : Bytes)
    (h : untilBreak f d m i b = some (vs, r)) :
    ∃ p : Bytes, p ≠ [] ∧ b = p ++ r ∧
      ∀ (s : Bytes) (f' : Nat), f ≤ f' → untilBreak f' d m i (p ++ s) = some (vs, s) := by
  obtain ⟨p, k, hp, hb, hk, _, hfr⟩ := (all_ok f).2.2.1 d m i b vs r h
  exact ⟨p, hp, hb, fun s f' hf' => hfr s f' (by omega)⟩

theorem chunks_frame (f mj : Nat) (b : Bytes) (cs : List Bytes) (r : Bytes)
    (h : chunks f mj b = some (cs, r)) :
    ∃ p : Bytes, p ≠ [] ∧ b = p ++ r ∧
      ∀ (s : Bytes) (f' : Nat), f ≤ f' → chunks f' mj (p ++ s) = some (cs, s) := by
  obtain ⟨p, k, hp, hb, hk, _, hfr⟩ := (all_ok f).2.2.2 mj b cs r h
  exact ⟨p, hp, hb, fun s f' hf' => hfr s f' (by omega)⟩

/-- more fuel never changes a successful result -/
theorem item_fuel_mono (f f' d : Nat) (b : Bytes) (v : Value) (r : Bytes) (hf : f ≤ f')
    (h : item f d b = some (v, r)) : item f' d b = some (v, r) := by
  obtain ⟨p, _, rfl, hfr⟩ := item_frame f d b v r h
  exact hfr r f' hf

/-! ## Consequences for `decode` -/

theorem decode_consumes (b : Bytes) (v : Value) (r : Bytes) (h : decode b = some (v, r)) :
    ∃ p : Bytes, p ≠ [] ∧ b = p ++ r := by
  obtain ⟨p, hp, hb, _⟩ := item_frame _ _ _ _ _ h
  exact ⟨p, hp, hb⟩

/-- appending bytes after the input does not change what is decoded -/
theorem decode_append (b : Bytes) (v : Value) (r s : Bytes) (h : decode b = some (v, r)) :
    decode (b ++ s) = some (v, r ++ s) := by
  obtain ⟨p, _, rfl, hfr⟩ := item_frame _ _ _ _ _ h
  unfold decode
  rw [List.append_assoc]
  apply hfr
  simp only [fuelFor, List.length_append]
  omega

/-- prefix-freeness: no proper prefix of the consumed part is itself decodable
(every truncation is rejected) -/
theorem decode_truncation (b : Bytes) (v : Value) (r : Bytes) (h : decode b = some (v, r)) (m : Nat)
    (hm : m < b.length - r.length) : decode (b.take m) = none := by
  cases hd : decode (b.take m) with
  | none => rfl
  | some vr =>
    exfalso
    obtain ⟨v', r'⟩ := vr
    have h2 := decode_append _ _ _ (b.drop m) hd
    rw [List.take_append_drop, h] at h2
    simp only [Option.some.injEq, Prod.mk.injEq] at h2
    obtain ⟨_, rfl⟩ := h2
    simp only [List.length_append, List.length_drop] at hm
    omega

/-! ## Fuel sufficiency -/

/-- a successful run needs at most twice the number of consumed bytes as fuel -/
theorem item_small_fuel (f d : Nat) (b : Bytes) (v : Value) (r : Bytes) (h : item f d b = some (v, r)) :
    ∀ f', 2 * (b.length - r.length) ≤ f' → item f' d b = some (v, r) := by
  obtain ⟨p, k, _, rfl, _, hk, hfr⟩ := (all_ok f).1 d b v r h
  intro f' hf'
  apply hfr
  simp only [List.length_append] at hf'
  omega

theorem item_fuel_sufficient (f d : Nat) (b : Bytes) (hf : fuelFor b ≤ f) :
    item f d b = item (fuelFor b) d b := by
  cases h : item f d b with
  | some vr =>
    obtain ⟨v, r⟩ := vr
    symm
    apply item_small_fuel f d b v r h
    simp only [fuelFor]
    omega
  | none =>
    cases h' : item (fuelFor b) d b with
    | none => rfl
    | some vr =>
      obtain ⟨v, r⟩ := vr
      rw [item_fuel_mono _ f d b v r hf h'] at h
      cases h

/-- `decode` is `item` with any sufficiently large fuel -/
theorem decode_eq_item (f : Nat) (b : Bytes) (hf : fuelFor b ≤ f) : decode b = item f 0 b :=
  (item_fuel_sufficient f 0 b hf).symm

end WebAuthn.Cbor
