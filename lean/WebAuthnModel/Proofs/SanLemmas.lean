import WebAuthnModel.Model.San
import WebAuthnModel.Proofs.Asn1Lemmas
/-
  Helper lemmas for Theorems/C17San.lean: the SAN / RDNSequence walk of Model/San.lean on DER written by `encTL`.
  Core Lean only.
-/
namespace WebAuthn.Proofs.SanLemmas
open WebAuthn WebAuthn.Asn1 WebAuthn.San WebAuthn.Proofs.Asn1Lemmas

/-- tag, length, contents (the same term as `Theorems.C17San.tlv`) -/
def tlv (cls : Nat) (compound : Bool) (tag : Nat) (c : Bytes) : Bytes := encTL cls compound tag c.length ++ c

theorem tlv_length (cls tag : Nat) (cp : Bool) (c : Bytes) (ht : tag < 2 ^ 31) (hl : c.length < 2 ^ 31) :
    c.length + 2 ≤ (tlv cls cp tag c).length ∧ (tlv cls cp tag c).length ≤ c.length + 11 := by
  have := encTL_length cls tag c.length cp ht hl
  simp only [tlv, List.length_append]; omega

theorem tlv_ne_nil (cls tag : Nat) (cp : Bool) (c : Bytes) : tlv cls cp tag c ≠ [] := by
  intro h
  have := encTL_ne_nil cls tag c.length cp
  simp [tlv] at h
  exact this h.1

theorem tlv_cons (cls tag : Nat) (cp : Bool) (c rest : Bytes) : ∃ x xs, tlv cls cp tag c ++ rest = x :: xs := by
  have h := tlv_ne_nil cls tag cp c
  cases hh : tlv cls cp tag c with
  | nil => exact absurd hh h
  | cons x xs => exact ⟨x, xs ++ rest, rfl⟩

theorem parseTL_tlv (cls tag : Nat) (cp : Bool) (c rest : Bytes) (hc : cls < 4) (ht : tag < 2 ^ 31)
    (hl : c.length < 2 ^ 31) :
    parseTL (tlv cls cp tag c ++ rest) = some (⟨cls, cp, tag, c.length⟩, c ++ rest) := by
  rw [tlv, List.append_assoc]
  exact parseTL_encTL' cls tag c.length cp (c ++ rest) hc ht hl

/-! ### `elems` -/

theorem elems_nil (e : Option (Nat × Bool)) (n : Nat) : elems e n [] = some [] := by
  cases n <;> simp [elems]

/-- the tag test of `elems` -/
def okTag (e : Option (Nat × Bool)) (t : TL) : Bool :=
  match e with
  | none => true
  | some (tag, compound) => t.cls = 0 && t.compound == compound && foldTag t.tag = tag

theorem elems_tlv (e : Option (Nat × Bool)) (n cls tag : Nat) (cp : Bool) (c rest : Bytes) (hc : cls < 4)
    (ht : tag < 2 ^ 31) (hl : c.length < 2 ^ 31) (hok : okTag e ⟨cls, cp, tag, c.length⟩ = true) :
    elems e (n + 1) (tlv cls cp tag c ++ rest) =
      (elems e n rest).map (fun es => (⟨cls, cp, tag, c.length⟩, c) :: es) := by
  have h1 := parseTL_tlv cls tag cp c rest hc ht hl
  obtain ⟨x, xs, hx⟩ := tlv_cons cls tag cp c rest
  rw [hx] at h1 ⊢
  simp only [elems, h1]
  rcases e with _ | ⟨tg, cm⟩
  · simp; omega
  · simp only [okTag] at hok
    simp [hok]; omega

/-- with fuel left, one more element -/
theorem elems_tlv' (e : Option (Nat × Bool)) (n cls tag : Nat) (cp : Bool) (c rest : Bytes) (hn : 0 < n) (hc : cls < 4)
    (ht : tag < 2 ^ 31) (hl : c.length < 2 ^ 31) (hok : okTag e ⟨cls, cp, tag, c.length⟩ = true) :
    elems e n (tlv cls cp tag c ++ rest) =
      (elems e (n - 1) rest).map (fun es => (⟨cls, cp, tag, c.length⟩, c) :: es) := by
  obtain ⟨k, rfl⟩ : ∃ k, n = k + 1 := ⟨n - 1, by omega⟩
  exact elems_tlv e k cls tag cp c rest hc ht hl hok

theorem elems_three (e : Option (Nat × Bool)) (n c1 c2 c3 t1 t2 t3 : Nat) (p1 p2 p3 : Bool) (b1 b2 b3 : Bytes)
    (hn : 3 ≤ n) (hc1 : c1 < 4) (hc2 : c2 < 4) (hc3 : c3 < 4) (ht1 : t1 < 2 ^ 31) (ht2 : t2 < 2 ^ 31) (ht3 : t3 < 2 ^ 31)
    (hl1 : b1.length < 2 ^ 31) (hl2 : b2.length < 2 ^ 31) (hl3 : b3.length < 2 ^ 31)
    (hok1 : okTag e ⟨c1, p1, t1, b1.length⟩ = true) (hok2 : okTag e ⟨c2, p2, t2, b2.length⟩ = true)
    (hok3 : okTag e ⟨c3, p3, t3, b3.length⟩ = true) :
    elems e n (tlv c1 p1 t1 b1 ++ tlv c2 p2 t2 b2 ++ tlv c3 p3 t3 b3) =
      some [(⟨c1, p1, t1, b1.length⟩, b1), (⟨c2, p2, t2, b2.length⟩, b2), (⟨c3, p3, t3, b3.length⟩, b3)] := by
  rw [List.append_assoc, elems_tlv' e n c1 t1 p1 b1 _ (by omega) hc1 ht1 hl1 hok1,
    elems_tlv' e (n - 1) c2 t2 p2 b2 _ (by omega) hc2 ht2 hl2 hok2]
  have h3 := elems_tlv' e (n - 1 - 1) c3 t3 p3 b3 [] (by omega) hc3 ht3 hl3 hok3
  rw [List.append_nil, elems_nil] at h3
  rw [h3]; rfl

theorem elems_one (e : Option (Nat × Bool)) (n c1 t1 : Nat) (p1 : Bool) (b1 : Bytes)
    (hn : 1 ≤ n) (hc1 : c1 < 4) (ht1 : t1 < 2 ^ 31) (hl1 : b1.length < 2 ^ 31)
    (hok1 : okTag e ⟨c1, p1, t1, b1.length⟩ = true) :
    elems e n (tlv c1 p1 t1 b1) = some [(⟨c1, p1, t1, b1.length⟩, b1)] := by
  have h3 := elems_tlv' e n c1 t1 p1 b1 [] (by omega) hc1 ht1 hl1 hok1
  rw [List.append_nil, elems_nil] at h3
  rw [h3]; rfl

/-! ### one AttributeTypeAndValue whose value is a primitive universal string type -/

theorem parseAttr_str (oid val s : Bytes) (vt : Nat) (arcs : List Nat) (ho : parseOID oid = some arcs)
    (hv : anyValue ⟨0, false, vt, val.length⟩ val = .str s) (hvt : vt < 2 ^ 31)
    (hol : oid.length < 2 ^ 31) (hvl : val.length < 2 ^ 31) :
    parseAttr (tlv 0 false 6 oid ++ tlv 0 false vt val) = some (some ⟨arcs, true, s⟩) := by
  have h1 := parseTL_tlv 0 6 false oid (tlv 0 false vt val) (by omega) (by omega) hol
  have h2 := parseTL_tlv 0 vt false val [] (by omega) hvt hvl
  simp only [List.append_nil] at h2
  obtain ⟨x, xs, hx⟩ := tlv_cons 0 6 false oid (tlv 0 false vt val)
  obtain ⟨y, ys, hy⟩ := tlv_cons 0 vt false val []
  simp only [List.append_nil] at hy
  rw [hx] at h1 ⊢
  simp only [parseAttr, h1]
  simp only [List.take_left', List.drop_left', ho]
  rw [if_neg (by simp), if_neg (by simp)]
  rw [hy] at h2 ⊢
  simp only [h2]
  simp [hv]

theorem anyValue_utf8 (v : Bytes) (hv : utf8Valid v = true) : anyValue ⟨0, false, 12, v.length⟩ v = .str v := by
  simp [anyValue, hv]

/-- SEQUENCE { OBJECT IDENTIFIER oid, [UNIVERSAL vt] val } -/
def attrG (oid : Bytes) (vt : Nat) (val : Bytes) : Bytes := tlv 0 true 16 (tlv 0 false 6 oid ++ tlv 0 false vt val)

theorem attrG_length (oid val : Bytes) (vt : Nat) (hvt : vt < 2 ^ 31) (hb : oid.length + val.length + 22 < 2 ^ 31) :
    2 ≤ (attrG oid vt val).length ∧ (attrG oid vt val).length ≤ oid.length + val.length + 33 := by
  have h1 := tlv_length 0 6 false oid (by omega) (by omega)
  have h2 := tlv_length 0 vt false val hvt (by omega)
  have h3 := tlv_length 0 16 true (tlv 0 false 6 oid ++ tlv 0 false vt val) (by omega)
    (by rw [List.length_append]; omega)
  rw [List.length_append] at h3
  simp only [attrG]; omega

theorem okTag_seq (n : Nat) : okTag (some (16, true)) ⟨0, true, 16, n⟩ = true := by simp [okTag, foldTag]
theorem okTag_set (n : Nat) : okTag (some (17, true)) ⟨0, true, 17, n⟩ = true := by simp [okTag, foldTag]
theorem okTag_any (t : TL) : okTag none t = true := rfl

theorem parseSets_cons_attr (t : TL) (oid val s : Bytes) (vt : Nat) (arcs : List Nat) (rest : List (TL × Bytes))
    (as : List Tpm.Attr) (ho : parseOID oid = some arcs) (hv : anyValue ⟨0, false, vt, val.length⟩ val = .str s)
    (hvt : vt < 2 ^ 31) (hb : oid.length + val.length + 22 < 2 ^ 31) (hrest : parseSets rest = .ok as) :
    parseSets ((t, attrG oid vt val) :: rest) = .ok (⟨arcs, true, s⟩ :: as) := by
  have h1 := tlv_length 0 6 false oid (by omega) (by omega)
  have h2 := tlv_length 0 vt false val hvt (by omega)
  have hl := attrG_length oid val vt hvt hb
  have he : elems (some (16, true)) (attrG oid vt val).length (attrG oid vt val) =
      some [(⟨0, true, 16, (tlv 0 false 6 oid ++ tlv 0 false vt val).length⟩, tlv 0 false 6 oid ++ tlv 0 false vt val)] :=
    elems_one _ _ 0 16 true _ (by omega) (by omega) (by omega) (by rw [List.length_append]; omega) (okTag_seq _)
  have ha := parseAttr_str oid val s vt arcs ho hv hvt (by omega) (by omega)
  simp [parseSets, he, parseAttrs, ha, hrest]

theorem parseSets_three (t1 t2 t3 : TL) (o1 o2 o3 m p f sm sp sf : Bytes) (tm tp tf : Nat) (a1 a2 a3 : List Nat)
    (h1 : parseOID o1 = some a1) (h2 : parseOID o2 = some a2) (h3 : parseOID o3 = some a3)
    (hm : anyValue ⟨0, false, tm, m.length⟩ m = .str sm) (hp : anyValue ⟨0, false, tp, p.length⟩ p = .str sp)
    (hf : anyValue ⟨0, false, tf, f.length⟩ f = .str sf) (htm : tm < 2 ^ 31) (htp : tp < 2 ^ 31) (htf : tf < 2 ^ 31)
    (hlen : o1.length + o2.length + o3.length + m.length + p.length + f.length + 200 < 2 ^ 31) :
    parseSets [(t1, attrG o1 tm m), (t2, attrG o2 tp p), (t3, attrG o3 tf f)] =
      .ok [⟨a1, true, sm⟩, ⟨a2, true, sp⟩, ⟨a3, true, sf⟩] := by
  apply parseSets_cons_attr _ _ _ _ _ _ _ _ h1 hm htm (by omega)
  apply parseSets_cons_attr _ _ _ _ _ _ _ _ h2 hp htp (by omega)
  apply parseSets_cons_attr _ _ _ _ _ _ _ _ h3 hf htf (by omega)
  rfl

/-- SEQUENCE { SET { a₁ }, SET { a₂ }, SET { a₃ } } -/
def rdn3 (o1 o2 o3 : Bytes) (tm : Nat) (m : Bytes) (tp : Nat) (p : Bytes) (tf : Nat) (f : Bytes) : Bytes :=
  tlv 0 true 16 (tlv 0 true 17 (attrG o1 tm m) ++ tlv 0 true 17 (attrG o2 tp p) ++ tlv 0 true 17 (attrG o3 tf f))

theorem parseRDN_rdn3 (o1 o2 o3 m p f sm sp sf : Bytes) (tm tp tf : Nat) (a1 a2 a3 : List Nat)
    (h1 : parseOID o1 = some a1) (h2 : parseOID o2 = some a2) (h3 : parseOID o3 = some a3)
    (hm : anyValue ⟨0, false, tm, m.length⟩ m = .str sm) (hp : anyValue ⟨0, false, tp, p.length⟩ p = .str sp)
    (hf : anyValue ⟨0, false, tf, f.length⟩ f = .str sf) (htm : tm < 2 ^ 31) (htp : tp < 2 ^ 31) (htf : tf < 2 ^ 31)
    (hlen : o1.length + o2.length + o3.length + m.length + p.length + f.length + 200 < 2 ^ 31) :
    parseRDN (rdn3 o1 o2 o3 tm m tp p tf f) = .ok [⟨a1, true, sm⟩, ⟨a2, true, sp⟩, ⟨a3, true, sf⟩] := by
  have l1 := attrG_length o1 m tm htm (by omega)
  have l2 := attrG_length o2 p tp htp (by omega)
  have l3 := attrG_length o3 f tf htf (by omega)
  have s1 := tlv_length 0 17 true (attrG o1 tm m) (by omega) (by omega)
  have s2 := tlv_length 0 17 true (attrG o2 tp p) (by omega) (by omega)
  have s3 := tlv_length 0 17 true (attrG o3 tf f) (by omega) (by omega)
  have hcl : (tlv 0 true 17 (attrG o1 tm m) ++ tlv 0 true 17 (attrG o2 tp p) ++ tlv 0 true 17 (attrG o3 tf f)).length =
      (tlv 0 true 17 (attrG o1 tm m)).length + (tlv 0 true 17 (attrG o2 tp p)).length +
        (tlv 0 true 17 (attrG o3 tf f)).length := by
    simp only [List.length_append]
  have hp1 := parseTL_tlv 0 16 true
    (tlv 0 true 17 (attrG o1 tm m) ++ tlv 0 true 17 (attrG o2 tp p) ++ tlv 0 true 17 (attrG o3 tf f)) [] (by omega)
    (by omega) (by omega)
  have he := elems_three (some (17, true))
    (tlv 0 true 17 (attrG o1 tm m) ++ tlv 0 true 17 (attrG o2 tp p) ++ tlv 0 true 17 (attrG o3 tf f)).length
    0 0 0 17 17 17 true true true (attrG o1 tm m) (attrG o2 tp p) (attrG o3 tf f) (by omega) (by omega) (by omega)
    (by omega) (by omega) (by omega) (by omega) (by omega) (by omega) (by omega) (okTag_set _) (okTag_set _) (okTag_set _)
  obtain ⟨x, xs, hx⟩ := tlv_cons 0 16 true
    (tlv 0 true 17 (attrG o1 tm m) ++ tlv 0 true 17 (attrG o2 tp p) ++ tlv 0 true 17 (attrG o3 tf f)) []
  simp only [List.append_nil] at hp1 hx
  have hs := parseSets_three
    ⟨0, true, 17, (attrG o1 tm m).length⟩ ⟨0, true, 17, (attrG o2 tp p).length⟩ ⟨0, true, 17, (attrG o3 tf f).length⟩
    o1 o2 o3 m p f sm sp sf tm tp tf a1 a2 a3 h1 h2 h3 hm hp hf htm htp htf hlen
  rw [rdn3, hx]
  rw [hx] at hp1
  simp only [parseRDN, hp1]
  simp only [List.take_length, he, hs]
  simp

theorem rdn3_length (o1 o2 o3 m p f : Bytes) (tm tp tf : Nat) (htm : tm < 2 ^ 31) (htp : tp < 2 ^ 31) (htf : tf < 2 ^ 31)
    (hlen : o1.length + o2.length + o3.length + m.length + p.length + f.length + 200 < 2 ^ 31) :
    2 ≤ (rdn3 o1 o2 o3 tm m tp p tf f).length ∧
      (rdn3 o1 o2 o3 tm m tp p tf f).length ≤
        o1.length + o2.length + o3.length + m.length + p.length + f.length + 143 := by
  have l1 := attrG_length o1 m tm htm (by omega)
  have l2 := attrG_length o2 p tp htp (by omega)
  have l3 := attrG_length o3 f tf htf (by omega)
  have s1 := tlv_length 0 17 true (attrG o1 tm m) (by omega) (by omega)
  have s2 := tlv_length 0 17 true (attrG o2 tp p) (by omega) (by omega)
  have s3 := tlv_length 0 17 true (attrG o3 tf f) (by omega) (by omega)
  have hcl : (tlv 0 true 17 (attrG o1 tm m) ++ tlv 0 true 17 (attrG o2 tp p) ++ tlv 0 true 17 (attrG o3 tf f)).length =
      (tlv 0 true 17 (attrG o1 tm m)).length + (tlv 0 true 17 (attrG o2 tp p)).length +
        (tlv 0 true 17 (attrG o3 tf f)).length := by
    simp only [List.length_append]
  have h := tlv_length 0 16 true
    (tlv 0 true 17 (attrG o1 tm m) ++ tlv 0 true 17 (attrG o2 tp p) ++ tlv 0 true 17 (attrG o3 tf f)) (by omega)
    (by omega)
  simp only [rdn3]; omega

/-- SEQUENCE { [4] { rdn } }; with UTF8String values (`tm = tp = tf = 12`) the same term as `Theorems.C17San.tpmSan` -/
def san3 (o1 o2 o3 : Bytes) (tm : Nat) (m : Bytes) (tp : Nat) (p : Bytes) (tf : Nat) (f : Bytes) : Bytes :=
  tlv 0 true 16 (tlv 2 true 4 (rdn3 o1 o2 o3 tm m tp p tf f))

theorem parseExt_san3 (o1 o2 o3 m p f sm sp sf : Bytes) (tm tp tf : Nat) (a1 a2 a3 : List Nat)
    (h1 : parseOID o1 = some a1) (h2 : parseOID o2 = some a2) (h3 : parseOID o3 = some a3)
    (hm : anyValue ⟨0, false, tm, m.length⟩ m = .str sm) (hp : anyValue ⟨0, false, tp, p.length⟩ p = .str sp)
    (hf : anyValue ⟨0, false, tf, f.length⟩ f = .str sf) (htm : tm < 2 ^ 31) (htp : tp < 2 ^ 31) (htf : tf < 2 ^ 31)
    (hlen : o1.length + o2.length + o3.length + m.length + p.length + f.length + 200 < 2 ^ 31) :
    parseExt (san3 o1 o2 o3 tm m tp p tf f) =
      (.names [⟨2, 4, some [⟨a1, true, sm⟩, ⟨a2, true, sp⟩, ⟨a3, true, sf⟩]⟩], true) := by
  have lr := rdn3_length o1 o2 o3 m p f tm tp tf htm htp htf hlen
  have lg := tlv_length 2 4 true (rdn3 o1 o2 o3 tm m tp p tf f) (by omega) (by omega)
  have hp1 := parseTL_tlv 0 16 true (tlv 2 true 4 (rdn3 o1 o2 o3 tm m tp p tf f)) [] (by omega) (by omega) (by omega)
  have he := elems_one none (tlv 2 true 4 (rdn3 o1 o2 o3 tm m tp p tf f)).length 2 4 true
    (rdn3 o1 o2 o3 tm m tp p tf f) (by omega) (by omega) (by omega) (by omega) (okTag_any _)
  obtain ⟨x, xs, hx⟩ := tlv_cons 0 16 true (tlv 2 true 4 (rdn3 o1 o2 o3 tm m tp p tf f)) []
  simp only [List.append_nil] at hp1 hx
  have hr := parseRDN_rdn3 o1 o2 o3 m p f sm sp sf tm tp tf a1 a2 a3 h1 h2 h3 hm hp hf htm htp htf hlen
  rw [san3, hx]
  rw [hx] at hp1
  simp only [parseExt, hp1]
  simp only [List.take_length, List.drop_length, he]
  simp [hr]

theorem parseExt_san3_trailing (o1 o2 o3 m p f : Bytes) (tm tp tf : Nat) (x : UInt8) (rest : Bytes)
    (htm : tm < 2 ^ 31) (htp : tp < 2 ^ 31) (htf : tf < 2 ^ 31)
    (hlen : o1.length + o2.length + o3.length + m.length + p.length + f.length + 200 < 2 ^ 31) :
    (parseExt (san3 o1 o2 o3 tm m tp p tf f ++ x :: rest)).1 = .bad := by
  have lr := rdn3_length o1 o2 o3 m p f tm tp tf htm htp htf hlen
  have lg := tlv_length 2 4 true (rdn3 o1 o2 o3 tm m tp p tf f) (by omega) (by omega)
  have hp1 := parseTL_tlv 0 16 true (tlv 2 true 4 (rdn3 o1 o2 o3 tm m tp p tf f)) (x :: rest) (by omega) (by omega)
    (by omega)
  obtain ⟨y, ys, hy⟩ := tlv_cons 0 16 true (tlv 2 true 4 (rdn3 o1 o2 o3 tm m tp p tf f)) (x :: rest)
  rw [san3, hy]
  rw [hy] at hp1
  simp only [parseExt, hp1]
  simp

/-! ### BMPString values: `utf16ToUtf8` is defined by well-founded recursion, so the kernel cannot evaluate it; on code units below
    the surrogate range it is the concatenation of the runes' encodings, which the kernel can -/

theorem utf16ToUtf8_bmp (us : List Nat) (h : ∀ u ∈ us, u < 0xD800) :
    utf16ToUtf8 us = (us.map Json.encodeRune).flatten := by
  induction us with
  | nil => simp [utf16ToUtf8]
  | cons u tl ih =>
    have hu : u < 0xD800 := h u (by simp)
    have htl := ih (fun v hv => h v (by simp [hv]))
    cases tl with
    | nil => simp [utf16ToUtf8, isSurrogate]; omega
    | cons v rest =>
      rw [utf16ToUtf8, if_neg (by omega), htl]
      have : isSurrogate u = false := by simp [isSurrogate]; omega
      simp [this]

end WebAuthn.Proofs.SanLemmas
