import WebAuthnModel.Model.AuthData
/-
  WebAuthn L2 §6.1 authenticator data layout and §6.5.1 attested credential data, as a declarative
  predicate (hand-written from the standard / the property statement; never generated).
-/
namespace WebAuthn.Spec
open WebAuthn

/-- `i` is exactly one CBOR data item (one the relying party's CBOR decoder accepts), nothing more. -/
def OneItem (i : Bytes) : Prop := extractCBOR i = some (i, [])

/-- bit `k` of the flags byte -/
def bit (f : UInt8) (k : Nat) : Bool := f.toNat.testBit k

/-- `b` is: 32-byte RP ID hash ‖ flags ‖ big-endian 32-bit counter ‖ [attested credential data iff AT (bit 6)]
    ‖ [one CBOR item iff ED (bit 7)] ‖ rest, and `d` carries exactly those bytes. -/
def Layout (b : Bytes) (d : AuthData) (rest : Bytes) : Prop :=
  ∃ acdBytes extBytes : Bytes,
    b = d.rpIdHash ++ [d.flags] ++ Bytes.ofNatBE 4 d.signCount ++ acdBytes ++ extBytes ++ rest ∧
    d.rpIdHash.length = 32 ∧ d.signCount < 2 ^ 32 ∧
    (if bit d.flags 6 then
        ∃ a : AttestedCredentialData, d.acd = some a ∧ a.aaguid.length = 16 ∧ a.credentialId.length < 65536 ∧
          OneItem a.credentialPublicKey ∧
          acdBytes = a.aaguid ++ Bytes.ofNatBE 2 a.credentialId.length ++ a.credentialId ++ a.credentialPublicKey
      else d.acd = none ∧ acdBytes = []) ∧
    (if bit d.flags 7 then OneItem d.extensions ∧ extBytes = d.extensions
      else d.extensions = [] ∧ extBytes = [])

/-- well-formed authenticator data values (exactly what `Unmarshal` can return) -/
def WellFormed (d : AuthData) : Prop :=
  d.rpIdHash.length = 32 ∧ d.signCount < 2 ^ 32 ∧
  (if bit d.flags 6 then
      ∃ a : AttestedCredentialData, d.acd = some a ∧ a.aaguid.length = 16 ∧ a.credentialId.length < 65536 ∧
        OneItem a.credentialPublicKey
    else d.acd = none) ∧
  (if bit d.flags 7 then OneItem d.extensions else d.extensions = [])

end WebAuthn.Spec
