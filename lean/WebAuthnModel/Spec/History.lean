import WebAuthnModel.Model.History
import WebAuthnModel.Spec.Ceremony
/-
  C07 reference state machine: the state is a map from credential id to (owner, public key).
  `regPre` / `authDecision` are the storage-independent ceremony decisions (characterised declaratively by
  `C02.regPre_iff` / `C01.auth_iff`); the machine itself only says how decisions and bindings interact.
-/
namespace WebAuthn.Spec
open WebAuthn

abbrev State := Bytes → Option (Bytes × Bytes)      -- id ↦ (owner, COSE key bytes)

def State.empty : State := fun _ => none
def State.bind (s : State) (id owner key : Bytes) : State := fun i => if i = id then some (owner, key) else s i

/-- abstraction of the in-memory storage -/
def abs (st : Store) : State := fun id => (st.find? (fun c => c.id == id)).map (fun c => (c.owner, c.publicKey))

/-- the pre-storage registration decision (attested id and key bytes): the ceremony run against a storage that is never
    consulted for the decision (characterised declaratively by `C02.regPre_iff`) -/
def regDecisionP (rp : RP) (o : CreationOptions) (c : Attestation) (opts : List VerifyOption) : Prog (Option (Bytes × Bytes)) := do
  let out ← verifyRegistration rp o c opts (fun _ => .notFound) (fun _ => .ok)
  match out.result with
  | .ok cr => pure (some (cr.id, cr.publicKey))
  | .error _ => pure none

/-- does the assertion verify against a given binding (id ↦ owner, key)?  (characterised by `C01.auth_iff`) -/
def authDecisionP (rp : RP) (o : RequestOptions) (a : Assertion) (owner key : Bytes) : Prog Bool := do
  let out ← verifyAuthentication rp o a (fun _ => .found ⟨a.rawId, owner, key⟩)
  match out.result with
  | .ok _ => pure true
  | .error _ => pure false

/-- one step of the reference machine -/
def stepP (rp : RP) (s : State) : HOp → Prog (HOut × State)
  | .register o c opts => do
    match ← regDecisionP rp o c opts with
    | none => pure (none, s)
    | some (id, key) =>
      match s id with
      | some (owner, _) =>
        if owner ≠ o.userId then pure (none, s) else pure (some ⟨id, o.userId, key⟩, s.bind id o.userId key)
      | none => pure (some ⟨id, o.userId, key⟩, s.bind id o.userId key)
  | .authenticate o a =>
    match s a.rawId with
    | none => pure (none, s)
    | some (owner, key) => do
      if ← authDecisionP rp o a owner key then pure (some ⟨a.rawId, owner, key⟩, s) else pure (none, s)

def runAllP (rp : RP) : State → List HOp → Prog (List HOut × State)
  | s, [] => pure ([], s)
  | s, op :: ops => do
    let (o, s') ← stepP rp s op
    let (os, s'') ← runAllP rp s' ops
    pure (o :: os, s'')

def regDecision (env : Prog.Env) (rp : RP) (o : CreationOptions) (c : Attestation) (opts : List VerifyOption) :=
  Prog.run env (regDecisionP rp o c opts)
def authDecision (env : Prog.Env) (rp : RP) (o : RequestOptions) (a : Assertion) (owner key : Bytes) :=
  Prog.run env (authDecisionP rp o a owner key)
def step (env : Prog.Env) (rp : RP) (s : State) (op : HOp) : HOut × State := Prog.run env (stepP rp s op)
def runAll (env : Prog.Env) (rp : RP) (s : State) (ops : List HOp) : List HOut × State := Prog.run env (runAllP rp s ops)

end WebAuthn.Spec
