import WebAuthnModel.Model.Wire
/-
  Wire schemas of the JSON-facing types, transcribed from WebAuthn L2 §5 (dictionary members) and the property
  statement: binary members as unpadded base64url strings, timeouts as integer milliseconds, user handle / user id
  nullable.  Hand-written; the translator's facts about the Marshal/Unmarshal methods are checked against them.
-/
namespace WebAuthn.Spec.Wire
open WebAuthn.Wire

def rpEntity : Schema := [⟨"id", .str, true⟩, ⟨"name", .str, false⟩]
def userEntity : Schema := [⟨"id", .nbytes, true⟩, ⟨"displayName", .str, false⟩, ⟨"name", .str, false⟩]
def descriptor : Schema := [⟨"type", .str, false⟩, ⟨"id", .bytes, false⟩, ⟨"transports", .strList, true⟩]
def parameters : Schema := [⟨"type", .str, false⟩, ⟨"alg", .int, false⟩]
def authenticatorSelection : Schema :=
  [⟨"authenticatorAttachment", .str, true⟩, ⟨"residentKey", .str, true⟩, ⟨"requireResidentKey", .bool, false⟩, ⟨"userVerification", .str, true⟩]
def creationOptions : Schema :=
  [⟨"rp", .obj "rpEntity", false⟩, ⟨"user", .obj "userEntity", false⟩, ⟨"challenge", .bytes, false⟩,
   ⟨"pubKeyCredParams", .objList "parameters", false⟩, ⟨"timeout", .ms, false⟩, ⟨"excludeCredentials", .objList "descriptor", true⟩,
   ⟨"authenticatorSelection", .ptr "authenticatorSelection", true⟩, ⟨"attestation", .str, true⟩, ⟨"extensions", .any, true⟩]
def requestOptions : Schema :=
  [⟨"challenge", .bytes, false⟩, ⟨"timeout", .ms, false⟩, ⟨"rpId", .str, true⟩, ⟨"allowCredentials", .objList "descriptor", true⟩,
   ⟨"userVerification", .str, true⟩, ⟨"extensions", .any, true⟩]
def attestationResponse : Schema := [⟨"clientDataJSON", .bytes, false⟩, ⟨"attestationObject", .bytes, false⟩]
def assertionResponse : Schema :=
  [⟨"clientDataJSON", .bytes, false⟩, ⟨"authenticatorData", .bytes, false⟩, ⟨"signature", .bytes, false⟩, ⟨"userHandle", .nbytes, false⟩]
def creationCredential : Schema :=
  [⟨"id", .str, false⟩, ⟨"type", .str, false⟩, ⟨"rawId", .bytes, false⟩, ⟨"response", .obj "attestationResponse", false⟩,
   ⟨"clientExtensionResults", .any, true⟩]
def assertionCredential : Schema :=
  [⟨"id", .str, false⟩, ⟨"type", .str, false⟩, ⟨"rawId", .bytes, false⟩, ⟨"response", .obj "assertionResponse", false⟩,
   ⟨"clientExtensionResults", .any, true⟩]

def schemas : String → Schema
  | "rpEntity" => rpEntity
  | "userEntity" => userEntity
  | "descriptor" => descriptor
  | "parameters" => parameters
  | "authenticatorSelection" => authenticatorSelection
  | "creationOptions" => creationOptions
  | "requestOptions" => requestOptions
  | "attestationResponse" => attestationResponse
  | "assertionResponse" => assertionResponse
  | "creationCredential" => creationCredential
  | "assertionCredential" => assertionCredential
  | _ => []

def typeNames : List String :=
  ["rpEntity", "userEntity", "descriptor", "parameters", "authenticatorSelection", "creationOptions", "requestOptions",
   "attestationResponse", "assertionResponse", "creationCredential", "assertionCredential"]

end WebAuthn.Spec.Wire
