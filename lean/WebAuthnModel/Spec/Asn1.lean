import WebAuthnModel.Model.KeyDesc
/-
  Well-formedness of Keymaster key-description values (the values `Unmarshal` can return and `Marshal` writes
  faithfully) and the published tag table, written out independently of the generated schema.
-/
namespace WebAuthn.Spec.Asn1
open WebAuthn.Asn1 WebAuthn.KeyDesc

def Int64 (i : Int) : Prop := -(9223372036854775808 : Int) ≤ i ∧ i ≤ 9223372036854775807
def Int32 (i : Int) : Prop := -(2147483648 : Int) ≤ i ∧ i ≤ 2147483647

/-- a SET OF INTEGER value as `Unmarshal ∘ Marshal` returns it: elements fit int64 and stand in the order of their encodings -/
def WFInts (l : List Int) : Prop :=
  (∀ i ∈ l, Int64 i) ∧ sortEnc (l.map encIntTLV) = l.map encIntTLV

def zeroRot : RotVal := [.prim (.bytes none), .prim (.bool false), .prim (.int 0), .prim (.bytes none)]

/-- a RootOfTrust that was decoded from an element: both byte strings present (possibly empty) -/
def WFRot (v : RotVal) : Prop :=
  ∃ key locked state hash,
    v = [.prim (.bytes (some key)), .prim (.bool locked), .prim (.int state), .prim (.bytes (some hash))] ∧ Int32 state

def WFAuthField (f : Field) (x : FV RotVal) : Prop :=
  match f.ty, x with
  | .int, .prim (.int i) => Int64 i
  | .flag, .prim (.bool _) => True
  | .bytes, .prim (.bytes _) => True
  | .intList, .prim (.ints none) => True
  | .intList, .prim (.ints (some l)) => WFInts l
  | .struct _, .sub r => r = zeroRot ∨ WFRot r
  | _, _ => False

def WFFields : List Field → AuthListVal → Prop
  | [], [] => True
  | f :: fs, x :: xs => WFAuthField f x ∧ WFFields fs xs
  | _, _ => False

def WFAuthList (v : AuthListVal) : Prop := WFFields Generated.Asn1Schema.authorizationList v

def WFKD (v : KDVal) : Prop :=
  ∃ ver sec kmVer kmSec chal uid sw tee,
    v = [.prim (.int ver), .prim (.int sec), .prim (.int kmVer), .prim (.int kmSec),
         .prim (.bytes (some chal)), .prim (.bytes (some uid)), .sub sw, .sub tee] ∧
    Int64 ver ∧ Int32 sec ∧ Int64 kmVer ∧ Int32 kmSec ∧ WFAuthList sw ∧ WFAuthList tee

/-- the published Keymaster / KeyMint AuthorizationList context tags (Android key-attestation schema): name, tag, kind -/
def publishedAuthList : List (String × Nat × Ty) := [
  ("Purpose", 1, .intList), ("Algorithm", 2, .int), ("KeySize", 3, .int), ("Digest", 5, .intList), ("Padding", 6, .intList),
  ("ECCurve", 10, .int), ("RSAPublicExponent", 200, .int), ("RollbackResistance", 303, .flag), ("ActiveDateTime", 400, .int),
  ("OriginationExpireDateTime", 401, .int), ("UsageExpireDateTime", 402, .int), ("NoAuthRequired", 503, .flag),
  ("UserAuthType", 504, .int), ("AuthTimeout", 505, .int), ("AllowWhileOnBody", 506, .flag),
  ("TrustedUserPresenceRequired", 507, .flag), ("TrustedConfirmationRequired", 508, .flag), ("UnlockedDeviceRequired", 509, .flag),
  ("AllApplications", 600, .flag), ("ApplicationID", 601, .flag), ("CreationDateTime", 701, .int), ("Origin", 702, .int),
  ("RootOfTrust", 704, .struct "RootOfTrust"), ("OSVersion", 705, .int), ("OSPatchLevel", 706, .int),
  ("AttestationApplicationID", 709, .bytes), ("AttestationIDBrand", 710, .bytes), ("AttestationIDDevice", 711, .bytes),
  ("AttestationIDProduct", 712, .bytes), ("AttestationIDSerial", 713, .bytes), ("AttestationIDIMEID", 714, .bytes),
  ("AttestationIDMEID", 715, .bytes), ("AttestationIDManufacturer", 716, .bytes), ("AttestationIDModel", 717, .bytes),
  ("VendorPatchLevel", 718, .int), ("BootPatchLevel", 719, .int)]

/-- tags of the NULL-typed (flag) members -/
def flagTags : List Nat := [303, 503, 506, 507, 508, 509, 600, 601]

/-- the all-absent AuthorizationList -/
def zeroAuthList : AuthListVal :=
  Generated.Asn1Schema.authorizationList.map fun f =>
    match f.ty with
    | .int | .enum => .prim (.int 0)
    | .flag | .bool => .prim (.bool false)
    | .bytes => .prim (.bytes none)
    | .intList => .prim (.ints none)
    | .struct _ => .sub zeroRot

end WebAuthn.Spec.Asn1
