import WebAuthnModel.Model.Prog
/-
  Hand transcription of the standards' tables (never generated):
  IANA COSE Algorithms registry (RFC 8152 / RFC 8230 / RFC 8812) for the eleven identifiers the
  property names, with Go's numeric ids for hashes (`crypto.Hash`) and X.509 signature algorithms
  (`x509.SignatureAlgorithm`).  The harness checks these numeric ids against the Go constants.
-/
namespace WebAuthn.Spec.Cose
open WebAuthn

-- crypto.Hash ids
def SHA1 : Nat := 3
def SHA256 : Nat := 5
def SHA384 : Nat := 6
def SHA512 : Nat := 7
-- x509.SignatureAlgorithm ids
def SHA1WithRSA : Nat := 3
def SHA256WithRSA : Nat := 4
def SHA384WithRSA : Nat := 5
def SHA512WithRSA : Nat := 6
def ECDSAWithSHA256 : Nat := 10
def ECDSAWithSHA384 : Nat := 11
def ECDSAWithSHA512 : Nat := 12
def SHA256WithRSAPSS : Nat := 13
def SHA384WithRSAPSS : Nat := 14
def SHA512WithRSAPSS : Nat := 15
def PureEd25519 : Nat := 16

-- COSE algorithm identifiers
def ES256 : Int := -7
def EdDSA : Int := -8
def ES384 : Int := -35
def ES512 : Int := -36
def PS256 : Int := -37
def PS384 : Int := -38
def PS512 : Int := -39
def RS256 : Int := -257
def RS384 : Int := -258
def RS512 : Int := -259
def RS1 : Int := -65535

/-- the hash of an algorithm; every other integer (and EdDSA, which hashes internally) has none (0). -/
def hashOf (alg : Int) : Nat :=
  if alg = RS1 then SHA1
  else if alg = RS256 ∨ alg = PS256 ∨ alg = ES256 then SHA256
  else if alg = RS384 ∨ alg = PS384 ∨ alg = ES384 then SHA384
  else if alg = RS512 ∨ alg = PS512 ∨ alg = ES512 then SHA512
  else 0

/-- the X.509 signature algorithm of an algorithm; every other integer has none (0 = unknown). -/
def x509Of (alg : Int) : Nat :=
  if alg = RS1 then SHA1WithRSA
  else if alg = RS256 then SHA256WithRSA
  else if alg = RS384 then SHA384WithRSA
  else if alg = RS512 then SHA512WithRSA
  else if alg = PS256 then SHA256WithRSAPSS
  else if alg = PS384 then SHA384WithRSAPSS
  else if alg = PS512 then SHA512WithRSAPSS
  else if alg = ES256 then ECDSAWithSHA256
  else if alg = ES384 then ECDSAWithSHA384
  else if alg = ES512 then ECDSAWithSHA512
  else if alg = EdDSA then PureEd25519
  else 0

/-- signature scheme and hash by which a key of COSE key type `kty` carrying `alg` verifies; none = unsupported. -/
def schemeOf (kty : Nat) (alg : Int) : Option (SigScheme × Nat) :=
  if kty = 2 then
    if alg = ES256 then some (.ecdsa, SHA256)
    else if alg = ES384 then some (.ecdsa, SHA384)
    else if alg = ES512 then some (.ecdsa, SHA512)
    else none
  else if kty = 1 then
    if alg = EdDSA then some (.eddsa, 0) else none
  else if kty = 3 then
    if alg = RS1 then some (.pkcs1, SHA1)
    else if alg = RS256 then some (.pkcs1, SHA256)
    else if alg = RS384 then some (.pkcs1, SHA384)
    else if alg = RS512 then some (.pkcs1, SHA512)
    else if alg = PS256 then some (.pss, SHA256)
    else if alg = PS384 then some (.pss, SHA384)
    else if alg = PS512 then some (.pss, SHA512)
    else none
  else none

-- COSE elliptic curves (IANA): 1 P-256, 2 P-384, 3 P-521, 6 Ed25519
def supportedEC2Curve (crv : Int) : Bool := crv = 1 || crv = 2 || crv = 3

end WebAuthn.Spec.Cose

namespace WebAuthn.Spec.Cose
open WebAuthn

/-- Declarative classification of the members of a COSE_Key map (RFC 8152 §13, RFC 8230 §4, WebAuthn §5.8.5):
    `kty` (label 1), `alg` (label 3, 0 = absent), label −1 as integer (`crv`) resp. byte string (`n`), labels −2, −3.
    `none` = not a supported key. -/
inductive KeyClass where
  | ec2 (alg crv : Int) (x y : Bytes)
  | okp (x : Bytes)
  | rsa (alg : Int) (n e : Bytes)
  deriving Repr, DecidableEq

def classify (kty alg crvInt : Int) (m1Bytes m2 m3 : Bytes) : Option KeyClass :=
  if kty = 2 then
    if (crvInt = 1 ∨ crvInt = 2 ∨ crvInt = 3) ∧ (alg = ES256 ∨ alg = ES384 ∨ alg = ES512) then
      some (.ec2 alg crvInt m2 m3) else none
  else if kty = 1 then
    if (alg = EdDSA ∨ alg = 0) ∧ crvInt = 6 ∧ m2.length = 32 then some (.okp m2) else none
  else if kty = 3 then
    if (alg = RS1 ∨ alg = RS256 ∨ alg = RS384 ∨ alg = RS512 ∨ alg = PS256 ∨ alg = PS384 ∨ alg = PS512)
        ∧ Bytes.beNat m2 < 2 ^ 63 then
      some (.rsa alg m1Bytes m2) else none
  else none

end WebAuthn.Spec.Cose
