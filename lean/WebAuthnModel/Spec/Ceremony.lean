import WebAuthnModel.Model.Ceremony
import WebAuthnModel.Spec.Cose
import WebAuthnModel.Spec.AuthData
/-
  Declarative acceptance conditions of the two ceremonies, transcribed from the property statements
  (C01, C02, C06, C08) / WebAuthn L2 §7.1, §7.2.  Hand-written; never generated.
  `env` supplies what the dependencies compute (hashes, JSON parsing, host extraction, signature primitives).
-/
namespace WebAuthn.Spec
open WebAuthn

/-- SHA-256 as computed by the environment -/
def sha256 (env : Prog.Env) (b : Bytes) : Bytes :=
  match env.answer (.sha256 b) with
  | .bytes h => h
  | _ => []

/-- the client-data origin's host is the RP host or a subdomain of it (both hosts as the URL parser reports them) -/
def OriginOK (env : Prog.Env) (clientOrigin rpOrigin : Bytes) : Prop :=
  ∃ ch rh, Url.hostOf clientOrigin = some ch ∧ Url.hostOf rpOrigin = some rh ∧
    rh ≠ [] ∧ (ch = rh ∨ ∃ p : Bytes, ch = p ++ dot :: rh)

/-- the signature verifies under the COSE key `pk` over `msg`, by the standard primitive of the key's algorithm -/
def SigOK (env : Prog.Env) (pk msg sig : Bytes) : Prop :=
  ∃ k rest, Cose.parse pk = .ok k rest ∧ ∃ s h, Spec.Cose.schemeOf k.kty k.alg = some (s, h) ∧
    env.answer (.sigVerify s h k.material msg sig) = .bool true

def str (x : String) : Bytes := Bytes.ofString x

/-- C01: the ten conditions under which `VerifyAuthenticationCeremony` returns `cred` -/
structure AuthOK (env : Prog.Env) (rp : RP) (o : RequestOptions) (a : Assertion) (get : Bytes → GetOutcome)
    (cred : Credential) : Prop where
  /-- A1 the id is allow-listed when the list is non-empty -/
  allowed : o.allow = [] ∨ a.rawId ∈ o.allow
  /-- A2 storage holds a credential for the id (and that record is what is returned) -/
  stored : get a.rawId = .found cred
  /-- A3 its owner is the response's user handle -/
  owner : a.userHandle = cred.owner
  /-- A4–A6 client data: type, challenge, origin -/
  clientData : ∃ cd, Json.clientData a.clientDataJSON = some cd ∧
    cd.type = str "webauthn.get" ∧ cd.challenge = B64.encode o.challenge ∧ OriginOK env cd.origin rp.origin
  /-- A7–A9 authenticator data: layout, RP ID hash, UP (bit 0), UV (bit 2) when required -/
  authData : ∃ ad rest, unmarshalAuthData a.authenticatorData = some (ad, rest) ∧ ad.rpIdHash = sha256 env rp.id ∧
    bit ad.flags 0 = true ∧ (o.userVerification = str "required" → bit ad.flags 2 = true)
  /-- A10 signature under the stored key over authenticatorData ‖ SHA-256(clientDataJSON) -/
  signature : SigOK env cred.publicKey (a.authenticatorData ++ sha256 env a.clientDataJSON) a.signature

/-- C08: effective policy sets: the last option of a kind wins, else all seven formats / all six types -/
def sevenFormats : List Bytes := ["android-key", "android-safetynet", "apple", "fido-u2f", "none", "packed", "tpm"].map str
def sixTypes : List Bytes := ["Basic", "Self", "AttCA", "AnonCA", "None", "Unknown"].map str

def lastFormats : List VerifyOption → Option (List Bytes)
  | [] => none
  | .allowedFormats fs :: rest => (lastFormats rest).orElse (fun _ => some fs)
  | _ :: rest => lastFormats rest
def lastTypes : List VerifyOption → Option (List Bytes)
  | [] => none
  | .allowedTypes ts :: rest => (lastTypes rest).orElse (fun _ => some ts)
  | _ :: rest => lastTypes rest

def allowedFormats (opts : List VerifyOption) : List Bytes := (lastFormats opts).getD sevenFormats
def allowedTypes (opts : List VerifyOption) : List Bytes := (lastTypes opts).getD sixTypes

/-- C02: the conditions under which `VerifyRegistrationCeremony` returns a credential (before storage is consulted):
    yields the attested credential id and COSE key bytes. -/
structure RegPreOK (env : Prog.Env) (rp : RP) (o : CreationOptions) (c : Attestation) (opts : List VerifyOption)
    (credId keyBytes : Bytes) : Prop where
  /-- R1–R3 client data -/
  clientData : ∃ cd, Json.clientData c.clientDataJSON = some cd ∧
    cd.type = str "webauthn.create" ∧ cd.challenge = B64.encode o.challenge ∧ OriginOK env cd.origin rp.origin
  /-- R4–R13 attestation object, authenticator data, key, algorithm, statement, policy, raw id -/
  attestation : ∃ ao rest ad adRest acd k kRest res,
    unmarshalAttestationObject c.attestationObject = .ok ao rest ∧
    unmarshalAuthData ao.authData = some (ad, adRest) ∧ ad.rpIdHash = sha256 env rp.id ∧
    bit ad.flags 0 = true ∧ (o.authSelUV = some (str "required") → bit ad.flags 2 = true) ∧
    ad.acd = some acd ∧ Cose.parse acd.credentialPublicKey = .ok k kRest ∧ k.alg ∈ o.algs ∧
    Prog.run env (Att.verify ao (sha256 env c.clientDataJSON)) = some res ∧
    str res.type ∈ allowedTypes opts ∧ ao.fmt ∈ allowedFormats opts ∧
    c.rawId = acd.credentialId ∧ credId = acd.credentialId ∧ keyBytes = acd.credentialPublicKey

end WebAuthn.Spec
