import WebAuthnModel.Model.Tpm
/-
  Hand transcriptions for C17: hexadecimal digits, the TCG TPM Vendor ID Registry (used only as a superset),
  the vendor table as reviewed for this work, and the Keymaster / KeyMint `AuthorizationList` schema
  (Android key attestation documentation, schema versions 3–4 plus later additions).
-/
namespace WebAuthn.Spec.Tpm
open WebAuthn

def isHex (c : UInt8) : Bool :=
  (48 ≤ c.toNat && c.toNat ≤ 57) || (65 ≤ c.toNat && c.toNat ≤ 70) || (97 ≤ c.toNat && c.toNat ≤ 102)

/-- value of a hexadecimal digit (0 for anything else) -/
def hexVal (c : UInt8) : Nat :=
  if 48 ≤ c.toNat ∧ c.toNat ≤ 57 then c.toNat - 48
  else if 65 ≤ c.toNat ∧ c.toNat ≤ 70 then c.toNat - 55
  else if 97 ≤ c.toNat ∧ c.toNat ≤ 102 then c.toNat - 87
  else 0

/-- the four bytes denoted by eight hexadecimal digits -/
def bytesOfHex8 (h : Bytes) : Bytes :=
  [0, 1, 2, 3].map fun i => UInt8.ofNat (hexVal (h.getD (2 * i) 0) * 16 + hexVal (h.getD (2 * i + 1) 0))

/-- TCG Vendor ID Registry (family "2.0", rev 1.06 and earlier): 4-byte ASCII identifiers, NUL/space padded. -/
def tcgRegistry : List (List Nat) := [
  [0x41, 0x4D, 0x44, 0x00],  -- AMD
  [0x41, 0x4E, 0x54, 0x00],  -- Ant Group
  [0x41, 0x54, 0x4D, 0x4C],  -- Atmel
  [0x42, 0x52, 0x43, 0x4D],  -- Broadcom
  [0x43, 0x53, 0x43, 0x4F],  -- Cisco
  [0x46, 0x4C, 0x59, 0x53],  -- Flyslice Technologies
  [0x52, 0x4F, 0x43, 0x43],  -- Fuzhou Rockchip
  [0x47, 0x4F, 0x4F, 0x47],  -- Google
  [0x48, 0x50, 0x49, 0x00],  -- HPI
  [0x48, 0x50, 0x45, 0x00],  -- HPE
  [0x48, 0x49, 0x53, 0x49],  -- Huawei
  [0x49, 0x42, 0x4D, 0x00],  -- IBM
  [0x49, 0x46, 0x58, 0x00],  -- Infineon
  [0x49, 0x4E, 0x54, 0x43],  -- Intel
  [0x4C, 0x45, 0x4E, 0x00],  -- Lenovo
  [0x4D, 0x53, 0x46, 0x54],  -- Microsoft
  [0x4E, 0x53, 0x4D, 0x20],  -- National Semiconductor
  [0x4E, 0x54, 0x5A, 0x00],  -- Nationz
  [0x4E, 0x53, 0x47, 0x00],  -- NSING
  [0x4E, 0x54, 0x43, 0x00],  -- Nuvoton Technology
  [0x51, 0x43, 0x4F, 0x4D],  -- Qualcomm
  [0x53, 0x4D, 0x53, 0x4E],  -- Samsung
  [0x53, 0x45, 0x43, 0x45],  -- SecEdge
  [0x53, 0x4E, 0x53, 0x00],  -- Sinosun
  [0x53, 0x4D, 0x53, 0x43],  -- SMSC
  [0x53, 0x54, 0x4D, 0x20],  -- ST Microelectronics
  [0x54, 0x58, 0x4E, 0x00],  -- Texas Instruments
  [0x57, 0x45, 0x43, 0x00]   -- Winbond
]

/-- pseudo vendor used by the FIDO conformance tools (documented exception in the source) -/
def fidoConformancePseudoVendor : List Nat := [0xFF, 0xFF, 0xF1, 0xD0]

/-- the 24 rows reviewed for this work -/
def vendorsReviewed : List (List Nat × String) := [
  ([65, 77, 68, 0], "AMD"), ([65, 84, 77, 76], "Atmel"), ([66, 82, 67, 77], "Broadcom"), ([67, 83, 67, 79], "Cisco"),
  ([70, 76, 89, 83], "Flyslice Technologies"), ([72, 80, 69, 0], "HPE"), ([73, 66, 77, 0], "IBM"), ([73, 70, 88, 0], "Infineon"),
  ([73, 78, 84, 67], "Intel"), ([76, 69, 78, 0], "Lenovo"), ([77, 83, 70, 84], "Microsoft"),
  ([78, 83, 77, 32], "National Semiconductor"), ([78, 84, 90, 0], "Nationz"), ([78, 84, 67, 0], "Nuvoton Technology"),
  ([81, 67, 79, 77], "Qualcomm"), ([83, 77, 83, 67], "SMSC"), ([83, 84, 77, 32], "ST Microelectronics"), ([83, 77, 83, 78], "Samsung"),
  ([83, 78, 83, 0], "Sinosun"), ([84, 88, 78, 0], "Texas Instruments"), ([87, 69, 67, 0], "Winbond"),
  ([82, 79, 67, 67], "Fuzhou Rockchip"), ([71, 79, 79, 71], "Google"), ([255, 255, 241, 208], "FIDO Alliance")]

/-- TCG EK credential profile attribute OIDs -/
def oidManufacturer : List Nat := [2, 23, 133, 2, 1]
def oidModel : List Nat := [2, 23, 133, 2, 2]
def oidVersion : List Nat := [2, 23, 133, 2, 3]

/-- value of the last string-valued attribute with the given OID -/
def lastValue (oid : List Nat) : List Tpm.Attr → Option Bytes
  | [] => none
  | a :: rest =>
    match lastValue oid rest with
    | some v => some v
    | none => if a.isString ∧ a.oid = oid then some a.value else none

/-- Keymaster AuthorizationList: (field, context tag number, ASN.1 type) as published -/
def keymasterSchema : List (String × Nat × String) := [
  ("purpose", 1, "SET OF INTEGER"), ("algorithm", 2, "INTEGER"), ("keySize", 3, "INTEGER"), ("digest", 5, "SET OF INTEGER"),
  ("padding", 6, "SET OF INTEGER"), ("ecCurve", 10, "INTEGER"), ("rsaPublicExponent", 200, "INTEGER"),
  ("mgfDigest", 203, "SET OF INTEGER"), ("rollbackResistance", 303, "NULL"), ("earlyBootOnly", 305, "NULL"),
  ("activeDateTime", 400, "INTEGER"), ("originationExpireDateTime", 401, "INTEGER"), ("usageExpireDateTime", 402, "INTEGER"),
  ("usageCountLimit", 405, "INTEGER"), ("noAuthRequired", 503, "NULL"), ("userAuthType", 504, "INTEGER"), ("authTimeout", 505, "INTEGER"),
  ("allowWhileOnBody", 506, "NULL"), ("trustedUserPresenceRequired", 507, "NULL"), ("trustedConfirmationRequired", 508, "NULL"),
  ("unlockedDeviceRequired", 509, "NULL"), ("allApplications", 600, "NULL"), ("applicationId", 601, "OCTET STRING"),
  ("creationDateTime", 701, "INTEGER"), ("origin", 702, "INTEGER"), ("rollbackResistant", 703, "NULL"), ("rootOfTrust", 704, "RootOfTrust"),
  ("osVersion", 705, "INTEGER"), ("osPatchLevel", 706, "INTEGER"), ("attestationApplicationId", 709, "OCTET STRING"),
  ("attestationIdBrand", 710, "OCTET STRING"), ("attestationIdDevice", 711, "OCTET STRING"), ("attestationIdProduct", 712, "OCTET STRING"),
  ("attestationIdSerial", 713, "OCTET STRING"), ("attestationIdImei", 714, "OCTET STRING"), ("attestationIdMeid", 715, "OCTET STRING"),
  ("attestationIdManufacturer", 716, "OCTET STRING"), ("attestationIdModel", 717, "OCTET STRING"), ("vendorPatchLevel", 718, "INTEGER"),
  ("bootPatchLevel", 719, "INTEGER"), ("deviceUniqueAttestation", 720, "NULL")]

/-- the tag number in an `asn1:"tag:N,…"` struct tag -/
def tagOf (asn1Tag : String) : Option Nat :=
  match (asn1Tag.splitOn ",").find? (fun p => p.startsWith "tag:") with
  | some p => (p.drop 4).toNat?
  | none => none

def lowerFirst (s : String) : String :=
  match s.toList with
  | [] => ""
  | c :: cs => String.ofList (c.toLower :: cs)

end WebAuthn.Spec.Tpm
