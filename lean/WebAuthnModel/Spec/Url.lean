import WebAuthnModel.Model.Url
/-
  URLs built from well-formed components, for stating what `url.Parse(..).Hostname()` returns on them.
-/
namespace WebAuthn.Spec.Url
open WebAuthn.Url

structure Parts where
  scheme : Bytes
  userinfo : Option Bytes
  host : Bytes
  port : Option Bytes
  path : Bytes
  query : Option Bytes
  fragment : Option Bytes
  deriving Repr, DecidableEq

def optPre (c : UInt8) : Option Bytes → Bytes
  | some x => c :: x
  | none => []

/-- scheme "://" [userinfo "@"] host [":" port] path ["?" query] ["#" fragment] -/
def Parts.render (p : Parts) : Bytes :=
  p.scheme ++ [ch ':', ch '/', ch '/'] ++ (match p.userinfo with | some u => u ++ [ch '@'] | none => []) ++
    p.host ++ optPre (ch ':') p.port ++ p.path ++ optPre (ch '?') p.query ++ optPre (ch '#') p.fragment

def isCTL (c : UInt8) : Bool := c.toNat < 32 || c.toNat = 127

def schemeChar (c : UInt8) : Bool := isAlpha c || isDigit c || c = ch '+' || c = ch '-' || c = ch '.'
def ValidScheme (s : Bytes) : Prop := (∃ c rest, s = c :: rest ∧ isAlpha c = true) ∧ s.all schemeChar = true

/-- letters, digits, '-', '.', '_', '~' (no ':' no '%' no brackets): a registered name or dotted IPv4 literal -/
def plainHostChar (c : UInt8) : Bool := isAlpha c || isDigit c || c = ch '-' || c = ch '.' || c = ch '_' || c = ch '~'
def PlainHost (h : Bytes) : Prop := h ≠ [] ∧ h.all plainHostChar = true

/-- user-info without percent-escapes: unreserved, sub-delims and ':' -/
def userinfoChar (c : UInt8) : Bool := isAlpha c || isDigit c || ("-._~!$&'()*+,;=:".toUTF8.toList).contains c
def UserinfoOK (u : Bytes) : Prop := u.all userinfoChar = true

def PathOK (p : Bytes) : Prop :=
  p = [] ∨ ((∃ rest, p = ch '/' :: rest) ∧ p.all (fun c => !(c = ch '?' || c = ch '#' || c = ch '%' || isCTL c)) = true)
def QueryOK (q : Bytes) : Prop := q.all (fun c => !(c = ch '#' || isCTL c)) = true
def FragmentOK (f : Bytes) : Prop := f.all (fun c => !(c = ch '%')) = true

def Parts.WF (p : Parts) : Prop :=
  ValidScheme p.scheme ∧ (∀ u, p.userinfo = some u → UserinfoOK u) ∧ PlainHost p.host ∧
  (∀ q, p.port = some q → q.all isDigit = true) ∧ PathOK p.path ∧ (∀ q, p.query = some q → QueryOK q) ∧
  (∀ f, p.fragment = some f → FragmentOK f)

/-- bytes that can never occur in a host name `url.Parse` reports -/
def neverInHost : Bytes := "/?#@\\".toUTF8.toList

end WebAuthn.Spec.Url
