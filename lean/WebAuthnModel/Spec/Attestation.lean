import WebAuthnModel.Model.Attestation
import WebAuthnModel.Spec.Ceremony
/-
  Declarative acceptance conditions of the seven attestation statement formats (WebAuthn L2 §8.2–§8.8), over the
  views the dependencies provide (parsed certificates, TPM structures, key description, SafetyNet response).
  Each `…OK env o h res` lists every requirement of the property (C04) and the result reported (C05).
  Hand-written; never generated.
-/
namespace WebAuthn.Spec.Att
open WebAuthn Cbor WebAuthn.Att

/-- the elements of `x5c` are byte strings that all parse as certificates: DER bytes paired with the parsed views, in order -/
def X5cList (env : Prog.Env) : List Value → List (Bytes × CertView) → Prop
  | [], [] => True
  | .bytes der :: xs, (d, c) :: cs => d = der ∧ env.answer (.x509Parse der) = .cert c ∧ X5cList env xs cs
  | _, _ => False

/-- the statement's `x5c` member is such an array -/
def X5c (env : Prog.Env) (stmt : List (Bytes × Value)) (certs : List (Bytes × CertView)) : Prop :=
  ∃ xs, stmtGet stmt "x5c" = some (.array xs) ∧ X5cList env xs certs

/-- authenticator data of the object parses and carries attested credential data `acd` -/
def Attested (o : AttObj) (d : AuthData) (acd : AttestedCredentialData) : Prop :=
  ∃ rest, unmarshalAuthData o.authData = some (d, rest) ∧ d.acd = some acd

/-- the credential public key is the supported COSE key `k` -/
def CredKey (acd : AttestedCredentialData) (k : Cose.Key) : Prop := ∃ rest, Cose.parse acd.credentialPublicKey = .ok k rest

/-- the certificate `der` (view `c`) verifies `sig` over `msg` with the X.509 algorithm of COSE algorithm `alg`: the primitive that
    crypto/x509 uses for that algorithm and the kind of the certificate's key answers positively (Model/X509Sig.lean) -/
def CertSigOK (env : Prog.Env) (der : Bytes) (c : CertView) (alg : Int) (msg sig : Bytes) : Prop :=
  X509Sig.Checked env der c.key (Spec.Cose.x509Of alg) msg sig

def s (x : String) : Bytes := Bytes.ofString x

/-! none -/
def NoneOK (res : Result) : Prop := res = ⟨"None", []⟩

/-! packed, x5c present -/
structure PackedX5cOK (env : Prog.Env) (o : AttObj) (h : Bytes) (res : Result) : Prop where
  fmt : o.fmt = s "packed"
  body : ∃ der c rest d acd, X5c env o.stmt ((der, c) :: rest) ∧ Attested o d acd ∧
    -- sig is a signature by the attestation certificate over authData ‖ clientDataHash with `alg`
    CertSigOK env der c (getAlgorithm o.stmt) (o.authData ++ h) (getSignature o.stmt) ∧
    -- certificate requirements (§8.2.1)
    c.version = 3 ∧ c.isCA = false ∧ c.country ≠ [] ∧ c.org ≠ [] ∧ c.orgUnit = s "Authenticator Attestation" ∧ c.commonName ≠ [] ∧
    -- id-fido-gen-ce-aaguid, when present, is non-critical and equals the AAGUID of the authenticator data
    (∀ e, findExt c [1, 3, 6, 1, 4, 1, 45724, 1, 1, 4] = some e →
        e.critical = false ∧ KeyDesc.octetStringExact e.value = some acd.aaguid ∧ acd.aaguid.length = 16) ∧
    res = ⟨"Unknown", der :: rest.map (·.1)⟩

/-! packed, self attestation -/
structure PackedSelfOK (env : Prog.Env) (o : AttObj) (h : Bytes) (res : Result) : Prop where
  fmt : o.fmt = s "packed"
  noX5c : stmtGet o.stmt "x5c" = none
  body : ∃ d acd k, Attested o d acd ∧ CredKey acd k ∧ getAlgorithm o.stmt = k.alg ∧
    (∃ sc hh, Spec.Cose.schemeOf k.kty k.alg = some (sc, hh) ∧
      env.answer (.sigVerify sc hh k.material (o.authData ++ h) (getSignature o.stmt)) = .bool true) ∧
    res = ⟨"Self", []⟩

/-! fido-u2f -/
structure U2FOK (env : Prog.Env) (o : AttObj) (h : Bytes) (res : Result) : Prop where
  body : ∃ der c d acd alg crv x y px py,
    X5c env o.stmt [(der, c)] ∧                                   -- exactly one certificate
    c.key = .ec 1 px py ∧                                          -- with a P-256 EC key
    Attested o d acd ∧ CredKey acd (.ec2 alg crv x y) ∧            -- and an EC2 credential key
    crv = 1 ∧ (Bytes.stripZeros x).length ≤ 32 ∧ (Bytes.stripZeros y).length ≤ 32 ∧   -- on P-256, coordinates of at most 32 bytes (all of them signed)
    CertSigOK env der c alg (u2fMessage d.rpIdHash h acd.credentialId x y) (getSignature o.stmt) ∧
    res = ⟨"Unknown", [der]⟩

/-! tpm -/
structure TpmOK (env : Prog.Env) (o : AttObj) (h : Bytes) (res : Result) : Prop where
  body : ∃ der c rest hashes ciRaw ci paRaw pa d acd k pk paEnc nameAlg nameVal hashId ciEnc,
    X5c env o.stmt ((der, c) :: rest) ∧
    -- certInfo and pubArea decode as TPMS_ATTEST / TPMT_PUBLIC (`Model/Tpm2`, go-tpm's codec), given the hash algorithms linked in
    hashes = Prog.run env askHashes ∧
    stmtBytes o.stmt "certInfo" = some ciRaw ∧ Tpm2.certInfo hashes ciRaw = some ci ∧
    stmtBytes o.stmt "pubArea" = some paRaw ∧ Tpm2.pubArea paRaw = some pa ∧
    Attested o d acd ∧ CredKey acd k ∧
    -- the key in pubArea is the credential public key
    pa.key = some pk ∧ pk ≠ .other ∧ pk = k.material ∧
    -- certInfo: TPM_GENERATED magic, type ATTEST_CERTIFY, extraData = hash_alg(authData ‖ clientDataHash)
    ci.magic = 0xFF544347 ∧ ci.type = 0x8017 ∧
    env.answer (.hash (Spec.Cose.hashOf (getAlgorithm o.stmt)) (o.authData ++ h)) = .bytes ci.extraData ∧
    -- certified name = digest of pubArea under pubArea's name algorithm
    pa.encoded = some paEnc ∧ ci.hasCertifyInfo = true ∧ ci.name = .digest nameAlg nameVal ∧ nameAlg = pa.nameAlg ∧
    Tpm2.hashOf hashes nameAlg = some hashId ∧ env.answer (.hash hashId paEnc) = .bytes nameVal ∧
    -- sig is a signature by the AIK certificate over certInfo
    ci.encoded = some ciEnc ∧ CertSigOK env der c (getAlgorithm o.stmt) ciEnc (getSignature o.stmt) ∧
    -- AIK certificate requirements (§8.3.1)
    c.version = 3 ∧
    -- the SAN carries a directory name with a registered manufacturer, a model and a version (characterised by `C17.hardwareDetails_iff`)
    (∃ details, Tpm.detailsFromSan (sanViews c) = some details) ∧
    [2, 23, 133, 8, 3] ∈ c.unknownEKUs ∧ c.isCA = false ∧
    res = ⟨"AttCA", der :: rest.map (·.1)⟩

/-! android-key -/
structure AndroidKeyOK (env : Prog.Env) (o : AttObj) (h : Bytes) (res : Result) : Prop where
  body : ∃ der c rest d acd k e kd,
    X5c env o.stmt ((der, c) :: rest) ∧ Attested o d acd ∧ CredKey acd k ∧
    CertSigOK env der c (getAlgorithm o.stmt) (o.authData ++ h) (getSignature o.stmt) ∧
    -- the certificate key is the credential public key
    c.key ≠ .other ∧ c.key = k.material ∧
    findExt c [1, 3, 6, 1, 4, 1, 11129, 2, 1, 17] = some e ∧ KeyDesc.view e.value = some kd ∧
    kd.challenge = h ∧
    -- allApplications absent from both lists; TEE list: origin GENERATED, purpose SIGN
    kd.swAllApplications = false ∧ kd.teeAllApplications = false ∧ kd.teeOrigin = 0 ∧ (2 : Int) ∈ kd.teePurpose ∧
    res = ⟨"Basic", der :: rest.map (·.1)⟩

/-! apple -/
structure AppleOK (env : Prog.Env) (o : AttObj) (h : Bytes) (res : Result) : Prop where
  body : ∃ der c rest d acd k e,
    X5c env o.stmt ((der, c) :: rest) ∧ Attested o d acd ∧ CredKey acd k ∧
    findExt c [1, 2, 840, 113635, 100, 8, 2] = some e ∧
    KeyDesc.appleNonce e.value = some (Spec.sha256 env (o.authData ++ h)) ∧
    -- the certificate key is the credential public key
    c.key ≠ .other ∧ c.key = k.material ∧
    res = ⟨"AnonCA", der :: rest.map (·.1)⟩

/-! android-safetynet -/

/-- every entry of the protected header's `x5c` parses as a certificate: DER bytes paired with the parsed views, in order -/
def ChainParsed (env : Prog.Env) : List Bytes → List (Bytes × CertView) → Prop
  | [], [] => True
  | der :: ds, (d, c) :: cs => d = der ∧ env.answer (.x509Parse der) = .cert c ∧ ChainParsed env ds cs
  | _, _ => False

/-- what the dependency steps establish about the SafetyNet response `raw`, and the nonce its payload carries.
    * compact serialisation (`Jws.parse`, `Jws.claims` are Lean functions): the token has the three base64url parts, its protected
      header decodes, every `x5c` entry is a certificate, the first one validates for `attest.android.com` with the others as
      intermediates, go-jose reaches the signature check and the signature over the signing input verifies under that first certificate's
      key with the primitive the header's `alg` names for that key kind (`Jws.SignedBy`, Model/JwsVerify.lean),
      and the payload decodes as SafetyNet claims with this `nonce`;
    * the forms the Lean model does not cover (JSON serialisation, a "jwk" header): the opaque answer of the dependency, as before. -/
inductive SafetyNetResponse (env : Prog.Env) (raw : Bytes) (nonce : Bytes) : Prop where
  | compact (c : Jws.Compact) (der : Bytes) (cert : CertView) (rest : List (Bytes × CertView))
      (parsed : Jws.parse raw = .ok c)
      (chain : ChainParsed env c.x5c ((der, cert) :: rest))
      (trusted : env.answer (.x509Verify der (rest.map (·.1)) safetyNetDNSName) = .bool true)
      (signed : Jws.SignedBy env raw c der cert.key)
      (claims : Jws.claims c.payload = some nonce)
  | opaque (v : SafetyNetView)
      (unmodelled : Jws.parse raw = .unmodelled)
      (answer : env.answer (.safetyNet raw) = .safetyNet v)
      (parsed : v.parsed = true) (chains : v.chainsOK = true) (claims : v.claimsOK = true)
      (nonce_eq : v.nonce = nonce)

structure SafetyNetOK (env : Prog.Env) (o : AttObj) (h : Bytes) (res : Result) : Prop where
  body : ∃ raw nonce, stmtBytes o.stmt "response" = some raw ∧ SafetyNetResponse env raw nonce ∧
    nonce = Spec.sha256 env (o.authData ++ h) ∧
    res = ⟨"Basic", []⟩

/-- dispatch on the exact format identifier -/
def FormatOK (env : Prog.Env) (o : AttObj) (h : Bytes) (res : Result) : Prop :=
  (o.fmt = s "none" ∧ NoneOK res) ∨
  (o.fmt = s "packed" ∧ (PackedX5cOK env o h res ∨ PackedSelfOK env o h res)) ∨
  (o.fmt = s "fido-u2f" ∧ U2FOK env o h res) ∨
  (o.fmt = s "tpm" ∧ TpmOK env o h res) ∨
  (o.fmt = s "android-key" ∧ AndroidKeyOK env o h res) ∨
  (o.fmt = s "apple" ∧ AppleOK env o h res) ∨
  (o.fmt = s "android-safetynet" ∧ SafetyNetOK env o h res)

/-! idealised cryptographic assumptions, as explicit hypotheses on the environment (never axioms) -/

/-- a signature verifies for at most one message under a given certificate / key -/
def SigBinds (env : Prog.Env) : Prop :=
  (∀ der alg m m' sg, env.answer (.x509CheckSig der alg m sg) = .bool true → env.answer (.x509CheckSig der alg m' sg) = .bool true → m = m') ∧
  (∀ sc hh k m m' sg, env.answer (.sigVerify sc hh k m sg) = .bool true → env.answer (.sigVerify sc hh k m' sg) = .bool true → m = m')

/-- hashes are collision-free -/
def HashInj (env : Prog.Env) : Prop :=
  (∀ d d' v, env.answer (.sha256 d) = .bytes v → env.answer (.sha256 d') = .bytes v → d = d') ∧
  (∀ id d d' v, env.answer (.hash id d) = .bytes v → env.answer (.hash id d') = .bytes v → d = d')

end WebAuthn.Spec.Att
