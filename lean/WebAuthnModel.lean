import WebAuthnModel.Basic.Bytes
